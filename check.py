#!/usr/bin/env python3
"""./check.py Cxx [--tier quick|thorough] [--seed N] [--replay file]

Decides property Cxx on /repo's current working tree:
  1. rebuilds the harness against /repo and the Lean theorems + driver,
  2. audits the property's theorems (elaborated now, axioms within the allowed set),
  3. runs the correspondence (real crate vs Lean model) and the property's oracle (Lean Spec),
  4. classifies failures against known_findings.json, writes evidence/Cxx.json,
  5. exit 0 / exit 1 with `VIOLATION property=Cxx replay=<path>`.
"""
import argparse
import json
import os
import sys

try:  # the transcendental search oracle needs mpmath, which lives in the tooling venv
    import mpmath  # noqa: F401
except Exception:
    import shutil
    vt = shutil.which("python3-vt")
    if vt and os.environ.get("ARP_REEXEC") != "1":
        os.environ["ARP_REEXEC"] = "1"
        os.execv(vt, [vt] + sys.argv)
sys.path.insert(0, os.path.dirname(os.path.abspath(__file__)))
from vlib import engine, props  # noqa: E402


def main():
    ap = argparse.ArgumentParser()
    ap.add_argument("pid")
    ap.add_argument("--tier", default=os.environ.get("VERIF_TIER", "quick"))
    ap.add_argument("--seed", type=int, default=int(os.environ.get("VERIF_SEED", "1") or 1))
    ap.add_argument("--replay")
    a = ap.parse_args()
    if a.tier not in ("quick", "thorough"):
        a.tier = "quick"
    if a.pid not in props.PROPS:
        print("unknown property", a.pid)
        return 2
    ctx = engine.Ctx(a.pid, a.tier, a.seed)
    if a.replay:
        return props.replay(ctx, a.replay)
    try:
        return props.PROPS[a.pid](ctx)
    except Exception:
        # the machinery itself failed on this tree (an answer it cannot digest): the property is no longer shown to hold
        import time
        import traceback
        from vlib import run
        tb = traceback.format_exc()
        os.makedirs(os.path.join(run.OUT, "replays"), exist_ok=True)
        path = os.path.join(run.OUT, "replays", "%s-%d-%d-crash.json" % (a.pid, a.seed, int(time.time())))
        json.dump({"property": a.pid, "tier": a.tier, "seed": a.seed, "kind": "broken", "cases": [],
                   "broken_obligations": [{"what": "the check crashed while judging the implementation's answers", "log": tb[-3000:]}],
                   "failures_before_the_crash": [f.to_json() for f in (ctx.failures + ctx.disagreements)[:20]]}, open(path, "w"), indent=1)
        sys.stderr.write(tb)
        print("VIOLATION property=%s replay=%s no-failing-input-found" % (a.pid, path))
        return 1


if __name__ == "__main__":
    sys.exit(main())
