#!/bin/sh
# Build the framework offline from files on disk: Lean theorems + driver, Rust harness (both profiles).
set -e
cd "$(dirname "$0")"
mkdir -p work evidence replays
(cd lean && lake build)
(cd harness && CARGO_NET_OFFLINE=true cargo build --offline --release && CARGO_NET_OFFLINE=true cargo build --offline --profile dbg)
