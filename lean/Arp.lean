import Arp.Model.Proto
