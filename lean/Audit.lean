import Lean
/-!
`lake env lean --run Audit.lean <Module> <FullTheoremName>...`
For each name prints `THM <name> <axiom,axiom,...>` if it is a theorem of the kernel
environment of the compiled module, else `MISSING <name>`.
With a single extra argument of the form `ns:<Namespace>` lists every theorem of that namespace.
-/
open Lean

def axiomsOf (env : Environment) (n : Name) : IO (List String) := do
  let ctx : Core.Context := { fileName := "<audit>", fileMap := default }
  let cst : Core.State := { env := env }
  let (arr, _) ← (collectAxioms n : CoreM (Array Name)).toIO ctx cst
  return arr.toList.map (·.toString)

def main (args : List String) : IO UInt32 := do
  match args with
  | modS :: rest =>
    initSearchPath (← findSysroot)
    let env ← importModules #[{ module := modS.toName }] {} (trustLevel := 1024)
    for a in rest do
      if a.startsWith "ns:" then
        let ns := (a.drop 3).toString.toName
        let mut names : Array Name := #[]
        for (n, ci) in env.constants.toList do
          if ns.isPrefixOf n && n != ns then
            match ci with
            | .thmInfo _ => if !n.isInternalDetail then names := names.push n
            | _ => pure ()
        for n in names.qsort (fun a b => a.toString < b.toString) do
          IO.println s!"THM {n} {",".intercalate (← axiomsOf env n)}"
      else
        let n := a.toName
        match env.find? n with
        | some (.thmInfo _) => IO.println s!"THM {n} {",".intercalate (← axiomsOf env n)}"
        | some _ => IO.println s!"NOTTHM {n}"
        | none => IO.println s!"MISSING {n}"
    return 0
  | _ => IO.eprintln "usage: Audit <Module> <names...>"; return 1
