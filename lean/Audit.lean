import Lean
/-!
`lake env lean --run Audit.lean <Module> <Namespace>`
prints `THM <name> <axiom,axiom,...>` for every theorem whose name starts with `<Namespace>.`
declared in `<Module>`, using the kernel environment of the compiled module.
-/
open Lean

def main (args : List String) : IO UInt32 := do
  match args with
  | [modS, nsS] =>
    initSearchPath (← findSysroot)
    let mod := modS.toName
    let ns := nsS.toName
    let env ← importModules #[{ module := mod }] {} (trustLevel := 1024)
    let mut names : Array Name := #[]
    for (n, ci) in env.constants.toList do
      if ns.isPrefixOf n && n != ns then
        match ci with
        | .thmInfo _ =>
          if !n.isInternalDetail then names := names.push n
        | _ => pure ()
    let sorted := names.qsort (fun a b => a.toString < b.toString)
    for n in sorted do
      let ctx : Core.Context := { fileName := "<audit>", fileMap := default }
      let cst : Core.State := { env := env }
      let (arr, _) ← (collectAxioms n : CoreM (Array Name)).toIO ctx cst
      let axs := arr.toList.map (·.toString)
      IO.println s!"THM {n} {",".intercalate axs}"
    return 0
  | _ => IO.eprintln "usage: Audit <Module> <Namespace>"; return 1
