import Arp.Spec.Round
/-!
# Specification of the operations (from the text of C01–C12), for canonical operands
-/
namespace Arp
namespace Spec

def isNan (x : Flt) : Bool := x.cat == .nan
def isInf (x : Flt) : Bool := x.cat == .inf
def isFin (x : Flt) : Bool := x.cat == .zero || x.cat == .normal
def isZero (x : Flt) : Bool := x.cat == .zero

/-- C01 + C03: sum (the sign of `b` already flipped for a difference). -/
def add (F : Sem) (rm : RM) (a b : Flt) : Res :=
  if isNan a || isNan b then .nan
  else if isInf a && isInf b then (if a.sign == b.sign then .inf a.sign else .nan)
  else if isInf a then .inf a.sign
  else if isInf b then .inf b.sign
  else if isZero a && isZero b && a.sign == b.sign then .zero a.sign
  else roundQ F rm (a.val + b.val) (rm == .neg)

def sub (F : Sem) (rm : RM) (a b : Flt) : Res := add F rm a { b with sign := !b.sign }

def mul (F : Sem) (rm : RM) (a b : Flt) : Res :=
  let s := a.sign ^^ b.sign
  if isNan a || isNan b then .nan
  else if (isInf a && isZero b) || (isZero a && isInf b) then .nan
  else if isInf a || isInf b then .inf s
  else if isZero a || isZero b then .zero s
  else round F rm s (a.mag * b.mag)

def div (F : Sem) (rm : RM) (a b : Flt) : Res :=
  let s := a.sign ^^ b.sign
  if isNan a || isNan b then .nan
  else if (isInf a && isInf b) || (isZero a && isZero b) then .nan
  else if isInf b then .zero s
  else if isInf a then .inf s
  else if isZero b then .inf s
  else if isZero a then .zero s
  else round F rm s (a.mag / b.mag)

/-- C06 -/
def cast (G : Sem) (rm : RM) (x : Flt) : Res :=
  match x.cat with
  | .nan => .nan
  | .inf => .inf x.sign
  | .zero => .zero x.sign
  | .normal => round G rm x.sign x.mag

/-- Beyond `±scaleBound F` every further factor of two leaves the rounded result
    unchanged (deep overflow / deep underflow), so the executable spec clamps `k`
    there instead of forming `2^k` for `|k|` up to `2^40` (theorem `Arp.C10.scale_clamp`). -/
def scaleBound (F : Sem) : Int := 2 * ((2 ^ F.e : Nat) : Int) + 2 * (F.p : Int) + 8

def clampK (F : Sem) (k : Int) : Int := max (-(scaleBound F)) (min (scaleBound F) k)

/-- C10: `x · 2^k` rounded once -/
def scale (rm : RM) (k : Int) (x : Flt) : Res :=
  match x.cat with
  | .nan => .nan
  | .inf => .inf x.sign
  | .zero => .zero x.sign
  | .normal => round x.sem rm x.sign (x.mag * pow2 (clampK x.sem k))

/-- C08: loading a natural number -/
def fromNat (F : Sem) (rm : RM) (n : Nat) : Res := roundQ F rm (n : Rat) false
/-- C08: loading an integer (nearest-even, sign kept) -/
def fromInt (F : Sem) (v : Int) : Res :=
  if v = 0 then .zero false
  else if v < 0 then round F .nte true (v.natAbs : Rat) else round F .nte false (v.natAbs : Rat)

/-- round a rational to an integer under `rm` (sign-magnitude) -/
def roundInt (rm : RM) (v : Rat) : Int :=
  let neg := decide (v < 0)
  let a := if neg then -v else v
  let m := a.floor.toNat
  let n := if up rm neg m (a - (m : Rat)) then m + 1 else m
  if neg then -(n : Int) else (n : Int)

def clampI64 (v : Int) : Int :=
  if v < -(2 ^ 63 : Nat) then -(2 ^ 63 : Nat) else if v > (2 ^ 63 : Nat) - 1 then (2 ^ 63 : Nat) - 1 else v

/-- C08: `to_i64` -/
def toI64 (x : Flt) : Int :=
  match x.cat with
  | .nan | .zero => 0
  | .inf => if x.sign then -(2 ^ 63 : Nat) else (2 ^ 63 : Nat) - 1
  | .normal => clampI64 (roundInt x.sem.rm x.val)

/-- C10: discard the fraction, keep the sign -/
def trunc (x : Flt) : Res :=
  match x.cat with
  | .nan => .nan
  | .inf => .inf x.sign
  | .zero => .zero x.sign
  | .normal => roundQ x.sem .zero ((if x.sign then -1 else 1) * (x.mag.floor : Rat)) x.sign

/-- C10: nearest integer, ties away, keep the sign -/
def roundHalfAway (x : Flt) : Option Res :=
  match x.cat with
  | .nan => some .nan
  | .inf => some (.inf x.sign)
  | .zero => some (.zero x.sign)
  | .normal =>
      let n : Rat := ((x.mag + 1/2).floor : Rat)
      -- "whenever that integer is finite in the format": no requirement otherwise
      if n > ((2 ^ x.sem.p - 1 : Nat) : Rat) * pow2 (x.sem.emax - (x.sem.p - 1)) then none
      else some (roundQ x.sem .zero ((if x.sign then -1 else 1) * n) x.sign)

/-- C05: order of the denoted extended reals; `none` iff unordered -/
def ext (x : Flt) : Int × Rat :=
  match x.cat with
  | .inf => (if x.sign then -1 else 1, 0)
  | _ => (0, x.val)

def cmp (a b : Flt) : Option Ordering :=
  if isNan a || isNan b then none
  else
    let ka := ext a
    let kb := ext b
    if ka.1 < kb.1 then some .lt else if ka.1 > kb.1 then some .gt
    else if ka.2 < kb.2 then some .lt else if ka.2 > kb.2 then some .gt else some .eq

/-- C05: `min`; `-0` is below `+0`; a NaN operand yields the other operand -/
def min (a b : Flt) : Flt :=
  if isNan a then b else if isNan b then a
  else match cmp a b with
    | some .lt => a
    | some .gt => b
    | _ => if a.sign then a else b

def max (a b : Flt) : Flt :=
  if isNan a then b else if isNan b then a
  else match cmp a b with
    | some .lt => b
    | some .gt => a
    | _ => if a.sign then b else a

/-- C11: exact truncated remainder -/
def rem (x y : Flt) : Res :=
  if isNan x || isNan y || isInf x || isZero y then .nan
  else if isZero x then .zero x.sign
  else if isInf y then x.toRes
  else
    let q := x.val / y.val
    let n : Int := if q < 0 then -((-q).floor) else q.floor
    roundQ x.sem .zero (x.val - (n : Rat) * y.val) x.sign

/-- value of the true remainder (to check that `rem`'s rounding was exact) -/
def remVal (x y : Flt) : Rat :=
  let q := x.val / y.val
  let n : Int := if q < 0 then -((-q).floor) else q.floor
  x.val - (n : Rat) * y.val

/-- unit in the last place of a finite value of format `F` with exponent field `e` -/
def ulpOf (F : Sem) (e : Int) : Rat := pow2 (e - (F.p - 1))

/-- C12: `r` within `k` ulps (of `r`) of `√x`, stated without reals:
    `(r - k·ulp)² < x < (r + k·ulp)²` (left part only when `r - k·ulp > 0`);
    `strict = false` allows equality (used for "at most"). -/
def sqrtWithin (x r : Flt) (k : Nat) (strict : Bool) : Bool :=
  r.cat == .normal && !r.sign &&
  (let u := ulpOf r.sem r.exp * (k : Rat)
   let lo := r.mag - u
   let hi := r.mag + u
   let okLo := if lo ≤ 0 then true else if strict then lo * lo < x.mag else lo * lo ≤ x.mag
   let okHi := if strict then x.mag < hi * hi else x.mag ≤ hi * hi
   okLo && okHi)

end Spec
end Arp
