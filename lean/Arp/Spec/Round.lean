import Arp.Model.Basic
/-!
# Specification — written from the property text, not from the code

Exact arithmetic on core `Rat`, then ONE rounding function (`Spec.round`,
IEEE-754 §4.3 / §7.4 plus the crate's extra mode `None` = truncate in range,
infinity beyond it).  Core-only and executable: the driver evaluates it as the
oracle, and `Arp/Lemmas`/`Arp/Props` prove declarative characterisations of it
(in ℚ, with Mathlib) so that its arithmetic need not be trusted.
-/
namespace Arp

/-- Result of a rounding operation, as the property text describes it. -/
inductive Res
  | zero (neg : Bool)
  | fin (neg : Bool) (exp : Int) (mant : Nat)
  | inf (neg : Bool)
  | nan
  deriving DecidableEq, Repr, Inhabited

/-- `2^e` for integer `e`, in `Rat`. -/
def pow2 (e : Int) : Rat :=
  if 0 ≤ e then ((2 ^ e.toNat : Nat) : Rat) else 1 / ((2 ^ (-e).toNat : Nat) : Rat)

/-- `⌊log₂ q⌋` for `q > 0`. -/
def ilog2 (q : Rat) : Int :=
  let e0 : Int := (msb q.num.natAbs : Int) - (msb q.den : Int)
  if pow2 e0 ≤ q then e0 else e0 - 1

/-- Overflow table (C02). -/
def Spec.overflow (F : Sem) (rm : RM) (neg : Bool) : Res :=
  let max := Res.fin neg F.emax (2 ^ F.p - 1)
  match rm with
  | .none | .nte | .nta => .inf neg
  | .zero => max
  | .pos => if neg then max else .inf neg
  | .neg => if neg then .inf neg else max

/-- Step 3: does the discarded fraction `f ∈ [0,1)` round the magnitude up
    (away from zero)? -/
def Spec.up (rm : RM) (neg : Bool) (m : Nat) (f : Rat) : Bool :=
  f ≠ 0 && (match rm with
    | .pos => !neg | .neg => neg | .zero | .none => false
    | .nta => decide (1/2 ≤ f)
    | .nte => decide (1/2 < f) || (decide (f = 1/2) && m % 2 == 1))

/-- Steps 4-6: carry into the next binade, overflow table, zero. -/
def Spec.finish (F : Sem) (rm : RM) (neg : Bool) (e : Int) (m : Nat) (up : Bool) : Res :=
  let m' := if up then m + 1 else m
  if m' = 2 ^ F.p then
    (if e + 1 > F.emax then Spec.overflow F rm neg else .fin neg (e + 1) (2 ^ (F.p - 1)))
  else if e > F.emax then Spec.overflow F rm neg
  else if m' = 0 then .zero neg
  else .fin neg e m'

/-- Round the magnitude `q > 0` with sign `neg` into format `F` under `rm`. -/
def Spec.round (F : Sem) (rm : RM) (neg : Bool) (q : Rat) : Res :=
  let e := max (ilog2 q) F.emin
  let t := q / pow2 (e - (F.p - 1))
  let m := t.floor.toNat
  Spec.finish F rm neg e m (Spec.up rm neg m (t - (m : Rat)))

/-- Round a signed rational; an exact zero takes the sign `zneg`. -/
def Spec.roundQ (F : Sem) (rm : RM) (q : Rat) (zneg : Bool) : Res :=
  if q = 0 then .zero zneg
  else if 0 < q then Spec.round F rm false q
  else Spec.round F rm true (-q)

def Flt.toRes (x : Flt) : Res :=
  match x.cat with
  | .zero => .zero x.sign
  | .inf => .inf x.sign
  | .nan => .nan
  | .normal => .fin x.sign x.exp x.mant

/-- magnitude of a finite value: `mant · 2^(exp-(p-1))` -/
def Flt.mag (x : Flt) : Rat := (x.mant : Rat) * pow2 (x.exp - (x.sem.p - 1))

/-- signed value of a finite value (zeros are 0) -/
def Flt.val (x : Flt) : Rat :=
  match x.cat with
  | .normal => if x.sign then -x.mag else x.mag
  | _ => 0

/-- value of a `Res` in the format `F` (finite results only) -/
def Res.val (F : Sem) : Res → Rat
  | .fin neg e m => (if neg then -1 else 1) * (m : Rat) * pow2 (e - (F.p - 1))
  | _ => 0

end Arp
