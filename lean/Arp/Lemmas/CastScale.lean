import Arp.Lemmas.Defs
import Arp.Model.Cast
/-!
# Helper lemmas for cast / scale / integer loads (C06, C08, C10)
-/
namespace Arp

instance (x : Flt) : Decidable x.Canonical := by unfold Flt.Canonical; infer_instance
instance (s : Sem) : Decidable s.WF := by unfold Sem.WF; infer_instance

theorem msb_le_of_lt_cs {m p : Nat} (h : m < 2 ^ p) : msb m ≤ p := by
  by_contra hc
  by_cases hm : m = 0
  · subst hm; simp [msb] at hc
  · have h1 := msb_le hm
    have h2 : 2 ^ p ≤ 2 ^ (msb m - 1) := Nat.pow_le_pow_right (by norm_num) (by omega)
    omega

theorem lt_msb_of_le_cs {m k : Nat} (h : 2 ^ k ≤ m) : k < msb m :=
  (Nat.pow_lt_pow_iff_right (by norm_num)).mp (lt_of_le_of_lt h (lt_msb m))

/-- a canonical normal value is a fixed point of `normalize` (no loss) -/
theorem normalize_canonical_cs (x : Flt) (rm : RM) (hx : x.cat = .normal) (hc : x.Canonical) :
    x.normalize rm .zero = x := by
  obtain ⟨h1, h2, h3, h4, h5⟩ := (Flt.canonical_normal hx).mp hc
  obtain ⟨s, sg, ex, m, c⟩ := x
  simp only at hx h1 h2 h3 h4 h5
  subst hx
  have hle : msb m ≤ s.p := msb_le_of_lt_cs h4
  have hpos : 0 < msb m := msb_pos (ne_of_gt h3)
  have hm0 : m ≠ 0 := ne_of_gt h3
  unfold Flt.normalize
  simp only [ne_eq, not_true_eq_false, if_false]
  rw [if_pos (by exact_mod_cast hpos)]
  rw [if_neg (by omega)]
  have hec : (if ex + ((msb m : Int) - s.p) < s.emin then s.emin - ex else (msb m : Int) - s.p) = 0 := by
    rcases h5 with h5 | h5
    · have := lt_msb_of_le_cs h5
      rw [if_neg (by omega)]; omega
    · split <;> omega
  rw [hec]
  simp [Flt.normalize.stepII, hm0]

/-- Rounding a representable value is the identity, in every mode. -/
theorem round_canonical_exact_cs (x : Flt) (rm : RM) (hF : x.sem.WF) (hx : x.cat = .normal)
    (hc : x.Canonical) : Spec.round x.sem rm x.sign x.mag = .fin x.sign x.exp x.mant := by
  obtain ⟨h1, h2, h3, h4, h5⟩ := (Flt.canonical_normal hx).mp hc
  have hd : Denotes x.sem.p x.mant x.exp .zero x.mag :=
    ⟨0, le_refl _, by norm_num, by simp [cls], by rw [Flt.mag_eq]; ring⟩
  have := normalize_denotes x rm .zero x.mag hF hx (ne_of_gt h3) hd (fun _ _ => rfl)
  rw [normalize_canonical_cs x rm hx hc] at this
  rw [← this]; simp [Flt.toRes, hx]

/-! ### `normalize` with no loss rounds the denoted value -/

theorem normalize_exact (y : Flt) (rm : RM) (q : ℚ) (hF : y.sem.WF) (hy : y.cat = .normal)
    (hm : y.mant ≠ 0) (hq : q = (y.mant : ℚ) * (2 : ℚ) ^ (y.exp - ((y.sem.p : Int) - 1))) :
    (y.normalize rm .zero).toRes = Spec.round y.sem rm y.sign q :=
  normalize_denotes y rm .zero q hF hy hm
    ⟨0, le_refl _, by norm_num, by simp [cls], by rw [hq]; ring⟩ (fun _ _ => rfl)

theorem stepII_sem_cs (rm : RM) (y : Flt) (l : Loss) : (Flt.normalize.stepII rm y l).sem = y.sem := by
  unfold Flt.normalize.stepII
  simp only
  split_ifs <;> simp [Flt.zero, Flt.inf]

theorem overflow_sem_cs (x : Flt) (rm : RM) : (x.overflow rm).sem = x.sem := by
  unfold Flt.overflow Flt.new
  cases rm <;> simp only <;> (repeat' split) <;> simp [Flt.zero, Flt.inf]

theorem normalize_sem_cs (x : Flt) (rm : RM) (l : Loss) : (x.normalize rm l).sem = x.sem := by
  unfold Flt.normalize
  simp only
  split_ifs <;> simp [stepII_sem_cs, overflow_sem_cs]

/-- a value is determined by its format and its `.fin` result -/
theorem Flt.eq_of_toRes_fin {y : Flt} {F : Sem} {s : Bool} {e : Int} {m : Nat}
    (hs : y.sem = F) (h : y.toRes = .fin s e m) : y = ⟨F, s, e, m, .normal⟩ := by
  obtain ⟨ys, ysg, ye, ym, yc⟩ := y
  simp only at hs; subst hs
  cases yc <;> simp [Flt.toRes] at h
  obtain ⟨rfl, rfl, rfl⟩ := h; rfl

theorem Flt.eq_of_toRes_eq {x y : Flt} (hs : x.sem = y.sem) (hy : y.cat = .normal)
    (h : x.toRes = y.toRes) : x = y := by
  have hy' : y.toRes = .fin y.sign y.exp y.mant := by simp [Flt.toRes, hy]
  rw [hy'] at h
  rw [Flt.eq_of_toRes_fin hs h]
  obtain ⟨ys, ysg, ye, ym, yc⟩ := y
  simp only at hy; subst hy; rfl

/-! ### Representable values: construction of the canonical representative -/

/-- `M·2^E` with `M < 2^p`, `E` at or above the exponent of the smallest subnormal and the
    leading bit at or below `emax` is the magnitude of a canonical normal value. -/
theorem exists_canonical (F : Sem) (hF : F.WF) (s : Bool) (M : Nat) (E : Int) (hM : M ≠ 0)
    (hMp : M < 2 ^ F.p) (hE : F.emin - ((F.p : Int) - 1) ≤ E)
    (hhi : E + (msb M : Int) - 1 ≤ F.emax) :
    ∃ y : Flt, y.sem = F ∧ y.cat = .normal ∧ y.Canonical ∧ y.sign = s ∧
      y.mag = (M : ℚ) * (2 : ℚ) ^ E := by
  set n := msb M with hn
  have hn1 : 1 ≤ n := msb_pos hM
  have hnp : n ≤ F.p := msb_le_of_lt_cs hMp
  have hlo : 2 ^ (n - 1) ≤ M := msb_le hM
  have hlt : M < 2 ^ n := lt_msb M
  have hmm := Sem.emin_le_emax hF
  obtain ⟨e, he⟩ : ∃ e : Int, e = max (E + n - 1) F.emin := ⟨_, rfl⟩
  have he1 : F.emin ≤ e := by omega
  have he2 : E + n - 1 ≤ e := by omega
  have he3 : e ≤ F.emax := by omega
  have he4 : e = F.emin ∨ e = E + n - 1 := by omega
  obtain ⟨k, hk⟩ : ∃ k : Nat, (k : Int) = E - e + F.p - 1 := ⟨(E - e + F.p - 1).toNat, by omega⟩
  have hnk : n + k ≤ F.p := by omega
  refine ⟨⟨F, s, e, M <<< k, .normal⟩, rfl, rfl, ?_, rfl, ?_⟩
  · rw [Flt.canonical_normal rfl]
    simp only
    refine ⟨he1, he3, ?_, ?_, ?_⟩
    · rw [Nat.shiftLeft_eq]; exact Nat.mul_pos (Nat.pos_of_ne_zero hM) (by positivity)
    · rw [Nat.shiftLeft_eq]
      calc M * 2 ^ k < 2 ^ n * 2 ^ k := Nat.mul_lt_mul_of_pos_right hlt (by positivity)
        _ = 2 ^ (n + k) := (Nat.pow_add 2 n k).symm
        _ ≤ 2 ^ F.p := Nat.pow_le_pow_right (by norm_num) hnk
    · rcases he4 with h | h
      · right; exact h
      · left
        have hkk : n - 1 + k = F.p - 1 := by omega
        rw [Nat.shiftLeft_eq, ← hkk, Nat.pow_add]
        exact Nat.mul_le_mul_right _ hlo
  · rw [Flt.mag_eq]
    simp only
    rw [Nat.shiftLeft_eq]; push_cast
    have : (2 : ℚ) ^ k * (2 : ℚ) ^ (e - ((F.p : Int) - 1)) = (2 : ℚ) ^ E := by
      rw [← zpow_natCast, ← zpow_add₀ (by norm_num : (2 : ℚ) ≠ 0)]; congr 1; omega
    rw [mul_assoc, this]

/-! ### Exponent range in closed form -/

theorem Sem.emax_eq {s : Sem} (h : 1 ≤ s.e) : s.emax = ((2 ^ (s.e - 1) : Nat) : Int) - 1 := by
  unfold Sem.emax Sem.bias
  obtain ⟨k, hk⟩ : ∃ k, s.e = k + 1 := ⟨s.e - 1, by omega⟩
  rw [hk, show k + 1 - 1 = k by omega, Nat.pow_succ]
  push_cast; ring

theorem Sem.emin_eq (s : Sem) : s.emin = 2 - ((2 ^ (s.e - 1) : Nat) : Int) := by
  unfold Sem.emin Sem.bias; ring

theorem Sem.emax_mono {F G : Sem} (hF : 1 ≤ F.e) (h : F.e ≤ G.e) : F.emax ≤ G.emax := by
  rw [Sem.emax_eq hF, Sem.emax_eq (by omega)]
  have : 2 ^ (F.e - 1) ≤ 2 ^ (G.e - 1) := Nat.pow_le_pow_right (by norm_num) (by omega)
  omega

theorem Sem.emin_anti {F G : Sem} (h : F.e ≤ G.e) : G.emin ≤ F.emin := by
  rw [Sem.emin_eq, Sem.emin_eq]
  have : 2 ^ (F.e - 1) ≤ 2 ^ (G.e - 1) := Nat.pow_le_pow_right (by norm_num) (by omega)
  omega

/-- `emax - emin = 2^e - 3` -/
theorem Sem.range_eq {s : Sem} (h : 1 ≤ s.e) : s.emax - s.emin = ((2 ^ s.e : Nat) : Int) - 3 := by
  rw [Sem.emax_eq h, Sem.emin_eq]
  obtain ⟨k, hk⟩ : ∃ k, s.e = k + 1 := ⟨s.e - 1, by omega⟩
  rw [hk, show k + 1 - 1 = k by omega, Nat.pow_succ]
  push_cast; ring

/-! ### Far out of range: overflow and deep underflow -/

theorem round_huge (F : Sem) (rm : RM) (s : Bool) (q : ℚ) (hq : (2 : ℚ) ^ (F.emax + 1) ≤ q) :
    Spec.round F rm s q = Spec.overflow F rm s := by
  have hqpos : 0 < q := lt_of_lt_of_le (by positivity) hq
  obtain ⟨_, hb⟩ := ilog2_spec hqpos
  have hlt : F.emax + 1 < ilog2 q + 1 := by
    by_contra hc
    have : (2 : ℚ) ^ (ilog2 q + 1) ≤ 2 ^ (F.emax + 1) :=
      zpow_le_zpow_right₀ (by norm_num) (by omega)
    linarith
  unfold Spec.round
  simp only
  exact finish_overflow _ _ _ _ _ _ (by omega)

/-- result of rounding a positive magnitude below half of the smallest subnormal -/
def Spec.tiny (F : Sem) (rm : RM) (s : Bool) : Res :=
  if (rm = .pos ∧ s = false) ∨ (rm = .neg ∧ s = true) then .fin s F.emin 1 else .zero s

theorem round_tiny (F : Sem) (hF : F.WF) (rm : RM) (s : Bool) (q : ℚ) (h0 : 0 < q)
    (h1 : q < (2 : ℚ) ^ (F.emin - (F.p : Int))) : Spec.round F rm s q = Spec.tiny F rm s := by
  obtain ⟨ha, _⟩ := ilog2_spec h0
  have hlt : ilog2 q < F.emin - (F.p : Int) := by
    by_contra hc
    have : (2 : ℚ) ^ (F.emin - (F.p : Int)) ≤ 2 ^ (ilog2 q) :=
      zpow_le_zpow_right₀ (by norm_num) (by omega)
    linarith
  have hmax : max (ilog2 q) F.emin = F.emin := by omega
  have hmm := Sem.emin_le_emax hF
  unfold Spec.round
  simp only [hmax]
  set t := q / pow2 (F.emin - ((F.p : Int) - 1)) with ht
  have hpp := pow2_pos (F.emin - ((F.p : Int) - 1))
  have ht0 : 0 < t := div_pos h0 hpp
  have ht1 : t < 1 / 2 := by
    rw [ht, div_lt_iff₀ hpp, pow2_eq]
    have : (2 : ℚ) ^ (F.emin - (F.p : Int)) = 1 / 2 * (2 : ℚ) ^ (F.emin - ((F.p : Int) - 1)) := by
      rw [show F.emin - ((F.p : Int) - 1) = (F.emin - (F.p : Int)) + 1 by ring,
        zpow_add₀ (by norm_num : (2 : ℚ) ≠ 0), zpow_one]; ring
    rw [← this]; exact h1
  have hfl : t.floor.toNat = 0 := by
    have : ⌊t⌋ = 0 := by
      rw [Int.floor_eq_iff]; constructor
      · push_cast; linarith
      · push_cast; linarith
    rw [show t.floor = ⌊t⌋ from rfl, this]; rfl
  rw [hfl]
  simp only [Nat.cast_zero, sub_zero]
  have hup : Spec.up rm s 0 t = decide ((rm = .pos ∧ s = false) ∨ (rm = .neg ∧ s = true)) := by
    unfold Spec.up
    rw [show (decide (t ≠ 0)) = true from decide_eq_true (ne_of_gt ht0), Bool.true_and]
    cases rm with
    | nta => rw [decide_eq_false (by linarith : ¬ (1 / 2 ≤ t))]; simp
    | nte =>
      rw [decide_eq_false (by linarith : ¬ (1 / 2 < t)), decide_eq_false (ne_of_lt ht1)]; simp
    | none => simp
    | zero => simp
    | pos => cases s <;> simp
    | neg => cases s <;> simp
  rw [hup]
  have hp2 : 2 ≤ 2 ^ F.p := by
    calc 2 = 2 ^ 1 := by norm_num
      _ ≤ 2 ^ F.p := Nat.pow_le_pow_right (by norm_num) (by have := hF.2; omega)
  unfold Spec.finish Spec.tiny
  by_cases hcnd : (rm = .pos ∧ s = false) ∨ (rm = .neg ∧ s = true)
  · rw [decide_eq_true hcnd, if_pos hcnd]
    simp only [if_true, zero_add]
    rw [if_neg (by omega), if_neg (by omega), if_neg (by norm_num)]
  · rw [decide_eq_false hcnd, if_neg hcnd]
    simp only [Bool.false_eq_true, if_false]
    rw [if_neg (by omega), if_neg (by omega)]; rfl

/-! ### Nearest-even is sign-symmetric -/

def Res.setSign (s : Bool) : Res → Res
  | .zero _ => .zero s
  | .fin _ e m => .fin s e m
  | .inf _ => .inf s
  | .nan => .nan

theorem toRes_setSign (x : Flt) (s : Bool) : (x.setSign s).toRes = x.toRes.setSign s := by
  obtain ⟨xs, xsg, xe, xm, xc⟩ := x
  cases xc <;> rfl

theorem round_nte_sign (F : Sem) (s : Bool) (q : ℚ) :
    Spec.round F .nte s q = (Spec.round F .nte false q).setSign s := by
  unfold Spec.round
  simp only
  have hup : ∀ m f, Spec.up .nte s m f = Spec.up .nte false m f := fun _ _ => rfl
  rw [hup]
  generalize Spec.up .nte false _ _ = u
  generalize (q / pow2 (max (ilog2 q) F.emin - ((F.p : Int) - 1))).floor.toNat = m
  generalize max (ilog2 q) F.emin = e
  unfold Spec.finish Spec.overflow
  simp only
  split_ifs <;> rfl

/-! ### `castWithRm` on canonical normal operands -/

theorem castWithRm_sem (x : Flt) (G : Sem) (rm : RM) : (x.castWithRm G rm).sem = G := by
  unfold Flt.castWithRm
  cases x.cat <;> simp only [Flt.zero, Flt.inf, Flt.nan]
  split_ifs <;> simp [normalize_sem_cs]

theorem Sem.emin_congr_cs {F G : Sem} (h : G.e = F.e) : G.emin = F.emin := by
  unfold Sem.emin Sem.bias; rw [h]

theorem Sem.emax_congr_cs {F G : Sem} (h : G.e = F.e) : G.emax = F.emax := by
  unfold Sem.emax Sem.bias; rw [h]

theorem cast_normal (x : Flt) (G : Sem) (rm : RM) (hF : x.sem.WF) (hG : G.WF)
    (hx : x.cat = .normal) (hc : x.Canonical) :
    (x.castWithRm G rm).toRes = Spec.round G rm x.sign x.mag := by
  obtain ⟨h1, h2, h3, h4, h5⟩ := (Flt.canonical_normal hx).mp hc
  have hFp := hF.2
  have hGp := hG.2
  have hd : (((x.sem.p - 1 : Nat) : Int) - ((G.p - 1 : Nat) : Int)) = (x.sem.p : Int) - G.p := by
    omega
  unfold Flt.castWithRm
  rw [hx]; simp only [hd]
  by_cases hnop : G.e ≠ x.sem.e ∨ G.p - 1 ≠ x.sem.p - 1
  · rw [if_pos hnop]
    exact normalize_exact ⟨G, x.sign, x.exp - ((x.sem.p : Int) - G.p), x.mant, .normal⟩ rm x.mag hG rfl
      (ne_of_gt h3) (by rw [Flt.mag_eq]; simp only; congr 2; ring)
  · rw [if_neg hnop]
    push Not at hnop
    obtain ⟨he, hp'⟩ := hnop
    have hp : G.p = x.sem.p := by omega
    have hcan : (⟨G, x.sign, x.exp, x.mant, .normal⟩ : Flt).Canonical := by
      rw [Flt.canonical_normal rfl]
      simp only [Sem.emin_congr_cs he, Sem.emax_congr_cs he, hp]
      exact ⟨h1, h2, h3, h4, h5⟩
    have := round_canonical_exact_cs ⟨G, x.sign, x.exp, x.mant, .normal⟩ rm hG rfl hcan
    simp only at this
    have hmag : (⟨G, x.sign, x.exp, x.mant, .normal⟩ : Flt).mag = x.mag := by
      rw [Flt.mag_eq, Flt.mag_eq]; simp only [hp]
    rw [hmag] at this
    rw [this, hp]
    simp [Flt.toRes]

/-- casting onto a canonical representative of the same magnitude returns it -/
theorem cast_eq_of_canonical (x y : Flt) (rm : RM) (hF : x.sem.WF) (hG : y.sem.WF)
    (hx : x.cat = .normal) (hc : x.Canonical) (hy : y.cat = .normal) (hyc : y.Canonical)
    (hs : y.sign = x.sign) (hm : y.mag = x.mag) : x.castWithRm y.sem rm = y := by
  apply Flt.eq_of_toRes_eq (castWithRm_sem _ _ _) hy
  rw [cast_normal x y.sem rm hF hG hx hc, ← hs, ← hm, round_canonical_exact_cs y rm hG hy hyc]
  simp [Flt.toRes, hy]

end Arp
