import Arp.Lemmas.Canonical
import Arp.Lemmas.CastScale
import Arp.Lemmas.Order
import Arp.Props.C01AddSub
import Arp.Props.C05
import Arp.Props.C10Scale
/-!
# Helper lemmas for `rem` (work package J, properties C11 / C19)

* `Flt.remTop` : position of the leading bit (`exp + msb mant`), with `Flt.remTop_bounds`;
* `scale_exact_rem` : scaling a canonical normal value *up* by `2^k` is exact in every mode as long
  as the leading bit stays at or below `emax`;
* `sub_exact_rem` : `a - b` is exact in every mode when `b ≤ a ≤ 2b` (Sterbenz);
* `ge_iff_val_rem`, `gt_iff_val_rem` : `>=`, `>` on finite values are the comparisons of the values;
* `rem_step` : one iteration of the loop of `rem`;
* `remLoop_partial` : partial correctness of the loop (invariant `lhs = |x| - j·|y|`);
* `remLoop_terminates` : the loop returns when the fuel is at least the distance of the leading
  bits plus two.
-/
namespace Arp

/-- position of the leading bit: `exp + msb mant` (as computed by `rem`) -/
def Flt.remTop (x : Flt) : Int := x.exp + msb x.mant

/-- a positive canonical normal value of format `F` -/
structure RemPos (F : Sem) (x : Flt) : Prop where
  sem : x.sem = F
  can : x.Canonical
  cat : x.cat = .normal
  sign : x.sign = false

/-- state of the loop of `rem`: a canonical zero (of either sign) or a positive normal value -/
structure RemSt (F : Sem) (l : Flt) : Prop where
  sem : l.sem = F
  can : l.Canonical
  cat : l.cat = .zero ∨ (l.cat = .normal ∧ l.sign = false)

theorem RemPos.toSt {F : Sem} {x : Flt} (h : RemPos F x) : RemSt F x :=
  ⟨h.sem, h.can, Or.inr ⟨h.cat, h.sign⟩⟩

theorem RemPos.mant_ne {F : Sem} {x : Flt} (h : RemPos F x) : x.mant ≠ 0 := by
  have := ((Flt.canonical_normal h.cat).mp h.can).2.2.1; omega

theorem RemPos.val_eq {F : Sem} {x : Flt} (h : RemPos F x) : x.val = x.mag := by
  rw [Flt.val_normal h.cat, h.sign]; simp

theorem RemPos.mag_pos {F : Sem} {x : Flt} (h : RemPos F x) : 0 < x.mag :=
  Flt.mag_pos x h.cat h.can

theorem RemSt.val_nonneg {F : Sem} {l : Flt} (h : RemSt F l) : 0 ≤ l.val := by
  rcases h.cat with hz | ⟨hn, hs⟩
  · rw [Flt.val_zero hz]
  · exact Flt.val_nonneg hs

theorem RemSt.pos_of_normal {F : Sem} {l : Flt} (h : RemSt F l) (hn : l.cat = .normal) :
    RemPos F l := by
  rcases h.cat with hz | ⟨_, hs⟩
  · rw [hz] at hn; cases hn
  · exact ⟨h.sem, h.can, hn, hs⟩

/-- the leading bit brackets the magnitude: `2^(top-p) ≤ mag < 2^(top-p+1)` -/
theorem Flt.remTop_bounds (x : Flt) (hm : x.mant ≠ 0) :
    (2 : ℚ) ^ (x.remTop - (x.sem.p : Int)) ≤ x.mag ∧
      x.mag < (2 : ℚ) ^ (x.remTop - (x.sem.p : Int) + 1) := by
  have h1 := msb_le hm
  have h2 := lt_msb x.mant
  have hn := msb_pos hm
  rw [Flt.mag_eq]; unfold Flt.remTop
  set n := msb x.mant with hnd
  have c1 : ((2 : ℚ) ^ (n - 1 : ℕ)) ≤ x.mant := by exact_mod_cast h1
  have c2 : (x.mant : ℚ) < (2 : ℚ) ^ n := by exact_mod_cast h2
  have hpos : (0 : ℚ) < (2 : ℚ) ^ (x.exp - ((x.sem.p : Int) - 1)) := by positivity
  constructor
  · calc (2 : ℚ) ^ (x.exp + (n : Int) - (x.sem.p : Int))
        = (2 : ℚ) ^ (n - 1 : ℕ) * (2 : ℚ) ^ (x.exp - ((x.sem.p : Int) - 1)) := by
          rw [← zpow_natCast, ← zpow_add₀ (by norm_num : (2 : ℚ) ≠ 0)]; congr 1; omega
      _ ≤ x.mant * (2 : ℚ) ^ (x.exp - ((x.sem.p : Int) - 1)) :=
          mul_le_mul_of_nonneg_right c1 hpos.le
  · calc (x.mant : ℚ) * (2 : ℚ) ^ (x.exp - ((x.sem.p : Int) - 1))
        < (2 : ℚ) ^ n * (2 : ℚ) ^ (x.exp - ((x.sem.p : Int) - 1)) :=
          mul_lt_mul_of_pos_right c2 hpos
      _ = (2 : ℚ) ^ (x.exp + (n : Int) - (x.sem.p : Int) + 1) := by
          rw [← zpow_natCast, ← zpow_add₀ (by norm_num : (2 : ℚ) ≠ 0)]; congr 1; omega

/-- the leading-bit position is monotone in the magnitude (same precision) -/
theorem Flt.remTop_le_of_mag_le {a b : Flt} (hs : b.sem = a.sem) (ha : a.mant ≠ 0) (hb : b.mant ≠ 0)
    (h : a.mag ≤ b.mag) : a.remTop ≤ b.remTop := by
  by_contra hc
  have h1 := (Flt.remTop_bounds a ha).1
  have h2 := (Flt.remTop_bounds b hb).2
  rw [hs] at h2
  have : (2 : ℚ) ^ (b.remTop - (a.sem.p : Int) + 1) ≤ (2 : ℚ) ^ (a.remTop - (a.sem.p : Int)) :=
    zpow_le_zpow_right₀ (by norm_num) (by omega)
  linarith

/-- a magnitude below `2^(t-p)` has its leading bit below `t` -/
theorem Flt.remTop_lt_of_mag_lt {a : Flt} (ha : a.mant ≠ 0) (t : Int)
    (h : a.mag < (2 : ℚ) ^ (t - (a.sem.p : Int))) : a.remTop < t := by
  by_contra hc
  have h1 := (Flt.remTop_bounds a ha).1
  have : (2 : ℚ) ^ (t - (a.sem.p : Int)) ≤ (2 : ℚ) ^ (a.remTop - (a.sem.p : Int)) :=
    zpow_le_zpow_right₀ (by norm_num) (by omega)
  linarith

/-- `top - p ≤ exp` for a canonical normal value -/
theorem RemPos.remTop_le {F : Sem} {x : Flt} (h : RemPos F x) : x.remTop ≤ x.exp + F.p := by
  obtain ⟨_, _, _, h4, _⟩ := (Flt.canonical_normal h.cat).mp h.can
  have := msb_le_of_lt h4
  rw [h.sem] at this
  unfold Flt.remTop; omega

theorem RemPos.lt_remTop {F : Sem} {x : Flt} (h : RemPos F x) : x.exp + 1 ≤ x.remTop := by
  have := msb_pos h.mant_ne
  unfold Flt.remTop; omega

/-! ### Exact scaling -/

/-- Scaling a canonical normal value up by `2^k` (`k ≥ 0`) is exact in every rounding mode, as
    long as the leading bit of the result stays at or below `emax`. -/
theorem scale_exact_rem (F : Sem) (hF : F.WF) (x : Flt) (k : Int) (rm : RM) (hx : RemPos F x)
    (hk : 0 ≤ k) (hhi : x.remTop + k - F.p ≤ F.emax) :
    RemPos F (x.scale k rm) ∧ (x.scale k rm).mag = x.mag * (2 : ℚ) ^ k := by
  obtain ⟨hs, hc, hn, hsg⟩ := hx
  obtain ⟨h1, h2, h3, h4, h5⟩ := (Flt.canonical_normal hn).mp hc
  rw [hs] at h1 h2 h4 h5
  have hFx : x.sem.WF := by rw [hs]; exact hF
  obtain ⟨y, ys, yn, yc, ysg, ymag⟩ := exists_canonical F hF x.sign x.mant
    (x.exp + k - ((F.p : Int) - 1)) (by omega) h4 (by omega) (by unfold Flt.remTop at hhi; omega)
  have hmag : y.mag = x.mag * (2 : ℚ) ^ k := by
    rw [ymag, Flt.mag_eq, hs, mul_assoc, ← zpow_add₀ (by norm_num : (2 : ℚ) ≠ 0)]
    congr 2; ring
  have hres : (x.scale k rm).toRes = y.toRes := by
    rw [C10.scale_correct x k rm hFx hc]
    unfold Spec.scaleExact
    rw [hn]; simp only
    rw [← hmag, hs, ← ys, ← ysg]
    rw [round_canonical_exact y rm (by rw [ys]; exact hF) yn yc]
    simp [Flt.toRes, yn]
  have hsem : (x.scale k rm).sem = y.sem := by
    rw [(scale_canonical x k rm hFx hc).2, hs, ys]
  have heq := Flt.eq_of_toRes_eq hsem yn hres
  rw [heq]
  exact ⟨⟨ys, yc, yn, by rw [ysg, hsg]⟩, hmag⟩

/-! ### Exact subtraction (Sterbenz) -/

theorem exp_le_of_mag_le_rem {F : Sem} (hF : F.WF) {a b : Flt} (ha : RemPos F a) (hb : RemPos F b)
    (h : b.mag ≤ a.mag) : b.exp ≤ a.exp := by
  by_contra hc
  have := Flt.mag_lt_of_exp_lt (a := a) (b := b) (by rw [ha.sem]; exact hF)
    (by rw [ha.sem, hb.sem]) ha.cat hb.cat ha.can hb.can (by omega)
  linarith

/-- `a - b` is exact in every rounding mode when `b ≤ a ≤ 2b`. -/
theorem sub_exact_rem (F : Sem) (hF : F.WF) (a b : Flt) (rm : RM) (ha : RemPos F a)
    (hb : RemPos F b) (hle : b.mag ≤ a.mag) (hle2 : a.mag ≤ 2 * b.mag) :
    RemSt F (subWithRm a b rm) ∧ (subWithRm a b rm).val = a.mag - b.mag := by
  have hFa : a.sem.WF := by rw [ha.sem]; exact hF
  have hsab : b.sem = a.sem := by rw [ha.sem, hb.sem]
  have hcan := subWithRm_canonical a b rm hFa hsab ha.can hb.can
  have hres := C01.sub_correct a b rm hFa hsab ha.can hb.can
  have hnb : Flt.val { b with sign := !b.sign } = -b.mag := by
    rw [C01.val_neg, hb.val_eq]
  rw [hb.cat] at hnb
  have hadd : Spec.sub a.sem rm a b = Spec.roundQ F rm (a.mag - b.mag) (rm == .neg) := by
    unfold Spec.sub Spec.add Spec.isNan Spec.isInf Spec.isZero
    simp only [ha.cat, hb.cat]
    rw [hnb, ha.val_eq, ha.sem]
    simp [sub_eq_add_neg]
  rw [hadd] at hres
  rcases eq_or_lt_of_le hle with heq | hlt
  · -- exact cancellation: a zero
    rw [← heq, sub_self] at hres ⊢
    unfold Spec.roundQ at hres
    rw [if_pos rfl] at hres
    have hz : (subWithRm a b rm).cat = .zero := by
      revert hres; unfold Flt.toRes
      cases (subWithRm a b rm).cat <;> simp
    exact ⟨⟨hcan.2.trans ha.sem, hcan.1, Or.inl hz⟩, Flt.val_zero hz⟩
  · -- a positive difference, representable at the exponent of `b`
    have hexp := exp_le_of_mag_le_rem hF ha hb hle
    obtain ⟨g, hg⟩ : ∃ g : Nat, a.exp = b.exp + g := ⟨(a.exp - b.exp).toNat, by omega⟩
    obtain ⟨b1, b2, b3, b4, b5⟩ := (Flt.canonical_normal hb.cat).mp hb.can
    rw [hb.sem] at b1 b2 b4 b5
    have hq : (0 : ℚ) < (2 : ℚ) ^ (b.exp - ((F.p : Int) - 1)) := by positivity
    have hamag : a.mag = ((a.mant * 2 ^ g : Nat) : ℚ) * (2 : ℚ) ^ (b.exp - ((F.p : Int) - 1)) := by
      rw [Flt.mag_eq, ha.sem, hg]; push_cast
      rw [mul_assoc, ← zpow_natCast, ← zpow_add₀ (by norm_num : (2 : ℚ) ≠ 0)]
      congr 2; ring
    have hbmag : b.mag = (b.mant : ℚ) * (2 : ℚ) ^ (b.exp - ((F.p : Int) - 1)) := by
      rw [Flt.mag_eq, hb.sem]
    have hlt' : b.mant < a.mant * 2 ^ g := by
      rw [hamag, hbmag] at hlt
      have := lt_of_mul_lt_mul_right hlt hq.le
      exact_mod_cast this
    have hle2' : a.mant * 2 ^ g ≤ 2 * b.mant := by
      rw [hamag, hbmag, ← mul_assoc] at hle2
      have := le_of_mul_le_mul_right hle2 hq
      exact_mod_cast this
    set M := a.mant * 2 ^ g - b.mant with hM
    have hM0 : M ≠ 0 := by omega
    have hMp : M < 2 ^ F.p := by omega
    have hmsb : msb M ≤ F.p := msb_le_of_lt hMp
    obtain ⟨y, ys, yn, yc, ysg, ymag⟩ := exists_canonical F hF false M
      (b.exp - ((F.p : Int) - 1)) hM0 hMp (by omega) (by omega)
    have hymag : y.mag = a.mag - b.mag := by
      rw [ymag, hamag, hbmag, hM, Nat.cast_sub hlt'.le]; ring
    have hpos : 0 < a.mag - b.mag := by linarith
    unfold Spec.roundQ at hres
    rw [if_neg (ne_of_gt hpos), if_pos hpos, ← hymag, ← ys, ← ysg,
      round_canonical_exact y rm (by rw [ys]; exact hF) yn yc] at hres
    have hres' : (subWithRm a b rm).toRes = y.toRes := by
      rw [hres]; simp [Flt.toRes, yn]
    have heq := Flt.eq_of_toRes_eq (by rw [hcan.2, ha.sem, ys]) yn hres'
    rw [heq]
    have hy : RemPos F y := ⟨ys, yc, yn, ysg⟩
    exact ⟨hy.toSt, by rw [hy.val_eq, hymag]⟩

/-! ### Comparisons of finite values -/

theorem RemSt.not_nan {F : Sem} {l : Flt} (h : RemSt F l) : l.cat ≠ .nan := by
  rcases h.cat with hz | ⟨hn, _⟩ <;> simp [*]

theorem RemSt.not_inf {F : Sem} {l : Flt} (h : RemSt F l) : l.cat ≠ .inf := by
  rcases h.cat with hz | ⟨hn, _⟩ <;> simp [*]

theorem ge_iff_val_rem {F : Sem} (hF : F.WF) {a b : Flt} (ha : RemSt F a) (hb : RemSt F b) :
    a.ge b = true ↔ b.val ≤ a.val := by
  rw [C05.ge_iff a b (by rw [ha.sem]; exact hF) (by rw [ha.sem, hb.sem]) ha.can hb.can,
    decide_eq_true_iff, Spec.cmp_fin ha.not_nan ha.not_inf hb.not_nan hb.not_inf]
  split_ifs with h1 h2
  · simp; exact h1
  · simp; exact h2.le
  · simp; linarith

theorem gt_iff_val_rem {F : Sem} (hF : F.WF) {a b : Flt} (ha : RemSt F a) (hb : RemSt F b) :
    a.gt b = true ↔ b.val < a.val := by
  rw [C05.gt_iff a b (by rw [ha.sem]; exact hF) (by rw [ha.sem, hb.sem]) ha.can hb.can,
    decide_eq_true_iff, Spec.cmp_fin ha.not_nan ha.not_inf hb.not_nan hb.not_inf]
  split_ifs with h1 h2
  · simp; exact h1.le
  · simp; exact h2
  · simp; linarith

/-! ### One iteration of the loop -/

/-- the subtrahend chosen by one iteration of the loop of `rem` -/
def remD (lhs rhs : Flt) : Flt :=
  let lhsTop : Int := lhs.exp + msb lhs.mant
  let rhsTop : Int := rhs.exp + msb rhs.mant
  let sc := lhsTop - rhsTop
  let d0 := rhs.scale sc .none
  if d0.gt lhs then rhs.scale (sc - 1) .none else d0

theorem remLoop_zero (lhs rhs : Flt) : remLoop 0 lhs rhs = none := rfl

theorem remLoop_succ (fuel : Nat) (lhs rhs : Flt) :
    remLoop (fuel + 1) lhs rhs =
      if (lhs.ge rhs && lhs.isNormal) = true then remLoop fuel (lhs.sub (remD lhs rhs)) rhs
      else some lhs := rfl

theorem two_zpow_succ_rem (t : Int) : (2 : ℚ) ^ (t + 1) = 2 * (2 : ℚ) ^ t := by
  rw [zpow_add_one₀ (by norm_num : (2 : ℚ) ≠ 0)]; ring

/-- **One iteration**: the subtrahend `d` is exactly `|y|·2^k`, `d ≤ lhs < 2d`, and what is left
    after the subtraction lies below the leading bit of `lhs`. -/
theorem rem_step (F : Sem) (hF : F.WF) (lhs rhs : Flt) (hl : RemPos F lhs) (hr : RemPos F rhs)
    (hle : rhs.mag ≤ lhs.mag) :
    ∃ k : Nat, RemPos F (remD lhs rhs) ∧ (remD lhs rhs).mag = rhs.mag * (2 : ℚ) ^ k ∧
      (remD lhs rhs).mag ≤ lhs.mag ∧ lhs.mag < 2 * (remD lhs rhs).mag ∧
      lhs.mag - (remD lhs rhs).mag < (2 : ℚ) ^ (lhs.remTop - (F.p : Int)) := by
  have hsc : rhs.remTop ≤ lhs.remTop :=
    Flt.remTop_le_of_mag_le (by rw [hl.sem, hr.sem]) hr.mant_ne hl.mant_ne hle
  obtain ⟨l1, l2, l3, l4, l5⟩ := (Flt.canonical_normal hl.cat).mp hl.can
  rw [hl.sem] at l2
  have hltop := hl.remTop_le
  obtain ⟨hlb1, hlb2⟩ := Flt.remTop_bounds lhs hl.mant_ne
  obtain ⟨hrb1, hrb2⟩ := Flt.remTop_bounds rhs hr.mant_ne
  rw [hl.sem] at hlb1 hlb2
  rw [hr.sem] at hrb1 hrb2
  set sc : Int := lhs.remTop - rhs.remTop with hscd
  obtain ⟨hd0, hd0mag⟩ := scale_exact_rem F hF rhs sc .none hr (by omega) (by omega)
  have hpos : (0 : ℚ) < (2 : ℚ) ^ sc := by positivity
  -- `d0` has the leading bit of `lhs`
  have hd0lo : (2 : ℚ) ^ (lhs.remTop - (F.p : Int)) ≤ (rhs.scale sc .none).mag := by
    rw [hd0mag]
    calc (2 : ℚ) ^ (lhs.remTop - (F.p : Int))
        = (2 : ℚ) ^ (rhs.remTop - (F.p : Int)) * (2 : ℚ) ^ sc := by
          rw [← zpow_add₀ (by norm_num : (2 : ℚ) ≠ 0)]; congr 1; omega
      _ ≤ rhs.mag * (2 : ℚ) ^ sc := mul_le_mul_of_nonneg_right hrb1 hpos.le
  have htwo := two_zpow_succ_rem (lhs.remTop - (F.p : Int))
  have hdef : remD lhs rhs = if (rhs.scale sc .none).gt lhs then rhs.scale (sc - 1) .none
      else rhs.scale sc .none := rfl
  by_cases hgt : (rhs.scale sc .none).gt lhs = true
  · -- overshoot: step back
    rw [hdef, if_pos hgt]
    rw [gt_iff_val_rem hF hd0.toSt hl.toSt, hd0.val_eq, hl.val_eq] at hgt
    have hsc0 : sc ≠ 0 := by
      intro h0
      rw [hd0mag, h0, zpow_zero, mul_one] at hgt
      linarith
    obtain ⟨hd, hdmag⟩ := scale_exact_rem F hF rhs (sc - 1) .none hr (by omega) (by omega)
    have hhalf : (rhs.scale sc .none).mag = 2 * (rhs.scale (sc - 1) .none).mag := by
      rw [hd0mag, hdmag, show sc = (sc - 1) + 1 by ring, two_zpow_succ_rem]
      simp only [add_sub_cancel_right]; ring
    have hd0hi : (rhs.scale sc .none).mag < (2 : ℚ) ^ (lhs.remTop - (F.p : Int) + 1) := by
      rw [hd0mag]
      calc rhs.mag * (2 : ℚ) ^ sc < (2 : ℚ) ^ (rhs.remTop - (F.p : Int) + 1) * (2 : ℚ) ^ sc :=
            mul_lt_mul_of_pos_right hrb2 hpos
        _ = (2 : ℚ) ^ (lhs.remTop - (F.p : Int) + 1) := by
            rw [← zpow_add₀ (by norm_num : (2 : ℚ) ≠ 0)]; congr 1; omega
    refine ⟨(sc - 1).toNat, hd, ?_, ?_, ?_, ?_⟩
    · rw [hdmag, ← zpow_natCast]; congr 2; omega
    · linarith
    · linarith
    · linarith
  · -- no overshoot
    rw [hdef, if_neg hgt]
    rw [gt_iff_val_rem hF hd0.toSt hl.toSt, hd0.val_eq, hl.val_eq, not_lt] at hgt
    refine ⟨sc.toNat, hd0, ?_, hgt, ?_, ?_⟩
    · rw [hd0mag, ← zpow_natCast]; congr 2; omega
    · linarith
    · linarith

/-! ### The loop: partial correctness -/

/-- Whenever the loop returns, the result is `lhs - j·|y|` for a natural `j`, computed without any
    rounding error, non-negative and below `|y|`. -/
theorem remLoop_partial (F : Sem) (hF : F.WF) (rhs : Flt) (hr : RemPos F rhs) :
    ∀ (fuel : Nat) (lhs r : Flt), RemSt F lhs → remLoop fuel lhs rhs = some r →
      RemSt F r ∧ r.val < rhs.mag ∧ ∃ j : Nat, r.val = lhs.val - (j : ℚ) * rhs.mag := by
  intro fuel
  induction fuel with
  | zero => intro lhs r _ h; rw [remLoop_zero] at h; cases h
  | succ fuel ih =>
    intro lhs r hl h
    rw [remLoop_succ] at h
    by_cases hc : (lhs.ge rhs && lhs.isNormal) = true
    · rw [if_pos hc] at h
      rw [Bool.and_eq_true] at hc
      obtain ⟨hge, hn⟩ := hc
      have hn' : lhs.cat = .normal := by simpa [Flt.isNormal] using hn
      have hlp := hl.pos_of_normal hn'
      rw [ge_iff_val_rem hF hl hr.toSt, hr.val_eq, hlp.val_eq] at hge
      obtain ⟨k, hd, hdmag, hd1, hd2, _⟩ := rem_step F hF lhs rhs hlp hr hge
      obtain ⟨hst, hval⟩ := sub_exact_rem F hF lhs (remD lhs rhs) lhs.sem.rm hlp hd hd1 hd2.le
      obtain ⟨hrs, hlt, j, hj⟩ := ih (lhs.sub (remD lhs rhs)) r hst h
      refine ⟨hrs, hlt, 2 ^ k + j, ?_⟩
      rw [hj]
      have : (lhs.sub (remD lhs rhs)).val = lhs.mag - (remD lhs rhs).mag := hval
      rw [this, hdmag, hlp.val_eq]; push_cast; ring
    · rw [if_neg hc] at h
      cases h
      refine ⟨hl, ?_, 0, by simp⟩
      rw [Bool.and_eq_true, not_and_or] at hc
      rcases hc with hc | hc
      · rw [ge_iff_val_rem hF hl hr.toSt, not_le, hr.val_eq] at hc; exact hc
      · have hz : lhs.cat = .zero := by
          rcases hl.cat with hz | ⟨hn, _⟩
          · exact hz
          · exact absurd (by simp [Flt.isNormal, hn]) hc
        rw [Flt.val_zero hz]; exact hr.mag_pos

/-! ### The loop: termination (C19) -/

/-- The loop returns as soon as the fuel is at least the distance of the leading bits plus two:
    every iteration lowers the leading bit of `lhs` by at least one position. -/
theorem remLoop_terminates (F : Sem) (hF : F.WF) (rhs : Flt) (hr : RemPos F rhs) :
    ∀ (fuel : Nat) (lhs : Flt), RemSt F lhs → 1 ≤ fuel →
      (lhs.cat = .normal → rhs.mag ≤ lhs.mag → lhs.remTop - rhs.remTop + 2 ≤ fuel) →
      ∃ r, remLoop fuel lhs rhs = some r := by
  intro fuel
  induction fuel with
  | zero => intro lhs _ h; omega
  | succ fuel ih =>
    intro lhs hl _ hfuel
    rw [remLoop_succ]
    by_cases hc : (lhs.ge rhs && lhs.isNormal) = true
    · rw [if_pos hc]
      rw [Bool.and_eq_true] at hc
      obtain ⟨hge, hn⟩ := hc
      have hn' : lhs.cat = .normal := by simpa [Flt.isNormal] using hn
      have hlp := hl.pos_of_normal hn'
      rw [ge_iff_val_rem hF hl hr.toSt, hr.val_eq, hlp.val_eq] at hge
      have hf := hfuel hn' hge
      have htop : rhs.remTop ≤ lhs.remTop :=
        Flt.remTop_le_of_mag_le (by rw [hlp.sem, hr.sem]) hr.mant_ne hlp.mant_ne hge
      obtain ⟨k, hd, hdmag, hd1, hd2, hd3⟩ := rem_step F hF lhs rhs hlp hr hge
      obtain ⟨hst, hval⟩ := sub_exact_rem F hF lhs (remD lhs rhs) lhs.sem.rm hlp hd hd1 hd2.le
      apply ih _ hst (by omega)
      intro hn2 _
      have hp2 := hst.pos_of_normal hn2
      have hlt : (subWithRm lhs (remD lhs rhs) lhs.sem.rm).remTop < lhs.remTop := by
        apply Flt.remTop_lt_of_mag_lt hp2.mant_ne
        rw [hp2.sem, ← hp2.val_eq, hval]; exact hd3
      omega
    · rw [if_neg hc]; exact ⟨lhs, rfl⟩

end Arp
