import Arp.Lemmas.SpecRound
import Mathlib.Algebra.Order.Ring.Pow
/-!
# Error analysis helpers for `powi` (property C18, accuracy clause)

* `powi_round_core`   : one `Spec.round` of a magnitude in the NORMAL range: the result is a
  normal number whose exponent is at least the exponent of `q`, and the error is below one ulp
  (half an ulp in the nearest modes) **of the binade of the exact value `q`**;
* `powi_round_fin`    : `2^emin ≤ q ≤ maxFinite` ⇒ the result is finite and non-zero;
* `powi_round_rel`    : the "standard model" `|round q − q| ≤ u·q`, `u = powiU p rm = 2^(1-p)`
  (every mode), `2^(-p)` (nearest modes);
* `powi_round_step`   : all of the above for `q ∈ [2^emin, maxFinite]`;
* `Encl` (relative-error enclosures `(1-δ)^k·q ≤ y ≤ (1+δ)^k·q`): `Encl.mul`, `Encl.round`,
  `Encl.mono`, `Encl.abs_le`; Bernoulli bounds `powi_bern_lo/hi`;
* the internal `(p+2)`-bit format of `powi`: `ulp_incp2`, `maxFinite_incp2`,
  `powiD F = 2^(-(p+2))`, `powiD_mul`, `powiD_sq`.
-/
namespace Arp

/-! ## One rounding in the normal range -/

/-- A finite, non-saturated rounding of a magnitude `q` with `2^e0 ≤ q < 2^(e0+1)`, `e0 ≥ emin`
    (normal range): the result `m·ulp e` is a normal number with `e ≥ e0`, and the error is
    measured in ulps of the binade of the EXACT value. -/
theorem powi_round_core {G : Sem} (hG : G.WF) {q : ℚ} (hq : 0 < q) {e0 : Int}
    (he0 : G.emin ≤ e0) (h1 : (2:ℚ) ^ e0 ≤ q) (h2 : q < (2:ℚ) ^ (e0 + 1)) (rm : RM) (neg : Bool)
    (hsat : rm.truncFor neg → q < (2:ℚ) ^ (G.emax + 1)) {s : Bool} {e : Int} {m : Nat}
    (h : Spec.round G rm neg q = .fin s e m) :
    s = neg ∧ e0 ≤ e ∧ e ≤ G.emax ∧ 2 ^ (G.p - 1) ≤ m ∧ m < 2 ^ G.p ∧
      |(m:ℚ) * G.ulp e - q| < G.ulp e0 ∧
      ((rm = .nte ∨ rm = .nta) → |(m:ℚ) * G.ulp e - q| ≤ G.ulp e0 / 2) := by
  have hp : 1 ≤ G.p := by have := hG.2; omega
  obtain ⟨e1, m0, f, d⟩ := exists_decomp (F := G) hp hq
  have hil : ilog2 q = e0 := ilog2_unique hq h1 h2
  have he1 : e1 = e0 := by
    have := d.exp_eq hp hq
    rw [hil] at this; omega
  subst he1
  have hu := G.ulp_pos e1
  -- the significand of the decomposition is normal
  have hm0 : 2 ^ (G.p - 1) ≤ m0 := by
    have hlt : (2:ℚ) ^ (G.p - 1) * G.ulp e1 < ((m0:ℚ) + 1) * G.ulp e1 := by
      rw [G.half_pow_mul_ulp hp]; exact lt_of_le_of_lt h1 d.hi
    have h3 : (2:ℚ) ^ (G.p - 1) < (m0:ℚ) + 1 := lt_of_mul_lt_mul_right hlt (le_of_lt hu)
    have h4 : 2 ^ (G.p - 1) < m0 + 1 := by exact_mod_cast h3
    omega
  -- the overflow branch is not taken
  have ho : ¬ Ovf G e1 m0 (Spec.up rm neg m0 f) := by
    intro ho
    rcases (d.ovf_iff hG rm neg).mp ho with ⟨ht, hge⟩ | h' | h'
    · exact absurd hge (not_le.mpr (hsat ht))
    · have := (d.round_eq_inf_iff hG hq rm neg neg).mpr
        ⟨ho, rfl, Or.inr (Or.inr (Or.inr h'.1))⟩
      rw [this] at h; exact absurd h (by simp)
    · have := (d.round_eq_inf_iff hG hq rm neg neg).mpr
        ⟨ho, rfl, by rcases h'.1 with h'' | h''
                     · exact Or.inr (Or.inl h'')
                     · exact Or.inr (Or.inr (Or.inl h''))⟩
      rw [this] at h; exact absurd h (by simp)
  rcases d.round_not_ovf hG hq rm neg ho _ rfl with
    ⟨_, hr⟩ | ⟨e'', m'', hr, _, hemax, _, hlt, hnorm, hv, hee, _⟩
  · rw [hr] at h; exact absurd h (by simp)
  · rw [hr] at h; injection h with hs1 hs2 hs3; subst hs1 hs2 hs3
    have herr := d.err (Spec.up rm neg m0 f) _ rfl
    rw [← hv] at herr
    have hf0 := d.hf0
    have hf1 := d.hf1
    refine ⟨rfl, hee, hemax, ?_, hlt, ?_, ?_⟩
    · rcases hnorm with hn | hn
      · exact hn
      · have hee' : e'' = e1 := by omega
        subst hee'
        have h5 : (m'':ℚ) = ((if Spec.up rm neg m0 f = true then m0 + 1 else m0 : Nat) : ℚ) :=
          mul_right_cancel₀ (ne_of_gt hu) hv
        have h6 : m'' = if Spec.up rm neg m0 f = true then m0 + 1 else m0 := by exact_mod_cast h5
        rw [h6]; split <;> omega
    · rw [herr, abs_lt]
      cases hup : Spec.up rm neg m0 f
      · simp only [Bool.false_eq_true, if_false]
        constructor <;> nlinarith
      · simp only [if_true]
        have hfpos : 0 < f := lt_of_le_of_ne hf0 (Ne.symm (up_true_ne_zero hup))
        constructor <;> nlinarith
    · intro hrm
      rw [herr, abs_le]
      cases hup : Spec.up rm neg m0 f
      · simp only [Bool.false_eq_true, if_false]
        have := up_nearest_false hrm hup
        constructor <;> nlinarith
      · simp only [if_true]
        have := up_nearest_true hrm hup
        constructor <;> nlinarith

/-- a magnitude in `[2^emin, maxFinite]` rounds to a finite non-zero number in every mode -/
theorem powi_round_fin {G : Sem} (hG : G.WF) {q : ℚ} (hlo : (2:ℚ) ^ G.emin ≤ q)
    (hhi : q ≤ maxFinite G) (rm : RM) (neg : Bool) :
    ∃ (e : Int) (m : Nat), Spec.round G rm neg q = .fin neg e m := by
  have hp : 1 ≤ G.p := by have := hG.2; omega
  have hq : 0 < q := lt_of_lt_of_le (by positivity) hlo
  obtain ⟨e1, m0, f, d⟩ := exists_decomp (F := G) hp hq
  have ho : ¬ Ovf G e1 m0 (Spec.up rm neg m0 f) := by
    intro ho
    rcases (d.ovf_iff hG rm neg).mp ho with ⟨_, hge⟩ | ⟨_, hge⟩ | ⟨_, hge⟩
    · have := maxFinite_lt_sr G; linarith
    · linarith
    · have := maxFinite_lt_nearThreshold G; linarith
  rcases d.round_not_ovf hG hq rm neg ho _ rfl with ⟨h0, _⟩ | ⟨e'', m'', hr, _⟩
  · exfalso
    have hm0 : m0 = 0 := by
      revert h0; split <;> omega
    have hu := G.ulp_pos e1
    have hlt : q < (2:ℚ) ^ G.emin := by
      have hhi' := d.hi
      rw [hm0] at hhi'
      rcases d.hn with hn | hn
      · have : 1 ≤ 2 ^ (G.p - 1) := Nat.one_le_two_pow
        omega
      · rw [hn] at hhi'
        have h1 : (1:ℚ) ≤ (2:ℚ) ^ (G.p - 1) := one_le_pow₀ (by norm_num)
        have h2 := G.half_pow_mul_ulp hp G.emin
        have hu' := G.ulp_pos G.emin
        push_cast at hhi'
        nlinarith
    linarith
  · exact ⟨e'', m'', hr⟩

/-- the saturation side condition follows from `q ≤ maxFinite` -/
theorem powi_hsat {G : Sem} {q : ℚ} (hhi : q ≤ maxFinite G) (rm : RM) (neg : Bool) :
    rm.truncFor neg → q < (2:ℚ) ^ (G.emax + 1) :=
  fun _ => lt_of_le_of_lt hhi (maxFinite_lt_sr G)

/-! ## Relative rounding unit -/

/-- relative rounding unit of a `p`-bit rounding under mode `rm`:
    `2^(1-p)` in general, `2^(-p)` in the two nearest modes -/
def powiU (p : Nat) (rm : RM) : ℚ :=
  if rm = .nte ∨ rm = .nta then (2:ℚ) ^ (-(p:Int)) else (2:ℚ) ^ (1 - (p:Int))

theorem powiU_pos (p : Nat) (rm : RM) : 0 < powiU p rm := by
  unfold powiU; split <;> positivity

theorem powiU_le (p : Nat) (rm : RM) : powiU p rm ≤ (2:ℚ) ^ (1 - (p:Int)) := by
  unfold powiU; split
  · exact zpow_le_zpow_right₀ (by norm_num) (by omega)
  · exact le_refl _

/-- `powiU p rm · 2^e` is one (half an) ulp of exponent `e` -/
theorem powiU_mul (G : Sem) (rm : RM) (e : Int) :
    powiU G.p rm * (2:ℚ) ^ e = if rm = .nte ∨ rm = .nta then G.ulp e / 2 else G.ulp e := by
  unfold powiU
  split
  · rw [← half_ulp, ← zpow_add₀ (by norm_num : (2:ℚ) ≠ 0)]; congr 1; ring
  · rw [Sem.ulp_def, ← zpow_add₀ (by norm_num : (2:ℚ) ≠ 0)]; congr 1; ring

theorem powiU_le_half {p : Nat} (hp : 2 ≤ p) (rm : RM) : powiU p rm ≤ 1 / 2 := by
  refine le_trans (powiU_le p rm) ?_
  calc (2:ℚ) ^ (1 - (p:Int)) ≤ (2:ℚ) ^ (-1 : Int) := zpow_le_zpow_right₀ (by norm_num) (by omega)
    _ = 1 / 2 := by norm_num

/-- two extra bits divide the unit by four -/
theorem powiU_add_two (p : Nat) (rm : RM) : powiU (p + 2) rm = powiU p rm / 4 := by
  unfold powiU
  split
  · rw [show (-((p + 2 : Nat) : Int)) = -(p:Int) + (-2) by push_cast; ring,
      zpow_add₀ (by norm_num : (2:ℚ) ≠ 0)]; norm_num; ring
  · rw [show (1 - ((p + 2 : Nat) : Int)) = (1 - (p:Int)) + (-2) by push_cast; ring,
      zpow_add₀ (by norm_num : (2:ℚ) ≠ 0)]; norm_num; ring

/-- **Standard model of one rounding** (normal range, finite non-saturated result):
    `|round q − q| ≤ u·q` with `u = 2^(1-p)` in every mode and `2^(-p)` in `nte`/`nta`.
    (The inequality is strict in the non-nearest modes; `≤` covers both.) -/
theorem powi_round_rel {G : Sem} (hG : G.WF) {q : ℚ} (hlo : (2:ℚ) ^ G.emin ≤ q) (rm : RM)
    (neg : Bool) (hsat : rm.truncFor neg → q < (2:ℚ) ^ (G.emax + 1)) {s : Bool} {e : Int} {m : Nat}
    (h : Spec.round G rm neg q = .fin s e m) :
    |(m:ℚ) * (2:ℚ) ^ (e - ((G.p:Int) - 1)) - q| ≤ powiU G.p rm * q := by
  have hq : 0 < q := lt_of_lt_of_le (by positivity) hlo
  obtain ⟨hl1, hl2⟩ := ilog2_spec hq
  have he0 : G.emin ≤ ilog2 q := by
    have : (2:ℚ) ^ G.emin < (2:ℚ) ^ (ilog2 q + 1) := lt_of_le_of_lt hlo hl2
    have := (zpow_lt_zpow_iff_right₀ (by norm_num : (1:ℚ) < 2)).mp this
    omega
  obtain ⟨_, _, _, _, _, hlt, hnear⟩ := powi_round_core hG hq he0 hl1 hl2 rm neg hsat h
  rw [← Sem.ulp_def]
  have hU := powiU_mul G rm (ilog2 q)
  have hmono : powiU G.p rm * (2:ℚ) ^ (ilog2 q) ≤ powiU G.p rm * q :=
    mul_le_mul_of_nonneg_left hl1 (le_of_lt (powiU_pos _ _))
  by_cases hrm : rm = .nte ∨ rm = .nta
  · rw [if_pos hrm] at hU
    have := hnear hrm
    linarith
  · rw [if_neg hrm] at hU
    linarith

/-- one rounding of a magnitude in `[2^emin, maxFinite]`, everything the `powi` analysis needs:
    the result `v = m·ulp e` is a normal number, `|v − q| ≤ u·q` (relative form), `|v − q|` is
    below one ulp (at most half an ulp in the nearest modes) of the RESULT's exponent, and
    `q < 2^(e+1)`. -/
theorem powi_round_step {G : Sem} (hG : G.WF) {q : ℚ} (hlo : (2:ℚ) ^ G.emin ≤ q)
    (hhi : q ≤ maxFinite G) (rm : RM) (neg : Bool) :
    ∃ (e : Int) (m : Nat), Spec.round G rm neg q = .fin neg e m ∧ G.emin ≤ e ∧ e ≤ G.emax ∧
      2 ^ (G.p - 1) ≤ m ∧ m < 2 ^ G.p ∧
      |(m:ℚ) * G.ulp e - q| ≤ powiU G.p rm * q ∧
      |(m:ℚ) * G.ulp e - q| < G.ulp e ∧
      ((rm = .nte ∨ rm = .nta) → |(m:ℚ) * G.ulp e - q| ≤ G.ulp e / 2) ∧
      q < (2:ℚ) ^ (e + 1) := by
  have hq : 0 < q := lt_of_lt_of_le (by positivity) hlo
  obtain ⟨e, m, h⟩ := powi_round_fin hG hlo hhi rm neg
  obtain ⟨hl1, hl2⟩ := ilog2_spec hq
  have he0 : G.emin ≤ ilog2 q := by
    have : (2:ℚ) ^ G.emin < (2:ℚ) ^ (ilog2 q + 1) := lt_of_le_of_lt hlo hl2
    have := (zpow_lt_zpow_iff_right₀ (by norm_num : (1:ℚ) < 2)).mp this
    omega
  obtain ⟨_, hee, hemax, hm1, hm2, hlt, hnear⟩ :=
    powi_round_core hG hq he0 hl1 hl2 rm neg (powi_hsat hhi rm neg) h
  have hmono := G.ulp_mono hee
  refine ⟨e, m, h, by omega, hemax, hm1, hm2, ?_, by linarith, ?_, ?_⟩
  · have := powi_round_rel hG hlo rm neg (powi_hsat hhi rm neg) h
    rw [← Sem.ulp_def] at this; exact this
  · intro hrm; have := hnear hrm; linarith
  · exact lt_of_lt_of_le hl2 (zpow_le_zpow_right₀ (by norm_num) (by omega))

/-! ## Relative-error enclosures -/

/-- `y` equals `q` up to `k` relative perturbations of size at most `δ`:
    `(1-δ)^k·q ≤ y ≤ (1+δ)^k·q` -/
def Encl (δ : ℚ) (k : Nat) (y q : ℚ) : Prop := (1 - δ) ^ k * q ≤ y ∧ y ≤ (1 + δ) ^ k * q

theorem Encl.refl (δ : ℚ) (q : ℚ) : Encl δ 0 q q := by
  unfold Encl; simp

theorem Encl.mul {δ : ℚ} (h0 : 0 ≤ δ) (h1 : δ ≤ 1) {k1 k2 : Nat} {y1 y2 q1 q2 : ℚ}
    (hq1 : 0 ≤ q1) (hq2 : 0 ≤ q2) (e1 : Encl δ k1 y1 q1) (e2 : Encl δ k2 y2 q2) :
    Encl δ (k1 + k2) (y1 * y2) (q1 * q2) := by
  have ha : (0:ℚ) ≤ 1 - δ := by linarith
  have hb : (0:ℚ) ≤ 1 + δ := by linarith
  have l1 : 0 ≤ (1 - δ) ^ k1 * q1 := mul_nonneg (pow_nonneg ha _) hq1
  have l2 : 0 ≤ (1 - δ) ^ k2 * q2 := mul_nonneg (pow_nonneg ha _) hq2
  have hy1 : 0 ≤ y1 := le_trans l1 e1.1
  have hy2 : 0 ≤ y2 := le_trans l2 e2.1
  constructor
  · calc (1 - δ) ^ (k1 + k2) * (q1 * q2) = ((1 - δ) ^ k1 * q1) * ((1 - δ) ^ k2 * q2) := by
          rw [pow_add]; ring
      _ ≤ y1 * y2 := mul_le_mul e1.1 e2.1 l2 hy1
  · calc y1 * y2 ≤ ((1 + δ) ^ k1 * q1) * ((1 + δ) ^ k2 * q2) :=
          mul_le_mul e1.2 e2.2 hy2 (mul_nonneg (pow_nonneg hb _) hq1)
      _ = (1 + δ) ^ (k1 + k2) * (q1 * q2) := by rw [pow_add]; ring

/-- one more rounding with relative error `δ` -/
theorem Encl.round {δ : ℚ} (h0 : 0 ≤ δ) (h1 : δ ≤ 1) {k : Nat} {y q r : ℚ} (e : Encl δ k y q)
    (hr : |r - y| ≤ δ * y) : Encl δ (k + 1) r q := by
  have ha : (0:ℚ) ≤ 1 - δ := by linarith
  have hb : (0:ℚ) ≤ 1 + δ := by linarith
  obtain ⟨hr1, hr2⟩ := abs_le.mp hr
  constructor
  · calc (1 - δ) ^ (k + 1) * q = (1 - δ) * ((1 - δ) ^ k * q) := by rw [pow_succ]; ring
      _ ≤ (1 - δ) * y := mul_le_mul_of_nonneg_left e.1 ha
      _ ≤ r := by linarith
  · calc r ≤ (1 + δ) * y := by linarith
      _ ≤ (1 + δ) * ((1 + δ) ^ k * q) := mul_le_mul_of_nonneg_left e.2 hb
      _ = (1 + δ) ^ (k + 1) * q := by rw [pow_succ]; ring

theorem Encl.mono {δ : ℚ} (h0 : 0 ≤ δ) (h1 : δ ≤ 1) {k k' : Nat} (hk : k ≤ k') {y q : ℚ}
    (hq : 0 ≤ q) (e : Encl δ k y q) : Encl δ k' y q := by
  have ha : (0:ℚ) ≤ 1 - δ := by linarith
  constructor
  · refine le_trans (mul_le_mul_of_nonneg_right ?_ hq) e.1
    exact pow_le_pow_of_le_one ha (by linarith) hk
  · refine le_trans e.2 (mul_le_mul_of_nonneg_right ?_ hq)
    exact pow_le_pow_right₀ (by linarith) hk

/-! ## Bernoulli-type bounds -/

theorem powi_bern_lo {δ : ℚ} (h1 : δ ≤ 1) (k : Nat) : 1 - k * δ ≤ (1 - δ) ^ k := by
  have := one_add_mul_le_pow (show (-2:ℚ) ≤ -δ by linarith) k
  calc 1 - (k:ℚ) * δ = 1 + k * -δ := by ring
    _ ≤ (1 + -δ) ^ k := this
    _ = (1 - δ) ^ k := by ring_nf

theorem powi_bern_hi {δ : ℚ} (h0 : 0 ≤ δ) (h1 : δ ≤ 1) (k : Nat) :
    (1 + δ) ^ k * (1 - k * δ) ≤ 1 := by
  have ha : (0:ℚ) ≤ 1 - δ := by linarith
  have hb : (0:ℚ) ≤ 1 + δ := by linarith
  calc (1 + δ) ^ k * (1 - k * δ) ≤ (1 + δ) ^ k * (1 - δ) ^ k :=
        mul_le_mul_of_nonneg_left (powi_bern_lo h1 k) (pow_nonneg hb _)
    _ = ((1 + δ) * (1 - δ)) ^ k := by rw [mul_pow]
    _ ≤ 1 := pow_le_one₀ (mul_nonneg hb ha) (by nlinarith)

/-- absolute error of an enclosure, relative to the COMPUTED value `y`:
    `|y − q|·(1 − kδ) ≤ kδ·y` -/
theorem Encl.abs_le {δ : ℚ} (h0 : 0 ≤ δ) (h1 : δ ≤ 1) {k : Nat} {y q : ℚ} (hq : 0 ≤ q)
    (hk : (k:ℚ) * δ ≤ 1) (e : Encl δ k y q) : |y - q| * (1 - k * δ) ≤ k * δ * y := by
  have hz : (0:ℚ) ≤ 1 - k * δ := by linarith
  have hkd : (0:ℚ) ≤ k * δ := mul_nonneg (Nat.cast_nonneg k) h0
  have hlo := powi_bern_lo h1 k
  have hhi := powi_bern_hi h0 h1 k
  have hpos : (0:ℚ) ≤ (1 + δ) ^ k := pow_nonneg (by linarith) _
  obtain ⟨e1, e2⟩ := e
  -- q·(1 − kδ) ≤ y   and   y·(1 − kδ) ≤ q
  have a1 : q * (1 - k * δ) ≤ y := le_trans (by nlinarith) e1
  have a2 : y * (1 - k * δ) ≤ q := by
    calc y * (1 - k * δ) ≤ ((1 + δ) ^ k * q) * (1 - k * δ) := mul_le_mul_of_nonneg_right e2 hz
      _ = ((1 + δ) ^ k * (1 - k * δ)) * q := by ring
      _ ≤ 1 * q := mul_le_mul_of_nonneg_right hhi hq
      _ = q := one_mul q
  have hy : 0 ≤ y := le_trans (mul_nonneg (pow_nonneg (by linarith) _) hq) e1
  rcases abs_cases (y - q) with ⟨h, _⟩ | ⟨h, _⟩
  · rw [h]; nlinarith
  · rw [h]; nlinarith

/-! ## The `(p+2)`-bit internal format of `powi` -/

/-- one ulp of the internal format is a quarter ulp of `F` -/
theorem ulp_incp2 (F : Sem) (e : Int) : (F.increasePrecision 2).ulp e = F.ulp e / 4 := by
  unfold Sem.ulp Sem.increasePrecision
  simp only
  rw [show e - (((F.p + 2 : Nat) : Int) - 1) = (e - ((F.p:Int) - 1)) + (-2) by push_cast; ring,
    zpow_add₀ (by norm_num : (2:ℚ) ≠ 0)]
  norm_num; ring

/-- the largest finite number of `F` in ulps of the internal format -/
theorem maxFinite_incp2 (F : Sem) :
    maxFinite F = ((2:ℚ) ^ (F.p + 2) - 4) * (F.increasePrecision 2).ulp F.emax := by
  rw [maxFinite_eq, ulp_incp2, pow_add]; ring

theorem maxFinite_le_incp2 (F : Sem) : maxFinite F ≤ maxFinite (F.increasePrecision 2) := by
  rw [maxFinite_incp2, maxFinite_eq]
  have hu := (F.increasePrecision 2).ulp_pos F.emax
  have : (F.increasePrecision 2).emax = F.emax := rfl
  rw [this]
  have : (F.increasePrecision 2).p = F.p + 2 := rfl
  rw [this]
  nlinarith

/-- relative unit of the internal roundings of `powi`: `p+2` bits, round to nearest -/
def powiD (F : Sem) : ℚ := (2:ℚ) ^ (-((F.p:Int) + 2))

theorem powiD_pos (F : Sem) : 0 < powiD F := by unfold powiD; positivity

theorem powiD_eq (F : Sem) {rm : RM} (h : rm = .nte ∨ rm = .nta) :
    powiU (F.p + 2) rm = powiD F := by
  unfold powiU powiD
  rw [if_pos h]; congr 1

theorem powiD_le (F : Sem) : powiD F ≤ 1 / 4 := by
  unfold powiD
  calc (2:ℚ) ^ (-((F.p:Int) + 2)) ≤ (2:ℚ) ^ (-2 : Int) :=
        zpow_le_zpow_right₀ (by norm_num) (by omega)
    _ = 1 / 4 := by norm_num

/-- `δ·2^(e+1)` is a quarter ulp of `F` at exponent `e` -/
theorem powiD_mul (F : Sem) (e : Int) : powiD F * (2:ℚ) ^ (e + 1) = F.ulp e / 4 := by
  unfold powiD Sem.ulp
  rw [← zpow_add₀ (by norm_num : (2:ℚ) ≠ 0),
    show -((F.p:Int) + 2) + (e + 1) = (e - ((F.p:Int) - 1)) + (-2) by ring,
    zpow_add₀ (by norm_num : (2:ℚ) ≠ 0)]
  norm_num; ring

/-- `n² ≤ 2^(p+2)` in the form used by the ulp bounds: `n²·δ ≤ 1` -/
theorem powiD_sq {F : Sem} {n : Nat} (h : n ^ 2 ≤ 2 ^ (F.p + 2)) : (n:ℚ) ^ 2 * powiD F ≤ 1 := by
  unfold powiD
  have h1 : ((n ^ 2 : Nat) : ℚ) ≤ ((2 ^ (F.p + 2) : Nat) : ℚ) := Nat.cast_le.mpr h
  push_cast at h1
  have h2 : (2:ℚ) ^ (F.p + 2) * (2:ℚ) ^ (-((F.p:Int) + 2)) = 1 := by
    rw [← zpow_natCast, ← zpow_add₀ (by norm_num : (2:ℚ) ≠ 0)]; push_cast; simp
  have h3 : (0:ℚ) < (2:ℚ) ^ (-((F.p:Int) + 2)) := by positivity
  calc (n:ℚ) ^ 2 * (2:ℚ) ^ (-((F.p:Int) + 2)) ≤ (2:ℚ) ^ (F.p + 2) * (2:ℚ) ^ (-((F.p:Int) + 2)) :=
        mul_le_mul_of_nonneg_right h1 (le_of_lt h3)
    _ = 1 := h2

end Arp
