import Arp.Lemmas.Defs
/-!
# Canonical form is preserved by every operation (helper lemmas of C04)
-/
namespace Arp

/-! ### Constructors and sign changes -/

theorem Flt.zero_canonical (s : Sem) (sg : Bool) : (Flt.zero s sg).Canonical := by
  simp [Flt.Canonical, Flt.isCanonical, Flt.zero]

theorem Flt.inf_canonical (s : Sem) (sg : Bool) : (Flt.inf s sg).Canonical := by
  simp [Flt.Canonical, Flt.isCanonical, Flt.inf]

theorem Flt.nan_canonical (s : Sem) (sg : Bool) : (Flt.nan s sg).Canonical := by
  simp [Flt.Canonical, Flt.isCanonical, Flt.nan]

theorem Flt.setSign_canonical (x : Flt) (s : Bool) : (x.setSign s).Canonical ↔ x.Canonical :=
  Iff.rfl

theorem Flt.neg_canonical' (x : Flt) : x.neg.Canonical ↔ x.Canonical := Iff.rfl
theorem Flt.abs_canonical' (x : Flt) : x.abs.Canonical ↔ x.Canonical := Iff.rfl

theorem two_pow_pred_can (p : Nat) (hp : 1 ≤ p) : 2 * 2 ^ (p - 1) = 2 ^ p := by
  obtain ⟨k, rfl⟩ : ∃ k, p = k + 1 := ⟨p - 1, by omega⟩
  simp [Nat.pow_succ]; ring

theorem Flt.one_canonical (s : Sem) (sg : Bool) (hF : s.WF) : (Flt.one s sg).Canonical := by
  have h1 := Sem.emin_le_zero hF
  have h2 := Sem.emax_pos hF
  have h3 := two_pow_pred_can s.p (by have := hF.2; omega)
  have h4 : 0 < 2 ^ (s.p - 1) := by positivity
  rw [Flt.canonical_normal (by rfl)]
  simp only [Flt.one, Nat.shiftLeft_eq, one_mul]
  refine ⟨h1, by omega, h4, by omega, Or.inl (le_refl _)⟩

/-- `Float::new` with in-range arguments -/
theorem Flt.new_canonical (s : Sem) (sg : Bool) (e : Int) (m : Nat)
    (he1 : s.emin ≤ e) (he2 : e ≤ s.emax) (hm : m < 2 ^ s.p)
    (hn : m ≠ 0 → 2 ^ (s.p - 1) ≤ m ∨ e = s.emin) : (Flt.new s sg e m).Canonical := by
  unfold Flt.new
  split
  · exact Flt.zero_canonical s sg
  · rename_i h
    rw [Flt.canonical_normal (by rfl)]
    exact ⟨he1, he2, Nat.pos_of_ne_zero h, hm, hn h⟩

@[simp] theorem Flt.new_sem (s : Sem) (sg : Bool) (e : Int) (m : Nat) : (Flt.new s sg e m).sem = s := by
  unfold Flt.new; split <;> rfl

@[simp] theorem Flt.new_sign (s : Sem) (sg : Bool) (e : Int) (m : Nat) : (Flt.new s sg e m).sign = sg := by
  unfold Flt.new; split <;> rfl

/-! ### `overflow` -/

theorem Flt.overflow_sem (x : Flt) (rm : RM) : (x.overflow rm).sem = x.sem := by
  cases rm <;> simp [Flt.overflow, Flt.inf] <;> split <;> simp

theorem Flt.overflow_sign (x : Flt) (rm : RM) : (x.overflow rm).sign = x.sign := by
  cases rm <;> simp [Flt.overflow, Flt.inf] <;> split <;> simp

theorem overflow_canonical (x : Flt) (rm : RM) (hF : x.sem.WF) : (x.overflow rm).Canonical := by
  have hmax : (Flt.new x.sem x.sign x.sem.emax (2 ^ x.sem.p - 1)).Canonical := by
    have h3 := two_pow_pred_can x.sem.p (by have := hF.2; omega)
    have h4 : 0 < 2 ^ (x.sem.p - 1) := by positivity
    apply Flt.new_canonical _ _ _ _ (Sem.emin_le_emax hF) (le_refl _) (by omega)
    intro _; left; have := hF.2
    have : 2 ≤ 2 ^ (x.sem.p - 1) := by
      calc 2 = 2 ^ 1 := rfl
        _ ≤ 2 ^ (x.sem.p - 1) := Nat.pow_le_pow_right (by norm_num) (by omega)
    omega
  have hinf := Flt.inf_canonical x.sem x.sign
  cases rm <;> simp only [Flt.overflow] <;> first | exact hinf | exact hmax | (split <;> assumption)

/-! ### `normalize` -/

theorem stepII_sem (rm : RM) (y : Flt) (l : Loss) : (Flt.normalize.stepII rm y l).sem = y.sem := by
  unfold Flt.normalize.stepII
  simp only [Flt.zero, Flt.inf]
  repeat' split
  all_goals rfl

theorem stepII_sign (rm : RM) (y : Flt) (l : Loss) : (Flt.normalize.stepII rm y l).sign = y.sign := by
  unfold Flt.normalize.stepII
  simp only [Flt.zero, Flt.inf]
  repeat' split
  all_goals rfl

/-- Step II (rounding and carry) yields a canonical value when its input is a candidate
    significand below `2^p` at an in-range exponent (possibly 0, possibly subnormal). -/
theorem stepII_canonical (rm : RM) (y : Flt) (l : Loss) (hF : y.sem.WF) (hc : y.cat = .normal)
    (hlt : y.mant < 2 ^ y.sem.p) (hmax : y.mant ≠ 0 → y.exp ≤ y.sem.emax)
    (hmin : y.mant ≠ 0 → y.sem.emin ≤ y.exp)
    (hnorm : y.mant ≠ 0 → 2 ^ (y.sem.p - 1) ≤ y.mant ∨ y.exp = y.sem.emin) :
    (Flt.normalize.stepII rm y l).Canonical := by
  obtain ⟨s, sg, ex, m, c⟩ := y
  simp only at hF hc hlt hmax hmin hnorm
  subst hc
  have hp := hF.2
  have hmm := Sem.emin_le_emax hF
  have h3 := two_pow_pred_can s.p (by omega)
  have h4 : 0 < 2 ^ (s.p - 1) := by positivity
  -- the "no rounding" outcome
  have keep : (if m = 0 then Flt.zero s sg else (⟨s, sg, ex, m, .normal⟩ : Flt)).Canonical := by
    split
    · exact Flt.zero_canonical s sg
    · rename_i h
      rw [Flt.canonical_normal (by rfl)]
      exact ⟨hmin h, hmax h, Nat.pos_of_ne_zero h, hlt, hnorm h⟩
  unfold Flt.normalize.stepII
  simp only
  split
  · exact keep
  · split
    · -- rounding away from zero
      split
      · rename_i hsh
        have hm1 : 2 ^ s.p ≤ m + 1 := by
          by_contra hcon
          apply hsh
          rw [Nat.shiftRight_eq_div_pow]; exact Nat.div_eq_of_lt (by omega)
        have hmeq : m + 1 = 2 ^ s.p := by omega
        have hm0 : m ≠ 0 := by omega
        rw [if_neg hm0]
        split
        · rename_i hlt'
          rw [Flt.canonical_normal (by rfl)]
          have hhalf : (m + 1) >>> 1 = 2 ^ (s.p - 1) := by
            rw [hmeq, Nat.shiftRight_eq_div_pow]; omega
          simp only [hhalf]
          have := hmin hm0
          have := hmax hm0
          exact ⟨by omega, by omega, h4, by omega, Or.inl (le_refl _)⟩
        · exact Flt.inf_canonical s sg
      · rename_i hsh
        have hm1 : m + 1 < 2 ^ s.p := by
          by_contra hcon
          apply hsh
          rw [Nat.shiftRight_eq_div_pow]
          have : 1 ≤ (m + 1) / 2 ^ s.p := (Nat.one_le_div_iff (by positivity)).mpr (by omega)
          omega
        rw [Flt.canonical_normal (by rfl)]
        simp only
        by_cases hm0 : m = 0
        · rw [if_pos hm0]; exact ⟨le_refl _, hmm, by omega, hm1, Or.inr rfl⟩
        · rw [if_neg hm0]
          refine ⟨hmin hm0, hmax hm0, by omega, hm1, ?_⟩
          rcases hnorm hm0 with h | h
          · left; omega
          · right; exact h
    · exact keep

theorem normalize_sem (x : Flt) (rm : RM) (loss : Loss) : (x.normalize rm loss).sem = x.sem := by
  simp only [Flt.normalize]
  split_ifs <;> first | rfl | exact stepII_sem _ _ _ | exact Flt.overflow_sem _ _

theorem normalize_sign (x : Flt) (rm : RM) (loss : Loss) : (x.normalize rm loss).sign = x.sign := by
  simp only [Flt.normalize]
  split_ifs <;> first | rfl | exact stepII_sign _ _ _ | exact Flt.overflow_sign _ _

theorem normalize_of_not_normal (x : Flt) (rm : RM) (loss : Loss) (h : x.cat ≠ .normal) :
    x.normalize rm loss = x := by
  unfold Flt.normalize; rw [if_pos h]

/-- **`normalize` always produces a canonical value**: any exponent, any significand
    (of any length, even 0), any incoming loss, any mode. -/
theorem normalize_canonical (x : Flt) (rm : RM) (loss : Loss) (hF : x.sem.WF) (hx : x.cat = .normal) :
    (x.normalize rm loss).Canonical := by
  obtain ⟨s, sg, ex, mant, cat⟩ := x
  simp only at hF hx
  subst hx
  have hp := hF.2
  have hmm := Sem.emin_le_emax hF
  have h3 := two_pow_pred_can s.p (by omega)
  unfold Flt.normalize
  simp only [ne_eq, not_true_eq_false, if_false]
  by_cases hm : mant = 0
  · subst hm
    have h0 : ¬ (((msb 0 : Nat) : Int) > 0) := by simp [msb]
    rw [if_neg h0]
    apply stepII_canonical _ _ _ hF rfl
    · show 0 < 2 ^ s.p
      positivity
    all_goals intro h; exact absurd rfl h
  · set n := msb mant with hn
    have hn1 : 1 ≤ n := msb_pos hm
    have hloN : 2 ^ (n - 1) ≤ mant := msb_le hm
    have hhiN : mant < 2 ^ n := lt_msb mant
    have hnpos : ((n:Nat):Int) > 0 := by omega
    rw [if_pos hnpos]
    by_cases hov : ex + ((n:Int) - s.p) > s.emax
    · rw [if_pos hov]; exact overflow_canonical _ _ hF
    · rw [if_neg hov]
      generalize hec : (if ex + ((n:Int) - s.p) < s.emin then s.emin - ex else (n:Int) - s.p) = ec
      rcases lt_trichotomy ec 0 with hneg | hzero | hposi
      · -- shift left
        rw [if_pos hneg]
        obtain ⟨k, hk⟩ : ∃ k : Nat, ec = -(k:Int) := ⟨ec.natAbs, by omega⟩
        have hkn : ec.natAbs = k := by omega
        rw [hkn, Flt.canonical_normal (by rfl)]
        simp only [Nat.shiftLeft_eq]
        have hkpos : 0 < 2 ^ k := by positivity
        have hnk : n + k ≤ s.p := by rw [← hec] at hk; split at hk <;> omega
        have hup : mant * 2 ^ k < 2 ^ s.p :=
          calc mant * 2 ^ k < 2 ^ n * 2 ^ k := Nat.mul_lt_mul_of_pos_right hhiN hkpos
            _ = 2 ^ (n + k) := (Nat.pow_add 2 n k).symm
            _ ≤ 2 ^ s.p := Nat.pow_le_pow_right (by norm_num) hnk
        have hpos : 0 < mant * 2 ^ k := Nat.mul_pos (Nat.pos_of_ne_zero hm) hkpos
        by_cases hcl : ex + ((n:Int) - s.p) < s.emin
        · rw [if_pos hcl] at hec
          exact ⟨by omega, by omega, hpos, hup, Or.inr (by omega)⟩
        · rw [if_neg hcl] at hec
          refine ⟨by omega, by omega, hpos, hup, Or.inl ?_⟩
          have hk' : s.p - 1 = (n - 1) + k := by omega
          rw [hk', Nat.pow_add]
          exact Nat.mul_le_mul_right _ hloN
      · -- no shift
        subst hzero
        rw [if_neg (lt_irrefl _), if_neg (lt_irrefl _)]
        have hnp : n ≤ s.p := by split at hec <;> omega
        have hlt : mant < 2 ^ s.p := lt_of_lt_of_le hhiN (Nat.pow_le_pow_right (by norm_num) hnp)
        apply stepII_canonical _ _ _ hF rfl hlt
        · intro _; show ex ≤ s.emax; split at hec <;> omega
        · intro _; show s.emin ≤ ex; split at hec <;> omega
        · intro _
          show 2 ^ (s.p - 1) ≤ mant ∨ ex = s.emin
          by_cases hcl : ex + ((n:Int) - s.p) < s.emin
          · rw [if_pos hcl] at hec; right; omega
          · rw [if_neg hcl] at hec; left
            have : n = s.p := by omega
            rw [← this]; exact hloN
      · -- shift right
        rw [if_neg (by omega), if_pos hposi]
        obtain ⟨k, hk⟩ : ∃ k : Nat, ec = (k:Int) := ⟨ec.toNat, by omega⟩
        subst hk
        have hk1 : 1 ≤ k := by omega
        simp only [Int.toNat_natCast]
        have hkpos : 0 < 2 ^ k := by positivity
        have hnk : n ≤ s.p + k := by split at hec <;> omega
        have hlt : mant >>> k < 2 ^ s.p := by
          rw [Nat.shiftRight_eq_div_pow, Nat.div_lt_iff_lt_mul hkpos, ← Nat.pow_add]
          exact lt_of_lt_of_le hhiN (Nat.pow_le_pow_right (by norm_num) hnk)
        apply stepII_canonical _ _ _ hF rfl hlt
        · intro _; show ex + (k:Int) ≤ s.emax; split at hec <;> omega
        · intro _; show s.emin ≤ ex + (k:Int); split at hec <;> omega
        · intro _
          show 2 ^ (s.p - 1) ≤ mant >>> k ∨ ex + (k:Int) = s.emin
          by_cases hcl : ex + ((n:Int) - s.p) < s.emin
          · rw [if_pos hcl] at hec; right; omega
          · rw [if_neg hcl] at hec; left
            rw [Nat.shiftRight_eq_div_pow, Nat.le_div_iff_mul_le hkpos, ← Nat.pow_add]
            have : s.p - 1 + k = n - 1 := by omega
            rw [this]; exact hloN

/-- the pattern of every arithmetic operation: `Float::new` followed by `normalize` -/
theorem new_normalize_canonical (s : Sem) (sg : Bool) (e : Int) (m : Nat) (rm : RM) (l : Loss)
    (hF : s.WF) : ((Flt.new s sg e m).normalize rm l).Canonical := by
  unfold Flt.new
  split
  · rw [normalize_of_not_normal _ _ _ (by simp [Flt.zero])]; exact Flt.zero_canonical s sg
  · exact normalize_canonical _ rm l hF rfl

theorem new_normalize_sem (s : Sem) (sg : Bool) (e : Int) (m : Nat) (rm : RM) (l : Loss) :
    ((Flt.new s sg e m).normalize rm l).sem = s := by
  rw [normalize_sem, Flt.new_sem]

/-! ### Arithmetic -/

/-- re-packing the fields of a canonical normal value with `Float::new` -/
theorem Flt.new_of_canonical (b : Flt) (s : Sem) (sg : Bool) (hb : b.Canonical) (hc : b.cat = .normal)
    (hs : b.sem = s) : (Flt.new s sg b.exp b.mant).Canonical := by
  subst hs
  obtain ⟨h1, h2, h3, h4, h5⟩ := (Flt.canonical_normal hc).mp hb
  exact Flt.new_canonical _ _ _ _ h1 h2 h4 (fun _ => h5)

theorem addOrSubNormals_fst (a b : Flt) (sub : Bool) :
    ∃ sg e m, (addOrSubNormals a b sub).1 = Flt.new a.sem sg e m := by
  simp only [addOrSubNormals]
  split_ifs <;> exact ⟨_, _, _, rfl⟩

theorem mulNormals_fst (a b : Flt) (sg : Bool) :
    ∃ e m, (mulNormals a b sg).1 = Flt.new a.sem sg e m := by
  simp only [mulNormals]
  split_ifs <;> exact ⟨_, _, rfl⟩

theorem divNormals_fst (a b : Flt) :
    ∃ sg e m, (divNormals a b).1 = Flt.new a.sem sg e m := by
  simp only [divNormals]
  exact ⟨_, _, _, rfl⟩

theorem addSub_canonical (a b : Flt) (sub : Bool) (rm : RM) (hF : a.sem.WF) (hs : b.sem = a.sem)
    (ha : a.Canonical) (hb : b.Canonical) :
    (addSub a b sub rm).Canonical ∧ (addSub a b sub rm).sem = a.sem := by
  have hnn : (addOrSubNormals a b sub).1.normalize rm (addOrSubNormals a b sub).2 |>.Canonical := by
    obtain ⟨sg, e, m, h⟩ := addOrSubNormals_fst a b sub
    rw [h]; exact new_normalize_canonical _ _ _ _ _ _ hF
  have hns : ((addOrSubNormals a b sub).1.normalize rm (addOrSubNormals a b sub).2).sem = a.sem := by
    obtain ⟨sg, e, m, h⟩ := addOrSubNormals_fst a b sub
    rw [h]; exact new_normalize_sem _ _ _ _ _ _
  cases hca : a.cat <;> cases hcb : b.cat <;> simp only [addSub, hca, hcb]
  all_goals first
    | exact ⟨ha, rfl⟩
    | exact ⟨ha, trivial⟩
    | exact ⟨Flt.nan_canonical _ _, rfl⟩
    | exact ⟨Flt.inf_canonical _ _, rfl⟩
    | exact ⟨Flt.new_of_canonical b _ _ hb hcb hs, Flt.new_sem _ _ _ _⟩
    | (split <;> first | exact ⟨Flt.nan_canonical _ _, rfl⟩ | exact ⟨Flt.inf_canonical _ _, rfl⟩
                       | exact ⟨Flt.zero_canonical _ _, rfl⟩
                       | exact ⟨(Flt.setSign_canonical _ _).mpr hnn, hns⟩)

theorem addWithRm_canonical (a b : Flt) (rm : RM) (hF : a.sem.WF) (hs : b.sem = a.sem)
    (ha : a.Canonical) (hb : b.Canonical) :
    (addWithRm a b rm).Canonical ∧ (addWithRm a b rm).sem = a.sem :=
  addSub_canonical a b false rm hF hs ha hb

theorem subWithRm_canonical (a b : Flt) (rm : RM) (hF : a.sem.WF) (hs : b.sem = a.sem)
    (ha : a.Canonical) (hb : b.Canonical) :
    (subWithRm a b rm).Canonical ∧ (subWithRm a b rm).sem = a.sem :=
  addSub_canonical a b true rm hF hs ha hb

theorem mulWithRm_canonical (a b : Flt) (rm : RM) (hF : a.sem.WF) :
    (mulWithRm a b rm).Canonical ∧ (mulWithRm a b rm).sem = a.sem := by
  have hnn : ∀ sg, (mulNormals a b sg).1.normalize rm (mulNormals a b sg).2 |>.Canonical := by
    intro sg
    obtain ⟨e, m, h⟩ := mulNormals_fst a b sg
    rw [h]; exact new_normalize_canonical _ _ _ _ _ _ hF
  have hns : ∀ sg, ((mulNormals a b sg).1.normalize rm (mulNormals a b sg).2).sem = a.sem := by
    intro sg
    obtain ⟨e, m, h⟩ := mulNormals_fst a b sg
    rw [h]; exact new_normalize_sem _ _ _ _ _ _
  cases hca : a.cat <;> cases hcb : b.cat <;> simp only [mulWithRm, hca, hcb]
  all_goals first
    | exact ⟨Flt.nan_canonical _ _, rfl⟩
    | exact ⟨Flt.inf_canonical _ _, rfl⟩
    | exact ⟨Flt.zero_canonical _ _, rfl⟩
    | exact ⟨hnn _, hns _⟩

theorem divWithRm_canonical (a b : Flt) (rm : RM) (hF : a.sem.WF) :
    (divWithRm a b rm).Canonical ∧ (divWithRm a b rm).sem = a.sem := by
  have hnn : (divNormals a b).1.normalize rm (divNormals a b).2 |>.Canonical := by
    obtain ⟨sg, e, m, h⟩ := divNormals_fst a b
    rw [h]; exact new_normalize_canonical _ _ _ _ _ _ hF
  have hns : ((divNormals a b).1.normalize rm (divNormals a b).2).sem = a.sem := by
    obtain ⟨sg, e, m, h⟩ := divNormals_fst a b
    rw [h]; exact new_normalize_sem _ _ _ _ _ _
  cases hca : a.cat <;> cases hcb : b.cat <;> simp only [divWithRm, hca, hcb]
  all_goals first
    | exact ⟨Flt.nan_canonical _ _, rfl⟩
    | exact ⟨Flt.inf_canonical _ _, rfl⟩
    | exact ⟨Flt.zero_canonical _ _, rfl⟩
    | exact ⟨hnn, hns⟩

/-! ### Conversions -/

theorem Sem.emin_congr {s t : Sem} (h : s.e = t.e) : s.emin = t.emin := by
  unfold Sem.emin Sem.bias; rw [h]

theorem Sem.emax_congr {s t : Sem} (h : s.e = t.e) : s.emax = t.emax := by
  unfold Sem.emax Sem.bias; rw [h]

theorem castWithRm_canonical (x : Flt) (tgt : Sem) (rm : RM) (hT : tgt.WF) (hx : x.Canonical) :
    (x.castWithRm tgt rm).Canonical ∧ (x.castWithRm tgt rm).sem = tgt := by
  cases hc : x.cat <;> simp only [Flt.castWithRm, hc]
  · exact ⟨Flt.inf_canonical _ _, rfl⟩
  · exact ⟨Flt.nan_canonical _ _, rfl⟩
  · split
    · exact ⟨normalize_canonical _ _ _ hT rfl, by rw [normalize_sem]⟩
    · rename_i h
      refine ⟨?_, rfl⟩
      have he : tgt.e = x.sem.e := by by_contra h'; exact h (Or.inl h')
      have hp1 : tgt.p - 1 = x.sem.p - 1 := by by_contra h'; exact h (Or.inr h')
      have hp : x.sem.p = tgt.p := by
        have := hT.2
        omega
      obtain ⟨h1, h2, h3, h4, h5⟩ := (Flt.canonical_normal hc).mp hx
      rw [Flt.canonical_normal (by rfl)]
      simp only
      rw [← Sem.emin_congr he, ← Sem.emax_congr he, ← hp, ← hp1] at *
      simp only [sub_self, sub_zero]
      exact ⟨h1, h2, h3, h4, h5⟩
  · exact ⟨Flt.zero_canonical _ _, rfl⟩

theorem cast_canonical (x : Flt) (tgt : Sem) (hT : tgt.WF) (hx : x.Canonical) :
    (x.cast tgt).Canonical ∧ (x.cast tgt).sem = tgt :=
  castWithRm_canonical x tgt _ hT hx

theorem scale_canonical (x : Flt) (k : Int) (rm : RM) (hF : x.sem.WF) (hx : x.Canonical) :
    (x.scale k rm).Canonical ∧ (x.scale k rm).sem = x.sem := by
  unfold Flt.scale Flt.scaleCore
  split
  · exact ⟨hx, rfl⟩
  · exact ⟨new_normalize_canonical _ _ _ _ _ _ hF, new_normalize_sem _ _ _ _ _ _⟩

/-- within `±scaleSpan` the clamp of `scale` is the identity -/
theorem scale_eq_core (x : Flt) (k : Int) (rm : RM) (h1 : -x.sem.scaleSpan ≤ k) (h2 : k ≤ x.sem.scaleSpan) :
    x.scale k rm = x.scaleCore k rm := by
  unfold Flt.scale
  rw [show max (-x.sem.scaleSpan) (min x.sem.scaleSpan k) = k by omega]

/-- the clamp bound of `scale` is at least 4 in every well-formed format -/
theorem Sem.scaleSpan_ge {s : Sem} (h : s.WF) : 4 ≤ s.scaleSpan := by
  unfold Sem.scaleSpan
  have h1 := Sem.emin_le_emax h
  have h2 := h.2
  have : s.emin < s.emax := by
    have := Sem.emax_pos h; have := Sem.emin_le_zero h; omega
  omega

/-- small scale amounts (every constant the crate itself uses) are never clamped -/
theorem scale_small (x : Flt) (k : Int) (rm : RM) (hF : x.sem.WF) (h1 : -4 ≤ k) (h2 : k ≤ 4) :
    x.scale k rm = x.scaleCore k rm :=
  scale_eq_core x k rm (by have := Sem.scaleSpan_ge hF; omega) (by have := Sem.scaleSpan_ge hF; omega)

theorem fromBigint_canonical (sem : Sem) (v : Nat) (hF : sem.WF) :
    (fromBigint sem v).Canonical ∧ (fromBigint sem v).sem = sem :=
  ⟨new_normalize_canonical _ _ _ _ _ _ hF, new_normalize_sem _ _ _ _ _ _⟩

theorem FP128_WF : FP128.WF := by unfold Sem.WF FP128; simp

theorem fromU64_canonical (sem : Sem) (v : Nat) (hF : sem.WF) :
    (fromU64 sem v).Canonical ∧ (fromU64 sem v).sem = sem :=
  cast_canonical _ _ hF (fromBigint_canonical FP128 v FP128_WF).1

theorem fromI64_canonical (sem : Sem) (v : Int) (hF : sem.WF) :
    (fromI64 sem v).Canonical ∧ (fromI64 sem v).sem = sem := by
  unfold fromI64
  split
  · exact ⟨(Flt.setSign_canonical _ _).mpr (fromU64_canonical sem _ hF).1, (fromU64_canonical sem _ hF).2⟩
  · exact fromU64_canonical sem _ hF

/-! ### Integer rounding, sign operations, min/max -/

/-- clearing the low `t` bits of a canonical significand keeps the value canonical -/
theorem clearLow_canonical (x : Flt) (t : Nat) (sg : Bool) (hc : x.cat = .normal) (hx : x.Canonical) :
    (Flt.new x.sem sg x.exp ((x.mant >>> t) <<< t)).Canonical := by
  obtain ⟨h1, h2, h3, h4, h5⟩ := (Flt.canonical_normal hc).mp hx
  have htp : 0 < 2 ^ t := by positivity
  have hle : (x.mant >>> t) <<< t ≤ x.mant := by
    rw [Nat.shiftLeft_eq, Nat.shiftRight_eq_div_pow]; exact Nat.div_mul_le_self _ _
  apply Flt.new_canonical _ _ _ _ h1 h2 (by omega)
  intro hne
  rcases h5 with h5 | h5
  · left
    rw [Nat.shiftLeft_eq, Nat.shiftRight_eq_div_pow] at hne ⊢
    by_cases htp1 : t ≤ x.sem.p - 1
    · obtain ⟨d, hd⟩ : ∃ d, x.sem.p - 1 = d + t := ⟨x.sem.p - 1 - t, by omega⟩
      rw [hd, Nat.pow_add] at h5 ⊢
      apply Nat.mul_le_mul_right
      rw [Nat.le_div_iff_mul_le htp]; exact h5
    · exfalso; apply hne
      have : x.mant < 2 ^ t := lt_of_lt_of_le h4 (Nat.pow_le_pow_right (by norm_num) (by omega))
      rw [Nat.div_eq_of_lt this, Nat.zero_mul]
  · right; exact h5

theorem trunc_canonical (x : Flt) (hx : x.Canonical) :
    x.trunc.Canonical ∧ x.trunc.sem = x.sem := by
  unfold Flt.trunc
  by_cases hn : x.cat = .normal
  · simp only [Flt.isNormal, hn, beq_self_eq_true, Bool.not_true, Bool.false_eq_true, if_false]
    split_ifs
    · exact ⟨hx, rfl⟩
    · exact ⟨Flt.zero_canonical _ _, rfl⟩
    · exact ⟨clearLow_canonical x _ _ hn hx, Flt.new_sem _ _ _ _⟩
  · have : (!x.isNormal) = true := by simp [Flt.isNormal, hn]
    rw [if_pos this]; exact ⟨hx, rfl⟩

theorem round_canonical (x : Flt) (hF : x.sem.WF) (hx : x.Canonical) :
    x.round.Canonical ∧ x.round.sem = x.sem := by
  unfold Flt.round
  by_cases hn : x.cat = .normal
  · simp only [Flt.isNormal, hn, beq_self_eq_true, Bool.not_true, Bool.false_eq_true, if_false]
    have ht := clearLow_canonical x ((((x.sem.p - 1 : Nat) : Int) - x.exp).toNat) x.sign hn hx
    have h1 := Flt.one_canonical x.sem false hF
    split_ifs
    · exact ⟨hx, rfl⟩
    · exact ⟨Flt.one_canonical _ _ hF, rfl⟩
    · exact ⟨Flt.zero_canonical _ _, rfl⟩
    · exact ⟨ht, Flt.new_sem _ _ _ _⟩
    · have := subWithRm_canonical _ (Flt.one x.sem false) x.sem.rm
        (by rw [Flt.new_sem]; exact hF) (by rw [Flt.new_sem]; rfl) ht h1
      exact ⟨this.1, this.2.trans (Flt.new_sem _ _ _ _)⟩
    · have := addWithRm_canonical _ (Flt.one x.sem false) x.sem.rm
        (by rw [Flt.new_sem]; exact hF) (by rw [Flt.new_sem]; rfl) ht h1
      exact ⟨this.1, this.2.trans (Flt.new_sem _ _ _ _)⟩
  · have : (!x.isNormal) = true := by simp [Flt.isNormal, hn]
    rw [if_pos this]; exact ⟨hx, rfl⟩

theorem abs_canonical (x : Flt) (hx : x.Canonical) : x.abs.Canonical ∧ x.abs.sem = x.sem := ⟨hx, rfl⟩
theorem neg_canonical (x : Flt) (hx : x.Canonical) : x.neg.Canonical ∧ x.neg.sem = x.sem := ⟨hx, rfl⟩

theorem min_canonical (a b : Flt) (hs : b.sem = a.sem) (ha : a.Canonical) (hb : b.Canonical) :
    (a.min b).Canonical ∧ (a.min b).sem = a.sem := by
  unfold Flt.min
  split_ifs <;> first | exact ⟨ha, rfl⟩ | exact ⟨hb, hs⟩

theorem max_canonical (a b : Flt) (hs : b.sem = a.sem) (ha : a.Canonical) (hb : b.Canonical) :
    (a.max b).Canonical ∧ (a.max b).sem = a.sem := by
  unfold Flt.max
  split_ifs <;> first | exact ⟨ha, rfl⟩ | exact ⟨hb, hs⟩

/-! ### Operators in the format's own mode, `powi`, `rem`, `sqrt` -/

theorem Sem.increasePrecision_WF {s : Sem} (h : s.WF) (k : Nat) : (s.increasePrecision k).WF := by
  have := h.2
  exact ⟨h.1, by simp only [Sem.increasePrecision]; omega⟩

theorem mul_canonical (a b : Flt) (hF : a.sem.WF) : (a.mul b).Canonical ∧ (a.mul b).sem = a.sem :=
  mulWithRm_canonical a b _ hF

theorem div_canonical (a b : Flt) (hF : a.sem.WF) : (a.div b).Canonical ∧ (a.div b).sem = a.sem :=
  divWithRm_canonical a b _ hF

theorem add_canonical (a b : Flt) (hF : a.sem.WF) (hs : b.sem = a.sem)
    (ha : a.Canonical) (hb : b.Canonical) : (a.add b).Canonical ∧ (a.add b).sem = a.sem :=
  addWithRm_canonical a b _ hF hs ha hb

theorem sub_canonical (a b : Flt) (hF : a.sem.WF) (hs : b.sem = a.sem)
    (ha : a.Canonical) (hb : b.Canonical) : (a.sub b).Canonical ∧ (a.sub b).sem = a.sem :=
  subWithRm_canonical a b _ hF hs ha hb

theorem powiLoop_canonical (fuel n : Nat) (elem val : Flt) (s : Sem) (hF : s.WF)
    (he : elem.Canonical) (hes : elem.sem = s) (hvs : val.sem = s) :
    (powiLoop fuel n elem val).Canonical ∧ (powiLoop fuel n elem val).sem = s := by
  induction fuel generalizing n elem val with
  | zero => exact ⟨he, hes⟩
  | succ fuel ih =>
    simp only [powiLoop]
    split
    · exact ⟨he, hes⟩
    · apply ih
      · split
        · exact (mul_canonical elem val (by rw [hes]; exact hF)).1
        · exact he
      · split
        · exact (mul_canonical elem val (by rw [hes]; exact hF)).2.trans hes
        · exact hes
      · exact (mul_canonical val val (by rw [hvs]; exact hF)).2.trans hvs

theorem Sem.withRm_WF {s : Sem} (h : s.WF) (rm : RM) : (s.withRm rm).WF := h

theorem powi_canonical (x : Flt) (n : Nat) (hF : x.sem.WF) (hx : x.Canonical) :
    (x.powi n).Canonical ∧ (x.powi n).sem = x.sem := by
  unfold Flt.powi
  have hW : ((x.sem.increasePrecision 2).withRm (powiInnerRm x.sem.rm)).WF :=
    Sem.withRm_WF (Sem.increasePrecision_WF hF 2) _
  have hc := cast_canonical x _ hW hx
  have hl := powiLoop_canonical 64 n
    (Flt.one ((x.sem.increasePrecision 2).withRm (powiInnerRm x.sem.rm)) false)
    (x.cast ((x.sem.increasePrecision 2).withRm (powiInnerRm x.sem.rm))) _ hW
    (Flt.one_canonical _ _ hW) rfl hc.2
  exact castWithRm_canonical _ _ _ hF hl.1

theorem remLoop_canonical (fuel : Nat) (lhs rhs r : Flt) (hF : lhs.sem.WF) (hs : rhs.sem = lhs.sem)
    (hl : lhs.Canonical) (hr : rhs.Canonical) (h : remLoop fuel lhs rhs = some r) :
    r.Canonical ∧ r.sem = lhs.sem := by
  induction fuel generalizing lhs with
  | zero => simp [remLoop] at h
  | succ fuel ih =>
    simp only [remLoop] at h
    split at h
    · have hFr : rhs.sem.WF := by rw [hs]; exact hF
      have hd : ∀ k, (rhs.scale k .none).Canonical ∧ (rhs.scale k .none).sem = lhs.sem :=
        fun k => ⟨(scale_canonical rhs k .none hFr hr).1, (scale_canonical rhs k .none hFr hr).2.trans hs⟩
      have key : ∀ d : Flt, d.Canonical → d.sem = lhs.sem →
          remLoop fuel (lhs.sub d) rhs = some r → r.Canonical ∧ r.sem = lhs.sem := by
        intro d hdc hds h
        have hsub := sub_canonical lhs d hF hds hl hdc
        have := ih _ (by rw [hsub.2]; exact hF) (hs.trans hsub.2.symm) hsub.1 h
        exact ⟨this.1, this.2.trans hsub.2⟩
      split at h
      · exact key _ (hd _).1 (hd _).2 h
      · exact key _ (hd _).1 (hd _).2 h
    · cases h; exact ⟨hl, rfl⟩

theorem remFuel_canonical (fuel : Nat) (x y r : Flt) (hF : x.sem.WF) (hs : y.sem = x.sem)
    (hx : x.Canonical) (hy : y.Canonical) (h : x.remFuel fuel y = some r) :
    r.Canonical ∧ r.sem = x.sem := by
  unfold Flt.remFuel at h
  split at h
  · cases h; exact ⟨Flt.nan_canonical _ _, rfl⟩
  · split at h
    · cases h; exact ⟨hx, rfl⟩
    · simp only [Option.map_eq_some_iff] at h
      obtain ⟨r0, h0, rfl⟩ := h
      have hrhs : (if y.sign then y.neg else y).Canonical ∧ (if y.sign then y.neg else y).sem = x.abs.sem := by
        split
        · exact ⟨hy, hs⟩
        · exact ⟨hy, hs⟩
      have := remLoop_canonical fuel x.abs _ r0 hF hrhs.2 hx hrhs.1 h0
      exact ⟨this.1, this.2⟩

theorem Sem.increaseExponent_WF {s : Sem} (h : s.WF) (k : Nat) : (s.increaseExponent k).WF := by
  have := h.1
  exact ⟨by simp only [Sem.increaseExponent]; omega, h.2⟩

theorem sqrtLoop_canonical (sem : Sem) (hS : sem.WF) (fuel : Nat) (target x prev r : Flt)
    (hF : x.sem.WF) (hts : target.sem = x.sem) (hx : x.Canonical)
    (h : sqrtLoop sem fuel target x prev = some r) :
    r.Canonical ∧ r.sem = sem := by
  induction fuel generalizing x prev with
  | zero => simp [sqrtLoop] at h
  | succ fuel ih =>
    simp only [sqrtLoop] at h
    have hd := div_canonical target x (by rw [hts]; exact hF)
    have ha := add_canonical x (target.div x) hF (hd.2.trans hts) hx hd.1
    have hsc := scale_canonical (x.add (target.div x)) (-1) .nte (by rw [ha.2]; exact hF) ha.1
    have hsem : ((x.add (target.div x)).scale (-1) .nte).sem = x.sem := hsc.2.trans ha.2
    split at h
    · cases h; exact cast_canonical _ sem hS hsc.1
    · exact ih _ _ (by rw [hsem]; exact hF) (hts.trans hsem.symm) hsc.1 h

theorem sqrtFuel_canonical (fuel : Nat) (x r : Flt) (hF : x.sem.WF) (hx : x.Canonical)
    (h : x.sqrtFuel fuel = some r) : r.Canonical ∧ r.sem = x.sem := by
  unfold Flt.sqrtFuel at h
  split at h
  · cases h; exact ⟨hx, rfl⟩
  · split at h
    · cases h; exact ⟨Flt.nan_canonical _ _, rfl⟩
    · split at h
      · cases h; exact ⟨hx, rfl⟩
      · have hW : (x.sem.increaseExponent 1).WF := Sem.increaseExponent_WF hF 1
        have h2 := fromU64_canonical (x.sem.increaseExponent 1) 2 hW
        have ht := castWithRm_canonical x (x.sem.increaseExponent 1) .zero hW hx
        have h0 : (if (x.castWithRm (x.sem.increaseExponent 1) .zero).lt (fromU64 (x.sem.increaseExponent 1) 2)
              then fromU64 (x.sem.increaseExponent 1) 2 else x.castWithRm (x.sem.increaseExponent 1) .zero).Canonical ∧
            (if (x.castWithRm (x.sem.increaseExponent 1) .zero).lt (fromU64 (x.sem.increaseExponent 1) 2)
              then fromU64 (x.sem.increaseExponent 1) 2 else x.castWithRm (x.sem.increaseExponent 1) .zero).sem
              = x.sem.increaseExponent 1 := by
          split
          · exact h2
          · exact ht
        exact sqrtLoop_canonical x.sem hF fuel _ _ _ r (by rw [h0.2]; exact hW) (ht.2.trans h0.2.symm) h0.1 h

/-! ### The value determines the representation (for `PartialEq`) -/

theorem mag_exp_lt_absurd (p : Nat) (hp : 1 ≤ p) (c emin ea eb : Int) (ma mb : Nat)
    (hma : ma < 2 ^ p) (hmb : 2 ^ (p - 1) ≤ mb ∨ eb = emin) (hea : emin ≤ ea) (hlt : ea < eb)
    (h : (ma:ℚ) * (2:ℚ) ^ (ea - c) = (mb:ℚ) * (2:ℚ) ^ (eb - c)) : False := by
  obtain ⟨d, hd⟩ : ∃ d : Nat, eb = ea + ((d + 1 : Nat) : Int) := ⟨(eb - ea - 1).toNat, by omega⟩
  have hX : (0:ℚ) < (2:ℚ) ^ (ea - c) := by positivity
  have e1 : (2:ℚ) ^ (eb - c) = (2:ℚ) ^ (ea - c) * (2:ℚ) ^ (d + 1) := by
    rw [← zpow_natCast, ← zpow_add₀ (by norm_num : (2:ℚ) ≠ 0)]; congr 1; rw [hd]; ring
  rw [e1] at h
  have h2 : (ma:ℚ) = (mb:ℚ) * 2 ^ (d + 1) := by
    have : (ma:ℚ) * 2 ^ (ea - c) = ((mb:ℚ) * 2 ^ (d + 1)) * 2 ^ (ea - c) := by rw [h]; ring
    exact mul_right_cancel₀ (ne_of_gt hX) this
  have h3 : ma = mb * 2 ^ (d + 1) := by exact_mod_cast h2
  have hmb' : 2 ^ (p - 1) ≤ mb := by
    rcases hmb with h | h
    · exact h
    · omega
  have h4 : 2 ^ (p - 1) * 2 ≤ mb * 2 ^ (d + 1) :=
    Nat.mul_le_mul hmb' (by
      calc 2 = 2 ^ 1 := rfl
        _ ≤ 2 ^ (d + 1) := Nat.pow_le_pow_right (by norm_num) (by omega))
  have := two_pow_pred_can p hp
  omega

theorem Flt.mag_pos (x : Flt) (hc : x.cat = .normal) (hx : x.Canonical) : 0 < x.mag := by
  obtain ⟨_, _, h3, _, _⟩ := (Flt.canonical_normal hc).mp hx
  rw [Flt.mag_eq]
  have : (0:ℚ) < x.mant := by exact_mod_cast h3
  positivity

theorem Flt.val_ne_zero (x : Flt) (hc : x.cat = .normal) (hx : x.Canonical) : x.val ≠ 0 := by
  have := Flt.mag_pos x hc hx
  unfold Flt.val; rw [hc]; simp only
  split <;> linarith

/-- two canonical finite non-zero values of one format with the same magnitude have the same fields -/
theorem mag_inj (a b : Flt) (hs : b.sem = a.sem) (ha : a.Canonical) (hb : b.Canonical)
    (hca : a.cat = .normal) (hcb : b.cat = .normal) (hv : a.mag = b.mag) :
    a.exp = b.exp ∧ a.mant = b.mant := by
  obtain ⟨a1, a2, a3, a4, a5⟩ := (Flt.canonical_normal hca).mp ha
  obtain ⟨b1, b2, b3, b4, b5⟩ := (Flt.canonical_normal hcb).mp hb
  rw [Flt.mag_eq, Flt.mag_eq, hs] at hv
  rw [hs] at b1 b4 b5
  have hp : 1 ≤ a.sem.p := by
    by_contra h
    have h0 : a.sem.p = 0 := by omega
    rw [h0] at a4; simp at a4; omega
  rcases lt_trichotomy a.exp b.exp with hlt | heq | hgt
  · exact (mag_exp_lt_absurd _ hp _ _ _ _ _ _ a4 b5 a1 hlt hv).elim
  · refine ⟨heq, ?_⟩
    rw [heq] at hv
    have hX : (0:ℚ) < (2:ℚ) ^ (b.exp - ((a.sem.p:Int) - 1)) := by positivity
    have := mul_right_cancel₀ (ne_of_gt hX) hv
    exact_mod_cast this
  · exact (mag_exp_lt_absurd _ hp _ _ _ _ _ _ b4 a5 b1 hgt hv.symm).elim

/-- **injectivity of the value** on canonical finite non-zero values of one format -/
theorem val_inj (a b : Flt) (hs : b.sem = a.sem) (ha : a.Canonical) (hb : b.Canonical)
    (hca : a.cat = .normal) (hcb : b.cat = .normal) (hv : a.val = b.val) :
    a.sign = b.sign ∧ a.exp = b.exp ∧ a.mant = b.mant := by
  have pa := Flt.mag_pos a hca ha
  have pb := Flt.mag_pos b hcb hb
  unfold Flt.val at hv
  rw [hca, hcb] at hv
  simp only at hv
  cases hsa : a.sign <;> cases hsb : b.sign <;> rw [hsa, hsb] at hv <;> simp only [if_true, if_false, Bool.false_eq_true] at hv
  · exact ⟨rfl, mag_inj a b hs ha hb hca hcb hv⟩
  · linarith
  · linarith
  · exact ⟨rfl, mag_inj a b hs ha hb hca hcb (neg_injective hv)⟩

end Arp
