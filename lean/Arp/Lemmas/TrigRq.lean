import Arp.Lemmas.Ln2
import Arp.Lemmas.ECf
import Arp.Props.C18Accuracy
/-!
# A mixed relative/absolute model of one rounding, and the `NN` calculus for every mode

`rq W rm q` is the value of `Spec.round W rm false q` for `q ≥ 0` (`0 ↦ 0`).  For
`0 ≤ q ≤ maxFinite W` (no overflow) and every mode:

* `rq_err`   : `|rq q − q| ≤ u·q + δ` (`u = 2^(1-p)`, `δ` = smallest subnormal) — valid through
  the subnormal range down to zero;
* `rq_rel`   : `|rq q − q| ≤ u·q` in the normal range;
* `rq_mono`, `rq_rep`, `rq_isRep`;
* `nn_mul`, `nn_div`, `nn_div_inf`, `nn_add`, `nn_sub`: the float operations on non-negative finite
  canonical operands (`Ln2.NN`) compute `rq` of the exact result.
-/
namespace Arp.TrigErr
open Arp Arp.SpecRound Arp.RelErr Arp.Ln2

variable {W : Sem} {q : ℚ}

/-- value of the rounding of a non-negative rational -/
def rq (W : Sem) (rm : RM) (q : ℚ) : ℚ := if q = 0 then 0 else (Spec.round W rm false q).mag W

theorem rq_zero (W : Sem) (rm : RM) : rq W rm 0 = 0 := by simp [rq]

theorem rq_pos_eq (rm : RM) (hq : 0 < q) : rq W rm q = (Spec.round W rm false q).mag W := by
  unfold rq; rw [if_neg (ne_of_gt hq)]

theorem rq_eq_rnd (rm : RM) (hq : 0 < q) : rq W rm q = Sqrt.rnd W rm q := rq_pos_eq rm hq

/-- below the largest finite number the overflow branch is not taken -/
theorem not_ovf_of_le (hW : W.WF) {e : Int} {m : Nat} {f : ℚ} (d : Decomp W q e m f)
    (hle : q ≤ maxFinite W) (rm : RM) : ¬ Ovf W e m (Spec.up rm false m f) := by
  intro ho
  have h1 := maxFinite_lt_sr W
  have h2 := maxFinite_lt_nearThreshold W
  rcases (d.ovf_iff hW rm false).mp ho with ⟨_, h⟩ | ⟨_, h⟩ | ⟨_, h⟩ <;> linarith

/-- anatomy of an in-range rounding -/
theorem rq_core (hW : W.WF) (hq : 0 < q) (hle : q ≤ maxFinite W) (rm : RM) :
    ∃ (e : Int) (m : Nat) (f : ℚ), Decomp W q e m f ∧ (Spec.round W rm false q).IsFinite ∧
      (rq W rm q = (m:ℚ) * W.ulp e ∨ rq W rm q = ((m:ℚ) + 1) * W.ulp e) := by
  have hp : 1 ≤ W.p := by have := hW.2; omega
  obtain ⟨e, m, f, d⟩ := exists_decomp (F := W) hp hq
  have ho := not_ovf_of_le hW d hle rm
  obtain ⟨hfin, hmag, _⟩ := d.round_not_ovf_mag hW hq rm false ho _ rfl
  refine ⟨e, m, f, d, hfin, ?_⟩
  rw [rq_pos_eq rm hq, hmag]
  split
  · right; push_cast; ring
  · left; rfl

theorem rq_finite (hW : W.WF) (hq : 0 < q) (hle : q ≤ maxFinite W) (rm : RM) :
    (Spec.round W rm false q).IsFinite := by
  obtain ⟨_, _, _, _, h, _⟩ := rq_core hW hq hle rm
  exact h

/-- **mixed model**: relative error `u` plus one smallest subnormal, for every mode -/
theorem rq_err (hW : W.WF) (hq : 0 ≤ q) (hle : q ≤ maxFinite W) (rm : RM) :
    |rq W rm q - q| ≤ u W * q + delta W := by
  have hp : 1 ≤ W.p := by have := hW.2; omega
  rcases eq_or_lt_of_le hq with h0 | hpos
  · rw [← h0, rq_zero]; simp; exact le_of_lt (delta_pos W)
  obtain ⟨e, m, f, d, _, hv⟩ := rq_core hW hpos hle rm
  have hu := W.ulp_pos e
  have hf0 := d.hf0
  have hf1 := d.hf1
  have hup := u_pos W
  have hd := delta_pos W
  have hulp : W.ulp e ≤ u W * q + delta W := by
    rcases d.hn with h | h
    · have hmq : (2:ℚ) ^ (W.p - 1) ≤ (m:ℚ) := by exact_mod_cast h
      have h2e : (2:ℚ) ^ e ≤ q :=
        calc (2:ℚ) ^ e = (2:ℚ) ^ (W.p - 1) * W.ulp e := (W.half_pow_mul_ulp hp e).symm
          _ ≤ (m:ℚ) * W.ulp e := mul_le_mul_of_nonneg_right hmq (le_of_lt hu)
          _ ≤ q := d.lo
      have : W.ulp e ≤ u W * q := by
        rw [ulp_eq_u]; exact mul_le_mul_of_nonneg_left h2e (le_of_lt hup)
      linarith
    · have : W.ulp e = delta W := by unfold delta; rw [h]
      have : 0 < u W * q := mul_pos hup hpos
      linarith
  have hqe := d.hq
  rw [abs_le]
  rcases hv with hv | hv <;> rw [hv, hqe] <;> constructor <;> nlinarith

/-- in the normal range the error is purely relative -/
theorem rq_rel (hW : W.WF) (hlo : (2:ℚ) ^ W.emin ≤ q) (hle : q ≤ maxFinite W) (rm : RM) :
    |rq W rm q - q| ≤ u W * q := by
  have hq : 0 < q := lt_of_lt_of_le (by positivity) hlo
  obtain ⟨e, m, hfin⟩ := round_fin_of_range hW rm false hlo hle
  have hsat : rm.truncFor false → q < (2:ℚ) ^ (W.emax + 1) :=
    fun _ => lt_of_le_of_lt hle (maxFinite_lt_sr W)
  have := round_rel hW rm false hq hlo hsat hfin
  rw [rq_pos_eq rm hq, hfin, Res.mag_fin]
  exact this

theorem rq_isRep (hW : W.WF) (hq : 0 ≤ q) (rm : RM) : IsRep W (rq W rm q) := by
  rcases eq_or_lt_of_le hq with h0 | hpos
  · rw [← h0, rq_zero]; exact IsRep.zero hW
  · rw [rq_pos_eq rm hpos]; exact round_isRep hW hpos rm false

theorem rq_nonneg (hW : W.WF) (hq : 0 ≤ q) (rm : RM) : 0 ≤ rq W rm q := (rq_isRep hW hq rm).nonneg

/-- representable values are fixed points -/
theorem rq_rep (hW : W.WF) {c : ℚ} (hc : IsRep W c) (rm : RM) : rq W rm c = c := by
  rcases eq_or_lt_of_le hc.nonneg with h0 | hpos
  · rw [← h0, rq_zero]
  · rw [rq_eq_rnd rm hpos]; exact Sqrt.rnd_rep hW rm hc hpos

/-- monotone below the overflow threshold -/
theorem rq_mono (hW : W.WF) {q1 q2 : ℚ} (h1 : 0 ≤ q1) (h12 : q1 ≤ q2) (hle : q2 ≤ maxFinite W)
    (rm : RM) : rq W rm q1 ≤ rq W rm q2 := by
  rcases eq_or_lt_of_le h1 with h0 | hpos
  · rw [← h0, rq_zero]; exact rq_nonneg hW (le_trans h1 h12) rm
  have hpos2 : 0 < q2 := lt_of_lt_of_le hpos h12
  have hm := round_mono hW hpos h12 rm false
  have hf1 := rq_finite hW hpos (le_trans h12 hle) rm
  have hf2 := rq_finite hW hpos2 hle rm
  rw [hf1.key_eq, hf2.key_eq] at hm
  rw [rq_pos_eq rm hpos, rq_pos_eq rm hpos2]
  exact_mod_cast hm

theorem rq_le_of_rep (hW : W.WF) {c : ℚ} (hc : IsRep W c) (hq : 0 ≤ q) (hqc : q ≤ c) (rm : RM) :
    rq W rm q ≤ c := by
  have := rq_mono hW hq hqc hc.le_maxFinite rm
  rwa [rq_rep hW hc] at this

theorem rq_ge_of_rep (hW : W.WF) {c : ℚ} (hc : IsRep W c) (hcq : c ≤ q) (hle : q ≤ maxFinite W)
    (rm : RM) : c ≤ rq W rm q := by
  have := rq_mono hW hc.nonneg hcq hle rm
  rwa [rq_rep hW hc] at this

/-- upper/lower forms of the mixed model -/
theorem rq_le_mixed (hW : W.WF) (hq : 0 ≤ q) (hle : q ≤ maxFinite W) (rm : RM) :
    rq W rm q ≤ (1 + u W) * q + delta W := by
  have := (abs_le.mp (rq_err hW hq hle rm)).2; linarith

theorem rq_ge_mixed (hW : W.WF) (hq : 0 ≤ q) (hle : q ≤ maxFinite W) (rm : RM) :
    (1 - u W) * q ≤ rq W rm q + delta W := by
  have := (abs_le.mp (rq_err hW hq hle rm)).1; linarith

/-- nearest modes: half the mixed error -/
theorem rq_err_near (hW : W.WF) {rm : RM} (hrm : rm = .nte ∨ rm = .nta) (hq : 0 ≤ q)
    (hle : q ≤ maxFinite W) : |rq W rm q - q| ≤ u W / 2 * q + delta W := by
  have hp : 1 ≤ W.p := by have := hW.2; omega
  rcases eq_or_lt_of_le hq with h0 | hpos
  · rw [← h0, rq_zero]; simp; exact le_of_lt (delta_pos W)
  obtain ⟨e, m, f, d⟩ := exists_decomp (F := W) hp hpos
  have ho := not_ovf_of_le hW d hle rm
  obtain ⟨_, hmag, _⟩ := d.round_not_ovf_mag hW hpos rm false ho _ rfl
  have herr := d.err (Spec.up rm false m f) _ rfl
  rw [← hmag, ← rq_pos_eq rm hpos] at herr
  have hu := W.ulp_pos e
  have hf0 := d.hf0
  have hf1 := d.hf1
  have hup := u_pos W
  have hd := delta_pos W
  have hulp : W.ulp e ≤ u W * q + delta W := by
    rcases d.hn with h | h
    · have hmq : (2:ℚ) ^ (W.p - 1) ≤ (m:ℚ) := by exact_mod_cast h
      have h2e : (2:ℚ) ^ e ≤ q :=
        calc (2:ℚ) ^ e = (2:ℚ) ^ (W.p - 1) * W.ulp e := (W.half_pow_mul_ulp hp e).symm
          _ ≤ (m:ℚ) * W.ulp e := mul_le_mul_of_nonneg_right hmq (le_of_lt hu)
          _ ≤ q := d.lo
      have : W.ulp e ≤ u W * q := by
        rw [ulp_eq_u]; exact mul_le_mul_of_nonneg_left h2e (le_of_lt hup)
      linarith
    · have : W.ulp e = delta W := by unfold delta; rw [h]
      have : 0 < u W * q := mul_pos hup hpos
      linarith
  have hhalf : |rq W rm q - q| ≤ W.ulp e / 2 := by
    rw [herr, abs_le]
    cases hup' : Spec.up rm false m f
    · simp only [Bool.false_eq_true, if_false]
      have := up_nearest_false hrm hup'
      constructor <;> nlinarith
    · simp only [if_true]
      have := up_nearest_true hrm hup'
      constructor <;> nlinarith
  linarith

/-- **separation**: a representable magnitude other than the normal representable `s` is at least
    `u·s/4` away from it (half an ulp of the binade of `s`) -/
theorem rep_sep (hW : W.WF) {s r : ℚ} (hs : IsRep W s) (hsn : (2:ℚ) ^ W.emin ≤ s)
    (hr : IsRep W r) : r = s ∨ u W * s / 4 ≤ |r - s| := by
  have hp : 1 ≤ W.p := by have := hW.2; omega
  obtain ⟨e, m, he1, he2, hm, hn, hsv⟩ := hs
  rw [← Sem.ulp_def] at hsv
  have hu := W.ulp_pos e
  -- the significand is normal
  have hmn : 2 ^ (W.p - 1) ≤ m := by
    rcases hn with h | h
    · exact h
    · by_contra hc
      have h1 : (m:ℚ) + 1 ≤ (2:ℚ) ^ (W.p - 1) := by
        have : m + 1 ≤ 2 ^ (W.p - 1) := by omega
        exact_mod_cast this
      have h2 := W.half_pow_mul_ulp hp e
      rw [h] at h2 hsv hu
      have : s < (2:ℚ) ^ W.emin := by
        rw [hsv, ← h2]; nlinarith
      linarith
  have hmq : (2:ℚ) ^ (W.p - 1) ≤ (m:ℚ) := by exact_mod_cast hmn
  have hmlt : (m:ℚ) < (2:ℚ) ^ W.p := by exact_mod_cast hm
  -- `u·s/4 < ulp e / 2`
  have hus : u W * s / 4 ≤ W.ulp e / 2 := by
    have h1 : s ≤ (2:ℚ) ^ W.p * W.ulp e := by
      rw [hsv]; exact mul_le_mul_of_nonneg_right (le_of_lt hmlt) (le_of_lt hu)
    rw [W.pow_mul_ulp e] at h1
    have h2 : u W * (2:ℚ) ^ (e + 1) = 2 * W.ulp e := by
      rw [ulp_eq_u, zpow_add_one₀ (by norm_num : (2:ℚ) ≠ 0)]; ring
    have h3 : u W * s ≤ u W * (2:ℚ) ^ (e + 1) :=
      mul_le_mul_of_nonneg_left h1 (le_of_lt (u_pos W))
    linarith
  -- the upper neighbour
  have hup := hr.gap hp (e := e) (m := m) (Or.inl hmn)
  rw [← hsv] at hup
  -- the lower neighbour
  have hlow : r ≤ s - W.ulp e / 2 ∨ s ≤ r := by
    by_cases hm1 : 2 ^ (W.p - 1) < m
    · have hm0 : 1 ≤ m := le_trans Nat.one_le_two_pow (le_of_lt hm1)
      have h := hr.gap hp (e := e) (m := m - 1) (Or.inl (Nat.le_sub_one_of_lt hm1))
      have hc : ((m - 1 : ℕ) : ℚ) = (m:ℚ) - 1 := by
        rw [Nat.cast_sub hm0]; simp
      rw [hc] at h
      rcases h with h | h
      · left; rw [hsv]; nlinarith
      · right; rw [hsv]; linarith
    · have hme : m = 2 ^ (W.p - 1) := by omega
      by_cases hee : e = W.emin
      · have h := hr.gap hp (e := e) (m := m - 1) (Or.inr hee)
        have hm0 : 1 ≤ m := by rw [hme]; exact Nat.one_le_two_pow
        have hc : ((m - 1 : ℕ) : ℚ) = (m:ℚ) - 1 := by
          rw [Nat.cast_sub hm0]; simp
        rw [hc] at h
        rcases h with h | h
        · left; rw [hsv]; nlinarith
        · right; rw [hsv]; linarith
      · -- `s = 2^e = 2^p · ulp (e-1)`
        have h2p := two_pow_pred_sr hp
        have hge : 2 ^ (W.p - 1) ≤ 2 ^ W.p - 1 := by
          have h1 : 1 ≤ 2 ^ (W.p - 1) := Nat.one_le_two_pow
          rw [h2p]
          generalize 2 ^ (W.p - 1) = t at h1 ⊢
          omega
        have h := hr.gap hp (e := e - 1) (m := 2 ^ W.p - 1) (Or.inl hge)
        have hc : ((2 ^ W.p - 1 : ℕ) : ℚ) = (2:ℚ) ^ W.p - 1 := by
          rw [Nat.cast_sub Nat.one_le_two_pow]; simp
        rw [hc] at h
        have hpred := Sqrt.ulp_pred W e
        have hs2 : s = (2:ℚ) ^ W.p * W.ulp (e - 1) := by
          rw [hsv, hme, hpred]
          push_cast
          have : (2:ℚ) ^ W.p = 2 * (2:ℚ) ^ (W.p - 1) := by exact_mod_cast h2p
          rw [this]; ring
        rcases h with h | h
        · left; rw [hs2, hpred]; linarith
        · right; rw [hs2]; linarith
  rcases hup with h1 | h1
  · rcases hlow with h2 | h2
    · right
      rw [abs_sub_comm, abs_of_nonneg (by linarith)]; linarith
    · left; linarith
  · right
    rw [abs_of_nonneg (by linarith)]; linarith

/-- **the sum does not move**: adding or subtracting less than `u·s/8` to a normal representable
    `s` and rounding to nearest gives `s` back -/
theorem rq_stay (hW : W.WF) {rm : RM} (hrm : rm = .nte ∨ rm = .nta) {s t sg : ℚ}
    (hsg : sg = 1 ∨ sg = -1) (hs : IsRep W s) (hsn : (2:ℚ) ^ W.emin ≤ s) (ht0 : 0 ≤ t)
    (ht : t < u W * s / 8) (hle : s + t ≤ maxFinite W) : rq W rm (s + sg * t) = s := by
  have hu := u_pos W
  have hu1 := u_le_half hW
  have hspos : 0 < s := lt_of_lt_of_le (by positivity) hsn
  have hts : t < s / 16 := by nlinarith
  have hq : 0 < s + sg * t := by rcases hsg with h | h <;> rw [h] <;> linarith
  have hqle : s + sg * t ≤ maxFinite W := by rcases hsg with h | h <;> rw [h] <;> linarith
  have hfin := rq_finite hW hq hqle rm
  have hnear := round_nearest_spec hW hq hrm false hfin s hs
  rw [← rq_pos_eq rm hq] at hnear
  have h1 : |s - (s + sg * t)| = t := by
    rcases hsg with h | h <;> rw [h]
    · rw [show s - (s + 1 * t) = -t by ring, abs_neg, abs_of_nonneg ht0]
    · rw [show s - (s + -1 * t) = t by ring, abs_of_nonneg ht0]
  rw [h1] at hnear
  have hrep := rq_isRep hW (le_of_lt hq) rm
  rcases rep_sep hW hs hsn hrep with h | h
  · exact h
  · exfalso
    have h2 : |rq W rm (s + sg * t) - s| ≤ 2 * t := by
      calc |rq W rm (s + sg * t) - s|
          = |(rq W rm (s + sg * t) - (s + sg * t)) + ((s + sg * t) - s)| := by ring_nf
        _ ≤ |rq W rm (s + sg * t) - (s + sg * t)| + |(s + sg * t) - s| := abs_add_le _ _
        _ ≤ t + t := by
            apply add_le_add hnear
            rw [abs_sub_comm, h1]
        _ = 2 * t := by ring
    linarith

/-! ## floats -/

variable {x : Flt}

theorem nn_of_zero (hs : x.sem = W) (hc : x.Canonical) {s : Bool} (h : x.toRes = .zero s) :
    NN W x 0 := by
  obtain ⟨h1, _⟩ := toRes_zero h
  exact ⟨hs, hc, Or.inr h1, fun h' => by rw [h1] at h'; exact absurd h' (by decide),
    Flt.val_zero h1⟩

/-- a value whose `toRes` is an in-range rounding of `q > 0` -/
theorem nn_of_rq (hW : W.WF) (hs : x.sem = W) (hc : x.Canonical) (rm : RM) (hq : 0 < q)
    (hle : q ≤ maxFinite W) (h : x.toRes = Spec.round W rm false q) : NN W x (rq W rm q) := by
  rw [rq_pos_eq rm hq]
  rcases (rq_finite hW hq hle rm).cases with ⟨s, hz⟩ | ⟨s, e, m, hf⟩
  · rw [hz] at h ⊢
    exact nn_of_zero hs hc h
  · obtain ⟨hsn, _⟩ := round_mem hW hq rm false hf
    subst hsn
    rw [hf] at h ⊢
    obtain ⟨h1, h2, h3, h4⟩ := toRes_fin h
    refine ⟨hs, hc, Or.inl h1, fun _ => h2, ?_⟩
    rw [Flt.val_normal h1, h2, Res.mag_fin, Flt.mag_eq, hs, h3, h4]; rfl

theorem nn_val_pos_normal {v : ℚ} (h : NN W x v) (hc : x.cat = .normal) : 0 < v := by
  rw [← h.mag hc]; exact Flt.mag_pos x hc h.can

theorem nn_zero_val {v : ℚ} (h : NN W x v) (hc : x.cat = .zero) : v = 0 := by
  rw [← h.val, Flt.val_zero hc]

theorem nn_le_max {v : ℚ} (h : NN W x v) (hW : W.WF) : v ≤ maxFinite W := (h.isRep hW).le_maxFinite

/-- product, every mode -/
theorem nn_mul (hW : W.WF) {a b : Flt} {va vb : ℚ} (rm : RM) (ha : NN W a va) (hb : NN W b vb)
    (hle : va * vb ≤ maxFinite W) : NN W (mulWithRm a b rm) (rq W rm (va * vb)) := by
  have hGa : a.sem.WF := by rw [ha.sem]; exact hW
  have hsab : b.sem = a.sem := by rw [ha.sem, hb.sem]
  have hcan := mulWithRm_canonical a b rm hGa
  have hcor := C01.mul_correct a b rm hGa hsab ha.can hb.can
  rw [ha.sem] at hcor hcan
  rcases ha.fin with hca | hca
  · rcases hb.fin with hcb | hcb
    · have hpa := nn_val_pos_normal ha hca
      have hpb := nn_val_pos_normal hb hcb
      rw [spec_mul_normal W rm a b hca hcb (ha.sign hca) (hb.sign hcb), ha.mag hca, hb.mag hcb]
        at hcor
      exact nn_of_rq hW hcan.2 hcan.1 rm (mul_pos hpa hpb) hle hcor
    · have : Spec.mul W rm a b = .zero (a.sign ^^ b.sign) := by
        simp [Spec.mul, Spec.isNan, Spec.isInf, Spec.isZero, hca, hcb]
      rw [this] at hcor
      rw [nn_zero_val hb hcb, mul_zero, rq_zero]
      exact nn_of_zero hcan.2 hcan.1 hcor
  · have : Spec.mul W rm a b = .zero (a.sign ^^ b.sign) := by
      rcases hb.fin with hcb | hcb <;>
        simp [Spec.mul, Spec.isNan, Spec.isInf, Spec.isZero, hca, hcb]
    rw [this] at hcor
    rw [nn_zero_val ha hca, zero_mul, rq_zero]
    exact nn_of_zero hcan.2 hcan.1 hcor

/-- quotient by a positive value, every mode -/
theorem nn_div (hW : W.WF) {a b : Flt} {va vb : ℚ} (rm : RM) (ha : NN W a va) (hb : NN W b vb)
    (hbpos : 0 < vb) (hle : va / vb ≤ maxFinite W) :
    NN W (divWithRm a b rm) (rq W rm (va / vb)) := by
  have hGa : a.sem.WF := by rw [ha.sem]; exact hW
  have hsab : b.sem = a.sem := by rw [ha.sem, hb.sem]
  have hcan := divWithRm_canonical a b rm hGa
  have hcor := C01.div_correct a b rm hGa hsab ha.can hb.can
  rw [ha.sem] at hcor hcan
  have hcb := hb.normal_of_pos hbpos
  rcases ha.fin with hca | hca
  · have hpa := nn_val_pos_normal ha hca
    rw [spec_div_normal W rm a b hca hcb (ha.sign hca) (hb.sign hcb), ha.mag hca, hb.mag hcb]
      at hcor
    exact nn_of_rq hW hcan.2 hcan.1 rm (div_pos hpa hbpos) hle hcor
  · have : Spec.div W rm a b = .zero (a.sign ^^ b.sign) := by
      simp [Spec.div, Spec.isNan, Spec.isInf, Spec.isZero, hca, hcb]
    rw [this] at hcor
    rw [nn_zero_val ha hca, zero_div, rq_zero]
    exact nn_of_zero hcan.2 hcan.1 hcor

/-- quotient by an infinity -/
theorem nn_div_inf (hW : W.WF) {a b : Flt} {va : ℚ} (rm : RM) (ha : NN W a va) (hbs : b.sem = W)
    (hbc : b.Canonical) (hb : b.cat = .inf) : NN W (divWithRm a b rm) 0 := by
  have hGa : a.sem.WF := by rw [ha.sem]; exact hW
  have hsab : b.sem = a.sem := by rw [ha.sem, hbs]
  have hcan := divWithRm_canonical a b rm hGa
  have hcor := C01.div_correct a b rm hGa hsab ha.can hbc
  rw [ha.sem] at hcor hcan
  have : Spec.div W rm a b = .zero (a.sign ^^ b.sign) := by
    rcases ha.fin with hca | hca <;>
      simp [Spec.div, Spec.isNan, Spec.isInf, Spec.isZero, hca, hb]
  rw [this] at hcor
  exact nn_of_zero hcan.2 hcan.1 hcor

/-- sum (not both zero), every mode -/
theorem nn_add (hW : W.WF) {a b : Flt} {va vb : ℚ} (rm : RM) (ha : NN W a va) (hb : NN W b vb)
    (hpos : 0 < va + vb) (hle : va + vb ≤ maxFinite W) :
    NN W (addWithRm a b rm) (rq W rm (va + vb)) := by
  have hGa : a.sem.WF := by rw [ha.sem]; exact hW
  have hsab : b.sem = a.sem := by rw [ha.sem, hb.sem]
  have hcan := addWithRm_canonical a b rm hGa hsab ha.can hb.can
  have hcor := C01.add_correct a b rm hGa hsab ha.can hb.can
  rw [ha.sem] at hcor
  refine nn_of_rq hW (hcan.2.trans ha.sem) hcan.1 rm hpos hle ?_
  have hzz : ¬ (a.cat = .zero ∧ b.cat = .zero) := by
    rintro ⟨h1, h2⟩
    have h3 := ha.val; have h4 := hb.val
    rw [Flt.val_zero h1] at h3; rw [Flt.val_zero h2] at h4
    rw [← h3, ← h4] at hpos; norm_num at hpos
  rw [hcor, spec_add_fin W rm a b ha.fin hb.fin hzz, ha.val, hb.val]
  unfold Spec.roundQ
  rw [if_neg (ne_of_gt hpos), if_pos hpos]

/-- difference with a positive result, every mode -/
theorem nn_sub (hW : W.WF) {a b : Flt} {va vb : ℚ} (rm : RM) (ha : NN W a va) (hb : NN W b vb)
    (hpos : 0 < va - vb) (hle : va - vb ≤ maxFinite W) :
    NN W (subWithRm a b rm) (rq W rm (va - vb)) := by
  have hGa : a.sem.WF := by rw [ha.sem]; exact hW
  have hsab : b.sem = a.sem := by rw [ha.sem, hb.sem]
  have hcan := subWithRm_canonical a b rm hGa hsab ha.can hb.can
  have hcor := C01.sub_correct a b rm hGa hsab ha.can hb.can
  rw [ha.sem] at hcor
  refine nn_of_rq hW (hcan.2.trans ha.sem) hcan.1 rm hpos hle ?_
  have hb0 := hb.nonneg
  have hapos : 0 < va := by linarith
  have hca := ha.normal_of_pos hapos
  set b' : Flt := { b with sign := !b.sign } with hb'
  have hb'cat : b'.cat = b.cat := rfl
  have hb'val : b'.val = -vb := by
    rcases hb.fin with hcb | hcb
    · have hm : b'.mag = b.mag := rfl
      rw [Flt.val_normal (by rw [hb'cat]; exact hcb), hm, hb.mag hcb]
      simp [hb', hb.sign hcb]
    · rw [Flt.val_zero (by rw [hb'cat]; exact hcb), nn_zero_val hb hcb]; simp
  have hfb' : b'.cat = .normal ∨ b'.cat = .zero := by rw [hb'cat]; exact hb.fin
  have hzz : ¬ (a.cat = .zero ∧ b'.cat = .zero) := by
    rintro ⟨h1, _⟩; rw [hca] at h1; exact absurd h1 (by decide)
  rw [hcor]
  show Spec.add W rm a b' = _
  rw [spec_add_fin W rm a b' ha.fin hfb' hzz, ha.val, hb'val]
  unfold Spec.roundQ
  have e : va + -vb = va - vb := by ring
  rw [e, if_neg (ne_of_gt hpos), if_pos hpos]

/-- equality test of two non-negative values, one of them positive -/
theorem nn_beq_iff (hW : W.WF) {a b : Flt} {va vb : ℚ} (ha : NN W a va) (hb : NN W b vb)
    (hpb : 0 < vb) : a.beq b = true ↔ va = vb := by
  rcases eq_or_lt_of_le ha.nonneg with h0 | hpa
  · -- `a` is a zero
    have hca : a.cat = .zero := by
      rcases ha.fin with h | h
      · have := nn_val_pos_normal ha h; linarith
      · exact h
    have hcb := hb.normal_of_pos hpb
    constructor
    · intro h
      unfold Flt.beq at h
      rw [hca] at h
      simp [hcb] at h
    · intro h; linarith
  · exact NN.beq_iff ha hb hpa hpb

end Arp.TrigErr
