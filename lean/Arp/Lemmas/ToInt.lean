import Arp.Lemmas.Defs
import Arp.Lemmas.MulDiv
import Arp.Model.Cast
/-!
# Helper lemmas for `to_i64`, `trunc` and `round` (C08 / C10)
-/
namespace Arp

/-! ### small facts -/

theorem Sem.pcast {s : Sem} (h : s.WF) : (((s.p - 1 : Nat)) : Int) = (s.p : Int) - 1 := by
  have := h.2; omega

theorem Sem.emin_ne_neg_one {s : Sem} (h : s.WF) : s.emin ≠ -1 := by
  unfold Sem.emin Sem.bias
  obtain ⟨k, hk⟩ : ∃ k, s.e = k + 2 := ⟨s.e - 2, by have := h.1; omega⟩
  rw [hk, show k + 2 - 1 = k + 1 by omega, Nat.pow_succ]
  generalize 2 ^ k = t
  push_cast; omega

theorem floor_toNat_natCast (n : Nat) : ((n : ℚ)).floor.toNat = n := by
  rw [show ((n : ℚ)).floor = ⌊(n : ℚ)⌋ from rfl, Int.floor_natCast]
  exact Int.toNat_natCast _

theorem cls_zero : cls (0 : ℚ) = .zero := by simp [cls]

/-- the magnitude when the binary point is inside the significand -/
theorem mag_shiftRight (x : Flt) (hF : x.sem.WF) (k : Nat)
    (hk : x.exp - ((x.sem.p - 1 : Nat) : Int) = -(k : Int)) :
    x.mag = ((x.mant : ℚ) + 0) / 2 ^ k := by
  rw [Flt.mag_eq, ← Sem.pcast hF, hk, zpow_neg, zpow_natCast, add_zero, div_eq_mul_inv]

/-- the magnitude when the value is an integer -/
theorem mag_shiftLeft (x : Flt) (hF : x.sem.WF) (k : Nat)
    (hk : x.exp - ((x.sem.p - 1 : Nat) : Int) = (k : Int)) :
    x.mag = ((x.mant <<< k : Nat) : ℚ) := by
  rw [Flt.mag_eq, ← Sem.pcast hF, hk, zpow_natCast, Nat.shiftLeft_eq]; push_cast; ring

/-- floor and fraction of the magnitude, binary point inside the significand -/
theorem mag_floor_shiftRight (x : Flt) (hF : x.sem.WF) (k : Nat)
    (hk : x.exp - ((x.sem.p - 1 : Nat) : Int) = -(k : Int)) :
    x.mag.floor.toNat = x.mant >>> k ∧
    x.mag - ((x.mant >>> k : Nat) : ℚ) = ((x.mant % 2 ^ k : Nat) : ℚ) / 2 ^ k := by
  rw [mag_shiftRight x hF k hk]
  constructor
  · rw [show (((x.mant : ℚ) + 0) / 2 ^ k).floor = ⌊((x.mant : ℚ) + 0) / 2 ^ k⌋ from rfl,
      floor_shift x.mant k 0 (le_refl _) zero_lt_one]
    exact Int.toNat_natCast _
  · rw [fract_shift, add_zero]

/-! ### `convert_normal_to_integer` -/

/-- The integer produced is `⌊|x|⌋`, plus one when the specification's rounding
    predicate says so (evaluated on the integer part and the discarded fraction). -/
theorem convertNormalToInteger_eq (x : Flt) (rm : RM) (hF : x.sem.WF) :
    x.convertNormalToInteger rm =
      x.mag.floor.toNat +
        (if Spec.up rm x.sign x.mag.floor.toNat (x.mag - (x.mag.floor.toNat : ℚ)) then 1 else 0) := by
  unfold Flt.convertNormalToInteger
  simp only
  by_cases hneg : x.exp - ((x.sem.p - 1 : Nat) : Int) < 0
  · rw [if_pos hneg]
    obtain ⟨k, hk⟩ : ∃ k : Nat, x.exp - ((x.sem.p - 1 : Nat) : Int) = -(k : Int) :=
      ⟨(-(x.exp - ((x.sem.p - 1 : Nat) : Int))).toNat, by omega⟩
    rw [hk, neg_neg, Int.toNat_natCast]
    obtain ⟨hfl, hfr⟩ := mag_floor_shiftRight x hF k hk
    rw [hfl, hfr, lossOfBits_cls]
    set f : ℚ := ((x.mant % 2 ^ k : Nat) : ℚ) / 2 ^ k with hf
    have hf0 : 0 ≤ f := by rw [hf]; positivity
    by_cases hz : f = 0
    · rw [hz, cls_zero, up_zero]; simp
    · have hfpos : 0 < f := lt_of_le_of_ne hf0 (Ne.symm hz)
      have hc : cls f ≠ .zero := fun h => hz (cls_zero_iff.mp h)
      rw [up_eq rm x.sign _ f hfpos]
      cases needRoundAway x.sign (x.mant >>> k) rm (cls f) <;> simp [hc]
  · rw [if_neg hneg]
    obtain ⟨k, hk⟩ : ∃ k : Nat, x.exp - ((x.sem.p - 1 : Nat) : Int) = (k : Int) :=
      ⟨(x.exp - ((x.sem.p - 1 : Nat) : Int)).toNat, by omega⟩
    rw [hk, Int.toNat_natCast, mag_shiftLeft x hF k hk, floor_toNat_natCast, sub_self, up_zero]
    simp

/-- sign-magnitude rounding to an integer of the value of a normal `x` -/
theorem roundInt_val (x : Flt) (rm : RM) (hx : x.cat = .normal) (hm : 0 < x.mant) :
    Spec.roundInt rm x.val =
      (if x.sign then -1 else 1) *
      (((x.mag.floor.toNat +
        (if Spec.up rm x.sign x.mag.floor.toNat (x.mag - (x.mag.floor.toNat : ℚ)) then 1 else 0) : Nat)) : Int) := by
  have hmag : 0 < x.mag := by
    rw [Flt.mag_eq]; have : (0:ℚ) < x.mant := by exact_mod_cast hm
    positivity
  unfold Spec.roundInt Flt.val
  rw [hx]
  simp only
  cases hs : x.sign
  · have h1 : ¬ (x.mag < 0) := not_lt.mpr (le_of_lt hmag)
    simp only [Bool.false_eq_true, if_false, decide_eq_false h1]
    split <;> simp
  · have h1 : (-x.mag < 0) := by linarith
    simp only [if_true, decide_eq_true h1, neg_neg]
    split <;> simp

/-! ### rounding a representable value is exact -/

theorem msb_canonical {p m : Nat} (hp : 1 ≤ p) (h1 : 2 ^ (p - 1) ≤ m) (h2 : m < 2 ^ p) : msb m = p := by
  have := msb_unique (k := p - 1) h1 (by rwa [Nat.sub_add_cancel hp])
  omega

/-- `normalize` with no loss is the identity on canonical values -/
theorem normalize_canonical_ti (x : Flt) (rm : RM) (hF : x.sem.WF) (hx : x.cat = .normal)
    (hc : x.Canonical) : x.normalize rm .zero = x := by
  obtain ⟨he1, he2, hm0, hm1, hn⟩ := (Flt.canonical_normal hx).mp hc
  have hp := hF.2
  have hmne : x.mant ≠ 0 := by omega
  have hmsb1 : 0 < msb x.mant := msb_pos hmne
  have hmsb2 : msb x.mant ≤ x.sem.p := msb_le_of_lt hm1
  have hmsb3 : 2 ^ (x.sem.p - 1) ≤ x.mant → msb x.mant = x.sem.p :=
    fun h => msb_canonical (by omega) h hm1
  have hee := Sem.emin_le_emax hF
  unfold Flt.normalize
  simp only [hx, ne_eq, not_true_eq_false, if_false]
  set n := msb x.mant with hn'
  rw [if_pos (by omega)]
  have hov : ¬ (x.exp + ((n:Int) - (x.sem.p:Int)) > x.sem.emax) := by omega
  rw [if_neg hov]
  have hec : (if x.exp + ((n:Int) - (x.sem.p:Int)) < x.sem.emin then x.sem.emin - x.exp
      else (n:Int) - (x.sem.p:Int)) = 0 := by
    rcases hn with h | h
    · have := hmsb3 h; rw [if_neg (by omega)]; omega
    · split <;> omega
  rw [hec]
  simp only [lt_irrefl, if_false]
  unfold Flt.normalize.stepII
  simp [hmne]

/-- rounding the value of a canonical normal number gives that number back, in every mode -/
theorem round_canonical_exact_ti (x : Flt) (rm : RM) (hF : x.sem.WF) (hx : x.cat = .normal)
    (hc : x.Canonical) : Spec.round x.sem rm x.sign x.mag = x.toRes := by
  obtain ⟨_, _, hm0, _, _⟩ := (Flt.canonical_normal hx).mp hc
  have h := normalize_denotes x rm .zero x.mag hF hx (by omega)
    ⟨0, le_refl _, zero_lt_one, cls_zero, by rw [Flt.mag_eq, add_zero]⟩ (fun _ _ => rfl)
  rw [normalize_canonical_ti x rm hF hx hc] at h
  exact h.symm

/-- the same for a signed value -/
theorem roundQ_canonical_exact (x : Flt) (rm : RM) (z : Bool) (hF : x.sem.WF) (hx : x.cat = .normal)
    (hc : x.Canonical) : Spec.roundQ x.sem rm x.val z = x.toRes := by
  obtain ⟨_, _, hm0, _, _⟩ := (Flt.canonical_normal hx).mp hc
  have hmag : 0 < x.mag := by
    rw [Flt.mag_eq]; have : (0:ℚ) < x.mant := by exact_mod_cast hm0
    positivity
  have := round_canonical_exact_ti x rm hF hx hc
  unfold Spec.roundQ Flt.val
  rw [hx]; simp only
  cases hs : x.sign
  · rw [hs] at this
    simp only [Bool.false_eq_true, if_false]
    rw [if_neg (ne_of_gt hmag), if_pos hmag, this]
  · rw [hs] at this
    simp only [if_true]
    rw [if_neg (by linarith), if_neg (by linarith), neg_neg, this]

/-! ### the truncated significand `(mant >>> k) <<< k` -/

theorem val_eq_sign_mul (x : Flt) (hx : x.cat = .normal) :
    x.val = (if x.sign then -1 else 1) * x.mag := by
  unfold Flt.val; rw [hx]; cases x.sign <;> simp

/-- `⌊|x|⌋` as an integer, binary point inside the significand -/
theorem mag_floor_int (x : Flt) (hF : x.sem.WF) (k : Nat)
    (hk : x.exp - ((x.sem.p - 1 : Nat) : Int) = -(k : Int)) :
    x.mag.floor = ((x.mant >>> k : Nat) : Int) := by
  rw [mag_shiftRight x hF k hk]
  exact floor_shift x.mant k 0 (le_refl _) zero_lt_one

/-- an integer significand `n·2^k` at an exponent `k` below `p-1` denotes `n` -/
theorem mag_of_shiftLeft (s : Sem) (sg : Bool) (e : Int) (c : Cat) (n k : Nat) (hF : s.WF)
    (hk : e - ((s.p - 1 : Nat) : Int) = -(k : Int)) :
    (Flt.mk s sg e (n <<< k) c).mag = (n : ℚ) := by
  rw [Flt.mag_eq]; simp only
  rw [← Sem.pcast hF, hk, zpow_neg, zpow_natCast, Nat.shiftLeft_eq]
  push_cast
  have : (2:ℚ) ^ k ≠ 0 := by positivity
  field_simp

/-- clearing the low `k` bits of a canonical significand keeps it canonical (unless it vanishes) -/
theorem truncMant_canonical (x : Flt) (hx : x.cat = .normal) (hc : x.Canonical) (k : Nat)
    (h0 : x.mant >>> k ≠ 0) :
    (Flt.mk x.sem x.sign x.exp ((x.mant >>> k) <<< k) .normal).Canonical := by
  obtain ⟨he1, he2, hm0, hm1, hn⟩ := (Flt.canonical_normal hx).mp hc
  rw [Flt.canonical_normal rfl]
  simp only
  rw [Nat.shiftRight_eq_div_pow] at h0 ⊢
  rw [Nat.shiftLeft_eq]
  have hpk : 0 < 2 ^ k := by positivity
  have hle : x.mant / 2 ^ k * 2 ^ k ≤ x.mant := Nat.div_mul_le_self _ _
  have hpos : 0 < x.mant / 2 ^ k * 2 ^ k := Nat.mul_pos (Nat.pos_of_ne_zero h0) hpk
  refine ⟨he1, he2, hpos, by omega, ?_⟩
  rcases hn with h | h
  · left
    have hk2 : 2 ^ k ≤ x.mant := by
      by_contra hcon
      exact h0 (Nat.div_eq_of_lt (by omega))
    have hkp : k ≤ x.sem.p - 1 := by
      by_contra hcon
      have : 2 ^ x.sem.p ≤ 2 ^ k := Nat.pow_le_pow_right (by norm_num) (by omega)
      omega
    have e : 2 ^ (x.sem.p - 1) = 2 ^ (x.sem.p - 1 - k) * 2 ^ k := by
      rw [← Nat.pow_add]; congr 1; omega
    rw [e]
    apply Nat.mul_le_mul_right
    rw [Nat.le_div_iff_mul_le hpk, ← e]; exact h
  · right; exact h

/-! ### finite canonical values and their `Res` -/

/-- rounding the value of a finite canonical number is exact (zeros take the given sign) -/
theorem toRes_of_val (y : Flt) (rm : RM) (hF : y.sem.WF) (hc : y.Canonical)
    (hfin : y.cat = .normal ∨ y.cat = .zero) : Spec.roundQ y.sem rm y.val y.sign = y.toRes := by
  rcases hfin with h | h
  · exact roundQ_canonical_exact y rm y.sign hF h hc
  · unfold Spec.roundQ Flt.val Flt.toRes; rw [h]; simp

theorem Res.val_toRes (y : Flt) : Res.val y.sem y.toRes = y.val := by
  unfold Flt.toRes Flt.val
  cases h : y.cat <;> simp only [Res.val]
  unfold Flt.mag
  cases y.sign <;> simp

/-! ### nearest integer, ties away -/

theorem floor_add_half (m0 : Nat) (f : ℚ) (hf0 : 0 ≤ f) (hf1 : f < 1) :
    ((m0:ℚ) + f + 1/2).floor = if f < 1/2 then (m0:Int) else (m0:Int) + 1 := by
  rw [show ((m0:ℚ) + f + 1/2).floor = ⌊(m0:ℚ) + f + 1/2⌋ from rfl]
  split
  · rw [Int.floor_eq_iff]; push_cast; constructor <;> linarith
  · rw [Int.floor_eq_iff]; push_cast; constructor <;> linarith

theorem isLtHalf_cls (f : ℚ) (hf0 : 0 ≤ f) : (cls f).isLtHalf = true ↔ f < 1/2 := by
  by_cases hz : f = 0
  · subst hz; rw [cls_zero]; constructor
    · intro _; norm_num
    · intro _; rfl
  · have hpos : 0 < f := lt_of_le_of_ne hf0 (Ne.symm hz)
    rcases lt_trichotomy f (1/2) with h | h | h
    · rw [cls_lt hpos h]; exact ⟨fun _ => h, fun _ => rfl⟩
    · rw [h, cls_half]; constructor
      · intro h'; exact absurd h' (by decide)
      · intro h'; exact absurd h' (lt_irrefl _)
    · rw [cls_gt h]; constructor
      · intro h'; exact absurd h' (by decide)
      · intro h'; linarith

/-! ### small natural numbers are representable -/

/-- the largest finite magnitude is below `2^(emax+1)` -/
theorem maxFinite_lt (s : Sem) :
    ((2 ^ s.p - 1 : Nat) : ℚ) * pow2 (s.emax - (s.p - 1)) < (2:ℚ) ^ (s.emax + 1) := by
  rw [pow2_eq]
  have h1 : ((2 ^ s.p - 1 : Nat) : ℚ) < (2:ℚ) ^ (s.p : Int) := by
    have : 2 ^ s.p - 1 < 2 ^ s.p := by have := Nat.one_le_two_pow (n := s.p); omega
    have := (Nat.cast_lt (α := ℚ)).mpr this
    push_cast at this ⊢
    rw [zpow_natCast]; exact this
  have e : (2:ℚ) ^ (s.emax + 1) = (2:ℚ) ^ (s.p : Int) * (2:ℚ) ^ (s.emax - ((s.p:Int) - 1)) := by
    rw [← zpow_add₀ (by norm_num : (2:ℚ) ≠ 0)]; congr 1; ring
  rw [e]
  exact mul_lt_mul_of_pos_right h1 (by positivity)

/-- a positive integer `N ≤ 2^p` that does not exceed the largest finite magnitude
    is the magnitude of a canonical normal number -/
theorem nat_representable (s : Sem) (sg : Bool) (N : Nat) (hF : s.WF) (hN0 : 0 < N) (hNp : N ≤ 2 ^ s.p)
    (hfit : (N : ℚ) ≤ ((2 ^ s.p - 1 : Nat) : ℚ) * pow2 (s.emax - (s.p - 1))) :
    ∃ y : Flt, y.sem = s ∧ y.sign = sg ∧ y.cat = .normal ∧ y.Canonical ∧ y.mag = (N : ℚ) := by
  have hp := hF.2
  have hN : N ≠ 0 := by omega
  have hj1 := msb_pos hN
  have hlo := msb_le hN
  have hhi := lt_msb N
  set j := msb N with hj
  have hemin := Sem.emin_le_zero hF
  -- the exponent j-1 is at most emax
  have hjmax : ((j - 1 : Nat) : Int) ≤ s.emax := by
    by_contra hcon
    have h1 : (2:ℚ) ^ (s.emax + 1) ≤ (2:ℚ) ^ (((j - 1 : Nat)) : Int) :=
      zpow_le_zpow_right₀ (by norm_num) (by omega)
    have h2 : (2:ℚ) ^ (((j - 1 : Nat)) : Int) ≤ (N : ℚ) := by
      rw [zpow_natCast]; exact_mod_cast hlo
    have := maxFinite_lt s
    linarith
  by_cases hjp : j ≤ s.p
  · refine ⟨Flt.mk s sg ((j - 1 : Nat) : Int) (N <<< (s.p - j)) .normal, rfl, rfl, rfl, ?_, ?_⟩
    · rw [Flt.canonical_normal rfl]; simp only
      rw [Nat.shiftLeft_eq]
      have hpk : 0 < 2 ^ (s.p - j) := by positivity
      refine ⟨by omega, hjmax, Nat.mul_pos hN0 hpk, ?_, Or.inl ?_⟩
      · calc N * 2 ^ (s.p - j) < 2 ^ j * 2 ^ (s.p - j) := Nat.mul_lt_mul_of_pos_right hhi hpk
          _ = 2 ^ s.p := by rw [← Nat.pow_add]; congr 1; omega
      · calc 2 ^ (s.p - 1) = 2 ^ (j - 1) * 2 ^ (s.p - j) := by rw [← Nat.pow_add]; congr 1; omega
          _ ≤ N * 2 ^ (s.p - j) := Nat.mul_le_mul_right _ hlo
    · exact mag_of_shiftLeft s sg _ .normal N (s.p - j) hF (by omega)
  · -- N = 2^p
    have hjp' : j = s.p + 1 := by
      have : j ≤ s.p + 1 := by
        by_contra hcon
        have : 2 ^ (s.p + 1) ≤ 2 ^ (j - 1) := Nat.pow_le_pow_right (by norm_num) (by omega)
        have : 2 ^ (s.p + 1) = 2 * 2 ^ s.p := by rw [Nat.pow_succ]; ring
        omega
      omega
    have hNeq : N = 2 ^ s.p := by
      rw [hjp', show s.p + 1 - 1 = s.p by omega] at hlo; omega
    refine ⟨Flt.mk s sg (s.p : Int) (2 ^ (s.p - 1)) .normal, rfl, rfl, rfl, ?_, ?_⟩
    · rw [Flt.canonical_normal rfl]; simp only
      refine ⟨by omega, by rw [hjp'] at hjmax; simpa using hjmax, by positivity, ?_, Or.inl (le_refl _)⟩
      exact Nat.pow_lt_pow_right (by norm_num) (by omega)
    · rw [Flt.mag_eq]; simp only
      rw [hNeq]; push_cast
      rw [← zpow_natCast, ← zpow_natCast, ← zpow_add₀ (by norm_num : (2:ℚ) ≠ 0)]
      congr 1; omega

/-! ### adding one to a truncated value (`round`) -/

theorem one_shiftRight (p j k : Nat) (hjk : j + k = p - 1) : (1 <<< (p - 1)) >>> j = 2 ^ k := by
  rw [Nat.shiftLeft_eq, one_mul, Nat.shiftRight_eq_div_pow, ← hjk, Nat.add_comm, Nat.pow_add,
    Nat.mul_div_cancel _ (by positivity)]

theorem one_loss (p j k : Nat) (hjk : j + k = p - 1) : lossOfBits (1 <<< (p - 1)) j = .zero := by
  rw [lossOfBits_eq, Nat.shiftLeft_eq, one_mul, ← hjk, Nat.add_comm, Nat.pow_add, Nat.mul_mod_left]
  simp

/-- `t ± 1` for a truncated `t = m0·2^k` with the same sign: the aligned sum is `(m0+1)·2^k`, no loss -/
theorem addOrSubNormals_one (s : Sem) (sg : Bool) (e : Int) (m0 k : Nat)
    (hk : e - ((s.p - 1 : Nat) : Int) = -(k : Int)) (he0 : 0 ≤ e) :
    addOrSubNormals (Flt.mk s sg e (m0 <<< k) .normal) (Flt.one s false) sg
      = (Flt.mk s sg e ((m0 + 1) <<< k) .normal, .zero) := by
  obtain ⟨j, rfl⟩ : ∃ j : Nat, e = (j : Int) := ⟨e.toNat, by omega⟩
  have hjk : j + k = s.p - 1 := by omega
  have h3 : m0 <<< k + 2 ^ k = (m0 + 1) <<< k := by simp only [Nat.shiftLeft_eq]; ring
  have hne : (m0 + 1) <<< k ≠ 0 := by
    rw [Nat.shiftLeft_eq]; exact Nat.mul_ne_zero (by omega) (by positivity)
  unfold addOrSubNormals Flt.one
  simp only [Bool.xor_false, Bool.xor_self, sub_zero, Bool.false_eq_true, if_false]
  by_cases hj : (j:Int) > 0
  · rw [if_pos hj]
    simp only [Flt.shiftSigRight, Int.toNat_natCast]
    rw [one_shiftRight s.p j k hjk, one_loss s.p j k hjk, h3]
    unfold Flt.new; rw [if_neg hne]
  · have hj0 : j = 0 := by omega
    subst hj0
    rw [if_neg hj]
    have hk' : k = s.p - 1 := by omega
    simp only [Flt.shiftSigRight, Nat.cast_zero, neg_zero, Int.toNat_zero, Nat.shiftRight_zero, add_zero]
    rw [show (1 <<< (s.p - 1)) = 2 ^ k by rw [Nat.shiftLeft_eq, one_mul, hk'], h3]
    have hl : lossOfBits (m0 <<< k) 0 = .zero := by rw [lossOfBits_eq]; simp [Nat.mod_one]
    rw [hl]
    unfold Flt.new; rw [if_neg hne]

theorem toRes_fin_cat {y : Flt} {sg : Bool} {e : Int} {m : Nat} (h : y.toRes = .fin sg e m) :
    y.cat = .normal := by
  unfold Flt.toRes at h
  cases hc : y.cat <;> rw [hc] at h <;> simp_all

/-- `t + 1` (or `t - 1` for a negative `t`) computed by `add_sub` is `Spec.round` of the
    exact integer, as soon as that rounding is a finite non-zero number. -/
theorem addSub_one_toRes (s : Sem) (sg : Bool) (e : Int) (m0 k : Nat) (rm : RM) (hF : s.WF)
    (hk : e - ((s.p - 1 : Nat) : Int) = -(k : Int)) (he0 : 0 ≤ e)
    (sg' : Bool) (e' : Int) (M : Nat)
    (hfin : Spec.round s rm sg ((m0 : ℚ) + 1) = .fin sg' e' M) :
    (addSub (Flt.mk s sg e (m0 <<< k) .normal) (Flt.one s false) sg rm).toRes = .fin sg' e' M := by
  have hne : (m0 + 1) <<< k ≠ 0 := by
    rw [Nat.shiftLeft_eq]; exact Nat.mul_ne_zero (by omega) (by positivity)
  set z : Flt := Flt.mk s sg e ((m0 + 1) <<< k) .normal with hz
  have hzm : z.mag = (m0 : ℚ) + 1 := by
    rw [hz, mag_of_shiftLeft s sg e .normal (m0 + 1) k hF hk]; push_cast; rfl
  have hnorm : (z.normalize rm .zero).toRes = .fin sg' e' M := by
    rw [normalize_denotes z rm .zero z.mag hF rfl hne
      ⟨0, le_refl _, zero_lt_one, cls_zero, by rw [Flt.mag_eq, add_zero]⟩ (fun _ _ => rfl), hzm]
    exact hfin
  have hcat := toRes_fin_cat hnorm
  have hb : (Flt.one s false).cat = .normal := rfl
  unfold addSub
  simp only [hb]
  rw [addOrSubNormals_one s sg e m0 k hk he0]
  simp only [← hz]
  have hnz : (z.normalize rm .zero).isZero = false := by
    unfold Flt.isZero; rw [hcat]; rfl
  rw [hnz]
  simpa using hnorm

/-! ### `Flt.one`, `Flt.zero` and the nearest integer of a magnitude -/

theorem one_canonical (s : Sem) (sg : Bool) (hF : s.WF) : (Flt.one s sg).Canonical := by
  rw [Flt.canonical_normal rfl]
  simp only [Flt.one, Nat.shiftLeft_eq, one_mul]
  have := Sem.emin_le_zero hF
  have := Sem.emax_pos hF
  have hp := hF.2
  refine ⟨by omega, by omega, by positivity, Nat.pow_lt_pow_right (by norm_num) (by omega), Or.inl (le_refl _)⟩

theorem one_mag (s : Sem) (sg : Bool) (hF : s.WF) : (Flt.one s sg).mag = 1 := by
  have := mag_of_shiftLeft s sg 0 .normal 1 (s.p - 1) hF (by omega)
  simpa [Flt.one] using this

theorem one_val (s : Sem) (sg : Bool) (hF : s.WF) : (Flt.one s sg).val = (if sg then -1 else 1) * 1 := by
  rw [val_eq_sign_mul _ rfl, one_mag s sg hF]; rfl

theorem zero_canonical (s : Sem) (sg : Bool) : (Flt.zero s sg).Canonical := by
  unfold Flt.Canonical Flt.isCanonical Flt.zero; simp

theorem floor_half_nat (N : Nat) : ((N:ℚ) + 1/2).floor = (N : Int) := by
  rw [show ((N:ℚ) + 1/2).floor = ⌊(N:ℚ) + 1/2⌋ from rfl, Int.floor_eq_iff]
  push_cast; constructor <;> linarith

/-- the fraction cut off by a right shift lies in `[0,1)` -/
theorem frac_bounds (m k : Nat) :
    0 ≤ ((m % 2 ^ k : Nat) : ℚ) / 2 ^ k ∧ ((m % 2 ^ k : Nat) : ℚ) / 2 ^ k < 1 := by
  have hpos : (0:ℚ) < 2 ^ k := by positivity
  constructor
  · positivity
  · rw [div_lt_one hpos]
    have : m % 2 ^ k < 2 ^ k := Nat.mod_lt _ (by positivity)
    exact_mod_cast this

/-- nearest integer (ties away) of the magnitude, binary point inside the significand -/
theorem mag_round_shiftRight (x : Flt) (hF : x.sem.WF) (k : Nat)
    (hk : x.exp - ((x.sem.p - 1 : Nat) : Int) = -(k : Int)) :
    (x.mag + 1/2).floor =
      if ((x.mant % 2 ^ k : Nat) : ℚ) / 2 ^ k < 1/2 then ((x.mant >>> k : Nat) : Int)
      else ((x.mant >>> k : Nat) : Int) + 1 := by
  obtain ⟨_, hfr⟩ := mag_floor_shiftRight x hF k hk
  obtain ⟨hf0, hf1⟩ := frac_bounds x.mant k
  have : x.mag = ((x.mant >>> k : Nat) : ℚ) + ((x.mant % 2 ^ k : Nat) : ℚ) / 2 ^ k := by linarith
  rw [this]
  exact floor_add_half _ _ hf0 hf1

end Arp
