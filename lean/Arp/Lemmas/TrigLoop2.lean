import Arp.Lemmas.TrigLoop
/-!
# The Taylor loop for arguments up to `1/8` (`y = x² ≤ 1/64`)

A copy of sections 2, 4 and 5 of `Arp/Lemmas/TrigLoop.lean` (which assumes `y ≤ 1/64`) with the
weaker hypothesis `y ≤ 1/64`: after the argument reduction of `cos` the Taylor stage sees
arguments up to `(π̂/2)/2^k` with `k = 4` in the small formats.  Consecutive terms now shrink by a
factor `128` instead of `128`; the statements are otherwise identical (names carry a `2`).
-/
namespace Arp.TrigErr
open Arp Arp.SpecRound Arp.RelErr Arp.Ln2

section Pure2
variable {u δ : ℚ}

/-- the upper bound of `top` through one iteration -/
theorem top_hi_step2 {A vt vt' x2 y : ℚ} (hu0 : 0 ≤ u) (hu : u ≤ 1/8) (hδ : 0 ≤ δ) (hA : 0 ≤ A)
    (hy0 : 0 ≤ y) (hy : y ≤ 1/64) (hvt0 : 0 ≤ vt) (hx20 : 0 ≤ x2)
    (hvt : vt ≤ A + 2 * δ) (hx2 : x2 ≤ (1 + u) * y) (hr : vt' ≤ (1 + u) * (vt * x2) + δ) :
    vt' ≤ (1 + u) ^ 2 * A * y + 2 * δ := by
  have h1 : vt * x2 ≤ (A + 2 * δ) * ((1 + u) * y) := mul_le_mul hvt hx2 hx20 (by linarith)
  have h2 : (1 + u) * (vt * x2) ≤ (1 + u) * ((A + 2 * δ) * ((1 + u) * y)) :=
    mul_le_mul_of_nonneg_left h1 (by linarith)
  have h3 : (1 + u) ^ 2 * y ≤ 1/2 := by
    have : (1 + u) ^ 2 ≤ 2 := by nlinarith
    nlinarith
  have h4 : 2 * δ * ((1 + u) ^ 2 * y) ≤ 2 * δ * (1/2) := mul_le_mul_of_nonneg_left h3 (by linarith)
  calc vt' ≤ (1 + u) * (vt * x2) + δ := hr
    _ ≤ (1 + u) * ((A + 2 * δ) * ((1 + u) * y)) + δ := by linarith
    _ = (1 + u) ^ 2 * A * y + 2 * δ * ((1 + u) ^ 2 * y) + δ := by ring
    _ ≤ (1 + u) ^ 2 * A * y + 2 * δ := by linarith

/-- the lower bound of `top` through one iteration -/
theorem top_lo_step2 {A vt vt' x2 y : ℚ} (hu0 : 0 ≤ u) (hu : u ≤ 1/8) (hδ : 0 ≤ δ)
    (hy0 : 0 ≤ y) (hy : y ≤ 1/64) (hvt0 : 0 ≤ vt)
    (hvt : A ≤ vt + 2 * δ) (hx2 : (1 - u) * y ≤ x2) (hr : (1 - u) * (vt * x2) ≤ vt' + δ) :
    (1 - u) ^ 2 * A * y ≤ vt' + 2 * δ := by
  have hu1 : 0 ≤ 1 - u := by linarith
  have h1 : A * ((1 - u) * y) ≤ (vt + 2 * δ) * ((1 - u) * y) :=
    mul_le_mul_of_nonneg_right hvt (mul_nonneg hu1 hy0)
  have h2 : vt * ((1 - u) * y) ≤ vt * x2 := mul_le_mul_of_nonneg_left hx2 hvt0
  have h3 : 2 * δ * ((1 - u) * ((1 - u) * y)) ≤ 2 * δ * (1/2) := by
    apply mul_le_mul_of_nonneg_left _ (by linarith)
    have : (1 - u) * ((1 - u) * y) ≤ 1 * (1 * y) :=
      mul_le_mul (by linarith) (mul_le_mul_of_nonneg_right (by linarith) hy0)
        (mul_nonneg hu1 hy0) (by norm_num)
    linarith
  calc (1 - u) ^ 2 * A * y = (1 - u) * (A * ((1 - u) * y)) := by ring
    _ ≤ (1 - u) * ((vt + 2 * δ) * ((1 - u) * y)) := mul_le_mul_of_nonneg_left h1 hu1
    _ = (1 - u) * (vt * ((1 - u) * y)) + 2 * δ * ((1 - u) * ((1 - u) * y)) := by ring
    _ ≤ (1 - u) * (vt * x2) + 2 * δ * (1/2) :=
        add_le_add (mul_le_mul_of_nonneg_left h2 hu1) h3
    _ ≤ vt' + 2 * δ := by linarith

end Pure2

/-! ## 2. the context of the analysis and the series over `ℚ` -/

/-- hypotheses of the loop analysis: working format `W`, first term `X0` (representable),
    squared argument `y`, denominators `b` -/
structure LCtx2 (W : Sem) (X0 y : ℚ) (b : ℕ → ℕ) : Prop where
  wf : W.WF
  rm : W.rm = .nte ∨ W.rm = .nta
  p24 : 24 ≤ W.p
  pemax : (W.p : ℤ) + 2 ≤ W.emax
  X0pos : 0 < X0
  X0le : X0 ≤ 1
  X0rep : IsRep W X0
  X0norm : (2:ℚ) ^ (W.emin + 1) ≤ X0
  y0 : 0 ≤ y
  yle : y ≤ 1/64
  b0 : b 0 = 1
  bstep : ∀ j, 2 * b j ≤ b (j + 1)
  dsmall : 1024 * delta W ≤ u W * X0

section Ctx2
variable {W : Sem} {X0 y : ℚ} {b : ℕ → ℕ}

theorem LCtx2.u_le (C : LCtx2 W X0 y b) : u W ≤ 1 / 2 ^ 23 := by
  have := u_le_of_le_p (F := W) (k := 24) C.p24
  norm_num at this ⊢; linarith

theorem LCtx2.u_pos (C : LCtx2 W X0 y b) : 0 < u W := RelErr.u_pos W

theorem LCtx2.b_pos (C : LCtx2 W X0 y b) (j : ℕ) : 1 ≤ b j := by
  induction j with
  | zero => rw [C.b0]
  | succ j ih => have := C.bstep j; omega

theorem LCtx2.bq_pos (C : LCtx2 W X0 y b) (j : ℕ) : (1:ℚ) ≤ (b j : ℚ) := by
  exact_mod_cast C.b_pos j

theorem LCtx2.t_nonneg (C : LCtx2 W X0 y b) (j : ℕ) : 0 ≤ tterm X0 y b j := by
  unfold tterm
  have := C.bq_pos j; have := C.X0pos; have := C.y0
  positivity

/-- consecutive terms shrink by at least `128` -/
theorem LCtx2.t_succ_le (C : LCtx2 W X0 y b) (j : ℕ) :
    128 * tterm X0 y b (j + 1) ≤ tterm X0 y b j := by
  unfold tterm
  have h1 := C.bq_pos j
  have h2 : 2 * (b j : ℚ) ≤ (b (j + 1) : ℚ) := by exact_mod_cast C.bstep j
  have h3 : (0:ℚ) < (b (j + 1) : ℚ) := by linarith
  have hy := C.y0; have hy' := C.yle; have hX := C.X0pos
  have hyj : 0 ≤ y ^ j := pow_nonneg hy j
  rw [mul_div_assoc', div_le_div_iff₀ h3 (by linarith), pow_succ]
  have e1 : 128 * (X0 * (y ^ j * y)) * (b j : ℚ) = (X0 * y ^ j * (b j : ℚ)) * (128 * y) := by ring
  rw [e1]
  have h4 : 128 * y ≤ 2 := by linarith
  calc (X0 * y ^ j * (b j : ℚ)) * (128 * y) ≤ (X0 * y ^ j * (b j : ℚ)) * 2 :=
        mul_le_mul_of_nonneg_left h4 (by positivity)
    _ = X0 * y ^ j * (2 * (b j : ℚ)) := by ring
    _ ≤ X0 * y ^ j * (b (j + 1) : ℚ) := mul_le_mul_of_nonneg_left h2 (by positivity)

theorem LCtx2.t_zero (C : LCtx2 W X0 y b) : tterm X0 y b 0 = X0 := by
  unfold tterm; rw [C.b0]; simp

theorem LCtx2.t_anti (C : LCtx2 W X0 y b) (j : ℕ) : tterm X0 y b (j + 1) ≤ tterm X0 y b j := by
  have := C.t_succ_le j; have := C.t_nonneg (j + 1); linarith

theorem LCtx2.t_le (C : LCtx2 W X0 y b) (j : ℕ) : tterm X0 y b j ≤ X0 / 128 ^ j := by
  induction j with
  | zero => rw [C.t_zero]; simp
  | succ j ih =>
    have := C.t_succ_le j
    rw [pow_succ, ← div_div, le_div_iff₀ (by norm_num)]
    linarith

theorem LCtx2.t_le_X0 (C : LCtx2 W X0 y b) (j : ℕ) : tterm X0 y b j ≤ X0 := by
  have h := C.t_le j
  have h1 : (1:ℚ) ≤ 128 ^ j := one_le_pow₀ (by norm_num)
  have : X0 / 128 ^ j ≤ X0 := div_le_self (le_of_lt C.X0pos) h1
  linarith

theorem LCtx2.t_one_le (C : LCtx2 W X0 y b) {j : ℕ} (hj : 1 ≤ j) : tterm X0 y b j ≤ X0 / 128 := by
  have h := C.t_le j
  have h1 : (128:ℚ) ^ 1 ≤ 128 ^ j := pow_le_pow_right₀ (by norm_num) hj
  have : X0 / 128 ^ j ≤ X0 / 128 ^ 1 :=
    div_le_div_of_nonneg_left (le_of_lt C.X0pos) (by norm_num) h1
  simpa using le_trans h this

/-- `(2j+3)·t_j ≤ X0/100` for `j ≥ 1` -/
theorem LCtx2.g_le (C : LCtx2 W X0 y b) {j : ℕ} (hj : 1 ≤ j) :
    (2 * (j:ℚ) + 3) * tterm X0 y b j ≤ X0 / 25 := by
  induction j, hj using Nat.le_induction with
  | base =>
    have := C.t_one_le (le_refl 1)
    have := C.X0pos
    push_cast; nlinarith
  | succ j hj ih =>
    have h1 := C.t_succ_le j
    have h2 := C.t_nonneg (j + 1)
    have hjq : (1:ℚ) ≤ (j:ℚ) := by exact_mod_cast hj
    push_cast
    nlinarith

/-- partial sums stay near the first term -/
theorem LCtx2.poly_near (C : LCtx2 W X0 y b) {j : ℕ} (hj : 1 ≤ j) :
    |tpoly X0 y b j - X0| ≤ 2 * tterm X0 y b 1 - 2 * tterm X0 y b j := by
  induction j, hj using Nat.le_induction with
  | base =>
    rw [tpoly_succ, tpoly_zero, C.t_zero]; simp
  | succ j hj ih =>
    rw [tpoly_succ]
    have h1 := C.t_succ_le j
    have h2 := C.t_nonneg (j + 1)
    have h3 := C.t_nonneg j
    have h4 : |(-1 : ℚ) ^ j * tterm X0 y b j| = tterm X0 y b j := by
      rw [abs_mul, abs_pow, abs_neg, abs_one, one_pow, one_mul, abs_of_nonneg h3]
    calc |tpoly X0 y b j + (-1) ^ j * tterm X0 y b j - X0|
        = |(tpoly X0 y b j - X0) + (-1) ^ j * tterm X0 y b j| := by ring_nf
      _ ≤ |tpoly X0 y b j - X0| + |(-1 : ℚ) ^ j * tterm X0 y b j| := abs_add_le _ _
      _ ≤ (2 * tterm X0 y b 1 - 2 * tterm X0 y b j) + tterm X0 y b j := by rw [h4]; linarith
      _ ≤ 2 * tterm X0 y b 1 - 2 * tterm X0 y b (j + 1) := by linarith

theorem LCtx2.poly_near' (C : LCtx2 W X0 y b) {j : ℕ} (hj : 1 ≤ j) :
    |tpoly X0 y b j - X0| ≤ X0 / 64 := by
  have h1 := C.poly_near hj
  have h2 := C.t_one_le (le_refl 1)
  have h3 := C.t_nonneg j
  linarith

end Ctx2
/-! ## 4. one iteration -/

section Step2
variable {W : Sem} {X0 y : ℚ} {b : ℕ → ℕ}

/-- the loop invariant after `j ≥ 1` iterations: `vt`, `vs`, `vp` are the values of `top`, `sum`
    and `prev` -/
structure LInv2 (W : Sem) (X0 y : ℚ) (b : ℕ → ℕ) (j : ℕ) (vt vs vp : ℚ) : Prop where
  top_lo : (1 - u W) ^ (2 * j) * (X0 * y ^ j) ≤ vt + 2 * delta W
  top_hi : vt ≤ (1 + u W) ^ (2 * j) * (X0 * y ^ j) + 2 * delta W
  sum_err : |vs - tpoly X0 y b j| ≤ (j:ℚ) * (u W * X0)
  exit : vs = vp → tterm X0 y b (j - 1) ≤ 4 * (u W * X0)
  cont : vs ≠ vp → 2 ≤ j → u W * X0 / 64 ≤ tterm X0 y b (j - 1)

theorem LCtx2.delta_le (C : LCtx2 W X0 y b) : 1024 * delta W ≤ u W * X0 := C.dsmall

theorem LCtx2.six_le_max (C : LCtx2 W X0 y b) : 6 ≤ maxFinite W := by
  have hp : 1 ≤ W.p := by have := C.wf.2; omega
  have h1 := pow_emax_le_maxFinite (F := W) hp
  have h2 : (2:ℚ) ^ (3:ℤ) ≤ (2:ℚ) ^ W.emax :=
    zpow_le_zpow_right₀ (by norm_num) (by have := C.pemax; have := C.p24; omega)
  norm_num at h2; linarith

/-- `1/maxFinite ≤ u/8` -/
theorem LCtx2.inv_max_le (C : LCtx2 W X0 y b) : (maxFinite W)⁻¹ ≤ u W / 8 := by
  have hp : 1 ≤ W.p := by have := C.wf.2; omega
  have h1 := pow_emax_le_maxFinite (F := W) hp
  have h2 : (2:ℚ) ^ ((W.p:ℤ) + 2) ≤ (2:ℚ) ^ W.emax :=
    zpow_le_zpow_right₀ (by norm_num) C.pemax
  have h3 : (0:ℚ) < (2:ℚ) ^ ((W.p:ℤ) + 2) := by positivity
  have h4 : (maxFinite W)⁻¹ ≤ ((2:ℚ) ^ ((W.p:ℤ) + 2))⁻¹ := inv_anti₀ h3 (by linarith)
  have e : ((2:ℚ) ^ ((W.p:ℤ) + 2))⁻¹ = u W / 8 := by
    unfold RelErr.u
    rw [← zpow_neg, show -((W.p:ℤ) + 2) = (1 - (W.p:ℤ)) + (-3) by ring,
      zpow_add₀ (by norm_num : (2:ℚ) ≠ 0)]
    norm_num; ring
  rw [e] at h4; exact h4

/-- the term `top / from_bigint(bottom)` of iteration `j + 1` -/
theorem elem_spec2 (C : LCtx2 W X0 y b) {top : Flt} {vt : ℚ} {j Nmax : ℕ} (hj1 : 1 ≤ j)
    (hjN : j + 1 ≤ Nmax) (hN : (Nmax:ℚ) * u W ≤ 1/1024) (htop : NN W top vt)
    (hlo : (1 - u W) ^ (2 * j) * (X0 * y ^ j) ≤ vt + 2 * delta W)
    (hhi : vt ≤ (1 + u W) ^ (2 * j) * (X0 * y ^ j) + 2 * delta W) :
    ∃ ve : ℚ, NN W (top.div (fromBigint W (b j))) ve ∧ 0 ≤ ve ∧
      |ve - tterm X0 y b j| ≤ 1/4 * (u W * X0) ∧
      (ve ≤ 3/2 * (u W * X0) → tterm X0 y b j ≤ 4 * (u W * X0)) ∧
      ve ≤ 2 * tterm X0 y b j + 4 * delta W := by
  have hW := C.wf
  have hu0 := C.u_pos
  have hu23 := C.u_le
  have hu8 : u W ≤ 1/8 := by norm_num at hu23 ⊢; linarith
  have hu1 : u W ≤ 1 := by linarith
  have hδ0 := delta_pos W
  have hδ := C.delta_le
  have hX0 := C.X0pos
  have hX1 := C.X0le
  have hjq : (j:ℚ) + 1 ≤ (Nmax:ℚ) := by exact_mod_cast hjN
  have hj1q : (1:ℚ) ≤ (j:ℚ) := by exact_mod_cast hj1
  have hju : ((j:ℚ) + 1) * u W ≤ 1/1024 :=
    le_trans (mul_le_mul_of_nonneg_right hjq (le_of_lt hu0)) hN
  have hm3 : ((2 * j + 3 : ℕ) : ℚ) * u W ≤ 1/2 := by
    push_cast; linarith
  have hm2 : ((2 * j + 2 : ℕ) : ℚ) * u W ≤ 1/2 := by
    push_cast; linarith
  have hm0 : ((2 * j : ℕ) : ℚ) * u W ≤ 1/2 := by
    push_cast; linarith
  -- the exact power and term
  set Xj := X0 * y ^ j with hXj
  have hyj0 : 0 ≤ y ^ j := pow_nonneg C.y0 j
  have hyj1 : y ^ j ≤ 1 := pow_le_one₀ C.y0 (by have := C.yle; linarith)
  have hXj0 : 0 ≤ Xj := mul_nonneg (le_of_lt hX0) hyj0
  have hXjle : Xj ≤ X0 := by rw [hXj]; nlinarith
  set c := ((b j : ℚ))⁻¹ with hc
  have hb1 := C.bq_pos j
  have hbpos : (0:ℚ) < (b j : ℚ) := by linarith
  have hc0 : 0 < c := inv_pos.mpr hbpos
  have hc1 : c ≤ 1 := inv_le_one_of_one_le₀ hb1
  have htj : tterm X0 y b j = Xj * c := by unfold tterm; rw [div_eq_mul_inv]
  have htj0 := C.t_nonneg j
  have hg := C.g_le hj1
  have hvt0 := htop.nonneg
  have huX1 : u W * X0 ≤ 1 := mul_le_one₀ hu1 (le_of_lt hX0) hX1
  have hvt3 : vt ≤ 3 := by
    have h1 := one_add_pow_le_two (le_of_lt hu0) (2 * j) hm0
    have : (1 + u W) ^ (2 * j) * Xj ≤ 2 * 1 := mul_le_mul h1 (by linarith) hXj0 (by norm_num)
    linarith
  have hdiv : top.div (fromBigint W (b j)) = divWithRm top (fromBigint W (b j)) W.rm := by
    unfold Flt.div; rw [htop.sem]
  rw [hdiv, htj]
  rcases bot_spec hW C.rm (C.b_pos j) with ⟨hinf, hge⟩ | ⟨vB, hB, hB1, hB2⟩
  · -- the divisor overflowed: the term is a zero, the exact term is negligible
    have hcan := fromBigint_canonical W (b j) hW
    have hnn := nn_div_inf hW W.rm htop hcan.2 hcan.1 hinf
    have hmp := maxFinite_pos hW
    have hcle : c ≤ u W / 8 := le_trans (inv_anti₀ hmp hge) C.inv_max_le
    have htle : Xj * c ≤ u W * X0 / 8 := by
      calc Xj * c ≤ X0 * (u W / 8) := mul_le_mul hXjle hcle (le_of_lt hc0) (le_of_lt hX0)
        _ = u W * X0 / 8 := by ring
    have htnn : 0 ≤ Xj * c := mul_nonneg hXj0 (le_of_lt hc0)
    have huX : 0 < u W * X0 := mul_pos hu0 hX0
    refine ⟨0, hnn, le_refl _, ?_, fun _ => by linarith, by linarith⟩
    rw [zero_sub, abs_neg, abs_of_nonneg htnn]; linarith
  · -- a finite divisor
    have hvB78 : 7/8 * 1 ≤ (1 - u W) * (b j : ℚ) :=
      mul_le_mul (by linarith) hb1 (by norm_num) (by linarith)
    have hvBpos : 0 < vB := by linarith
    have hvBhalf : 1/2 ≤ vB := by linarith
    have hle : vt / vB ≤ maxFinite W := by
      have h6 := C.six_le_max
      have : vt / vB ≤ 6 := by rw [div_le_iff₀ hvBpos]; linarith
      linarith
    have hq0 : 0 ≤ vt / vB := div_nonneg hvt0 (le_of_lt hvBpos)
    have hnn := nn_div hW W.rm htop hB hvBpos hle
    obtain ⟨hcB1, hcB2⟩ := inv_bounds (le_of_lt hu0) hu8 hbpos hB1 hB2
    have hcB0 : 0 ≤ vB⁻¹ := le_of_lt (inv_pos.mpr hvBpos)
    have hup := rq_le_mixed hW hq0 hle W.rm
    have hdn := rq_ge_mixed hW hq0 hle W.rm
    rw [div_eq_mul_inv] at hup hdn hnn
    set ve := rq W W.rm (vt * vB⁻¹) with hve
    have hve0 : 0 ≤ ve := rq_nonneg hW (by rw [← div_eq_mul_inv]; exact hq0) W.rm
    have hA0 : 0 ≤ (1 + u W) ^ (2 * j) * Xj := mul_nonneg (by positivity) hXj0
    have hhi' := elem_hi (le_of_lt hu0) hu8 (le_of_lt hδ0) hA0 (le_of_lt hc0) hc1 hvt0 hcB0 hhi
      hcB2 hup
    have hlo' := elem_lo (le_of_lt hu0) hu8 (le_of_lt hδ0) (le_of_lt hc0) hc1 hvt0 hlo hcB1 hdn
    have e1 : (1 + u W) ^ 3 * ((1 + u W) ^ (2 * j) * Xj * c) = (1 + u W) ^ (2 * j + 3) * (Xj * c) := by
      rw [pow_add]; ring
    have e2 : (1 - u W) ^ 2 * ((1 - u W) ^ (2 * j) * Xj * c) = (1 - u W) ^ (2 * j + 2) * (Xj * c) := by
      rw [pow_add]; ring
    rw [e1] at hhi'
    rw [e2] at hlo'
    have htnn : 0 ≤ Xj * c := mul_nonneg hXj0 (le_of_lt hc0)
    have hb3 := one_add_pow_le (le_of_lt hu0) (2 * j + 3) hm3
    have hb2 := one_sub_pow_ge hu1 (2 * j + 2)
    have hb2' := half_le_one_sub_pow hu1 (2 * j + 2) hm2
    have h1 : (1 + u W) ^ (2 * j + 3) * (Xj * c) ≤ (1 + 2 * ((2 * j + 3 : ℕ) : ℚ) * u W) * (Xj * c) :=
      mul_le_mul_of_nonneg_right hb3 htnn
    have h2 : (1 - ((2 * j + 2 : ℕ) : ℚ) * u W) * (Xj * c) ≤ (1 - u W) ^ (2 * j + 2) * (Xj * c) :=
      mul_le_mul_of_nonneg_right hb2 htnn
    have h3 : (1/2) * (Xj * c) ≤ (1 - u W) ^ (2 * j + 2) * (Xj * c) :=
      mul_le_mul_of_nonneg_right hb2' htnn
    rw [htj] at hg
    push_cast at h1 h2
    have huX : 0 < u W * X0 := mul_pos hu0 hX0
    have hgu : (2 * (j:ℚ) + 3) * (Xj * c) * u W ≤ X0 / 25 * u W :=
      mul_le_mul_of_nonneg_right hg (le_of_lt hu0)
    have e3 : (1 + 2 * (2 * (j:ℚ) + 3) * u W) * (Xj * c)
        = Xj * c + 2 * ((2 * (j:ℚ) + 3) * (Xj * c) * u W) := by ring
    have e4 : (1 - (2 * (j:ℚ) + 2) * u W) * (Xj * c)
        = Xj * c - (2 * (j:ℚ) + 3) * (Xj * c) * u W + (Xj * c) * u W := by ring
    have hTu : 0 ≤ (Xj * c) * u W := mul_nonneg htnn (le_of_lt hu0)
    rw [e3] at h1
    rw [e4] at h2
    refine ⟨ve, hnn, hve0, ?_, ?_, ?_⟩
    · rw [abs_le]; constructor <;> linarith
    · intro hsmall; linarith
    · have hb3' := one_add_pow_le_two (le_of_lt hu0) (2 * j + 3) hm3
      have : (1 + u W) ^ (2 * j + 3) * (Xj * c) ≤ 2 * (Xj * c) :=
        mul_le_mul_of_nonneg_right hb3' htnn
      linarith

/-- the new sum (pure inequality): `s = ±1` is the sign of the term; the rounding is to nearest -/
theorem sum_step_pure2 {u δ X0 vs vs' ve P tj s jq : ℚ} (hs : s = 1 ∨ s = -1) (hu0 : 0 ≤ u)
    (hX0 : 0 < X0) (hδ0 : 0 ≤ δ) (hδ : 1024 * δ ≤ u * X0)
    (hvs : vs ≤ (1 + 1/32) * X0) (hve0 : 0 ≤ ve) (hve : ve ≤ X0 / 64)
    (herr : |vs - P| ≤ jq * (u * X0)) (hverr : |ve - tj| ≤ 1/4 * (u * X0))
    (hr : |vs' - (vs + s * ve)| ≤ u / 2 * (vs + s * ve) + δ) :
    |vs' - (P + s * tj)| ≤ (jq + 1) * (u * X0) ∧ (vs' = vs → ve ≤ 3/2 * (u * X0)) := by
  have hle : vs + s * ve ≤ (1 + 3/64) * X0 := by
    rcases hs with h | h <;> rw [h] <;> linarith
  have hmul : u / 2 * (vs + s * ve) ≤ u / 2 * ((1 + 3/64) * X0) :=
    mul_le_mul_of_nonneg_left hle (by linarith)
  have hr' : |vs' - (vs + s * ve)| ≤ (1/2 + 3/128) * (u * X0) + δ := by
    have : u / 2 * ((1 + 3/64) * X0) = (1/2 + 3/128) * (u * X0) := by ring
    linarith
  obtain ⟨a1, a2⟩ := abs_le.mp hr'
  obtain ⟨b1, b2⟩ := abs_le.mp herr
  obtain ⟨c1, c2⟩ := abs_le.mp hverr
  have huX : 0 ≤ u * X0 := mul_nonneg hu0 (le_of_lt hX0)
  constructor
  · rw [abs_le]
    rcases hs with h | h <;> rw [h] at a1 a2 ⊢ <;> constructor <;> linarith
  · intro heq
    rw [heq] at a1 a2
    rcases hs with h | h <;> rw [h] at a1 a2 <;> linarith

/-- **one iteration** preserves the invariant -/
theorem tay_step2 (C : LCtx2 W X0 y b) {x2f top sum : Flt} {x2 vt vs vp : ℚ} {j Nmax : ℕ}
    (hj1 : 1 ≤ j) (hjN : j + 1 ≤ Nmax) (hN : (Nmax:ℚ) * u W ≤ 1/1024)
    (hx2 : NN W x2f x2) (hx2lo : (1 - u W) * y ≤ x2) (hx2hi : x2 ≤ (1 + u W) * y)
    (htop : NN W top vt) (hsum : NN W sum vs) (I : LInv2 W X0 y b j vt vs vp) :
    ∃ vt' vs' : ℚ, NN W (top.mul x2f) vt' ∧
      NN W (if decide (j % 2 = 1) then sum.sub (top.div (fromBigint W (b j)))
            else sum.add (top.div (fromBigint W (b j)))) vs' ∧
      LInv2 W X0 y b (j + 1) vt' vs' vs := by
  have hW := C.wf
  have hu0 := C.u_pos
  have hu23 := C.u_le
  have hu8 : u W ≤ 1/8 := by norm_num at hu23 ⊢; linarith
  have hu1 : u W ≤ 1 := by linarith
  have hδ0 := delta_pos W
  have hδ := C.delta_le
  have hX0 := C.X0pos
  have hX1 := C.X0le
  have huX0 : 0 < u W * X0 := mul_pos hu0 hX0
  have huXle : u W * X0 ≤ X0 / 2 ^ 23 := by
    have := mul_le_mul_of_nonneg_right hu23 (le_of_lt hX0)
    calc u W * X0 ≤ 1 / 2 ^ 23 * X0 := this
      _ = X0 / 2 ^ 23 := by ring
  have hjq : (j:ℚ) + 1 ≤ (Nmax:ℚ) := by exact_mod_cast hjN
  have hj1q : (1:ℚ) ≤ (j:ℚ) := by exact_mod_cast hj1
  have hju : ((j:ℚ) + 1) * u W ≤ 1/1024 :=
    le_trans (mul_le_mul_of_nonneg_right hjq (le_of_lt hu0)) hN
  obtain ⟨ve, hE, hve0, hverr, hvexit, hve2⟩ := elem_spec2 C hj1 hjN hN htop I.top_lo I.top_hi
  -- ranges
  have hP := C.poly_near' hj1
  have hserr := I.sum_err
  have hjuX : (j:ℚ) * (u W * X0) ≤ X0 / 1024 := by
    have h1 : (j:ℚ) * u W ≤ 1/1024 := by linarith
    calc (j:ℚ) * (u W * X0) = ((j:ℚ) * u W) * X0 := by ring
      _ ≤ 1/1024 * X0 := mul_le_mul_of_nonneg_right h1 (le_of_lt hX0)
      _ = X0 / 1024 := by ring
  obtain ⟨p1, p2⟩ := abs_le.mp hP
  obtain ⟨s1, s2⟩ := abs_le.mp hserr
  obtain ⟨e1, e2⟩ := abs_le.mp hverr
  have htj := C.t_one_le hj1
  have htj0 := C.t_nonneg j
  have hvs_lo : X0 / 2 ≤ vs := by linarith
  have hvs_hi : vs ≤ (1 + 1/32) * X0 := by linarith
  have hve_hi : ve ≤ X0 / 64 := by
    have : (2:ℚ) ^ 23 = 8388608 := by norm_num
    rw [this] at huXle; linarith
  have h6 := C.six_le_max
  set elem := top.div (fromBigint W (b j)) with helem
  -- a small term leaves the sum unchanged
  have hvsrep := hsum.isRep hW
  have hvsn : (2:ℚ) ^ W.emin ≤ vs := by
    have h1 := C.X0norm
    rw [zpow_add_one₀ (by norm_num : (2:ℚ) ≠ 0)] at h1
    linarith
  have hstay : ∀ sg : ℚ, sg = 1 ∨ sg = -1 → tterm X0 y b j < u W * X0 / 64 →
      rq W W.rm (vs + sg * ve) = vs := by
    intro sg hsg hsm
    have huvs : u W * (X0 / 2) ≤ u W * vs := mul_le_mul_of_nonneg_left hvs_lo (le_of_lt hu0)
    refine rq_stay hW C.rm hsg hvsrep hvsn hve0 ?_ (by linarith)
    linarith
  -- the new sum
  have hsumstep : ∃ vs' : ℚ,
      NN W (if decide (j % 2 = 1) then sum.sub elem else sum.add elem) vs' ∧
      |vs' - tpoly X0 y b (j + 1)| ≤ ((j:ℚ) + 1) * (u W * X0) ∧
      (vs' = vs → ve ≤ 3/2 * (u W * X0)) ∧
      (vs' ≠ vs → u W * X0 / 64 ≤ tterm X0 y b j) := by
    rcases Nat.mod_two_eq_zero_or_one j with hpar | hpar
    · -- even `j`: the term is added
      have hd : decide (j % 2 = 1) = false := by simp [hpar]
      rw [hd]
      simp only [Bool.false_eq_true, if_false]
      have hadd : sum.add elem = addWithRm sum elem W.rm := by unfold Flt.add; rw [hsum.sem]
      rw [hadd]
      have hpos : 0 < vs + ve := by linarith
      have hle : vs + ve ≤ maxFinite W := by linarith
      have hnn := nn_add hW W.rm hsum hE hpos hle
      have hr := rq_err_near hW C.rm (le_of_lt hpos) hle
      have hsg : (-1 : ℚ) ^ j = 1 := by
        rw [← Nat.div_add_mod j 2, hpar, add_zero, pow_mul]; norm_num
      have hr' : |rq W W.rm (vs + ve) - (vs + 1 * ve)| ≤ u W / 2 * (vs + 1 * ve) + delta W := by
        rw [one_mul]; exact hr
      obtain ⟨k1, k2⟩ := sum_step_pure2 (Or.inl rfl) (le_of_lt hu0) hX0 (le_of_lt hδ0) hδ hvs_hi
        hve0 hve_hi hserr hverr hr'
      refine ⟨_, hnn, ?_, k2, ?_⟩
      · rw [tpoly_succ, hsg]; exact k1
      · intro hne
        by_contra hc
        have := hstay 1 (Or.inl rfl) (not_le.mp hc)
        rw [one_mul] at this
        exact hne this
    · -- odd `j`: the term is subtracted
      have hd : decide (j % 2 = 1) = true := by simp [hpar]
      rw [hd]
      simp only [if_true]
      have hsub : sum.sub elem = subWithRm sum elem W.rm := by unfold Flt.sub; rw [hsum.sem]
      rw [hsub]
      have hpos : 0 < vs - ve := by linarith
      have hle : vs - ve ≤ maxFinite W := by linarith
      have hnn := nn_sub hW W.rm hsum hE hpos hle
      have hr := rq_err_near hW C.rm (le_of_lt hpos) hle
      have hsg : (-1 : ℚ) ^ j = -1 := by
        rw [← Nat.div_add_mod j 2, hpar, pow_add, pow_mul]; norm_num
      have hr' : |rq W W.rm (vs - ve) - (vs + (-1) * ve)| ≤
          u W / 2 * (vs + (-1) * ve) + delta W := by
        have : vs + (-1) * ve = vs - ve := by ring
        rw [this]; exact hr
      obtain ⟨k1, k2⟩ := sum_step_pure2 (Or.inr rfl) (le_of_lt hu0) hX0 (le_of_lt hδ0) hδ hvs_hi
        hve0 hve_hi hserr hverr hr'
      refine ⟨_, hnn, ?_, k2, ?_⟩
      · rw [tpoly_succ, hsg]; exact k1
      · intro hne
        by_contra hc
        have := hstay (-1) (Or.inr rfl) (not_le.mp hc)
        rw [show vs + (-1) * ve = vs - ve by ring] at this
        exact hne this
  obtain ⟨vs', hS', hSerr, hSexit, hScont⟩ := hsumstep
  -- the new power
  have hvt0 := htop.nonneg
  have hx20 := hx2.nonneg
  have hm0 : ((2 * j : ℕ) : ℚ) * u W ≤ 1/2 := by push_cast; linarith
  set Xj := X0 * y ^ j with hXj
  have hyj0 : 0 ≤ y ^ j := pow_nonneg C.y0 j
  have hyj1 : y ^ j ≤ 1 := pow_le_one₀ C.y0 (by have := C.yle; linarith)
  have hXj0 : 0 ≤ Xj := mul_nonneg (le_of_lt hX0) hyj0
  have hXjle : Xj ≤ X0 := by
    calc Xj = X0 * y ^ j := rfl
      _ ≤ X0 * 1 := mul_le_mul_of_nonneg_left hyj1 (le_of_lt hX0)
      _ = X0 := mul_one _
  have huX1 : u W * X0 ≤ 1 := mul_le_one₀ hu1 (le_of_lt hX0) hX1
  have hvt3 : vt ≤ 3 := by
    have h1 := one_add_pow_le_two (le_of_lt hu0) (2 * j) hm0
    have : (1 + u W) ^ (2 * j) * Xj ≤ 2 * 1 := mul_le_mul h1 (by linarith) hXj0 (by norm_num)
    have := I.top_hi
    linarith
  have hx21 : x2 ≤ 1 := by
    have hy := C.yle
    have : (1 + u W) * y ≤ (1 + 1/8) * (1/64) :=
      mul_le_mul (by linarith) hy C.y0 (by norm_num)
    linarith
  have hmulle : vt * x2 ≤ maxFinite W := by
    have : vt * x2 ≤ 3 * 1 := mul_le_mul hvt3 hx21 hx20 (by norm_num)
    linarith
  have hq0 : 0 ≤ vt * x2 := mul_nonneg hvt0 hx20
  have hmul : top.mul x2f = mulWithRm top x2f W.rm := by unfold Flt.mul; rw [htop.sem]
  have hT' := nn_mul hW W.rm htop hx2 hmulle
  rw [← hmul] at hT'
  have hup := rq_le_mixed hW hq0 hmulle W.rm
  have hdn := rq_ge_mixed hW hq0 hmulle W.rm
  have hA0 : 0 ≤ (1 + u W) ^ (2 * j) * Xj := mul_nonneg (by positivity) hXj0
  have hhi := top_hi_step2 (le_of_lt hu0) hu8 (le_of_lt hδ0) hA0 C.y0 C.yle hvt0 hx20 I.top_hi
    hx2hi hup
  have hlo := top_lo_step2 (le_of_lt hu0) hu8 (le_of_lt hδ0) C.y0 C.yle hvt0 I.top_lo hx2lo hdn
  have e3 : (1 + u W) ^ 2 * ((1 + u W) ^ (2 * j) * Xj) * y
      = (1 + u W) ^ (2 * (j + 1)) * (X0 * y ^ (j + 1)) := by
    rw [hXj, show 2 * (j + 1) = 2 * j + 2 by ring, pow_add, pow_succ y j]; ring
  have e4 : (1 - u W) ^ 2 * ((1 - u W) ^ (2 * j) * Xj) * y
      = (1 - u W) ^ (2 * (j + 1)) * (X0 * y ^ (j + 1)) := by
    rw [hXj, show 2 * (j + 1) = 2 * j + 2 by ring, pow_add, pow_succ y j]; ring
  rw [e3] at hhi
  rw [e4] at hlo
  refine ⟨_, vs', hT', hS', ⟨hlo, hhi, ?_, ?_, ?_⟩⟩
  · push_cast; exact hSerr
  · intro heq
    rw [Nat.add_sub_cancel]
    exact hvexit (hSexit heq)
  · intro hne _
    rw [Nat.add_sub_cancel]
    exact hScont hne

/-- the sum stays in `[X0/2, (1+1/64)·X0]` -/
theorem LInv2.vs_lo (C : LCtx2 W X0 y b) {j Nmax : ℕ} {vt vs vp : ℚ} (hj1 : 1 ≤ j) (hjN : j ≤ Nmax)
    (hN : (Nmax:ℚ) * u W ≤ 1/1024) (I : LInv2 W X0 y b j vt vs vp) : X0 / 2 ≤ vs := by
  have hu0 := C.u_pos
  have hX0 := C.X0pos
  have hjq : (j:ℚ) ≤ (Nmax:ℚ) := by exact_mod_cast hjN
  have hju : (j:ℚ) * u W ≤ 1/1024 :=
    le_trans (mul_le_mul_of_nonneg_right hjq (le_of_lt hu0)) hN
  have hjuX : (j:ℚ) * (u W * X0) ≤ X0 / 1024 := by
    calc (j:ℚ) * (u W * X0) = ((j:ℚ) * u W) * X0 := by ring
      _ ≤ 1/1024 * X0 := mul_le_mul_of_nonneg_right hju (le_of_lt hX0)
      _ = X0 / 1024 := by ring
  obtain ⟨p1, p2⟩ := abs_le.mp (C.poly_near' hj1)
  obtain ⟨s1, s2⟩ := abs_le.mp I.sum_err
  linarith

end Step2
section Loop2
variable {W : Sem} {X0 y : ℚ} {b : ℕ → ℕ}

/-- **the loop**, started after `j ≥ 1` iterations with the invariant; `hcont`: every term that was
    added before was at least `u·X0/64` (otherwise the loop would have stopped) -/
theorem tayLoop_spec2 (C : LCtx2 W X0 y b) {x2f : Flt} {x2 : ℚ} {stp : ℕ → ℕ} {Nmax : ℕ}
    (hN : (Nmax:ℚ) * u W ≤ 1/1024) (hx2 : NN W x2f x2) (hx2lo : (1 - u W) * y ≤ x2)
    (hx2hi : x2 ≤ (1 + u W) * y) (hstp : ∀ j, b (j + 1) = b j * stp (j + 1)) :
    ∀ (n j : ℕ) (top sum prev : Flt) (vt vs vp : ℚ), 1 ≤ j → j + n ≤ Nmax → NN W top vt →
      NN W sum vs → NN W prev vp → LInv2 W X0 y b j vt vs vp →
      (∀ i, 1 ≤ i → i + 2 ≤ j → u W * X0 / 64 ≤ tterm X0 y b i) →
      ∃ (J : ℕ) (vr : ℚ), j ≤ J ∧ J ≤ j + n ∧
        NN W (tayLoop W x2f stp n (j + 1) (decide (j % 2 = 1)) top (b j) sum prev) vr ∧
        |vr - tpoly X0 y b J| ≤ (J:ℚ) * (u W * X0) ∧
        (J = j + n ∨ tterm X0 y b (J - 1) ≤ 4 * (u W * X0)) ∧
        (∀ i, 1 ≤ i → i + 2 ≤ J → u W * X0 / 64 ≤ tterm X0 y b i) := by
  intro n
  induction n with
  | zero =>
    intro j top sum prev vt vs vp _ _ _ hsum _ I hcont
    exact ⟨j, vs, le_refl _, le_refl _, hsum, I.sum_err, Or.inl rfl, hcont⟩
  | succ n ih =>
    intro j top sum prev vt vs vp hj1 hjN htop hsum hprev I hcont
    rw [tayLoop_succ]
    have hvs := I.vs_lo C hj1 (by omega) hN
    have hvspos : 0 < vs := by have := C.X0pos; linarith
    by_cases hb : prev.beq sum = true
    · rw [if_pos hb]
      have heq := (nn_beq_iff C.wf hprev hsum hvspos).mp hb
      exact ⟨j, vs, le_refl _, by omega, hsum, I.sum_err, Or.inr (I.exit heq.symm), hcont⟩
    · rw [if_neg hb]
      have hne : vs ≠ vp := fun h => hb ((nn_beq_iff C.wf hprev hsum hvspos).mpr h.symm)
      have hcont' : ∀ i, 1 ≤ i → i + 2 ≤ j + 1 → u W * X0 / 64 ≤ tterm X0 y b i := by
        intro i hi1 hi2
        by_cases h : i + 2 ≤ j
        · exact hcont i hi1 h
        · have hij : i = j - 1 := by omega
          rw [hij]
          exact I.cont hne (by omega)
      obtain ⟨vt', vs', hT', hS', I'⟩ :=
        tay_step2 C hj1 (by omega) hN hx2 hx2lo hx2hi htop hsum I
      have := ih (j + 1) _ _ sum vt' vs' vs (by omega) (by omega) hT' hS' hsum I' hcont'
      obtain ⟨J, vr, h1, h2, h3, h4, h5, h6⟩ := this
      rw [decide_succ_odd, ← hstp j]
      refine ⟨J, vr, by omega, by omega, h3, h4, ?_, h6⟩
      rcases h5 with h5 | h5
      · left; omega
      · right; exact h5

theorem isRep_one2 (C : LCtx2 W X0 y b) : IsRep W 1 := by
  have := isRep_pow2 C.wf 0 (by have := Sem.emin_le_zero C.wf; have := C.p24; omega)
    (by have := C.pemax; have := C.p24; omega)
  simpa using this

/-- the first iteration: `sum = X0` exactly -/
theorem tayLoop_first2 (C : LCtx2 W X0 y b) {x2f X0f : Flt} {x2 : ℚ} {stp : ℕ → ℕ}
    (hx2 : NN W x2f x2) (hx2lo : (1 - u W) * y ≤ x2) (hx2hi : x2 ≤ (1 + u W) * y)
    (hstp : ∀ j, b (j + 1) = b j * stp (j + 1)) (hX0f : NN W X0f X0) (n : ℕ) :
    ∃ (top1 sum1 : Flt) (vt1 : ℚ),
      tayLoop W x2f stp (n + 1) 1 false X0f 1 (Flt.zero W false) (Flt.one W true) =
        tayLoop W x2f stp n 2 true top1 (b 1) sum1 (Flt.zero W false) ∧
      NN W top1 vt1 ∧ NN W sum1 X0 ∧ LInv2 W X0 y b 1 vt1 X0 0 := by
  have hW := C.wf
  have hu0 := C.u_pos
  have hu23 := C.u_le
  have hu8 : u W ≤ 1/8 := by norm_num at hu23 ⊢; linarith
  have hδ0 := delta_pos W
  have hX0 := C.X0pos
  have hX1 := C.X0le
  have h6 := C.six_le_max
  rw [tayLoop_succ, one_true_beq_zero]
  simp only [Bool.false_eq_true, if_false, Bool.not_false]
  have hb1 : b 1 = 1 * stp 1 := by have := hstp 0; rw [C.b0] at this; exact this
  rw [← hb1]
  -- the divisor `1`
  have hone : NN W (fromBigint W 1) 1 := by
    have hcan := fromBigint_canonical W 1 hW
    have hcor := C08.fromBigint_correct W 1 hW
    rw [C08.fromNat_pos W W.rm 1 (by omega)] at hcor
    have := nn_of_rq hW hcan.2 hcan.1 W.rm (by norm_num : (0:ℚ) < ((1:ℕ):ℚ))
      (by push_cast; linarith) hcor
    rw [show ((1:ℕ):ℚ) = 1 by norm_num, rq_rep hW (isRep_one2 C)] at this
    exact this
  have hdiv : X0f.div (fromBigint W 1) = divWithRm X0f (fromBigint W 1) W.rm := by
    unfold Flt.div; rw [hX0f.sem]
  have helem : NN W (X0f.div (fromBigint W 1)) X0 := by
    rw [hdiv]
    have := nn_div hW W.rm hX0f hone (by norm_num) (by rw [div_one]; linarith)
    rwa [div_one, rq_rep hW C.X0rep] at this
  have hzero := NN.zero W false
  have hadd : (Flt.zero W false).add (X0f.div (fromBigint W 1)) =
      addWithRm (Flt.zero W false) (X0f.div (fromBigint W 1)) W.rm := rfl
  have hsum : NN W ((Flt.zero W false).add (X0f.div (fromBigint W 1))) X0 := by
    rw [hadd]
    have := nn_add hW W.rm hzero helem (by linarith) (by linarith)
    rwa [zero_add, rq_rep hW C.X0rep] at this
  -- the power
  have hx20 := hx2.nonneg
  have hx21 : x2 ≤ 1 := by
    have hy := C.yle
    have : (1 + u W) * y ≤ (1 + 1/8) * (1/64) :=
      mul_le_mul (by linarith) hy C.y0 (by norm_num)
    linarith
  have hmulle : X0 * x2 ≤ maxFinite W := by
    have : X0 * x2 ≤ 1 * 1 := mul_le_mul hX1 hx21 hx20 (by norm_num)
    linarith
  have hq0 : 0 ≤ X0 * x2 := mul_nonneg (le_of_lt hX0) hx20
  have hmul : X0f.mul x2f = mulWithRm X0f x2f W.rm := by unfold Flt.mul; rw [hX0f.sem]
  have hT' := nn_mul hW W.rm hX0f hx2 hmulle
  rw [← hmul] at hT'
  have hup := rq_le_mixed hW hq0 hmulle W.rm
  have hdn := rq_ge_mixed hW hq0 hmulle W.rm
  have hhi := top_hi_step2 (A := X0) (le_of_lt hu0) hu8 (le_of_lt hδ0) (le_of_lt hX0) C.y0 C.yle
    (le_of_lt hX0) hx20 (by linarith) hx2hi hup
  have hlo := top_lo_step2 (A := X0) (le_of_lt hu0) hu8 (le_of_lt hδ0) C.y0 C.yle (le_of_lt hX0)
    (by linarith) hx2lo hdn
  refine ⟨_, _, _, rfl, hT', hsum, ⟨?_, ?_, ?_, ?_, ?_⟩⟩
  · simpa [mul_assoc] using hlo
  · simpa [mul_assoc] using hhi
  · rw [tpoly_succ, tpoly_zero, C.t_zero]
    simp
    exact le_of_lt (mul_pos hu0 hX0)
  · intro h; exact absurd h (ne_of_gt hX0)
  · intro _ h; omega

/-- **the whole loop** with fuel `F ≥ p − 1`: the result is within `(F+2)·u·X0` of every real `S`
    whose alternating Taylor remainders are bounded by the next term; and within `(Js+3)·u·X0` when
    the `Js`-th term is already below `u·X0/64` (the loop has stopped by then) -/
theorem tay_total2 (C : LCtx2 W X0 y b) {x2f X0f : Flt} {x2 : ℚ} {stp : ℕ → ℕ}
    (hx2 : NN W x2f x2) (hx2lo : (1 - u W) * y ≤ x2) (hx2hi : x2 ≤ (1 + u W) * y)
    (hstp : ∀ j, b (j + 1) = b j * stp (j + 1)) (hX0f : NN W X0f X0) {F : ℕ} (hF1 : 1 ≤ F)
    (hFp : W.p ≤ F + 1) (hFN : ((F:ℚ) + 1) * u W ≤ 1/1024) :
    ∃ vr : ℚ, NN W (tayLoop W x2f stp F 1 false X0f 1 (Flt.zero W false) (Flt.one W true)) vr ∧
      X0 / 2 ≤ vr ∧
      ∀ S : ℝ, (∀ n, |S - ((tpoly X0 y b n : ℚ) : ℝ)| ≤ ((tterm X0 y b n : ℚ) : ℝ)) →
        |((vr : ℚ) : ℝ) - S| ≤ (((2 * (F:ℚ) + 1) * (u W * X0) : ℚ) : ℝ) ∧
        ∀ Js : ℕ, 1 ≤ Js → tterm X0 y b Js < u W * X0 / 64 →
          |((vr : ℚ) : ℝ) - S| ≤ ((((Js:ℚ) + 3) * (u W * X0) : ℚ) : ℝ) := by
  obtain ⟨n, rfl⟩ : ∃ n, F = n + 1 := ⟨F - 1, by omega⟩
  have hu0 := C.u_pos
  have hX0 := C.X0pos
  have huX0 : 0 < u W * X0 := mul_pos hu0 hX0
  obtain ⟨top1, sum1, vt1, heq, hT1, hS1, I1⟩ := tayLoop_first2 C hx2 hx2lo hx2hi hstp hX0f n
  have hN : (((n + 1 + 1 : ℕ)) : ℚ) * u W ≤ 1/1024 := by push_cast at hFN ⊢; linarith
  obtain ⟨J, vr, hJ1, hJ2, hR, hErr, hExit, hCont⟩ :=
    tayLoop_spec2 C hN hx2 hx2lo hx2hi hstp n 1 top1 sum1 (Flt.zero W false) vt1 X0 0
      (le_refl _) (by omega) hT1 hS1 (NN.zero W false) I1 (fun i _ h => by omega)
  rw [heq]
  have hd : decide (1 % 2 = 1) = true := by decide
  rw [hd] at hR
  refine ⟨vr, hR, ?_, ?_⟩
  · -- lower bound of the result
    have hJq : (J:ℚ) ≤ ((n + 1 + 1 : ℕ) : ℚ) := by exact_mod_cast (by omega : J ≤ n + 1 + 1)
    have hju : (J:ℚ) * u W ≤ 1/1024 :=
      le_trans (mul_le_mul_of_nonneg_right hJq (le_of_lt hu0)) hN
    have hjuX : (J:ℚ) * (u W * X0) ≤ X0 / 1024 := by
      calc (J:ℚ) * (u W * X0) = ((J:ℚ) * u W) * X0 := by ring
        _ ≤ 1/1024 * X0 := mul_le_mul_of_nonneg_right hju (le_of_lt hX0)
        _ = X0 / 1024 := by ring
    obtain ⟨p1, p2⟩ := abs_le.mp (C.poly_near' hJ1)
    obtain ⟨s1, s2⟩ := abs_le.mp hErr
    linarith
  · intro S hS
    -- the next term is negligible
    have htJ : tterm X0 y b J ≤ u W * X0 := by
      rcases hExit with hJ | hsm
      · have h1 := C.t_le J
        have hp : 1 ≤ W.p := by have := C.wf.2; omega
        have h2 : (2:ℚ) ^ (W.p - 1) ≤ (128:ℚ) ^ J := by
          have h3 : (2:ℚ) ^ (W.p - 1) ≤ (2:ℚ) ^ J := pow_le_pow_right₀ (by norm_num) (by omega)
          have h4 : (2:ℚ) ^ J ≤ (128:ℚ) ^ J := pow_le_pow_left₀ (by norm_num) (by norm_num) J
          linarith
        have h5 : (1:ℚ) ≤ u W * (128:ℚ) ^ J := by
          rw [← u_mul_pow W hp]
          exact mul_le_mul_of_nonneg_left h2 (le_of_lt hu0)
        have h6 : X0 / (128:ℚ) ^ J ≤ u W * X0 := by
          rw [div_le_iff₀ (by positivity)]
          calc X0 = X0 * 1 := (mul_one _).symm
            _ ≤ X0 * (u W * (128:ℚ) ^ J) := mul_le_mul_of_nonneg_left h5 (le_of_lt hX0)
            _ = u W * X0 * (128:ℚ) ^ J := by ring
        linarith
      · obtain ⟨K, rfl⟩ : ∃ K, J = K + 1 := ⟨J - 1, by omega⟩
        rw [Nat.add_sub_cancel] at hsm
        have := C.t_succ_le K
        linarith
    have h1 := hS J
    have h2 : (((tterm X0 y b J : ℚ)) : ℝ) ≤ ((u W * X0 : ℚ) : ℝ) := by exact_mod_cast htJ
    have h3 : |((vr : ℚ) : ℝ) - ((tpoly X0 y b J : ℚ) : ℝ)| ≤ (((J:ℚ) * (u W * X0) : ℚ) : ℝ) := by
      have : |vr - tpoly X0 y b J| ≤ (J:ℚ) * (u W * X0) := hErr
      exact_mod_cast this
    have hmain : |((vr : ℚ) : ℝ) - S| ≤ (((J:ℚ) * (u W * X0) : ℚ) : ℝ) + ((u W * X0 : ℚ) : ℝ) := by
      calc |((vr : ℚ) : ℝ) - S|
          = |(((vr : ℚ) : ℝ) - ((tpoly X0 y b J : ℚ) : ℝ)) - (S - ((tpoly X0 y b J : ℚ) : ℝ))| := by
            ring_nf
        _ ≤ |((vr : ℚ) : ℝ) - ((tpoly X0 y b J : ℚ) : ℝ)| + |S - ((tpoly X0 y b J : ℚ) : ℝ)| :=
            abs_sub _ _
        _ ≤ (((J:ℚ) * (u W * X0) : ℚ) : ℝ) + ((u W * X0 : ℚ) : ℝ) := by linarith
    have hbound : ∀ M : ℚ, (J:ℚ) + 1 ≤ M →
        |((vr : ℚ) : ℝ) - S| ≤ ((M * (u W * X0) : ℚ) : ℝ) := by
      intro M hM
      have h4 : (J:ℚ) * (u W * X0) + (u W * X0) ≤ M * (u W * X0) := by
        have := mul_le_mul_of_nonneg_right hM (le_of_lt huX0)
        linarith
      have h4' : (((J:ℚ) * (u W * X0) : ℚ) : ℝ) + ((u W * X0 : ℚ) : ℝ) ≤
          ((M * (u W * X0) : ℚ) : ℝ) := by exact_mod_cast h4
      linarith
    refine ⟨hbound _ ?_, ?_⟩
    · have hJF : (J:ℚ) ≤ ((n + 1 : ℕ) : ℚ) := by exact_mod_cast (by omega : J ≤ n + 1)
      linarith
    · intro Js hJs1 hsm
      -- the loop has stopped after at most `Js + 1` iterations
      have hJle : J ≤ Js + 1 := by
        by_contra hc
        have h5 := hCont Js hJs1 (by omega)
        linarith
      have hJq : (J:ℚ) ≤ (Js:ℚ) + 1 := by exact_mod_cast hJle
      exact hbound _ (by linarith)

end Loop2

end Arp.TrigErr
