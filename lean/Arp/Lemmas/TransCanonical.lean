import Arp.Lemmas.Trans
/-!
# Canonical closure of the transcendental part of the API (C04, work package T)

For each of `exp`, `log`, `sigmoid`, `pow`, `sin`, `cos`, `tan`: a canonical operand of a
well-formed format gives (whenever the fuel suffices) a canonical result of the same format.
Every loop carries the invariant "all loop variables that are read as `add`/`sub`/`scale`/`powi`
operands are canonical and have the working format".
-/
namespace Arp

/-! ### small helpers -/

theorem sqr_canonical (x : Flt) (hF : x.sem.WF) (hx : x.Canonical) :
    x.sqr.Canonical ∧ x.sqr.sem = x.sem := powi_canonical x 2 hF hx

theorem Sem.wide_WF {s : Sem} (h : s.WF) (a b : Nat) : ((s.growLog a).increaseExponent b).WF :=
  Sem.increaseExponent_WF (Sem.growLog_WF h a) b

theorem absOf_canonical (v : Flt) (hv : v.Canonical) : (absOf v).Canonical := by
  unfold absOf; split
  · exact (neg_canonical v hv).1
  · exact hv

/-! ### `exp` -/

theorem expTaylorLoop_canonical (sem : Sem) (x : Flt) (S : Sem) (hS : S.WF) (n k : Nat) (top : Flt)
    (bottom : Nat) (sum prev : Flt) (hts : top.sem = S) (hss : sum.sem = S) (hsc : sum.Canonical) :
    (expTaylorLoop sem x n k top bottom sum prev).Canonical
      ∧ (expTaylorLoop sem x n k top bottom sum prev).sem = S := by
  induction n generalizing k top bottom sum prev with
  | zero => exact ⟨hsc, hss⟩
  | succ n ih =>
    simp only [expTaylorLoop]
    split
    · exact ⟨hsc, hss⟩
    · have hd := div_canonical top (fromBigint sem bottom) (hts ▸ hS)
      have ha := add_canonical sum (top.div (fromBigint sem bottom)) (hss ▸ hS)
        (by rw [hd.2, hts, hss]) hsc hd.1
      exact ih _ _ _ _ _ ((mul_sem_tr _ _).trans hts) (ha.2.trans hss) ha.1

theorem expTaylor_canonical (x : Flt) (hF : x.sem.WF) :
    (expTaylor x).Canonical ∧ (expTaylor x).sem = x.sem := by
  unfold expTaylor
  exact expTaylorLoop_canonical _ _ x.sem hF _ _ _ _ _ _ rfl rfl (Flt.zero_canonical _ _)

theorem expReduceLoop_canonical (fuel : Nat) (x one : Flt) (steps : Nat) (y : Flt) (s : Nat)
    (hF : x.sem.WF) (hx : x.Canonical) (h : expReduceLoop fuel x one steps = some (y, s)) :
    y.Canonical ∧ y.sem = x.sem := by
  induction fuel generalizing x steps with
  | zero => simp [expReduceLoop] at h
  | succ fuel ih =>
    simp only [expReduceLoop] at h
    split at h
    · have hsc := scale_canonical x (-3) .zero hF hx
      have := ih _ _ (hsc.2 ▸ hF) hsc.1 h
      exact ⟨this.1, this.2.trans hsc.2⟩
    · cases h; exact ⟨hx, rfl⟩

theorem sqr3_canonical (n : Nat) (r : Flt) (hF : r.sem.WF) (hr : r.Canonical) :
    (sqr3 n r).Canonical ∧ (sqr3 n r).sem = r.sem := by
  induction n generalizing r with
  | zero => exact ⟨hr, rfl⟩
  | succ n ih =>
    simp only [sqr3]
    have h1 := sqr_canonical r hF hr
    have h2 := sqr_canonical r.sqr (h1.2 ▸ hF) h1.1
    have h3 := sqr_canonical r.sqr.sqr (by rw [h2.2, h1.2]; exact hF) h2.1
    have hs : r.sqr.sqr.sqr.sem = r.sem := by rw [h3.2, h2.2, h1.2]
    have := ih _ (hs ▸ hF) h3.1
    exact ⟨this.1, this.2.trans hs⟩

theorem expRangeReduce_canonical (fuel : Nat) (x r : Flt) (hF : x.sem.WF) (hx : x.Canonical)
    (h : expRangeReduce fuel x = some r) : r.Canonical ∧ r.sem = x.sem := by
  unfold expRangeReduce at h
  simp only at h
  split at h
  · cases h
  · rename_i y steps hl
    cases h
    have hy := expReduceLoop_canonical _ _ _ _ _ _ hF hx hl
    have ht := expTaylor_canonical y (hy.2 ▸ hF)
    have := sqr3_canonical steps (expTaylor y) (by rw [ht.2, hy.2]; exact hF) ht.1
    exact ⟨this.1, by rw [this.2, ht.2, hy.2]⟩

/-- `exp` of a canonical value is canonical, of the operand's format. -/
theorem expFuel_canonical (fuel : Nat) (x r : Flt) (hF : x.sem.WF) (hx : x.Canonical)
    (h : x.expFuel fuel = some r) : r.Canonical ∧ r.sem = x.sem := by
  have hW : x.expSem.WF := Sem.wide_WF hF _ 10
  unfold Flt.expFuel at h
  simp only at h
  split at h
  · cases h; exact ⟨Flt.one_canonical _ _ hF, rfl⟩
  · split at h
    · cases h; split
      · exact ⟨Flt.zero_canonical _ _, rfl⟩
      · exact ⟨Flt.inf_canonical _ _, rfl⟩
    · split at h
      · cases h; exact ⟨Flt.nan_canonical _ _, rfl⟩
      · split at h
        · simp only [Option.map_eq_some_iff] at h
          obtain ⟨r0, _, rfl⟩ := h
          have hd := div_canonical (Flt.one x.expSem false)
            (r0.cast x.expSem) hW
          exact cast_canonical _ _ hF hd.1
        · simp only [Option.map_eq_some_iff] at h
          obtain ⟨r0, h0, rfl⟩ := h
          have hc := cast_canonical x _ hW hx
          have := expRangeReduce_canonical _ _ _ (by rw [hc.2]; exact hW) hc.1 h0
          exact cast_canonical _ _ hF this.1

/-! ### `log` -/

theorem logTaylorLoop_canonical (sem : Sem) (z2 : Flt) (S : Sem) (hS : S.WF) (n i : Nat)
    (top sum prev : Flt) (hts : top.sem = S) (hss : sum.sem = S) (hsc : sum.Canonical) :
    (logTaylorLoop sem z2 n i top sum prev).Canonical
      ∧ (logTaylorLoop sem z2 n i top sum prev).sem = S := by
  induction n generalizing i top sum prev with
  | zero => exact ⟨hsc, hss⟩
  | succ n ih =>
    simp only [logTaylorLoop]
    split
    · exact ⟨hsc, hss⟩
    · have hd := divWithRm_canonical top (fromU64 sem (i * 2 + 1)) .none (hts ▸ hS)
      have ha := addWithRm_canonical sum _ .none (hss ▸ hS) (by rw [hd.2, hts, hss]) hsc hd.1
      exact ih _ _ _ _ ((mulWithRm_sem_tr _ _ _).trans hts) (ha.2.trans hss) ha.1

theorem logTaylor_canonical (x : Flt) (hF : x.sem.WF) (hx : x.Canonical) :
    (logTaylor x).Canonical ∧ (logTaylor x).sem = x.sem := by
  unfold logTaylor
  simp only
  have hup := subWithRm_canonical x (Flt.one x.sem false) .none hF rfl hx
    (Flt.one_canonical _ _ hF)
  have hz := divWithRm_canonical (subWithRm x (Flt.one x.sem false) .none)
    (addWithRm x (Flt.one x.sem false) .none) .none (by rw [hup.2]; exact hF)
  have hl := logTaylorLoop_canonical x.sem
    (divWithRm (subWithRm x (Flt.one x.sem false) .none)
      (addWithRm x (Flt.one x.sem false) .none) .none).sqr x.sem hF (Nat.max 50 x.sem.p) 0
    (divWithRm (subWithRm x (Flt.one x.sem false) .none)
      (addWithRm x (Flt.one x.sem false) .none) .none)
    (Flt.zero x.sem false) (Flt.one x.sem true) (hz.2.trans hup.2) rfl (Flt.zero_canonical _ _)
  have := scale_canonical _ 1 .zero (by rw [hl.2]; exact hF) hl.1
  exact ⟨this.1, this.2.trans hl.2⟩

theorem logRangeReduce_canonical (fuel : Nat) (x r : Flt) (hF : x.sem.WF) (hx : x.Canonical)
    (h : logRangeReduce fuel x = some r) : r.Canonical ∧ r.sem = x.sem := by
  induction fuel generalizing x r with
  | zero => simp [logRangeReduce] at h
  | succ fuel ih =>
    simp only [logRangeReduce] at h
    split at h
    · split at h
      · cases h
      · rename_i sx hsx
        simp only [Option.map_eq_some_iff] at h
        obtain ⟨r0, h0, rfl⟩ := h
        have hs := sqrtFuel_canonical _ _ _ hF hx hsx
        have h1 := ih sx r0 (hs.2 ▸ hF) hs.1 h0
        have := scale_canonical r0 1 .nte (by rw [h1.2, hs.2]; exact hF) h1.1
        exact ⟨this.1, by rw [this.2, h1.2, hs.2]⟩
    · split at h
      · split at h
        · cases h; exact logTaylor_canonical x hF hx
        · simp only [Option.map_eq_some_iff] at h
          obtain ⟨r0, h0, rfl⟩ := h
          have hd := divWithRm_canonical (fromU64 x.sem 1) x .none
            (by rw [fromU64_sem_tr]; exact hF)
          have hds : (divWithRm (fromU64 x.sem 1) x .none).sem = x.sem :=
            hd.2.trans (fromU64_sem_tr _ _)
          have h1 := ih _ r0 (by rw [hds]; exact hF) hd.1 h0
          exact ⟨(neg_canonical r0 h1.1).1, h1.2.trans hds⟩
      · cases h; exact logTaylor_canonical x hF hx

/-- `log` of a canonical value is canonical, of the operand's format. -/
theorem logFuel_canonical (fuel : Nat) (x r : Flt) (hF : x.sem.WF) (hx : x.Canonical)
    (h : x.logFuel fuel = some r) : r.Canonical ∧ r.sem = x.sem := by
  have hW := Sem.wide_WF hF 10 10
  unfold Flt.logFuel at h
  simp only at h
  split at h
  · cases h; exact ⟨Flt.inf_canonical _ _, rfl⟩
  · split at h
    · cases h; exact ⟨hx, rfl⟩
    · split at h
      · cases h; exact ⟨Flt.nan_canonical _ _, rfl⟩
      · simp only [Option.map_eq_some_iff] at h
        obtain ⟨r0, h0, rfl⟩ := h
        have hc := castWithRm_canonical x _ .none hW hx
        have := logRangeReduce_canonical _ _ _ (by rw [hc.2]; exact hW) hc.1 h0
        exact castWithRm_canonical _ _ .none hF this.1

/-! ### `sigmoid` -/

theorem sigmoidFuel_canonical (fuel : Nat) (x r : Flt) (hF : x.sem.WF) (hx : x.Canonical)
    (h : x.sigmoidFuel fuel = some r) : r.Canonical ∧ r.sem = x.sem := by
  have h1 : (Flt.one x.sem false).Canonical := Flt.one_canonical _ _ hF
  unfold Flt.sigmoidFuel at h
  simp only at h
  split at h
  · cases h; split
    · exact ⟨Flt.zero_canonical _ _, rfl⟩
    · exact ⟨h1, rfl⟩
  · split at h
    · cases h; exact scale_canonical _ _ _ hF h1
    · split at h
      · cases h; exact ⟨hx, rfl⟩
      · split at h
        · cases h
        · rename_i ex hex
          split at h
          · cases h; exact ⟨h1, rfl⟩
          · cases h
            exact cast_canonical _ _ hF
              (div_canonical ex (ex.add (Flt.one (x.sem.increasePrecision 8) false))
                (by
                  have hW : (x.sem.increasePrecision 8).WF := Sem.increasePrecision_WF hF 8
                  have hc := cast_canonical x _ hW hx
                  have he := expFuel_canonical _ _ _ (by rw [hc.2]; exact hW) hc.1 hex
                  rw [he.2, hc.2]; exact hW)).1

/-! ### `pow` -/

/-- `pow` is canonical for a canonical base; nothing is needed about the exponent operand
    (it is cast to the working format and multiplied, and `mul` always re-normalises). -/
theorem powFuel_canonical (fuel : Nat) (x n r : Flt) (hF : x.sem.WF) (hx : x.Canonical)
    (h : x.powFuel fuel n = some r) : r.Canonical ∧ r.sem = x.sem := by
  have hW := Sem.wide_WF hF 10 10
  unfold Flt.powFuel at h
  simp only at h
  split at h
  · cases h; exact ⟨hx, rfl⟩
  · split at h
    · cases h; exact ⟨Flt.nan_canonical _ _, rfl⟩
    · split at h
      · cases h; exact ⟨Flt.one_canonical _ _ hF, rfl⟩
      · split at h
        · cases h; split
          · exact ⟨Flt.inf_canonical _ _, rfl⟩
          · exact ⟨Flt.zero_canonical _ _, rfl⟩
        · split at h
          · cases h; exact ⟨Flt.nan_canonical _ _, rfl⟩
          · split at h
            · cases h
            · rename_i l _
              simp only [Option.map_eq_some_iff] at h
              obtain ⟨r0, h0, rfl⟩ := h
              have hm := mul_canonical (n.cast ((x.sem.growLog 10).increaseExponent 10)) l
                (by rw [cast_sem_tr]; exact hW)
              have hms : ((n.cast ((x.sem.growLog 10).increaseExponent 10)).mul l).sem
                  = (x.sem.growLog 10).increaseExponent 10 := hm.2.trans (cast_sem_tr _ _)
              have := expFuel_canonical _ _ _ (by rw [hms]; exact hW) hm.1 h0
              exact cast_canonical _ _ hF this.1

/-! ### `sin` -/

theorem sinTaylorLoop_canonical (sem : Sem) (x2 : Flt) (S : Sem) (hS : S.WF) (n i : Nat) (neg : Bool)
    (top : Flt) (bottom : Nat) (sum prev : Flt) (hts : top.sem = S) (hss : sum.sem = S)
    (hsc : sum.Canonical) :
    (sinTaylorLoop sem x2 n i neg top bottom sum prev).Canonical
      ∧ (sinTaylorLoop sem x2 n i neg top bottom sum prev).sem = S := by
  induction n generalizing i neg top bottom sum prev with
  | zero => exact ⟨hsc, hss⟩
  | succ n ih =>
    simp only [sinTaylorLoop]
    split
    · exact ⟨hsc, hss⟩
    · have hd := div_canonical top (fromBigint sem bottom) (hts ▸ hS)
      have hes : (top.div (fromBigint sem bottom)).sem = sum.sem := by rw [hd.2, hts, hss]
      have hsum : ∀ b : Bool,
          (if b then sum.sub (top.div (fromBigint sem bottom))
            else sum.add (top.div (fromBigint sem bottom))).Canonical
          ∧ (if b then sum.sub (top.div (fromBigint sem bottom))
            else sum.add (top.div (fromBigint sem bottom))).sem = S := by
        intro b
        cases b
        · simp only [Bool.false_eq_true, if_false]
          have := add_canonical sum _ (hss ▸ hS) hes hsc hd.1
          exact ⟨this.1, this.2.trans hss⟩
        · simp only [if_true]
          have := sub_canonical sum _ (hss ▸ hS) hes hsc hd.1
          exact ⟨this.1, this.2.trans hss⟩
      exact ih _ _ _ _ _ _ ((mul_sem_tr _ _).trans hts) (hsum neg).2 (hsum neg).1

theorem sinTaylor_canonical (x : Flt) (hF : x.sem.WF) :
    (sinTaylor x).Canonical ∧ (sinTaylor x).sem = x.sem := by
  unfold sinTaylor
  exact sinTaylorLoop_canonical _ _ x.sem hF _ _ _ _ _ _ _ rfl rfl (Flt.zero_canonical _ _)

theorem sinStep4_canonical (k : Nat) (x : Flt) (hF : x.sem.WF) :
    (sinStep4 k x).Canonical ∧ (sinStep4 k x).sem = x.sem := by
  induction k generalizing x with
  | zero => exact sinTaylor_canonical x hF
  | succ k ih =>
    simp only [sinStep4]
    have hx3 := divWithRm_canonical x (fromU64 x.sem 3) .none hF
    have hsx := ih (divWithRm x (fromU64 x.sem 3) .none) (by rw [hx3.2]; exact hF)
    have hsxs : (sinStep4 k (divWithRm x (fromU64 x.sem 3) .none)).sem = x.sem := hsx.2.trans hx3.2
    have hsxW : (sinStep4 k (divWithRm x (fromU64 x.sem 3) .none)).sem.WF := by rw [hsxs]; exact hF
    have hm := mulWithRm_canonical (sinStep4 k (divWithRm x (fromU64 x.sem 3) .none))
      (fromU64 x.sem 3) .none hsxW
    have hp := powi_canonical (sinStep4 k (divWithRm x (fromU64 x.sem 3) .none)) 3 hsxW hsx.1
    have hsc := scale_canonical _ 2 .none (by rw [hp.2]; exact hsxW) hp.1
    have := subWithRm_canonical _ _ .none (by rw [hm.2]; exact hsxW)
      (by rw [hsc.2, hp.2, hm.2]) hm.1 hsc.1
    exact ⟨this.1, by rw [this.2, hm.2, hsxs]⟩

/-- the operand pair used by the three range reductions: `π`-multiples are canonical -/
theorem piScale_canonical (pi : Flt) (sem : Sem) (hS : sem.WF) (hp : pi.Canonical ∧ pi.sem = sem)
    (k : Int) : (pi.scale k .none).Canonical ∧ (pi.scale k .none).sem = sem := by
  have := scale_canonical pi k .none (by rw [hp.2]; exact hS) hp.1
  exact ⟨this.1, this.2.trans hp.2⟩

/-- `if v > m then v rem m else v` keeps canonicity and the format -/
theorem remStep_canonical (v1 m v2 : Flt) (sem : Sem) (hS : sem.WF) (hv : v1.sem = sem)
    (hc : v1.Canonical) (hm : m.Canonical ∧ m.sem = sem)
    (h2 : (if v1.gt m then v1.remM m else some v1) = some v2) :
    v2.Canonical ∧ v2.sem = sem := by
  split at h2
  · have := remFuel_canonical _ _ _ _ (by rw [hv]; exact hS) (by rw [hm.2, hv]) hc hm.1 h2
    exact ⟨this.1, this.2.trans hv⟩
  · cases h2; exact ⟨hc, hv⟩

theorem subStep_canonical (a b : Flt) (sem : Sem) (hS : sem.WF) (ha : a.Canonical ∧ a.sem = sem)
    (hb : b.Canonical ∧ b.sem = sem) :
    (subWithRm a b .none).Canonical ∧ (subWithRm a b .none).sem = sem := by
  have := subWithRm_canonical a b .none (by rw [ha.2]; exact hS) (by rw [hb.2, ha.2]) ha.1 hb.1
  exact ⟨this.1, this.2.trans ha.2⟩

theorem sinRed_canonical (fuel : Nat) (sem : Sem) (small : Bool) (v1 : Flt) (neg0 : Bool) (v : Flt)
    (n : Bool) (hS : sem.WF) (hv : v1.sem = sem) (hc : v1.Canonical)
    (h : sinRed fuel sem small v1 neg0 = some (v, n)) : v.Canonical ∧ v.sem = sem := by
  unfold sinRed at h
  cases small
  · simp only [Bool.not_false, if_true] at h
    cases hp : piFuel fuel sem with
    | none => rw [hp] at h; cases h
    | some pi =>
      rw [hp] at h
      simp only at h
      have hpi := piFuel_canonical _ _ hS _ hp
      cases h2 : (if v1.gt (pi.scale 1 .none) then v1.remM (pi.scale 1 .none) else some v1) with
      | none => rw [h2] at h; cases h
      | some v2 =>
        rw [h2] at h
        simp only [Option.some.injEq, Prod.mk.injEq] at h
        have hv2 := remStep_canonical v1 _ v2 sem hS hv hc (piScale_canonical pi sem hS hpi 1) h2
        rw [← h.1]
        have hr3 : (if v2.gt pi = true then (subWithRm v2 pi .none, !neg0) else (v2, neg0)).1.Canonical
            ∧ (if v2.gt pi = true then (subWithRm v2 pi .none, !neg0) else (v2, neg0)).1.sem = sem := by
          split
          · exact subStep_canonical v2 pi sem hS hv2 hpi
          · exact hv2
        generalize (if v2.gt pi = true then (subWithRm v2 pi .none, !neg0) else (v2, neg0)) = r3
          at hr3 ⊢
        split
        · exact subStep_canonical pi r3.1 sem hS hpi hr3
        · exact hr3
  · simp only [Bool.not_true, Bool.false_eq_true, if_false, Option.some.injEq, Prod.mk.injEq] at h
    rw [← h.1]; exact ⟨hc, hv⟩

/-- `sin` of a canonical value is canonical, of the operand's format. -/
theorem sinFuel_canonical (fuel : Nat) (x r : Flt) (hF : x.sem.WF) (hx : x.Canonical)
    (h : x.sinFuel fuel = some r) : r.Canonical ∧ r.sem = x.sem := by
  refine ⟨?_, sinFuel_sem fuel x r h⟩
  by_cases hn : x.cat = .normal
  · have hW := Sem.wide_WF hF 12 4
    rw [sinFuel_normal fuel x hn] at h
    unfold sinTail finishWith at h
    split at h
    · cases h
    · rename_i v neg hred
      simp only [Option.map_some, Option.some.injEq] at h
      rw [← h]
      have hc := castWithRm_canonical x _ .none hW hx
      have hv := sinRed_canonical _ _ _ _ _ _ _ hW ((absOf_sem _).trans hc.2)
        (absOf_canonical _ hc.1) hred
      have hs := sinStep4_canonical (x.sem.logPrecision * 4) v (by rw [hv.2]; exact hW)
      refine (cast_canonical _ _ hF ?_).1
      split
      · exact (neg_canonical _ hs.1).1
      · exact hs.1
  · unfold Flt.sinFuel at h
    cases hc : x.cat <;> simp [Flt.isZero, Flt.isNan, Flt.isInf, hc] at h
    · rw [← h]; exact Flt.nan_canonical _ _
    · rw [← h]; exact hx
    · exact absurd hc hn
    · rw [← h]; exact hx

/-! ### `cos` -/

theorem cosTaylorLoop_canonical (sem : Sem) (x2 : Flt) (S : Sem) (hS : S.WF) (n i : Nat) (neg : Bool)
    (top : Flt) (bottom : Nat) (sum prev : Flt) (hts : top.sem = S) (hss : sum.sem = S)
    (hsc : sum.Canonical) :
    (cosTaylorLoop sem x2 n i neg top bottom sum prev).Canonical
      ∧ (cosTaylorLoop sem x2 n i neg top bottom sum prev).sem = S := by
  induction n generalizing i neg top bottom sum prev with
  | zero => exact ⟨hsc, hss⟩
  | succ n ih =>
    simp only [cosTaylorLoop]
    split
    · exact ⟨hsc, hss⟩
    · have hd := div_canonical top (fromBigint sem bottom) (hts ▸ hS)
      have hes : (top.div (fromBigint sem bottom)).sem = sum.sem := by rw [hd.2, hts, hss]
      have hsum : ∀ b : Bool,
          (if b then sum.sub (top.div (fromBigint sem bottom))
            else sum.add (top.div (fromBigint sem bottom))).Canonical
          ∧ (if b then sum.sub (top.div (fromBigint sem bottom))
            else sum.add (top.div (fromBigint sem bottom))).sem = S := by
        intro b
        cases b
        · simp only [Bool.false_eq_true, if_false]
          have := add_canonical sum _ (hss ▸ hS) hes hsc hd.1
          exact ⟨this.1, this.2.trans hss⟩
        · simp only [if_true]
          have := sub_canonical sum _ (hss ▸ hS) hes hsc hd.1
          exact ⟨this.1, this.2.trans hss⟩
      exact ih _ _ _ _ _ _ ((mul_sem_tr _ _).trans hts) (hsum neg).2 (hsum neg).1

theorem cosTaylor_canonical (x : Flt) (hF : x.sem.WF) :
    (cosTaylor x).Canonical ∧ (cosTaylor x).sem = x.sem := by
  unfold cosTaylor
  exact cosTaylorLoop_canonical _ _ x.sem hF _ _ _ _ _ _ _ rfl rfl (Flt.zero_canonical _ _)

theorem cosStep4_canonical (k : Nat) (x : Flt) (hF : x.sem.WF) (hx : x.Canonical) :
    (cosStep4 k x).Canonical ∧ (cosStep4 k x).sem = x.sem := by
  induction k generalizing x with
  | zero => exact cosTaylor_canonical x hF
  | succ k ih =>
    simp only [cosStep4]
    have hh := scale_canonical x (-1) .none hF hx
    have hsx := ih (x.scale (-1) .none) (by rw [hh.2]; exact hF) hh.1
    have hsxs : (cosStep4 k (x.scale (-1) .none)).sem = x.sem := hsx.2.trans hh.2
    have hsxW : (cosStep4 k (x.scale (-1) .none)).sem.WF := by rw [hsxs]; exact hF
    have hq := sqr_canonical _ hsxW hsx.1
    have hsc := scale_canonical _ 1 .none (by rw [hq.2]; exact hsxW) hq.1
    have := subWithRm_canonical _ (Flt.one x.sem false) .none (by rw [hsc.2, hq.2]; exact hsxW)
      (by rw [hsc.2, hq.2, hsxs]; rfl) hsc.1 (Flt.one_canonical _ _ hF)
    exact ⟨this.1, by rw [this.2, hsc.2, hq.2, hsxs]⟩

theorem cosRed_canonical (fuel : Nat) (sem : Sem) (small : Bool) (v1 : Flt) (v : Flt)
    (n : Bool) (hS : sem.WF) (hv : v1.sem = sem) (hc : v1.Canonical)
    (h : cosRed fuel sem small v1 = some (v, n)) : v.Canonical ∧ v.sem = sem := by
  unfold cosRed at h
  cases small
  · simp only [Bool.not_false, if_true] at h
    cases hp : piFuel fuel sem with
    | none => rw [hp] at h; cases h
    | some pi =>
      rw [hp] at h
      simp only at h
      have hpi := piFuel_canonical _ _ hS _ hp
      have hpi2 := piScale_canonical pi sem hS hpi 1
      cases h2 : (if v1.gt (pi.scale 1 .none) then v1.remM (pi.scale 1 .none) else some v1) with
      | none => rw [h2] at h; cases h
      | some v2 =>
        rw [h2] at h
        simp only at h
        have hv2 := remStep_canonical v1 _ v2 sem hS hv hc hpi2 h2
        have hv3 : (if v2.gt pi = true then subWithRm (pi.scale 1 .none) v2 .none else v2).Canonical
            ∧ (if v2.gt pi = true then subWithRm (pi.scale 1 .none) v2 .none else v2).sem = sem := by
          split
          · exact subStep_canonical _ v2 sem hS hpi2 hv2
          · exact hv2
        generalize (if v2.gt pi = true then subWithRm (pi.scale 1 .none) v2 .none else v2) = v3
          at hv3 h
        split at h
        · cases h; exact subStep_canonical pi v3 sem hS hpi hv3
        · cases h; exact hv3
  · simp only [Bool.not_true, Bool.false_eq_true, if_false, Option.some.injEq, Prod.mk.injEq] at h
    rw [← h.1]; exact ⟨hc, hv⟩

/-- `cos` of a canonical value is canonical, of the operand's format. -/
theorem cosFuel_canonical (fuel : Nat) (x r : Flt) (hF : x.sem.WF) (hx : x.Canonical)
    (h : x.cosFuel fuel = some r) : r.Canonical ∧ r.sem = x.sem := by
  by_cases hn : x.cat = .normal
  · have hW := Sem.wide_WF hF 14 4
    rw [cosFuel_normal fuel x hn] at h
    unfold cosTail at h
    simp only at h
    split at h
    · cases h
    · rename_i v neg hred
      simp only [Option.some.injEq] at h
      rw [← h]
      have hc := castWithRm_canonical x _ .none hW hx
      have hv := cosRed_canonical _ _ _ _ _ _ hW ((absOf_sem _).trans hc.2)
        (absOf_canonical _ hc.1) hred
      have hs := cosStep4_canonical
        (((x.sem.growLog 14).increaseExponent 4).logPrecision * 8 / 10) v
        (by rw [hv.2]; exact hW) hv.1
      refine cast_canonical _ _ hF ?_
      split
      · exact (neg_canonical _ hs.1).1
      · exact hs.1
  · unfold Flt.cosFuel at h
    cases hc : x.cat <;> simp [Flt.isZero, Flt.isNan, Flt.isInf, hc] at h
    · rw [← h]; exact ⟨Flt.nan_canonical _ _, rfl⟩
    · rw [← h]; exact ⟨hx, rfl⟩
    · exact absurd hc hn
    · rw [← h]; exact ⟨Flt.one_canonical _ _ hF, rfl⟩

/-! ### `tan` -/

/-- `tan` of a canonical value is canonical, of the operand's format. -/
theorem tanFuel_canonical (fuel : Nat) (x r : Flt) (hF : x.sem.WF) (hx : x.Canonical)
    (h : x.tanFuel fuel = some r) : r.Canonical ∧ r.sem = x.sem := by
  by_cases hn : x.cat = .normal
  · have hW : (((x.sem.increasePrecision x.sem.p).growLog 12).increaseExponent 4).WF :=
      Sem.wide_WF (Sem.increasePrecision_WF hF _) 12 4
    rw [tanFuel_normal fuel x hn] at h
    unfold tanTail finishWith at h
    split at h
    · cases h
    · rename_i v neg hred
      simp only [Option.map_eq_some_iff] at h
      obtain ⟨res, hres, rfl⟩ := h
      have hvs := tanRed_sem _ _ _ _ _ _ _ ((absOf_sem _).trans (castWithRm_sem _ _ _)) hred
      unfold tanCore at hres
      split at hres
      · cases hres
      · rename_i sinx hsin
        split at hres
        · cases hres
        · rename_i bottom _
          cases hres
          have hd := div_canonical sinx bottom
            (by rw [sinFuel_sem _ _ _ hsin, hvs]; exact hW)
          refine cast_canonical _ _ hF ?_
          split
          · exact (neg_canonical _ hd.1).1
          · exact hd.1
  · unfold Flt.tanFuel at h
    cases hc : x.cat <;> simp [Flt.isZero, Flt.isNan, Flt.isInf, hc] at h
    · rw [← h]; exact ⟨Flt.nan_canonical _ _, rfl⟩
    · rw [← h]; exact ⟨hx, rfl⟩
    · exact absurd hc hn
    · rw [← h]; exact ⟨hx, rfl⟩

end Arp
