import Arp.Model.Limbs
import Arp.Lemmas.Basic
import Mathlib.Tactic.Ring
import Mathlib.Tactic.Linarith
import Mathlib.Tactic.NormNum
/-!
# Helper lemmas for the limb-level model (`Arp/Model/Limbs.lean`)
-/
namespace Arp.Limbs

theorem B_eq : B = 18446744073709551616 := by decide
theorem B_pow : B = 2 ^ 64 := rfl
theorem B_pos : 0 < B := by decide

/-! ### `WF`, `val` -/

@[simp] theorem WF_nil : WF [] := by intro w hw; cases hw
@[simp] theorem WF_cons {w : Nat} {ws : List Nat} : WF (w :: ws) ↔ w < B ∧ WF ws := by
  unfold WF; simp
theorem WF_append {a b : List Nat} : WF (a ++ b) ↔ WF a ∧ WF b := by
  unfold WF; simp only [List.mem_append]
  constructor
  · intro h; exact ⟨fun w hw => h w (Or.inl hw), fun w hw => h w (Or.inr hw)⟩
  · rintro ⟨h1, h2⟩ w (hw | hw); exact h1 w hw; exact h2 w hw
theorem WF_replicate_zero (n : Nat) : WF (List.replicate n 0) := by
  intro w hw; rw [List.eq_of_mem_replicate hw]; exact B_pos
theorem WF_take {l : List Nat} (h : WF l) (n : Nat) : WF (l.take n) :=
  fun w hw => h w (List.mem_of_mem_take hw)
theorem WF_drop {l : List Nat} (h : WF l) (n : Nat) : WF (l.drop n) :=
  fun w hw => h w (List.mem_of_mem_drop hw)

@[simp] theorem val_nil : val [] = 0 := rfl
@[simp] theorem val_cons (w : Nat) (ws : List Nat) : val (w :: ws) = w + B * val ws := rfl

theorem val_append (a b : List Nat) : val (a ++ b) = val a + B ^ a.length * val b := by
  induction a with
  | nil => simp
  | cons w ws ih => simp only [List.cons_append, val_cons, ih, List.length_cons, Nat.pow_succ]; ring

theorem val_lt {l : List Nat} (h : WF l) : val l < B ^ l.length := by
  induction l with
  | nil => simp
  | cons w ws ih =>
    rw [WF_cons] at h
    have := ih h.2
    simp only [val_cons, List.length_cons, Nat.pow_succ]
    have h1 : B * (val ws + 1) ≤ B * B ^ ws.length := Nat.mul_le_mul_left _ this
    have : B ^ ws.length * B = B * B ^ ws.length := Nat.mul_comm _ _
    have := h.1
    rw [Nat.mul_add] at h1
    omega

@[simp] theorem val_replicate_zero (n : Nat) : val (List.replicate n 0) = 0 := by
  induction n with
  | zero => rfl
  | succ n ih => simp [List.replicate_succ, ih]

theorem val_eq_zero_iff {l : List Nat} : val l = 0 ↔ ∀ w ∈ l, w = 0 := by
  induction l with
  | nil => simp
  | cons w ws ih =>
    simp only [val_cons, List.mem_cons, forall_eq_or_imp, ← ih]
    have := B_pos
    constructor
    · intro h
      have h1 : w = 0 := by omega
      have h2 : B * val ws = 0 := by omega
      exact ⟨h1, (Nat.mul_eq_zero.mp h2).resolve_left (by omega)⟩
    · rintro ⟨h1, h2⟩; simp [h1, h2]

theorem isZero_iff (l : List Nat) : isZero l = true ↔ val l = 0 := by
  rw [val_eq_zero_iff]; unfold isZero; simp

theorem isZero_eq (l : List Nat) : isZero l = decide (val l = 0) := by
  rw [Bool.eq_iff_iff, isZero_iff]; simp

theorem val_take_add_drop (l : List Nat) (n : Nat) :
    val l = val (l.take n) + B ^ (min n l.length) * val (l.drop n) := by
  conv_lhs => rw [← List.take_append_drop n l]
  rw [val_append, List.length_take]

theorem val_take {l : List Nat} (h : WF l) (n : Nat) : val (l.take n) = val l % B ^ n := by
  by_cases hn : n ≤ l.length
  · rw [val_take_add_drop l n, Nat.min_eq_left hn, Nat.add_mul_mod_self_left]
    have := val_lt (WF_take h n)
    rw [List.length_take, Nat.min_eq_left hn] at this
    exact (Nat.mod_eq_of_lt this).symm
  · have hl : l.length ≤ n := by omega
    rw [List.take_of_length_le hl]
    have h1 := val_lt h
    have h2 : B ^ l.length ≤ B ^ n := Nat.pow_le_pow_right B_pos hl
    exact (Nat.mod_eq_of_lt (by omega)).symm

theorem val_drop {l : List Nat} (h : WF l) (n : Nat) : val (l.drop n) = val l / B ^ n := by
  by_cases hn : n ≤ l.length
  · rw [val_take_add_drop l n, Nat.min_eq_left hn]
    have := val_lt (WF_take h n)
    rw [List.length_take, Nat.min_eq_left hn] at this
    have hp : 0 < B ^ n := Nat.pow_pos B_pos
    rw [Nat.add_mul_div_left _ _ hp, Nat.div_eq_of_lt this, Nat.zero_add]
  · have hl : l.length ≤ n := by omega
    rw [List.drop_of_length_le hl]
    have h1 := val_lt h
    have h2 : B ^ l.length ≤ B ^ n := Nat.pow_le_pow_right B_pos hl
    exact (Nat.div_eq_of_lt (by omega)).symm

/-! ### `grow`, `shrink` -/

@[simp] theorem val_grow (l : List Nat) (n : Nat) : val (grow l n) = val l := by
  unfold grow; rw [val_append]; simp

theorem WF_grow {l : List Nat} (h : WF l) (n : Nat) : WF (grow l n) := by
  unfold grow; exact WF_append.mpr ⟨h, WF_replicate_zero _⟩

@[simp] theorem length_grow (l : List Nat) (n : Nat) : (grow l n).length = max l.length n := by
  unfold grow; simp; omega

@[simp] theorem val_dropTop0 (l : List Nat) : val (dropTop0 l) = val l := by
  induction l with
  | nil => rfl
  | cons w ws ih =>
    simp only [dropTop0]
    split
    · rename_i h
      simp only [Bool.and_eq_true, List.isEmpty_iff, beq_iff_eq] at h
      rw [h.1] at ih
      simp [h.2, ← ih]
    · simp [ih]

theorem WF_dropTop0 {l : List Nat} (h : WF l) : WF (dropTop0 l) := by
  induction l with
  | nil => exact h
  | cons w ws ih =>
    rw [WF_cons] at h
    simp only [dropTop0]
    split
    · exact WF_nil
    · exact WF_cons.mpr ⟨h.1, ih h.2⟩

theorem length_dropTop0_le (l : List Nat) : (dropTop0 l).length ≤ l.length := by
  induction l with
  | nil => simp [dropTop0]
  | cons w ws ih => simp only [dropTop0]; split <;> simp; omega

@[simp] theorem val_shrink (l : List Nat) : val (shrink l) = val l := by
  unfold shrink; split <;> simp

theorem shrink_WF {l : List Nat} (h : WF l) : WF (shrink l) := by
  unfold shrink; split
  · simp only [WF_cons] at h ⊢; exact ⟨h.1, h.2.1, WF_dropTop0 h.2.2⟩
  · exact h

theorem length_shrink_le (l : List Nat) : (shrink l).length ≤ l.length := by
  unfold shrink; split
  · have := length_dropTop0_le ‹List Nat›; simp; omega
  · exact Nat.le_refl _

theorem length_shrink_ge (l : List Nat) : min l.length 2 ≤ (shrink l).length := by
  unfold shrink; split
  · simp
  · omega

theorem dropTop0_append_zero (l : List Nat) : dropTop0 (l ++ [0]) = dropTop0 l := by
  induction l with
  | nil => simp [dropTop0]
  | cons w ws ih => simp [dropTop0, ih]

/-- one iteration of the `while` loop of `shrink`: a top zero word above two words is popped -/
theorem shrink_append_zero {l : List Nat} (h : 2 ≤ l.length) : shrink (l ++ [0]) = shrink l := by
  match l, h with
  | a :: b :: rest, _ => simp [shrink, dropTop0_append_zero]

theorem dropTop0_stop (l : List Nat) (x : Nat) (hx : x ≠ 0) : dropTop0 (l ++ [x]) = l ++ [x] := by
  induction l with
  | nil => simp [dropTop0, hx]
  | cons w ws ih => simp [dropTop0, ih]

/-- exit of the `while` loop: at most two words, or a non-zero top word -/
theorem shrink_stop (l : List Nat) (h : l.length ≤ 2 ∨ ∃ l' x, l = l' ++ [x] ∧ x ≠ 0) :
    shrink l = l := by
  rcases h with h | ⟨l', x, rfl, hx⟩
  · match l, h with
    | [], _ => rfl
    | [_], _ => rfl
    | [_, _], _ => rfl
  · match l' with
    | [] => rfl
    | [_] => rfl
    | a :: b :: rest => simp [shrink, dropTop0_stop _ _ hx]

/-! ### `overflowing_add` / `overflowing_sub` -/

theorem oadd_spec {a b : Nat} (h : a + b < 2 * B) :
    (oadd a b).1 + B * (oadd a b).2.toNat = a + b ∧ (oadd a b).1 < B := by
  unfold oadd; simp only [B_eq] at *
  by_cases hc : 18446744073709551616 ≤ a + b
  · simp only [hc, decide_true, Bool.toNat_true]; omega
  · simp only [hc, decide_false, Bool.toNat_false]; omega

theorem osub_spec {a b : Nat} (ha : a < B) (hb : b ≤ B) :
    (osub a b).1 + b = a + B * (osub a b).2.toNat ∧ (osub a b).1 < B := by
  unfold osub; simp only [B_eq] at *
  by_cases hc : a < b
  · simp only [hc, decide_true, Bool.toNat_true]; omega
  · simp only [hc, decide_false, Bool.toNat_false]; omega

theorem toNat_or_of_add_le_one {x y : Bool} (h : x.toNat + y.toNat ≤ 1) :
    (x || y).toNat = x.toNat + y.toNat := by
  cases x <;> cases y <;> simp at *

theorem bool_toNat_le (b : Bool) : b.toNat ≤ 1 := by cases b <;> simp

end Arp.Limbs
