import Arp.Lemmas.LimbsAdd
/-! # Limb model: shifts, mask, msb, trailing zeros, bit flips, loss kind -/
namespace Arp.Limbs

/-! ### word-level shift facts -/

theorem B_split {b : Nat} (hb : b ≤ 64) : 2 ^ (64 - b) * 2 ^ b = B := by
  rw [← Nat.pow_add, B_pow]; congr 1; omega

theorem shl_mod {b : Nat} (hb : b ≤ 64) (x : Nat) :
    (x <<< b) % B = (x % 2 ^ (64 - b)) * 2 ^ b := by
  rw [Nat.shiftLeft_eq, ← B_split hb, Nat.mul_mod_mul_right]

theorem word_split {b : Nat} (hb : b ≤ 64) (x : Nat) :
    x * 2 ^ b = (x % 2 ^ (64 - b)) * 2 ^ b + B * (x / 2 ^ (64 - b)) := by
  rw [← B_split hb]
  conv_lhs => rw [← Nat.div_add_mod x (2 ^ (64 - b))]
  ring

theorem shr_lt {b : Nat} (hb : b ≤ 64) {x : Nat} (hx : x < B) : x / 2 ^ (64 - b) < 2 ^ b := by
  rw [Nat.div_lt_iff_lt_mul (Nat.two_pow_pos _), Nat.mul_comm, B_split hb]; exact hx

theorem or_eq_add {b h : Nat} (hh : h < 2 ^ b) (m : Nat) : (m * 2 ^ b) ||| h = m * 2 ^ b + h := by
  rw [← Nat.shiftLeft_eq, Nat.shiftLeft_add_eq_or_of_lt hh]

theorem B_pow_eq (n : Nat) : B ^ n = 2 ^ (64 * n) := by rw [B_pow, ← Nat.pow_mul]

/-! ### `shift_left` -/

theorem shlWords_spec {b : Nat} (hb : b ≤ 64) {xs : List Nat} (hx : WF xs) (prev : Nat)
    (hp : prev < B) :
    val (shlWords b prev (xs ++ [0])) = val xs * 2 ^ b + prev / 2 ^ (64 - b)
    ∧ WF (shlWords b prev (xs ++ [0])) := by
  induction xs generalizing prev with
  | nil =>
    have := shr_lt hb hp
    have h2 : 2 ^ b ≤ B := by rw [← B_split hb]; exact Nat.le_mul_of_pos_left _ (Nat.two_pow_pos _)
    simp only [List.nil_append, shlWords, Nat.zero_shiftLeft, Nat.zero_mod, Nat.zero_or,
      Nat.shiftRight_eq_div_pow, val_cons, val_nil, WF_cons, WF_nil]
    refine ⟨by omega, by omega, trivial⟩
  | cons x xs ih =>
    rw [WF_cons] at hx
    obtain ⟨i1, i2⟩ := ih hx.2 x hx.1
    have hh := shr_lt hb hp
    have hw := word_split hb x
    have hlt : x % 2 ^ (64 - b) < 2 ^ (64 - b) := Nat.mod_lt _ (Nat.two_pow_pos _)
    have hle : (x % 2 ^ (64 - b) + 1) * 2 ^ b ≤ 2 ^ (64 - b) * 2 ^ b :=
      Nat.mul_le_mul_right _ hlt
    rw [B_split hb, Nat.add_mul] at hle
    simp only [List.cons_append, shlWords, val_cons, WF_cons, i1, Nat.shiftRight_eq_div_pow,
      shl_mod hb, or_eq_add hh]
    refine ⟨?_, ?_, i2⟩
    · have e : (x + B * val xs) * 2 ^ b = x * 2 ^ b + B * (val xs * 2 ^ b) := by ring
      rw [e, hw]
      generalize val xs * 2 ^ b = V2 at *
      generalize x % 2 ^ (64 - b) * 2 ^ b = lo at *
      generalize x / 2 ^ (64 - b) = hi at *
      simp only [B_eq] at *; omega
    · omega

theorem take_ext (l : List Nat) (wts : Nat) :
    (l ++ List.replicate (wts + 1) 0).take ((l ++ List.replicate (wts + 1) 0).length - wts)
      = l ++ [0] := by
  have : (l ++ List.replicate (wts + 1) 0).length - wts = l.length + 1 := by simp; omega
  rw [this, List.take_append]
  simp [List.take_replicate]

theorem two_pow_split (n : Nat) : 2 ^ n = B ^ (n / 64) * 2 ^ (n % 64) := by
  rw [B_pow_eq, ← Nat.pow_add, Nat.div_add_mod]

/-- `shift_left` multiplies by `2^n` -/
theorem shiftLeft_val {a : List Nat} (ha : WF a) (n : Nat) :
    val (shiftLeft a n) = val a * 2 ^ n ∧ WF (shiftLeft a n) := by
  unfold shiftLeft
  simp only [take_ext]
  split
  · rename_i h
    rw [val_append, List.length_replicate, val_replicate_zero, val_append, two_pow_split n, h]
    refine ⟨by simp; ring, WF_append.mpr ⟨WF_replicate_zero _, WF_append.mpr ⟨ha, by simp [B_pos]⟩⟩⟩
  · have hb : n % 64 ≤ 64 := by omega
    obtain ⟨h1, h2⟩ := shlWords_spec hb ha 0 B_pos
    rw [val_append, List.length_replicate, val_replicate_zero, h1, two_pow_split n]
    refine ⟨by simp; ring, WF_append.mpr ⟨WF_replicate_zero _, h2⟩⟩

theorem length_shlWords (b prev : Nat) (xs : List Nat) : (shlWords b prev xs).length = xs.length := by
  induction xs generalizing prev with
  | nil => rfl
  | cons x xs ih => simp [shlWords, ih]

theorem length_shiftLeft (a : List Nat) (n : Nat) : (shiftLeft a n).length = a.length + n / 64 + 1 := by
  unfold shiftLeft
  simp only [take_ext]
  split <;> simp [length_shlWords] <;> omega

/-! ### `shift_right` -/

theorem shrWords_spec {b : Nat} (hb : b ≤ 64) {xs : List Nat} (hx : WF xs) :
    val (shrWords b xs) = val xs / 2 ^ b ∧ WF (shrWords b xs)
    ∧ (shrWords b xs).length = xs.length := by
  induction xs with
  | nil => simp [shrWords]
  | cons x r ih =>
    rw [WF_cons] at hx
    cases r with
    | nil =>
      simp only [shrWords, Nat.shiftRight_eq_div_pow, val_cons, val_nil, WF_cons, WF_nil,
        Nat.mul_zero, Nat.add_zero, List.length_cons, List.length_nil, and_true]
      exact ⟨trivial, Nat.lt_of_le_of_lt (Nat.div_le_self _ _) hx.1⟩
    | cons y r =>
      obtain ⟨i1, i2, i3⟩ := ih hx.2
      have hy := (WF_cons.mp hx.2).1
      have hb' : 64 - b ≤ 64 := by omega
      have e64 : 64 - (64 - b) = b := by omega
      have hsm := shl_mod hb' y
      rw [e64] at hsm
      have hxl : x / 2 ^ b < 2 ^ (64 - b) := by
        have := shr_lt hb' hx.1; rwa [e64] at this
      have hBs : 2 ^ b * 2 ^ (64 - b) = B := by rw [Nat.mul_comm]; exact B_split hb
      simp only [shrWords, val_cons, WF_cons, List.length_cons, i3, Nat.shiftRight_eq_div_pow,
        hsm, Nat.or_comm (x / 2 ^ b), or_eq_add hxl]
      have i1' := i1
      simp only [val_cons] at i1'
      rw [i1']
      -- the arithmetic identity
      set V := y + B * val r with hV
      have hVmod : V % 2 ^ b = y % 2 ^ b := by
        rw [hV, ← hBs, Nat.mul_assoc, Nat.add_mul_mod_self_left]
      have hdiv : (x + B * V) / 2 ^ b = x / 2 ^ b + 2 ^ (64 - b) * V := by
        rw [← hBs, Nat.mul_assoc, Nat.add_mul_div_left _ _ (Nat.two_pow_pos b)]
      have hVd : 2 ^ (64 - b) * V = B * (V / 2 ^ b) + (y % 2 ^ b) * 2 ^ (64 - b) := by
        conv_lhs => rw [← Nat.div_add_mod V (2 ^ b)]
        rw [hVmod, ← hBs]; ring
      refine ⟨by rw [hdiv, hVd]; ring, ⟨?_, i2⟩, trivial⟩
      have hlt : y % 2 ^ b < 2 ^ b := Nat.mod_lt _ (Nat.two_pow_pos _)
      have hle : (y % 2 ^ b + 1) * 2 ^ (64 - b) ≤ 2 ^ b * 2 ^ (64 - b) := Nat.mul_le_mul_right _ hlt
      rw [hBs, Nat.add_mul] at hle
      omega

/-- `shift_right` divides by `2^n` -/
theorem shiftRight_val {a : List Nat} (ha : WF a) (n : Nat) :
    val (shiftRight a n) = val a / 2 ^ n ∧ WF (shiftRight a n) := by
  unfold shiftRight
  have hd := val_drop ha (n / 64)
  dsimp only
  split
  · rename_i h
    rw [val_shrink, val_grow, hd, two_pow_split n, h]
    exact ⟨by simp, shrink_WF (WF_grow (WF_drop ha _) _)⟩
  · have hb : n % 64 ≤ 64 := by omega
    obtain ⟨h1, h2, _⟩ := shrWords_spec hb (WF_drop ha (n / 64))
    rw [val_shrink, val_grow, h1, hd, two_pow_split n, Nat.div_div_eq_div_mul]
    exact ⟨rfl, shrink_WF (WF_grow h2 _)⟩

theorem length_shiftRight_le (a : List Nat) (n : Nat) : (shiftRight a n).length ≤ a.length := by
  unfold shiftRight
  dsimp only
  split
  · refine Nat.le_trans (length_shrink_le _) ?_; simp
  · refine Nat.le_trans (length_shrink_le _) ?_
    have : ∀ (b : Nat) (xs : List Nat), (shrWords b xs).length = xs.length := by
      intro b xs
      induction xs with
      | nil => rfl
      | cons x r ih => cases r with
        | nil => rfl
        | cons y r => simp only [shrWords, List.length_cons] at ih ⊢; omega
    simp [this]

/-! ### `mask` -/

theorem mask_zero {l : List Nat} : val (mask l 0) = 0 ∧ WF (mask l 0) := by
  induction l with
  | nil => simp [mask]
  | cons w ws ih => simp [mask, ih.1, ih.2, B_pos]

/-- `mask` keeps the low `n` bits -/
theorem mask_val {a : List Nat} (ha : WF a) (n : Nat) :
    val (mask a n) = val a % 2 ^ n ∧ WF (mask a n) := by
  induction a generalizing n with
  | nil => simp [mask]
  | cons w ws ih =>
    rw [WF_cons] at ha
    simp only [mask]
    split
    · rename_i h
      obtain ⟨i1, i2⟩ := ih ha.2 (n - 64)
      have e : 2 ^ n = B * 2 ^ (n - 64) := by rw [B_pow, ← Nat.pow_add]; congr 1; omega
      refine ⟨?_, WF_cons.mpr ⟨ha.1, i2⟩⟩
      rw [val_cons, val_cons, i1, e, Nat.mod_mul, Nat.add_mul_mod_self_left,
        Nat.mod_eq_of_lt ha.1, Nat.add_mul_div_left _ _ B_pos, Nat.div_eq_of_lt ha.1, Nat.zero_add]
    · rename_i h
      split
      · rename_i h0
        subst h0
        simp [mask_zero.1, mask_zero.2, B_pos, Nat.mod_one]
      · rename_i h0
        have hb : n ≤ 64 := by omega
        have e : B = 2 ^ n * 2 ^ (64 - n) := by rw [Nat.mul_comm]; exact (B_split hb).symm
        refine ⟨?_, WF_cons.mpr ⟨?_, mask_zero.2⟩⟩
        · rw [val_cons, val_cons, mask_zero.1, Nat.one_shiftLeft, Nat.and_two_pow_sub_one_eq_mod,
            Nat.mul_zero, Nat.add_zero, e, Nat.mul_assoc, Nat.add_mul_mod_self_left]
        · rw [Nat.one_shiftLeft, Nat.and_two_pow_sub_one_eq_mod]
          exact Nat.lt_of_le_of_lt (Nat.mod_le _ _) ha.1

theorem length_mask (a : List Nat) (n : Nat) : (mask a n).length = a.length := by
  induction a generalizing n with
  | nil => rfl
  | cons w ws ih => simp only [mask]; split; simp [ih]; split <;> simp [ih]

/-! ### `msb_index` -/

theorem msbRev_spec {l : List Nat} (h : WF l) : msbRev l = msb (valR l) := by
  induction l with
  | nil => simp [msbRev, valR, msb]
  | cons w ws ih =>
    rw [WF_cons] at h
    simp only [msbRev, valR]
    split
    · rename_i hw
      have hr := valR_lt h.2
      rw [B_pow_eq] at hr ⊢
      have hpos : 0 < 2 ^ (64 * ws.length) := Nat.two_pow_pos _
      have hne : w * 2 ^ (64 * ws.length) + valR ws ≠ 0 := by
        have : 1 * 2 ^ (64 * ws.length) ≤ w * 2 ^ (64 * ws.length) :=
          Nat.mul_le_mul_right _ (by omega)
        omega
      unfold msb
      rw [if_neg hne]
      have hlog : (w * 2 ^ (64 * ws.length) + valR ws).log2 = 64 * ws.length + w.log2 := by
        rw [Nat.log2_eq_iff hne]
        have h1 := Nat.log2_self_le hw
        have h2 := Nat.lt_log2_self (n := w)
        constructor
        · rw [Nat.pow_add]
          have : 2 ^ w.log2 * 2 ^ (64 * ws.length) ≤ w * 2 ^ (64 * ws.length) :=
            Nat.mul_le_mul_right _ h1
          rw [Nat.mul_comm] at this; omega
        · rw [show 64 * ws.length + w.log2 + 1 = 64 * ws.length + (w.log2 + 1) by omega, Nat.pow_add]
          have : (w + 1) * 2 ^ (64 * ws.length) ≤ 2 ^ (w.log2 + 1) * 2 ^ (64 * ws.length) :=
            Nat.mul_le_mul_right _ h2
          rw [Nat.add_mul, Nat.mul_comm (2 ^ (w.log2 + 1))] at this; omega
      rw [hlog]; omega
    · rename_i hw
      simp only [ne_eq, Decidable.not_not] at hw
      subst hw
      simp [ih h.2]

/-- `msb_index` is the bit length of the value -/
theorem msbIndex_val {a : List Nat} (ha : WF a) : msbIndex a = msb (val a) := by
  unfold msbIndex; rw [msbRev_spec (WF_reverse ha), valR_reverse]

/-! ### `trailing_zeros` -/

theorem ctz_spec (f : Nat) {w : Nat} (hw : w ≠ 0) (hf : w < 2 ^ f) :
    2 ^ ctz f w ∣ w ∧ ¬ 2 ^ (ctz f w + 1) ∣ w := by
  induction f generalizing w with
  | zero => simp at hf; omega
  | succ f ih =>
    simp only [ctz]
    split
    · rename_i h; simp only [Nat.pow_zero, Nat.one_dvd, Nat.zero_add, Nat.pow_one, true_and]; omega
    · rename_i h
      have hw2 : w / 2 ≠ 0 := by omega
      have hf2 : w / 2 < 2 ^ f := by rw [Nat.pow_succ] at hf; omega
      obtain ⟨i1, i2⟩ := ih hw2 hf2
      have e : w = 2 * (w / 2) := by omega
      constructor
      · rw [Nat.add_comm, Nat.pow_succ, Nat.mul_comm, e]
        exact Nat.mul_dvd_mul_left 2 (by rwa [← e])
      · intro hd
        apply i2
        rw [show 1 + ctz f (w / 2) + 1 = (ctz f (w / 2) + 1) + 1 by omega, Nat.pow_succ,
          Nat.mul_comm] at hd
        conv at hd => rhs; rw [e]
        exact (Nat.mul_dvd_mul_iff_left (by omega)).mp hd

theorem tzFrom_spec {l : List Nat} (h : WF l) (hv : val l ≠ 0) (i : Nat) :
    ∃ k, tzFrom i l = i * 64 + k ∧ 2 ^ k ∣ val l ∧ ¬ 2 ^ (k + 1) ∣ val l := by
  induction l generalizing i with
  | nil => simp at hv
  | cons w ws ih =>
    rw [WF_cons] at h
    simp only [tzFrom]
    split
    · rename_i hw
      obtain ⟨c1, c2⟩ := ctz_spec 64 hw h.1
      refine ⟨ctz 64 w, rfl, ?_, ?_⟩
      · have hk : ctz 64 w ≤ 64 := by
          have := Nat.le_of_dvd (by omega) c1
          have h1 := h.1
          rw [B_pow] at h1
          have : 2 ^ ctz 64 w < 2 ^ 64 := by omega
          exact Nat.le_of_lt ((Nat.pow_lt_pow_iff_right (by omega)).mp this)
        rw [val_cons]
        refine Nat.dvd_add c1 (Nat.dvd_trans ?_ (Nat.dvd_mul_right _ _))
        rw [B_pow]; exact Nat.pow_dvd_pow 2 hk
      · have hk : ctz 64 w + 1 ≤ 64 := by
          have := Nat.le_of_dvd (by omega) c1
          have h1 := h.1
          rw [B_pow] at h1
          have : 2 ^ ctz 64 w < 2 ^ 64 := by omega
          exact (Nat.pow_lt_pow_iff_right (by omega)).mp this
        rw [val_cons]
        intro hd
        apply c2
        have hB : 2 ^ (ctz 64 w + 1) ∣ B * val ws :=
          Nat.dvd_trans (by rw [B_pow]; exact Nat.pow_dvd_pow 2 hk) (Nat.dvd_mul_right _ _)
        exact (Nat.dvd_add_left hB).mp hd
    · rename_i hw
      simp only [ne_eq, Decidable.not_not] at hw
      subst hw
      have hv' : val ws ≠ 0 := by
        intro h0; apply hv; simp [h0]
      obtain ⟨k, e, d1, d2⟩ := ih h.2 hv' (i + 1)
      refine ⟨64 + k, by rw [e]; ring, ?_, ?_⟩
      · rw [val_cons, Nat.zero_add, Nat.pow_add, ← B_pow]
        exact Nat.mul_dvd_mul_left _ d1
      · rw [val_cons, Nat.zero_add, show 64 + k + 1 = 64 + (k + 1) by omega, Nat.pow_add, ← B_pow]
        intro hd
        exact d2 ((Nat.mul_dvd_mul_iff_left B_pos).mp hd)

/-- `trailing_zeros` is the exponent of 2 in the value -/
theorem trailingZeros_val {a : List Nat} (ha : WF a) (hv : val a ≠ 0) :
    2 ^ trailingZeros a ∣ val a ∧ ¬ 2 ^ (trailingZeros a + 1) ∣ val a := by
  obtain ⟨k, e, d1, d2⟩ := tzFrom_spec ha hv 0
  unfold trailingZeros
  rw [e, Nat.zero_mul, Nat.zero_add]
  exact ⟨d1, d2⟩

/-! ### `flip_bit`, `one_hot`, `all1s` -/

theorem xor_one (x : Nat) : x ^^^ 1 = if x % 2 = 1 then x - 1 else x + 1 := by
  have h1 : (x ^^^ 1) / 2 = x / 2 := by rw [Nat.xor_div_two]; simp
  have h2 := @Nat.xor_mod_two_eq_one x 1
  split <;> omega

theorem xor_two_pow (w k : Nat) :
    w ^^^ 2 ^ k = if w / 2 ^ k % 2 = 1 then w - 2 ^ k else w + 2 ^ k := by
  have hP : 0 < 2 ^ k := Nat.two_pow_pos k
  have h1 : (w ^^^ 2 ^ k) % 2 ^ k = w % 2 ^ k := by rw [Nat.xor_mod_two_pow]; simp
  have h2 : (w ^^^ 2 ^ k) / 2 ^ k = (w / 2 ^ k) ^^^ 1 := by
    rw [Nat.xor_div_two_pow, Nat.div_self hP]
  have h3 := Nat.div_add_mod (w ^^^ 2 ^ k) (2 ^ k)
  have h4 := Nat.div_add_mod w (2 ^ k)
  rw [h1, h2, xor_one] at h3
  generalize 2 ^ k = P at *
  generalize w / P = q at *
  split
  · rename_i hb
    rw [if_pos hb] at h3
    have hq : q - 1 + 1 = q := by omega
    have : P * (q - 1) + P = P * q := by
      have := Nat.mul_succ P (q - 1); rw [Nat.succ_eq_add_one, hq] at this; omega
    omega
  · rename_i hb
    rw [if_neg hb] at h3
    rw [Nat.mul_add] at h3
    omega

theorem div_pos_of_bit {w P : Nat} (h : w / P % 2 = 1) (_hP : 0 < P) : P ≤ w := by
  by_contra hlt
  rw [Nat.div_eq_of_lt (by omega)] at h; omega

theorem xorAt_spec {l : List Nat} (h : WF l) (i : Nat) (hi : i < l.length) (k : Nat) (hk : k < 64) :
    val (xorAt l i (2 ^ k)) =
      (if val l / 2 ^ (64 * i + k) % 2 = 1 then val l - 2 ^ (64 * i + k)
       else val l + 2 ^ (64 * i + k))
    ∧ WF (xorAt l i (2 ^ k)) ∧ (xorAt l i (2 ^ k)).length = l.length := by
  induction l generalizing i with
  | nil => simp at hi
  | cons w ws ih =>
    rw [WF_cons] at h
    cases i with
    | zero =>
      have hP : 0 < 2 ^ k := Nat.two_pow_pos k
      have hBk : B = 2 ^ k * (2 * 2 ^ (63 - k)) := by
        rw [B_pow, ← Nat.pow_succ', ← Nat.pow_add]; congr 1; omega
      have hbit : (w + B * val ws) / 2 ^ k % 2 = w / 2 ^ k % 2 := by
        rw [hBk, Nat.mul_assoc, Nat.add_mul_div_left _ _ hP, Nat.mul_assoc,
          Nat.add_mul_mod_self_left]
      have hlt : w ^^^ 2 ^ k < B := by
        rw [B_pow]; exact Nat.xor_lt_two_pow (by rw [← B_pow]; exact h.1)
          (Nat.pow_lt_pow_right (by omega) hk)
      simp only [xorAt, val_cons, WF_cons, List.length_cons, Nat.mul_zero, Nat.zero_add, hbit]
      refine ⟨?_, ⟨hlt, h.2⟩, trivial⟩
      rw [xor_two_pow]
      split
      · rename_i hb
        have := div_pos_of_bit hb hP
        omega
      · omega
    | succ i =>
      simp only [List.length_cons, Nat.add_lt_add_iff_right] at hi
      obtain ⟨i1, i2, i3⟩ := ih h.2 i hi
      have hQ : 0 < 2 ^ (64 * i + k) := Nat.two_pow_pos _
      have e : 2 ^ (64 * (i + 1) + k) = B * 2 ^ (64 * i + k) := by
        rw [B_pow, ← Nat.pow_add]; congr 1; omega
      have hbit : (w + B * val ws) / 2 ^ (64 * (i + 1) + k) = val ws / 2 ^ (64 * i + k) := by
        rw [e, ← Nat.div_div_eq_div_mul, Nat.add_mul_div_left _ _ B_pos, Nat.div_eq_of_lt h.1,
          Nat.zero_add]
      simp only [xorAt, val_cons, WF_cons, List.length_cons, i3, i1]
      refine ⟨?_, ⟨h.1, i2⟩, trivial⟩
      by_cases hb : val ws / 2 ^ (64 * i + k) % 2 = 1
      · rw [e] at hbit
        simp only [e, hbit, hb, ↓reduceIte]
        have := div_pos_of_bit hb hQ
        rw [Nat.mul_sub]
        have : B * 2 ^ (64 * i + k) ≤ B * val ws := Nat.mul_le_mul_left _ this
        omega
      · rw [e] at hbit
        simp only [e, hbit, hb, ↓reduceIte]
        rw [Nat.mul_add]; omega

/-- `flip_bit` toggles bit `n` of the value -/
theorem flipBit_val {a : List Nat} (ha : WF a) (n : Nat) :
    val (flipBit a n) = (if val a / 2 ^ n % 2 = 1 then val a - 2 ^ n else val a + 2 ^ n)
    ∧ WF (flipBit a n) := by
  unfold flipBit
  obtain ⟨h1, h2, _⟩ := xorAt_spec (WF_grow ha (n / 64 + 1)) (n / 64) (by simp) (n % 64)
    (Nat.mod_lt _ (by omega))
  rw [Nat.div_add_mod, val_grow] at h1
  simp only [Nat.one_shiftLeft]
  exact ⟨h1, h2⟩

theorem flipBit_val_of_clear {a : List Nat} (ha : WF a) (n : Nat) (hc : val a / 2 ^ n % 2 = 0) :
    val (flipBit a n) = val a + 2 ^ n := by
  rw [(flipBit_val ha n).1, if_neg (by omega)]

theorem length_xorAt (l : List Nat) (i m : Nat) : (xorAt l i m).length = l.length := by
  induction l generalizing i with
  | nil => rfl
  | cons w ws ih => cases i <;> simp [xorAt, ih]

theorem length_flipBit (a : List Nat) (n : Nat) : (flipBit a n).length = max a.length (n / 64 + 1) := by
  unfold flipBit; simp [length_xorAt]

/-- `one_hot(n)` is `2^n` -/
theorem oneHot_val (n : Nat) : val (oneHot n) = 2 ^ n ∧ WF (oneHot n) := by
  unfold oneHot zero
  have hz : WF [0] := by simp [B_pos]
  obtain ⟨h1, h2⟩ := flipBit_val hz n
  refine ⟨?_, h2⟩
  rw [h1]; simp

/-- `all1s(n)` is `2^n - 1` -/
theorem all1s_val (n : Nat) : val (all1s n) = 2 ^ n - 1 ∧ WF (all1s n) := by
  unfold all1s
  split
  · rename_i h; subst h; simp [zero, B_pos]
  · have h1 : WF one := by simp [one, B_eq]
    obtain ⟨s1, s2⟩ := shiftLeft_val h1 n
    obtain ⟨t1, t2, t3, _⟩ := subSlice_val_z s2 h1 0 (by simp)
    have hv : val one = 1 := by simp [one]
    rw [s1, hv] at t2 t3
    have hpos : 0 < 2 ^ n := Nat.two_pow_pos n
    have hb : (subSlice (shiftLeft one n) one 0).2 = false := by
      rw [t2, decide_eq_false_iff_not]; omega
    refine ⟨?_, t1⟩
    rw [t3 hb]; omega

/-! ### `get_loss_kind_for_bit` -/

/-- the limb-level loss classification is the `Nat`-level one used by the float model -/
theorem getLossKindForBit_val {a : List Nat} (ha : WF a) (n : Nat) :
    getLossKindForBit a n = Arp.lossOfBits (val a) n := by
  rw [Arp.lossOfBits_eq]
  unfold getLossKindForBit
  rw [isZero_eq]
  by_cases hm : val a = 0
  · simp [hm]
  · rw [decide_eq_false hm]
    simp only [Bool.false_eq_true, if_false]
    have hlt := val_lt ha
    rw [B_pow_eq] at hlt
    split
    · rename_i hbig
      have h2 : 2 ^ (64 * a.length) ≤ 2 ^ (n - 1) := Nat.pow_le_pow_right (by omega) (by omega)
      have h3 : 2 * 2 ^ (n - 1) = 2 ^ n := by
        rw [← Nat.pow_succ']; congr 1; omega
      have hmod : val a % 2 ^ n = val a := Nat.mod_eq_of_lt (by omega)
      rw [hmod, if_neg hm, if_pos (by omega)]
    · obtain ⟨m1, m2⟩ := mask_val ha n
      rw [isZero_eq, m1]
      by_cases hr : val a % 2 ^ n = 0
      · simp [hr]
      · rw [decide_eq_false hr, if_neg hr]
        simp only [Bool.false_eq_true, if_false]
        have hn : n ≠ 0 := by
          rintro rfl; simp [Nat.mod_one] at hr
        have h3 : 2 * 2 ^ (n - 1) = 2 ^ n := by
          rw [← Nat.pow_succ']; congr 1; omega
        rw [cmp_val m2 (oneHot_val (n - 1)).2, m1, (oneHot_val (n - 1)).1]
        by_cases c1 : val a % 2 ^ n < 2 ^ (n - 1)
        · rw [compare_lt' c1, if_pos (by omega)]
        · by_cases c2 : val a % 2 ^ n = 2 ^ (n - 1)
          · rw [c2, Nat.compare_eq_eq.mpr rfl, if_neg (by omega), if_pos (by omega)]
          · rw [compare_gt' (by omega), if_neg (by omega), if_neg (by omega)]

end Arp.Limbs
