import Arp.Lemmas.LogReduce3
/-!
# Lemmas for the accuracy of `Float::log` — part 9: the working format and the final cast
-/
namespace Arp.LogErr
open Arp Arp.SpecRound Arp.Ln2 Finset

/-- the working format of `log`: `10 + bitlen(p)` more bits, 10 more exponent bits -/
def logW (F : Sem) : Sem := (F.growLog 10).increaseExponent 10

theorem logW_e (F : Sem) : (logW F).e = F.e + 10 := rfl
theorem logW_p (F : Sem) : (logW F).p = F.p + 10 + F.logPrecision := rfl
theorem logW_rm (F : Sem) : (logW F).rm = F.rm := rfl

theorem logW_WF {F : Sem} (hF : F.WF) : (logW F).WF :=
  Sem.increaseExponent_WF (Sem.growLog_WF hF 10) 10

/-- bit length of the precision: `2^(lp-1) ≤ p < 2^lp`, `4 ≤ lp ≤ p` for `p ≥ 8` -/
theorem logPrecision_facts {F : Sem} (hp : 8 ≤ F.p) :
    F.p < 2 ^ F.logPrecision ∧ 4 ≤ F.logPrecision ∧ F.logPrecision ≤ F.p ∧
      F.logPrecision < 2 ^ F.logPrecision := by
  have hp0 : F.p ≠ 0 := by omega
  have e : F.logPrecision = Nat.log2 F.p + 1 := by unfold Sem.logPrecision; rw [if_neg hp0]
  have h1 : F.p < 2 ^ F.logPrecision := by rw [e]; exact Nat.lt_log2_self
  have h2 : 2 ^ Nat.log2 F.p ≤ F.p := Nat.log2_self_le hp0
  have h3 : 4 ≤ F.logPrecision := by
    by_contra hc
    have : 2 ^ F.logPrecision ≤ 2 ^ 3 := Nat.pow_le_pow_right (by norm_num) (by omega)
    omega
  have h4 : F.logPrecision ≤ F.p := by
    by_contra hc
    have : 2 ^ F.p ≤ 2 ^ Nat.log2 F.p := Nat.pow_le_pow_right (by norm_num) (by omega)
    have := Nat.lt_two_pow_self (n := F.p)
    omega
  exact ⟨h1, h3, h4, Nat.lt_two_pow_self⟩

/-- the working format satisfies the requirements of the Taylor stage and of the reduction -/
theorem logW_ctx {F : Sem} (hF : F.WF) (hp : 8 ≤ F.p) (hdom : F.p ≤ 2 ^ (F.e - 1) - 2)
    (hp32 : F.p < 2 ^ 32) : TCtx (logW F) := by
  obtain ⟨l1, l2, l3, l4⟩ := logPrecision_facts hp
  have he := hF.1
  have hW := logW_WF hF
  have hemax : (logW F).emax = ((2 ^ (F.e + 9) : ℕ) : ℤ) - 1 := by
    rw [Sem.emax_eq (by rw [logW_e]; omega), logW_e]; rfl
  have hemin : (logW F).emin = 2 - ((2 ^ (F.e + 9) : ℕ) : ℤ) := by
    rw [Sem.emin_eq, logW_e]; rfl
  have hpow : 2 ^ (F.e + 9) = 1024 * 2 ^ (F.e - 1) := by
    rw [show F.e + 9 = (F.e - 1) + 10 by omega, Nat.pow_add]; norm_num; ring
  have hbig : 3 * (logW F).p + 12 ≤ 2 ^ (F.e + 9) := by
    rw [logW_p, hpow]
    have : 1 ≤ 2 ^ (F.e - 1) := Nat.one_le_two_pow
    omega
  refine ⟨hW, by rw [logW_p]; omega, ?_, by rw [hemin]; omega, by rw [hemax]; omega⟩
  rw [logW_p]
  have : (2:ℕ) ^ 32 + 10 + 2 ^ 32 < 2 ^ 62 := by norm_num
  omega

/-- `u` of the working format -/
theorem logW_u {F : Sem} : RelErr.u (logW F) = RelErr.u F / 2 ^ (10 + F.logPrecision) := by
  unfold RelErr.u
  rw [logW_p, eq_div_iff (by positivity), ← zpow_natCast, ← zpow_add₀ (by norm_num : (2:ℚ) ≠ 0)]
  congr 1; push_cast; ring

theorem budget_nat {p lp T : ℕ} (hT : 16 ≤ T) (h1 : p < T) (h2 : lp < T) :
    101 * (Nat.max 50 (p + 10 + lp) + 7) + 803201 ≤ 100 * (512 * T) := by
  have : Nat.max 50 (p + 10 + lp) ≤ 50 + p + lp := by
    change max 50 (p + 10 + lp) ≤ 50 + p + lp; omega
  generalize Nat.max 50 (p + 10 + lp) = N at *
  nlinarith

/-- **the error budget closes**: the relative error of the reduction in the working format is at
    most half a unit of the original format -/
theorem tauP_le {F : Sem} (hF : F.WF) (hp : 8 ≤ F.p) (hdom : F.p ≤ 2 ^ (F.e - 1) - 2)
    (hp32 : F.p < 2 ^ 32) : tauP (logW F) ≤ (RelErr.u F : ℝ) / 2 := by
  obtain ⟨l1, l2, l3, l4⟩ := logPrecision_facts hp
  have C := logW_ctx hF hp hdom hp32
  set a : ℝ := (RelErr.u (logW F) : ℝ) with ha
  have ha0 : 0 < a := by rw [ha]; exact_mod_cast RelErr.u_pos (logW F)
  have ha1 : a ≤ 1 / 2097152 := C.u_le'
  have hT16 : 16 ≤ 2 ^ F.logPrecision := by
    have : 2 ^ 4 ≤ 2 ^ F.logPrecision := Nat.pow_le_pow_right (by norm_num) l2
    omega
  have hb := budget_nat hT16 l1 l4
  have huF : (RelErr.u F : ℝ) / 2 = a * (512 * (2:ℝ) ^ F.logPrecision) := by
    rw [ha, logW_u]; push_cast
    rw [pow_add]; field_simp; norm_num
  rw [huF]
  -- `tau` and `dd` in terms of `a`
  have htau : (tau (logW F) : ℝ) = 101 / 100 * ((Nat.max 50 (F.p + 10 + F.logPrecision) : ℝ) + 7) * a := by
    unfold tau; rw [logW_p]
    generalize Nat.max 50 (F.p + 10 + F.logPrecision) = N
    push_cast; ring
  have h12 : 0 < 1 - 2 * a := by linarith
  have hdd : dd (logW F) ≤ 2000002 / 1000000 * a := by
    unfold dd
    rw [div_le_iff₀ h12]
    nlinarith
  have hbR : 101 * ((Nat.max 50 (F.p + 10 + F.logPrecision) : ℝ) + 7) + 803201 ≤
      100 * (512 * (2:ℝ) ^ F.logPrecision) := by
    generalize Nat.max 50 (F.p + 10 + F.logPrecision) = N at hb ⊢
    have : ((101 * (N + 7) + 803201 : ℕ) : ℝ) ≤ ((100 * (512 * 2 ^ F.logPrecision) : ℕ) : ℝ) :=
      Nat.cast_le.mpr hb
    push_cast at this; exact this
  unfold tauP KK
  rw [htau]
  generalize (Nat.max 50 (F.p + 10 + F.logPrecision) : ℝ) = N at *
  generalize (2:ℝ) ^ F.logPrecision = T at *
  nlinarith

end Arp.LogErr

/-! ### the final truncating cast and the ulp accounting -/

namespace Arp.LogErr
open Arp Arp.SpecRound Arp.Ln2 Finset

/-- one ulp of the binade `[2^k, 2^(k+1))` of the format `F`; below `2^emin` the spacing of the
    subnormal numbers -/
def ulpAt (F : Sem) (k : ℤ) : ℚ := F.ulp (max k F.emin)

theorem ulpAt_normal (F : Sem) {k : ℤ} (h : F.emin ≤ k) : ulpAt F k = (2:ℚ) ^ (k - ((F.p:ℤ) - 1)) := by
  unfold ulpAt; rw [max_eq_left h]; rfl

/-- the truncating cast of a finite value into another format -/
theorem SV.cast_trunc {W F : Sem} (hW : W.WF) (hF : F.WF) {r : Flt} {R : ℚ} {sg : Bool}
    (hr : SV W sg r R) (hR0 : 0 < R) (hRlt : R < (2:ℚ) ^ (F.emax + 1)) :
    SV F sg (r.castWithRm F .none) (trq F R) := by
  have hrn := hr.normal_of_pos hR0
  have hcor := C06.cast_correct r F .none (by rw [hr.sem]; exact hW) hF hr.can
  have hcan := castWithRm_canonical r F .none hF hr.can
  simp only [Spec.cast, hrn] at hcor
  rw [hr.sign hrn, hr.mag hrn] at hcor
  exact SV.of_round hF hcan.2 hcan.1 hR0 hRlt hcor

/-- **two ulps**: `R` within `ε·t` of `t`, `ε ≤ u/2`, then the truncation `r` of `R` to the format
    `F` is within two ulps of `t`, the ulp being that of any binade `k` with `t < 2^(k+1)` (the
    binade of the TRUE value, or any larger one), clamped at `emin` -/
theorem final_ulp {F : Sem} (hF : F.WF) {R : ℚ} {t ε : ℝ} (hR0 : 0 < R)
    (hRlt : R < (2:ℚ) ^ (F.emax + 1)) (ht : 0 < t) (hε : ε ≤ (RelErr.u F : ℝ) / 2)
    (herr : |(R:ℝ) - t| ≤ ε * t) (k : ℤ) (hk : t < (2:ℝ) ^ (k + 1)) :
    |((trq F R : ℚ) : ℝ) - t| ≤ 2 * ((F.ulp (max k F.emin) : ℚ) : ℝ) := by
  have hp : 1 ≤ F.p := by have := hF.2; omega
  obtain ⟨e, m, f, d, hm⟩ := trq_decomp hF hR0 hRlt
  have hU := F.ulp_pos e
  have hxe : R - trq F R = f * F.ulp e := by rw [hm, d.hq]; ring
  have hf0 := d.hf0
  have hf1 := d.hf1
  have hUk : F.ulp k ≤ F.ulp (max k F.emin) := F.ulp_mono (le_max_left _ _)
  have hUkR : ((F.ulp k : ℚ) : ℝ) ≤ ((F.ulp (max k F.emin) : ℚ) : ℝ) := castle hUk
  have hUpos : (0:ℝ) < ((F.ulp (max k F.emin) : ℚ) : ℝ) := by exact_mod_cast F.ulp_pos _
  -- the truncation error
  have h1 : (0:ℝ) ≤ (R:ℝ) - ((trq F R : ℚ) : ℝ) ∧ (R:ℝ) - ((trq F R : ℚ) : ℝ) ≤ ((F.ulp e : ℚ) : ℝ) := by
    have a1 : (0:ℚ) ≤ R - trq F R := by rw [hxe]; positivity
    have a2 : R - trq F R ≤ F.ulp e := by rw [hxe]; nlinarith
    have b1 := castle a1; have b2 := castle a2
    push_cast at b1 b2
    exact ⟨b1, b2⟩
  -- the error of `R`
  have h2 : |(R:ℝ) - t| ≤ ((F.ulp k : ℚ) : ℝ) := by
    have hu0 : (0:ℝ) < (RelErr.u F : ℝ) := by exact_mod_cast RelErr.u_pos F
    have e1 : ((F.ulp k : ℚ) : ℝ) = (RelErr.u F : ℝ) / 2 * (2:ℝ) ^ (k + 1) := by
      rw [RelErr.ulp_eq_u]; push_cast
      rw [zpow_add₀ (by norm_num : (2:ℝ) ≠ 0)]; ring
    rw [e1]
    calc |(R:ℝ) - t| ≤ ε * t := herr
      _ ≤ (RelErr.u F : ℝ) / 2 * t := mul_le_mul_of_nonneg_right hε (le_of_lt ht)
      _ ≤ (RelErr.u F : ℝ) / 2 * (2:ℝ) ^ (k + 1) :=
          mul_le_mul_of_nonneg_left (le_of_lt hk) (by linarith)
  obtain ⟨c1, c2⟩ := abs_le.mp h2
  by_cases hr : ((trq F R : ℚ) : ℝ) < (2:ℝ) ^ (k + 1)
  · -- the result lies in the binade `k` or below
    have hle : e ≤ max k F.emin := by
      rcases d.hn with h | h
      · have hmq : (2:ℚ) ^ (F.p - 1) ≤ (m:ℚ) := by exact_mod_cast h
        have h2e : (2:ℚ) ^ e ≤ trq F R := by
          calc (2:ℚ) ^ e = (2:ℚ) ^ (F.p - 1) * F.ulp e := (F.half_pow_mul_ulp hp e).symm
            _ ≤ (m:ℚ) * F.ulp e := mul_le_mul_of_nonneg_right hmq (le_of_lt hU)
            _ = trq F R := hm.symm
        have h3 : ((2:ℚ) ^ e : ℝ) ≤ ((trq F R : ℚ) : ℝ) := by
          have := castle h2e; push_cast at this; exact this
        have h4 : (2:ℝ) ^ e < (2:ℝ) ^ (k + 1) := by
          push_cast at h3
          linarith
        have := (zpow_lt_zpow_iff_right₀ (by norm_num : (1:ℝ) < 2)).mp h4
        exact le_trans (by omega) (le_max_left k F.emin)
      · rw [h]; exact le_max_right _ _
    have hUle : F.ulp e ≤ F.ulp (max k F.emin) := F.ulp_mono hle
    have hUleR : ((F.ulp e : ℚ) : ℝ) ≤ ((F.ulp (max k F.emin) : ℚ) : ℝ) := castle hUle
    rw [abs_le]
    constructor <;> linarith [h1.1, h1.2]
  · -- the result was carried into the next binade: it is the power of two just above `t`
    have hr := not_lt.mp hr
    rw [abs_le]
    constructor <;> linarith [h1.1]

end Arp.LogErr

/-! ### size of `log x` for an argument of the original format -/

namespace Arp.LogErr
open Arp Arp.SpecRound Arp.Ln2 Finset

/-- `|log X| ≥ 2^(-p-1)` for every positive `X ≠ 1` of the format `F` -/
theorem log_lower {F : Sem} (hF : F.WF) (hemin : F.emin ≤ -1)
    {x : Flt} {X : ℚ} (hx : SV F false x X) (hX0 : 0 < X) (hne : X ≠ 1) :
    (((2:ℚ) ^ (-(F.p:ℤ) - 1) : ℚ) : ℝ) ≤ |Real.log (X:ℝ)| := by
  have hXr : (0:ℝ) < (X:ℝ) := by exact_mod_cast hX0
  have hq : (2:ℚ) ^ (-(F.p:ℤ) - 2) ≤ |X - 1| / (X + 1) := by
    have hpos : (0:ℚ) < (2:ℚ) ^ (-(F.p:ℤ)) := by positivity
    have e : (2:ℚ) ^ (-(F.p:ℤ) - 2) = (2:ℚ) ^ (-(F.p:ℤ)) / 4 := by
      rw [zpow_sub₀ (by norm_num : (2:ℚ) ≠ 0)]; norm_num
    have hle1 : (2:ℚ) ^ (-(F.p:ℤ)) ≤ 1 := by
      calc (2:ℚ) ^ (-(F.p:ℤ)) ≤ (2:ℚ) ^ (0:ℤ) := zpow_le_zpow_right₀ (by norm_num) (by omega)
        _ = 1 := zpow_zero _
    rw [e, le_div_iff₀ (by linarith)]
    by_cases h1 : 1 / 2 ≤ X ∧ X < 2
    · obtain ⟨_, hge⟩ := abs_sub_one' hF hemin hx h1.1 h1.2 hne
      nlinarith [h1.2]
    · rcases lt_or_ge X (1 / 2) with h | h
      · rw [abs_of_neg (by linarith)]; nlinarith
      · have h2 : 2 ≤ X := by
          by_contra hc; exact h1 ⟨h, not_le.mp hc⟩
        rw [abs_of_pos (by linarith)]; nlinarith
  rw [abs_log_eq_At hXr]
  have hw0 : (0:ℝ) ≤ |(X:ℝ) - 1| / ((X:ℝ) + 1) := by positivity
  have hw1 : |(X:ℝ) - 1| / ((X:ℝ) + 1) < 1 := by
    rw [div_lt_one (by linarith), abs_lt]; constructor <;> linarith
  have hA := le_At hw0 hw1
  have hqr := castle hq
  push_cast at hqr ⊢
  have e2 : (2:ℝ) ^ (-(F.p:ℤ) - 1) = 2 * (2:ℝ) ^ (-(F.p:ℤ) - 2) := by
    rw [show -(F.p:ℤ) - 1 = (-(F.p:ℤ) - 2) + 1 by ring, zpow_add₀ (by norm_num : (2:ℝ) ≠ 0)]
    norm_num; ring
  rw [e2]; linarith

/-- `|log X| ≤ M` when `2^-M < X < 2^M` -/
theorem log_abs_le {X : ℚ} {M : ℕ} (hlo : (2:ℚ) ^ (-(M:ℤ)) < X) (hhi : X < (2:ℚ) ^ M) :
    |Real.log (X:ℝ)| ≤ (M:ℝ) := by
  have hX0 : 0 < X := lt_trans (by positivity) hlo
  have hXr : (0:ℝ) < (X:ℝ) := by exact_mod_cast hX0
  have h2 : Real.log 2 ≤ 1 := by
    have := Real.log_le_sub_one_of_pos (show (0:ℝ) < 2 by norm_num); linarith
  have h20 : 0 ≤ Real.log 2 := Real.log_nonneg (by norm_num)
  have hM0 : (0:ℝ) ≤ (M:ℝ) := Nat.cast_nonneg M
  have a1 : Real.log (X:ℝ) ≤ (M:ℝ) * Real.log 2 := by
    have : (X:ℝ) ≤ (2:ℝ) ^ M := by have := castle (le_of_lt hhi); push_cast at this; exact this
    have := Real.log_le_log hXr this
    rwa [Real.log_pow] at this
  have a2 : -((M:ℝ) * Real.log 2) ≤ Real.log (X:ℝ) := by
    have h : ((2:ℝ) ^ M)⁻¹ ≤ (X:ℝ) := by
      have := castle (le_of_lt hlo); push_cast at this
      rwa [zpow_neg, zpow_natCast] at this
    have := Real.log_le_log (by positivity) h
    rwa [Real.log_inv, Real.log_pow] at this
  rw [abs_le]
  constructor <;> nlinarith

end Arp.LogErr
