import Arp.Lemmas.TrigSin
import Arp.Lemmas.TrigCos
import Arp.Lemmas.TransCanonical
/-!
# `sin` for `|x| < 1`: the final cast, the working format, and the assembled result

* `rq_near_core`, `cast_near`: the final nearest rounding of a value `q` that is already very close
  to the real `S`: at most half an ulp of the binade of `S`, plus twice the distance;
* `cast_signed`: the `Flt`-level cast of a normal value in a nearest mode;
* `sinW_ctx`, `sin_budget`: the working format `(F.growLog 12).increaseExponent 4` satisfies the
  hypotheses of the analysis (`SCtx`), and the accumulated relative error is `≤ 2^-(p+6)`;
* `sin_small_core`: everything about `sinFuel` on a normal operand of magnitude `< 1`.
-/
namespace Arp.TrigErr
open Arp Arp.SpecRound Arp.RelErr Arp.Ln2 Arp.Sqrt

/-! ## the final rounding -/

/-- a nearest rounding below the overflow threshold is off by at most half an ulp of the
    (clamped) binade of its argument -/
theorem rq_near_core {F : Sem} (hF : F.WF) {rm : RM} (hrm : rm = .nte ∨ rm = .nta) {q : ℚ}
    (hq : 0 < q) (hle : q ≤ maxFinite F) :
    ∃ (e : Int) (m : Nat) (f : ℚ), Decomp F q e m f ∧ |rq F rm q - q| ≤ F.ulp e / 2 := by
  have hp : 1 ≤ F.p := by have := hF.2; omega
  obtain ⟨e, m, f, d⟩ := exists_decomp (F := F) hp hq
  have ho := not_ovf_of_le hF d hle rm
  obtain ⟨_, hmag, _⟩ := d.round_not_ovf_mag hF hq rm false ho _ rfl
  have herr := d.err (Spec.up rm false m f) _ rfl
  rw [← hmag, ← rq_pos_eq rm hq] at herr
  have hu := F.ulp_pos e
  have hf0 := d.hf0
  have hf1 := d.hf1
  refine ⟨e, m, f, d, ?_⟩
  rw [herr, abs_le]
  cases hup : Spec.up rm false m f
  · simp only [Bool.false_eq_true, if_false]
    have := up_nearest_false hrm hup
    constructor <;> nlinarith
  · simp only [if_true]
    have := up_nearest_true hrm hup
    constructor <;> nlinarith

/-- **the final nearest rounding**: `q` is within `η` of the real `S ∈ [2^E, 2^(E+1))`; then the
    rounded value is within half an ulp of the binade of `S` (clamped at `emin`) plus `2η` of `S`
    — also when `q` and `S` lie in different binades -/
theorem cast_near {F : Sem} (hF : F.WF) {rm : RM} (hrm : rm = .nte ∨ rm = .nta) {q : ℚ} {S η : ℝ}
    (hq : 0 < q) (hle : q ≤ maxFinite F) (E : ℤ) (hS2 : S < (2:ℝ) ^ (E + 1))
    (hE1 : F.emin - ((F.p:ℤ) - 1) ≤ E + 1) (hE2 : E + 1 ≤ F.emax) (herr : |((q : ℚ) : ℝ) - S| ≤ η) :
    |((rq F rm q : ℚ) : ℝ) - S| ≤ ((F.ulp (max E F.emin) : ℚ) : ℝ) / 2 + 2 * η := by
  have hp : 1 ≤ F.p := by have := hF.2; omega
  have hη0 : 0 ≤ η := le_trans (abs_nonneg _) herr
  have hulp0 : (0:ℝ) < ((F.ulp (max E F.emin) : ℚ) : ℝ) := by exact_mod_cast F.ulp_pos _
  have hc : IsRep F ((2:ℚ) ^ (E + 1)) := isRep_pow2 hF (E + 1) hE1 hE2
  by_cases hqc : q < (2:ℚ) ^ (E + 1)
  · -- same or lower binade
    obtain ⟨e, m, f, d, hhalf⟩ := rq_near_core hF hrm hq hle
    have he : e ≤ max E F.emin := by
      rcases d.hn with h | h
      · have hmq : (2:ℚ) ^ (F.p - 1) ≤ (m:ℚ) := by exact_mod_cast h
        have h2e : (2:ℚ) ^ e ≤ q :=
          calc (2:ℚ) ^ e = (2:ℚ) ^ (F.p - 1) * F.ulp e := (F.half_pow_mul_ulp hp e).symm
            _ ≤ (m:ℚ) * F.ulp e := mul_le_mul_of_nonneg_right hmq (le_of_lt (F.ulp_pos e))
            _ ≤ q := d.lo
        have : (2:ℚ) ^ e < (2:ℚ) ^ (E + 1) := lt_of_le_of_lt h2e hqc
        have := (zpow_lt_zpow_iff_right₀ (by norm_num : (1:ℚ) < 2)).mp this
        have := le_max_left E F.emin
        omega
      · rw [h]; exact le_max_right _ _
    have hmono := F.ulp_mono he
    have h1 : |((rq F rm q : ℚ) : ℝ) - ((q : ℚ) : ℝ)| ≤ ((F.ulp (max E F.emin) : ℚ) : ℝ) / 2 := by
      have : |rq F rm q - q| ≤ F.ulp (max E F.emin) / 2 := by linarith
      exact_mod_cast this
    calc |((rq F rm q : ℚ) : ℝ) - S|
        = |(((rq F rm q : ℚ) : ℝ) - ((q : ℚ) : ℝ)) + (((q : ℚ) : ℝ) - S)| := by ring_nf
      _ ≤ |((rq F rm q : ℚ) : ℝ) - ((q : ℚ) : ℝ)| + |((q : ℚ) : ℝ) - S| := abs_add_le _ _
      _ ≤ ((F.ulp (max E F.emin) : ℚ) : ℝ) / 2 + 2 * η := by linarith
  · -- `q` is at or above the next power of two, which is representable: the rounding cannot be
    -- farther from `q` than that power
    have hcq : (2:ℚ) ^ (E + 1) ≤ q := not_lt.mp hqc
    have hfin := rq_finite hF hq hle rm
    have hnear := round_nearest_spec hF hq hrm false hfin _ hc
    rw [← rq_pos_eq rm hq] at hnear
    have h2 : |(2:ℚ) ^ (E + 1) - q| = q - (2:ℚ) ^ (E + 1) := by
      rw [abs_sub_comm, abs_of_nonneg (by linarith)]
    rw [h2] at hnear
    have h1 : |((rq F rm q : ℚ) : ℝ) - ((q : ℚ) : ℝ)| ≤ ((q : ℚ) : ℝ) - (2:ℝ) ^ (E + 1) := by
      have : |((rq F rm q : ℚ) : ℝ) - ((q : ℚ) : ℝ)| ≤ (((q - (2:ℚ) ^ (E + 1) : ℚ)) : ℝ) := by
        exact_mod_cast hnear
      push_cast at this; exact this
    obtain ⟨e1, e2⟩ := abs_le.mp herr
    calc |((rq F rm q : ℚ) : ℝ) - S|
        = |(((rq F rm q : ℚ) : ℝ) - ((q : ℚ) : ℝ)) + (((q : ℚ) : ℝ) - S)| := by ring_nf
      _ ≤ |((rq F rm q : ℚ) : ℝ) - ((q : ℚ) : ℝ)| + |((q : ℚ) : ℝ) - S| := abs_add_le _ _
      _ ≤ (((q : ℚ) : ℝ) - (2:ℝ) ^ (E + 1)) + η := add_le_add h1 herr
      _ ≤ ((F.ulp (max E F.emin) : ℚ) : ℝ) / 2 + 2 * η := by linarith

/-- the cast of a canonical normal value whose magnitude is below the overflow threshold, in a
    nearest mode: a zero or a normal number with the same sign and the value `± rq` -/
theorem cast_signed {F : Sem} (hF : F.WF) {rm : RM} (hrm : rm = .nte ∨ rm = .nta) {y : Flt}
    (hyF : y.sem.WF) (hyc : y.Canonical) (hyn : y.cat = .normal) (hle : y.mag ≤ maxFinite F) :
    ((y.castWithRm F rm).cat = .normal ∨ (y.castWithRm F rm).cat = .zero) ∧
      (y.castWithRm F rm).sign = y.sign ∧ (y.castWithRm F rm).Canonical ∧
      (y.castWithRm F rm).sem = F ∧
      (y.castWithRm F rm).val = (if y.sign then -1 else 1) * rq F rm y.mag := by
  have hq : 0 < y.mag := Flt.mag_pos y hyn hyc
  have hcor := C06.cast_correct y F rm hyF hF hyc
  have hcan := castWithRm_canonical y F rm hF hyc
  have hspec : Spec.cast F rm y = Spec.round F rm y.sign y.mag := by
    simp only [Spec.cast, hyn]
  rw [hspec] at hcor
  have hfin := rq_finite hF hq hle rm
  have hsymm : Spec.round F rm y.sign y.mag =
      if y.sign then (Spec.round F rm false y.mag).flip else Spec.round F rm false y.mag := by
    cases y.sign
    · simp
    · simp only [if_true]
      exact round_sign_symm (by rcases hrm with h | h <;> simp [h])
  rw [hsymm] at hcor
  rw [rq_pos_eq rm hq]
  rcases hfin.cases with ⟨s, hz⟩ | ⟨s, e, m, hf⟩
  · -- a zero
    rw [hz] at hcor ⊢
    have hs : s = false := by
      rcases round_cases hF hq rm false with h | h | ⟨e, m, h⟩ <;> rw [h] at hz
      · injection hz with h'; exact h'.symm
      · exact absurd hz (by simp)
      · exact absurd hz (by simp)
    subst hs
    have hcor' : (y.castWithRm F rm).toRes = .zero y.sign := by
      rw [hcor]; cases y.sign <;> simp [Res.flip]
    obtain ⟨h1, h2⟩ := toRes_zero hcor'
    refine ⟨Or.inr h1, h2, hcan.1, hcan.2, ?_⟩
    rw [Flt.val_zero h1]; simp [Res.mag]
  · obtain ⟨hsn, _⟩ := round_mem hF hq rm false hf
    subst hsn
    rw [hf] at hcor ⊢
    have hcor' : (y.castWithRm F rm).toRes = .fin y.sign e m := by
      rw [hcor]; cases y.sign <;> simp [Res.flip]
    obtain ⟨h1, h2, h3, h4⟩ := toRes_fin hcor'
    refine ⟨Or.inl h1, h2, hcan.1, hcan.2, ?_⟩
    rw [Flt.val_normal h1, h2, Res.mag_fin, Flt.mag_eq, hcan.2, h3, h4, Sem.ulp_def]
    cases y.sign <;> simp

/-! ## the working format of `sin` -/

/-- bit length of `p ≥ 8` -/
theorem logPrec_bounds {p : ℕ} (hp : 8 ≤ p) :
    4 ≤ Nat.log2 p + 1 ∧ 2 ^ (Nat.log2 p) ≤ p ∧ p < 2 ^ (Nat.log2 p + 1) := by
  have h0 : p ≠ 0 := by omega
  refine ⟨?_, Nat.log2_self_le h0, Nat.lt_log2_self⟩
  have : 3 ≤ Nat.log2 p := (Nat.le_log2 h0).mpr (by norm_num; omega)
  omega

theorem logPrecision_eq {F : Sem} (hp : 8 ≤ F.p) : F.logPrecision = Nat.log2 F.p + 1 := by
  unfold Sem.logPrecision; rw [if_neg (by omega)]

theorem num_24L (L : ℕ) (hL : 4 ≤ L) : 24 * L ≤ 10 * 2 ^ (L - 1) + 23 := by
  induction L, hL using Nat.le_induction with
  | base => norm_num
  | succ L hL ih =>
    have e : L + 1 - 1 = (L - 1) + 1 := by omega
    rw [e, Nat.pow_succ]
    have : 4 ≤ 2 ^ (L - 1) := by
      calc 4 = 2 ^ 2 := by norm_num
        _ ≤ 2 ^ (L - 1) := Nat.pow_le_pow_right (by norm_num) (by omega)
    omega

theorem num_51L (L : ℕ) (hL : 4 ≤ L) : 51 * L + 186 ≤ 29 * 2 ^ L := by
  induction L, hL using Nat.le_induction with
  | base => norm_num
  | succ L hL ih =>
    rw [Nat.pow_succ]
    have : 16 ≤ 2 ^ L := by
      calc 16 = 2 ^ 4 := by norm_num
        _ ≤ 2 ^ L := Nat.pow_le_pow_right (by norm_num) hL
    omega

/-- the working format of `sin` -/
def sinW (F : Sem) : Sem := (F.growLog 12).increaseExponent 4

theorem sinW_p (F : Sem) : (sinW F).p = F.p + 12 + F.logPrecision := rfl
theorem sinW_e (F : Sem) : (sinW F).e = F.e + 4 := rfl
theorem sinW_rm (F : Sem) : (sinW F).rm = F.rm := rfl

theorem sinW_emin {F : Sem} (hF : F.WF) : (sinW F).emin = 16 * F.emin - 30 := by
  rw [Sem.emin_eq, Sem.emin_eq, sinW_e]
  have : F.e + 4 - 1 = (F.e - 1) + 4 := by have := hF.1; omega
  rw [this, Nat.pow_add]
  push_cast; ring

theorem sinW_emax {F : Sem} (hF : F.WF) : (sinW F).emax = 31 - 16 * F.emin := by
  rw [Sem.emax_eq (by rw [sinW_e]; omega), Sem.emin_eq, sinW_e]
  have : F.e + 4 - 1 = (F.e - 1) + 4 := by have := hF.1; omega
  rw [this, Nat.pow_add]
  push_cast; ring

/-- the smallest argument that reaches the Taylor stage: the smallest subnormal of `F` divided by
    `4^k`, `k = 4·bitlen(p)` -/
def sinLo (F : Sem) : ℚ := (2:ℚ) ^ (F.emin - ((F.p:ℤ) - 1) - 8 * (F.logPrecision:ℤ))

/-- the working format satisfies the hypotheses of the analysis -/
theorem sinW_ctx (F : Sem) (hF : F.WF) (hp : 8 ≤ F.p) (hdom : F.p ≤ 2 ^ (F.e - 1) - 2)
    (hrm : F.rm = .nte ∨ F.rm = .nta) : SCtx (sinW F) (sinLo F) := by
  obtain ⟨hL4, hL1, hL2⟩ := logPrec_bounds hp
  have hLeq := logPrecision_eq hp
  set L := F.logPrecision with hLdef
  have hL4' : 4 ≤ L := by omega
  have hLp : 2 ^ (L - 1) ≤ F.p := by rw [hLeq]; simpa using hL1
  have h24 := num_24L L hL4'
  have hemin : F.emin = 2 - ((2 ^ (F.e - 1) : ℕ) : ℤ) := Sem.emin_eq F
  have hWemin := sinW_emin hF
  have hWemax := sinW_emax hF
  have hB : (F.p : ℤ) + 2 ≤ ((2 ^ (F.e - 1) : ℕ) : ℤ) := by
    have : F.p + 2 ≤ 2 ^ (F.e - 1) := by omega
    exact_mod_cast this
  have hLle : (L:ℤ) ≤ (F.p:ℤ) := by
    have : L ≤ F.p := by
      have h1 : L - 1 < 2 ^ (L - 1) := Nat.lt_two_pow_self
      omega
    exact_mod_cast this
  have h24' : 24 * (L:ℤ) ≤ 10 * (F.p:ℤ) + 23 := by
    have : 24 * L ≤ 10 * F.p + 23 := by omega
    exact_mod_cast this
  have hWp : ((sinW F).p : ℤ) = (F.p:ℤ) + 12 + (L:ℤ) := by rw [sinW_p]; push_cast; rfl
  refine ⟨Sem.wide_WF hF 12 4, by rw [sinW_rm]; exact hrm, ?_, ?_, ?_, ?_, ?_⟩
  · rw [sinW_p]; omega
  · rw [hWp, hWemax]; omega
  · unfold sinLo; positivity
  · unfold sinLo
    rw [← zpow_natCast, ← zpow_mul]
    apply zpow_le_zpow_right₀ (by norm_num)
    rw [hWemin]; push_cast; omega
  · unfold sinLo delta Sem.ulp RelErr.u
    rw [show (1024:ℚ) = (2:ℚ) ^ (10:ℤ) by norm_num, ← zpow_add₀ (by norm_num : (2:ℚ) ≠ 0),
      ← zpow_add₀ (by norm_num : (2:ℚ) ≠ 0)]
    apply zpow_le_zpow_right₀ (by norm_num)
    rw [hWemin, hWp]; omega

/-- **error budget**: `(3·max(50, p_W) + 12·k)·u_W ≤ 2^-(p+6)` with `k = 4·bitlen(p)` -/
theorem sin_budget (F : Sem) (hp : 8 ≤ F.p) :
    ((3 * Nat.max 50 (sinW F).p + 12 * (F.logPrecision * 4) : ℕ) : ℚ) * u (sinW F)
      ≤ (2:ℚ) ^ (-(F.p:ℤ) - 6) := by
  obtain ⟨hL4, hL1, hL2⟩ := logPrec_bounds hp
  have hLeq := logPrecision_eq hp
  set L := F.logPrecision with hLdef
  have hL4' : 4 ≤ L := by omega
  have hpL : F.p < 2 ^ L := by rw [hLeq]; exact hL2
  have h51 := num_51L L hL4'
  have hmax : Nat.max 50 (sinW F).p ≤ (sinW F).p + 50 := by
    rcases Nat.le_total 50 (sinW F).p with h | h
    · have h1 : Nat.max 50 (sinW F).p = (sinW F).p := Nat.max_eq_right h
      rw [h1]; omega
    · have h1 : Nat.max 50 (sinW F).p = 50 := Nat.max_eq_left h
      rw [h1]; omega
  have hnat : 3 * Nat.max 50 (sinW F).p + 12 * (L * 4) ≤ 2 ^ (L + 5) := by
    rw [sinW_p] at hmax ⊢
    rw [Nat.pow_add]
    have : F.logPrecision = L := rfl
    rw [this] at hmax ⊢
    generalize Nat.max 50 (F.p + 12 + L) = M at *
    generalize 2 ^ L = T at *
    omega
  have hq : ((3 * Nat.max 50 (sinW F).p + 12 * (L * 4) : ℕ) : ℚ) ≤ (2:ℚ) ^ ((L + 5 : ℕ) : ℤ) := by
    rw [zpow_natCast]; exact_mod_cast hnat
  have hu0 := RelErr.u_pos (sinW F)
  calc ((3 * Nat.max 50 (sinW F).p + 12 * (L * 4) : ℕ) : ℚ) * u (sinW F)
      ≤ (2:ℚ) ^ ((L + 5 : ℕ) : ℤ) * u (sinW F) := mul_le_mul_of_nonneg_right hq (le_of_lt hu0)
    _ = (2:ℚ) ^ (-(F.p:ℤ) - 6) := by
        unfold RelErr.u
        rw [← zpow_add₀ (by norm_num : (2:ℚ) ≠ 0), sinW_p]
        congr 1
        push_cast
        have : (F.logPrecision : ℤ) = (L:ℤ) := rfl
        rw [this]; ring

/-! ## assembling `sinFuel` on a normal operand of magnitude below one -/

/-- `sin x ≤ 17/20` on `[0, 1]` -/
theorem sin_le_unit {x : ℝ} (hx0 : 0 ≤ x) (hx1 : x ≤ 1) : Real.sin x ≤ 17/20 := by
  have h1 := sin_mono_unit hx0 hx1 (le_refl 1)
  have h2 := Real.sin_bound (x := 1) (by norm_num)
  norm_num at h2
  have := (abs_le.mp h2).2
  linarith

/-- a canonical normal value with a negative exponent field is below one in magnitude -/
theorem mag_lt_one {x : Flt} (hn : x.cat = .normal) (hc : x.Canonical) (hsmall : x.exp < 0) :
    x.mag < 1 := by
  obtain ⟨_, _, _, h4, _⟩ := (Flt.canonical_normal hn).mp hc
  have hm2 : (x.mant : ℚ) < (2:ℚ) ^ x.sem.p := by exact_mod_cast h4
  rw [Flt.mag_eq]
  have hpos : (0:ℚ) < (2:ℚ) ^ (x.exp - ((x.sem.p : ℤ) - 1)) := by positivity
  calc (x.mant : ℚ) * (2:ℚ) ^ (x.exp - ((x.sem.p : ℤ) - 1))
      < (2:ℚ) ^ x.sem.p * (2:ℚ) ^ (x.exp - ((x.sem.p : ℤ) - 1)) :=
        mul_lt_mul_of_pos_right hm2 hpos
    _ = (2:ℚ) ^ (x.exp + 1) := by
        rw [← zpow_natCast, ← zpow_add₀ (by norm_num : (2:ℚ) ≠ 0)]; congr 1; ring
    _ ≤ (2:ℚ) ^ (0:ℤ) := zpow_le_zpow_right₀ (by norm_num) (by omega)
    _ = 1 := zpow_zero _

/-- `|v|` as a positive value -/
theorem absOf_posN {W : Sem} {v : Flt} (hs : v.sem = W) (hn : v.cat = .normal) (hc : v.Canonical) :
    PosN W (absOf v) ∧ (absOf v).mag = v.mag := by
  unfold absOf
  by_cases hsg : v.sign = true
  · rw [if_pos hsg]
    refine ⟨⟨hs, C01.canonical_neg hc, hn, ?_⟩, rfl⟩
    show (!v.sign) = false
    rw [hsg]; rfl
  · rw [if_neg hsg]
    exact ⟨⟨hs, hc, hn, by simpa using hsg⟩, rfl⟩

/-- **`sinFuel` for a normal operand with `|x| < 1`**: the result is the nearest rounding
    (to the format of `x`, sign of `x`) of a rational `q ∈ (0, 1]` whose relative distance to
    `sin |x|` is at most `2^-(p+6)` -/
theorem sin_small_core (x : Flt) (hF : x.sem.WF) (hp : 8 ≤ x.sem.p)
    (hdom : x.sem.p ≤ 2 ^ (x.sem.e - 1) - 2) (hrm : x.sem.rm = .nte ∨ x.sem.rm = .nta)
    (hc : x.Canonical) (hn : x.cat = .normal) (hsmall : x.exp < 0) (fuel : Nat) :
    ∃ (r : Flt) (q : ℚ), x.sinFuel fuel = some r ∧ (r.cat = .normal ∨ r.cat = .zero) ∧
      r.sign = x.sign ∧ r.Canonical ∧ r.sem = x.sem ∧
      r.val = (if x.sign then -1 else 1) * rq x.sem x.sem.rm q ∧ 0 < q ∧ q ≤ 1 ∧
      0 < x.mag ∧ x.mag < 1 ∧
      |((q : ℚ) : ℝ) - Real.sin ((x.mag : ℚ) : ℝ)| ≤
        (((2:ℚ) ^ (-(x.sem.p:ℤ) - 6) : ℚ) : ℝ) * Real.sin ((x.mag : ℚ) : ℝ) := by
  have hW : (sinW x.sem).WF := Sem.wide_WF hF 12 4
  have S := sinW_ctx x.sem hF hp hdom hrm
  have hu0 := RelErr.u_pos (sinW x.sem)
  -- the widened operand
  obtain ⟨a1, a2, a3, a4, a5⟩ := C06.widen_lossless_normal x (sinW x.sem) .none
    (by rw [sinW_e]; omega) (by rw [sinW_p]; omega) hF hW hn hc
  set v0 := x.castWithRm (sinW x.sem) .none with hv0
  obtain ⟨hPos, hmag⟩ := absOf_posN a1 a2 a3
  rw [a5] at hmag
  have hX0 : 0 < x.mag := Flt.mag_pos x hn hc
  have hX1 : x.mag < 1 := mag_lt_one hn hc hsmall
  -- the steps
  set k := x.sem.logPrecision * 4 with hk
  have hbud := sin_budget x.sem hp
  have hK : ((3 * Nat.max 50 (sinW x.sem).p + 12 * k : ℕ) : ℚ) * u (sinW x.sem) ≤ 1/64 := by
    refine le_trans hbud ?_
    calc (2:ℚ) ^ (-(x.sem.p:ℤ) - 6) ≤ (2:ℚ) ^ (-6:ℤ) := zpow_le_zpow_right₀ (by norm_num) (by omega)
      _ = 1/64 := by norm_num
  obtain ⟨hL4, _, _⟩ := logPrec_bounds hp
  have hLeq := logPrecision_eq hp
  have hk16 : 3 ≤ k := by omega
  have h16 : x.mag * 16 ≤ 3 ^ k := by
    have : (3:ℚ) ^ 3 ≤ 3 ^ k := pow_le_pow_right₀ (by norm_num) hk16
    norm_num at this; linarith
  have hlo : sinLo x.sem * 4 ^ k ≤ x.mag := by
    have h1 := (C10.mag_bounds x hn hc).1
    have e : sinLo x.sem * 4 ^ k = (2:ℚ) ^ (x.sem.emin - ((x.sem.p:ℤ) - 1)) := by
      unfold sinLo
      have : (4:ℚ) ^ k = (2:ℚ) ^ ((8 * x.sem.logPrecision : ℕ) : ℤ) := by
        rw [zpow_natCast, show (4:ℚ) = 2 ^ 2 by norm_num, ← pow_mul, hk]; congr 1; ring
      rw [this, ← zpow_add₀ (by norm_num : (2:ℚ) ≠ 0)]
      congr 1; push_cast; ring
    rw [e]; exact h1
  obtain ⟨hres, herr⟩ := sinStep4_acc S k hK k (absOf v0) (le_refl _) hPos
    (by rw [hmag]; linarith) (by rw [hmag]; exact h16) (by rw [hmag]; exact hlo)
  rw [hmag] at herr
  set res := sinStep4 k (absOf v0) with hresdef
  have hq0 := hres.mag_pos
  -- the bound `q ≤ 1`
  have hXr0 : (0:ℝ) ≤ ((x.mag : ℚ) : ℝ) := by exact_mod_cast le_of_lt hX0
  have hXr1 : ((x.mag : ℚ) : ℝ) ≤ 1 := by exact_mod_cast le_of_lt hX1
  have hsin := sin_le_unit hXr0 hXr1
  have hsin0 : 0 ≤ Real.sin ((x.mag : ℚ) : ℝ) := by
    have := sin_lower hXr0 hXr1; linarith
  have hεr : ((((3 * Nat.max 50 (sinW x.sem).p + 12 * k : ℕ) : ℚ) * u (sinW x.sem) : ℚ) : ℝ) ≤
      (((2:ℚ) ^ (-(x.sem.p:ℤ) - 6) : ℚ) : ℝ) := by exact_mod_cast hbud
  have hε64 : (((2:ℚ) ^ (-(x.sem.p:ℤ) - 6) : ℚ) : ℝ) ≤ 1/64 := by
    have : (2:ℚ) ^ (-(x.sem.p:ℤ) - 6) ≤ 1/64 := by
      calc (2:ℚ) ^ (-(x.sem.p:ℤ) - 6) ≤ (2:ℚ) ^ (-6:ℤ) :=
            zpow_le_zpow_right₀ (by norm_num) (by omega)
        _ = 1/64 := by norm_num
    have := (Rat.cast_le (K := ℝ)).mpr this
    push_cast at this ⊢; linarith
  have herr' : |((res.mag : ℚ) : ℝ) - Real.sin ((x.mag : ℚ) : ℝ)| ≤
      (((2:ℚ) ^ (-(x.sem.p:ℤ) - 6) : ℚ) : ℝ) * Real.sin ((x.mag : ℚ) : ℝ) :=
    le_trans herr (mul_le_mul_of_nonneg_right hεr hsin0)
  have hq1 : res.mag ≤ 1 := by
    have h2 := (abs_le.mp herr').2
    have h3 : (((2:ℚ) ^ (-(x.sem.p:ℤ) - 6) : ℚ) : ℝ) * Real.sin ((x.mag : ℚ) : ℝ) ≤
        1/64 * Real.sin ((x.mag : ℚ) : ℝ) := mul_le_mul_of_nonneg_right hε64 hsin0
    have : ((res.mag : ℚ) : ℝ) ≤ 1 := by linarith
    exact_mod_cast this
  -- the signed working-format result
  set y := (if v0.sign then res.neg else res) with hy
  have hy_sem : y.sem = sinW x.sem := by
    rw [hy]; split
    · exact hres.sem
    · exact hres.sem
  have hy_cat : y.cat = .normal := by
    rw [hy]; split
    · exact hres.cat
    · exact hres.cat
  have hy_can : y.Canonical := by
    rw [hy]; split
    · exact C01.canonical_neg hres.can
    · exact hres.can
  have hy_mag : y.mag = res.mag := by
    rw [hy]; split <;> rfl
  have hy_sign : y.sign = x.sign := by
    rw [hy, ← a4]
    cases hsg : v0.sign
    · simp only [Bool.false_eq_true, if_false]; exact hres.sign
    · simp only [if_true]
      show (!res.sign) = true
      rw [hres.sign]; rfl
  -- `sinFuel`
  have hfuel : x.sinFuel fuel = some (y.castWithRm x.sem x.sem.rm) := by
    rw [sinFuel_normal fuel x hn]
    have hd : decide (x.exp < 0) = true := by simp [hsmall]
    rw [hd]
    unfold sinTail sinRed finishWith
    simp only [Bool.not_true, Bool.false_eq_true, if_false, Option.map_some]
    show some (Flt.cast y x.sem) = _
    unfold Flt.cast
    rw [hy_sem, sinW_rm]
  -- the final cast
  have hmaxF : (1:ℚ) ≤ maxFinite x.sem := by
    have hp1 : 1 ≤ x.sem.p := by omega
    have h1 := pow_emax_le_maxFinite (F := x.sem) hp1
    have h2 : (2:ℚ) ^ (0:ℤ) ≤ (2:ℚ) ^ x.sem.emax :=
      zpow_le_zpow_right₀ (by norm_num) (by have := Sem.emax_pos hF; omega)
    rw [zpow_zero] at h2; linarith
  obtain ⟨c1, c2, c3, c4, c5⟩ := cast_signed hF hrm (by rw [hy_sem]; exact hW) hy_can hy_cat
    (by rw [hy_mag]; linarith)
  rw [hy_sign, hy_mag] at c5
  exact ⟨_, res.mag, hfuel, c1, c2.trans hy_sign, c3, c4, c5, hq0, hq1, hX0, hX1, herr'⟩

/-! ## the working format of `cos` and its error budget -/

/-- the working format of `cos` -/
def cosW (F : Sem) : Sem := (F.growLog 14).increaseExponent 4

theorem cosW_p (F : Sem) : (cosW F).p = F.p + 14 + F.logPrecision := rfl
theorem cosW_e (F : Sem) : (cosW F).e = F.e + 4 := rfl
theorem cosW_rm (F : Sem) : (cosW F).rm = F.rm := rfl

theorem cosW_emin {F : Sem} (hF : F.WF) : (cosW F).emin = 16 * F.emin - 30 := by
  rw [Sem.emin_eq, Sem.emin_eq, cosW_e]
  have : F.e + 4 - 1 = (F.e - 1) + 4 := by have := hF.1; omega
  rw [this, Nat.pow_add]
  push_cast; ring

theorem cosW_emax {F : Sem} (hF : F.WF) : (cosW F).emax = 31 - 16 * F.emin := by
  rw [Sem.emax_eq (by rw [cosW_e]; omega), Sem.emin_eq, cosW_e]
  have : F.e + 4 - 1 = (F.e - 1) + 4 := by have := hF.1; omega
  rw [this, Nat.pow_add]
  push_cast; ring

/-- number of halvings / double-angle steps of `cos` -/
def cosSteps (F : Sem) : ℕ := ((cosW F).logPrecision * 8) / 10

/-- an iteration index by which the Taylor loop of `cos` has stopped -/
def cosJs (F : Sem) : ℕ := ((cosW F).p + 6) / (2 * cosSteps F) + 1

/-- the smallest argument that reaches the Taylor stage of `cos` -/
def cosLo (F : Sem) : ℚ := (2:ℚ) ^ (F.emin - ((F.p:ℤ) - 1) - 2 * (cosSteps F : ℤ))

/-- the arithmetic check behind the error budget of `cos`, on natural numbers:
    `(4 + 1/256)^k·(Js + 6)·2^(1-p_W) ≤ 2^-(p+2)` -/
def cosBudgetNat (p : Nat) : Bool :=
  let L := Nat.log2 p + 1
  let pW := p + 14 + L
  let Lw := Nat.log2 pW + 1
  let k := Lw * 8 / 10
  let Js := (pW + 6) / (2 * k) + 1
  decide (1025 ^ k * (Js + 6) * 2 ^ (p + 3) ≤ 256 ^ k * 2 ^ pW)

set_option maxRecDepth 100000 in
set_option exponentiation.threshold 4000 in
/-- the budget closes for every precision from `8` to `488` bits (it fails at `p = 489`, where
    the working precision reaches `512` bits and one more double-angle step is taken) -/
theorem cosBudget_all : ∀ p, p < 489 → 8 ≤ p → cosBudgetNat p = true := by decide

set_option exponentiation.threshold 4000 in
theorem cosBudget_489 : cosBudgetNat 489 = false := by decide

theorem cos_logPrec {F : Sem} (hp : 8 ≤ F.p) :
    (cosW F).logPrecision = Nat.log2 (F.p + 14 + (Nat.log2 F.p + 1)) + 1 := by
  unfold Sem.logPrecision
  rw [cosW_p, if_neg (by omega), logPrecision_eq hp]

/-- the number of steps is between 4 and `bitlen(p) + 2` -/
theorem cosSteps_bounds {F : Sem} (hp : 8 ≤ F.p) :
    4 ≤ cosSteps F ∧ cosSteps F ≤ F.logPrecision + 2 := by
  obtain ⟨hL4, hL1, hL2⟩ := logPrec_bounds hp
  have hLeq := logPrecision_eq hp
  unfold cosSteps
  rw [cos_logPrec hp]
  set L := Nat.log2 F.p + 1 with hL
  have hpW0 : F.p + 14 + L ≠ 0 := by omega
  have h1 : 4 ≤ Nat.log2 (F.p + 14 + L) := (Nat.le_log2 hpW0).mpr (by norm_num; omega)
  have h2 : Nat.log2 (F.p + 14 + L) < L + 2 := by
    rw [Nat.log2_lt hpW0]
    have hpL : F.p < 2 ^ L := hL2
    have h16 : 16 ≤ 2 ^ L := by
      calc 16 = 2 ^ 4 := by norm_num
        _ ≤ 2 ^ L := Nat.pow_le_pow_right (by norm_num) hL4
    have hLlt : L < 2 ^ L := Nat.lt_two_pow_self
    rw [Nat.pow_add]
    generalize 2 ^ L = T at *
    omega
  rw [hLeq]
  constructor <;> omega

/-- the working format satisfies the hypotheses of the analysis -/
theorem cosW_ctx (F : Sem) (hF : F.WF) (hp : 8 ≤ F.p) (hdom : F.p ≤ 2 ^ (F.e - 1) - 2)
    (hrm : F.rm = .nte ∨ F.rm = .nta) : SCtx (cosW F) (cosLo F) := by
  obtain ⟨hL4, hL1, hL2⟩ := logPrec_bounds hp
  have hLeq := logPrecision_eq hp
  obtain ⟨hk4, hkL⟩ := cosSteps_bounds hp
  set k := cosSteps F with hk
  set L := F.logPrecision with hLdef
  have hL4' : 4 ≤ L := by omega
  have hLp : 2 ^ (L - 1) ≤ F.p := by rw [hLeq]; simpa using hL1
  have h24 := num_24L L hL4'
  have hemin : F.emin = 2 - ((2 ^ (F.e - 1) : ℕ) : ℤ) := Sem.emin_eq F
  have hWemin := cosW_emin hF
  have hWemax := cosW_emax hF
  have hB : (F.p : ℤ) + 2 ≤ ((2 ^ (F.e - 1) : ℕ) : ℤ) := by
    have : F.p + 2 ≤ 2 ^ (F.e - 1) := by omega
    exact_mod_cast this
  have hLle : (L:ℤ) ≤ (F.p:ℤ) := by
    have : L ≤ F.p := by
      have h1 : L - 1 < 2 ^ (L - 1) := Nat.lt_two_pow_self
      omega
    exact_mod_cast this
  have h24' : 24 * (L:ℤ) ≤ 10 * (F.p:ℤ) + 23 := by
    have : 24 * L ≤ 10 * F.p + 23 := by omega
    exact_mod_cast this
  have hkL' : (k:ℤ) ≤ (L:ℤ) + 2 := by exact_mod_cast hkL
  have hWp : ((cosW F).p : ℤ) = (F.p:ℤ) + 14 + (L:ℤ) := by rw [cosW_p]; push_cast; rfl
  refine ⟨Sem.wide_WF hF 14 4, by rw [cosW_rm]; exact hrm, ?_, ?_, ?_, ?_, ?_⟩
  · rw [cosW_p]; omega
  · rw [hWp, hWemax]; omega
  · unfold cosLo; positivity
  · unfold cosLo
    rw [← zpow_natCast, ← zpow_mul]
    apply zpow_le_zpow_right₀ (by norm_num)
    rw [hWemin]; push_cast; omega
  · unfold cosLo delta Sem.ulp RelErr.u
    rw [show (1024:ℚ) = (2:ℚ) ^ (10:ℤ) by norm_num, ← zpow_add₀ (by norm_num : (2:ℚ) ≠ 0),
      ← zpow_add₀ (by norm_num : (2:ℚ) ≠ 0)]
    apply zpow_le_zpow_right₀ (by norm_num)
    rw [hWemin, hWp]; omega

/-- the (computable) bound of the absolute error of the working-format result of `cos`:
    `(4 + 1/256)^k·(Js + 6)·u_W` -/
def cosErrW (F : Sem) : ℚ := Gc ^ cosSteps F * (((cosJs F : ℕ) : ℚ) + 6) * u (cosW F)

/-- **error budget of `cos`**: `(4 + 1/256)^k·(Js + 6)·u_W ≤ 2^-(p+2)` for `8 ≤ p ≤ 488` -/
theorem cos_budget (F : Sem) (hp : 8 ≤ F.p) (hp488 : F.p ≤ 488) :
    cosErrW F ≤ (2:ℚ) ^ (-(F.p:ℤ) - 2) := by
  unfold cosErrW
  have hb := cosBudget_all F.p (by omega) hp
  unfold cosBudgetNat at hb
  simp only [decide_eq_true_eq] at hb
  have hLeq := logPrecision_eq hp
  have hk : cosSteps F = (Nat.log2 (F.p + 14 + (Nat.log2 F.p + 1)) + 1) * 8 / 10 := by
    unfold cosSteps; rw [cos_logPrec hp]
  have hpW : (cosW F).p = F.p + 14 + (Nat.log2 F.p + 1) := by rw [cosW_p, hLeq]
  have hJs : cosJs F = (F.p + 14 + (Nat.log2 F.p + 1) + 6) /
      (2 * ((Nat.log2 (F.p + 14 + (Nat.log2 F.p + 1)) + 1) * 8 / 10)) + 1 := by
    unfold cosJs; rw [hk, hpW]
  rw [← hk, ← hpW] at hb
  have hJs' : (cosW F).p + 6 = F.p + 14 + (Nat.log2 F.p + 1) + 6 := by rw [hpW]
  rw [← hJs', ← hk] at hJs
  rw [← hJs] at hb
  -- cast to ℚ
  have hq : ((1025:ℚ) ^ cosSteps F * (((cosJs F : ℕ) : ℚ) + 6)) * (2:ℚ) ^ (F.p + 3) ≤
      (256:ℚ) ^ cosSteps F * (2:ℚ) ^ (cosW F).p := by exact_mod_cast hb
  have hG : Gc ^ cosSteps F = (1025:ℚ) ^ cosSteps F / (256:ℚ) ^ cosSteps F := by
    unfold Gc; rw [← div_pow]; norm_num
  have h256 : (0:ℚ) < (256:ℚ) ^ cosSteps F := by positivity
  have hu : u (cosW F) = 2 / (2:ℚ) ^ (cosW F).p := by
    unfold RelErr.u
    rw [zpow_sub₀ (by norm_num : (2:ℚ) ≠ 0), zpow_one, zpow_natCast]
  have hr : (2:ℚ) ^ (-(F.p:ℤ) - 2) = 2 / (2:ℚ) ^ (F.p + 3) := by
    rw [show (-(F.p:ℤ) - 2) = 1 - ((F.p + 3 : ℕ) : ℤ) by push_cast; ring,
      zpow_sub₀ (by norm_num : (2:ℚ) ≠ 0), zpow_one, zpow_natCast]
  rw [hG, hu, hr]
  have h2p : (0:ℚ) < (2:ℚ) ^ (cosW F).p := by positivity
  have h2q : (0:ℚ) < (2:ℚ) ^ (F.p + 3) := by positivity
  rw [div_mul_eq_mul_div, div_mul_div_comm, div_le_div_iff₀ (by positivity) h2q]
  nlinarith

/-- the arithmetic check `cosErrW ≤ (3/4)·2^-p` (two-ulp clause), on natural numbers -/
def cosBudgetNat2 (p : Nat) : Bool :=
  let L := Nat.log2 p + 1
  let pW := p + 14 + L
  let Lw := Nat.log2 pW + 1
  let k := Lw * 8 / 10
  let Js := (pW + 6) / (2 * k) + 1
  decide (4 * (1025 ^ k * (Js + 6) * 2 ^ (p + 1)) ≤ 3 * (256 ^ k * 2 ^ pW))

set_option maxRecDepth 1000000 in
set_option exponentiation.threshold 8000 in
/-- the weaker budget closes for every precision from `8` to `2022` bits -/
theorem cosBudget2_all : ∀ p, p < 2023 → 8 ≤ p → cosBudgetNat2 p = true := by decide

/-- **weaker budget of `cos`**: `cosErrW ≤ (3/4)·2^-p` for `8 ≤ p ≤ 2022` -/
theorem cos_budget2 (F : Sem) (hp : 8 ≤ F.p) (hp2022 : F.p ≤ 2022) :
    cosErrW F ≤ 3/4 * (2:ℚ) ^ (-(F.p:ℤ)) := by
  unfold cosErrW
  have hb := cosBudget2_all F.p (by omega) hp
  unfold cosBudgetNat2 at hb
  simp only [decide_eq_true_eq] at hb
  have hLeq := logPrecision_eq hp
  have hk : cosSteps F = (Nat.log2 (F.p + 14 + (Nat.log2 F.p + 1)) + 1) * 8 / 10 := by
    unfold cosSteps; rw [cos_logPrec hp]
  have hpW : (cosW F).p = F.p + 14 + (Nat.log2 F.p + 1) := by rw [cosW_p, hLeq]
  have hJs : cosJs F = (F.p + 14 + (Nat.log2 F.p + 1) + 6) /
      (2 * ((Nat.log2 (F.p + 14 + (Nat.log2 F.p + 1)) + 1) * 8 / 10)) + 1 := by
    unfold cosJs; rw [hk, hpW]
  rw [← hk, ← hpW] at hb
  have hJs' : (cosW F).p + 6 = F.p + 14 + (Nat.log2 F.p + 1) + 6 := by rw [hpW]
  rw [← hJs', ← hk] at hJs
  rw [← hJs] at hb
  have hq : 4 * (((1025:ℚ) ^ cosSteps F * (((cosJs F : ℕ) : ℚ) + 6)) * (2:ℚ) ^ (F.p + 1)) ≤
      3 * ((256:ℚ) ^ cosSteps F * (2:ℚ) ^ (cosW F).p) := by exact_mod_cast hb
  have hG : Gc ^ cosSteps F = (1025:ℚ) ^ cosSteps F / (256:ℚ) ^ cosSteps F := by
    unfold Gc; rw [← div_pow]; norm_num
  have h256 : (0:ℚ) < (256:ℚ) ^ cosSteps F := by positivity
  have hu : u (cosW F) = 2 / (2:ℚ) ^ (cosW F).p := by
    unfold RelErr.u
    rw [zpow_sub₀ (by norm_num : (2:ℚ) ≠ 0), zpow_one, zpow_natCast]
  have hr : (2:ℚ) ^ (-(F.p:ℤ)) = 2 / (2:ℚ) ^ (F.p + 1) := by
    rw [show (-(F.p:ℤ)) = 1 - ((F.p + 1 : ℕ) : ℤ) by push_cast; ring,
      zpow_sub₀ (by norm_num : (2:ℚ) ≠ 0), zpow_one, zpow_natCast]
  rw [hG, hu, hr]
  have h2p : (0:ℚ) < (2:ℚ) ^ (cosW F).p := by positivity
  have h2q : (0:ℚ) < (2:ℚ) ^ (F.p + 1) := by positivity
  rw [div_mul_eq_mul_div, div_mul_div_comm, mul_div_assoc', div_le_div_iff₀ (by positivity) h2q]
  nlinarith

theorem num_pow4 (n : ℕ) (hn : 64 ≤ n) : n ^ 4 * 2 ^ 25 ≤ 2 ^ n := by
  induction n, hn using Nat.le_induction with
  | base => norm_num
  | succ n hn ih =>
    rw [Nat.pow_succ]
    have h1 : (n + 1) ^ 4 ≤ 2 * n ^ 4 := by
      have h64 : (64:ℕ) ≤ n := hn
      have : (n + 1) ^ 4 = n ^ 4 + 4 * n ^ 3 + 6 * n ^ 2 + 4 * n + 1 := by ring
      rw [this]
      have h3 : n ^ 4 = n * n ^ 3 := by ring
      have h2 : n ^ 3 = n * n ^ 2 := by ring
      have hn3 : 64 * n ^ 3 ≤ n ^ 4 := by rw [h3]; exact Nat.mul_le_mul_right _ h64
      have hn2 : 64 * n ^ 2 ≤ n ^ 3 := by rw [h2]; exact Nat.mul_le_mul_right _ h64
      have hn1 : 64 * n ≤ n ^ 2 := by rw [sq]; exact Nat.mul_le_mul_right _ h64
      nlinarith
    calc (n + 1) ^ 4 * 2 ^ 25 ≤ (2 * n ^ 4) * 2 ^ 25 := Nat.mul_le_mul_right _ h1
      _ = (n ^ 4 * 2 ^ 25) * 2 := by ring
      _ ≤ 2 ^ n * 2 := Nat.mul_le_mul_right _ ih

/-- for every precision the working-format error of `cos` is at most `2^-10` (so that the
    second-order terms of the double-angle steps stay negligible) -/
theorem cos_budget_weak (F : Sem) (hp : 8 ≤ F.p) : cosErrW F ≤ 1/1024 := by
  by_cases h488 : F.p ≤ 488
  · refine le_trans (cos_budget F hp h488) ?_
    calc (2:ℚ) ^ (-(F.p:ℤ) - 2) ≤ (2:ℚ) ^ (-10:ℤ) := zpow_le_zpow_right₀ (by norm_num) (by omega)
      _ = 1/1024 := by norm_num
  · obtain ⟨hL4, hL1, hL2⟩ := logPrec_bounds hp
    have hLeq := logPrecision_eq hp
    obtain ⟨hk4, hkL⟩ := cosSteps_bounds hp
    set k := cosSteps F with hk
    set L := F.logPrecision with hLdef
    set pW := (cosW F).p with hpW
    have hpWeq : pW = F.p + 14 + L := cosW_p F
    have h2L : 2 ^ L ≤ 2 * F.p := by
      have : 2 ^ L = 2 * 2 ^ (Nat.log2 F.p) := by rw [hLeq, Nat.pow_succ]; ring
      rw [this]; omega
    -- the natural-number inequality
    have hnat : 8 ^ k * (cosJs F + 6) * 2048 ≤ 2 ^ pW := by
      have h1 : 8 ^ k ≤ 8 ^ (L + 2) := Nat.pow_le_pow_right (by norm_num) hkL
      have h2 : 8 ^ (L + 2) = 64 * (2 ^ L) ^ 3 := by
        rw [Nat.pow_add, show (8:ℕ) = 2 ^ 3 by norm_num, ← Nat.pow_mul, ← Nat.pow_mul]
        ring
      have h3 : (2 ^ L) ^ 3 ≤ (2 * F.p) ^ 3 := Nat.pow_le_pow_left h2L 3
      have hp_le : F.p ≤ pW := by omega
      have h4 : (2 * F.p) ^ 3 ≤ 8 * pW ^ 3 := by
        have : (2 * F.p) ^ 3 = 8 * F.p ^ 3 := by ring
        rw [this]; exact Nat.mul_le_mul_left _ (Nat.pow_le_pow_left hp_le 3)
      have h8k : 8 ^ k ≤ 512 * pW ^ 3 := by
        calc 8 ^ k ≤ 8 ^ (L + 2) := h1
          _ = 64 * (2 ^ L) ^ 3 := h2
          _ ≤ 64 * (8 * pW ^ 3) := Nat.mul_le_mul_left _ (le_trans h3 h4)
          _ = 512 * pW ^ 3 := by ring
      have hJ : cosJs F + 6 ≤ 2 * pW := by
        unfold cosJs
        have := Nat.div_le_self ((cosW F).p + 6) (2 * cosSteps F)
        omega
      have h64 : 64 ≤ pW := by omega
      have hpw := num_pow4 pW h64
      calc 8 ^ k * (cosJs F + 6) * 2048 ≤ (512 * pW ^ 3) * (2 * pW) * 2048 :=
            Nat.mul_le_mul_right _ (Nat.mul_le_mul h8k hJ)
        _ = pW ^ 4 * 2 ^ 21 := by ring
        _ ≤ pW ^ 4 * 2 ^ 25 := Nat.mul_le_mul_left _ (Nat.pow_le_pow_right (by norm_num) (by norm_num))
        _ ≤ 2 ^ pW := hpw
    have hq : (8:ℚ) ^ k * (((cosJs F : ℕ) : ℚ) + 6) * 2048 ≤ (2:ℚ) ^ pW := by exact_mod_cast hnat
    have hG : Gc ^ k ≤ (8:ℚ) ^ k := pow_le_pow_left₀ (by unfold Gc; norm_num) (by unfold Gc; norm_num) k
    have hu : u (cosW F) = 2 / (2:ℚ) ^ pW := by
      unfold RelErr.u
      rw [zpow_sub₀ (by norm_num : (2:ℚ) ≠ 0), zpow_one, zpow_natCast]
    unfold cosErrW
    rw [hu]
    have h2p : (0:ℚ) < (2:ℚ) ^ pW := by positivity
    have hJ0 : (0:ℚ) ≤ ((cosJs F : ℕ) : ℚ) + 6 := by positivity
    rw [mul_div_assoc', div_le_iff₀ h2p]
    have h5 : Gc ^ k * (((cosJs F : ℕ) : ℚ) + 6) ≤ (8:ℚ) ^ k * (((cosJs F : ℕ) : ℚ) + 6) :=
      mul_le_mul_of_nonneg_right hG hJ0
    linarith

/-! ## assembling `cosFuel` on a normal operand of magnitude below one -/

/-- **`cosFuel` for a normal operand with `|x| < 1`**: the result is the nearest rounding (to the
    format of `x`) of a rational `q` whose distance to `cos |x|` is at most `cosErrW` -/
theorem cos_small_core (x : Flt) (hF : x.sem.WF) (hp : 8 ≤ x.sem.p)
    (hdom : x.sem.p ≤ 2 ^ (x.sem.e - 1) - 2) (hrm : x.sem.rm = .nte ∨ x.sem.rm = .nta)
    (hc : x.Canonical) (hn : x.cat = .normal) (hsmall : x.exp < 0) (fuel : Nat) :
    ∃ (r : Flt) (q : ℚ), x.cosFuel fuel = some r ∧ (r.cat = .normal ∨ r.cat = .zero) ∧
      r.sign = false ∧ r.Canonical ∧ r.sem = x.sem ∧
      r.val = rq x.sem x.sem.rm q ∧ 1/4 ≤ q ∧ q ≤ 2 ∧ 0 < x.mag ∧ x.mag < 1 ∧
      |((q : ℚ) : ℝ) - Real.cos ((x.mag : ℚ) : ℝ)| ≤ ((cosErrW x.sem : ℚ) : ℝ) := by
  have hW : (cosW x.sem).WF := Sem.wide_WF hF 14 4
  have S := cosW_ctx x.sem hF hp hdom hrm
  have hu0 := RelErr.u_pos (cosW x.sem)
  obtain ⟨hk4, _⟩ := cosSteps_bounds hp
  -- the widened operand
  obtain ⟨a1, a2, a3, a4, a5⟩ := C06.widen_lossless_normal x (cosW x.sem) .none
    (by rw [cosW_e]; omega) (by rw [cosW_p]; omega) hF hW hn hc
  set v0 := x.castWithRm (cosW x.sem) .none with hv0
  obtain ⟨hPos, hmag⟩ := absOf_posN a1 a2 a3
  rw [a5] at hmag
  have hX0 : 0 < x.mag := Flt.mag_pos x hn hc
  have hX1 : x.mag < 1 := mag_lt_one hn hc hsmall
  -- the parameters
  set k := cosSteps x.sem with hk
  set Js := cosJs x.sem with hJs
  set τ : ℚ := 1 / 2 ^ k with hτ
  have hbud := cos_budget_weak x.sem hp
  have h2k : (0:ℚ) < 2 ^ k := by positivity
  have hτ16 : τ ≤ 1/16 := by
    rw [hτ]
    have : (2:ℚ) ^ 4 ≤ 2 ^ k := pow_le_pow_right₀ (by norm_num) hk4
    rw [div_le_div_iff₀ h2k (by norm_num)]
    norm_num at this ⊢; linarith
  have hτ0 : 0 < τ := by rw [hτ]; positivity
  have hE0 : (0:ℚ) ≤ ((Js:ℚ) + 3) * u (cosW x.sem) := by positivity
  have hJs1 : 1 ≤ Js := by rw [hJs]; unfold cosJs; exact Nat.le_add_left 1 _
  -- the loop has stopped by iteration `Js`
  have hJsk : (cosW x.sem).p + 6 < 2 * k * Js := by
    rw [hJs]; unfold cosJs
    exact Nat.lt_mul_div_succ _ (by omega)
  have hsmallterm : (τ ^ 2) ^ Js < u (cosW x.sem) / 64 := by
    have e1 : (τ ^ 2) ^ Js = 1 / (2:ℚ) ^ (2 * k * Js) := by
      rw [hτ, div_pow, div_pow, one_pow, one_pow, ← pow_mul, ← pow_mul]; congr 2; ring
    have e2 : u (cosW x.sem) / 64 = 1 / (2:ℚ) ^ ((cosW x.sem).p + 5) := by
      unfold RelErr.u
      rw [zpow_sub₀ (by norm_num : (2:ℚ) ≠ 0), zpow_one, zpow_natCast, pow_add]
      field_simp; norm_num
    rw [e1, e2]
    apply one_div_lt_one_div_of_lt (by positivity)
    exact pow_lt_pow_right₀ (by norm_num) (by omega)
  -- the Taylor stage on arguments `≤ τ`
  have hT : ∀ z : Flt, PosN (cosW x.sem) z → cosLo x.sem ≤ z.mag → z.mag ≤ τ →
      PosN (cosW x.sem) (cosTaylor z) ∧
        |(((cosTaylor z).mag : ℚ) : ℝ) - Real.cos ((z.mag : ℚ) : ℝ)| ≤
          ((((Js:ℚ) + 3) * u (cosW x.sem) : ℚ) : ℝ) := by
    intro z hz hzlo hzτ
    obtain ⟨hP, _, h2⟩ := cosTaylor_acc S hz hzlo (le_trans hzτ hτ16)
    refine ⟨hP, h2 Js hJs1 ?_⟩
    have hz0 := hz.mag_pos
    have : (z.mag ^ 2) ^ Js ≤ (τ ^ 2) ^ Js :=
      pow_le_pow_left₀ (by positivity) (pow_le_pow_left₀ (le_of_lt hz0) hzτ 2) Js
    linarith
  have hbud' : Gc ^ k * (((Js:ℚ) + 3) * u (cosW x.sem) + 3 * u (cosW x.sem)) =
      cosErrW x.sem := by
    unfold cosErrW; ring
  have hp10 : cosErrW x.sem ≤ 1/1024 := hbud
  have hK : Gc ^ k * (((Js:ℚ) + 3) * u (cosW x.sem) + 3 * u (cosW x.sem)) ≤ 1/512 := by linarith
  have h2kτ : (2:ℚ) ^ k * τ = 1 := by rw [hτ]; field_simp
  have hlo : cosLo x.sem * 4 ^ k ≤ x.mag := by
    have h1 := (C10.mag_bounds x hn hc).1
    have e : cosLo x.sem * 4 ^ k = (2:ℚ) ^ (x.sem.emin - ((x.sem.p:ℤ) - 1)) := by
      unfold cosLo
      have : (4:ℚ) ^ k = (2:ℚ) ^ ((2 * cosSteps x.sem : ℕ) : ℤ) := by
        rw [zpow_natCast, show (4:ℚ) = 2 ^ 2 by norm_num, ← pow_mul]
      rw [this, ← zpow_add₀ (by norm_num : (2:ℚ) ≠ 0)]
      congr 1; push_cast; ring
    rw [e]; exact h1
  obtain ⟨hres, herr⟩ := cosStep4_acc S k _ τ hE0 hT hK k (absOf v0) (le_refl _) hPos
    (by rw [hmag]; linarith) (by rw [hmag, h2kτ]; linarith) (by rw [hmag]; exact hlo)
  rw [hmag] at herr
  set res := cosStep4 k (absOf v0) with hresdef
  -- the error of the working-format result
  have herr' : |((res.mag : ℚ) : ℝ) - Real.cos ((x.mag : ℚ) : ℝ)| ≤
      ((cosErrW x.sem : ℚ) : ℝ) := by
    have h3 : (0:ℝ) ≤ ((3 * u (cosW x.sem) : ℚ) : ℝ) := by
      have : (0:ℚ) ≤ 3 * u (cosW x.sem) := by linarith
      exact_mod_cast this
    rw [hbud'] at herr
    linarith
  -- bounds of `q`
  have hXr0 : (0:ℝ) ≤ ((x.mag : ℚ) : ℝ) := by exact_mod_cast le_of_lt hX0
  have hXr1 : ((x.mag : ℚ) : ℝ) ≤ 1 := by exact_mod_cast le_of_lt hX1
  have hcos1 : 1/2 ≤ Real.cos ((x.mag : ℚ) : ℝ) := by
    have h := cos_lower ((x.mag : ℚ) : ℝ)
    have : ((x.mag : ℚ) : ℝ) ^ 2 ≤ 1 := by nlinarith
    linarith
  have hcos2 := Real.cos_le_one ((x.mag : ℚ) : ℝ)
  have hpr : ((cosErrW x.sem : ℚ) : ℝ) ≤ 1/1024 := by
    have := (Rat.cast_le (K := ℝ)).mpr hp10
    push_cast at this ⊢; linarith
  obtain ⟨e1, e2⟩ := abs_le.mp herr'
  have hq_lo : 1/4 ≤ res.mag := by
    have : (((1/4 : ℚ)) : ℝ) ≤ ((res.mag : ℚ) : ℝ) := by push_cast; linarith
    exact (Rat.cast_le (K := ℝ)).mp this
  have hq_hi : res.mag ≤ 2 := by
    have : ((res.mag : ℚ) : ℝ) ≤ (((2 : ℚ)) : ℝ) := by push_cast; linarith
    exact (Rat.cast_le (K := ℝ)).mp this
  -- `cosFuel`
  have hfuel : x.cosFuel fuel = some (res.castWithRm x.sem x.sem.rm) := by
    rw [cosFuel_normal fuel x hn]
    have hd : decide (x.exp < 0) = true := by simp [hsmall]
    rw [hd]
    unfold cosTail cosRed
    simp only [Bool.not_true, Bool.false_eq_true, if_false]
    show some (Flt.cast res x.sem) = _
    unfold Flt.cast
    rw [hres.sem, cosW_rm]
  -- the final cast
  have hmaxF : (2:ℚ) ≤ maxFinite x.sem := by
    have hp1 : 1 ≤ x.sem.p := by omega
    have h1 := pow_emax_le_maxFinite (F := x.sem) hp1
    have h2 : (2:ℚ) ^ (1:ℤ) ≤ (2:ℚ) ^ x.sem.emax :=
      zpow_le_zpow_right₀ (by norm_num) (Sem.emax_pos hF)
    rw [zpow_one] at h2; linarith
  obtain ⟨c1, c2, c3, c4, c5⟩ := cast_signed hF hrm (by rw [hres.sem]; exact hW) hres.can hres.cat
    (by linarith)
  rw [hres.sign] at c2 c5
  simp only [Bool.false_eq_true, if_false, one_mul] at c5
  exact ⟨_, res.mag, hfuel, c1, c2, c3, c4, c5, hq_lo, hq_hi, hX0, hX1, herr'⟩

end Arp.TrigErr
