import Arp.Lemmas.LogTaylorFlt
/-!
# Lemmas for the accuracy of `Float::log` — part 5: accuracy of `log_taylor`
-/
namespace Arp.LogErr
open Arp Arp.SpecRound Arp.Ln2 Finset

variable {G : Sem}

theorem castle {a b : ℚ} (h : a ≤ b) : (a:ℝ) ≤ (b:ℝ) := Rat.cast_le.mpr h

/-- the relative error bound of the Taylor stage: `1.01·(max(50,p) + 7)·2^(1-p)` -/
def tau (G : Sem) : ℚ := 101 / 100 * ((Nat.max 50 G.p : ℚ) + 7) * RelErr.u G

theorem half_pow_le_u (G : Sem) {N : ℕ} (hN : G.p ≤ N) : (1 / 2 : ℚ) ^ N ≤ RelErr.u G := by
  have h1 : (1 / 2 : ℚ) ^ N ≤ (1 / 2 : ℚ) ^ G.p :=
    pow_le_pow_of_le_one (by norm_num) (by norm_num) hN
  have h2 : (1 / 2 : ℚ) ^ G.p = (2:ℚ) ^ (-(G.p:ℤ)) := by
    rw [one_div, inv_pow, zpow_neg, zpow_natCast]
  have h3 : (2:ℚ) ^ (-(G.p:ℤ)) ≤ (2:ℚ) ^ (1 - (G.p:ℤ)) :=
    zpow_le_zpow_right₀ (by norm_num) (by omega)
  unfold RelErr.u; linarith

/-- the subnormal truncation errors of the whole loop are below `u·w` -/
theorem delta_small (C : TCtx G) {w : ℚ} (hw : (2:ℚ) ^ (-(G.p:ℤ) - 3) ≤ w) :
    (4 * (Nat.max 50 G.p : ℚ) + 6) * delta G ≤ RelErr.u G * w := by
  have hN : (4 * (Nat.max 50 G.p : ℚ) + 6) ≤ (2:ℚ) ^ G.p := by
    have := le_of_lt C.N_lt
    generalize Nat.max 50 G.p = N at this ⊢
    have h : ((4 * N + 6 : ℕ) : ℚ) ≤ ((2 ^ G.p : ℕ) : ℚ) := Nat.cast_le.mpr this
    push_cast at h; exact h
  have hd : delta G = (2:ℚ) ^ (G.emin - ((G.p:ℤ) - 1)) := rfl
  have hdpos := delta_pos G
  have h1 : (4 * (Nat.max 50 G.p : ℚ) + 6) * delta G ≤ (2:ℚ) ^ G.p * delta G :=
    mul_le_mul_of_nonneg_right hN (le_of_lt hdpos)
  have h2 : (2:ℚ) ^ G.p * delta G = (2:ℚ) ^ (G.emin + 1) := by
    rw [hd, ← zpow_natCast, ← zpow_add₀ (by norm_num : (2:ℚ) ≠ 0)]; congr 1; ring
  have h3 : (2:ℚ) ^ (G.emin + 1) ≤ (2:ℚ) ^ (-2 * (G.p:ℤ) - 2) :=
    zpow_le_zpow_right₀ (by norm_num) (by have := C.lo; omega)
  have h4 : (2:ℚ) ^ (-2 * (G.p:ℤ) - 2) = RelErr.u G * (2:ℚ) ^ (-(G.p:ℤ) - 3) := by
    unfold RelErr.u
    rw [← zpow_add₀ (by norm_num : (2:ℚ) ≠ 0)]; congr 1; ring
  have h5 : RelErr.u G * (2:ℚ) ^ (-(G.p:ℤ) - 3) ≤ RelErr.u G * w :=
    mul_le_mul_of_nonneg_left hw (le_of_lt (RelErr.u_pos G))
  linarith

/-- **accuracy of `log_taylor`, magnitudes**: for `X ∈ [0.998, 1.002]`, `X ≠ 1`, the result is
    `±2v` with `v` within `tau·artanh w` of `artanh w`, `w = |X-1|/(X+1)` -/
theorem logTaylor_core (C : TCtx G) {x : Flt} {X : ℚ} (hx : SV G false x X)
    (hlo : 998 / 1000 ≤ X) (hhi : X ≤ 1002 / 1000) (hne : X ≠ 1) :
    ∃ v : ℚ, SV G (decide (X < 1)) (logTaylor x) (2 * v) ∧ (2:ℚ) ^ (-(G.p:ℤ) - 2) ≤ v ∧ v ≤ 1 ∧
      |(v:ℝ) - At ((|X - 1| / (X + 1) : ℚ) : ℝ)| ≤
        (tau G : ℝ) * At ((|X - 1| / (X + 1) : ℚ) : ℝ) := by
  have hG := C.wf
  have hu0 := RelErr.u_pos G
  have hu1 := C.u_le
  obtain ⟨z, hz, hzrep, hzlo, hz1, hz2⟩ := z_stage C hx hlo hhi hne
  have hsem := hx.sem
  set w := |X - 1| / (X + 1) with hw
  have ha1 : |X - 1| ≤ 2 / 1000 := by rw [abs_le]; constructor <;> linarith
  have ha0 : 0 < |X - 1| := abs_pos.mpr (sub_ne_zero.mpr hne)
  have hw0 : 0 < w := div_pos ha0 (by linarith)
  have hw1 : w ≤ 1 / 300 := by
    rw [hw, div_le_iff₀ (by linarith)]; linarith
  have hz0 : 0 < z := lt_of_lt_of_le (by positivity) hzlo
  have hzhi : z ≤ 1 / 100 := by nlinarith
  obtain ⟨c, hz2sv, hc1, hc2⟩ := sqr_stage C hz hzlo hzhi
  have h13 : (0:ℚ) < 1 - 3 * RelErr.u G := by linarith
  set tp := w / (1 - 3 * RelErr.u G) with htpdef
  have htp : tp * (1 - 3 * RelErr.u G) = w := div_mul_cancel₀ w (ne_of_gt h13)
  have hemin : G.emin ≤ -(G.p:ℤ) - 2 := by have := C.lo; have := C.p22; omega
  have znorm : (2:ℚ) ^ G.emin ≤ z := le_trans (zpow_le_zpow_right₀ (by norm_num) hemin) hzlo
  have D := ldata_of hG hu1 hw0 hw1 htp hz1 hz2 hc1 hc2 hzrep znorm
  obtain ⟨J, v, hv, hS, hJN, hex⟩ := loop_stage C D hz hz2sv
  set N := Nat.max 50 G.p with hNdef
  set tm := (1 - 3 * RelErr.u G) * w with htmdef
  set B := tp / (1 - tp ^ 2) with hBdef
  have hpN : G.p ≤ N := Nat.le_max_right 50 G.p
  -- `(tm²)^N ≤ u`
  have htm0 := D.tm_pos
  have htmle : tm ≤ 1 / 300 := by rw [htmdef]; nlinarith
  have htm2 : tm ^ 2 ≤ 1 / 2 := by nlinarith
  have hNu : (tm ^ 2) ^ N ≤ RelErr.u G :=
    le_trans (pow_le_pow_left₀ (by positivity) htm2 N) (half_pow_le_u G hpN)
  obtain ⟨b1, b2⟩ := sum_bounds D hS hJN hNu hex
  -- the side conditions of `taylor_rel`
  have hwlo : (2:ℚ) ^ (-(G.p:ℤ) - 3) ≤ w := by
    have e : (2:ℚ) ^ (-(G.p:ℤ) - 3) = (2:ℚ) ^ (-(G.p:ℤ) - 2) / 2 := by
      rw [show -(G.p:ℤ) - 3 = (-(G.p:ℤ) - 2) - 1 by ring, zpow_sub₀ (by norm_num : (2:ℚ) ≠ 0)]
      norm_num
    rw [e]
    have hpos : (0:ℚ) < (2:ℚ) ^ (-(G.p:ℤ) - 2) := by positivity
    nlinarith
  have hδ := delta_small C hwlo
  rw [← hNdef] at hδ
  have htp0 := D.tp_pos
  have htp1 := D.tp_le
  have htp2 : tp ^ 2 ≤ 1 / 65536 := by
    have : tp ^ 2 ≤ (1 / 256) ^ 2 := pow_le_pow_left₀ (le_of_lt htp0) htp1 2
    norm_num at this; exact this
  have htpw : tp ≤ 100001 / 100000 * w := by
    have h3utp : 3 * RelErr.u G * tp ≤ 3 / 1000000 * tp := by nlinarith
    nlinarith
  have hB : B ≤ 1001 / 1000 * w := by
    rw [hBdef, div_le_iff₀ (by linarith)]
    have : w * tp ^ 2 ≤ w * (1 / 65536) := mul_le_mul_of_nonneg_left htp2 (le_of_lt hw0)
    nlinarith
  have hvB : v ≤ B := le_trans hS.hi (D.hB J)
  have hB1 : B ≤ 1 := D.B_le
  have key := taylor_rel (u := (RelErr.u G : ℝ)) (w := (w:ℝ)) (v := (v:ℝ)) (δ := (delta G : ℝ))
    (B := (B:ℝ)) (tm := (tm:ℝ)) (tp := (tp:ℝ)) (N := N)
    (by exact_mod_cast hu0) (by have := castle hu1; push_cast at this; exact this)
    (by exact_mod_cast hw0) (by have := castle hw1; push_cast at this; exact this)
    (by rw [htmdef]; push_cast; ring) (by exact_mod_cast htp)
    (by have := castle hδ; push_cast at this; exact this)
    (by have := castle hB; push_cast at this; exact this) (castle hvB) b1 b2
  -- the final doubling
  have hvz : z ≤ v := hS.ge
  have hvlo : (2:ℚ) ^ (-(G.p:ℤ) - 2) ≤ v := le_trans hzlo hvz
  have hvn : (2:ℚ) ^ G.emin ≤ v := le_trans znorm hvz
  have hv1 : v ≤ 1 := le_trans hvB hB1
  have hvhi : v < (2:ℚ) ^ G.emax := by
    have : (2:ℚ) ^ (1:ℤ) ≤ (2:ℚ) ^ G.emax := zpow_le_zpow_right₀ (by norm_num) (by have := C.hi; omega)
    norm_num at this; linarith
  have hres := SV.scale_two hG .zero hv hvn hvhi
  have hdef : logTaylor x = (logTaylorLoop x.sem
      (divWithRm (subWithRm x (Flt.one x.sem false) .none) (addWithRm x (Flt.one x.sem false) .none) .none).sqr
      (Nat.max 50 x.sem.p) 0
      (divWithRm (subWithRm x (Flt.one x.sem false) .none) (addWithRm x (Flt.one x.sem false) .none) .none)
      (Flt.zero x.sem false) (Flt.one x.sem true)).scale 1 .zero := rfl
  rw [hdef, hsem]
  refine ⟨v, hres, hvlo, hv1, ?_⟩
  have e : (tau G : ℝ) = 101 / 100 * ((N:ℝ) + 7) * (RelErr.u G : ℝ) := by
    unfold tau; rw [← hNdef]; push_cast; ring
  rw [e]; exact key

end Arp.LogErr

namespace Arp.LogErr
open Arp Arp.SpecRound Arp.Ln2 Finset

variable {G : Sem}

/-- **Stage 1 — accuracy of `log_taylor`.**  In a working format `G` with at least 22 bits and a
    wide exponent range (`TCtx`), for a canonical positive `x` with `0.998 ≤ x ≤ 1.002`, `x ≠ 1`:
    `log_taylor(x)` is a normal number with the sign of `log x` whose magnitude `r` satisfies
    `|r − |log x|| ≤ tau G · |log x|`, `tau G = 1.01·(max(50,p)+7)·2^(1-p)`: the RELATIVE
    accuracy survives `log x → 0`. -/
theorem logTaylor_accuracy (C : TCtx G) {x : Flt} {X : ℚ} (hx : SV G false x X)
    (hlo : 998 / 1000 ≤ X) (hhi : X ≤ 1002 / 1000) (hne : X ≠ 1) :
    ∃ r : ℚ, SV G (decide (X < 1)) (logTaylor x) r ∧ (2:ℚ) ^ (-(G.p:ℤ) - 1) ≤ r ∧ r ≤ 2 ∧
      |(r:ℝ) - abs (Real.log (X:ℝ))| ≤ (tau G : ℝ) * abs (Real.log (X:ℝ)) := by
  obtain ⟨v, h1, h2, h3, h4⟩ := logTaylor_core C hx hlo hhi hne
  have hX : (0:ℝ) < (X:ℝ) := by
    have : (0:ℚ) < X := by linarith
    exact_mod_cast this
  refine ⟨2 * v, h1, ?_, by linarith, ?_⟩
  · have e : (2:ℚ) ^ (-(G.p:ℤ) - 1) = 2 * (2:ℚ) ^ (-(G.p:ℤ) - 2) := by
      rw [show -(G.p:ℤ) - 1 = (-(G.p:ℤ) - 2) + 1 by ring, zpow_add₀ (by norm_num : (2:ℚ) ≠ 0)]
      norm_num; ring
    rw [e]; linarith
  · rw [abs_log_eq_At hX]
    have e : (((|X - 1| / (X + 1) : ℚ)) : ℝ) = |(X:ℝ) - 1| / ((X:ℝ) + 1) := by push_cast; rfl
    rw [e] at h4
    have e2 : ((2 * v : ℚ) : ℝ) - 2 * At (|(X:ℝ) - 1| / ((X:ℝ) + 1)) =
        2 * ((v:ℝ) - At (|(X:ℝ) - 1| / ((X:ℝ) + 1))) := by push_cast; ring
    rw [e2, abs_mul, abs_of_pos (by norm_num : (0:ℝ) < 2)]
    linarith

end Arp.LogErr
