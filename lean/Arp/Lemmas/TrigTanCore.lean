import Arp.Lemmas.TrigTanBig
/-!
# `tanFuel` for `1 ≤ |x| ≤ 128`: zero reduced argument, final rounding, assembly
-/
namespace Arp.TrigErr
open Arp Arp.SpecRound Arp.RelErr Arp.Ln2 Arp.Sqrt

/-- `tanCore` on a zero reduced argument returns a zero -/
theorem tanCore_zero (F : Sem) (hF : F.WF) (hp : 8 ≤ F.p) (hdom : F.p ≤ 2 ^ (F.e - 1) - 2)
    (hrm : F.rm = .nte ∨ F.rm = .nta) (he17 : F.e ≤ 17) {v : Flt} (hvs : v.sem = tanW F)
    (hvc : v.Canonical) (hvz : v.cat = .zero) (fuel : ℕ) :
    ∃ res, tanCore fuel (tanW F) v = some res ∧ res.cat = .zero := by
  have hW := tanW_WF hF
  have hWemin := tanW_emin hF
  have hWemax := tanW_emax hF
  have hemin : F.emin = 2 - ((2 ^ (F.e - 1) : ℕ) : ℤ) := Sem.emin_eq F
  have hB : (F.p : ℤ) + 2 ≤ ((2 ^ (F.e - 1) : ℕ) : ℤ) := by
    have : F.p + 2 ≤ 2 ^ (F.e - 1) := by omega
    exact_mod_cast this
  obtain ⟨hp1, hp2⟩ := tanW_p_bounds hp
  have hone : IsRep (tanW F) 1 := by
    have := Ln2.isRep_pow2 hW 0 (by have := Sem.emin_le_zero hW; omega)
      (by have := Sem.emax_pos hW; omega)
    simpa using this
  have hmax1 : (1:ℚ) ≤ maxFinite (tanW F) := hone.le_maxFinite
  have hsin : v.sinFuel fuel = some v := by
    unfold Flt.sinFuel
    simp [Flt.isZero, hvz]
  obtain ⟨hzc, hzs⟩ := sqr_canonical v (by rw [hvs]; exact hW) hvc
  have hzcat : v.sqr.cat = .zero := powi2_zero_cat hvz
  have hznn : NN (tanW F) v.sqr 0 :=
    ⟨hzs.trans hvs, hzc, Or.inr hzcat, fun h => by rw [hzcat] at h; exact absurd h (by decide),
      Flt.val_zero hzcat⟩
  have hd_nn := nn_sub hW (tanW F).rm (one_nn hW) hznn (by norm_num) (by linarith)
  rw [sub_zero, rq_rep hW hone] at hd_nn
  obtain ⟨hdP, hdmag⟩ := posN_of_nn hd_nn (by norm_num)
  obtain ⟨h1P, h1mag⟩ := posN_of_nn (one_nn hW) (by norm_num)
  set dF := subWithRm (Flt.one (tanW F) false) v.sqr (tanW F).rm with hdF
  have hfuelB : (2 * dF.sem.emax - dF.sem.emin).toNat + 2 * dF.sem.p + 20 ≤ innerFuel := by
    rw [hdP.sem, hWemax, hWemin]
    have hpow : 2 ^ (F.e - 1) ≤ 2 ^ 16 := Nat.pow_le_pow_right (by norm_num) (by omega)
    have hpowz : ((2 ^ (F.e - 1) : ℕ) : ℤ) ≤ 65536 := by exact_mod_cast hpow
    unfold innerFuel
    generalize ((2 ^ (F.e - 1) : ℕ) : ℤ) = B at *
    omega
  obtain ⟨b, hsqrt⟩ := sqrt_fuel_linear (x := dF) (by rw [hdP.sem]; exact hW)
    (by rw [hdP.sem]; exact hdP) hfuelB
  have hb1 : b = Flt.one (tanW F) false :=
    C12.sqrt_perfect_square dF (Flt.one (tanW F) false) innerFuel (by rw [hdP.sem]; exact hW)
      hdP.can hdP.cat hdP.sign (by rw [hdP.sem, tanW_rm]; exact hrm) (by rw [hdP.sem]; rfl)
      h1P.can h1P.cat h1P.sign (by rw [hdmag, h1mag]; norm_num) b hsqrt
  refine ⟨divWithRm v (Flt.one (tanW F) false) (tanW F).rm, ?_, divWithRm_zero_cat _ hvz h1P.cat⟩
  unfold tanCore
  rw [hsin]
  simp only
  have h1 : ((Flt.one (tanW F) false).sub v.sqr).sqrtM = some b := hsqrt
  rw [h1, hb1]
  simp only
  unfold Flt.div
  rw [hvs]

/-- the final rounding of a signed value `S`, `|S| ≤ 128`, with a relative error `≤ 2^-(p+6)` and an
absolute error `a` of the working-format value -/
theorem final_round_gen {F : Sem} (hF : F.WF) {rm : RM} (hrm : rm = .nte ∨ rm = .nta)
    (hemax : 9 ≤ F.emax) {q : ℚ} {S a Erel : ℝ} (hq0 : 0 ≤ q) (hq2 : q ≤ 128) (hS1 : |S| ≤ 128)
    (hE0 : 0 ≤ Erel) (hE : Erel ≤ (2:ℝ) ^ (-(F.p:ℤ) - 6)) (ha0 : 0 ≤ a)
    (herr : |((q : ℚ) : ℝ) - S| ≤ Erel * |S| + a) (Eb : ℤ) (hEb : |S| < (2:ℝ) ^ (Eb + 1)) :
    |((rq F rm q : ℚ) : ℝ) - S| ≤ max ((2:ℝ) ^ (max Eb F.emin - ((F.p:ℤ) - 1))) (4 * a) := by
  have hp1 : 1 ≤ F.p := by have := hF.2; omega
  have hemin0 := Sem.emin_le_zero hF
  set T : ℝ := (2:ℝ) ^ (-(F.p:ℤ) - 6) with hT
  have hT0 : 0 < T := by rw [hT]; positivity
  have hT6 : T ≤ 1/64 := by
    calc T ≤ (2:ℝ) ^ (-6:ℤ) := zpow_le_zpow_right₀ (by norm_num) (by omega)
      _ = 1/64 := by norm_num
  rcases eq_or_lt_of_le hq0 with hq00 | hqpos
  · subst hq00
    rw [rq_zero]
    refine le_trans ?_ (le_max_right _ _)
    simp only [Rat.cast_zero, zero_sub, abs_neg] at herr ⊢
    have h1 : Erel * |S| ≤ 1/64 * |S| := mul_le_mul_of_nonneg_right (by linarith) (abs_nonneg _)
    have h3 := abs_nonneg S
    linarith
  set Es : ℤ := min (max Eb (F.emin - (F.p:ℤ))) 7 with hEs
  have hEs0 : Es ≤ 7 := min_le_right _ _
  have hEslo : F.emin - (F.p:ℤ) ≤ Es := le_min (le_max_right _ _) (by omega)
  have hSlt : |S| < (2:ℝ) ^ (Es + 1) := by
    by_cases h0 : max Eb (F.emin - (F.p:ℤ)) ≤ 7
    · rw [hEs, min_eq_left h0]
      exact lt_of_lt_of_le hEb (zpow_le_zpow_right₀ (by norm_num)
        (by have := le_max_left Eb (F.emin - (F.p:ℤ)); omega))
    · rw [hEs, min_eq_right (by omega)]
      norm_num; linarith
  have hmaxle : max Es F.emin ≤ max Eb F.emin := by
    rcases le_total Eb F.emin with h | h
    · rw [max_eq_right h]
      apply max_le _ (le_refl _)
      calc Es ≤ max Eb (F.emin - (F.p:ℤ)) := min_le_left _ _
        _ ≤ F.emin := max_le h (by omega)
    · rw [max_eq_left h]
      apply max_le _ h
      calc Es ≤ max Eb (F.emin - (F.p:ℤ)) := min_le_left _ _
        _ ≤ Eb := max_le (le_refl _) (by omega)
  set U : ℝ := (2:ℝ) ^ (max Es F.emin - ((F.p:ℤ) - 1)) with hU
  have hU0 : 0 < U := by rw [hU]; positivity
  have hUle : U ≤ (2:ℝ) ^ (max Eb F.emin - ((F.p:ℤ) - 1)) :=
    zpow_le_zpow_right₀ (by norm_num) (by omega)
  have hη : Erel * |S| + a ≤ U / 64 + a := by
    have h1 : Erel * |S| ≤ T * (2:ℝ) ^ (Es + 1) :=
      mul_le_mul hE (le_of_lt hSlt) (abs_nonneg _) (le_of_lt hT0)
    have h2 : T * (2:ℝ) ^ (Es + 1) = (2:ℝ) ^ (Es - ((F.p:ℤ) - 1)) / 64 := by
      rw [hT, ← zpow_add₀ (by norm_num : (2:ℝ) ≠ 0),
        show (-(F.p:ℤ) - 6) + (Es + 1) = (Es - ((F.p:ℤ) - 1)) + (-6) by ring,
        zpow_add₀ (by norm_num : (2:ℝ) ≠ 0)]
      norm_num; ring
    have h3 : (2:ℝ) ^ (Es - ((F.p:ℤ) - 1)) ≤ U :=
      zpow_le_zpow_right₀ (by norm_num) (by have := le_max_left Es F.emin; omega)
    linarith
  have hmaxF : q ≤ maxFinite F := by
    have h1 := pow_emax_le_maxFinite (F := F) hp1
    have h2 : (2:ℚ) ^ (7:ℤ) ≤ (2:ℚ) ^ F.emax :=
      zpow_le_zpow_right₀ (by norm_num) (by omega)
    norm_num at h2; linarith
  have hS' : S < (2:ℝ) ^ (Es + 1) := lt_of_le_of_lt (le_abs_self S) hSlt
  have hcn := cast_near2 hF hrm hqpos hmaxF Es hS' (by omega) (by omega) herr
  have hulp : ((F.ulp (max Es F.emin) : ℚ) : ℝ) = U := by
    unfold Sem.ulp; push_cast; rfl
  rw [hulp] at hcn
  refine le_trans hcn ?_
  by_cases hUT : a ≤ 31/64 * U
  · refine le_trans ?_ (le_trans hUle (le_max_left _ _))
    apply max_le <;> linarith
  · refine le_trans ?_ (le_max_right _ _)
    have : 31/64 * U < a := not_le.mp hUT
    apply max_le <;> linarith

/-- **`tanFuel` for `1 ≤ |x| ≤ 128`, `|cos x| ≥ 1/65`** (given `π` in the working formats of `tan`
and of the nested `sin`): the result is the rounding of `q` with the sign `neg`, where `q` is
within `2^-(p+6)·|T| + 2^(4-2p)` of `T = ± tan |x|`. -/
theorem tan_big_core (x : Flt) (hF : x.sem.WF) (hp : 8 ≤ x.sem.p)
    (hdom : x.sem.p ≤ 2 ^ (x.sem.e - 1) - 2) (he17 : x.sem.e ≤ 17)
    (hrm : x.sem.rm = .nte ∨ x.sem.rm = .nta)
    (hc : x.Canonical) (hn : x.cat = .normal) (hbig : 0 ≤ x.exp) (h128 : x.mag ≤ 128)
    (hcos : 1/65 ≤ |Real.cos ((x.mag : ℚ) : ℝ)|)
    {fuel0 : ℕ} (hpi1 : PiOKAt (tanW x.sem) fuel0) (hpi2 : PiOKAt (sinW (tanW x.sem)) fuel0)
    (fuel : ℕ) (hfuel : fuel0 ≤ fuel) :
    ∃ (r : Flt) (q : ℚ) (neg : Bool) (T : ℝ), x.tanFuel fuel = some r ∧
      (r.cat = .normal ∨ r.cat = .zero) ∧ r.Canonical ∧ r.sem = x.sem ∧
      r.val = (if neg then -1 else 1) * rq x.sem x.sem.rm q ∧ 0 ≤ q ∧ q ≤ 128 ∧
      Real.tan ((x.mag : ℚ) : ℝ) = (if neg = x.sign then 1 else -1) * T ∧ |T| ≤ 128 ∧
      |((q : ℚ) : ℝ) - T| ≤ (2:ℝ) ^ (-(x.sem.p:ℤ) - 6) * |T| + (2:ℝ) ^ (4 - 2 * (x.sem.p:ℤ)) := by
  have hW : (tanW x.sem).WF := tanW_WF hF
  have S' := tanW_ctx x.sem hF hp hdom hrm
  have hWemin := tanW_emin hF
  have hemin : x.sem.emin = 2 - ((2 ^ (x.sem.e - 1) : ℕ) : ℤ) := Sem.emin_eq x.sem
  have hB : (x.sem.p : ℤ) + 2 ≤ ((2 ^ (x.sem.e - 1) : ℕ) : ℤ) := by
    have : x.sem.p + 2 ≤ 2 ^ (x.sem.e - 1) := by omega
    exact_mod_cast this
  obtain ⟨hp1, hp2⟩ := tanW_p_bounds hp
  have hpow : 2 ^ (x.sem.e - 1) ≤ 2 ^ 16 := Nat.pow_le_pow_right (by norm_num) (by omega)
  obtain ⟨pi, hpiH, hpifuel⟩ := hpi1.piHat hW
  obtain ⟨a1, a2, a3, a4, a5⟩ := C06.widen_lossless_normal x (tanW x.sem) .none
    (by rw [tanW_e]; omega) (by omega) hF hW hn hc
  set v0 := x.castWithRm (tanW x.sem) .none with hv0
  obtain ⟨hPos, hmag⟩ := absOf_posN a1 a2 a3
  rw [a5] at hmag
  have hemin8 : x.sem.emin ≤ -8 := by
    have h2 : 10 ≤ 2 ^ (x.sem.e - 1) := by omega
    have : (10:ℤ) ≤ ((2 ^ (x.sem.e - 1) : ℕ) : ℤ) := by exact_mod_cast h2
    omega
  have hemax : 9 ≤ x.sem.emax := by have := Sqrt.emin_add_emax hF; omega
  have hX1 : 1 ≤ x.mag := one_le_mag hF (by omega) hn hc hbig
  have hfuelrem : (tanW x.sem).p + 10 ≤ innerFuel := by unfold innerFuel; omega
  obtain ⟨v4, neg, θq, hred, hv4, hθfix, hθ0, hθ85, θ, hθerr, htan, hθlo, hθhi, hcosθ⟩ :=
    tan_reduce hW S'.p24 S'.pemax hfuelrem hpiH hPos (by rw [hmag]; exact hX1)
      (by rw [hmag]; exact h128) v0.sign
  rw [hmag] at htan hcosθ
  rw [a4] at htan
  -- `tanFuel`
  have hfuelEq : x.tanFuel fuel =
      (tanCore fuel (tanW x.sem) v4).map (fun res => (if neg then res.neg else res).cast x.sem) := by
    rw [tanFuel_normal fuel x hn]
    have hd : decide (x.exp < 0) = false := by simp; omega
    rw [hd]
    unfold tanTail
    have hpf : piFuel fuel (((x.sem.increasePrecision x.sem.p).growLog 12).increaseExponent 4) =
        some pi := hpifuel fuel hfuel
    have hred' : tanRedCore pi
        (absOf (x.castWithRm (((x.sem.increasePrecision x.sem.p).growLog 12).increaseExponent 4)
          .none))
        (x.castWithRm (((x.sem.increasePrecision x.sem.p).growLog 12).increaseExponent 4)
          .none).sign = some (v4, neg) := hred
    rw [tanRed_big, hpf]
    simp only
    rw [hred']
    rfl
  -- the angle
  set ε : ℝ := (2:ℝ) ^ (-((tanW x.sem).p:ℤ)) with hε
  have hε0 : 0 < ε := by rw [hε]; positivity
  have hε32 : ε ≤ (2:ℝ) ^ (-(2 * (x.sem.p:ℤ)) - 16) := by
    rw [hε]; exact zpow_le_zpow_right₀ (by norm_num) (by omega)
  have hε32' : ε ≤ 1 / 2 ^ 32 := by
    calc ε ≤ (2:ℝ) ^ (-32:ℤ) := by
          rw [hε]; exact zpow_le_zpow_right₀ (by norm_num) (by omega)
      _ = 1 / 2 ^ 32 := by norm_num
  set δ : ℝ := 200 * ε with hδ
  have hδ0 : 0 ≤ δ := by rw [hδ]; positivity
  have hδ5 : δ ≤ 1/100000 := by rw [hδ]; norm_num at hε32' ⊢; linarith
  obtain ⟨hc65, hc66, hlip⟩ := tan_angle hδ0 hδ5 hθerr hθlo hθhi (by rw [← hcosθ]; exact hcos)
  set T : ℝ := Real.tan θ with hT
  have hT128 : |T| ≤ 128 := by
    rw [hT, Real.tan_eq_sin_div_cos, abs_div, abs_of_pos (by linarith : 0 < Real.cos θ),
      div_le_iff₀ (by linarith)]
    have := Real.abs_sin_le_one θ
    nlinarith
  -- the absolute part of the error
  set A : ℝ := (2:ℝ) ^ (4 - 2 * (x.sem.p:ℤ)) with hA
  have hA0 : 0 < A := by rw [hA]; positivity
  have hεA : 1048576 * ε ≤ A := by
    have e : A = 1048576 * (2:ℝ) ^ (-(2 * (x.sem.p:ℤ)) - 16) := by
      rw [hA, show (4 - 2 * (x.sem.p:ℤ)) = (-(2 * (x.sem.p:ℤ)) - 16) + 20 by ring,
        zpow_add₀ (by norm_num : (2:ℝ) ≠ 0)]
      norm_num; ring
    rw [e]; linarith
  set E6 : ℝ := (2:ℝ) ^ (-(x.sem.p:ℤ) - 6) with hE6
  have hE60 : 0 < E6 := by rw [hE6]; positivity
  have hE61 : E6 ≤ 1/64 := by
    calc E6 ≤ (2:ℝ) ^ (-6:ℤ) := zpow_le_zpow_right₀ (by norm_num) (by omega)
      _ = 1/64 := by norm_num
  rcases eq_or_lt_of_le hθ0 with hz | hpos
  · -- a zero reduced argument
    have hv4z : v4.cat = .zero := by
      rcases hv4.fin with h | h
      · have := nn_val_pos_normal hv4 h; linarith
      · exact h
    obtain ⟨res, hcore, hresz⟩ := tanCore_zero x.sem hF hp hdom hrm he17 hv4.sem hv4.can hv4z fuel
    rw [hcore] at hfuelEq
    simp only [Option.map_some] at hfuelEq
    set y := (if neg then res.neg else res) with hy
    have hycat : y.cat = .zero := by
      rw [hy]; split <;> exact hresz
    have hyz : y.cat ≠ .normal := by rw [hycat]; decide
    obtain ⟨c1, c2, c3, c4⟩ := C06.cast_special_canonical y x.sem y.sem.rm hyz
    have hrcat : (y.cast x.sem).cat = .zero := by
      show (y.castWithRm x.sem y.sem.rm).cat = .zero
      rw [c2, hycat]
    refine ⟨y.cast x.sem, 0, neg, T, hfuelEq, Or.inr hrcat, c1, c4, ?_, le_refl _, by norm_num,
      htan, hT128, ?_⟩
    · rw [Flt.val_zero hrcat, rq_zero, mul_zero]
    · have hθabs : |θ| ≤ δ := by
        rw [← hz] at hθerr
        simpa [abs_neg] using hθerr
      have := tan_tiny (by linarith) hθabs
      simp only [Rat.cast_zero, zero_sub, abs_neg]
      have h1 : 0 ≤ E6 * |T| := mul_nonneg (le_of_lt hE60) (abs_nonneg _)
      rw [hδ] at this
      linarith
  · -- a positive reduced argument
    obtain ⟨hv4P, hv4mag⟩ := posN_of_nn hv4 hpos
    have hθr0 : (0:ℝ) < ((θq : ℚ) : ℝ) := by exact_mod_cast hpos
    have hθr85 : ((θq : ℚ) : ℝ) ≤ 8/5 := by
      have := (Rat.cast_le (K := ℝ)).mpr hθ85; push_cast at this; exact this
    have hS0 : 0 < Real.sin ((θq : ℚ) : ℝ) := sin_pos_big hθr0 hθr85
    have hunit : 1 / 2 ^ ((tanW x.sem).p - 1) ≤ θq := hθfix.pos_ge hpos
    have hu0 := RelErr.u_pos (tanW x.sem)
    have hur0 : (0:ℝ) < ((u (tanW x.sem) : ℚ) : ℝ) := by exact_mod_cast hu0
    have hur : ((u (tanW x.sem) : ℚ) : ℝ) = 2 * ε := by
      unfold RelErr.u
      push_cast
      rw [hε, show (1:ℤ) - ((tanW x.sem).p:ℤ) = -((tanW x.sem).p:ℤ) + 1 by ring,
        zpow_add_one₀ (by norm_num : (2:ℝ) ≠ 0)]
      ring
    -- the nested sine
    have hsin : ∃ sx, v4.sinFuel fuel = some sx ∧ PosN (tanW x.sem) sx ∧
        |((sx.mag : ℚ) : ℝ) - Real.sin ((θq : ℚ) : ℝ)| ≤
          2 * ((u (tanW x.sem) : ℚ) : ℝ) * Real.sin ((θq : ℚ) : ℝ) := by
      by_cases hlt1 : θq < 1
      · obtain ⟨sx, h1, h2, h3⟩ := sin_rel_tanW x.sem hF hp hdom hrm hv4P
          (by rw [hv4mag]; exact hlt1) (-(((tanW x.sem).p - 1 : ℕ) : ℤ)) (by omega)
          (by rw [hv4mag, zpow_neg, zpow_natCast, ← one_div]; exact hunit) fuel
        rw [hv4mag] at h3
        refine ⟨sx, h1, h2, le_trans h3 ?_⟩
        have : 0 ≤ ((u (tanW x.sem) : ℚ) : ℝ) * Real.sin ((θq : ℚ) : ℝ) :=
          mul_nonneg (le_of_lt hur0) (le_of_lt hS0)
        linarith
      · obtain ⟨sx, h1, h2, h3⟩ := sin_rel_tanW_big x.sem hF hp hdom hrm he17 hv4P
          (by rw [hv4mag]; exact not_lt.mp hlt1) (by rw [hv4mag]; exact hθ85) hpi2 fuel hfuel
        rw [hv4mag] at h3
        exact ⟨sx, h1, h2, h3⟩
    obtain ⟨sx, hsinfuel, hsx, hs⟩ := hsin
    -- a lower bound of the sine
    have hslo : (2:ℚ) ^ (-(((tanW x.sem).p + 1 : ℕ) : ℤ)) ≤ sx.mag := by
      have h1 := relR_lower hs
      have h2 := sin_lower_big (le_of_lt hθr0) hθr85
      have h3 : (1/2) * Real.sin ((θq : ℚ) : ℝ) ≤
          (1 - 2 * ((u (tanW x.sem) : ℚ) : ℝ)) * Real.sin ((θq : ℚ) : ℝ) :=
        mul_le_mul_of_nonneg_right (by rw [hur]; norm_num at hε32'; linarith) (le_of_lt hS0)
      have h4 : (((θq / 4 : ℚ)) : ℝ) ≤ ((sx.mag : ℚ) : ℝ) := by push_cast; linarith
      have h5 : θq / 4 ≤ sx.mag := (Rat.cast_le (K := ℝ)).mp h4
      have e : (2:ℚ) ^ (-(((tanW x.sem).p + 1 : ℕ) : ℤ)) = 1 / 2 ^ ((tanW x.sem).p - 1) / 4 := by
        rw [zpow_neg, zpow_natCast, show (tanW x.sem).p + 1 = ((tanW x.sem).p - 1) + 2 by omega,
          pow_add]
        field_simp; norm_num
      rw [e]; linarith
    obtain ⟨res, hcore, hresP, hres128, hreserr⟩ := tanCore_gen x.sem hF hp hdom hrm he17
      (((θq : ℚ) : ℝ)) hsinfuel hsx hS0 hc66 hs (-(((tanW x.sem).p + 1 : ℕ) : ℤ))
      (by push_cast; omega) hslo
    rw [hcore] at hfuelEq
    simp only [Option.map_some] at hfuelEq
    -- the signed working-format result
    set y := (if neg then res.neg else res) with hy
    have hy_sem : y.sem = tanW x.sem := by
      rw [hy]; split
      · exact hresP.sem
      · exact hresP.sem
    have hy_cat : y.cat = .normal := by
      rw [hy]; split
      · exact hresP.cat
      · exact hresP.cat
    have hy_can : y.Canonical := by
      rw [hy]; split
      · exact C01.canonical_neg hresP.can
      · exact hresP.can
    have hy_mag : y.mag = res.mag := by
      rw [hy]; split <;> rfl
    have hy_sign : y.sign = neg := by
      rw [hy]
      cases neg
      · simp only [Bool.false_eq_true, if_false]; exact hresP.sign
      · simp only [if_true]
        show (!res.sign) = true
        rw [hresP.sign]; rfl
    have hmaxF : (128:ℚ) ≤ maxFinite x.sem := by
      have hpp : 1 ≤ x.sem.p := by omega
      have h1 := pow_emax_le_maxFinite (F := x.sem) hpp
      have h2 : (2:ℚ) ^ (7:ℤ) ≤ (2:ℚ) ^ x.sem.emax :=
        zpow_le_zpow_right₀ (by norm_num) (by omega)
      norm_num at h2; linarith
    obtain ⟨c1, c2, c3, c4, c5⟩ := cast_signed hF hrm (by rw [hy_sem]; exact hW) hy_can hy_cat
      (by rw [hy_mag]; linarith)
    rw [hy_sign, hy_mag] at c5
    have hycast : y.cast x.sem = y.castWithRm x.sem x.sem.rm := by
      unfold Flt.cast; rw [hy_sem, tanW_rm]
    rw [← hycast] at c1 c3 c4 c5
    refine ⟨y.cast x.sem, res.mag, neg, T, hfuelEq, c1, c3, c4, c5, le_of_lt hresP.mag_pos,
      hres128, htan, hT128, ?_⟩
    -- the error
    set tq := Real.tan ((θq : ℚ) : ℝ) with htq
    have htq0 : 0 ≤ tq := by
      rw [htq, Real.tan_eq_sin_div_cos]
      exact div_nonneg (le_of_lt hS0) (by linarith)
    obtain ⟨l1, l2⟩ := abs_le.mp hlip
    have htqle : tq ≤ |T| + 4290 * δ := by
      have := le_abs_self T; linarith
    have hErel : 100000 * ((u (tanW x.sem) : ℚ) : ℝ) ≤ E6 := by
      rw [hur]
      have h1 : ε ≤ (2:ℝ) ^ (-(x.sem.p:ℤ) - 6 - 18) := by
        refine le_trans hε32 (zpow_le_zpow_right₀ (by norm_num) (by omega))
      have h2 : (2:ℝ) ^ (-(x.sem.p:ℤ) - 6 - 18) = E6 / 262144 := by
        rw [hE6, show (-(x.sem.p:ℤ) - 6 - 18) = (-(x.sem.p:ℤ) - 6) + (-18) by ring,
          zpow_add₀ (by norm_num : (2:ℝ) ≠ 0)]
        norm_num; ring
      rw [h2] at h1
      linarith
    have h1 : |((res.mag : ℚ) : ℝ) - tq| ≤ E6 * tq :=
      le_trans hreserr (mul_le_mul_of_nonneg_right hErel htq0)
    have h2 : E6 * tq ≤ E6 * (|T| + 4290 * δ) :=
      mul_le_mul_of_nonneg_left htqle (le_of_lt hE60)
    have h3 : |((res.mag : ℚ) : ℝ) - T| ≤ |((res.mag : ℚ) : ℝ) - tq| + |tq - T| :=
      abs_sub_le _ _ _
    have h4 : E6 * (4290 * δ) ≤ 1/64 * (4290 * δ) :=
      mul_le_mul_of_nonneg_right hE61 (by positivity)
    have h5 : E6 * (|T| + 4290 * δ) = E6 * |T| + E6 * (4290 * δ) := by ring
    rw [hδ] at h4 h5 hlip
    rw [hδ] at h2
    linarith

end Arp.TrigErr
