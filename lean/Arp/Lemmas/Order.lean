import Arp.Lemmas.Defs
import Mathlib.Data.Prod.Lex
/-!
# Order lemmas (work package F, property C05)

* magnitudes of canonical normal values of one format are ordered by `(exp, mant)`
  lexicographically (`mag_lt_iff`, `mag_eq_iff`);
* `Spec.cmp` is the comparison of the key `Spec.ext : Flt → ℤ ×ₗ ℚ` in the lexicographic
  linear order (`cmp_lt_iff`, `cmp_eq_iff`, `cmp_gt_iff`).
-/
namespace Arp

/-! ### Magnitudes -/

theorem Flt.mag_pos_ord {x : Flt} (hm : 0 < x.mant) : 0 < x.mag := by
  rw [Flt.mag_eq]
  have : (0 : ℚ) < (x.mant : ℚ) := by exact_mod_cast hm
  positivity

theorem Flt.mag_pos_of_canonical {x : Flt} (hx : x.cat = .normal) (hc : x.Canonical) :
    0 < x.mag :=
  Flt.mag_pos_ord ((Flt.canonical_normal hx).1 hc).2.2.1

/-- the higher exponent wins -/
theorem Flt.mag_lt_of_exp_lt {a b : Flt} (hF : a.sem.WF) (hs : b.sem = a.sem)
    (han : a.cat = .normal) (hbn : b.cat = .normal) (ha : a.Canonical) (hb : b.Canonical)
    (he : a.exp < b.exp) : a.mag < b.mag := by
  obtain ⟨ha1, _, _, ha4, _⟩ := (Flt.canonical_normal han).1 ha
  obtain ⟨_, _, _, _, hb5⟩ := (Flt.canonical_normal hbn).1 hb
  rw [hs] at hb5
  have hb6 : 2 ^ (a.sem.p - 1) ≤ b.mant := by
    rcases hb5 with h | h
    · exact h
    · omega
  rw [Flt.mag_eq, Flt.mag_eq, hs]
  have hp : 1 ≤ a.sem.p := by have := hF.2; omega
  set p := a.sem.p with hpdef
  have h2 : (0 : ℚ) < 2 := by norm_num
  have hA : (a.mant : ℚ) < (2 : ℚ) ^ (p : ℤ) := by
    rw [zpow_natCast]; exact_mod_cast ha4
  have hB : (2 : ℚ) ^ ((p : ℤ) - 1) ≤ (b.mant : ℚ) := by
    rw [show ((p : ℤ) - 1) = ((p - 1 : ℕ) : ℤ) by omega, zpow_natCast]; exact_mod_cast hb6
  have hpa : (0 : ℚ) < (2 : ℚ) ^ (a.exp - ((p : ℤ) - 1)) := by positivity
  have hpb : (0 : ℚ) < (2 : ℚ) ^ (b.exp - ((p : ℤ) - 1)) := by positivity
  calc (a.mant : ℚ) * (2 : ℚ) ^ (a.exp - ((p : ℤ) - 1))
      < (2 : ℚ) ^ (p : ℤ) * (2 : ℚ) ^ (a.exp - ((p : ℤ) - 1)) :=
        mul_lt_mul_of_pos_right hA hpa
    _ = (2 : ℚ) ^ (a.exp + 1) := by
        rw [← zpow_add₀ (by norm_num : (2 : ℚ) ≠ 0)]; congr 1; ring
    _ ≤ (2 : ℚ) ^ b.exp := zpow_le_zpow_right₀ (by norm_num) (by omega)
    _ = (2 : ℚ) ^ ((p : ℤ) - 1) * (2 : ℚ) ^ (b.exp - ((p : ℤ) - 1)) := by
        rw [← zpow_add₀ (by norm_num : (2 : ℚ) ≠ 0)]; congr 1; ring
    _ ≤ (b.mant : ℚ) * (2 : ℚ) ^ (b.exp - ((p : ℤ) - 1)) :=
        mul_le_mul_of_nonneg_right hB hpb.le

/-- equal exponents: the significand decides -/
theorem Flt.mag_lt_of_mant_lt {a b : Flt} (hs : b.sem = a.sem)
    (he : a.exp = b.exp) (hm : a.mant < b.mant) : a.mag < b.mag := by
  rw [Flt.mag_eq, Flt.mag_eq, hs, he]
  have : (a.mant : ℚ) < (b.mant : ℚ) := by exact_mod_cast hm
  exact mul_lt_mul_of_pos_right this (by positivity)

theorem Flt.mag_eq_of_eq {a b : Flt} (hs : b.sem = a.sem)
    (he : a.exp = b.exp) (hm : a.mant = b.mant) : a.mag = b.mag := by
  rw [Flt.mag_eq, Flt.mag_eq, hs, he, hm]

/-- the lexicographic "less" on `(exp, mant)` -/
theorem Flt.mag_lt_of_lex {a b : Flt} (hF : a.sem.WF) (hs : b.sem = a.sem)
    (han : a.cat = .normal) (hbn : b.cat = .normal) (ha : a.Canonical) (hb : b.Canonical)
    (h : a.exp < b.exp ∨ (a.exp = b.exp ∧ a.mant < b.mant)) : a.mag < b.mag := by
  rcases h with h | ⟨h1, h2⟩
  · exact Flt.mag_lt_of_exp_lt hF hs han hbn ha hb h
  · exact Flt.mag_lt_of_mant_lt hs h1 h2

/-- **Key lemma**: magnitudes of canonical normal values of one format are ordered by
    exponent first, significand second. -/
theorem Flt.mag_lt_iff {a b : Flt} (hF : a.sem.WF) (hs : b.sem = a.sem)
    (han : a.cat = .normal) (hbn : b.cat = .normal) (ha : a.Canonical) (hb : b.Canonical) :
    a.mag < b.mag ↔ (a.exp < b.exp ∨ (a.exp = b.exp ∧ a.mant < b.mant)) := by
  constructor
  · intro hlt
    by_contra hcon
    have hF' : b.sem.WF := by rw [hs]; exact hF
    rcases lt_trichotomy a.exp b.exp with h | h | h
    · exact hcon (Or.inl h)
    · rcases lt_trichotomy a.mant b.mant with h' | h' | h'
      · exact hcon (Or.inr ⟨h, h'⟩)
      · have := Flt.mag_eq_of_eq hs h h'; linarith
      · have := Flt.mag_lt_of_mant_lt (a := b) (b := a) hs.symm h.symm h'; linarith
    · have := Flt.mag_lt_of_exp_lt hF' hs.symm hbn han hb ha h; linarith
  · exact Flt.mag_lt_of_lex hF hs han hbn ha hb

theorem Flt.mag_eq_iff {a b : Flt} (hF : a.sem.WF) (hs : b.sem = a.sem)
    (han : a.cat = .normal) (hbn : b.cat = .normal) (ha : a.Canonical) (hb : b.Canonical) :
    a.mag = b.mag ↔ (a.exp = b.exp ∧ a.mant = b.mant) := by
  constructor
  · intro heq
    have hF' : b.sem.WF := by rw [hs]; exact hF
    rcases lt_trichotomy a.exp b.exp with h | h | h
    · have := Flt.mag_lt_of_exp_lt hF hs han hbn ha hb h; linarith
    · rcases lt_trichotomy a.mant b.mant with h' | h' | h'
      · have := Flt.mag_lt_of_mant_lt hs h h'; linarith
      · exact ⟨h, h'⟩
      · have := Flt.mag_lt_of_mant_lt (a := b) (b := a) hs.symm h.symm h'; linarith
    · have := Flt.mag_lt_of_exp_lt hF' hs.symm hbn han hb ha h; linarith
  · rintro ⟨h1, h2⟩
    exact Flt.mag_eq_of_eq hs h1 h2

/-! ### Values and keys -/

theorem Flt.val_normal {x : Flt} (hx : x.cat = .normal) :
    x.val = if x.sign then -x.mag else x.mag := by
  unfold Flt.val; rw [hx]

theorem Flt.val_zero {x : Flt} (hx : x.cat = .zero) : x.val = 0 := by
  unfold Flt.val; rw [hx]

theorem Flt.mag_nonneg (x : Flt) : 0 ≤ x.mag := by
  rw [Flt.mag_eq]; positivity

/-- a value with a clear sign bit is not negative -/
theorem Flt.val_nonneg {x : Flt} (h : x.sign = false) : 0 ≤ x.val := by
  have := x.mag_nonneg
  unfold Flt.val; cases x.cat <;> simp [h, this]

/-- a value with a set sign bit is not positive -/
theorem Flt.val_nonpos {x : Flt} (h : x.sign = true) : x.val ≤ 0 := by
  have := x.mag_nonneg
  unfold Flt.val; cases x.cat <;> simp [h, this]

namespace Spec

/-- The comparison key of C05 in the lexicographic *linear* order `ℤ ×ₗ ℚ`:
    `(-1|0|+1 for -inf|finite|+inf, value)`. -/
def key (x : Flt) : ℤ ×ₗ ℚ := toLex (ext x)

theorem ext_fin {x : Flt} (h : x.cat ≠ .inf) : ext x = (0, x.val) := by
  unfold ext; cases hx : x.cat <;> simp_all

theorem ext_inf {x : Flt} (h : x.cat = .inf) : ext x = (if x.sign then -1 else 1, 0) := by
  unfold ext; rw [h]

/-- `Spec.cmp` without the NaN test -/
theorem cmp_unfold {a b : Flt} (ha : a.cat ≠ .nan) (hb : b.cat ≠ .nan) :
    cmp a b = if (ext a).1 < (ext b).1 then some .lt else if (ext b).1 < (ext a).1 then some .gt
      else if (ext a).2 < (ext b).2 then some .lt else if (ext b).2 < (ext a).2 then some .gt
      else some .eq := by
  have hna : (a.cat == Cat.nan) = false := by simp [ha]
  have hnb : (b.cat == Cat.nan) = false := by simp [hb]
  unfold cmp isNan
  simp only [hna, hnb, Bool.or_self, Bool.false_eq_true, if_false, gt_iff_lt]

theorem cmp_nan_left {a b : Flt} (h : a.cat = .nan) : cmp a b = none := by
  unfold cmp isNan; simp [h]

theorem cmp_nan_right {a b : Flt} (h : b.cat = .nan) : cmp a b = none := by
  unfold cmp isNan; simp [h]

theorem cmp_none_iff {a b : Flt} : cmp a b = none ↔ (a.cat = .nan ∨ b.cat = .nan) := by
  by_cases ha : a.cat = .nan
  · simp [cmp_nan_left ha, ha]
  by_cases hb : b.cat = .nan
  · simp [cmp_nan_right hb, hb]
  rw [cmp_unfold ha hb]
  simp only [ha, hb, or_self, iff_false]
  split_ifs <;> simp

/-- `Spec.cmp` on non-NaN operands is the three-way comparison of the keys. -/
theorem cmp_of_not_nan {a b : Flt} (ha : a.cat ≠ .nan) (hb : b.cat ≠ .nan) :
    cmp a b = some (if key a < key b then .lt else if key b < key a then .gt else .eq) := by
  rw [cmp_unfold ha hb]
  unfold key
  simp only [Prod.Lex.toLex_lt_toLex]
  generalize ext a = ka
  generalize ext b = kb
  obtain ⟨i, q⟩ := ka
  obtain ⟨j, r⟩ := kb
  simp only
  rcases lt_trichotomy i j with h | h | h
  · simp [h]
  · subst h
    rcases lt_trichotomy q r with h' | h' | h'
    · simp [h']
    · subst h'; simp
    · simp [h', not_lt.2 h'.le]
  · simp [h, not_lt.2 h.le, h.ne']

theorem cmp_lt_iff {a b : Flt} :
    cmp a b = some .lt ↔ (a.cat ≠ .nan ∧ b.cat ≠ .nan ∧ key a < key b) := by
  by_cases ha : a.cat = .nan
  · simp [cmp_nan_left ha, ha]
  by_cases hb : b.cat = .nan
  · simp [cmp_nan_right hb, hb]
  rw [cmp_of_not_nan ha hb]
  simp only [ne_eq, ha, hb, not_false_eq_true, true_and]
  split_ifs with h1 h2 <;> simp [h1]

theorem cmp_gt_iff {a b : Flt} :
    cmp a b = some .gt ↔ (a.cat ≠ .nan ∧ b.cat ≠ .nan ∧ key b < key a) := by
  by_cases ha : a.cat = .nan
  · simp [cmp_nan_left ha, ha]
  by_cases hb : b.cat = .nan
  · simp [cmp_nan_right hb, hb]
  rw [cmp_of_not_nan ha hb]
  simp only [ne_eq, ha, hb, not_false_eq_true, true_and]
  split_ifs with h1 h2
  · simp [not_lt.2 h1.le]
  · simp [h2]
  · simp [h2]

theorem cmp_eq_iff {a b : Flt} :
    cmp a b = some .eq ↔ (a.cat ≠ .nan ∧ b.cat ≠ .nan ∧ key a = key b) := by
  by_cases ha : a.cat = .nan
  · simp [cmp_nan_left ha, ha]
  by_cases hb : b.cat = .nan
  · simp [cmp_nan_right hb, hb]
  rw [cmp_of_not_nan ha hb]
  simp only [ne_eq, ha, hb, not_false_eq_true, true_and]
  split_ifs with h1 h2
  · simp [h1.ne]
  · simp [h2.ne']
  · simp [le_antisymm (not_lt.1 h2) (not_lt.1 h1)]

/-- `Spec.cmp` yields `lt` or `eq` exactly when the keys are in `≤` order. -/
theorem cmp_le_iff {a b : Flt} :
    (cmp a b = some .lt ∨ cmp a b = some .eq) ↔ (a.cat ≠ .nan ∧ b.cat ≠ .nan ∧ key a ≤ key b) := by
  rw [cmp_lt_iff, cmp_eq_iff, le_iff_lt_or_eq]; tauto

/-- comparison of two finite values (zero or normal) is the comparison of their values -/
theorem cmp_fin {a b : Flt} (ha1 : a.cat ≠ .nan) (ha2 : a.cat ≠ .inf)
    (hb1 : b.cat ≠ .nan) (hb2 : b.cat ≠ .inf) :
    cmp a b = if a.val < b.val then some .lt else if b.val < a.val then some .gt else some .eq := by
  rw [cmp_unfold ha1 hb1]
  simp only [ext_fin ha2, ext_fin hb2, lt_self_iff_false, if_false]

/-- the key of a value with clear sign bit is at least the key of zero -/
theorem key_nonneg {x : Flt} (h : x.sign = false) : toLex ((0 : ℤ), (0 : ℚ)) ≤ key x := by
  unfold key
  rw [Prod.Lex.toLex_le_toLex]
  by_cases hx : x.cat = .inf
  · rw [ext_inf hx]; simp [h]
  · rw [ext_fin hx]; right; exact ⟨rfl, Flt.val_nonneg h⟩

theorem key_nonpos {x : Flt} (h : x.sign = true) : key x ≤ toLex ((0 : ℤ), (0 : ℚ)) := by
  unfold key
  rw [Prod.Lex.toLex_le_toLex]
  by_cases hx : x.cat = .inf
  · rw [ext_inf hx]; simp [h]
  · rw [ext_fin hx]; right; exact ⟨rfl, Flt.val_nonpos h⟩

end Spec

end Arp
