import Arp.Lemmas.Canonical
import Arp.Lemmas.CastScale
import Arp.Lemmas.Order
import Arp.Props.C01AddSub
import Arp.Props.C01MulDiv
import Arp.Props.C06
import Arp.Props.C08Load
import Arp.Props.C10Scale
import Arp.Props.SpecRound
/-!
# Helper lemmas for `sqrt` (C12 / C19)

The Newton iteration is analysed on rationals: `rnd F rm q` is the magnitude of
`Spec.round F rm false q`; one step of the loop is
`stepQ F t y = rnd W nte (rnd W rm (y + rnd W rm (t / y)) / 2)` in the format
`W = wide F` (one more exponent bit).  Sections:

* 0-5   `rnd` (monotone, exact on representable magnitudes), positive values `PosN`, the
        operations `div/add/scale(-1)` on them, representable magnitudes, the wide format;
* 6-9   the invariants of the loop (`Inv`: representable, `2^k ≤ y ≤ max(2,t)`; `Low`: every
        representable `a` with `a² ≤ t` is below the iterate — `step_ge`), what the loop and
        `sqrt` return (`loop_result`, `sqrt_result`), the trivial fuel bound;
* 10-13 the step at which the loop stops (`stepA_*`: iterate above the root, `stepB_*`: at or
        below it), `stop_bound`, transfer through the final cast, `sqrt_bounds`, `sqrt_square`;
* 14    the linear fuel bound (`phase1_term`, `contract_term`, `descent_term`,
        `sqrt_fuel_linear`).
-/
namespace Arp.Sqrt
open Arp Arp.SpecRound

/-! ## 0. the rounding function on magnitudes -/

/-- magnitude of the rounded positive value -/
def rnd (F : Sem) (rm : RM) (q : ℚ) : ℚ := (Spec.round F rm false q).mag F

theorem isRep_pos_round {F : Sem} (hF : F.WF) {c : ℚ} (hc : IsRep F c) (hc0 : 0 < c) (rm : RM) :
    (Spec.round F rm false c).key F = ((c : ℚ) : WithTop ℚ) := by
  obtain ⟨e, m, h, hv⟩ := round_exact hF hc0 hc rm false
  rw [h, Res.key_fin, Sem.ulp_def, hv]

/-- between two representable bounds the rounded value is finite, non-zero and between them -/
theorem round_between {F : Sem} (hF : F.WF) (rm : RM) {lo hi q : ℚ} (hlo0 : 0 < lo)
    (hlo : IsRep F lo) (hhi : IsRep F hi) (h1 : lo ≤ q) (h2 : q ≤ hi) :
    ∃ e m, Spec.round F rm false q = .fin false e m ∧ rnd F rm q = (m:ℚ) * F.ulp e
      ∧ lo ≤ rnd F rm q ∧ rnd F rm q ≤ hi := by
  have hq : 0 < q := lt_of_lt_of_le hlo0 h1
  have hhi0 : 0 < hi := lt_of_lt_of_le hq h2
  have k1 := round_mono hF hlo0 h1 rm false
  have k2 := round_mono hF hq h2 rm false
  rw [isRep_pos_round hF hlo hlo0] at k1
  rw [isRep_pos_round hF hhi hhi0] at k2
  rcases round_cases hF hq rm false with h | h | ⟨e, m, h⟩
  · rw [h] at k1; simp only [Res.key] at k1
    have : lo ≤ 0 := by exact_mod_cast k1
    linarith
  · rw [h] at k2; simp only [Res.key] at k2
    exact absurd k2 (by simp)
  · refine ⟨e, m, h, ?_, ?_, ?_⟩
    · unfold rnd; rw [h, Res.mag_fin]
    · rw [h, Res.key_fin] at k1
      unfold rnd; rw [h, Res.mag_fin]; exact_mod_cast k1
    · rw [h, Res.key_fin] at k2
      unfold rnd; rw [h, Res.mag_fin]; exact_mod_cast k2

theorem rnd_isRep {F : Sem} (hF : F.WF) (rm : RM) {q : ℚ} (hq : 0 < q) : IsRep F (rnd F rm q) :=
  round_isRep hF hq rm false

/-- representable values are fixed points -/
theorem rnd_rep {F : Sem} (hF : F.WF) (rm : RM) {c : ℚ} (hc : IsRep F c) (hc0 : 0 < c) :
    rnd F rm c = c := by
  obtain ⟨e, m, h, hv⟩ := round_exact hF hc0 hc rm false
  unfold rnd; rw [h, Res.mag_fin, Sem.ulp_def, hv]


/-! ## 1. positive canonical normal values and the operations on them -/

/-- `y` is a positive canonical finite non-zero value of the format `W` -/
structure PosN (W : Sem) (y : Flt) : Prop where
  sem : y.sem = W
  can : y.Canonical
  cat : y.cat = .normal
  sign : y.sign = false

theorem PosN.isRep {W : Sem} {y : Flt} (h : PosN W y) : IsRep W y.mag := by
  obtain ⟨h1, h2, _, h4, h5⟩ := (Flt.canonical_normal h.cat).mp h.can
  rw [h.sem] at h1 h2 h4 h5
  exact ⟨y.exp, y.mant, h1, h2, h4, h5, by rw [Flt.mag_eq, h.sem]⟩

theorem PosN.mag_pos {W : Sem} {y : Flt} (h : PosN W y) : 0 < y.mag :=
  Flt.mag_pos y h.cat h.can

theorem PosN.mag_ulp {W : Sem} {y : Flt} (h : PosN W y) : y.mag = (y.mant:ℚ) * W.ulp y.exp := by
  rw [Flt.mag_eq, h.sem, Sem.ulp_def]

/-- a value whose `toRes` is a finite positive rounding result -/
theorem posN_of_round {W : Sem} (hW : W.WF) {y : Flt} (hs : y.sem = W) {rm : RM} {q : ℚ}
    (hq : 0 < q) {e : Int} {m : Nat} (hr : Spec.round W rm false q = .fin false e m)
    (hy : y.toRes = Spec.round W rm false q) : PosN W y ∧ y.mag = rnd W rm q := by
  rw [hr] at hy
  have hy' := Flt.eq_of_toRes_fin hs hy
  obtain ⟨_, h1, h2, h3, h4, h5⟩ := round_mem hW hq rm false hr
  subst hy'
  refine ⟨⟨rfl, ?_, rfl, rfl⟩, ?_⟩
  · rw [Flt.canonical_normal rfl]; exact ⟨h1, h2, h3, h4, h5⟩
  · unfold rnd; rw [hr, Res.mag_fin, Flt.mag_eq, Sem.ulp_def]

theorem div_posN {W : Sem} (hW : W.WF) {t b : Flt} (ht : PosN W t) (hb : PosN W b) {lo hi : ℚ}
    (hlo0 : 0 < lo) (hlo : IsRep W lo) (hhi : IsRep W hi) (h1 : lo ≤ t.mag / b.mag)
    (h2 : t.mag / b.mag ≤ hi) :
    PosN W (t.div b) ∧ (t.div b).mag = rnd W W.rm (t.mag / b.mag) := by
  have hFt : t.sem.WF := by rw [ht.sem]; exact hW
  obtain ⟨e, m, hr, -, -, -⟩ := round_between hW W.rm hlo0 hlo hhi h1 h2
  have hq : 0 < t.mag / b.mag := lt_of_lt_of_le hlo0 h1
  have hc := C01.div_correct t b t.sem.rm hFt (hb.sem.trans ht.sem.symm) ht.can hb.can
  have hsem := (div_canonical t b hFt).2
  apply posN_of_round hW (hsem.trans ht.sem) hq hr
  show (divWithRm t b t.sem.rm).toRes = _
  rw [hc, ht.sem]
  simp [Spec.div, Spec.isNan, Spec.isInf, Spec.isZero, ht.cat, hb.cat, ht.sign, hb.sign]

theorem add_posN {W : Sem} (hW : W.WF) {a b : Flt} (ha : PosN W a) (hb : PosN W b) {lo hi : ℚ}
    (hlo0 : 0 < lo) (hlo : IsRep W lo) (hhi : IsRep W hi) (h1 : lo ≤ a.mag + b.mag)
    (h2 : a.mag + b.mag ≤ hi) :
    PosN W (a.add b) ∧ (a.add b).mag = rnd W W.rm (a.mag + b.mag) := by
  have hFa : a.sem.WF := by rw [ha.sem]; exact hW
  obtain ⟨e, m, hr, -, -, -⟩ := round_between hW W.rm hlo0 hlo hhi h1 h2
  have hq : 0 < a.mag + b.mag := lt_of_lt_of_le hlo0 h1
  have hs : b.sem = a.sem := hb.sem.trans ha.sem.symm
  have hc := C01.add_correct a b a.sem.rm hFa hs ha.can hb.can
  have hsem := (add_canonical a b hFa hs ha.can hb.can).2
  apply posN_of_round hW (hsem.trans ha.sem) hq hr
  show (addWithRm a b a.sem.rm).toRes = _
  rw [hc, ha.sem]
  have hva : a.val = a.mag := by rw [Flt.val_normal ha.cat, ha.sign]; rfl
  have hvb : b.val = b.mag := by rw [Flt.val_normal hb.cat, hb.sign]; rfl
  simp only [Spec.add, Spec.isNan, Spec.isInf, Spec.isZero, ha.cat, hb.cat, hva, hvb]
  simp only [Spec.roundQ, if_neg (ne_of_gt hq), if_pos hq]
  simp

theorem half_posN {W : Sem} (hW : W.WF) {a : Flt} (ha : PosN W a) {lo hi : ℚ}
    (hlo0 : 0 < lo) (hlo : IsRep W lo) (hhi : IsRep W hi) (h1 : lo ≤ a.mag / 2)
    (h2 : a.mag / 2 ≤ hi) :
    PosN W (a.scale (-1) .nte) ∧ (a.scale (-1) .nte).mag = rnd W .nte (a.mag / 2) := by
  have hFa : a.sem.WF := by rw [ha.sem]; exact hW
  obtain ⟨e, m, hr, -, -, -⟩ := round_between hW .nte hlo0 hlo hhi h1 h2
  have hq : 0 < a.mag / 2 := lt_of_lt_of_le hlo0 h1
  have hc := C10.scale_correct a (-1) .nte hFa ha.can
  have hsem := (scale_canonical a (-1) .nte hFa ha.can).2
  apply posN_of_round hW (hsem.trans ha.sem) hq hr
  rw [hc]
  simp only [Spec.scaleExact, ha.cat, ha.sign, ha.sem]
  congr 1


/-! ## 2. comparisons of positive values -/

theorem lt_posN {W : Sem} (hW : W.WF) {a b : Flt} (ha : PosN W a) (hb : PosN W b) :
    a.lt b = true ↔ a.mag < b.mag := by
  have hFa : a.sem.WF := by rw [ha.sem]; exact hW
  rw [Flt.mag_lt_iff hFa (hb.sem.trans ha.sem.symm) ha.cat hb.cat ha.can hb.can]
  unfold Flt.lt Flt.partialCmp
  rw [ha.cat, hb.cat]
  simp only [ha.sign, hb.sign, bne_self_eq_false, Bool.false_eq_true, if_false, Bool.not_false,
    boolToOrd]
  by_cases h1 : a.exp < b.exp
  · simp [h1]
  · by_cases h2 : a.exp > b.exp
    · simp [h1, h2]; omega
    · have he : a.exp = b.exp := by omega
      simp only [if_false, he, lt_self_iff_false, false_or, true_and]
      rcases Nat.lt_trichotomy a.mant b.mant with h | h | h
      · simp [Nat.compare_eq_lt.mpr h, h]
      · simp [h]
      · simp [Nat.compare_eq_gt.mpr h]; omega

theorem beq_posN {W : Sem} (hW : W.WF) {a b : Flt} (ha : PosN W a) (hb : PosN W b) :
    a.beq b = true ↔ a.mag = b.mag := by
  have hFa : a.sem.WF := by rw [ha.sem]; exact hW
  rw [Flt.mag_eq_iff hFa (hb.sem.trans ha.sem.symm) ha.cat hb.cat ha.can hb.can]
  unfold Flt.beq
  rw [ha.cat]
  simp [ha.sign, hb.sign, hb.cat]

theorem eq_of_mag_eq {W : Sem} (hW : W.WF) {a b : Flt} (ha : PosN W a) (hb : PosN W b)
    (h : a.mag = b.mag) : a = b := by
  have hFa : a.sem.WF := by rw [ha.sem]; exact hW
  obtain ⟨h1, h2⟩ := (Flt.mag_eq_iff hFa (hb.sem.trans ha.sem.symm) ha.cat hb.cat ha.can hb.can).mp h
  obtain ⟨as, asg, ae, am, ac⟩ := a
  obtain ⟨bs, bsg, be, bm, bc⟩ := b
  have := ha.sem; have := hb.sem; have := ha.cat; have := hb.cat; have := ha.sign; have := hb.sign
  simp only at *
  subst_vars; rfl


/-! ## 3. representable magnitudes -/

/-- `M·2^E` with a `p`-bit `M`, on the grid of the smallest subnormal and below `2^(emax+1)` -/
theorem isRep_of_lt {F : Sem} (hF : F.WF) (M : Nat) (E : Int) (hMp : M < 2 ^ F.p)
    (hE : F.emin - ((F.p:Int) - 1) ≤ E) (hlt : (M:ℚ) * (2:ℚ) ^ E < (2:ℚ) ^ (F.emax + 1)) :
    IsRep F ((M:ℚ) * (2:ℚ) ^ E) := by
  by_cases hM : M = 0
  · subst hM; simp only [Nat.cast_zero, zero_mul]; exact IsRep.zero hF
  · have hlo : 2 ^ (msb M - 1) ≤ M := msb_le hM
    have hn1 : 1 ≤ msb M := msb_pos hM
    have hloq : (2:ℚ) ^ ((msb M : Int) - 1) ≤ (M:ℚ) := by
      have : ((2 ^ (msb M - 1) : Nat) : ℚ) ≤ (M:ℚ) := Nat.cast_le.mpr hlo
      push_cast at this
      rw [show ((msb M : Int) - 1) = ((msb M - 1 : Nat) : Int) by omega, zpow_natCast]
      exact this
    have h2 : (2:ℚ) ^ (E + ((msb M : Int) - 1)) < (2:ℚ) ^ (F.emax + 1) := by
      rw [zpow_add₀ (by norm_num : (2:ℚ) ≠ 0), mul_comm]
      exact lt_of_le_of_lt (mul_le_mul_of_nonneg_right hloq (by positivity)) hlt
    have h3 : E + ((msb M : Int) - 1) < F.emax + 1 :=
      (zpow_lt_zpow_iff_right₀ (by norm_num : (1:ℚ) < 2)).mp h2
    obtain ⟨y, h1, h2, h3, h4, h5⟩ := exists_canonical F hF false M E hM hMp hE (by omega)
    rw [← h5]
    exact PosN.isRep ⟨h1, h3, h2, h4⟩

theorem isRep_pow {F : Sem} (hF : F.WF) (j : Int) (h1 : F.emin - ((F.p:Int) - 1) ≤ j)
    (h2 : j ≤ F.emax) : IsRep F ((2:ℚ) ^ j) := by
  have := isRep_of_lt hF 1 j (Nat.one_lt_two_pow (by have := hF.2; omega)) h1
    (by rw [Nat.cast_one, one_mul]; exact zpow_lt_zpow_right₀ (by norm_num) (by omega))
  rwa [Nat.cast_one, one_mul] at this

/-- in canonical decompositions the exponent is monotone in the magnitude -/
theorem rep_exp_le {F : Sem} (hp : 1 ≤ F.p) {ea ey : Int} {ma my : Nat}
    (hna : 2 ^ (F.p - 1) ≤ ma ∨ ea = F.emin) (hey : F.emin ≤ ey) (hmy : my < 2 ^ F.p)
    (h : (ma:ℚ) * F.ulp ea ≤ (my:ℚ) * F.ulp ey) : ea ≤ ey := by
  by_contra hc
  have hlt : ey < ea := not_le.mp hc
  have hma : 2 ^ (F.p - 1) ≤ ma := by
    rcases hna with h' | h'
    · exact h'
    · omega
  have hmaq : (2:ℚ) ^ (F.p - 1) ≤ (ma:ℚ) := by exact_mod_cast hma
  have hmyq : (my:ℚ) < (2:ℚ) ^ F.p := by exact_mod_cast hmy
  have h1 : (2:ℚ) ^ ea ≤ (ma:ℚ) * F.ulp ea := by
    rw [← F.half_pow_mul_ulp hp ea]
    exact mul_le_mul_of_nonneg_right hmaq (le_of_lt (F.ulp_pos ea))
  have h2 : (my:ℚ) * F.ulp ey < (2:ℚ) ^ (ey + 1) := by
    rw [← F.pow_mul_ulp ey]
    exact mul_lt_mul_of_pos_right hmyq (F.ulp_pos ey)
  have h3 : (2:ℚ) ^ (ey + 1) ≤ (2:ℚ) ^ ea := zpow_le_zpow_right₀ (by norm_num) (by omega)
  linarith


/-! ## 4. monotonicity of `rnd` against representable bounds -/

theorem rnd_le {F : Sem} (hF : F.WF) (rm : RM) {q c : ℚ} (hq : 0 < q) (hc : IsRep F c)
    (h : q ≤ c) : rnd F rm q ≤ c := by
  have hc0 : 0 < c := lt_of_lt_of_le hq h
  have k2 := round_mono hF hq h rm false
  rw [isRep_pos_round hF hc hc0] at k2
  unfold rnd
  rcases round_cases hF hq rm false with h' | h' | ⟨e, m, h'⟩
  · rw [h']; simp only [Res.mag]; exact le_of_lt hc0
  · rw [h'] at k2; simp only [Res.key] at k2; exact absurd k2 (by simp)
  · rw [h', Res.key_fin] at k2; rw [h', Res.mag_fin]; exact_mod_cast k2

theorem rnd_ge {F : Sem} (hF : F.WF) (rm : RM) {q c hi : ℚ} (hc0 : 0 < c) (hc : IsRep F c)
    (h : c ≤ q) (hhi : IsRep F hi) (h2 : q ≤ hi) : c ≤ rnd F rm q := by
  obtain ⟨_, _, _, _, h3, _⟩ := round_between hF rm hc0 hc hhi h h2
  exact h3

/-! ## 5. the wide format -/

/-- the format in which the iteration runs -/
abbrev wide (F : Sem) : Sem := F.increaseExponent 1

theorem wide_WF {F : Sem} (hF : F.WF) : (wide F).WF := Sem.increaseExponent_WF hF 1

theorem wide_p (F : Sem) : (wide F).p = F.p := rfl
theorem wide_rm (F : Sem) : (wide F).rm = F.rm := rfl

theorem wide_emax {F : Sem} (hF : F.WF) : (wide F).emax = 2 * F.emax + 1 := by
  have h1 := hF.1
  rw [Sem.emax_eq (s := wide F) (by simp [Sem.increaseExponent]), Sem.emax_eq (s := F) (by omega)]
  simp only [Sem.increaseExponent]
  obtain ⟨j, hj⟩ : ∃ j, F.e = j + 1 := ⟨F.e - 1, by omega⟩
  rw [hj]
  simp only [Nat.add_sub_cancel]
  rw [Nat.pow_succ]; push_cast; ring

theorem wide_emin {F : Sem} (hF : F.WF) : (wide F).emin = 2 * F.emin - 2 := by
  have h1 := hF.1
  rw [Sem.emin_eq, Sem.emin_eq]
  simp only [Sem.increaseExponent]
  obtain ⟨j, hj⟩ : ∃ j, F.e = j + 1 := ⟨F.e - 1, by omega⟩
  rw [hj]
  simp only [Nat.add_sub_cancel]
  rw [Nat.pow_succ]; push_cast; ring

theorem emin_add_emax {F : Sem} (hF : F.WF) : F.emin + F.emax = 1 := by
  have h1 := hF.1
  rw [Sem.emin_eq, Sem.emax_eq (by omega)]; ring

/-- magnitudes representable in `F` are representable in the wide format -/
theorem isRep_wide {F : Sem} (hF : F.WF) {q : ℚ} (h : IsRep F q) : IsRep (wide F) q := by
  obtain ⟨e, m, h1, h2, h3, h4, rfl⟩ := h
  have hm := F.emin; have := wide_emin hF; have := wide_emax hF
  have hmm := Sem.emin_le_zero hF; have hM := Sem.emax_pos hF
  have hlt : (m:ℚ) * (2:ℚ) ^ (e - ((F.p:Int) - 1)) < (2:ℚ) ^ ((wide F).emax + 1) := by
    have hmq : (m:ℚ) < (2:ℚ) ^ F.p := by exact_mod_cast h3
    calc (m:ℚ) * (2:ℚ) ^ (e - ((F.p:Int) - 1)) < (2:ℚ) ^ F.p * F.ulp e :=
          mul_lt_mul_of_pos_right hmq (F.ulp_pos e)
      _ = (2:ℚ) ^ (e + 1) := F.pow_mul_ulp e
      _ ≤ _ := zpow_le_zpow_right₀ (by norm_num) (by omega)
  exact isRep_of_lt (wide_WF hF) m (e - ((F.p:Int) - 1)) h3 (by rw [wide_p]; omega) hlt


theorem isRep_two_mul {F : Sem} (hF : F.WF) {c : ℚ} (hc : IsRep F c)
    (h : 2 * c < (2:ℚ) ^ (F.emax + 1)) : IsRep F (2 * c) := by
  obtain ⟨e, m, h1, h2, h3, h4, rfl⟩ := hc
  have e1 : 2 * ((m:ℚ) * (2:ℚ) ^ (e - ((F.p:Int) - 1))) = (m:ℚ) * (2:ℚ) ^ (e + 1 - ((F.p:Int) - 1)) := by
    rw [show e + 1 - ((F.p:Int) - 1) = (e - ((F.p:Int) - 1)) + 1 by ring,
      zpow_add₀ (by norm_num : (2:ℚ) ≠ 0), zpow_one]; ring
  rw [e1] at h ⊢
  exact isRep_of_lt hF m _ h3 (by omega) h

/-- the reflection `2a - y` of a representable `y ∈ [a, 2a)` about a representable `a` is
    representable (it is a multiple of `ulp a` not above `a`) -/
theorem isRep_two_sub {F : Sem} (hF : F.WF) {a y : ℚ} (ha : IsRep F a) (hy : IsRep F y)
    (h1 : a ≤ y) (h2 : y < 2 * a) : IsRep F (2 * a - y) := by
  have hp : 1 ≤ F.p := by have := hF.2; omega
  obtain ⟨ea, ma, a1, a2, a3, a4, rfl⟩ := ha
  obtain ⟨ey, my, y1, y2, y3, y4, rfl⟩ := hy
  rw [← Sem.ulp_def] at h1 h2 ⊢
  rw [← Sem.ulp_def] at h1 h2 ⊢
  have hle : ea ≤ ey := rep_exp_le hp a4 y1 y3 h1
  obtain ⟨j, rfl⟩ : ∃ j : Nat, ey = ea + j := ⟨(ey - ea).toNat, by omega⟩
  rw [F.ulp_add] at h1 h2 ⊢
  have hu := F.ulp_pos ea
  have n1 : ma ≤ my * 2 ^ j := by
    have : (ma:ℚ) * F.ulp ea ≤ ((my:ℚ) * (2:ℚ) ^ j) * F.ulp ea := by linarith
    have := le_of_mul_le_mul_right this hu
    exact_mod_cast this
  have n2 : my * 2 ^ j < 2 * ma := by
    have : ((my:ℚ) * (2:ℚ) ^ j) * F.ulp ea < (2 * (ma:ℚ)) * F.ulp ea := by linarith
    have := lt_of_mul_lt_mul_right this (le_of_lt hu)
    exact_mod_cast this
  have e1 : 2 * ((ma:ℚ) * F.ulp ea) - (my:ℚ) * ((2:ℚ) ^ j * F.ulp ea)
      = ((2 * ma - my * 2 ^ j : Nat) : ℚ) * (2:ℚ) ^ (ea - ((F.p:Int) - 1)) := by
    rw [Nat.cast_sub (le_of_lt n2), Sem.ulp_def]; push_cast; ring
  rw [e1]
  apply isRep_of_lt hF _ _ (by omega) (by omega)
  have hmq : ((2 * ma - my * 2 ^ j : Nat) : ℚ) < (2:ℚ) ^ F.p := by
    have : 2 * ma - my * 2 ^ j < 2 ^ F.p := by omega
    exact_mod_cast this
  calc ((2 * ma - my * 2 ^ j : Nat) : ℚ) * (2:ℚ) ^ (ea - ((F.p:Int) - 1))
      < (2:ℚ) ^ F.p * F.ulp ea := mul_lt_mul_of_pos_right hmq hu
    _ = (2:ℚ) ^ (ea + 1) := F.pow_mul_ulp ea
    _ ≤ _ := zpow_le_zpow_right₀ (by norm_num) (by omega)

/-! ## 6. one Newton step on rationals -/

/-- the setting: `t` is the argument (a positive magnitude of `F`), `4^k ≤ t < 4^(k+1)` -/
structure Ctx (F : Sem) (t : ℚ) (k : Int) : Prop where
  hF : F.WF
  trep : IsRep F t
  tlo : (2:ℚ) ^ (F.emin - ((F.p:Int) - 1)) ≤ t
  thi : t < (2:ℚ) ^ (F.emax + 1)
  klo : (2:ℚ) ^ (2 * k) ≤ t
  khi : t < (2:ℚ) ^ (2 * k + 2)

/-- rounded quotient, rounded sum, halved sum -/
def dQ (F : Sem) (t y : ℚ) : ℚ := rnd (wide F) F.rm (t / y)
def sQ (F : Sem) (t y : ℚ) : ℚ := rnd (wide F) F.rm (y + dQ F t y)
def stepQ (F : Sem) (t y : ℚ) : ℚ := rnd (wide F) .nte (sQ F t y / 2)

/-- the loop invariant on magnitudes -/
structure Inv (F : Sem) (t : ℚ) (k : Int) (y : ℚ) : Prop where
  rep : IsRep (wide F) y
  lo : (2:ℚ) ^ k ≤ y
  hi : y ≤ max 2 t

section step
variable {F : Sem} {t : ℚ} {k : Int}

theorem Ctx.tpos (C : Ctx F t k) : 0 < t := lt_of_lt_of_le (by positivity) C.tlo

/-- the exponent arithmetic used everywhere -/
theorem Ctx.facts (C : Ctx F t k) :
    (wide F).emin = 2 * F.emin - 2 ∧ (wide F).emax = 2 * F.emax + 1 ∧ F.emin ≤ 0 ∧ 1 ≤ F.emax ∧
    F.emin + F.emax = 1 ∧ 2 * k ≤ F.emax ∧ F.emin - (F.p:Int) ≤ 2 * k ∧ 2 ≤ F.p ∧
    (wide F).p = F.p := by
  have two : (1:ℚ) < 2 := by norm_num
  have h1 : (2:ℚ) ^ (2 * k) < (2:ℚ) ^ (F.emax + 1) := lt_of_le_of_lt C.klo C.thi
  have h2 : (2:ℚ) ^ (F.emin - ((F.p:Int) - 1)) < (2:ℚ) ^ (2 * k + 2) := lt_of_le_of_lt C.tlo C.khi
  have h1' := (zpow_lt_zpow_iff_right₀ two).mp h1
  have h2' := (zpow_lt_zpow_iff_right₀ two).mp h2
  exact ⟨wide_emin C.hF, wide_emax C.hF, Sem.emin_le_zero C.hF, Sem.emax_pos C.hF,
    emin_add_emax C.hF, by omega, by omega, C.hF.2, rfl⟩

theorem Ctx.max_le (C : Ctx F t k) : max 2 t ≤ (2:ℚ) ^ (F.emax + 1) := by
  obtain ⟨_, _, _, h4, _⟩ := C.facts
  apply _root_.max_le
  · calc (2:ℚ) = (2:ℚ) ^ (1:Int) := (zpow_one _).symm
      _ ≤ _ := zpow_le_zpow_right₀ (by norm_num) (by omega)
  · exact le_of_lt C.thi

theorem Ctx.max_rep (C : Ctx F t k) : IsRep (wide F) (max 2 t) := by
  obtain ⟨h1, h2, h3, h4, h5, h6, h7, h8, h9⟩ := C.facts
  rcases max_cases (2:ℚ) t with ⟨h, _⟩ | ⟨h, _⟩
  · rw [h]
    have := isRep_pow (wide_WF C.hF) 1 (by rw [h9]; omega) (by omega)
    rwa [zpow_one] at this
  · rw [h]; exact isRep_wide C.hF C.trep

theorem Ctx.pow_k_rep (C : Ctx F t k) : IsRep (wide F) ((2:ℚ) ^ k) := by
  obtain ⟨h1, h2, h3, h4, h5, h6, h7, h8, h9⟩ := C.facts
  exact isRep_pow (wide_WF C.hF) k (by rw [h9]; omega) (by omega)

theorem Inv.pos (_C : Ctx F t k) {y : ℚ} (I : Inv F t k y) : 0 < y :=
  lt_of_lt_of_le (by positivity) I.lo

/-- the quotient stays inside the wide format -/
theorem quot_bounds (C : Ctx F t k) {y : ℚ} (I : Inv F t k y) :
    (2:ℚ) ^ ((wide F).emin - ((F.p:Int) - 1)) ≤ t / y ∧ t / y ≤ (2:ℚ) ^ (k + 2) := by
  obtain ⟨h1, h2, h3, h4, h5, h6, h7, h8, h9⟩ := C.facts
  have hy := I.pos C
  have ht := C.tpos
  constructor
  · rw [le_div_iff₀ hy]
    have hy2 : y ≤ (2:ℚ) ^ (F.emax + 1) := le_trans I.hi C.max_le
    calc (2:ℚ) ^ ((wide F).emin - ((F.p:Int) - 1)) * y
        ≤ (2:ℚ) ^ ((wide F).emin - ((F.p:Int) - 1)) * (2:ℚ) ^ (F.emax + 1) :=
          mul_le_mul_of_nonneg_left hy2 (by positivity)
      _ = (2:ℚ) ^ (F.emin - ((F.p:Int) - 1)) := by
          rw [← zpow_add₀ (by norm_num : (2:ℚ) ≠ 0)]; congr 1; omega
      _ ≤ t := C.tlo
  · rw [div_le_iff₀ hy]
    calc t ≤ (2:ℚ) ^ (2 * k + 2) := le_of_lt C.khi
      _ = (2:ℚ) ^ (k + 2) * (2:ℚ) ^ k := by
          rw [← zpow_add₀ (by norm_num : (2:ℚ) ≠ 0)]; congr 1; ring
      _ ≤ (2:ℚ) ^ (k + 2) * y := mul_le_mul_of_nonneg_left I.lo (by positivity)

theorem eta_rep (C : Ctx F t k) : IsRep (wide F) ((2:ℚ) ^ ((wide F).emin - ((F.p:Int) - 1))) := by
  obtain ⟨h1, h2, h3, h4, h5, h6, h7, h8, h9⟩ := C.facts
  exact isRep_pow (wide_WF C.hF) _ (by rw [h9]) (by omega)

theorem d_bounds (C : Ctx F t k) {y : ℚ} (I : Inv F t k y) :
    IsRep (wide F) (dQ F t y) ∧ (2:ℚ) ^ ((wide F).emin - ((F.p:Int) - 1)) ≤ dQ F t y ∧
      dQ F t y ≤ (2:ℚ) ^ (k + 2) := by
  obtain ⟨h1, h2, h3, h4, h5, h6, h7, h8, h9⟩ := C.facts
  obtain ⟨q1, q2⟩ := quot_bounds C I
  have hk2 : IsRep (wide F) ((2:ℚ) ^ (k + 2)) :=
    isRep_pow (wide_WF C.hF) _ (by rw [h9]; omega) (by omega)
  obtain ⟨_, _, _, _, b1, b2⟩ := round_between (wide_WF C.hF) F.rm (by positivity) (eta_rep C) hk2 q1 q2
  exact ⟨rnd_isRep (wide_WF C.hF) _ (lt_of_lt_of_le (by positivity) q1), b1, b2⟩

theorem d_pos (C : Ctx F t k) {y : ℚ} (I : Inv F t k y) : 0 < dQ F t y :=
  lt_of_lt_of_le (by positivity) (d_bounds C I).2.1

theorem sum_le (C : Ctx F t k) {y : ℚ} (I : Inv F t k y) :
    y + dQ F t y ≤ (2:ℚ) ^ (F.emax + 2) := by
  obtain ⟨h1, h2, h3, h4, h5, h6, h7, h8, h9⟩ := C.facts
  have hy2 : y ≤ (2:ℚ) ^ (F.emax + 1) := le_trans I.hi C.max_le
  have hd : dQ F t y ≤ (2:ℚ) ^ (F.emax + 1) :=
    le_trans (d_bounds C I).2.2 (zpow_le_zpow_right₀ (by norm_num) (by omega))
  have : (2:ℚ) ^ (F.emax + 2) = 2 * (2:ℚ) ^ (F.emax + 1) := by
    rw [show F.emax + 2 = (F.emax + 1) + 1 by ring, zpow_add₀ (by norm_num : (2:ℚ) ≠ 0), zpow_one]; ring
  linarith

theorem top_rep (C : Ctx F t k) : IsRep (wide F) ((2:ℚ) ^ (F.emax + 2)) := by
  obtain ⟨h1, h2, h3, h4, h5, h6, h7, h8, h9⟩ := C.facts
  exact isRep_pow (wide_WF C.hF) _ (by rw [h9]; omega) (by omega)

theorem s_bounds (C : Ctx F t k) {y : ℚ} (I : Inv F t k y) :
    IsRep (wide F) (sQ F t y) ∧ y ≤ sQ F t y ∧ sQ F t y ≤ (2:ℚ) ^ (F.emax + 2) := by
  have hy := I.pos C
  have hd := d_pos C I
  obtain ⟨_, _, _, _, b1, b2⟩ := round_between (wide_WF C.hF) F.rm hy I.rep (top_rep C)
    (by linarith : y ≤ y + dQ F t y) (sum_le C I)
  exact ⟨rnd_isRep (wide_WF C.hF) _ (by linarith), b1, b2⟩

theorem half_top_rep (C : Ctx F t k) : IsRep (wide F) ((2:ℚ) ^ (F.emax + 1)) := by
  obtain ⟨h1, h2, h3, h4, h5, h6, h7, h8, h9⟩ := C.facts
  exact isRep_pow (wide_WF C.hF) _ (by rw [h9]; omega) (by omega)

theorem half_s_le (C : Ctx F t k) {y : ℚ} (I : Inv F t k y) :
    sQ F t y / 2 ≤ (2:ℚ) ^ (F.emax + 1) := by
  have := (s_bounds C I).2.2
  have e : (2:ℚ) ^ (F.emax + 2) = 2 * (2:ℚ) ^ (F.emax + 1) := by
    rw [show F.emax + 2 = (F.emax + 1) + 1 by ring, zpow_add₀ (by norm_num : (2:ℚ) ≠ 0), zpow_one]; ring
  linarith

theorem s_pos (C : Ctx F t k) {y : ℚ} (I : Inv F t k y) : 0 < sQ F t y :=
  lt_of_lt_of_le (I.pos C) (s_bounds C I).2.1

/-- **Lower invariant**: a representable `a` with `a² ≤ t` below the iterate stays below the
    next iterate (the two roundings are monotone and exact on `2a - y` and `2a`) -/
theorem step_ge (C : Ctx F t k) {y : ℚ} (I : Inv F t k y) {a : ℚ} (ha : IsRep (wide F) a)
    (ha0 : 0 < a) (hat : a * a ≤ t) (hay : a ≤ y) : a ≤ stepQ F t y := by
  obtain ⟨h1, h2, h3, h4, h5, h6, h7, h8, h9⟩ := C.facts
  have hW := wide_WF C.hF
  have hy := I.pos C
  have hy2 : y ≤ (2:ℚ) ^ (F.emax + 1) := le_trans I.hi C.max_le
  have e2 : (2:ℚ) ^ (F.emax + 2) = 2 * (2:ℚ) ^ (F.emax + 1) := by
    rw [show F.emax + 2 = (F.emax + 1) + 1 by ring, zpow_add₀ (by norm_num : (2:ℚ) ≠ 0), zpow_one]; ring
  have h2a : IsRep (wide F) (2 * a) := by
    apply isRep_two_mul hW ha
    calc 2 * a ≤ (2:ℚ) ^ (F.emax + 2) := by linarith
      _ < _ := zpow_lt_zpow_right₀ (by norm_num) (by omega)
  -- the sum is at least `2a`
  have hsum : 2 * a ≤ y + dQ F t y := by
    by_cases hc : 2 * a ≤ y
    · have := d_pos C I; linarith
    · have hc := not_le.mp hc
      have hrep := isRep_two_sub hW ha I.rep hay hc
      have hq : 2 * a - y ≤ t / y := by
        rw [le_div_iff₀ hy]; nlinarith [sq_nonneg (a - y)]
      obtain ⟨q1, q2⟩ := quot_bounds C I
      have hk2 : IsRep (wide F) ((2:ℚ) ^ (k + 2)) :=
        isRep_pow hW _ (by rw [h9]; omega) (by omega)
      have := rnd_ge hW F.rm (by linarith : 0 < 2 * a - y) hrep hq hk2 q2
      unfold dQ; linarith
  have hs : 2 * a ≤ sQ F t y :=
    rnd_ge hW F.rm (by linarith) h2a hsum (top_rep C) (sum_le C I)
  exact rnd_ge hW .nte ha0 ha (by linarith) (half_top_rep C) (half_s_le C I)

/-- **Decrease**: above the root the next iterate is not larger -/
theorem step_le_self (C : Ctx F t k) {y : ℚ} (I : Inv F t k y) (hty : t < y * y) :
    stepQ F t y ≤ y := by
  obtain ⟨h1, h2, h3, h4, h5, h6, h7, h8, h9⟩ := C.facts
  have hW := wide_WF C.hF
  have hy := I.pos C
  have hy2 : y ≤ (2:ℚ) ^ (F.emax + 1) := le_trans I.hi C.max_le
  have e2 : (2:ℚ) ^ (F.emax + 2) = 2 * (2:ℚ) ^ (F.emax + 1) := by
    rw [show F.emax + 2 = (F.emax + 1) + 1 by ring, zpow_add₀ (by norm_num : (2:ℚ) ≠ 0), zpow_one]; ring
  have h2y : IsRep (wide F) (2 * y) := by
    apply isRep_two_mul hW I.rep
    calc 2 * y ≤ (2:ℚ) ^ (F.emax + 2) := by linarith
      _ < _ := zpow_lt_zpow_right₀ (by norm_num) (by omega)
  have hq : t / y ≤ y := by rw [div_le_iff₀ hy]; linarith
  have hd : dQ F t y ≤ y := rnd_le hW F.rm (div_pos C.tpos hy) I.rep hq
  have hs : sQ F t y ≤ 2 * y :=
    rnd_le hW F.rm (by have := d_pos C I; linarith) h2y (by linarith)
  exact rnd_le hW .nte (by have := s_pos C I; linarith) I.rep (by linarith)

/-- **Upper invariant**: no iterate exceeds the starting point `max(2, t)` -/
theorem step_le_max (C : Ctx F t k) {y : ℚ} (I : Inv F t k y) : stepQ F t y ≤ max 2 t := by
  obtain ⟨h1, h2, h3, h4, h5, h6, h7, h8, h9⟩ := C.facts
  have hW := wide_WF C.hF
  have hy := I.pos C
  have ht := C.tpos
  have hspos := s_pos C I
  have hdpos := d_pos C I
  by_cases hy1 : 1 ≤ y
  · have hmax := C.max_le
    have e2 : (2:ℚ) ^ (F.emax + 2) = 2 * (2:ℚ) ^ (F.emax + 1) := by
      rw [show F.emax + 2 = (F.emax + 1) + 1 by ring, zpow_add₀ (by norm_num : (2:ℚ) ≠ 0), zpow_one]; ring
    have h2m : IsRep (wide F) (2 * max 2 t) := by
      apply isRep_two_mul hW C.max_rep
      calc 2 * max 2 t ≤ (2:ℚ) ^ (F.emax + 2) := by linarith
        _ < _ := zpow_lt_zpow_right₀ (by norm_num) (by omega)
    have hq : t / y ≤ max 2 t := by
      rw [div_le_iff₀ hy]
      have : t ≤ max 2 t := le_max_right _ _
      nlinarith
    have hd : dQ F t y ≤ max 2 t := rnd_le hW F.rm (div_pos ht hy) C.max_rep hq
    have hs : sQ F t y ≤ 2 * max 2 t :=
      rnd_le hW F.rm (by linarith) h2m (by have := I.hi; linarith)
    exact rnd_le hW .nte (by linarith) C.max_rep (by linarith)
  · have hy1 := not_le.mp hy1
    have hk : k + 2 ≤ 1 := by
      have : (2:ℚ) ^ k < (2:ℚ) ^ (0:Int) := by rw [zpow_zero]; exact lt_of_le_of_lt I.lo hy1
      have := (zpow_lt_zpow_iff_right₀ (by norm_num : (1:ℚ) < 2)).mp this
      omega
    have hd : dQ F t y ≤ 2 := by
      calc dQ F t y ≤ (2:ℚ) ^ (k + 2) := (d_bounds C I).2.2
        _ ≤ (2:ℚ) ^ (1:Int) := zpow_le_zpow_right₀ (by norm_num) hk
        _ = 2 := zpow_one _
    have r4 : IsRep (wide F) 4 := by
      have := isRep_pow hW 2 (by rw [h9]; omega) (by omega)
      norm_num at this; exact this
    have r2 : IsRep (wide F) 2 := by
      have := isRep_pow hW 1 (by rw [h9]; omega) (by omega)
      rwa [zpow_one] at this
    have hs : sQ F t y ≤ 4 := rnd_le hW F.rm (by linarith) r4 (by linarith)
    have : stepQ F t y ≤ 2 := rnd_le hW .nte (by linarith) r2 (by linarith)
    exact le_trans this (le_max_left _ _)

theorem step_pos (C : Ctx F t k) {y : ℚ} (I : Inv F t k y) : 0 < stepQ F t y := by
  have := step_ge C I C.pow_k_rep (by positivity) (by
    rw [← zpow_add₀ (by norm_num : (2:ℚ) ≠ 0)]
    rw [show k + k = 2 * k by ring]; exact C.klo) I.lo
  exact lt_of_lt_of_le (by positivity) this

/-- the invariant is preserved -/
theorem step_inv (C : Ctx F t k) {y : ℚ} (I : Inv F t k y) : Inv F t k (stepQ F t y) := by
  refine ⟨rnd_isRep (wide_WF C.hF) _ (by have := s_pos C I; linarith), ?_, step_le_max C I⟩
  exact step_ge C I C.pow_k_rep (by positivity) (by
    rw [← zpow_add₀ (by norm_num : (2:ℚ) ≠ 0)]
    rw [show k + k = 2 * k by ring]; exact C.klo) I.lo

/-- the starting point satisfies the invariant -/
theorem inv_start (C : Ctx F t k) : Inv F t k (max 2 t) := by
  obtain ⟨h1, h2, h3, h4, h5, h6, h7, h8, h9⟩ := C.facts
  refine ⟨C.max_rep, ?_, le_refl _⟩
  by_cases hk : k ≤ 1
  · calc (2:ℚ) ^ k ≤ (2:ℚ) ^ (1:Int) := zpow_le_zpow_right₀ (by norm_num) hk
      _ = 2 := zpow_one _
      _ ≤ _ := le_max_left _ _
  · calc (2:ℚ) ^ k ≤ (2:ℚ) ^ (2 * k) := zpow_le_zpow_right₀ (by norm_num) (by omega)
      _ ≤ t := C.klo
      _ ≤ _ := le_max_right _ _

end step


/-! ## 7. the lower envelope: every representable `a` with `a² ≤ t` stays below the iterates -/

def Low (F : Sem) (t y : ℚ) : Prop := ∀ a, IsRep (wide F) a → 0 < a → a * a ≤ t → a ≤ y

theorem low_start (F : Sem) (t : ℚ) : Low F t (max 2 t) := by
  intro a _ ha0 hat
  by_cases h : a ≤ 1
  · exact le_trans (by linarith) (le_max_left _ _)
  · have : a ≤ a * a := by nlinarith
    exact le_trans (by linarith) (le_max_right _ _)

theorem low_step {F : Sem} {t : ℚ} {k : Int} (C : Ctx F t k) {y : ℚ} (I : Inv F t k y)
    (L : Low F t y) : Low F t (stepQ F t y) :=
  fun a ha ha0 hat => step_ge C I ha ha0 hat (L a ha ha0 hat)

/-! ## 8. one step of the loop on floating-point values -/

/-- the body of the loop -/
def stepF (tg y : Flt) : Flt := (y.add (tg.div y)).scale (-1) .nte

theorem sqrtLoop_succ (sem : Sem) (fuel : Nat) (tg y prev : Flt) :
    sqrtLoop sem (fuel + 1) tg y prev =
      if prev.lt (stepF tg y) || (stepF tg y).beq prev then some ((stepF tg y).cast sem)
      else sqrtLoop sem fuel tg (stepF tg y) (stepF tg y) := rfl

section stepF
variable {F : Sem} {t : ℚ} {k : Int}

theorem stepF_spec (C : Ctx F t k) {tg y : Flt} (htg : PosN (wide F) tg) (htm : tg.mag = t)
    (hy : PosN (wide F) y) (I : Inv F t k y.mag) :
    PosN (wide F) (stepF tg y) ∧ (stepF tg y).mag = stepQ F t y.mag := by
  obtain ⟨h1, h2, h3, h4, h5, h6, h7, h8, h9⟩ := C.facts
  have hW := wide_WF C.hF
  obtain ⟨q1, q2⟩ := quot_bounds C I
  have hk2 : IsRep (wide F) ((2:ℚ) ^ (k + 2)) :=
    isRep_pow hW _ (by rw [h9]; omega) (by omega)
  obtain ⟨d1, d2⟩ := div_posN hW htg hy (by positivity) (eta_rep C) hk2 (by rw [htm]; exact q1)
    (by rw [htm]; exact q2)
  rw [htm] at d2
  have d2' : (tg.div y).mag = dQ F t y.mag := d2
  have hdpos := d_pos C I
  have hypos := I.pos C
  obtain ⟨s1, s2⟩ := add_posN hW hy d1 hypos I.rep (top_rep C)
    (by rw [d2']; linarith) (by rw [d2']; exact sum_le C I)
  rw [d2'] at s2
  have s2' : (y.add (tg.div y)).mag = sQ F t y.mag := s2
  have hk1 : IsRep (wide F) ((2:ℚ) ^ (k - 1)) :=
    isRep_pow hW _ (by rw [h9]; omega) (by omega)
  have hlo : (2:ℚ) ^ (k - 1) ≤ sQ F t y.mag / 2 := by
    have := (s_bounds C I).2.1
    have := I.lo
    have e : (2:ℚ) ^ k = 2 * (2:ℚ) ^ (k - 1) := by
      rw [show k = (k - 1) + 1 by ring, zpow_add₀ (by norm_num : (2:ℚ) ≠ 0), zpow_one]
      simp only [add_sub_cancel_right]; ring
    linarith
  obtain ⟨y1, y2⟩ := half_posN hW s1 (by positivity) hk1 (half_top_rep C)
    (by rw [s2']; exact hlo) (by rw [s2']; exact half_s_le C I)
  rw [s2'] at y2
  exact ⟨y1, y2⟩

/-- what the loop returns: the cast of `step b` for an iterate `b` with `b ≤ step b` -/
theorem loop_result (C : Ctx F t k) {tg : Flt} (htg : PosN (wide F) tg) (htm : tg.mag = t) :
    ∀ (fuel : Nat) (y r : Flt), PosN (wide F) y → Inv F t k y.mag → Low F t y.mag →
      sqrtLoop F fuel tg y y = some r →
      ∃ b : Flt, PosN (wide F) b ∧ Inv F t k b.mag ∧ Low F t b.mag ∧
        b.mag ≤ (stepF tg b).mag ∧ r = (stepF tg b).cast F := by
  intro fuel
  induction fuel with
  | zero => intro y r _ _ _ h; simp [sqrtLoop] at h
  | succ n ih =>
    intro y r hy I L h
    obtain ⟨p1, p2⟩ := stepF_spec C htg htm hy I
    rw [sqrtLoop_succ] at h
    by_cases hc : (y.lt (stepF tg y) || (stepF tg y).beq y) = true
    · rw [if_pos hc] at h
      refine ⟨y, hy, I, L, ?_, (Option.some.inj h).symm⟩
      rw [Bool.or_eq_true] at hc
      rcases hc with hc | hc
      · exact le_of_lt ((lt_posN (wide_WF C.hF) hy p1).mp hc)
      · exact le_of_eq ((beq_posN (wide_WF C.hF) p1 hy).mp hc).symm
    · rw [if_neg hc] at h
      exact ih _ r p1 (by rw [p2]; exact step_inv C I) (by rw [p2]; exact low_step C I L) h

/-- more fuel does not change a result -/
theorem sqrtLoop_mono (sem : Sem) (tg : Flt) :
    ∀ (n : Nat) (y prev r : Flt), sqrtLoop sem n tg y prev = some r →
      sqrtLoop sem (n + 1) tg y prev = some r := by
  intro n
  induction n with
  | zero => intro y prev r h; simp [sqrtLoop] at h
  | succ n ih =>
    intro y prev r h
    rw [sqrtLoop_succ] at h ⊢
    split at h
    · rename_i hc; rw [if_pos hc]; exact h
    · rename_i hc; rw [if_neg hc]; exact ih _ _ _ h

/-- a measure that decreases with the magnitude -/
def mu (W : Sem) (y : Flt) : Nat := (y.exp - W.emin).toNat * 2 ^ W.p + y.mant

theorem mu_lt {W : Sem} (hW : W.WF) {a b : Flt} (ha : PosN W a) (hb : PosN W b)
    (h : a.mag < b.mag) : mu W a < mu W b := by
  have hFa : a.sem.WF := by rw [ha.sem]; exact hW
  obtain ⟨a1, _, _, a4, _⟩ := (Flt.canonical_normal ha.cat).mp ha.can
  obtain ⟨b1, _, _, b4, _⟩ := (Flt.canonical_normal hb.cat).mp hb.can
  rw [ha.sem] at a1 a4
  rw [hb.sem] at b1 b4
  unfold mu
  rcases (Flt.mag_lt_iff hFa (hb.sem.trans ha.sem.symm) ha.cat hb.cat ha.can hb.can).mp h with h' | ⟨h1, h2⟩
  · have : (a.exp - W.emin).toNat + 1 ≤ (b.exp - W.emin).toNat := by omega
    have := Nat.mul_le_mul_right (2 ^ W.p) this
    rw [Nat.add_mul, Nat.one_mul] at this
    omega
  · rw [h1]; omega

theorem loop_terminates (C : Ctx F t k) {tg : Flt} (htg : PosN (wide F) tg) (htm : tg.mag = t) :
    ∀ (fuel : Nat) (y : Flt), PosN (wide F) y → Inv F t k y.mag → mu (wide F) y < fuel →
      ∃ r, sqrtLoop F fuel tg y y = some r := by
  intro fuel
  induction fuel with
  | zero => intro y _ _ h; omega
  | succ n ih =>
    intro y hy I hmu
    obtain ⟨p1, p2⟩ := stepF_spec C htg htm hy I
    rw [sqrtLoop_succ]
    by_cases hc : (y.lt (stepF tg y) || (stepF tg y).beq y) = true
    · rw [if_pos hc]; exact ⟨_, rfl⟩
    · rw [if_neg hc]
      rw [Bool.or_eq_true, not_or] at hc
      have c1 : ¬ y.mag < (stepF tg y).mag := fun h => hc.1 ((lt_posN (wide_WF C.hF) hy p1).mpr h)
      have c2 : ¬ (stepF tg y).mag = y.mag := fun h => hc.2 ((beq_posN (wide_WF C.hF) p1 hy).mpr h)
      have hlt : (stepF tg y).mag < y.mag := lt_of_le_of_ne (not_lt.mp c1) c2
      have := mu_lt (wide_WF C.hF) p1 hy hlt
      exact ih _ p1 (by rw [p2]; exact step_inv C I) (by omega)

theorem mu_bound {W : Sem} {y : Flt} (hy : PosN W y) :
    mu W y < ((W.emax - W.emin).toNat + 1) * 2 ^ W.p := by
  obtain ⟨a1, a2, _, a4, _⟩ := (Flt.canonical_normal hy.cat).mp hy.can
  rw [hy.sem] at a1 a2 a4
  unfold mu
  have : (y.exp - W.emin).toNat ≤ (W.emax - W.emin).toNat := by omega
  have := Nat.mul_le_mul_right (2 ^ W.p) this
  rw [Nat.add_mul, Nat.one_mul]
  omega

/-- the final cast back to `F` -/
theorem final_cast (C : Ctx F t k) {y : Flt} (hy : PosN (wide F) y)
    (hlo : (2:ℚ) ^ (F.emin - ((F.p:Int) - 1)) ≤ y.mag) (hhi : y.mag ≤ max 2 t) :
    PosN F (y.cast F) ∧ (y.cast F).mag = rnd F F.rm y.mag := by
  obtain ⟨h1, h2, h3, h4, h5, h6, h7, h8, h9⟩ := C.facts
  have hF := C.hF
  have r1 : IsRep F ((2:ℚ) ^ (F.emin - ((F.p:Int) - 1))) :=
    isRep_pow hF _ (le_refl _) (by omega)
  have r2 : IsRep F (max 2 t) := by
    rcases max_cases (2:ℚ) t with ⟨h, _⟩ | ⟨h, _⟩
    · rw [h]
      have := isRep_pow hF 1 (by omega) (by omega)
      rwa [zpow_one] at this
    · rw [h]; exact C.trep
  obtain ⟨e, m, hr, -, -, -⟩ := round_between hF F.rm (by positivity) r1 r2 hlo hhi
  have hq : 0 < y.mag := hy.mag_pos
  have hcast : y.cast F = y.castWithRm F F.rm := by unfold Flt.cast; rw [hy.sem]; rfl
  have hc := cast_normal y F F.rm (by rw [hy.sem]; exact wide_WF hF) hF hy.cat hy.can
  rw [hy.sign] at hc
  rw [hcast]
  exact posN_of_round hF (castWithRm_sem _ _ _) hq hr hc

end stepF


/-! ## 9. the setting of `sqrt` -/

/-- `k = ⌊⌊log₂ t⌋ / 2⌋`, so that `4^k ≤ t < 4^(k+1)` -/
def kOf (t : ℚ) : Int := ilog2 t / 2

theorem ctx_of {x : Flt} (hF : x.sem.WF) (hx : PosN x.sem x) : Ctx x.sem x.mag (kOf x.mag) := by
  have hq := hx.mag_pos
  obtain ⟨l1, l2⟩ := ilog2_spec hq
  obtain ⟨b1, b2⟩ := C10.mag_bounds x hx.cat hx.can
  refine ⟨hF, hx.isRep, b1, b2, ?_, ?_⟩
  · exact le_trans (zpow_le_zpow_right₀ (by norm_num) (by unfold kOf; omega)) l1
  · exact lt_of_lt_of_le l2 (zpow_le_zpow_right₀ (by norm_num) (by unfold kOf; omega))

/-- the three start values: widened argument, the constant two, their maximum -/
def target (x : Flt) : Flt := x.castWithRm (wide x.sem) .zero
def x0 (x : Flt) : Flt :=
  if (target x).lt (fromU64 (wide x.sem) 2) then fromU64 (wide x.sem) 2 else target x

theorem target_spec {x : Flt} (hF : x.sem.WF) (hx : PosN x.sem x) :
    PosN (wide x.sem) (target x) ∧ (target x).mag = x.mag := by
  obtain ⟨a, b, c, d, e⟩ := C06.widen_lossless_normal x (wide x.sem) .zero
    (by simp [Sem.increaseExponent]) (le_refl _) hF (wide_WF hF) hx.cat hx.can
  exact ⟨⟨a, c, b, d.trans hx.sign⟩, e⟩

theorem two_spec {W : Sem} (hW : W.WF) : PosN W (fromU64 W 2) ∧ (fromU64 W 2).mag = 2 := by
  have hc := C08.fromU64_correct W 2 hW (by norm_num)
  rw [C08.fromNat_pos _ _ _ (by norm_num)] at hc
  have r2 : IsRep W ((2:ℕ):ℚ) := by
    have := isRep_pow hW 1 (by have := Sem.emin_le_zero hW; have := hW.2; omega)
      (Sem.emax_pos hW)
    rw [zpow_one] at this; exact_mod_cast this
  obtain ⟨e, m, hr, -, -, -⟩ := round_between hW .nte (by norm_num) r2 r2 (le_refl _) (le_refl _)
  obtain ⟨p1, p2⟩ := posN_of_round hW (fromU64_canonical W 2 hW).2 (by norm_num) hr hc
  refine ⟨p1, ?_⟩
  rw [p2, rnd_rep hW .nte r2 (by norm_num)]; norm_num

theorem x0_spec {x : Flt} (hF : x.sem.WF) (hx : PosN x.sem x) :
    PosN (wide x.sem) (x0 x) ∧ (x0 x).mag = max 2 x.mag := by
  obtain ⟨t1, t2⟩ := target_spec hF hx
  obtain ⟨w1, w2⟩ := two_spec (wide_WF hF)
  unfold x0
  by_cases h : (target x).lt (fromU64 (wide x.sem) 2) = true
  · rw [if_pos h]
    have := (lt_posN (wide_WF hF) t1 w1).mp h
    rw [t2, w2] at this
    exact ⟨w1, by rw [w2, max_eq_left (le_of_lt this)]⟩
  · rw [if_neg h]
    have := mt (lt_posN (wide_WF hF) t1 w1).mpr h
    rw [t2, w2] at this
    exact ⟨t1, by rw [t2, max_eq_right (not_lt.mp this)]⟩

theorem sqrtFuel_posN {x : Flt} (hx : PosN x.sem x) (fuel : Nat) :
    x.sqrtFuel fuel = sqrtLoop x.sem fuel (target x) (x0 x) (x0 x) := by
  unfold Flt.sqrtFuel
  simp only [Flt.isZero, Flt.isNan, Flt.isInf, hx.cat, hx.sign]
  rfl


theorem eta_sq_le {F : Sem} {t : ℚ} {k : Int} (C : Ctx F t k) :
    (2:ℚ) ^ (F.emin - ((F.p:Int) - 1)) * (2:ℚ) ^ (F.emin - ((F.p:Int) - 1)) ≤ t := by
  obtain ⟨h1, h2, h3, h4, h5, h6, h7, h8, h9⟩ := C.facts
  have h0 : (0:ℚ) < (2:ℚ) ^ (F.emin - ((F.p:Int) - 1)) := by positivity
  have h1' : (2:ℚ) ^ (F.emin - ((F.p:Int) - 1)) ≤ 1 := by
    calc (2:ℚ) ^ (F.emin - ((F.p:Int) - 1)) ≤ (2:ℚ) ^ (0:Int) :=
          zpow_le_zpow_right₀ (by norm_num) (by omega)
      _ = 1 := zpow_zero _
  have := C.tlo
  nlinarith

/-- **What `sqrt` returns** for a positive finite argument, on rationals: there is an iterate
    `b` (satisfying the invariants) at which the loop stopped, `b ≤ step b`, and the result is
    `step b` rounded into the original format. -/
theorem sqrt_result {x : Flt} (hF : x.sem.WF) (hx : PosN x.sem x) {fuel : Nat} {r : Flt}
    (h : x.sqrtFuel fuel = some r) :
    ∃ b : ℚ, Inv x.sem x.mag (kOf x.mag) b ∧ Low x.sem x.mag b ∧ b ≤ stepQ x.sem x.mag b ∧
      (2:ℚ) ^ (x.sem.emin - ((x.sem.p:Int) - 1)) ≤ stepQ x.sem x.mag b ∧
      PosN x.sem r ∧ r.mag = rnd x.sem x.sem.rm (stepQ x.sem x.mag b) := by
  have C := ctx_of hF hx
  obtain ⟨t1, t2⟩ := target_spec hF hx
  obtain ⟨s1, s2⟩ := x0_spec hF hx
  rw [sqrtFuel_posN hx] at h
  obtain ⟨b, hb, I, L, hle, hr⟩ := loop_result C t1 t2 fuel (x0 x) r s1
    (by rw [s2]; exact inv_start C) (by rw [s2]; exact low_start _ _) h
  obtain ⟨p1, p2⟩ := stepF_spec C t1 t2 hb I
  have hlow := low_step C I L _ (isRep_wide hF (isRep_pow hF (x.sem.emin - ((x.sem.p:Int) - 1))
    (le_refl _) (by have := Sem.emin_le_emax hF; have := hF.2; omega))) (by positivity) (eta_sq_le C)
  obtain ⟨c1, c2⟩ := final_cast C p1 (by rw [p2]; exact hlow) (by rw [p2]; exact step_le_max C I)
  rw [p2] at hle c2
  exact ⟨b.mag, I, L, hle, hlow, by rw [hr]; exact c1, by rw [hr]; exact c2⟩

theorem sqrt_fuel {x : Flt} (hF : x.sem.WF) (hx : PosN x.sem x) {fuel : Nat}
    (h : ((wide x.sem).emax - (wide x.sem).emin).toNat * 2 ^ x.sem.p + 2 ^ x.sem.p ≤ fuel) :
    ∃ r, x.sqrtFuel fuel = some r := by
  have C := ctx_of hF hx
  obtain ⟨t1, t2⟩ := target_spec hF hx
  obtain ⟨s1, s2⟩ := x0_spec hF hx
  rw [sqrtFuel_posN hx]
  apply loop_terminates C t1 t2 fuel (x0 x) s1 (by rw [s2]; exact inv_start C)
  have := mu_bound s1
  rw [Nat.add_mul, Nat.one_mul, wide_p] at this
  omega


/-! ## 10. grid points and rounding below a midpoint -/

/-- every multiple `M·ulp e` with `M ≤ 2^p` (exponent in range) is representable -/
theorem isRep_mul_ulp {F : Sem} (hF : F.WF) (M : Nat) (e : Int) (hM : M ≤ 2 ^ F.p)
    (he1 : F.emin ≤ e) (he2 : e + 1 ≤ F.emax) : IsRep F ((M:ℚ) * F.ulp e) := by
  rcases Nat.lt_or_eq_of_le hM with h | h
  · rw [Sem.ulp_def]
    apply isRep_of_lt hF M _ h (by omega)
    have hmq : (M:ℚ) < (2:ℚ) ^ F.p := by exact_mod_cast h
    calc (M:ℚ) * (2:ℚ) ^ (e - ((F.p:Int) - 1)) < (2:ℚ) ^ F.p * F.ulp e :=
          mul_lt_mul_of_pos_right hmq (F.ulp_pos e)
      _ = (2:ℚ) ^ (e + 1) := F.pow_mul_ulp e
      _ ≤ _ := zpow_le_zpow_right₀ (by norm_num) (by omega)
  · rw [h]; push_cast; rw [F.pow_mul_ulp]
    exact isRep_pow hF _ (by have := hF.2; omega) he2

/-- nearest modes: a value below the midpoint `(M + 1/2)·ulp e` rounds to at most `M·ulp e` -/
theorem rnd_near_le {F : Sem} (hF : F.WF) {rm : RM} (hrm : rm = .nte ∨ rm = .nta) {q : ℚ}
    (hq : 0 < q) {e : Int} {M : Nat} (he1 : F.emin ≤ e) (he2 : e ≤ F.emax) (hM : M < 2 ^ F.p)
    (hn : 2 ^ (F.p - 1) ≤ M ∨ e = F.emin) (h : q < ((M:ℚ) + 1/2) * F.ulp e) :
    rnd F rm q ≤ (M:ℚ) * F.ulp e := by
  have hu := F.ulp_pos e
  by_cases hle : q ≤ (M:ℚ) * F.ulp e
  · exact rnd_le hF rm hq ⟨e, M, he1, he2, hM, hn, by rw [Sem.ulp_def]⟩ hle
  · have hlt := not_le.mp hle
    have hf0 : 0 ≤ q / F.ulp e - M := by
      rw [sub_nonneg, le_div_iff₀ hu]; exact le_of_lt hlt
    have hf1 : q / F.ulp e - M < 1/2 := by
      rw [sub_lt_iff_lt_add, div_lt_iff₀ hu]; linarith
    have d : Decomp F q e M (q / F.ulp e - M) :=
      ⟨he1, hf0, by linarith, by field_simp; ring, hM, hn⟩
    have hup : Spec.up rm false M (q / F.ulp e - M) = false := by
      cases hb : Spec.up rm false M (q / F.ulp e - M)
      · rfl
      · have := up_nearest_true hrm hb; linarith
    have ho : ¬ Ovf F e M (Spec.up rm false M (q / F.ulp e - M)) := by
      rw [hup]; rintro (h' | ⟨_, _, h'⟩)
      · omega
      · exact absurd h' (by decide)
    obtain ⟨_, hmag, _⟩ := d.round_not_ovf_mag hF hq rm false ho M (by rw [hup]; rfl)
    unfold rnd; rw [hmag]

theorem ulp_pred (F : Sem) (e : Int) : F.ulp e = 2 * F.ulp (e - 1) := by
  have := F.ulp_succ (e - 1); rwa [sub_add_cancel] at this


/-! ## 11. analysis of the step at which the loop stops (abstract form) -/

/-- one step: `d = rnd(t/b)`, `s = rnd(b+d)`, `y' = rnd_nte(s/2)`, all positive -/
structure Stp (W : Sem) (rm : RM) (t b d s y' : ℚ) : Prop where
  hW : W.WF
  tpos : 0 < t
  bpos : 0 < b
  dpos : 0 < d
  spos : 0 < s
  hd : d = rnd W rm (t / b)
  hs : s = rnd W rm (b + d)
  hy : y' = rnd W .nte (s / 2)

section stp
variable {W : Sem} {rm : RM} {t b d s y' : ℚ}

theorem Stp.d_le_mono (S : Stp W rm t b d s y') {D : ℚ} (hD : IsRep W D) (h : t ≤ D * b) :
    d ≤ D := by
  rw [S.hd]
  exact rnd_le S.hW rm (div_pos S.tpos S.bpos) hD (by rw [div_le_iff₀ S.bpos]; exact h)

theorem Stp.d_le_near (S : Stp W rm t b d s y') (hrm : rm = .nte ∨ rm = .nta) {e : Int} {M : Nat}
    (he1 : W.emin ≤ e) (he2 : e ≤ W.emax) (hM : M < 2 ^ W.p) (hn : 2 ^ (W.p - 1) ≤ M ∨ e = W.emin)
    (h : t < ((M:ℚ) + 1/2) * W.ulp e * b) : d ≤ (M:ℚ) * W.ulp e := by
  rw [S.hd]
  exact rnd_near_le S.hW hrm (div_pos S.tpos S.bpos) he1 he2 hM hn
    (by rw [div_lt_iff₀ S.bpos]; exact h)

theorem Stp.s_le_mono (S : Stp W rm t b d s y') {X : ℚ} (hX : IsRep W X) (h : b + d ≤ X) :
    s ≤ X := by
  rw [S.hs]
  exact rnd_le S.hW rm (by have := S.bpos; have := S.dpos; linarith) hX h

theorem Stp.s_le_near (S : Stp W rm t b d s y') (hrm : rm = .nte ∨ rm = .nta) {e : Int} {M : Nat}
    (he1 : W.emin ≤ e) (he2 : e ≤ W.emax) (hM : M < 2 ^ W.p) (hn : 2 ^ (W.p - 1) ≤ M ∨ e = W.emin)
    (h : b + d < ((M:ℚ) + 1/2) * W.ulp e) : s ≤ (M:ℚ) * W.ulp e := by
  rw [S.hs]
  exact rnd_near_le S.hW hrm (by have := S.bpos; have := S.dpos; linarith) he1 he2 hM hn h

theorem Stp.y_le (S : Stp W rm t b d s y') {Y : ℚ} (hY : IsRep W Y) (h : s ≤ 2 * Y) : y' ≤ Y := by
  rw [S.hy]
  exact rnd_le S.hW .nte (by have := S.spos; linarith) hY (by linarith)

/-- canonical form of the iterate: `b = m·ulp e` (normal, or in the lowest binade where the
    grid is uniform down to zero; there `m ≥ 4`), with room above -/
structure NF (W : Sem) (b : ℚ) (m : Nat) (e : Int) : Prop where
  hb : b = (m:ℚ) * W.ulp e
  m1 : 2 ^ (W.p - 1) ≤ m ∨ e = W.emin
  m2 : m < 2 ^ W.p
  e1 : W.emin ≤ e
  e2 : e + 2 ≤ W.emax
  m4 : e = W.emin → 4 ≤ m

/-- **Case A, every mode**: if even `b - 2u` is above the root, the next iterate is below `b` -/
theorem stepA_dir (S : Stp W rm t b d s y') {m : Nat} {e : Int} (N : NF W b m e)
    (hm : 2 < m) (ht : t < (((m:ℚ) - 2) * W.ulp e) * (((m:ℚ) - 2) * W.ulp e)) :
    y' ≤ ((m:ℚ) - 1) * W.ulp e := by
  obtain ⟨n, rfl⟩ : ∃ n, m = n + 3 := ⟨m - 3, by omega⟩
  have hu := W.ulp_pos e
  have hb := N.hb
  have h2 := N.m2
  push_cast at ht hb ⊢
  have hW := S.hW
  have r1 : IsRep W (((n + 1 : Nat) : ℚ) * W.ulp e) :=
    isRep_mul_ulp hW _ e (by omega) N.e1 (by have := N.e2; omega)
  have r2 : IsRep W (((n + 2 : Nat) : ℚ) * W.ulp (e + 1)) :=
    isRep_mul_ulp hW _ (e + 1) (by omega) (by have := N.e1; omega) (by have := N.e2; omega)
  have r3 : IsRep W (((n + 2 : Nat) : ℚ) * W.ulp e) :=
    isRep_mul_ulp hW _ e (by omega) N.e1 (by have := N.e2; omega)
  rw [W.ulp_succ] at r2
  push_cast at r1 r2 r3
  have hn0 : (0:ℚ) ≤ n := Nat.cast_nonneg n
  have hd := S.d_le_mono r1 (by rw [hb]; nlinarith [mul_pos hu hu])
  have hs := S.s_le_mono r2 (by rw [hb]; nlinarith)
  have := S.y_le r3 (by linarith)
  linarith

/-- **Case A, nearest modes**: if `b - u` is at or above the root, the next iterate is below `b` -/
theorem stepA_near (S : Stp W rm t b d s y') (hrm : rm = .nte ∨ rm = .nta) {m : Nat} {e : Int}
    (N : NF W b m e) (ht : t ≤ (((m:ℚ) - 1) * W.ulp e) * (((m:ℚ) - 1) * W.ulp e)) : y' < b := by
  have hW := S.hW
  have hp2 := hW.2
  obtain ⟨P, hP⟩ : ∃ P, P = 2 ^ (W.p - 1) := ⟨_, rfl⟩
  have h2p : 2 ^ W.p = 2 * P := by rw [hP]; exact two_pow_pred_sr (by omega)
  have hP2 : 2 ≤ P := by
    rw [hP]
    calc 2 = 2 ^ 1 := rfl
      _ ≤ 2 ^ (W.p - 1) := Nat.pow_le_pow_right (by norm_num) (by omega)
  have m1 := N.m1; have m2 := N.m2; have e0 := N.e1; have e2 := N.e2; have m4 := N.m4
  rw [← hP] at m1
  rw [h2p] at m2
  have hu := W.ulp_pos e
  have hb := N.hb
  have hPq : (2:ℚ) ≤ P := by exact_mod_cast hP2
  by_cases c1 : P + 2 ≤ m ∨ e = W.emin
  · -- generic position: the grid below `b` has the spacing of `b`
    have hm4 : 4 ≤ m := by
      rcases c1 with h | h
      · omega
      · exact m4 h
    obtain ⟨n, rfl⟩ : ∃ n, m = n + 2 := ⟨m - 2, by omega⟩
    push_cast at ht hb
    have hn : (2:ℚ) ≤ n := by
      have : 2 ≤ n := by omega
      exact_mod_cast this
    have hcan : 2 ^ (W.p - 1) ≤ n ∨ e = W.emin := by
      rcases c1 with h | h
      · left; rw [← hP]; omega
      · exact Or.inr h
    have r2 : IsRep W (((n + 1 : Nat) : ℚ) * W.ulp (e + 1)) :=
      isRep_mul_ulp hW _ (e + 1) (by omega) (by omega) (by omega)
    have r3 : IsRep W (((n + 1 : Nat) : ℚ) * W.ulp e) :=
      isRep_mul_ulp hW _ e (by omega) (by omega) (by omega)
    rw [W.ulp_succ] at r2
    push_cast at r2 r3
    have hd := S.d_le_near hrm (e := e) (M := n) (by omega) (by omega) (by omega)
      hcan (by rw [hb]; nlinarith [mul_pos hu hu])
    have hs := S.s_le_mono r2 (by rw [hb]; nlinarith)
    have := S.y_le r3 (by linarith)
    rw [hb]; nlinarith
  · rw [not_or] at c1
    have e1 : W.emin < e := lt_of_le_of_ne e0 (Ne.symm c1.2)
    have c1 := c1.1
    have m1 : P ≤ m := by
      rcases m1 with h | h
      · exact h
      · omega
    have hh := W.ulp_pos (e - 1)
    have huh := ulp_pred W e
    have hcast : ((2 * P - 1 : Nat) : ℚ) = 2 * (P:ℚ) - 1 := by
      rw [Nat.cast_sub (by omega)]; push_cast; ring
    by_cases c2 : m = P + 1
    · -- just above a power of two
      subst c2
      push_cast at ht hb
      rw [huh] at ht hb
      have r3 : IsRep W ((P:ℚ) * W.ulp e) :=
        isRep_mul_ulp hW _ e (by omega) (by omega) (by omega)
      have hd := S.d_le_near hrm (e := e - 1) (M := 2 * P - 1) (by omega) (by omega) (by omega)
        (Or.inl (by rw [← hP]; omega)) (by rw [hb, hcast]; nlinarith [mul_pos hh hh])
      rw [hcast] at hd
      have hs := S.s_le_near hrm (e := e + 1) (M := P) (by omega) (by omega) (by omega)
        (Or.inl (by rw [← hP])) (by rw [W.ulp_succ, huh, hb]; nlinarith)
      rw [W.ulp_succ] at hs
      have := S.y_le r3 (by linarith)
      rw [hb]; rw [huh] at this; nlinarith
    · -- a power of two
      have c3 : m = P := by omega
      subst c3
      rw [huh] at ht hb
      have hcast3 : ((2 * m - 3 : Nat) : ℚ) = 2 * (m:ℚ) - 3 := by
        rw [Nat.cast_sub (by omega)]; push_cast; ring
      have r1 : IsRep W (((2 * m - 3 : Nat) : ℚ) * W.ulp (e - 1)) :=
        isRep_mul_ulp hW _ (e - 1) (by omega) (by omega) (by omega)
      have r3 : IsRep W (((2 * m - 1 : Nat) : ℚ) * W.ulp (e - 1)) :=
        isRep_mul_ulp hW _ (e - 1) (by omega) (by omega) (by omega)
      rw [hcast3] at r1
      rw [hcast] at r3
      have hd := S.d_le_mono r1 (by rw [hb]; nlinarith [mul_pos hh hh])
      have hs := S.s_le_near hrm (e := e) (M := 2 * m - 1) (by omega) (by omega) (by omega)
        (Or.inl (by rw [← hP]; omega)) (by rw [huh, hb, hcast]; nlinarith)
      rw [hcast, huh] at hs
      have := S.y_le r3 (by linarith)
      rw [hb]; nlinarith

/-- **Case A, nearest modes, `b` a power of two**: the neighbour below is `b - u/2`; if it is
    at or above the root the next iterate is below `b` -/
theorem stepA_near_pow2 (S : Stp W rm t b d s y') (hrm : rm = .nte ∨ rm = .nta) {m : Nat} {e : Int}
    (N : NF W b m e) (hm : m = 2 ^ (W.p - 1)) (he : W.emin < e)
    (ht : t ≤ ((2 * (m:ℚ) - 1) * W.ulp (e - 1)) * ((2 * (m:ℚ) - 1) * W.ulp (e - 1))) : y' < b := by
  have hW := S.hW
  have hp2 := hW.2
  have h2p : 2 ^ W.p = 2 * m := by rw [hm]; exact two_pow_pred_sr (by omega)
  have hm2 : 2 ≤ m := by
    rw [hm]
    calc 2 = 2 ^ 1 := rfl
      _ ≤ 2 ^ (W.p - 1) := Nat.pow_le_pow_right (by norm_num) (by omega)
  have e1 := he; have e2 := N.e2
  have hh := W.ulp_pos (e - 1)
  have huh := ulp_pred W e
  have hb := N.hb
  rw [huh] at hb
  have hmq : (2:ℚ) ≤ m := by exact_mod_cast hm2
  have hcast : ((2 * m - 1 : Nat) : ℚ) = 2 * (m:ℚ) - 1 := by
    rw [Nat.cast_sub (by omega)]; push_cast; ring
  have hcast2 : ((2 * m - 2 : Nat) : ℚ) = 2 * (m:ℚ) - 2 := by
    rw [Nat.cast_sub (by omega)]; push_cast; ring
  have r2 : IsRep W (((2 * m - 1 : Nat) : ℚ) * W.ulp e) :=
    isRep_mul_ulp hW _ e (by omega) (by omega) (by omega)
  have r3 : IsRep W (((2 * m - 1 : Nat) : ℚ) * W.ulp (e - 1)) :=
    isRep_mul_ulp hW _ (e - 1) (by omega) (by omega) (by omega)
  rw [hcast] at r2 r3
  rw [huh] at r2
  have hd := S.d_le_near hrm (e := e - 1) (M := 2 * m - 2) (by omega) (by omega) (by omega)
    (Or.inl (by rw [← hm]; omega)) (by rw [hb, hcast2]; nlinarith [mul_pos hh hh])
  rw [hcast2] at hd
  have hs := S.s_le_mono r2 (by rw [hb]; nlinarith)
  have := S.y_le r3 (by linarith)
  rw [hb]; nlinarith

/-- **Case B, nearest modes**: if the root is below `b + u`, the next iterate is at most `b + u` -/
theorem stepB_near (S : Stp W rm t b d s y') (hrm : rm = .nte ∨ rm = .nta) {m : Nat} {e : Int}
    (N : NF W b m e) (he3 : e + 3 ≤ W.emax)
    (ht : t < (((m:ℚ) + 1) * W.ulp e) * (((m:ℚ) + 1) * W.ulp e)) : y' ≤ b + W.ulp e := by
  have hW := S.hW
  have hp2 := hW.2
  obtain ⟨P, hP⟩ : ∃ P, P = 2 ^ (W.p - 1) := ⟨_, rfl⟩
  have h2p : 2 ^ W.p = 2 * P := by rw [hP]; exact two_pow_pred_sr (by omega)
  have hP2 : 2 ≤ P := by
    rw [hP]
    calc 2 = 2 ^ 1 := rfl
      _ ≤ 2 ^ (W.p - 1) := Nat.pow_le_pow_right (by norm_num) (by omega)
  have m1 := N.m1; have m2 := N.m2; have e1 := N.e1; have m4 := N.m4
  rw [← hP] at m1
  rw [h2p] at m2
  have hu := W.ulp_pos e
  have hb := N.hb
  have hPq : (2:ℚ) ≤ P := by exact_mod_cast hP2
  have hm2' : 2 ≤ m := by
    rcases m1 with h | h
    · omega
    · have := m4 h; omega
  have hcan : ∀ j : Nat, 2 ^ (W.p - 1) ≤ m + j ∨ e = W.emin := by
    intro j
    rcases m1 with h | h
    · left; rw [← hP]; omega
    · exact Or.inr h
  have hmq : (2:ℚ) ≤ m := by exact_mod_cast hm2'
  by_cases c1 : m + 2 ≤ 2 * P
  · have hd : d ≤ ((m:ℚ) + 2) * W.ulp e := by
      by_cases c2 : m + 2 < 2 * P
      · have := S.d_le_near hrm (e := e) (M := m + 2) (by omega) (by omega) (by omega)
          (hcan 2) (by rw [hb]; push_cast; nlinarith [mul_pos hu hu])
        push_cast at this; exact this
      · have c3 : m + 2 = 2 * P := by omega
        have c3q : (m:ℚ) + 2 = 2 * P := by exact_mod_cast c3
        have hPm : (P:ℚ) = ((m:ℚ) + 2) / 2 := by linarith
        have := S.d_le_near hrm (e := e + 1) (M := P) (by omega) (by omega) (by omega)
          (Or.inl (by rw [← hP])) (by rw [hb, W.ulp_succ, hPm]; nlinarith [mul_pos hu hu])
        rw [W.ulp_succ] at this
        rw [c3q]; linarith
    have r2 : IsRep W (((m + 1 : Nat) : ℚ) * W.ulp (e + 1)) :=
      isRep_mul_ulp hW _ (e + 1) (by omega) (by omega) (by omega)
    have r3 : IsRep W (((m + 1 : Nat) : ℚ) * W.ulp e) :=
      isRep_mul_ulp hW _ e (by omega) (by omega) (by omega)
    rw [W.ulp_succ] at r2
    push_cast at r2 r3
    have hs := S.s_le_mono r2 (by rw [hb]; nlinarith)
    have := S.y_le r3 (by linarith)
    rw [hb]; linarith
  · have c3 : m + 1 = 2 * P := by omega
    have c3q : (m:ℚ) + 1 = 2 * P := by exact_mod_cast c3
    have hPm : (P:ℚ) = ((m:ℚ) + 1) / 2 := by linarith
    have hd := S.d_le_near hrm (e := e + 1) (M := P + 1) (by omega) (by omega) (by omega)
      (Or.inl (by rw [← hP]; omega))
      (by rw [hb, W.ulp_succ]; push_cast; rw [hPm]; nlinarith [mul_pos hu hu])
    rw [W.ulp_succ] at hd
    push_cast at hd
    have e2u : W.ulp (e + 2) = 4 * W.ulp e := by
      rw [show e + 2 = (e + 1) + 1 by ring, W.ulp_succ, W.ulp_succ]; ring
    have hs := S.s_le_near hrm (e := e + 2) (M := P) (by omega) (by omega) (by omega)
      (Or.inl (by rw [← hP])) (by rw [e2u, hb]; nlinarith)
    rw [e2u] at hs
    have r3 : IsRep W ((P:ℚ) * W.ulp (e + 1)) :=
      isRep_mul_ulp hW _ (e + 1) (by omega) (by omega) (by omega)
    rw [W.ulp_succ] at r3
    have := S.y_le r3 (by linarith)
    rw [hb]; nlinarith

/-- **Case B, every mode**: if the root is below `b + u`, the next iterate is at most `b + 2u`
    (`b + 3u` when `b` is the last value of its binade, where the spacing doubles) -/
theorem stepB_dir (S : Stp W rm t b d s y') {m : Nat} {e : Int}
    (N : NF W b m e) (he3 : e + 3 ≤ W.emax)
    (ht : t < (((m:ℚ) + 1) * W.ulp e) * (((m:ℚ) + 1) * W.ulp e)) :
    y' ≤ b + 2 * W.ulp e ∨ (m + 1 = 2 ^ W.p ∧ y' ≤ b + 3 * W.ulp e) := by
  have hW := S.hW
  have hp2 := hW.2
  obtain ⟨P, hP⟩ : ∃ P, P = 2 ^ (W.p - 1) := ⟨_, rfl⟩
  have h2p : 2 ^ W.p = 2 * P := by rw [hP]; exact two_pow_pred_sr (by omega)
  have hP2 : 2 ≤ P := by
    rw [hP]
    calc 2 = 2 ^ 1 := rfl
      _ ≤ 2 ^ (W.p - 1) := Nat.pow_le_pow_right (by norm_num) (by omega)
  have m1 := N.m1; have m2 := N.m2; have e1 := N.e1; have m4 := N.m4
  rw [← hP] at m1
  rw [h2p] at m2 ⊢
  have hu := W.ulp_pos e
  have hb := N.hb
  have hPq : (2:ℚ) ≤ P := by exact_mod_cast hP2
  have hm2' : 2 ≤ m := by
    rcases m1 with h | h
    · omega
    · have := m4 h; omega
  have hmq : (2:ℚ) ≤ m := by exact_mod_cast hm2'
  have e2u : W.ulp (e + 2) = 4 * W.ulp e := by
    rw [show e + 2 = (e + 1) + 1 by ring, W.ulp_succ, W.ulp_succ]; ring
  by_cases c1 : m + 3 ≤ 2 * P
  · left
    have r1 : IsRep W (((m + 3 : Nat) : ℚ) * W.ulp e) :=
      isRep_mul_ulp hW _ e (by omega) (by omega) (by omega)
    have r2 : IsRep W (((m + 2 : Nat) : ℚ) * W.ulp (e + 1)) :=
      isRep_mul_ulp hW _ (e + 1) (by omega) (by omega) (by omega)
    have r3 : IsRep W (((m + 2 : Nat) : ℚ) * W.ulp e) :=
      isRep_mul_ulp hW _ e (by omega) (by omega) (by omega)
    rw [W.ulp_succ] at r2
    push_cast at r1 r2 r3
    have hd := S.d_le_mono r1 (by rw [hb]; nlinarith [mul_pos hu hu])
    have hs := S.s_le_mono r2 (by rw [hb]; nlinarith)
    have := S.y_le r3 (by linarith)
    rw [hb]; linarith
  · have r1 : IsRep W (((P + 1 : Nat) : ℚ) * W.ulp (e + 1)) :=
      isRep_mul_ulp hW _ (e + 1) (by omega) (by omega) (by omega)
    rw [W.ulp_succ] at r1
    push_cast at r1
    by_cases c2 : m + 2 = 2 * P
    · left
      have c2q : (m:ℚ) + 2 = 2 * P := by exact_mod_cast c2
      have r2 : IsRep W ((P:ℚ) * W.ulp (e + 2)) :=
        isRep_mul_ulp hW _ (e + 2) (by omega) (by omega) (by omega)
      have r3 : IsRep W ((P:ℚ) * W.ulp (e + 1)) :=
        isRep_mul_ulp hW _ (e + 1) (by omega) (by omega) (by omega)
      rw [e2u] at r2
      rw [W.ulp_succ] at r3
      have hPm : (P:ℚ) = ((m:ℚ) + 2) / 2 := by linarith
      have hd := S.d_le_mono r1 (by rw [hb, hPm]; nlinarith [mul_pos hu hu])
      have hs := S.s_le_mono r2 (by rw [hb]; nlinarith)
      have := S.y_le r3 (by linarith)
      rw [hb]; nlinarith
    · right
      have c3 : m + 1 = 2 * P := by omega
      have c3q : (m:ℚ) + 1 = 2 * P := by exact_mod_cast c3
      refine ⟨c3, ?_⟩
      have r2 : IsRep W (((P + 1 : Nat) : ℚ) * W.ulp (e + 2)) :=
        isRep_mul_ulp hW _ (e + 2) (by omega) (by omega) (by omega)
      have r3 : IsRep W (((P + 1 : Nat) : ℚ) * W.ulp (e + 1)) :=
        isRep_mul_ulp hW _ (e + 1) (by omega) (by omega) (by omega)
      rw [e2u] at r2
      rw [W.ulp_succ] at r3
      push_cast at r2 r3
      have hPm : (P:ℚ) = ((m:ℚ) + 1) / 2 := by linarith
      have hd := S.d_le_mono r1 (by rw [hb, hPm]; nlinarith [mul_pos hu hu])
      have hs := S.s_le_mono r2 (by rw [hb]; nlinarith)
      have := S.y_le r3 (by linarith)
      rw [hb]; nlinarith

end stp


/-! ## 12. the bound at the stopping step, in the wide format -/

section stop
variable {F : Sem} {t : ℚ} {k : Int}

theorem Ctx.max_lt (C : Ctx F t k) : max 2 t < (2:ℚ) ^ (F.emax + 1) := by
  obtain ⟨_, _, _, h4, _⟩ := C.facts
  apply _root_.max_lt
  · calc (2:ℚ) = (2:ℚ) ^ (1:Int) := (zpow_one _).symm
      _ < _ := zpow_lt_zpow_right₀ (by norm_num) (by omega)
  · exact C.thi

theorem stp_of (C : Ctx F t k) {b : ℚ} (I : Inv F t k b) :
    Stp (wide F) F.rm t b (dQ F t b) (sQ F t b) (stepQ F t b) :=
  ⟨wide_WF C.hF, C.tpos, I.pos C, d_pos C I, s_pos C I, rfl, rfl, rfl⟩

/-- canonical form of an iterate (no condition on the format size: in the lowest binade of
    the wide format, where iterates may be subnormal, the significand is at least 4) -/
theorem inv_nf (C : Ctx F t k) {y : ℚ} (I : Inv F t k y) :
    ∃ (m : Nat) (e : Int), NF (wide F) y m e ∧ k ≤ e ∧ e ≤ F.emax := by
  obtain ⟨f1, f2, f3, f4, f5, f6, f7, f8, f9⟩ := C.facts
  have hp : 1 ≤ (wide F).p := by rw [f9]; omega
  obtain ⟨e, m, h1, h2, h3, h4, hv⟩ := I.rep
  rw [← Sem.ulp_def] at hv
  have two : (1:ℚ) < 2 := by norm_num
  have hu := (wide F).ulp_pos e
  have hlt : y < (2:ℚ) ^ (e + 1) := by
    have hmq : (m:ℚ) < (2:ℚ) ^ (wide F).p := by exact_mod_cast h3
    rw [hv, ← (wide F).pow_mul_ulp e]
    exact mul_lt_mul_of_pos_right hmq hu
  have hke : k ≤ e := by
    have := (zpow_lt_zpow_iff_right₀ two).mp (lt_of_le_of_lt I.lo hlt)
    omega
  have hee : e ≤ F.emax := by
    rcases h4 with hm | he
    · have hge : (2:ℚ) ^ e ≤ y := by
        have hmq : (2:ℚ) ^ ((wide F).p - 1) ≤ (m:ℚ) := by exact_mod_cast hm
        rw [hv, ← (wide F).half_pow_mul_ulp hp e]
        exact mul_le_mul_of_nonneg_right hmq (le_of_lt hu)
      have := (zpow_lt_zpow_iff_right₀ two).mp (lt_of_le_of_lt hge (lt_of_le_of_lt I.hi C.max_lt))
      omega
    · omega
  have hm4 : e = (wide F).emin → 4 ≤ m := by
    intro he
    have h4u : 4 * (wide F).ulp e ≤ (2:ℚ) ^ k := by
      rw [Sem.ulp_def, show (4:ℚ) = (2:ℚ) ^ (2:Int) by norm_num,
        ← zpow_add₀ (by norm_num : (2:ℚ) ≠ 0)]
      exact zpow_le_zpow_right₀ (by norm_num) (by rw [f9]; omega)
    have : 4 * (wide F).ulp e ≤ (m:ℚ) * (wide F).ulp e := by rw [← hv]; exact le_trans h4u I.lo
    have := le_of_mul_le_mul_right this hu
    exact_mod_cast this
  exact ⟨m, e, ⟨hv, h4, h3, h1, by omega, hm4⟩, hke, hee⟩

/-- an exact root is a fixed point of the step -/
theorem step_exact (C : Ctx F t k) {b : ℚ} (I : Inv F t k b) (h : b * b = t) :
    stepQ F t b = b := by
  obtain ⟨f1, f2, f3, f4, f5, f6, f7, f8, f9⟩ := C.facts
  have hW := wide_WF C.hF
  have hb := I.pos C
  have hq : t / b = b := by rw [div_eq_iff (ne_of_gt hb)]; exact h.symm
  have hd : dQ F t b = b := by unfold dQ; rw [hq]; exact rnd_rep hW _ I.rep hb
  have h2b : IsRep (wide F) (2 * b) := by
    apply isRep_two_mul hW I.rep
    have := lt_of_le_of_lt I.hi C.max_lt
    have e2 : (2:ℚ) ^ (F.emax + 2) = 2 * (2:ℚ) ^ (F.emax + 1) := by
      rw [show F.emax + 2 = (F.emax + 1) + 1 by ring, zpow_add₀ (by norm_num : (2:ℚ) ≠ 0), zpow_one]; ring
    calc 2 * b < (2:ℚ) ^ (F.emax + 2) := by linarith
      _ ≤ _ := zpow_le_zpow_right₀ (by norm_num) (by omega)
  have hs : sQ F t b = 2 * b := by
    unfold sQ; rw [hd, show b + b = 2 * b by ring]; exact rnd_rep hW _ h2b (by linarith)
  unfold stepQ; rw [hs, show 2 * b / 2 = b by ring]; exact rnd_rep hW _ I.rep hb

/-- **The bound at the stopping step.**  If the loop stops at `b` (`b ≤ step b`), the value
    `y' = step b = m'·ulp e'` satisfies `y' - ulp < √t` in the nearest modes and
    `y' - 2·ulp ≤ √t` in every mode (stated with squares). -/
theorem stop_bound (C : Ctx F t k) {b : ℚ} (I : Inv F t k b)
    (L : Low F t b) (hle : b ≤ stepQ F t b) {m' : Nat} {e' : Int}
    (he' : (wide F).emin ≤ e') (hm' : m' < 2 ^ (wide F).p)
    (hn' : 2 ^ ((wide F).p - 1) ≤ m' ∨ e' = (wide F).emin)
    (hv' : stepQ F t b = (m':ℚ) * (wide F).ulp e') :
    ((F.rm = .nte ∨ F.rm = .nta) →
      (stepQ F t b - (wide F).ulp e' ≤ 0 ∨
        (stepQ F t b - (wide F).ulp e') * (stepQ F t b - (wide F).ulp e') < t)) ∧
    (stepQ F t b - 2 * (wide F).ulp e' ≤ 0 ∨
        (stepQ F t b - 2 * (wide F).ulp e') * (stepQ F t b - 2 * (wide F).ulp e') ≤ t) := by
  obtain ⟨f1, f2, f3, f4, f5, f6, f7, f8, f9⟩ := C.facts
  have hW := wide_WF C.hF
  have hp : 1 ≤ (wide F).p := by rw [f9]; omega
  obtain ⟨m, e, N, hke, hee⟩ := inv_nf C I
  have S := stp_of C I
  have hu := (wide F).ulp_pos e
  have hu' := (wide F).ulp_pos e'
  have hb := N.hb
  have hbpos := I.pos C
  -- the exponent of `y'` is at least that of `b`
  have hee' : e ≤ e' := by
    apply rep_exp_le hp N.m1 he' hm'
    rw [← hb, ← hv']; exact hle
  have hmono := (wide F).ulp_mono hee'
  by_cases hA : t < b * b
  · -- Case A: above the root, `y' = b`
    have hyb : stepQ F t b = b := le_antisymm (step_le_self C I hA) hle
    have hee2 : e' ≤ e := by
      apply rep_exp_le hp hn' N.e1 N.m2
      rw [← hb, ← hv', hyb]
    have heq : e' = e := le_antisymm hee2 hee'
    rw [heq, hyb]
    constructor
    · intro hrm
      by_contra hcon
      rw [not_or, not_le, not_lt] at hcon
      have := stepA_near S hrm N (by
        have e1 : ((m:ℚ) - 1) * (wide F).ulp e = b - (wide F).ulp e := by rw [hb]; ring
        rw [e1]; exact hcon.2)
      linarith
    · by_contra hcon
      rw [not_or, not_le, not_le] at hcon
      have e1 : ((m:ℚ) - 2) * (wide F).ulp e = b - 2 * (wide F).ulp e := by rw [hb]; ring
      have hm2 : 2 < m := by
        have : (0:ℚ) < ((m:ℚ) - 2) * (wide F).ulp e := by rw [e1]; exact hcon.1
        have : (0:ℚ) < (m:ℚ) - 2 := by
          by_contra h; have := mul_nonpos_of_nonpos_of_nonneg (not_lt.mp h) (le_of_lt hu); linarith
        have : (2:ℚ) < m := by linarith
        exact_mod_cast this
      have := stepA_dir S N hm2 (by rw [e1]; exact hcon.2)
      have : stepQ F t b < b := by rw [hb] at this ⊢; nlinarith
      linarith
  · -- Case B: at or below the root
    have hB : b * b ≤ t := not_lt.mp hA
    have he3 : e + 3 ≤ (wide F).emax := by
      rcases N.m1 with hm1 | hemin
      · have hge : (2:ℚ) ^ e ≤ b := by
          have hmq : (2:ℚ) ^ ((wide F).p - 1) ≤ (m:ℚ) := by exact_mod_cast hm1
          rw [hb, ← (wide F).half_pow_mul_ulp hp e]
          exact mul_le_mul_of_nonneg_right hmq (le_of_lt hu)
        have h2 : (2:ℚ) ^ (2 * e) ≤ b * b := by
          rw [show 2 * e = e + e by ring, zpow_add₀ (by norm_num : (2:ℚ) ≠ 0)]
          exact mul_le_mul hge hge (by positivity) (le_of_lt hbpos)
        have := (zpow_lt_zpow_iff_right₀ (by norm_num : (1:ℚ) < 2)).mp
          (lt_of_le_of_lt (le_trans h2 hB) C.thi)
        omega
      · omega
    have ht : t < (((m:ℚ) + 1) * (wide F).ulp e) * (((m:ℚ) + 1) * (wide F).ulp e) := by
      by_contra hcon
      have r : IsRep (wide F) (((m + 1 : Nat) : ℚ) * (wide F).ulp e) :=
        isRep_mul_ulp hW _ e (by have := N.m2; omega) N.e1 (by omega)
      push_cast at r
      have := L _ r (by positivity) (not_lt.mp hcon)
      rw [hb] at this; nlinarith
    constructor
    · intro hrm
      have hy := stepB_near S hrm N he3 ht
      by_cases hlo : stepQ F t b - (wide F).ulp e' ≤ 0
      · exact Or.inl hlo
      · right
        have hlo := not_le.mp hlo
        by_cases hex : b * b = t
        · rw [step_exact C I hex] at hlo ⊢; rw [← hex]; nlinarith
        · have : b * b < t := lt_of_le_of_ne hB hex
          nlinarith
    · rcases stepB_dir S N he3 ht with hy | ⟨hm1, hy⟩
      · by_cases hlo : stepQ F t b - 2 * (wide F).ulp e' ≤ 0
        · exact Or.inl hlo
        · right; have hlo := not_le.mp hlo; nlinarith
      · have hlob : stepQ F t b - 2 * (wide F).ulp e' ≤ b := by
          by_cases hc : e' = e
          · have : (m':ℚ) < (m:ℚ) + 1 := by
              have : m' < m + 1 := by rw [hm1]; exact hm'
              exact_mod_cast this
            rw [hv', hc, hb]; nlinarith
          · have h1 : (wide F).ulp (e + 1) ≤ (wide F).ulp e' := (wide F).ulp_mono (by omega)
            rw [(wide F).ulp_succ] at h1
            linarith
        by_cases hlo : stepQ F t b - 2 * (wide F).ulp e' ≤ 0
        · exact Or.inl hlo
        · right; have hlo := not_le.mp hlo; nlinarith

/-- **Perfect squares, nearest modes**: if `t = Y²` for a representable `Y`, the loop can only
    stop at `b = Y`, and returns `Y`. -/
theorem stop_perfect_square (C : Ctx F t k) {b : ℚ} (I : Inv F t k b)
    (L : Low F t b) (hle : b ≤ stepQ F t b) (hrm : F.rm = .nte ∨ F.rm = .nta) {Y : ℚ}
    (hY : IsRep (wide F) Y) (hY0 : 0 < Y) (hYt : Y * Y = t) : stepQ F t b = Y := by
  obtain ⟨f1, f2, f3, f4, f5, f6, f7, f8, f9⟩ := C.facts
  have hp : 1 ≤ (wide F).p := by rw [f9]; omega
  have hYb : Y ≤ b := L Y hY hY0 (le_of_eq hYt)
  rcases eq_or_lt_of_le hYb with h | h
  · rw [← h]; exact step_exact C (by rw [h]; exact I) hYt
  · exfalso
    obtain ⟨m, e, N, hke, hee⟩ := inv_nf C I
    have S := stp_of C I
    have hu := (wide F).ulp_pos e
    have hb := N.hb
    have m2 := N.m2; have e1 := N.e1
    have hP1 : 1 ≤ 2 ^ ((wide F).p - 1) := Nat.one_le_two_pow
    have hm1 : 1 ≤ m := by
      rcases N.m1 with h' | h'
      · omega
      · have := N.m4 h'; omega
    by_cases hm : m = 2 ^ ((wide F).p - 1) ∧ (wide F).emin < e
    · -- a power of two above the lowest binade: the neighbour below is `b - u/2`
      obtain ⟨hm, he⟩ := hm
      have hh := (wide F).ulp_pos (e - 1)
      have huh := ulp_pred (wide F) e
      have h2p := two_pow_pred_sr hp
      have hcast : ((2 * m - 1 : Nat) : ℚ) = 2 * (m:ℚ) - 1 := by
        rw [Nat.cast_sub (by omega)]; push_cast; ring
      have hgap := hY.gap hp (e := e - 1) (m := 2 * m - 1) (Or.inl (by omega))
      rw [hcast] at hgap
      rcases hgap with g | g
      · have := stepA_near_pow2 S hrm N hm he (by rw [← hYt]; nlinarith)
        linarith
      · rw [hb, huh] at h; nlinarith
    · -- otherwise the neighbour below is `b - u`
      have hcast : ((m - 1 : Nat) : ℚ) = (m:ℚ) - 1 := by
        rw [Nat.cast_sub (by omega)]; push_cast; ring
      have hcan : 2 ^ ((wide F).p - 1) ≤ m - 1 ∨ e = (wide F).emin := by
        rcases N.m1 with h' | h'
        · by_cases he : e = (wide F).emin
          · exact Or.inr he
          · left
            have : m ≠ 2 ^ ((wide F).p - 1) := fun hc => hm ⟨hc, lt_of_le_of_ne e1 (Ne.symm he)⟩
            omega
        · exact Or.inr h'
      have hgap := hY.gap hp (e := e) (m := m - 1) hcan
      rw [hcast] at hgap
      rcases hgap with g | g
      · have := stepA_near S hrm N (by rw [← hYt]; nlinarith)
        linarith
      · rw [hb] at h; nlinarith

end stop


/-! ## 13. back to the original format -/

/-- variant of `isRep_mul_ulp` with a bound on the value instead of the exponent -/
theorem isRep_mul_ulp_lt {F : Sem} (hF : F.WF) (M : Nat) (e : Int) (hM : M ≤ 2 ^ F.p)
    (he1 : F.emin ≤ e) (hlt : (M:ℚ) * F.ulp e < (2:ℚ) ^ (F.emax + 1)) :
    IsRep F ((M:ℚ) * F.ulp e) := by
  rcases Nat.lt_or_eq_of_le hM with h | h
  · rw [Sem.ulp_def] at hlt ⊢
    exact isRep_of_lt hF M _ h (by omega) hlt
  · rw [h] at hlt ⊢; push_cast at hlt ⊢; rw [F.pow_mul_ulp] at hlt ⊢
    have := (zpow_lt_zpow_iff_right₀ (by norm_num : (1:ℚ) < 2)).mp hlt
    exact isRep_pow hF _ (by have := hF.2; omega) (by omega)

/-- two canonical decompositions of one positive magnitude have the same exponent -/
theorem canon_exp_unique {F : Sem} (hp : 1 ≤ F.p) {e1 e2 : Int} {m1 m2 : Nat}
    (h1 : F.emin ≤ e1) (h2 : F.emin ≤ e2) (hm1 : m1 < 2 ^ F.p) (hm2 : m2 < 2 ^ F.p)
    (hn1 : 2 ^ (F.p - 1) ≤ m1 ∨ e1 = F.emin) (hn2 : 2 ^ (F.p - 1) ≤ m2 ∨ e2 = F.emin)
    (h : (m1:ℚ) * F.ulp e1 = (m2:ℚ) * F.ulp e2) : e1 = e2 :=
  le_antisymm (rep_exp_le hp hn1 h2 hm2 (le_of_eq h)) (rep_exp_le hp hn2 h1 hm1 (le_of_eq h.symm))

/-- error of one rounding in terms of the exponent of the result -/
theorem rnd_err {F : Sem} (hF : F.WF) (rm : RM) {lo hi q : ℚ} (hlo0 : 0 < lo)
    (hlo : IsRep F lo) (hhi : IsRep F hi) (h1 : lo ≤ q) (h2 : q ≤ hi) :
    ∃ (e : Int) (m : Nat), F.emin ≤ e ∧ e ≤ F.emax ∧ m < 2 ^ F.p ∧
      (2 ^ (F.p - 1) ≤ m ∨ e = F.emin) ∧ rnd F rm q = (m:ℚ) * F.ulp e ∧
      |rnd F rm q - q| < F.ulp e ∧ ((rm = .nte ∨ rm = .nta) → |rnd F rm q - q| ≤ F.ulp e / 2) := by
  have hq : 0 < q := lt_of_lt_of_le hlo0 h1
  obtain ⟨e, m, hr, hv, _, _⟩ := round_between hF rm hlo0 hlo hhi h1 h2
  obtain ⟨_, a1, a2, _, a4, a5⟩ := round_mem hF hq rm false hr
  have hlt : q < (2:ℚ) ^ (F.emax + 1) :=
    lt_of_le_of_lt (le_trans h2 hhi.le_maxFinite) (maxFinite_lt_sr F)
  refine ⟨e, m, a1, a2, a4, a5, hv, ?_, ?_⟩
  · have := within_ulp_partial hF hq rm false (fun _ => hlt) hr
    rw [hv, Sem.ulp_def]; exact this
  · intro hrm
    have := within_half_ulp hF hq hrm false hr
    rw [hv, Sem.ulp_def]; exact this

/-- **Transfer through the final cast.**  `y = m'·ulp e'` canonically in the wide format
    (normal as soon as `e'` is in the exponent range of `F`), `rnd F rm y = mr·ulp er` canonically in `F`.  Then the lower comparison point moves
    down: `r - K·ulp er ≤ y - K·ulp e'` for `K = 2`, and for `K = 1` in the nearest modes. -/
theorem cast_transfer {F : Sem} (hF : F.WF) (rm : RM) {y lo hi : ℚ} {m' : Nat} {e' : Int}
    (hy : y = (m':ℚ) * F.ulp e') (hm1 : F.emin ≤ e' → 2 ^ (F.p - 1) ≤ m') (hm2 : m' < 2 ^ F.p)
    (he' : e' ≤ F.emax) (hlo0 : 0 < lo) (hlo : IsRep F lo) (hhi : IsRep F hi) (h1 : lo ≤ y)
    (h2 : y ≤ hi) {mr : Nat} {er : Int} (r1 : F.emin ≤ er) (r3 : mr < 2 ^ F.p)
    (r4 : 2 ^ (F.p - 1) ≤ mr ∨ er = F.emin) (hr : rnd F rm y = (mr:ℚ) * F.ulp er) :
    rnd F rm y - 2 * F.ulp er ≤ y - 2 * F.ulp e' ∧
      ((rm = .nte ∨ rm = .nta) → rnd F rm y - F.ulp er ≤ y - F.ulp e') := by
  have hp : 1 ≤ F.p := by have := hF.2; omega
  have hy0 : 0 < y := lt_of_lt_of_le hlo0 h1
  by_cases hc : F.emin ≤ e'
  · -- representable: the cast is exact
    have hrep : IsRep F y := ⟨e', m', hc, he', hm2, Or.inl (hm1 hc), by rw [hy, Sem.ulp_def]⟩
    have hex := rnd_rep hF rm hrep hy0
    have heq : er = e' :=
      canon_exp_unique hp r1 hc r3 hm2 r4 (Or.inl (hm1 hc)) (by rw [← hr, hex, hy])
    rw [hex, heq]
    exact ⟨le_refl _, fun _ => le_refl _⟩
  · -- below the normal range of `F`: the result has a coarser ulp
    have hc := not_le.mp hc
    obtain ⟨e, m, a1, a2, a3, a4, a5, a6, a7⟩ := rnd_err hF rm hlo0 hlo hhi h1 h2
    have hpos : 0 < rnd F rm y := lt_of_lt_of_le hlo0 (rnd_ge hF rm hlo0 hlo h1 hhi h2)
    have heq : er = e := canon_exp_unique hp r1 a1 r3 a3 r4 a4 (by rw [← hr, a5])
    rw [heq]
    have hu : F.ulp (e' + 1) ≤ F.ulp e := F.ulp_mono (by omega)
    rw [F.ulp_succ] at hu
    have hu' := F.ulp_pos e'
    constructor
    · have := (abs_lt.mp a6).2; linarith
    · intro hrm
      have := (abs_le.mp (a7 hrm)).2; linarith


theorem Ctx.max_rep_F {F : Sem} {t : ℚ} {k : Int} (C : Ctx F t k) : IsRep F (max 2 t) := by
  obtain ⟨h1, h2, h3, h4, h5, h6, h7, h8, h9⟩ := C.facts
  rcases max_cases (2:ℚ) t with ⟨h, _⟩ | ⟨h, _⟩
  · rw [h]
    have := isRep_pow C.hF 1 (by omega) (by omega)
    rwa [zpow_one] at this
  · rw [h]; exact C.trep

theorem lo_mono_lt {a a' t : ℚ} (h : a ≤ a') (h' : a' ≤ 0 ∨ a' * a' < t) : a ≤ 0 ∨ a * a < t := by
  by_cases ha : a ≤ 0
  · exact Or.inl ha
  · right
    have ha := not_le.mp ha
    rcases h' with h' | h'
    · linarith
    · nlinarith

theorem lo_mono_le {a a' t : ℚ} (h : a ≤ a') (h' : a' ≤ 0 ∨ a' * a' ≤ t) : a ≤ 0 ∨ a * a ≤ t := by
  by_cases ha : a ≤ 0
  · exact Or.inl ha
  · right
    have ha := not_le.mp ha
    rcases h' with h' | h'
    · linarith
    · nlinarith

/-- **Accuracy of `sqrt` on rationals.**  `u = ulp(r)`.  In every mode `√t < r + u` and
    `r - 2u ≤ √t`; in the two nearest modes `r - u < √t` (inequalities between squares,
    trivial when the left side is not positive).  No condition on the format size. -/
theorem sqrt_bounds {x : Flt} (hF : x.sem.WF) (hx : PosN x.sem x) {fuel : Nat} {r : Flt}
    (h : x.sqrtFuel fuel = some r) :
    PosN x.sem r ∧
    x.mag < (r.mag + x.sem.ulp r.exp) * (r.mag + x.sem.ulp r.exp) ∧
    ((x.sem.rm = .nte ∨ x.sem.rm = .nta) →
        (r.mag - x.sem.ulp r.exp ≤ 0 ∨
          (r.mag - x.sem.ulp r.exp) * (r.mag - x.sem.ulp r.exp) < x.mag)) ∧
    (r.mag - 2 * x.sem.ulp r.exp ≤ 0 ∨
          (r.mag - 2 * x.sem.ulp r.exp) * (r.mag - 2 * x.sem.ulp r.exp) ≤ x.mag) := by
  have C := ctx_of hF hx
  obtain ⟨b, I, L, hle, hlo, hr, hmag⟩ := sqrt_result hF hx h
  have I' := step_inv C I
  have L' := low_step C I L
  obtain ⟨r1, r2, r0, r3, r4⟩ := (Flt.canonical_normal hr.cat).mp hr.can
  rw [hr.sem] at r1 r2 r3 r4
  have hru := hr.mag_ulp
  have hu := x.sem.ulp_pos r.exp
  have hη : IsRep x.sem ((2:ℚ) ^ (x.sem.emin - ((x.sem.p:Int) - 1))) :=
    isRep_pow hF _ (le_refl _) (by have := Sem.emin_le_emax hF; have := hF.2; omega)
  have hrnd : rnd x.sem x.sem.rm (stepQ x.sem x.mag b) = (r.mant:ℚ) * x.sem.ulp r.exp := by
    rw [← hmag, hru]
  refine ⟨hr, ?_, ?_⟩
  · by_contra hcon
    have hcon := not_lt.mp hcon
    have hB : r.mag + x.sem.ulp r.exp = ((r.mant + 1 : Nat) : ℚ) * x.sem.ulp r.exp := by
      rw [hru]; push_cast; ring
    have hBpos : 0 < r.mag + x.sem.ulp r.exp := by have := hr.mag_pos; linarith
    by_cases hlt : r.mag + x.sem.ulp r.exp < (2:ℚ) ^ (x.sem.emax + 1)
    · have rB : IsRep x.sem (r.mag + x.sem.ulp r.exp) := by
        rw [hB] at hlt ⊢
        exact isRep_mul_ulp_lt hF _ _ (by omega) r1 hlt
      have h1 := L' _ (isRep_wide hF rB) hBpos hcon
      have h2 := rnd_ge hF x.sem.rm hBpos rB h1 C.max_rep_F I'.hi
      rw [← hmag] at h2
      linarith
    · have hge := not_lt.mp hlt
      have h1 : (1:ℚ) ≤ (2:ℚ) ^ (x.sem.emax + 1) := by
        have := Sem.emax_pos hF
        calc (1:ℚ) = (2:ℚ) ^ (0:Int) := (zpow_zero _).symm
          _ ≤ _ := zpow_le_zpow_right₀ (by norm_num) (by omega)
      have := C.thi
      nlinarith
  · obtain ⟨m', e', N', _, hee'⟩ := inv_nf C I'
    obtain ⟨sb1, sb2⟩ := stop_bound C I L hle N'.e1 N'.m2 N'.m1 N'.hb
    have hw : (wide x.sem).ulp e' = x.sem.ulp e' := rfl
    rw [hw] at sb1 sb2
    have hnorm : x.sem.emin ≤ e' → 2 ^ (x.sem.p - 1) ≤ m' := by
      intro he
      rcases N'.m1 with h' | h'
      · exact h'
      · obtain ⟨f1, _, f3, _⟩ := C.facts
        omega
    obtain ⟨t1, t2⟩ := cast_transfer hF x.sem.rm (y := stepQ x.sem x.mag b) N'.hb hnorm N'.m2 hee'
      (by positivity) hη C.max_rep_F hlo I'.hi r1 r3 r4 hrnd
    rw [← hmag] at t1 t2
    exact ⟨fun hrm => lo_mono_lt (t2 hrm) (sb1 hrm), lo_mono_le t1 sb2⟩


/-- **Perfect squares**: in the nearest modes the root of a representable square is exact. -/
theorem sqrt_square {x : Flt} (hF : x.sem.WF) (hx : PosN x.sem x)
    (hrm : x.sem.rm = .nte ∨ x.sem.rm = .nta)
    {y : Flt} (hy : PosN x.sem y) (hsq : x.mag = y.mag * y.mag) {fuel : Nat} {r : Flt}
    (h : x.sqrtFuel fuel = some r) : r = y := by
  have C := ctx_of hF hx
  obtain ⟨b, I, L, hle, hlo, hr, hmag⟩ := sqrt_result hF hx h
  have := stop_perfect_square C I L hle hrm (isRep_wide hF hy.isRep) hy.mag_pos hsq.symm
  rw [this, rnd_rep hF _ hy.isRep hy.mag_pos] at hmag
  exact eq_of_mag_eq hF hr hy hmag


/-! ## 14. termination with a linear fuel bound -/

/-- below `2^(e+1)` one rounding adds at most `ulp e` -/
theorem rnd_le_add_ulp {F : Sem} (hF : F.WF) (rm : RM) {q : ℚ} (hq : 0 < q) {e : Int}
    (he1 : F.emin ≤ e) (he2 : e + 1 ≤ F.emax) (h : q < (2:ℚ) ^ (e + 1)) :
    rnd F rm q ≤ q + F.ulp e := by
  have hp : 1 ≤ F.p := by have := hF.2; omega
  have hu := F.ulp_pos e
  have hpp : 1 ≤ 2 ^ F.p := Nat.one_le_two_pow
  have hcast : ((2 ^ F.p - 1 : Nat) : ℚ) = (2:ℚ) ^ F.p - 1 := by
    rw [Nat.cast_sub hpp]; push_cast; ring
  have rpred : IsRep F (((2 ^ F.p - 1 : Nat) : ℚ) * F.ulp e) :=
    isRep_mul_ulp hF _ e (by omega) he1 he2
  have rtop : IsRep F ((2:ℚ) ^ (e + 1)) := isRep_pow hF _ (by omega) he2
  have hpm := F.pow_mul_ulp e
  by_cases hc : q ≤ ((2 ^ F.p - 1 : Nat) : ℚ) * F.ulp e
  · have hle := rnd_le hF rm hq rpred hc
    unfold rnd at hle ⊢
    rcases round_cases hF hq rm false with h' | h' | ⟨e', m', h'⟩
    · rw [h']; simp only [Res.mag]; linarith
    · rw [h']; simp only [Res.mag]; linarith
    · obtain ⟨_, a1, a2, a3, a4, a5⟩ := round_mem hF hq rm false h'
      rw [h', Res.mag_fin] at hle ⊢
      have hlt : q < (2:ℚ) ^ (F.emax + 1) :=
        lt_of_lt_of_le h (zpow_le_zpow_right₀ (by norm_num) (by omega))
      have herr := within_ulp_partial hF hq rm false (fun _ => hlt) h'
      rw [← Sem.ulp_def] at herr
      have hee : e' ≤ e := by
        by_contra hcon
        have hcon := not_le.mp hcon
        have hm : 2 ^ (F.p - 1) ≤ m' := by
          rcases a5 with h5 | h5
          · exact h5
          · omega
        have hmq : (2:ℚ) ^ (F.p - 1) ≤ (m':ℚ) := by exact_mod_cast hm
        have h1 : (2:ℚ) ^ e' ≤ (m':ℚ) * F.ulp e' := by
          rw [← F.half_pow_mul_ulp hp e']
          exact mul_le_mul_of_nonneg_right hmq (le_of_lt (F.ulp_pos e'))
        have h2 : (2:ℚ) ^ (e + 1) ≤ (2:ℚ) ^ e' := zpow_le_zpow_right₀ (by norm_num) (by omega)
        rw [hcast] at hle
        nlinarith
      have := F.ulp_mono hee
      have := (abs_lt.mp herr).2
      linarith
  · have hc := not_le.mp hc
    have := rnd_le hF rm hq rtop (le_of_lt h)
    rw [hcast] at hc
    nlinarith

/-- termination of the rational iteration within `n` steps -/
def TermQ (F : Sem) (t : ℚ) : Nat → ℚ → Prop
  | 0, _ => False
  | n + 1, y => stepQ F t y < y → TermQ F t n (stepQ F t y)

theorem TermQ.succ {F : Sem} {t : ℚ} : ∀ {n : Nat} {y : ℚ}, TermQ F t n y → TermQ F t (n + 1) y := by
  intro n
  induction n with
  | zero => intro y h; exact absurd h id
  | succ n ih => intro y h hlt; exact ih (h hlt)

theorem TermQ.mono {F : Sem} {t : ℚ} {n n' : Nat} {y : ℚ} (h : TermQ F t n y) (hle : n ≤ n') :
    TermQ F t n' y := by
  induction hle with
  | refl => exact h
  | step _ ih => exact ih.succ

section termlink
variable {F : Sem} {t : ℚ} {k : Int}

/-- the floating-point loop terminates whenever the rational iteration does -/
theorem termQ_sound (C : Ctx F t k) {tg : Flt} (htg : PosN (wide F) tg) (htm : tg.mag = t) :
    ∀ (n : Nat) (y : Flt), PosN (wide F) y → Inv F t k y.mag → TermQ F t n y.mag →
      ∃ r, sqrtLoop F n tg y y = some r := by
  intro n
  induction n with
  | zero => intro y _ _ h; exact absurd h id
  | succ n ih =>
    intro y hy I hT
    obtain ⟨p1, p2⟩ := stepF_spec C htg htm hy I
    rw [sqrtLoop_succ]
    by_cases hc : (y.lt (stepF tg y) || (stepF tg y).beq y) = true
    · rw [if_pos hc]; exact ⟨_, rfl⟩
    · rw [if_neg hc]
      rw [Bool.or_eq_true, not_or] at hc
      have c1 : ¬ y.mag < (stepF tg y).mag := fun h => hc.1 ((lt_posN (wide_WF C.hF) hy p1).mpr h)
      have c2 : ¬ (stepF tg y).mag = y.mag := fun h => hc.2 ((beq_posN (wide_WF C.hF) p1 hy).mpr h)
      have hlt : (stepF tg y).mag < y.mag := lt_of_le_of_ne (not_lt.mp c1) c2
      rw [p2] at hlt
      exact ih _ p1 (by rw [p2]; exact step_inv C I) (by rw [p2]; exact hT hlt)

end termlink


section fuel
variable {F : Sem} {t : ℚ} {k : Int}

/-- exponent of the grid on which all iterates live: `max(k, emin_wide)` -/
def kh (F : Sem) (k : Int) : Int := max k (wide F).emin
/-- its ulp -/
def uu (F : Sem) (k : Int) : ℚ := (wide F).ulp (kh F k)

theorem uu_pos (F : Sem) (k : Int) : 0 < uu F k := (wide F).ulp_pos _

theorem Ctx.kh_facts (C : Ctx F t k) :
    k ≤ kh F k ∧ (wide F).emin ≤ kh F k ∧ kh F k + 3 ≤ (wide F).emax ∧
      kh F k - ((F.p:Int) - 1) ≤ k ∧ (kh F k = k ∨ kh F k = (wide F).emin) := by
  obtain ⟨h1, h2, h3, h4, h5, h6, h7, h8, h9⟩ := C.facts
  unfold kh
  refine ⟨le_max_left _ _, le_max_right _ _, ?_, ?_, ?_⟩
  · rcases max_cases k (wide F).emin with ⟨h, _⟩ | ⟨h, _⟩ <;> rw [h] <;> omega
  · rcases max_cases k (wide F).emin with ⟨h, _⟩ | ⟨h, _⟩ <;> rw [h] <;> omega
  · rcases max_cases k (wide F).emin with ⟨h, _⟩ | ⟨h, _⟩ <;> rw [h] <;> simp

theorem Ctx.uu_le (C : Ctx F t k) : uu F k ≤ (2:ℚ) ^ k := by
  obtain ⟨_, _, _, h4, _⟩ := C.kh_facts
  unfold uu; rw [Sem.ulp_def]
  exact zpow_le_zpow_right₀ (by norm_num) h4

theorem Ctx.pow_uu (_C : Ctx F t k) : (2:ℚ) ^ F.p * uu F k = (2:ℚ) ^ (kh F k + 1) :=
  (wide F).pow_mul_ulp _

/-- a grid point `A = M·u` just below the root: `A² ≤ t < (A+u)²` -/
structure Anchor (F : Sem) (t : ℚ) (k : Int) (M : Nat) : Prop where
  m1 : 1 ≤ M
  m2 : M < 2 ^ F.p
  le : ((M:ℚ) * uu F k) * ((M:ℚ) * uu F k) ≤ t
  lt : t < (((M:ℚ) + 1) * uu F k) * (((M:ℚ) + 1) * uu F k)

theorem exists_anchor (C : Ctx F t k) : ∃ M, Anchor F t k M := by
  classical
  have hu := uu_pos F k
  obtain ⟨hk1, _, _, _, _⟩ := C.kh_facts
  let P : Nat → Prop := fun m => t < ((m:ℚ) * uu F k) * ((m:ℚ) * uu F k)
  have hPtop : P (2 ^ F.p) := by
    show t < (((2 ^ F.p : Nat) : ℚ) * uu F k) * (((2 ^ F.p : Nat) : ℚ) * uu F k)
    push_cast; rw [C.pow_uu]
    have h1 : (2:ℚ) ^ (k + 1) ≤ (2:ℚ) ^ (kh F k + 1) := zpow_le_zpow_right₀ (by norm_num) (by omega)
    have h2 : (2:ℚ) ^ (2 * k + 2) = (2:ℚ) ^ (k + 1) * (2:ℚ) ^ (k + 1) := by
      rw [← zpow_add₀ (by norm_num : (2:ℚ) ≠ 0)]; congr 1; ring
    have h3 : (0:ℚ) < (2:ℚ) ^ (k + 1) := by positivity
    have := C.khi
    nlinarith
  have hex : ∃ n, P n := ⟨_, hPtop⟩
  have hN : P (Nat.find hex) := Nat.find_spec hex
  have hNle : Nat.find hex ≤ 2 ^ F.p := Nat.find_min' hex hPtop
  have hP1 : ¬ P 1 := by
    show ¬ t < (((1:Nat):ℚ) * uu F k) * (((1:Nat):ℚ) * uu F k)
    rw [Nat.cast_one, one_mul, not_lt]
    have h1 := C.uu_le
    have h2 : (2:ℚ) ^ (2 * k) = (2:ℚ) ^ k * (2:ℚ) ^ k := by
      rw [← zpow_add₀ (by norm_num : (2:ℚ) ≠ 0)]; congr 1; ring
    have := C.klo
    nlinarith
  have hP0 : ¬ P 0 := by
    show ¬ t < (((0:Nat):ℚ) * uu F k) * (((0:Nat):ℚ) * uu F k)
    rw [Nat.cast_zero, zero_mul, zero_mul, not_lt]; exact le_of_lt C.tpos
  have hN2 : 2 ≤ Nat.find hex := by
    by_contra hc
    have : Nat.find hex = 0 ∨ Nat.find hex = 1 := by omega
    rcases this with h | h <;> rw [h] at hN
    · exact hP0 hN
    · exact hP1 hN
  obtain ⟨M, hM⟩ : ∃ M, Nat.find hex = M + 1 := ⟨Nat.find hex - 1, by omega⟩
  have hnot : ¬ P M := Nat.find_min hex (by omega)
  refine ⟨M, by omega, by omega, not_lt.mp hnot, ?_⟩
  rw [hM] at hN
  have : P (M + 1) := hN
  show t < _
  have e : ((M:ℚ) + 1) = ((M + 1 : Nat) : ℚ) := by push_cast; ring
  rw [e]; exact this

/-- every iterate is at or above the anchor -/
theorem anchor_le (C : Ctx F t k) {M : Nat} (An : Anchor F t k M) {y : ℚ} (L : Low F t y) :
    (M:ℚ) * uu F k ≤ y := by
  obtain ⟨_, h2, h3, _, _⟩ := C.kh_facts
  have hM : (0:ℚ) < M := by exact_mod_cast An.m1
  exact L _ (isRep_mul_ulp (wide_WF C.hF) M (kh F k) (le_of_lt An.m2) h2 (by omega))
    (mul_pos hM (uu_pos F k)) An.le

/-- every iterate is a multiple of `u` -/
theorem mult_u (C : Ctx F t k) {y : ℚ} (I : Inv F t k y) : ∃ N : Nat, y = (N:ℚ) * uu F k := by
  obtain ⟨_, h2, _, _, h5⟩ := C.kh_facts
  obtain ⟨e, m, a1, a2, a3, a4, hv⟩ := I.rep
  rw [← Sem.ulp_def] at hv
  have hu := (wide F).ulp_pos e
  have hlt : y < (2:ℚ) ^ (e + 1) := by
    have hmq : (m:ℚ) < (2:ℚ) ^ (wide F).p := by exact_mod_cast a3
    rw [hv, ← (wide F).pow_mul_ulp e]
    exact mul_lt_mul_of_pos_right hmq hu
  have hke : k ≤ e := by
    have := (zpow_lt_zpow_iff_right₀ (by norm_num : (1:ℚ) < 2)).mp (lt_of_le_of_lt I.lo hlt)
    omega
  have hge : kh F k ≤ e := by rcases h5 with h | h <;> omega
  obtain ⟨j, hj⟩ : ∃ j : Nat, e = kh F k + j := ⟨(e - kh F k).toNat, by omega⟩
  refine ⟨m * 2 ^ j, ?_⟩
  rw [hv, hj, (wide F).ulp_add]; unfold uu; push_cast; ring

/-- **Contraction** near the root: below `2^(k̂+2)` one step at least halves the distance to
    the anchor, up to `8.5` grid units -/
theorem step_contract (C : Ctx F t k) {M : Nat} (An : Anchor F t k M) {y : ℚ}
    (I : Inv F t k y) (L : Low F t y) (hy : y ≤ (2:ℚ) ^ (kh F k + 2)) :
    stepQ F t y ≤ (y + (M:ℚ) * uu F k) / 2 + 17 / 2 * uu F k := by
  obtain ⟨hk1, hk2, hk3, hk4, hk5⟩ := C.kh_facts
  obtain ⟨f1, f2, f3, f4, f5, f6, f7, f8, f9⟩ := C.facts
  have hW := wide_WF C.hF
  have hu := uu_pos F k
  have hy0 := I.pos C
  have ht := C.tpos
  have hA := anchor_le C An L
  have hM : (1:ℚ) ≤ M := by exact_mod_cast An.m1
  have hA0 : 0 < (M:ℚ) * uu F k := by nlinarith
  have e1 : (wide F).ulp (kh F k + 1) = 2 * uu F k := (wide F).ulp_succ _
  have e2 : (wide F).ulp (kh F k + 2) = 4 * uu F k := by
    rw [show kh F k + 2 = (kh F k + 1) + 1 by ring, (wide F).ulp_succ, e1]; ring
  have p1 : (2:ℚ) ^ (kh F k + 1) = 2 * (2:ℚ) ^ (kh F k) := by
    rw [zpow_add₀ (by norm_num : (2:ℚ) ≠ 0), zpow_one]; ring
  have p2 : (2:ℚ) ^ (kh F k + 2) = 2 * (2:ℚ) ^ (kh F k + 1) := by
    rw [show kh F k + 2 = (kh F k + 1) + 1 by ring, zpow_add₀ (by norm_num : (2:ℚ) ≠ 0), zpow_one]; ring
  have p3 : (2:ℚ) ^ (kh F k + 3) = 2 * (2:ℚ) ^ (kh F k + 2) := by
    rw [show kh F k + 3 = (kh F k + 2) + 1 by ring, zpow_add₀ (by norm_num : (2:ℚ) ≠ 0), zpow_one]; ring
  have pk : (0:ℚ) < (2:ℚ) ^ (kh F k) := by positivity
  have hkk : (2:ℚ) ^ k ≤ (2:ℚ) ^ (kh F k) := zpow_le_zpow_right₀ (by norm_num) hk1
  have t1 : (2:ℚ) ^ (2 * k + 2) = 4 * ((2:ℚ) ^ k * (2:ℚ) ^ k) := by
    rw [show 2 * k + 2 = k + k + 2 by ring, zpow_add₀ (by norm_num : (2:ℚ) ≠ 0),
      zpow_add₀ (by norm_num : (2:ℚ) ≠ 0)]; norm_num; ring
  have pkk : (0:ℚ) < (2:ℚ) ^ k := by positivity
  have hylo := I.lo
  have hthi := C.khi
  rw [t1] at hthi
  -- the quotient is below `2^(k̂+2)` and below `A + 3u`
  have hq1 : t / y < (2:ℚ) ^ (kh F k + 1 + 1) := by
    rw [show kh F k + 1 + 1 = kh F k + 2 by ring, div_lt_iff₀ hy0, p2, p1]; nlinarith
  have hq2 : t / y < (M:ℚ) * uu F k + 3 * uu F k := by
    rw [div_lt_iff₀ hy0]
    have h0 := An.lt
    have hAu : uu F k ≤ (M:ℚ) * uu F k := by nlinarith
    have h2 : uu F k * uu F k ≤ uu F k * ((M:ℚ) * uu F k) :=
      mul_le_mul_of_nonneg_left hAu (le_of_lt hu)
    have h1 := mul_le_mul_of_nonneg_left hA (by positivity : 0 ≤ (M:ℚ) * uu F k + 3 * uu F k)
    nlinarith
  have hd := rnd_le_add_ulp hW F.rm (div_pos ht hy0) (e := kh F k + 1) (by omega) (by omega) hq1
  rw [e1] at hd
  have hd' : dQ F t y ≤ t / y + 2 * uu F k := hd
  have hdpos := d_pos C I
  -- the sum is below `2^(k̂+3)`
  have hsum : y + dQ F t y < (2:ℚ) ^ (kh F k + 2 + 1) := by
    rw [show kh F k + 2 + 1 = kh F k + 3 by ring]
    by_cases hc : y ≤ (2:ℚ) ^ (kh F k + 1)
    · have := (d_bounds C I).2.2
      have h4 : (2:ℚ) ^ (k + 2) ≤ (2:ℚ) ^ (kh F k + 2) := zpow_le_zpow_right₀ (by norm_num) (by omega)
      rw [p3, p2]; rw [p2] at h4; linarith
    · have hc := not_le.mp hc
      have r : IsRep (wide F) ((2:ℚ) ^ (k + 1)) := isRep_pow hW _ (by rw [f9]; omega) (by omega)
      have pk1 : (2:ℚ) ^ (k + 1) = 2 * (2:ℚ) ^ k := by
        rw [zpow_add₀ (by norm_num : (2:ℚ) ≠ 0), zpow_one]; ring
      have hq : t / y ≤ (2:ℚ) ^ (k + 1) := by
        rw [div_le_iff₀ hy0, pk1]; rw [p1] at hc; nlinarith
      have : dQ F t y ≤ (2:ℚ) ^ (k + 1) := rnd_le hW F.rm (div_pos ht hy0) r hq
      rw [pk1] at this
      rw [p3, p2, p1]; rw [p2, p1] at hy; linarith
  have hs := rnd_le_add_ulp hW F.rm (by linarith : 0 < y + dQ F t y) (e := kh F k + 2)
    (by omega) (by omega) hsum
  rw [e2] at hs
  have hs' : sQ F t y ≤ y + dQ F t y + 4 * uu F k := hs
  have hspos := s_pos C I
  have hhalf : sQ F t y / 2 < (2:ℚ) ^ (kh F k + 2 + 1) := by
    have := rnd_le hW F.rm (by linarith : 0 < y + dQ F t y)
      (isRep_pow hW (kh F k + 3) (by rw [f9]; omega) (by omega))
      (by rw [show kh F k + 2 + 1 = kh F k + 3 by ring] at hsum; exact le_of_lt hsum)
    have h5 : sQ F t y ≤ (2:ℚ) ^ (kh F k + 3) := this
    rw [show kh F k + 2 + 1 = kh F k + 3 by ring]
    have : (0:ℚ) < (2:ℚ) ^ (kh F k + 3) := by positivity
    linarith
  have hy' := rnd_le_add_ulp hW .nte (by linarith : 0 < sQ F t y / 2) (e := kh F k + 2)
    (by omega) (by omega) hhalf
  rw [e2] at hy'
  have hy'' : stepQ F t y ≤ sQ F t y / 2 + 4 * uu F k := hy'
  linarith

/-- final phase: within `j` grid units of the anchor at most `j + 2` steps remain -/
theorem descent_term (C : Ctx F t k) {M : Nat} (An : Anchor F t k M) :
    ∀ (j : Nat) (y : ℚ), Inv F t k y → Low F t y → y ≤ (M:ℚ) * uu F k + (j:ℚ) * uu F k →
      TermQ F t (j + 2) y := by
  intro j
  induction j with
  | zero =>
    intro y I L hy hlt
    have := anchor_le C An (low_step C I L)
    have := anchor_le C An L
    simp only [Nat.cast_zero, zero_mul, add_zero] at hy
    linarith
  | succ j ih =>
    intro y I L hy hlt
    apply ih _ (step_inv C I) (low_step C I L)
    obtain ⟨N, hN⟩ := mult_u C I
    obtain ⟨N', hN'⟩ := mult_u C (step_inv C I)
    have hu := uu_pos F k
    rw [hN'] at hlt
    rw [hN] at hlt
    have : (N':ℚ) < N := lt_of_mul_lt_mul_right hlt (le_of_lt hu)
    have : N' + 1 ≤ N := by exact_mod_cast this
    have : ((N' + 1 : Nat) : ℚ) ≤ (N:ℚ) := Nat.cast_le.mpr this
    push_cast at this hy
    rw [hN'] ; rw [hN] at hy
    nlinarith

/-- middle phase: the distance to the anchor halves until it is below 19 grid units -/
theorem contract_term (C : Ctx F t k) {M : Nat} (An : Anchor F t k M) :
    ∀ (n : Nat) (y : ℚ), Inv F t k y → Low F t y → y ≤ (2:ℚ) ^ (kh F k + 2) →
      y ≤ (M:ℚ) * uu F k + ((2:ℚ) ^ n + 18) * uu F k → TermQ F t (n + 21) y := by
  intro n
  induction n with
  | zero =>
    intro y I L _ hy
    have := descent_term C An 19 y I L (by push_cast; norm_num at hy; linarith)
    exact this
  | succ n ih =>
    intro y I L hy2 hy
    have e : n + 1 + 21 = (n + 21) + 1 := by omega
    rw [e]
    intro hlt
    apply ih _ (step_inv C I) (low_step C I L) (by linarith)
    have := step_contract C An I L hy2
    have hu := uu_pos F k
    rw [pow_succ] at hy
    linarith

/-- common facts of the first phase: `y` in the binade `(2^j, 2^(j+1)]`, `j ≥ k + 2` -/
theorem phase1_d (C : Ctx F t k) {y : ℚ} (I : Inv F t k y) {j : Int} (hj : k + 2 ≤ j)
    (h1 : (2:ℚ) ^ j < y) : j ≤ F.emax ∧ dQ F t y ≤ (2:ℚ) ^ (j - 2) := by
  obtain ⟨f1, f2, f3, f4, f5, f6, f7, f8, f9⟩ := C.facts
  have hW := wide_WF C.hF
  have hy0 := I.pos C
  have hje : j ≤ F.emax := by
    have := (zpow_lt_zpow_iff_right₀ (by norm_num : (1:ℚ) < 2)).mp
      (lt_trans h1 (lt_of_le_of_lt I.hi C.max_lt))
    omega
  refine ⟨hje, ?_⟩
  have r : IsRep (wide F) ((2:ℚ) ^ (j - 2)) := isRep_pow hW _ (by rw [f9]; omega) (by omega)
  apply rnd_le hW F.rm (div_pos C.tpos hy0) r
  rw [div_le_iff₀ hy0]
  have h2 : (2:ℚ) ^ (2 * k + 2) ≤ (2:ℚ) ^ (j - 2 + j) := zpow_le_zpow_right₀ (by norm_num) (by omega)
  have h2' : (2:ℚ) ^ (j - 2 + j) = (2:ℚ) ^ (j - 2) * (2:ℚ) ^ j := zpow_add₀ (by norm_num) _ _
  have h3 : (0:ℚ) < (2:ℚ) ^ (j - 2) := by positivity
  have h4 : (2:ℚ) ^ (j - 2) * (2:ℚ) ^ j ≤ (2:ℚ) ^ (j - 2) * y :=
    mul_le_mul_of_nonneg_left (le_of_lt h1) (le_of_lt h3)
  have := C.khi
  linarith

theorem phase1a (C : Ctx F t k) {y : ℚ} (I : Inv F t k y) {j : Int} (hj : k + 2 ≤ j)
    (h1 : (2:ℚ) ^ j < y) (h2 : y ≤ 3 / 2 * (2:ℚ) ^ j) : stepQ F t y ≤ (2:ℚ) ^ j := by
  obtain ⟨f1, f2, f3, f4, f5, f6, f7, f8, f9⟩ := C.facts
  obtain ⟨hje, hd⟩ := phase1_d C I hj h1
  have hW := wide_WF C.hF
  have S := stp_of C I
  have e1 : (2:ℚ) ^ j = 4 * (2:ℚ) ^ (j - 2) := by
    rw [show j = (j - 2) + 2 by ring, zpow_add₀ (by norm_num : (2:ℚ) ≠ 0)]
    simp only [add_sub_cancel_right]; norm_num; ring
  have e2 : (2:ℚ) ^ (j + 1) = 2 * (2:ℚ) ^ j := by
    rw [zpow_add₀ (by norm_num : (2:ℚ) ≠ 0), zpow_one]; ring
  have r2 : IsRep (wide F) ((2:ℚ) ^ (j + 1)) := isRep_pow hW _ (by rw [f9]; omega) (by omega)
  have r3 : IsRep (wide F) ((2:ℚ) ^ j) := isRep_pow hW _ (by rw [f9]; omega) (by omega)
  have h0 : (0:ℚ) < (2:ℚ) ^ (j - 2) := by positivity
  have hs := S.s_le_mono r2 (by rw [e2]; linarith)
  exact S.y_le r3 (by rw [e2] at hs; exact hs)

theorem phase1b (C : Ctx F t k) {y : ℚ} (I : Inv F t k y) {j : Int} (hj : k + 2 ≤ j)
    (h1 : (2:ℚ) ^ j < y) (h2 : y ≤ (2:ℚ) ^ (j + 1)) : stepQ F t y ≤ 3 / 2 * (2:ℚ) ^ j := by
  obtain ⟨f1, f2, f3, f4, f5, f6, f7, f8, f9⟩ := C.facts
  obtain ⟨hje, hd⟩ := phase1_d C I hj h1
  have hW := wide_WF C.hF
  have S := stp_of C I
  have e1 : (2:ℚ) ^ j = 4 * (2:ℚ) ^ (j - 2) := by
    rw [show j = (j - 2) + 2 by ring, zpow_add₀ (by norm_num : (2:ℚ) ≠ 0)]
    simp only [add_sub_cancel_right]; norm_num; ring
  have e0 : (2:ℚ) ^ j = 2 * (2:ℚ) ^ (j - 1) := by
    rw [show j = (j - 1) + 1 by ring, zpow_add₀ (by norm_num : (2:ℚ) ≠ 0), zpow_one]
    simp only [add_sub_cancel_right]; ring
  have e2 : (2:ℚ) ^ (j + 1) = 2 * (2:ℚ) ^ j := by
    rw [zpow_add₀ (by norm_num : (2:ℚ) ≠ 0), zpow_one]; ring
  have h3p : 3 < 2 ^ (wide F).p := by
    rw [f9]
    calc 3 < 2 ^ 2 := by norm_num
      _ ≤ 2 ^ F.p := Nat.pow_le_pow_right (by norm_num) f8
  have r2 : IsRep (wide F) (((3:Nat):ℚ) * (2:ℚ) ^ j) := by
    apply isRep_of_lt hW 3 j h3p (by rw [f9]; omega)
    have : (2:ℚ) ^ (j + 2) ≤ (2:ℚ) ^ ((wide F).emax + 1) := zpow_le_zpow_right₀ (by norm_num) (by omega)
    have e3 : (2:ℚ) ^ (j + 2) = 4 * (2:ℚ) ^ j := by
      rw [zpow_add₀ (by norm_num : (2:ℚ) ≠ 0)]; norm_num; ring
    have : (0:ℚ) < (2:ℚ) ^ j := by positivity
    push_cast; linarith
  have r3 : IsRep (wide F) (((3:Nat):ℚ) * (2:ℚ) ^ (j - 1)) := by
    apply isRep_of_lt hW 3 (j - 1) h3p (by rw [f9]; omega)
    have : (2:ℚ) ^ (j + 2) ≤ (2:ℚ) ^ ((wide F).emax + 1) := zpow_le_zpow_right₀ (by norm_num) (by omega)
    have e3 : (2:ℚ) ^ (j + 2) = 4 * (2:ℚ) ^ j := by
      rw [zpow_add₀ (by norm_num : (2:ℚ) ≠ 0)]; norm_num; ring
    have : (0:ℚ) < (2:ℚ) ^ (j - 1) := by positivity
    push_cast; linarith
  push_cast at r2 r3
  have h0 : (0:ℚ) < (2:ℚ) ^ (j - 2) := by positivity
  have hs := S.s_le_mono r2 (by rw [e2] at h2; linarith)
  have := S.y_le r3 (by linarith)
  linarith

/-- first phase: two steps per binade down to `2^(k+2)`, then the other phases -/
theorem phase1_term (C : Ctx F t k) {M : Nat} (An : Anchor F t k M) :
    ∀ (n : Nat) (y : ℚ), Inv F t k y → Low F t y → y ≤ (2:ℚ) ^ (k + 2 + (n:Int)) →
      TermQ F t (2 * n + (F.p + 22)) y := by
  obtain ⟨hk1, hk2, hk3, hk4, hk5⟩ := C.kh_facts
  intro n
  induction n with
  | zero =>
    intro y I L hy
    simp only [Nat.cast_zero, add_zero] at hy
    have h1 : y ≤ (2:ℚ) ^ (kh F k + 2) :=
      le_trans hy (zpow_le_zpow_right₀ (by norm_num) (by omega))
    have hA : (0:ℚ) ≤ (M:ℚ) * uu F k := by have := uu_pos F k; positivity
    have hu := uu_pos F k
    have h2 : (2:ℚ) ^ (kh F k + 2) = (2:ℚ) ^ (F.p + 1) * uu F k := by
      rw [pow_succ, mul_assoc, mul_comm 2 (uu F k), ← mul_assoc, C.pow_uu,
        show kh F k + 2 = (kh F k + 1) + 1 by ring, zpow_add₀ (by norm_num : (2:ℚ) ≠ 0), zpow_one]
    have := contract_term C An (F.p + 1) y I L h1 (by rw [h2] at h1; nlinarith)
    have e : 2 * 0 + (F.p + 22) = F.p + 1 + 21 := by omega
    rw [e]; exact this
  | succ n ih =>
    intro y I L hy
    have ej : k + 2 + ((n + 1 : Nat) : Int) = (k + 2 + (n:Int)) + 1 := by push_cast; ring
    rw [ej] at hy
    have hj : k + 2 ≤ k + 2 + (n:Int) := by omega
    by_cases c1 : y ≤ (2:ℚ) ^ (k + 2 + (n:Int))
    · exact (ih y I L c1).mono (by omega)
    · have c1 := not_le.mp c1
      have e : 2 * (n + 1) + (F.p + 22) = (2 * n + (F.p + 22) + 1) + 1 := by omega
      rw [e]
      by_cases c2 : y ≤ 3 / 2 * (2:ℚ) ^ (k + 2 + (n:Int))
      · apply TermQ.succ
        intro _
        exact ih _ (step_inv C I) (low_step C I L) (phase1a C I hj c1 c2)
      · intro _
        have hy1 := phase1b C I hj c1 hy
        have I' := step_inv C I
        have L' := low_step C I L
        by_cases c3 : stepQ F t y ≤ (2:ℚ) ^ (k + 2 + (n:Int))
        · exact (ih _ I' L' c3).succ
        · intro _
          exact ih _ (step_inv C I') (low_step C I' L') (phase1a C I' hj (not_le.mp c3) hy1)

/-- the rational iteration started at `max(2, t)` terminates within a number of steps that is
    linear in the exponent range and the precision -/
theorem termQ_start (C : Ctx F t k) :
    TermQ F t (2 * (F.emax - k - 1).toNat + (F.p + 22)) (max 2 t) := by
  obtain ⟨M, An⟩ := exists_anchor C
  apply phase1_term C An _ _ (inv_start C) (low_start F t)
  exact le_trans C.max_le (zpow_le_zpow_right₀ (by norm_num) (by omega))

end fuel

/-- **Linear fuel bound**: `2·emax − emin + 2p + 20` iterations always suffice. -/
theorem sqrt_fuel_linear {x : Flt} (hF : x.sem.WF) (hx : PosN x.sem x) {fuel : Nat}
    (h : (2 * x.sem.emax - x.sem.emin).toNat + 2 * x.sem.p + 20 ≤ fuel) :
    ∃ r, x.sqrtFuel fuel = some r := by
  have C := ctx_of hF hx
  obtain ⟨f1, f2, f3, f4, f5, f6, f7, f8, f9⟩ := C.facts
  obtain ⟨t1, t2⟩ := target_spec hF hx
  obtain ⟨s1, s2⟩ := x0_spec hF hx
  rw [sqrtFuel_posN hx]
  apply termQ_sound C t1 t2 fuel (x0 x) s1 (by rw [s2]; exact inv_start C)
  rw [s2]
  exact (termQ_start C).mono (by omega)

end Arp.Sqrt
