import Arp.Lemmas.TrigBig
/-!
# `sinFuel` for `1 ≤ |x| ≤ 128`, given the accuracy of the computed `π`

* `PiOKAt W fuel0`: `piFuel fuel0 W` is a positive number within one ulp `2^(2-p_W)` of `π`;
* `sinW_ctx_big`, `sin_budget_big`: the working format with the lower bound `2^(1-p_W)` of a
  non-zero reduced argument, and the error budget with the outermost step;
* `sin_big_core`: the result of `sinFuel` is the nearest rounding (sign attached) of a rational
  `q` with `|q − S| ≤ 2^-(p+6)·(|S| + a) + a`, `a = 180·2^-p_W`, where `sin |x| = ± S`.
-/
namespace Arp.TrigErr
open Arp Arp.SpecRound Arp.RelErr Arp.Ln2 Arp.Sqrt

/-- `piFuel fuel0 W` returns a positive number within one ulp of `π` -/
def PiOKAt (W : Sem) (fuel0 : ℕ) : Prop :=
  ∃ r, piFuel fuel0 W = some r ∧ r.cat = .normal ∧ r.sign = false ∧
    |((r.val : ℚ) : ℝ) - Real.pi| ≤ (2:ℝ) ^ (2 - (W.p:ℤ))

theorem PiOKAt.piHat {W : Sem} (hW : W.WF) {fuel0 : ℕ} (h : PiOKAt W fuel0) :
    ∃ pi, PiHat W pi ∧ ∀ fuel, fuel0 ≤ fuel → piFuel fuel W = some pi := by
  obtain ⟨r, h1, h2, h3, h4⟩ := h
  have hsem := C15.piFuel_sem fuel0 W r h1
  have hcan := (C15.piFuel_canonical fuel0 W hW r h1).1
  refine ⟨r, ⟨⟨hsem, hcan, h2, h3⟩, ?_⟩, fun fuel hf => C15.piFuel_stable W fuel0 fuel hf r h1⟩
  have : r.val = r.mag := by rw [Flt.val_normal h2, h3]; simp
  rw [← this]; exact h4

theorem num_27L (L : ℕ) (hL : 4 ≤ L) : 27 * L + 42 ≤ 13 * 2 ^ L := by
  induction L, hL using Nat.le_induction with
  | base => norm_num
  | succ L hL ih =>
    rw [Nat.pow_succ]
    have : 16 ≤ 2 ^ L := by
      calc 16 = 2 ^ 4 := by norm_num
        _ ≤ 2 ^ L := Nat.pow_le_pow_right (by norm_num) hL
    omega

/-- lower bound of a non-zero reduced argument, divided by `4^k` -/
def sinLoBig (F : Sem) : ℚ :=
  (2:ℚ) ^ (-(((sinW F).p - 1 : ℕ) : ℤ) - 8 * (F.logPrecision:ℤ))

/-- `2^(e-1) ≥ 2^bitlen(p)` in the domain formats -/
theorem pow_e_ge {F : Sem} (hp : 8 ≤ F.p) (hdom : F.p ≤ 2 ^ (F.e - 1) - 2) :
    2 ^ F.logPrecision ≤ 2 ^ (F.e - 1) := by
  obtain ⟨_, hL1, _⟩ := logPrec_bounds hp
  rw [logPrecision_eq hp]
  apply Nat.pow_le_pow_right (by norm_num)
  have h1 : 2 ^ Nat.log2 F.p < 2 ^ (F.e - 1) := by omega
  have := (Nat.pow_lt_pow_iff_right (by norm_num : 1 < 2)).mp h1
  omega

/-- the working format of `sin` with the lower bound `2^(1-p_W)/4^k` -/
theorem sinW_ctx_big (F : Sem) (hF : F.WF) (hp : 8 ≤ F.p) (hdom : F.p ≤ 2 ^ (F.e - 1) - 2)
    (hrm : F.rm = .nte ∨ F.rm = .nta) : SCtx (sinW F) (sinLoBig F) := by
  obtain ⟨hL4, hL1, hL2⟩ := logPrec_bounds hp
  have hLeq := logPrecision_eq hp
  have hBL := pow_e_ge hp hdom
  set L := F.logPrecision with hLdef
  have hL4' : 4 ≤ L := by omega
  have h27 := num_27L L hL4'
  have hpL : F.p < 2 ^ L := by rw [hLeq]; exact hL2
  have hemin : F.emin = 2 - ((2 ^ (F.e - 1) : ℕ) : ℤ) := Sem.emin_eq F
  have hWemin := sinW_emin hF
  have hWemax := sinW_emax hF
  have hB : (F.p : ℤ) + 2 ≤ ((2 ^ (F.e - 1) : ℕ) : ℤ) := by
    have : F.p + 2 ≤ 2 ^ (F.e - 1) := by omega
    exact_mod_cast this
  have hBL' : ((2 ^ L : ℕ) : ℤ) ≤ ((2 ^ (F.e - 1) : ℕ) : ℤ) := by exact_mod_cast hBL
  have hpL' : (F.p:ℤ) < ((2 ^ L : ℕ) : ℤ) := by exact_mod_cast hpL
  have h27' : 27 * (L:ℤ) + 42 ≤ 13 * ((2 ^ L : ℕ) : ℤ) := by exact_mod_cast h27
  have hLle : (L:ℤ) ≤ (F.p:ℤ) := by
    have : L ≤ F.p := by
      have h1 : L - 1 < 2 ^ (L - 1) := Nat.lt_two_pow_self
      have h2 : 2 ^ (L - 1) ≤ F.p := by rw [hLeq]; simpa using hL1
      omega
    exact_mod_cast this
  have hWp : ((sinW F).p : ℤ) = (F.p:ℤ) + 12 + (L:ℤ) := by rw [sinW_p]; push_cast; rfl
  have hWp1 : (((sinW F).p - 1 : ℕ) : ℤ) = (F.p:ℤ) + 11 + (L:ℤ) := by
    have : 1 ≤ (sinW F).p := by rw [sinW_p]; omega
    omega
  refine ⟨Sem.wide_WF hF 12 4, by rw [sinW_rm]; exact hrm, ?_, ?_, ?_, ?_, ?_⟩
  · rw [sinW_p]; omega
  · rw [hWp, hWemax]; omega
  · unfold sinLoBig; positivity
  · unfold sinLoBig
    rw [← zpow_natCast, ← zpow_mul]
    apply zpow_le_zpow_right₀ (by norm_num)
    rw [hWemin, hWp1]
    generalize ((2 ^ (F.e - 1) : ℕ) : ℤ) = B at *
    generalize ((2 ^ L : ℕ) : ℤ) = T at *
    push_cast; omega
  · unfold sinLoBig delta Sem.ulp RelErr.u
    rw [show (1024:ℚ) = (2:ℚ) ^ (10:ℤ) by norm_num, ← zpow_add₀ (by norm_num : (2:ℚ) ≠ 0),
      ← zpow_add₀ (by norm_num : (2:ℚ) ≠ 0)]
    apply zpow_le_zpow_right₀ (by norm_num)
    rw [hWemin, hWp, hWp1]
    generalize ((2 ^ (F.e - 1) : ℕ) : ℤ) = B at *
    generalize ((2 ^ L : ℕ) : ℤ) = T at *
    omega

/-- `sinLoBig·4^k = 2^(1-p_W)` -/
theorem sinLoBig_mul (F : Sem) :
    sinLoBig F * 4 ^ (F.logPrecision * 4) = 1 / 2 ^ ((sinW F).p - 1) := by
  unfold sinLoBig
  have : (4:ℚ) ^ (F.logPrecision * 4) = (2:ℚ) ^ ((8 * F.logPrecision : ℕ) : ℤ) := by
    rw [zpow_natCast, show (4:ℚ) = 2 ^ 2 by norm_num, ← pow_mul]; congr 1; ring
  rw [this, ← zpow_add₀ (by norm_num : (2:ℚ) ≠ 0), one_div, ← zpow_natCast, ← zpow_neg]
  congr 1; push_cast; ring

/-- **error budget with the outermost step**: `(3·max(50, p_W) + 12·k + 3)·u_W ≤ 2^-(p+6)` -/
theorem sin_budget_big (F : Sem) (hp : 8 ≤ F.p) :
    ((3 * Nat.max 50 (sinW F).p + 12 * (F.logPrecision * 4) + 3 : ℕ) : ℚ) * u (sinW F)
      ≤ (2:ℚ) ^ (-(F.p:ℤ) - 6) := by
  obtain ⟨hL4, hL1, hL2⟩ := logPrec_bounds hp
  have hLeq := logPrecision_eq hp
  set L := F.logPrecision with hLdef
  have hL4' : 4 ≤ L := by omega
  have hpL : F.p < 2 ^ L := by rw [hLeq]; exact hL2
  have h51 := num_51L L hL4'
  have hmax : Nat.max 50 (sinW F).p ≤ (sinW F).p + 50 := by
    rcases Nat.le_total 50 (sinW F).p with h | h
    · have h1 : Nat.max 50 (sinW F).p = (sinW F).p := Nat.max_eq_right h
      rw [h1]; omega
    · have h1 : Nat.max 50 (sinW F).p = 50 := Nat.max_eq_left h
      rw [h1]; omega
  have hnat : 3 * Nat.max 50 (sinW F).p + 12 * (L * 4) + 3 ≤ 2 ^ (L + 5) := by
    rw [sinW_p] at hmax ⊢
    rw [Nat.pow_add]
    have : F.logPrecision = L := rfl
    rw [this] at hmax ⊢
    generalize Nat.max 50 (F.p + 12 + L) = M at *
    generalize 2 ^ L = T at *
    omega
  have hq : ((3 * Nat.max 50 (sinW F).p + 12 * (L * 4) + 3 : ℕ) : ℚ) ≤ (2:ℚ) ^ ((L + 5 : ℕ) : ℤ) := by
    rw [zpow_natCast]; exact_mod_cast hnat
  have hu0 := RelErr.u_pos (sinW F)
  calc ((3 * Nat.max 50 (sinW F).p + 12 * (L * 4) + 3 : ℕ) : ℚ) * u (sinW F)
      ≤ (2:ℚ) ^ ((L + 5 : ℕ) : ℤ) * u (sinW F) := mul_le_mul_of_nonneg_right hq (le_of_lt hu0)
    _ = (2:ℚ) ^ (-(F.p:ℤ) - 6) := by
        unfold RelErr.u
        rw [← zpow_add₀ (by norm_num : (2:ℚ) ≠ 0), sinW_p]
        congr 1
        push_cast
        have : (F.logPrecision : ℤ) = (L:ℤ) := rfl
        rw [this]; ring

/-- a canonical normal value with a non-negative exponent field is at least one -/
theorem one_le_mag {x : Flt} (hF : x.sem.WF) (hemin : x.sem.emin < 0) (hn : x.cat = .normal)
    (hc : x.Canonical) (hbig : 0 ≤ x.exp) : 1 ≤ x.mag := by
  have hp : 1 ≤ x.sem.p := by have := hF.2; omega
  obtain ⟨h1, _, _, _, h5⟩ := (Flt.canonical_normal hn).mp hc
  have hm : 2 ^ (x.sem.p - 1) ≤ x.mant := by
    rcases h5 with h | h
    · exact h
    · exfalso; omega
  have hmq : (2:ℚ) ^ (x.sem.p - 1) ≤ (x.mant:ℚ) := by exact_mod_cast hm
  rw [Flt.mag_eq, ← Sem.ulp_def]
  have hu := x.sem.ulp_pos x.exp
  calc (1:ℚ) = (2:ℚ) ^ (0:ℤ) := by norm_num
    _ ≤ (2:ℚ) ^ x.exp := zpow_le_zpow_right₀ (by norm_num) hbig
    _ = (2:ℚ) ^ (x.sem.p - 1) * x.sem.ulp x.exp := (x.sem.half_pow_mul_ulp hp x.exp).symm
    _ ≤ (x.mant:ℚ) * x.sem.ulp x.exp := mul_le_mul_of_nonneg_right hmq (le_of_lt hu)

set_option maxHeartbeats 400000 in
/-- **`sinFuel` for a normal operand with `1 ≤ |x| ≤ 128`**, given `π̂`: the result is the nearest
    rounding, with the sign `neg`, of a rational `q ∈ [0, 1 + 2^-(p+6)]` with
    `|q − S| ≤ 2^-(p+6)·(|S| + a) + a`, where `sin |x| = ± S` and `a ≤ 180·2^-(p+16)` -/
theorem sin_big_core (x : Flt) (hF : x.sem.WF) (hp : 8 ≤ x.sem.p) (hpmax : x.sem.p ≤ 1000000)
    (hdom : x.sem.p ≤ 2 ^ (x.sem.e - 1) - 2) (hrm : x.sem.rm = .nte ∨ x.sem.rm = .nta)
    (hc : x.Canonical) (hn : x.cat = .normal) (hbig : 0 ≤ x.exp) (h128 : x.mag ≤ 128)
    {fuel0 : ℕ} (hpi : PiOKAt (sinW x.sem) fuel0) (fuel : ℕ) (hfuel : fuel0 ≤ fuel) :
    ∃ (r : Flt) (q : ℚ) (neg : Bool) (S a : ℝ), x.sinFuel fuel = some r ∧
      (r.cat = .normal ∨ r.cat = .zero) ∧ r.Canonical ∧ r.sem = x.sem ∧
      r.val = (if neg then -1 else 1) * rq x.sem x.sem.rm q ∧ 0 ≤ q ∧
      q ≤ 1 + (2:ℚ) ^ (-(x.sem.p:ℤ) - 6) ∧
      Real.sin ((x.mag : ℚ) : ℝ) = (if neg = x.sign then 1 else -1) * S ∧ |S| ≤ 1 ∧ 0 ≤ a ∧
      a ≤ 180 * (2:ℝ) ^ (-(x.sem.p:ℤ) - 16) ∧
      |((q : ℚ) : ℝ) - S| ≤ (2:ℝ) ^ (-(x.sem.p:ℤ) - 6) * (|S| + a) + a := by
  have hW : (sinW x.sem).WF := Sem.wide_WF hF 12 4
  have S' := sinW_ctx_big x.sem hF hp hdom hrm
  have hu0 := RelErr.u_pos (sinW x.sem)
  obtain ⟨hL4, hL1, hL2⟩ := logPrec_bounds hp
  have hLeq := logPrecision_eq hp
  have hLle : x.sem.logPrecision ≤ x.sem.p := by
    have h1 : Nat.log2 x.sem.p < 2 ^ Nat.log2 x.sem.p := Nat.lt_two_pow_self
    omega
  obtain ⟨pi, hpiH, hpifuel⟩ := hpi.piHat hW
  -- the widened operand
  obtain ⟨a1, a2, a3, a4, a5⟩ := C06.widen_lossless_normal x (sinW x.sem) .none
    (by rw [sinW_e]; omega) (by rw [sinW_p]; omega) hF hW hn hc
  set v0 := x.castWithRm (sinW x.sem) .none with hv0
  obtain ⟨hPos, hmag⟩ := absOf_posN a1 a2 a3
  rw [a5] at hmag
  have hemin8 : x.sem.emin ≤ -8 := by
    have := Sem.emin_eq x.sem
    have h2 : 10 ≤ 2 ^ (x.sem.e - 1) := by omega
    have : (10:ℤ) ≤ ((2 ^ (x.sem.e - 1) : ℕ) : ℤ) := by exact_mod_cast h2
    omega
  have hX1 : 1 ≤ x.mag := one_le_mag hF (by omega) hn hc hbig
  -- the reduction
  have hfuelrem : (sinW x.sem).p + 10 ≤ innerFuel := by
    rw [sinW_p]; unfold innerFuel; omega
  obtain ⟨v4, neg, θq, hred, hv4, hθfix, hθ0, hθ85, θ, hθerr, hsin⟩ :=
    sin_reduce hW S'.p24 S'.pemax hfuelrem hpiH hPos (by rw [hmag]; exact hX1)
      (by rw [hmag]; exact h128) v0.sign
  rw [hmag, a4] at hsin
  -- `sinFuel`
  set k := x.sem.logPrecision * 4 with hk
  have hfuelEq : x.sinFuel fuel =
      some ((if neg then (sinStep4 k v4).neg else sinStep4 k v4).cast x.sem) := by
    rw [sinFuel_normal fuel x hn]
    have hd : decide (x.exp < 0) = false := by simp; omega
    rw [hd]
    unfold sinTail
    have hpf : piFuel fuel ((x.sem.growLog 12).increaseExponent 4) = some pi := hpifuel fuel hfuel
    have hred' : sinRedCore pi (absOf (x.castWithRm ((x.sem.growLog 12).increaseExponent 4) .none))
        (x.castWithRm ((x.sem.growLog 12).increaseExponent 4) .none).sign = some (v4, neg) := hred
    rw [sinRed_big, hpf]
    simp only
    rw [hred']
    rfl
  -- the absolute error of the reduced argument
  set a : ℝ := 180 * (2:ℝ) ^ (-((sinW x.sem).p:ℤ)) with ha
  have ha0 : 0 ≤ a := by rw [ha]; positivity
  have haP : a ≤ 180 * (2:ℝ) ^ (-(x.sem.p:ℤ) - 16) := by
    rw [ha]
    apply mul_le_mul_of_nonneg_left _ (by norm_num)
    apply zpow_le_zpow_right₀ (by norm_num)
    rw [sinW_p]; push_cast; omega
  have hSabs : |Real.sin θ| ≤ 1 := Real.abs_sin_le_one θ
  have hlip := Real.abs_sin_sub_sin_le ((θq : ℚ) : ℝ) θ
  have hE6pos : (0:ℝ) < (2:ℝ) ^ (-(x.sem.p:ℤ) - 6) := by positivity
  set res := sinStep4 k v4 with hres
  have hres_sem : res.sem = sinW x.sem := by rw [hres, sinStep4_sem, hv4.sem]
  rcases eq_or_lt_of_le hθ0 with hz | hpos
  · -- a zero reduced argument
    have hv4z : v4.cat = .zero := by
      rcases hv4.fin with h | h
      · have := nn_val_pos_normal hv4 h; linarith
      · exact h
    have hresz : res.cat = .zero := sinStep4_zero_cat S' k v4 hv4.sem hv4z
    set y := (if neg then res.neg else res) with hy
    have hyz : y.cat ≠ .normal := by
      rw [hy]; split <;> (show res.cat ≠ .normal; rw [hresz]; decide)
    have hycat : y.cat = .zero := by
      rw [hy]; split <;> exact hresz
    obtain ⟨c1, c2, c3, c4⟩ := C06.cast_special_canonical y x.sem y.sem.rm hyz
    have hrcat : (y.cast x.sem).cat = .zero := by
      show (y.castWithRm x.sem y.sem.rm).cat = .zero
      rw [c2, hycat]
    refine ⟨y.cast x.sem, 0, neg, Real.sin θ, a, hfuelEq, Or.inr hrcat, c1, c4, ?_, le_refl _, ?_,
      hsin, hSabs, ha0, haP, ?_⟩
    · rw [Flt.val_zero hrcat, rq_zero, mul_zero]
    · have : (0:ℚ) < (2:ℚ) ^ (-(x.sem.p:ℤ) - 6) := by positivity
      linarith
    · rw [← hz] at hθerr hlip
      simp only [Rat.cast_zero, Real.sin_zero, zero_sub, abs_neg] at hθerr hlip ⊢
      have h1 : 0 ≤ (2:ℝ) ^ (-(x.sem.p:ℤ) - 6) * (|Real.sin θ| + a) :=
        mul_nonneg (le_of_lt hE6pos) (by linarith [abs_nonneg (Real.sin θ)])
      linarith
  · -- a positive reduced argument
    obtain ⟨hv4P, hv4mag⟩ := posN_of_nn hv4 hpos
    have hk1 : 1 ≤ k := by omega
    have hbud := sin_budget_big x.sem hp
    rw [← hk] at hbud
    have hK : ((3 * Nat.max 50 (sinW x.sem).p + 12 * k + 3 : ℕ) : ℚ) * u (sinW x.sem) ≤ 1/64 := by
      refine le_trans hbud ?_
      calc (2:ℚ) ^ (-(x.sem.p:ℤ) - 6) ≤ (2:ℚ) ^ (-6:ℤ) :=
            zpow_le_zpow_right₀ (by norm_num) (by omega)
        _ = 1/64 := by norm_num
    have h16 : v4.mag * 16 ≤ 3 ^ k := by
      have : (3:ℚ) ^ 3 ≤ 3 ^ k := pow_le_pow_right₀ (by norm_num) (by omega)
      rw [hv4mag]; norm_num at this; linarith
    have hlo : sinLoBig x.sem * 4 ^ k ≤ v4.mag := by
      rw [hk, sinLoBig_mul, hv4mag]; exact hθfix.pos_ge hpos
    obtain ⟨hresP, hreserr⟩ := sinStep4_big S' k hk1 hK hv4P (by rw [hv4mag]; exact hθ85) h16 hlo
    rw [hv4mag] at hreserr
    -- bounds of `q`
    have hθr0 : (0:ℝ) < ((θq : ℚ) : ℝ) := by exact_mod_cast hpos
    have hθr1 : ((θq : ℚ) : ℝ) ≤ 8/5 := by
      have := (Rat.cast_le (K := ℝ)).mpr hθ85; push_cast at this; linarith
    have hsq0 : 0 < Real.sin ((θq : ℚ) : ℝ) := sin_pos_big hθr0 hθr1
    have hsq1 : Real.sin ((θq : ℚ) : ℝ) ≤ 1 := Real.sin_le_one _
    have hEr : ((((3 * Nat.max 50 (sinW x.sem).p + 12 * k + 3 : ℕ) : ℚ) * u (sinW x.sem) : ℚ) : ℝ) ≤
        (2:ℝ) ^ (-(x.sem.p:ℤ) - 6) := by
      calc ((((3 * Nat.max 50 (sinW x.sem).p + 12 * k + 3 : ℕ) : ℚ) * u (sinW x.sem) : ℚ) : ℝ)
          ≤ (((2:ℚ) ^ (-(x.sem.p:ℤ) - 6) : ℚ) : ℝ) := (Rat.cast_le (K := ℝ)).mpr hbud
        _ = (2:ℝ) ^ (-(x.sem.p:ℤ) - 6) := by push_cast; rfl
    have herr' : |((res.mag : ℚ) : ℝ) - Real.sin ((θq : ℚ) : ℝ)| ≤
        (2:ℝ) ^ (-(x.sem.p:ℤ) - 6) * Real.sin ((θq : ℚ) : ℝ) :=
      le_trans hreserr (mul_le_mul_of_nonneg_right hEr (le_of_lt hsq0))
    obtain ⟨e1, e2⟩ := abs_le.mp herr'
    have hq0 := hresP.mag_pos
    have hq1 : res.mag ≤ 1 + (2:ℚ) ^ (-(x.sem.p:ℤ) - 6) := by
      have h1 : (2:ℝ) ^ (-(x.sem.p:ℤ) - 6) * Real.sin ((θq : ℚ) : ℝ) ≤
          (2:ℝ) ^ (-(x.sem.p:ℤ) - 6) * 1 := mul_le_mul_of_nonneg_left hsq1 (le_of_lt hE6pos)
      have : ((res.mag : ℚ) : ℝ) ≤ (((1 + (2:ℚ) ^ (-(x.sem.p:ℤ) - 6) : ℚ)) : ℝ) := by
        push_cast; linarith
      exact (Rat.cast_le (K := ℝ)).mp this
    -- the signed working-format result
    set y := (if neg then res.neg else res) with hy
    have hy_sem : y.sem = sinW x.sem := by
      rw [hy]; split
      · exact hresP.sem
      · exact hresP.sem
    have hy_cat : y.cat = .normal := by
      rw [hy]; split
      · exact hresP.cat
      · exact hresP.cat
    have hy_can : y.Canonical := by
      rw [hy]; split
      · exact C01.canonical_neg hresP.can
      · exact hresP.can
    have hy_mag : y.mag = res.mag := by
      rw [hy]; split <;> rfl
    have hy_sign : y.sign = neg := by
      rw [hy]
      cases neg
      · simp only [Bool.false_eq_true, if_false]; exact hresP.sign
      · simp only [if_true]
        show (!res.sign) = true
        rw [hresP.sign]; rfl
    have hmaxF : (2:ℚ) ≤ maxFinite x.sem := by
      have hp1 : 1 ≤ x.sem.p := by omega
      have h1 := pow_emax_le_maxFinite (F := x.sem) hp1
      have h2 : (2:ℚ) ^ (1:ℤ) ≤ (2:ℚ) ^ x.sem.emax :=
        zpow_le_zpow_right₀ (by norm_num) (Sem.emax_pos hF)
      rw [zpow_one] at h2; linarith
    have hsmall : (2:ℚ) ^ (-(x.sem.p:ℤ) - 6) ≤ 1 := by
      calc (2:ℚ) ^ (-(x.sem.p:ℤ) - 6) ≤ (2:ℚ) ^ (0:ℤ) := zpow_le_zpow_right₀ (by norm_num) (by omega)
        _ = 1 := by norm_num
    obtain ⟨c1, c2, c3, c4, c5⟩ := cast_signed hF hrm (by rw [hy_sem]; exact hW) hy_can hy_cat
      (by rw [hy_mag]; linarith)
    rw [hy_sign, hy_mag] at c5
    have hycast : y.cast x.sem = y.castWithRm x.sem x.sem.rm := by
      unfold Flt.cast; rw [hy_sem, sinW_rm]
    rw [← hycast] at c1 c3 c4 c5
    refine ⟨y.cast x.sem, res.mag, neg, Real.sin θ, a, hfuelEq, c1, c3, c4, c5, le_of_lt hq0, hq1,
      hsin, hSabs, ha0, haP, ?_⟩
    -- the error
    have hθerr' : |Real.sin ((θq : ℚ) : ℝ) - Real.sin θ| ≤ a := le_trans hlip hθerr
    obtain ⟨f1, f2⟩ := abs_le.mp hθerr'
    have hsle : Real.sin ((θq : ℚ) : ℝ) ≤ |Real.sin θ| + a := by
      have := le_abs_self (Real.sin θ); linarith
    have h1 : (2:ℝ) ^ (-(x.sem.p:ℤ) - 6) * Real.sin ((θq : ℚ) : ℝ) ≤
        (2:ℝ) ^ (-(x.sem.p:ℤ) - 6) * (|Real.sin θ| + a) :=
      mul_le_mul_of_nonneg_left hsle (le_of_lt hE6pos)
    rw [abs_le]
    constructor <;> linarith

end Arp.TrigErr
