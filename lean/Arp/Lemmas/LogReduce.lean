import Arp.Lemmas.LogTaylorAcc
import Arp.Props.C12
/-!
# Lemmas for the accuracy of `Float::log` — part 6: the range reduction (square roots, reciprocal)
-/
namespace Arp.LogErr
open Arp Arp.SpecRound Arp.Ln2 Finset

variable {G : Sem}

/-! ### comparisons and the square root of an `SV` -/

theorem SV.val_eq {x : Flt} {v : ℚ} (h : SV G false x v) : x.val = v := by
  have := h.val; simpa using this

theorem SV.posN {x : Flt} {v : ℚ} (h : SV G false x v) (hv : 0 < v) : Sqrt.PosN G x :=
  ⟨h.sem, h.can, h.normal_of_pos hv, h.sign (h.normal_of_pos hv)⟩

theorem SV.remSt {x : Flt} {v : ℚ} (h : SV G false x v) : RemSt G x := by
  refine ⟨h.sem, h.can, ?_⟩
  rcases h.fin with hc | hc
  · exact Or.inr ⟨hc, h.sign hc⟩
  · exact Or.inl hc

theorem SV.gt_iff (hG : G.WF) {a b : Flt} {va vb : ℚ} (ha : SV G false a va) (hb : SV G false b vb) :
    a.gt b = true ↔ vb < va := by
  rw [gt_iff_val_rem hG ha.remSt hb.remSt, ha.val_eq, hb.val_eq]

theorem SV.lt_iff (hG : G.WF) {a b : Flt} {va vb : ℚ} (ha : SV G false a va) (hb : SV G false b vb) :
    a.lt b = true ↔ va < vb := by
  rw [C05.lt_iff_gt a b (by rw [ha.sem]; exact hG) (by rw [ha.sem, hb.sem]) ha.can hb.can]
  exact SV.gt_iff hG hb ha

/-- a fuel bound for `sqrt` that depends on the size of the argument only -/
theorem sqrt_fuel_fine {x : Flt} (hF : x.sem.WF) (hx : Sqrt.PosN x.sem x) (n : ℕ)
    (hn : max 2 x.mag ≤ (2:ℚ) ^ (Sqrt.kOf x.mag + 2 + (n:ℤ))) {fuel : ℕ}
    (h : 2 * n + (x.sem.p + 22) ≤ fuel) : ∃ r, x.sqrtFuel fuel = some r := by
  have C := Sqrt.ctx_of hF hx
  obtain ⟨t1, t2⟩ := Sqrt.target_spec hF hx
  obtain ⟨s1, s2⟩ := Sqrt.x0_spec hF hx
  obtain ⟨M, An⟩ := Sqrt.exists_anchor C
  rw [Sqrt.sqrtFuel_posN hx]
  apply Sqrt.termQ_sound C t1 t2 fuel (Sqrt.x0 x) s1 (by rw [s2]; exact Sqrt.inv_start C)
  rw [s2]
  exact (Sqrt.phase1_term C An n _ (Sqrt.inv_start C) (Sqrt.low_start _ _) hn).mono h

/-- **one square root of the reduction**: for `1 ≤ Y < 2^M` the root exists (inner fuel) and
    `(S(1-2u))² ≤ Y < (S(1+u))²` -/
theorem sqrt_step (C : TCtx G) {y : Flt} {Y : ℚ} (hy : SV G false y Y) (hY1 : 1 ≤ Y) {M : ℕ}
    (hYM : Y < (2:ℚ) ^ M) (hM : M + G.p + 22 ≤ innerFuel) :
    ∃ (sx : Flt) (S : ℚ), y.sqrtM = some sx ∧ SV G false sx S ∧ 0 < S ∧
      Y < (S * (1 + RelErr.u G)) ^ 2 ∧ (S * (1 - 2 * RelErr.u G)) ^ 2 ≤ Y := by
  have hG := C.wf
  have hp : 1 ≤ G.p := by have := C.p22; omega
  have hu0 := RelErr.u_pos G
  have hu1 := C.u_le
  have hY0 : 0 < Y := by linarith
  have hsem := hy.sem
  have hPos : Sqrt.PosN y.sem y := by rw [hsem]; exact hy.posN hY0
  have hWF : y.sem.WF := by rw [hsem]; exact hG
  have hmag : y.mag = Y := hy.mag (hy.normal_of_pos hY0)
  -- termination
  obtain ⟨l1, l2⟩ := ilog2_spec hY0
  have hil0 : 0 ≤ ilog2 Y := by
    by_contra hc
    have : (2:ℚ) ^ (ilog2 Y + 1) ≤ (2:ℚ) ^ (0:ℤ) := zpow_le_zpow_right₀ (by norm_num) (by omega)
    rw [zpow_zero] at this; linarith
  have hilM : ilog2 Y < M := by
    have : (2:ℚ) ^ (ilog2 Y) < (2:ℚ) ^ (M:ℤ) := by rw [zpow_natCast]; linarith
    exact (zpow_lt_zpow_iff_right₀ (by norm_num : (1:ℚ) < 2)).mp this
  obtain ⟨n, hn⟩ : ∃ n : ℕ, (n:ℤ) = ilog2 Y / 2 := ⟨(ilog2 Y / 2).toNat, by omega⟩
  have hterm : ∃ r, y.sqrtFuel innerFuel = some r := by
    apply sqrt_fuel_fine hWF hPos n
    · rw [hmag]; unfold Sqrt.kOf; rw [← hn]
      apply max_le
      · calc (2:ℚ) = (2:ℚ) ^ (1:ℤ) := by norm_num
          _ ≤ _ := zpow_le_zpow_right₀ (by norm_num) (by omega)
      · exact le_trans (le_of_lt l2) (zpow_le_zpow_right₀ (by norm_num) (by omega))
    · rw [hsem]; omega
  obtain ⟨r, hr⟩ := hterm
  obtain ⟨hrP, b1, _, b2⟩ := Sqrt.sqrt_bounds hWF hPos hr
  rw [hsem] at hrP b1 b2
  rw [hmag] at b1 b2
  have hU := G.ulp_pos r.exp
  have hr0 := hrP.mag_pos
  obtain ⟨k1, k2, k3, k4, k5⟩ := (Flt.canonical_normal hrP.cat).mp hrP.can
  rw [hrP.sem] at k1 k4 k5
  have hru := hrP.mag_ulp
  have hm : 2 ^ (G.p - 1) ≤ r.mant := by
    rcases k5 with h | h
    · exact h
    · by_contra hcon
      have hm1 : (r.mant : ℚ) + 1 ≤ (2:ℚ) ^ (G.p - 1) := by
        have : r.mant + 1 ≤ 2 ^ (G.p - 1) := by omega
        exact_mod_cast this
      have hle : r.mag + G.ulp r.exp ≤ 1 := by
        calc r.mag + G.ulp r.exp = ((r.mant : ℚ) + 1) * G.ulp r.exp := by rw [hru]; ring
          _ ≤ (2:ℚ) ^ (G.p - 1) * G.ulp r.exp := mul_le_mul_of_nonneg_right hm1 (le_of_lt hU)
          _ = (2:ℚ) ^ r.exp := G.half_pow_mul_ulp hp _
          _ ≤ (2:ℚ) ^ (0:ℤ) := zpow_le_zpow_right₀ (by norm_num) (by rw [h]; exact Sem.emin_le_zero hG)
          _ = 1 := zpow_zero _
      nlinarith
  have hmq : (2:ℚ) ^ (G.p - 1) ≤ (r.mant : ℚ) := by exact_mod_cast hm
  have h2e : (2:ℚ) ^ r.exp ≤ r.mag := by
    calc (2:ℚ) ^ r.exp = (2:ℚ) ^ (G.p - 1) * G.ulp r.exp := (G.half_pow_mul_ulp hp _).symm
      _ ≤ (r.mant : ℚ) * G.ulp r.exp := mul_le_mul_of_nonneg_right hmq (le_of_lt hU)
      _ = r.mag := hru.symm
  have hule : G.ulp r.exp ≤ RelErr.u G * r.mag := by
    rw [RelErr.ulp_eq_u]; exact mul_le_mul_of_nonneg_left h2e (le_of_lt hu0)
  have hsv : SV G false r r.mag := SV.of_canonical hrP.sem hrP.cat hrP.can hrP.sign rfl
  refine ⟨r, r.mag, hr, hsv, hr0, ?_, ?_⟩
  · have h1 : r.mag + G.ulp r.exp ≤ r.mag * (1 + RelErr.u G) := by linarith
    have h2 : (r.mag + G.ulp r.exp) ^ 2 ≤ (r.mag * (1 + RelErr.u G)) ^ 2 :=
      pow_le_pow_left₀ (by linarith) h1 2
    nlinarith
  · have h1 : r.mag * (1 - 2 * RelErr.u G) ≤ r.mag - 2 * G.ulp r.exp := by linarith
    have h0 : 0 < r.mag * (1 - 2 * RelErr.u G) := mul_pos hr0 (by linarith)
    have h2 : (r.mag * (1 - 2 * RelErr.u G)) ^ 2 ≤ (r.mag - 2 * G.ulp r.exp) ^ 2 :=
      pow_le_pow_left₀ (le_of_lt h0) h1 2
    rcases b2 with h | h
    · linarith
    · nlinarith

end Arp.LogErr

/-! ### the error of one square root, on logarithms -/

namespace Arp.LogErr
open Arp Arp.SpecRound Arp.Ln2 Finset

variable {G : Sem}

/-- `(S(1-2u))² ≤ Y < (S(1+u))²` gives `|log S − ½·log Y| ≤ 2u/(1-2u)` -/
theorem sqrt_log_err {Y S u : ℝ} (hY : 0 < Y) (hS : 0 < S) (hu0 : 0 < u) (hu : u ≤ 1 / 1000000)
    (h1 : Y < (S * (1 + u)) ^ 2) (h2 : (S * (1 - 2 * u)) ^ 2 ≤ Y) :
    |Real.log S - Real.log Y / 2| ≤ 2 * u / (1 - 2 * u) := by
  have h12 : 0 < 1 - 2 * u := by linarith
  have hd : 0 < 2 * u / (1 - 2 * u) := div_pos (by linarith) h12
  have hA : Real.log Y < 2 * Real.log S + 2 * u := by
    have := Real.log_lt_log hY h1
    rw [Real.log_pow, Real.log_mul (ne_of_gt hS) (by linarith)] at this
    have h3 := Real.log_le_sub_one_of_pos (show 0 < 1 + u by linarith)
    push_cast at this
    linarith
  have hB : 2 * Real.log S - 2 * (2 * u / (1 - 2 * u)) ≤ Real.log Y := by
    have h0 : 0 < (S * (1 - 2 * u)) ^ 2 := by positivity
    have := Real.log_le_log h0 h2
    rw [Real.log_pow, Real.log_mul (ne_of_gt hS) (ne_of_gt h12)] at this
    have h3 := Real.one_sub_inv_le_log_of_pos h12
    have e : 1 - (1 - 2 * u)⁻¹ = -(2 * u / (1 - 2 * u)) := by
      field_simp; ring
    rw [e] at h3
    push_cast at this
    linarith
  have hud : u ≤ 2 * u / (1 - 2 * u) := by rw [le_div_iff₀ h12]; nlinarith
  rw [abs_le]
  constructor <;> linarith

/-! ### the two thresholds `1.001` and `0.999` -/

/-- a positive constant cast into `G` stays between two representable bounds -/
theorem cast_between (hG : G.WF) {x : Flt} (hF : x.sem.WF) (hc : x.Canonical)
    (hx : x.cat = .normal) (hs : x.sign = false) (rm : RM) {lo hi : ℚ} (hlo0 : 0 < lo)
    (hlo : IsRep G lo) (hhi : IsRep G hi) (h1 : lo ≤ x.mag) (h2 : x.mag ≤ hi) :
    ∃ V : ℚ, SV G false (x.castWithRm G rm) V ∧ lo ≤ V ∧ V ≤ hi := by
  have hcor := C06.cast_correct x G rm hF hG hc
  have hcan := castWithRm_canonical x G rm hG hc
  simp only [Spec.cast, hx, hs] at hcor
  obtain ⟨e, m, hr, hv, b1, b2⟩ := Sqrt.round_between hG rm hlo0 hlo hhi h1 h2
  rw [hr] at hcor
  obtain ⟨q1, q2, q3, q4⟩ := RelErr.toRes_fin hcor
  refine ⟨Sqrt.rnd G rm x.mag, SV.of_canonical hcan.2 q1 hcan.1 q2 ?_, b1, b2⟩
  rw [hv, Flt.mag_eq, hcan.2, q3, q4, Sem.ulp_def]

theorem c0999_eq : fromF64 f64_0_999 = ⟨FP64, false, -1, 8998192055486251, .normal⟩ := by decide

/-- a dyadic rational with a short numerator is representable in the working format -/
theorem TCtx.isRep_dyadic (C : TCtx G) (M : ℕ) (hM : M < 2 ^ 22) (E : ℤ) (hE1 : -30 ≤ E)
    (hE2 : E ≤ 0) : IsRep G ((M:ℚ) * (2:ℚ) ^ E) := by
  have hMp : M < 2 ^ G.p := lt_of_lt_of_le hM (Nat.pow_le_pow_right (by norm_num) C.p22)
  apply Sqrt.isRep_of_lt C.wf M E hMp (by have := C.lo; have := C.p22; omega)
  have h1 : (M:ℚ) < (2:ℚ) ^ (22:ℕ) := by exact_mod_cast hM
  have h2 : (2:ℚ) ^ E ≤ 1 := by
    calc (2:ℚ) ^ E ≤ (2:ℚ) ^ (0:ℤ) := zpow_le_zpow_right₀ (by norm_num) hE2
      _ = 1 := zpow_zero _
  have h3 : (0:ℚ) < (2:ℚ) ^ E := by positivity
  have h4 : (2:ℚ) ^ (22:ℤ) ≤ (2:ℚ) ^ (G.emax + 1) :=
    zpow_le_zpow_right₀ (by norm_num) (by have := C.hi; have := C.p22; omega)
  have h5 : (2:ℚ) ^ (22:ℤ) = (2:ℚ) ^ (22:ℕ) := by norm_num
  have h6 : (M:ℚ) * (2:ℚ) ^ E ≤ (M:ℚ) := by
    have : (0:ℚ) ≤ (M:ℚ) := Nat.cast_nonneg M
    nlinarith
  linarith

/-- the threshold `1.001` in the working format: `1.000999 < up < 1.00101` -/
theorem up_spec (C : TCtx G) :
    ∃ U : ℚ, SV G false ((fromF64 f64_1_001).cast G) U ∧ 131203 / 131072 ≤ U ∧ U ≤ 131204 / 131072 := by
  have hx : fromF64 f64_1_001 = ⟨FP64, false, 0, 4508103226997866, .normal⟩ := by decide
  rw [hx]
  have hlo := C.isRep_dyadic 131203 (by norm_num) (-17) (by norm_num) (by norm_num)
  have hhi := C.isRep_dyadic 131204 (by norm_num) (-17) (by norm_num) (by norm_num)
  have e1 : ((131203:ℕ):ℚ) * (2:ℚ) ^ (-17:ℤ) = 131203 / 131072 := by norm_num
  have e2 : ((131204:ℕ):ℚ) * (2:ℚ) ^ (-17:ℤ) = 131204 / 131072 := by norm_num
  rw [e1] at hlo; rw [e2] at hhi
  exact cast_between C.wf (x := ⟨FP64, false, 0, 4508103226997866, .normal⟩) (by decide) (by decide)
    rfl rfl _ (by norm_num) hlo hhi (by rw [Flt.mag_eq]; norm_num [FP64])
    (by rw [Flt.mag_eq]; norm_num [FP64])

/-- the threshold `0.999` in the working format: `0.99899 < low < 0.999001` -/
theorem low_spec (C : TCtx G) :
    ∃ L : ℚ, SV G false ((fromF64 f64_0_999).cast G) L ∧ 261881 / 262144 ≤ L ∧ L ≤ 261882 / 262144 := by
  rw [c0999_eq]
  have hlo := C.isRep_dyadic 261881 (by norm_num) (-18) (by norm_num) (by norm_num)
  have hhi := C.isRep_dyadic 261882 (by norm_num) (-18) (by norm_num) (by norm_num)
  have e1 : ((261881:ℕ):ℚ) * (2:ℚ) ^ (-18:ℤ) = 261881 / 262144 := by norm_num
  have e2 : ((261882:ℕ):ℚ) * (2:ℚ) ^ (-18:ℤ) = 261882 / 262144 := by norm_num
  rw [e1] at hlo; rw [e2] at hhi
  exact cast_between C.wf (x := ⟨FP64, false, -1, 8998192055486251, .normal⟩) (by decide) (by decide)
    rfl rfl _ (by norm_num) hlo hhi (by rw [Flt.mag_eq]; norm_num [FP64])
    (by rw [Flt.mag_eq]; norm_num [FP64])

end Arp.LogErr

/-! ### the error constants of the reduction -/

namespace Arp.LogErr
open Arp Arp.SpecRound Arp.Ln2 Finset

variable {G : Sem}

/-- bound of `|log(1+δ)|` for one square root: `2u/(1-2u)` -/
noncomputable def dd (G : Sem) : ℝ := 2 * (RelErr.u G : ℝ) / (1 - 2 * (RelErr.u G : ℝ))
/-- amplification of the square-root errors by the chain: `4/log(1.001)` rounded up -/
def KK : ℝ := 4016
/-- relative error bound of the whole reduction in the working format -/
noncomputable def tauP (G : Sem) : ℝ := (tau G : ℝ) + KK * dd G
noncomputable def cc (G : Sem) : ℝ := 2 + 2 * tauP G
/-- a lower bound of `log(up)` -/
noncomputable def lam : ℝ := 262 / 262275
noncomputable def mu (G : Sem) : ℝ := lam - 2 * dd G

theorem N_mul_le (p : ℕ) (hp : 22 ≤ p) : (Nat.max 50 p + 7) * 4194304 ≤ 57 * 2 ^ p := by
  induction p, hp using Nat.le_induction with
  | base => decide
  | succ p hp ih =>
    have h1 : Nat.max 50 (p + 1) ≤ Nat.max 50 p + 1 := by
      change max 50 (p + 1) ≤ max 50 p + 1
      omega
    have h2 : 2 ^ 22 ≤ 2 ^ p := Nat.pow_le_pow_right (by norm_num) hp
    have h22 : (2:ℕ) ^ 22 = 4194304 := by norm_num
    rw [h22] at h2
    clear h22
    have e : 2 ^ (p + 1) = 2 * 2 ^ p := by rw [Nat.pow_succ]; ring
    rw [e]
    generalize Nat.max 50 (p + 1) = A at *
    generalize Nat.max 50 p = B at *
    generalize 2 ^ p = Q at *
    nlinarith

theorem TCtx.u_le' (C : TCtx G) : (RelErr.u G : ℝ) ≤ 1 / 2097152 := by
  have := RelErr.u_le_of_le_p (F := G) (k := 22) C.p22
  norm_num at this
  have h := castle this
  push_cast at h; exact h

theorem TCtx.tau_le (C : TCtx G) : (tau G : ℝ) ≤ 101 / 100 * 57 / 2097152 := by
  have h := N_mul_le G.p C.p22
  have hq : ((Nat.max 50 G.p : ℕ) : ℚ) + 7 ≤ 57 * (2:ℚ) ^ G.p / 2 ^ 22 := by
    rw [le_div_iff₀ (by positivity)]
    have : (((Nat.max 50 G.p + 7) * 4194304 : ℕ) : ℚ) ≤ ((57 * 2 ^ G.p : ℕ) : ℚ) := Nat.cast_le.mpr h
    generalize Nat.max 50 G.p = N at this ⊢
    push_cast at this; norm_num; exact this
  have hu : RelErr.u G = 2 / (2:ℚ) ^ G.p := by
    unfold RelErr.u
    rw [zpow_sub₀ (by norm_num : (2:ℚ) ≠ 0), zpow_one, zpow_natCast]
  have hq2 : tau G ≤ 101 / 100 * 57 / 2097152 := by
    unfold tau
    rw [hu]
    have hpos : (0:ℚ) < (2:ℚ) ^ G.p := by positivity
    calc 101 / 100 * ((Nat.max 50 G.p : ℚ) + 7) * (2 / (2:ℚ) ^ G.p)
        ≤ 101 / 100 * (57 * (2:ℚ) ^ G.p / 2 ^ 22) * (2 / (2:ℚ) ^ G.p) := by
          apply mul_le_mul_of_nonneg_right _ (by positivity)
          exact mul_le_mul_of_nonneg_left hq (by norm_num)
      _ = 101 / 100 * 57 / 2097152 := by field_simp; norm_num
  have := castle hq2
  push_cast at this; exact this

theorem tau_nonneg (G : Sem) : (0:ℝ) ≤ (tau G : ℝ) := by
  have : (0:ℚ) ≤ tau G := by
    unfold tau
    have := RelErr.u_pos G
    positivity
  exact_mod_cast this

/-- the numeric facts about the constants used by the induction -/
theorem TCtx.consts (C : TCtx G) :
    0 < dd G ∧ dd G ≤ 1 / 1000000 ∧ tauP G ≤ 1 / 100 ∧
    4 + 2 * (tau G : ℝ) + 2 * tauP G ≤ KK * lam ∧ 1 / 1100 ≤ mu G := by
  have hu0 : (0:ℝ) < (RelErr.u G : ℝ) := by exact_mod_cast RelErr.u_pos G
  have hu1 := C.u_le'
  have ht := C.tau_le
  have ht0 := tau_nonneg G
  have h12 : (0:ℝ) < 1 - 2 * (RelErr.u G : ℝ) := by linarith
  have hd0 : 0 < dd G := div_pos (by linarith) h12
  have hd1 : dd G ≤ 2 / 2097150 := by
    unfold dd
    rw [div_le_iff₀ h12]; linarith
  unfold tauP mu KK lam
  refine ⟨hd0, by linarith, by norm_num at ht ⊢; linarith, by norm_num at ht ⊢; linarith,
    by norm_num; linarith⟩

end Arp.LogErr
