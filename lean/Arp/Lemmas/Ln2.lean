import Arp.Lemmas.RelErr
import Arp.Lemmas.Canonical
import Arp.Lemmas.CastScale
import Arp.Lemmas.Order
import Arp.Props.C01AddSub
import Arp.Props.C01MulDiv
import Arp.Props.C06
import Arp.Props.C08Load
import Arp.Props.C10Scale
import Arp.Props.SpecRound
import Arp.Model.Trans
import Mathlib.Analysis.SpecialFunctions.Log.Deriv
import Mathlib.Analysis.SpecificLimits.Basic
/-!
# Lemmas for the accuracy of `Float::ln2` (property C15)

`ln2` sums `Σ_{k ≥ 1} 1/(k·2^k) = log 2` in a working format `G` with `p + 8` bits; every inner
operation truncates (mode `None`).

1. **Series** (`q`, `S`, `hasSum_q`, `S_le_log2`, `log2_sub_S_le`): `log 2 = Σ q (k+1)`, partial
   sums are lower bounds and the tail after `n` terms is at most `2·q (n+1)`.
2. **Truncation over ℚ** (`trq`, `trq_spec`, `trq_err`, `trq_err_lt_one`, `trq_stay`): the value
   `Spec.round G .none false x` as a function on non-negative rationals.
3. **One iteration at `Flt` level** (`NN`, `term_spec`, `nextSum_spec`): `2^k`, `k` and `k·2^k`
   are exact while `k·2^k` is finite (`Fits`), the term is `trq (q k)`, the new sum is
   `trq (sum + term)`; once `k·2^k` overflows the divisor is `+∞`, the term `+0`.
4. **Invariant and exit** (`LInv`, `inv_step`, `exit_small`, `stay_of_small`, `loop_spec`):
   after `j` terms `0 ≤ S j - sum ≤ j·(η + δ) + 2^(1-p)·S j` (`η = 2^-p`: ulp of `[1/2,1)`,
   `δ`: smallest subnormal); the loop stops after at most `p` iterations, and when it stops the
   next term is `≤ 64·η`.
-/

namespace Arp.Ln2

/-- the `k`-th term `1/(k·2^k)` of the series of `log 2` -/
def q (k : Nat) : ℚ := 1 / ((k:ℚ) * 2 ^ k)

/-- partial sums `S n = Σ_{k=1..n} 1/(k·2^k)` -/
def S (n : Nat) : ℚ := ∑ k ∈ Finset.range n, q (k + 1)

theorem q_pos {k : Nat} (hk : 1 ≤ k) : 0 < q k := by
  unfold q
  have : (0:ℚ) < k := by exact_mod_cast hk
  positivity

theorem q_nonneg (k : Nat) : 0 ≤ q k := by unfold q; positivity

theorem S_zero : S 0 = 0 := by simp [S]
theorem S_succ (n : Nat) : S (n + 1) = S n + q (n + 1) := by
  unfold S; rw [Finset.sum_range_succ]

theorem S_mono (n : Nat) : S n ≤ S (n + 1) := by
  rw [S_succ]; have := q_nonneg (n + 1); linarith

theorem q_le_half_pow (k : Nat) (hk : 1 ≤ k) : q k ≤ (1/2 : ℚ) ^ k := by
  unfold q
  have h1 : (1:ℚ) ≤ k := by exact_mod_cast hk
  have h2 : (0:ℚ) < 2 ^ k := by positivity
  rw [one_div_pow, div_le_div_iff₀ (by positivity) (by positivity)]
  nlinarith

/-- `S n ≤ 1 - 2^-n`: every partial sum is below one -/
theorem S_le (n : Nat) : S n ≤ 1 - (1/2 : ℚ) ^ n := by
  induction n with
  | zero => simp [S_zero]
  | succ n ih =>
    rw [S_succ]
    have := q_le_half_pow (n + 1) (by omega)
    rw [pow_succ] at this ⊢
    linarith

theorem S_lt_one (n : Nat) : S n < 1 := by
  have := S_le n
  have : (0:ℚ) < (1/2) ^ n := by positivity
  linarith

/-- the terms decrease at least geometrically -/
theorem q_add_le (n k : Nat) (hn : 1 ≤ n) : q (n + k) ≤ q n * (1/2 : ℚ) ^ k := by
  unfold q
  have h1 : (0:ℚ) < n := by exact_mod_cast hn
  have h3 : (n:ℚ) ≤ ((n + k : Nat) : ℚ) := by exact_mod_cast Nat.le_add_right n k
  rw [one_div_pow, div_mul_div_comm, one_mul, pow_add,
    div_le_div_iff₀ (by positivity) (by positivity)]
  have h4 : (0:ℚ) < 2 ^ n * 2 ^ k := by positivity
  nlinarith

/-- `log 2 = Σ_{k ≥ 1} 1/(k·2^k)` -/
theorem hasSum_q : HasSum (fun n : ℕ => ((q (n + 1) : ℚ) : ℝ)) (Real.log 2) := by
  have h := Real.hasSum_pow_div_log_of_abs_lt_one (x := 1/2) (by rw [abs_of_pos] <;> norm_num)
  have e : -Real.log (1 - 1/2) = Real.log 2 := by
    rw [show (1:ℝ) - 1/2 = 2⁻¹ by norm_num, Real.log_inv, neg_neg]
  rw [e] at h
  convert h using 2 with n
  unfold q
  push_cast
  rw [one_div_pow]
  field_simp

/-- every partial sum is a lower bound of `log 2` -/
theorem S_le_log2 (n : Nat) : ((S n : ℚ) : ℝ) ≤ Real.log 2 := by
  unfold S
  push_cast
  exact sum_le_hasSum _ (fun i _ => by exact_mod_cast q_nonneg (i + 1)) hasSum_q

/-- tail bound: `log 2 - S n ≤ 2·q(n+1)` (the tail is dominated by a geometric series of ratio 1/2) -/
theorem log2_sub_S_le (n : Nat) : Real.log 2 - ((S n : ℚ) : ℝ) ≤ 2 * ((q (n + 1) : ℚ) : ℝ) := by
  have h1 := (hasSum_nat_add_iff' n).mpr hasSum_q
  have h2 : HasSum (fun k : ℕ => ((q (n + 1) : ℚ) : ℝ) * (1/2 : ℝ) ^ k) (((q (n + 1) : ℚ) : ℝ) * 2) :=
    hasSum_geometric_two.mul_left _
  have h3 := hasSum_le (fun k => ?_) h1 h2
  · have e : ((S n : ℚ) : ℝ) = ∑ i ∈ Finset.range n, ((q (i + 1) : ℚ) : ℝ) := by
      unfold S; push_cast; rfl
    rw [e]; linarith
  · have := q_add_le (n + 1) k (by omega)
    have h : ((q (n + 1 + k) : ℚ) : ℝ) ≤ ((q (n + 1) * (1/2 : ℚ) ^ k : ℚ) : ℝ) := by exact_mod_cast this
    push_cast at h
    rw [show k + n + 1 = n + 1 + k by ring]
    exact h

end Arp.Ln2

namespace Arp.Ln2
open Arp Arp.SpecRound

variable {G : Sem} {x : ℚ}

/-- truncation (mode `None`, in range) of a non-negative rational to the format `G` -/
def trq (G : Sem) (x : ℚ) : ℚ := if x = 0 then 0 else (Spec.round G .none false x).mag G

/-- one ulp of the binade `[1/2, 1)`: `2^-p` -/
def eta (G : Sem) : ℚ := (2:ℚ) ^ (-(G.p : ℤ))

/-- the smallest subnormal: one ulp at the minimum exponent -/
def delta (G : Sem) : ℚ := G.ulp G.emin

theorem eta_pos (G : Sem) : 0 < eta G := by unfold eta; positivity
theorem delta_pos (G : Sem) : 0 < delta G := G.ulp_pos _

theorem truncFor_none : RM.truncFor .none false := Or.inr (Or.inl rfl)

theorem trq_zero : trq G 0 = 0 := by simp [trq]

theorem trq_pos_eq (hx : 0 < x) : trq G x = (Spec.round G .none false x).mag G := by
  unfold trq; rw [if_neg (ne_of_gt hx)]

/-- the truncation is the largest representable magnitude not above `x` -/
theorem trq_spec (hG : G.WF) (hx : 0 < x) (hlt : x < (2:ℚ) ^ (G.emax + 1)) :
    trq G x ≤ x ∧ IsRep G (trq G x) ∧ ∀ y, IsRep G y → y ≤ x → y ≤ trq G x := by
  rw [trq_pos_eq hx]
  exact (round_trunc_spec hG hx truncFor_none hlt).2

/-- … and it is the significand of the canonical decomposition of `x` -/
theorem trq_decomp (hG : G.WF) (hx : 0 < x) (hlt : x < (2:ℚ) ^ (G.emax + 1)) :
    ∃ (e : Int) (m : Nat) (f : ℚ), Decomp G x e m f ∧ trq G x = (m:ℚ) * G.ulp e := by
  have hp : 1 ≤ G.p := by have := hG.2; omega
  obtain ⟨e, m, f, d⟩ := exists_decomp (F := G) hp hx
  have ho : ¬ Ovf G e m (Spec.up .none false m f) := by
    rw [d.ovf_trunc hG truncFor_none]; exact not_le.mpr hlt
  obtain ⟨_, hmag, _⟩ := d.round_not_ovf_mag hG hx .none false ho m
    (by rw [up_trunc truncFor_none]; rfl)
  exact ⟨e, m, f, d, by rw [trq_pos_eq hx, hmag]⟩

theorem trq_nonneg (hG : G.WF) (hx : 0 ≤ x) (hlt : x < (2:ℚ) ^ (G.emax + 1)) : 0 ≤ trq G x := by
  rcases eq_or_lt_of_le hx with h | h
  · rw [← h, trq_zero]
  · exact (trq_spec hG h hlt).2.1.nonneg

theorem trq_le (hG : G.WF) (hx : 0 ≤ x) (hlt : x < (2:ℚ) ^ (G.emax + 1)) : trq G x ≤ x := by
  rcases eq_or_lt_of_le hx with h | h
  · rw [← h, trq_zero]
  · exact (trq_spec hG h hlt).1

theorem trq_isRep (hG : G.WF) (hx : 0 ≤ x) (hlt : x < (2:ℚ) ^ (G.emax + 1)) : IsRep G (trq G x) := by
  rcases eq_or_lt_of_le hx with h | h
  · rw [← h, trq_zero]; exact IsRep.zero hG
  · exact (trq_spec hG h hlt).2.1

/-- representable values are not changed -/
theorem trq_of_isRep (hG : G.WF) (hr : IsRep G x) : trq G x = x := by
  rcases eq_or_lt_of_le hr.nonneg with h | h
  · rw [← h, trq_zero]
  · have hlt : x < (2:ℚ) ^ (G.emax + 1) := lt_of_le_of_lt hr.le_maxFinite (maxFinite_lt_sr G)
    obtain ⟨h1, _, h3⟩ := trq_spec hG h hlt
    exact le_antisymm h1 (h3 x hr (le_refl _))

/-- relative-plus-absolute error of one truncation: `x - trq x < 2^(1-p)·x + δ` -/
theorem trq_err (hG : G.WF) (hx : 0 < x) (hlt : x < (2:ℚ) ^ (G.emax + 1)) :
    x - trq G x < RelErr.u G * x + delta G := by
  have hp : 1 ≤ G.p := by have := hG.2; omega
  obtain ⟨e, m, f, d, hm⟩ := trq_decomp hG hx hlt
  have hu := G.ulp_pos e
  have hf1 := d.hf1
  have hxe : x - trq G x = f * G.ulp e := by rw [hm, d.hq]; ring
  have hlt' : x - trq G x < G.ulp e := by rw [hxe]; nlinarith
  have hup := RelErr.u_pos G
  have hd := delta_pos G
  rcases d.hn with h | h
  · have hmq : (2:ℚ) ^ (G.p - 1) ≤ (m:ℚ) := by exact_mod_cast h
    have h2e : (2:ℚ) ^ e ≤ x :=
      calc (2:ℚ) ^ e = (2:ℚ) ^ (G.p - 1) * G.ulp e := (G.half_pow_mul_ulp hp e).symm
        _ ≤ (m:ℚ) * G.ulp e := mul_le_mul_of_nonneg_right hmq (le_of_lt hu)
        _ ≤ x := d.lo
    have : G.ulp e ≤ RelErr.u G * x := by
      rw [RelErr.ulp_eq_u]; exact mul_le_mul_of_nonneg_left h2e (le_of_lt hup)
    linarith
  · have : G.ulp e = delta G := by unfold delta; rw [h]
    have : 0 < RelErr.u G * x := mul_pos hup hx
    linarith

/-- below one the error of a truncation is less than `η = 2^-p` -/
theorem trq_err_lt_one (hG : G.WF) (hmin : G.emin ≤ -1) (hx : 0 < x) (hx1 : x < 1) :
    x - trq G x < eta G := by
  have hp : 1 ≤ G.p := by have := hG.2; omega
  have hlt : x < (2:ℚ) ^ (G.emax + 1) :=
    lt_of_lt_of_le hx1 (one_le_zpow₀ (by norm_num) (by have := Sem.emax_pos hG; omega))
  obtain ⟨e, m, f, d, hm⟩ := trq_decomp hG hx hlt
  have hu := G.ulp_pos e
  have hf1 := d.hf1
  have hxe : x - trq G x = f * G.ulp e := by rw [hm, d.hq]; ring
  have hlt' : x - trq G x < G.ulp e := by rw [hxe]; nlinarith
  have he : e ≤ -1 := by
    rcases d.hn with h | h
    · have hmq : (2:ℚ) ^ (G.p - 1) ≤ (m:ℚ) := by exact_mod_cast h
      have h2e : (2:ℚ) ^ e < (2:ℚ) ^ (0:ℤ) :=
        calc (2:ℚ) ^ e = (2:ℚ) ^ (G.p - 1) * G.ulp e := (G.half_pow_mul_ulp hp e).symm
          _ ≤ (m:ℚ) * G.ulp e := mul_le_mul_of_nonneg_right hmq (le_of_lt hu)
          _ ≤ x := d.lo
          _ < _ := by simpa using hx1
      have := (zpow_lt_zpow_iff_right₀ (by norm_num : (1:ℚ) < 2)).mp h2e
      omega
    · omega
  have : G.ulp e ≤ eta G := by
    have := G.ulp_mono he
    have e2 : G.ulp (-1) = eta G := by unfold Sem.ulp eta; congr 1; ring
    rw [e2] at this; exact this
  linarith

/-- a representable sum in `[1/2, ∞)` absorbs every addend below `η` -/
theorem trq_stay (hG : G.WF) {s t : ℚ} (hs : IsRep G s) (hs2 : 1/2 ≤ s) (ht0 : 0 ≤ t)
    (ht : t < eta G) (hlt : s + t < (2:ℚ) ^ (G.emax + 1)) : trq G (s + t) = s := by
  have hp : 1 ≤ G.p := by have := hG.2; omega
  have hpos : 0 < s + t := by linarith
  obtain ⟨h1, h2, h3⟩ := trq_spec hG hpos hlt
  have hge : s ≤ trq G (s + t) := h3 s hs (by linarith)
  obtain ⟨e, m, _, d⟩ := hs.decomp
  have he : -1 ≤ e := by
    have h := d.lt_pow
    have h' : (2:ℚ) ^ (-1:ℤ) < (2:ℚ) ^ (e + 1) := by
      have : (2:ℚ) ^ (-1:ℤ) = 1/2 := by norm_num
      rw [this]; linarith
    have := (zpow_lt_zpow_iff_right₀ (by norm_num : (1:ℚ) < 2)).mp h'
    omega
  have hsm : s = (m:ℚ) * G.ulp e := by have := d.hq; rw [add_zero] at this; exact this
  have hue : eta G ≤ G.ulp e := by
    have := G.ulp_mono he
    have e2 : G.ulp (-1) = eta G := by unfold Sem.ulp eta; congr 1; ring
    rw [e2] at this; exact this
  rcases h2.gap hp d.hn with h | h
  · rw [← hsm] at h; exact le_antisymm h hge
  · exfalso
    have : ((m:ℚ) + 1) * G.ulp e = s + G.ulp e := by rw [hsm]; ring
    linarith

/-- powers of two between the smallest subnormal and `2^emax` are representable -/
theorem isRep_pow2 (hG : G.WF) (j : ℤ) (h1 : G.emin - ((G.p:ℤ) - 1) ≤ j) (h2 : j ≤ G.emax) :
    IsRep G ((2:ℚ) ^ j) := by
  have hp : 1 ≤ G.p := by have := hG.2; omega
  by_cases h : G.emin ≤ j
  · refine ⟨j, 2 ^ (G.p - 1), h, h2, Nat.pow_lt_pow_right (by norm_num) (by omega),
      Or.inl (le_refl _), ?_⟩
    push_cast
    exact (G.half_pow_mul_ulp hp j).symm
  · refine ⟨G.emin, 2 ^ (j - (G.emin - ((G.p:ℤ) - 1))).toNat, le_refl _, Sem.emin_le_emax hG,
      Nat.pow_lt_pow_right (by norm_num) (by omega), Or.inr rfl, ?_⟩
    push_cast
    rw [← zpow_natCast, ← zpow_add₀ (by norm_num : (2:ℚ) ≠ 0)]
    congr 1
    omega

/-- if the truncation is below a representable power of two then so is the argument -/
theorem lt_of_trq_lt (hG : G.WF) {y : ℚ} (hy : IsRep G y) (hx : 0 < x)
    (hlt : x < (2:ℚ) ^ (G.emax + 1)) (h : trq G x < y) : x < y := by
  by_contra hc
  exact absurd ((trq_spec hG hx hlt).2.2 y hy (not_lt.mp hc)) (not_le.mpr h)

end Arp.Ln2

namespace Arp.Ln2
open Arp Arp.SpecRound

variable {G : Sem} {x : Flt} {v : ℚ}

/-- `x` is a canonical, finite, non-negative value of format `G` with value `v` -/
structure NN (G : Sem) (x : Flt) (v : ℚ) : Prop where
  sem : x.sem = G
  can : x.Canonical
  fin : x.cat = .normal ∨ x.cat = .zero
  sign : x.cat = .normal → x.sign = false
  val : x.val = v

theorem NN.mag (h : NN G x v) (hc : x.cat = .normal) : x.mag = v := by
  have := h.val
  rw [Flt.val_normal hc, h.sign hc] at this
  simpa using this

theorem NN.nonneg (h : NN G x v) : 0 ≤ v := by
  rcases h.fin with hc | hc
  · rw [← h.mag hc]; exact Flt.mag_nonneg x
  · rw [← h.val, Flt.val_zero hc]

theorem NN.normal_of_pos (h : NN G x v) (hv : 0 < v) : x.cat = .normal := by
  rcases h.fin with hc | hc
  · exact hc
  · have := h.val; rw [Flt.val_zero hc] at this; linarith

theorem NN.isRep (h : NN G x v) (hG : G.WF) : IsRep G v := by
  rcases h.fin with hc | hc
  · obtain ⟨h1, h2, _, h4, h5⟩ := (Flt.canonical_normal hc).mp h.can
    rw [h.sem] at h1 h2 h4 h5
    exact ⟨x.exp, x.mant, h1, h2, h4, h5, by rw [← h.mag hc, Flt.mag_eq, h.sem]⟩
  · rw [← h.val, Flt.val_zero hc]; exact IsRep.zero hG

theorem NN.zero (G : Sem) (sg : Bool) : NN G (Flt.zero G sg) 0 :=
  ⟨rfl, Flt.zero_canonical _ _, Or.inr rfl, fun h => by simp [Flt.zero] at h, rfl⟩

/-- a value whose `toRes` is the in-range truncation of `v > 0` -/
theorem NN.of_round (hG : G.WF) (hs : x.sem = G) (hc : x.Canonical) (hv : 0 < v)
    (hlt : v < (2:ℚ) ^ (G.emax + 1)) (h : x.toRes = Spec.round G .none false v) :
    NN G x (trq G v) := by
  rw [trq_pos_eq hv]
  rcases (round_trunc_spec hG hv truncFor_none hlt).1 with hz | ⟨e, m, hf⟩
  · rw [hz] at h
    obtain ⟨h1, _⟩ := RelErr.toRes_zero h
    exact ⟨hs, hc, Or.inr h1, fun h' => by rw [h1] at h'; exact absurd h' (by decide),
      by rw [Flt.val_zero h1, hz]; rfl⟩
  · rw [hf] at h
    obtain ⟨h1, h2, h3, h4⟩ := RelErr.toRes_fin h
    refine ⟨hs, hc, Or.inl h1, fun _ => h2, ?_⟩
    rw [Flt.val_normal h1, h2, hf, Flt.mag_eq, hs, h3, h4]; rfl

/-- equality test of two positive values -/
theorem NN.beq_iff {a b : Flt} {va vb : ℚ} (ha : NN G a va) (hb : NN G b vb) (hpa : 0 < va)
    (hpb : 0 < vb) : a.beq b = true ↔ va = vb := by
  have hca := ha.normal_of_pos hpa
  have hcb := hb.normal_of_pos hpb
  constructor
  · intro h
    unfold Flt.beq at h
    rw [hca] at h
    simp only [Bool.and_eq_true, beq_iff_eq] at h
    obtain ⟨⟨⟨_, h2⟩, h3⟩, _⟩ := h
    rw [← ha.mag hca, ← hb.mag hcb, Flt.mag_eq, Flt.mag_eq, ha.sem, hb.sem, h2, h3]
  · intro h
    have hv : a.val = b.val := by rw [ha.val, hb.val, h]
    obtain ⟨h1, h2, h3⟩ := val_inj a b (by rw [ha.sem, hb.sem]) ha.can hb.can hca hcb hv
    unfold Flt.beq
    rw [hca]
    simp [h1, h2, h3, hcb]

theorem inf_beq_false (hx : NN G x v) (hv : 0 < v) : (Flt.inf G true).beq x = false := by
  have hc := hx.normal_of_pos hv
  unfold Flt.beq
  simp [Flt.inf, hx.sign hc]

theorem spec_add_fin (F : Sem) (rm : RM) (a b : Flt) (hfa : a.cat = .normal ∨ a.cat = .zero)
    (hfb : b.cat = .normal ∨ b.cat = .zero) (hnz : ¬ (a.cat = .zero ∧ b.cat = .zero)) :
    Spec.add F rm a b = Spec.roundQ F rm (a.val + b.val) (rm == .neg) := by
  unfold Spec.add
  rcases hfa with h1 | h1 <;> rcases hfb with h2 | h2
  · simp [Spec.isNan, Spec.isInf, Spec.isZero, h1, h2]
  · simp [Spec.isNan, Spec.isInf, Spec.isZero, h1, h2]
  · simp [Spec.isNan, Spec.isInf, Spec.isZero, h1, h2]
  · exact absurd ⟨h1, h2⟩ hnz

/-- truncated sum of two non-negative values (not both zero) -/
theorem NN.add (hG : G.WF) {a b : Flt} {va vb : ℚ} (ha : NN G a va) (hb : NN G b vb)
    (hpos : 0 < va + vb) (hlt : va + vb < (2:ℚ) ^ (G.emax + 1)) :
    NN G (addWithRm a b .none) (trq G (va + vb)) := by
  have hGa : a.sem.WF := by rw [ha.sem]; exact hG
  have hsab : b.sem = a.sem := by rw [ha.sem, hb.sem]
  have hcan := addWithRm_canonical a b .none hGa hsab ha.can hb.can
  have hcor := C01.add_correct a b .none hGa hsab ha.can hb.can
  rw [ha.sem] at hcor
  refine NN.of_round hG (hcan.2.trans ha.sem) hcan.1 hpos hlt ?_
  have hzz : ¬ (a.cat = .zero ∧ b.cat = .zero) := by
    rintro ⟨h1, h2⟩
    have h3 := ha.val; have h4 := hb.val
    rw [Flt.val_zero h1] at h3; rw [Flt.val_zero h2] at h4
    rw [← h3, ← h4] at hpos; norm_num at hpos
  rw [hcor, spec_add_fin G .none a b ha.fin hb.fin hzz, ha.val, hb.val]
  unfold Spec.roundQ
  rw [if_neg (ne_of_gt hpos), if_pos hpos]

/-! ### the operands of one iteration -/

theorem NN.of_canonical {y : Flt} (hs : y.sem = G) (hc : y.cat = .normal) (hcan : y.Canonical)
    (hsg : y.sign = false) (hm : y.mag = v) : NN G y v :=
  ⟨hs, hcan, Or.inl hc, fun _ => hsg, by rw [Flt.val_normal hc, hsg]; simpa using hm⟩

theorem toRes_inf {x : Flt} {s : Bool} (h : x.toRes = .inf s) : x.cat = .inf := by
  cases hc : x.cat <;> simp only [Flt.toRes, hc] at h
  all_goals first
    | rfl
    | exact Res.noConfusion h

theorem ln2_one_mag (hG : G.WF) : (Flt.one G false).mag = 1 := by
  have hp : 1 ≤ G.p := by have := hG.2; omega
  rw [Flt.mag_eq]
  simp only [Flt.one, Nat.shiftLeft_eq, one_mul]
  push_cast
  have := G.half_pow_mul_ulp hp 0
  rw [Sem.ulp_def] at this
  simpa using this

theorem one_NN (hG : G.WF) : NN G (Flt.one G false) 1 :=
  NN.of_canonical rfl rfl (Flt.one_canonical G false hG) rfl (ln2_one_mag hG)

theorem ln2_fromU64_one (hG : G.WF) : fromU64 G 1 = Flt.one G false :=
  C08.fromU64_exact G 1 hG (by norm_num) _ rfl rfl (Flt.one_canonical G false hG) rfl
    (by rw [ln2_one_mag hG]; norm_num)

/-- `M·2^E` is a value of the format when it fits -/
theorem exists_NN (hG : G.WF) (M : Nat) (E : Int) (hM : M ≠ 0) (hMp : M < 2 ^ G.p)
    (hE : G.emin - ((G.p : Int) - 1) ≤ E) (hhi : E + (msb M : Int) - 1 ≤ G.emax) :
    ∃ y : Flt, y.cat = .normal ∧ NN G y ((M : ℚ) * (2 : ℚ) ^ E) := by
  obtain ⟨y, a, b, c, d, e⟩ := exists_canonical G hG false M E hM hMp hE hhi
  exact ⟨y, b, NN.of_canonical a b c d e⟩

/-- the integer `k` is loaded exactly -/
theorem nat_NN (hG : G.WF) (k : Nat) (hk0 : k ≠ 0) (hk64 : k < 2 ^ 64) (hkP : k < 2 ^ G.p)
    (hkE : (msb k : Int) - 1 ≤ G.emax) : NN G (fromU64 G k) (k : ℚ) := by
  have hp := hG.2
  have hmin := Sem.emin_le_zero hG
  obtain ⟨y, a, b, c, d, e⟩ := exists_canonical G hG false k 0 hk0 hkP (by omega) (by omega)
  rw [zpow_zero, mul_one] at e
  rw [C08.fromU64_exact G k hG hk64 y a b c d e]
  exact NN.of_canonical a b c d e

/-- `2^k` by `scale`: exact up to `emax`, infinite beyond -/
theorem pow2_scale (hG : G.WF) (k : Nat) :
    ((k : Int) ≤ G.emax → NN G ((Flt.one G false).scale k .none) ((2 : ℚ) ^ k)) ∧
    (G.emax < (k : Int) → ((Flt.one G false).scale k .none).cat = .inf) := by
  have hcan := scale_canonical (Flt.one G false) k .none hG (Flt.one_canonical G false hG)
  have hcor := C10.scale_correct (Flt.one G false) k .none hG (Flt.one_canonical G false hG)
  have e1 : Spec.scaleExact .none k (Flt.one G false) =
      Spec.round G .none false ((2 : ℚ) ^ k) := by
    simp only [Spec.scaleExact, Flt.one]
    have := ln2_one_mag hG
    simp only [Flt.one] at this
    rw [this, one_mul, zpow_natCast]
  rw [e1] at hcor
  have hpos : (0:ℚ) < (2:ℚ) ^ k := by positivity
  constructor
  · intro hk
    have hrep : IsRep G ((2:ℚ) ^ k) := by
      have := isRep_pow2 hG (k : Int) (by have := Sem.emin_le_zero hG; have := hG.2; omega) hk
      rwa [zpow_natCast] at this
    have hlt : (2:ℚ) ^ k < (2:ℚ) ^ (G.emax + 1) :=
      lt_of_le_of_lt hrep.le_maxFinite (maxFinite_lt_sr G)
    have := NN.of_round hG hcan.2 hcan.1 hpos hlt hcor
    rwa [trq_of_isRep hG hrep] at this
  · intro hk
    have hge : (2:ℚ) ^ (G.emax + 1) ≤ (2:ℚ) ^ k := by
      rw [← zpow_natCast]
      exact zpow_le_zpow_right₀ (by norm_num) (by omega)
    rw [round_huge G .none false _ hge] at hcor
    exact toRes_inf hcor

/-- the condition under which `k·2^k` is finite in `G` -/
def Fits (G : Sem) (k : Nat) : Prop := (k : Int) + (msb k : Int) - 1 ≤ G.emax

theorem le_emax_of_fits {k : Nat} (hk : 1 ≤ k) (h : Fits G k) : (k : Int) ≤ G.emax := by
  have := msb_pos (show k ≠ 0 by omega)
  unfold Fits at h; omega

/-- beyond `Fits` the product `k·2^k` is at least `2^(emax+1)` -/
theorem not_fits_ge {k : Nat} (hk : 1 ≤ k) (h : ¬ Fits G k) :
    (2:ℚ) ^ (G.emax + 1) ≤ (k:ℚ) * (2:ℚ) ^ k := by
  have h1 := msb_le (show k ≠ 0 by omega)
  have h2 : ((2 ^ (msb k - 1) : Nat) : ℚ) ≤ (k : ℚ) := Nat.cast_le.mpr h1
  push_cast at h2
  have hm := msb_pos (show k ≠ 0 by omega)
  unfold Fits at h
  calc (2:ℚ) ^ (G.emax + 1) ≤ (2:ℚ) ^ (((msb k - 1 + k : Nat)) : Int) :=
        zpow_le_zpow_right₀ (by norm_num) (by omega)
    _ = (2:ℚ) ^ (msb k - 1) * (2:ℚ) ^ k := by rw [zpow_natCast, pow_add]
    _ ≤ (k:ℚ) * (2:ℚ) ^ k := mul_le_mul_of_nonneg_right h2 (by positivity)

theorem spec_mul_normal (F : Sem) (rm : RM) (a b : Flt) (ha : a.cat = .normal) (hb : b.cat = .normal)
    (hsa : a.sign = false) (hsb : b.sign = false) :
    Spec.mul F rm a b = Spec.round F rm false (a.mag * b.mag) := by
  simp [Spec.mul, Spec.isNan, Spec.isInf, Spec.isZero, ha, hb, hsa, hsb]

theorem spec_div_normal (F : Sem) (rm : RM) (a b : Flt) (ha : a.cat = .normal) (hb : b.cat = .normal)
    (hsa : a.sign = false) (hsb : b.sign = false) :
    Spec.div F rm a b = Spec.round F rm false (a.mag / b.mag) := by
  simp [Spec.div, Spec.isNan, Spec.isInf, Spec.isZero, ha, hb, hsa, hsb]

/-- the product `k·2^k`: exact when it fits, infinite otherwise -/
theorem kk2_spec (hG : G.WF) (k : Nat) (hk1 : 1 ≤ k) (hk64 : k < 2 ^ 64) (hkP : k < 2 ^ G.p)
    (hkE : (msb k : Int) - 1 ≤ G.emax) :
    let kk2 := mulWithRm (fromU64 G k) ((fromU64 G 1).scale k .none) .none
    (Fits G k → kk2.cat = .normal ∧ NN G kk2 ((k:ℚ) * (2:ℚ) ^ k)) ∧
    (¬ Fits G k → kk2.cat = .inf) := by
  intro kk2
  have hkf := nat_NN hG k (by omega) hk64 hkP hkE
  have hkpos : (0:ℚ) < (k:ℚ) := by exact_mod_cast hk1
  have hkfn := hkf.normal_of_pos hkpos
  have hGk : (fromU64 G k).sem.WF := by rw [hkf.sem]; exact hG
  have h2 := pow2_scale hG k
  have hk2can := scale_canonical (Flt.one G false) k .none hG (Flt.one_canonical G false hG)
  have hcan : kk2.Canonical ∧ kk2.sem = (fromU64 G k).sem := mulWithRm_canonical _ _ .none hGk
  have hcor : kk2.toRes = Spec.mul (fromU64 G k).sem .none (fromU64 G k) ((fromU64 G 1).scale k .none) :=
    C01.mul_correct _ _ .none hGk (by rw [ln2_fromU64_one hG, hk2can.2, hkf.sem]; rfl) hkf.can
      (by rw [ln2_fromU64_one hG]; exact hk2can.1)
  rw [hkf.sem, ln2_fromU64_one hG] at hcor
  rw [hkf.sem] at hcan
  have hpos : (0:ℚ) < (k:ℚ) * (2:ℚ) ^ k := by positivity
  by_cases hke : (k : Int) ≤ G.emax
  · -- `2^k` is finite
    have hk2 := h2.1 hke
    have hk2n := hk2.normal_of_pos (by positivity)
    rw [spec_mul_normal G .none _ _ hkfn hk2n (hkf.sign hkfn) (hk2.sign hk2n), hkf.mag hkfn,
      hk2.mag hk2n] at hcor
    constructor
    · intro hf
      obtain ⟨y, hyn, hy⟩ := exists_NN hG k k (by omega) hkP
        (by have := Sem.emin_le_zero hG; have := hG.2; omega) hf
      rw [zpow_natCast] at hy
      have hrep := hy.isRep hG
      have hlt := lt_of_le_of_lt hrep.le_maxFinite (maxFinite_lt_sr G)
      have := NN.of_round hG hcan.2 hcan.1 hpos hlt hcor
      rw [trq_of_isRep hG hrep] at this
      exact ⟨this.normal_of_pos hpos, this⟩
    · intro hf
      rw [round_huge G .none false _ (not_fits_ge hk1 hf)] at hcor
      exact toRes_inf hcor
  · -- `2^k` already overflows
    have hk2 := h2.2 (by omega)
    have hnf : ¬ Fits G k := fun hf => hke (le_emax_of_fits hk1 hf)
    refine ⟨fun hf => absurd hf hnf, fun _ => ?_⟩
    have : Spec.mul G .none (fromU64 G k) ((Flt.one G false).scale k .none) =
        .inf ((fromU64 G k).sign ^^ ((Flt.one G false).scale k .none).sign) := by
      simp [Spec.mul, Spec.isNan, Spec.isInf, Spec.isZero, hkfn, hk2]
    rw [this] at hcor
    exact toRes_inf hcor

/-- **the `k`-th term**: the truncation of `1/(k·2^k)` when `k·2^k` is finite, zero otherwise -/
theorem term_spec (hG : G.WF) (k : Nat) (hk1 : 1 ≤ k) (hk64 : k < 2 ^ 64) (hkP : k < 2 ^ G.p)
    (hkE : (msb k : Int) - 1 ≤ G.emax) :
    let term := divWithRm (Flt.one G false)
      (mulWithRm (fromU64 G k) ((fromU64 G 1).scale k .none) .none) .none
    (Fits G k → NN G term (trq G (q k))) ∧ (¬ Fits G k → NN G term 0) := by
  intro term
  have hkk := kk2_spec hG k hk1 hk64 hkP hkE
  simp only at hkk
  set kk2 := mulWithRm (fromU64 G k) ((fromU64 G 1).scale k .none) .none with hkk2
  have hone := one_NN hG
  have hcan : term.Canonical ∧ term.sem = G := divWithRm_canonical (Flt.one G false) kk2 .none hG
  have hkf := nat_NN hG k (by omega) hk64 hkP hkE
  have hGk : (fromU64 G k).sem.WF := by rw [hkf.sem]; exact hG
  have hkkcan : kk2.Canonical ∧ kk2.sem = G := by
    have := mulWithRm_canonical (fromU64 G k) ((fromU64 G 1).scale k .none) .none hGk
    rw [hkf.sem] at this; exact this
  have hcor : term.toRes = Spec.div G .none (Flt.one G false) kk2 :=
    C01.div_correct (Flt.one G false) kk2 .none hG hkkcan.2 hone.can hkkcan.1
  have hkpos : (0:ℚ) < (k:ℚ) * (2:ℚ) ^ k := by
    have : (0:ℚ) < (k:ℚ) := by exact_mod_cast hk1
    positivity
  constructor
  · intro hf
    obtain ⟨hn, hv⟩ := hkk.1 hf
    rw [spec_div_normal G .none _ _ rfl hn rfl (hv.sign hn), ln2_one_mag hG, hv.mag hn] at hcor
    have hq : (1:ℚ) / ((k:ℚ) * (2:ℚ) ^ k) = q k := rfl
    rw [hq] at hcor
    have hlt : q k < (2:ℚ) ^ (G.emax + 1) := by
      have h1 : q k ≤ (1/2 : ℚ) ^ k := q_le_half_pow k hk1
      have h2 : (1/2 : ℚ) ^ k ≤ 1 := pow_le_one₀ (by norm_num) (by norm_num)
      have h3 : (1:ℚ) ≤ (2:ℚ) ^ (G.emax + 1) :=
        one_le_zpow₀ (by norm_num) (by have := Sem.emax_pos hG; omega)
      have h4 : (0:ℚ) < (1/2) ^ k := by positivity
      rcases lt_or_eq_of_le (le_trans h1 h2) with h | h
      · linarith
      · have := Sem.emax_pos hG
        have h5 : (2:ℚ) ^ (1:ℤ) ≤ (2:ℚ) ^ (G.emax + 1) :=
          zpow_le_zpow_right₀ (by norm_num) (by omega)
        rw [h]; norm_num at h5; linarith
    exact NN.of_round hG hcan.2 hcan.1 (q_pos hk1) hlt hcor
  · intro hf
    have hinf := hkk.2 hf
    have : Spec.div G .none (Flt.one G false) kk2 = .zero ((Flt.one G false).sign ^^ kk2.sign) := by
      simp [Spec.div, Spec.isNan, Spec.isInf, Spec.isZero, hinf, Flt.one]
    rw [this] at hcor
    obtain ⟨hz, _⟩ := RelErr.toRes_zero hcor
    exact ⟨hcan.2, hcan.1, Or.inr hz, fun h => by rw [hz] at h; exact absurd h (by decide),
      Flt.val_zero hz⟩

end Arp.Ln2

namespace Arp.Ln2
open Arp Arp.SpecRound

variable {G : Sem}

/-- what the proof needs of the working format `G` (`p + 8` bits, exponent range of `F`) -/
structure Rng (G : Sem) : Prop where
  wf : G.WF
  p16 : 16 ≤ G.p
  p64 : G.p < 2 ^ 64
  hi : (G.p : ℤ) ≤ G.emax + 7
  lo : G.emin = 1 - G.emax

theorem Rng.emax_ge (hR : Rng G) : 9 ≤ G.emax := by have := hR.p16; have := hR.hi; omega
theorem Rng.emin_le (hR : Rng G) : G.emin ≤ -8 := by have := hR.emax_ge; have := hR.lo; omega

theorem add_nine_le_two_pow (n : Nat) (hn : 4 ≤ n) : n + 9 ≤ 2 ^ n := by
  induction n, hn using Nat.le_induction with
  | base => norm_num
  | succ n hn ih => rw [Nat.pow_succ]; omega

theorem u_eq_eta (G : Sem) : RelErr.u G = 2 * eta G := by
  unfold RelErr.u eta
  rw [show (1:ℤ) - (G.p:ℤ) = -(G.p:ℤ) + 1 by ring, zpow_add_one₀ (by norm_num : (2:ℚ) ≠ 0)]
  ring

/-- `p·δ ≤ η`: the subnormal truncation errors are negligible -/
theorem p_mul_delta_le (hR : Rng G) : (G.p : ℚ) * delta G ≤ eta G := by
  have h16 := hR.p16
  have hle : delta G ≤ (2:ℚ) ^ ((9:ℤ) - 2 * (G.p:ℤ)) := by
    unfold delta Sem.ulp
    exact zpow_le_zpow_right₀ (by norm_num) (by have := hR.lo; have := hR.hi; omega)
  have h2 : (2:ℚ) ^ ((9:ℤ) - 2 * (G.p:ℤ)) = eta G / (2:ℚ) ^ (G.p - 9) := by
    unfold eta
    rw [eq_div_iff (by positivity), ← zpow_natCast, ← zpow_add₀ (by norm_num : (2:ℚ) ≠ 0)]
    congr 1
    omega
  have h3 : (G.p : ℚ) ≤ (2:ℚ) ^ (G.p - 9) := by
    have := add_nine_le_two_pow (G.p - 9) (by omega)
    have h' : G.p ≤ 2 ^ (G.p - 9) := by omega
    exact_mod_cast h'
  have hpos : (0:ℚ) < (2:ℚ) ^ (G.p - 9) := by positivity
  have he := eta_pos G
  calc (G.p : ℚ) * delta G ≤ (2:ℚ) ^ (G.p - 9) * (eta G / (2:ℚ) ^ (G.p - 9)) := by
        rw [← h2]
        exact mul_le_mul h3 hle (le_of_lt (delta_pos G)) (le_of_lt hpos)
    _ = eta G := by field_simp

/-- the loop invariant after `j ≥ 1` terms: the sum `s` is a representable number in
    `[1/2, S j]` whose distance to the exact partial sum `S j` is at most
    `j·(η + δ) + 2^(1-p)·S j` -/
structure LInv (G : Sem) (j : Nat) (s : ℚ) : Prop where
  rep : IsRep G s
  half : 1/2 ≤ s
  le : s ≤ S j
  err : S j - s ≤ (j:ℚ) * (eta G + delta G) + RelErr.u G * S j

theorem lt_pow_emax_succ (hR : Rng G) {x : ℚ} (hx : x < 1) : x < (2:ℚ) ^ (G.emax + 1) :=
  lt_of_lt_of_le hx (one_le_zpow₀ (by norm_num) (by have := hR.emax_ge; omega))

theorem S_one : S 1 = 1/2 := by
  rw [S_succ, S_zero]; norm_num [q]

theorem half_isRep (hR : Rng G) : IsRep G (1/2) := by
  have := isRep_pow2 hR.wf (-1) (by have := hR.emin_le; have := hR.p16; omega)
    (by have := hR.emax_ge; omega)
  norm_num at this
  exact this

theorem eta_isRep (hR : Rng G) : IsRep G (eta G) :=
  isRep_pow2 hR.wf (-(G.p:ℤ)) (by have := hR.emin_le; omega)
    (by have := hR.emax_ge; omega)

theorem inv_one (hR : Rng G) : LInv G 1 (1/2) := by
  refine ⟨half_isRep hR, le_refl _, by rw [S_one], ?_⟩
  rw [S_one]
  have := eta_pos G; have := delta_pos G; have := RelErr.u_pos G
  have : 0 < RelErr.u G * (1/2) := by positivity
  push_cast; linarith

/-- one iteration with a finite divisor preserves the invariant -/
theorem inv_step (hR : Rng G) {j : Nat} {s : ℚ} (h : LInv G j s) :
    LInv G (j + 1) (trq G (s + trq G (q (j + 1)))) := by
  have hG := hR.wf
  have hq0 := q_pos (show 1 ≤ j + 1 by omega)
  have hq1 : q (j + 1) < 1 := by
    have := q_le_half_pow (j + 1) (by omega)
    have h2 : (1/2 : ℚ) ^ (j + 1) < 1 := pow_lt_one₀ (by norm_num) (by norm_num) (by omega)
    linarith
  have hqlt := lt_pow_emax_succ hR hq1
  have ht0 := trq_nonneg hG (le_of_lt hq0) hqlt
  have ht1 := trq_le hG (le_of_lt hq0) hqlt
  have hterr := trq_err hG hq0 hqlt
  set t := trq G (q (j + 1)) with ht
  have hx0 : 0 < s + t := by have := h.half; linarith
  have hxS : s + t ≤ S (j + 1) := by rw [S_succ]; have := h.le; linarith
  have hx1 : s + t < 1 := lt_of_le_of_lt hxS (S_lt_one _)
  have hxlt := lt_pow_emax_succ hR hx1
  obtain ⟨h1, h2, h3⟩ := trq_spec hG hx0 hxlt
  have hserr := trq_err_lt_one hG (by have := hR.emin_le; omega) hx0 hx1
  have hge : s ≤ trq G (s + t) := h3 s h.rep (by linarith)
  refine ⟨h2, le_trans h.half hge, le_trans h1 hxS, ?_⟩
  have herr := h.err
  rw [S_succ]
  push_cast
  nlinarith [herr, hterr, hserr]

/-- when the sum does not change, the (finite) term was below `η`, hence so is `q (j+1)` -/
theorem exit_small (hR : Rng G) {j : Nat} {s : ℚ} (h : LInv G j s)
    (hex : trq G (s + trq G (q (j + 1))) = s) : q (j + 1) < eta G := by
  have hG := hR.wf
  have hq0 := q_pos (show 1 ≤ j + 1 by omega)
  have hq1 : q (j + 1) < 1 := by
    have := q_le_half_pow (j + 1) (by omega)
    have h2 : (1/2 : ℚ) ^ (j + 1) < 1 := pow_lt_one₀ (by norm_num) (by norm_num) (by omega)
    linarith
  have hqlt := lt_pow_emax_succ hR hq1
  have ht0 := trq_nonneg hG (le_of_lt hq0) hqlt
  have ht1 := trq_le hG (le_of_lt hq0) hqlt
  have hx0 : 0 < s + trq G (q (j + 1)) := by have := h.half; linarith
  have hxS : s + trq G (q (j + 1)) ≤ S (j + 1) := by rw [S_succ]; have := h.le; linarith
  have hx1 : s + trq G (q (j + 1)) < 1 := lt_of_le_of_lt hxS (S_lt_one _)
  have hserr := trq_err_lt_one hG (by have := hR.emin_le; omega) hx0 hx1
  rw [hex] at hserr
  exact lt_of_trq_lt hG (eta_isRep hR) hq0 hqlt (by linarith)

/-- a term below `η` leaves the sum unchanged -/
theorem stay_of_small (hR : Rng G) {j : Nat} {s : ℚ} (h : LInv G j s) (hq : q (j + 1) < eta G) :
    trq G (s + trq G (q (j + 1))) = s := by
  have hG := hR.wf
  have hq0 := q_pos (show 1 ≤ j + 1 by omega)
  have hq1 : q (j + 1) < 1 := by
    have := q_le_half_pow (j + 1) (by omega)
    have h2 : (1/2 : ℚ) ^ (j + 1) < 1 := pow_lt_one₀ (by norm_num) (by norm_num) (by omega)
    linarith
  have hqlt := lt_pow_emax_succ hR hq1
  have ht0 := trq_nonneg hG (le_of_lt hq0) hqlt
  have ht1 := trq_le hG (le_of_lt hq0) hqlt
  have hxS : s + trq G (q (j + 1)) ≤ S (j + 1) := by rw [S_succ]; have := h.le; linarith
  have hx1 : s + trq G (q (j + 1)) < 1 := lt_of_le_of_lt hxS (S_lt_one _)
  exact trq_stay hG h.rep h.half ht0 (by linarith) (lt_pow_emax_succ hR hx1)

/-- the `p`-th term is below `η = 2^-p` -/
theorem q_p_lt_eta (hR : Rng G) : q G.p < eta G := by
  unfold q eta
  have hp : (1:ℚ) < (G.p:ℚ) := by have := hR.p16; exact_mod_cast (show 1 < G.p by omega)
  rw [zpow_neg, zpow_natCast, ← one_div]
  have h2 : (0:ℚ) < 2 ^ G.p := by positivity
  rw [div_lt_div_iff₀ (by positivity) h2]
  nlinarith

/-- when `k·2^k` overflows, `1/(k·2^k) ≤ 2^-(emax+1) ≤ 64·η` -/
theorem q_le_of_not_fits (hR : Rng G) {k : Nat} (hk : 1 ≤ k) (h : ¬ Fits G k) :
    q k ≤ 64 * eta G := by
  have hge := not_fits_ge hk h
  have hpos : (0:ℚ) < (2:ℚ) ^ (G.emax + 1) := by positivity
  have h1 : q k ≤ 1 / (2:ℚ) ^ (G.emax + 1) := by
    unfold q
    exact div_le_div_of_nonneg_left (by norm_num) hpos hge
  have h2 : 1 / (2:ℚ) ^ (G.emax + 1) = (2:ℚ) ^ (-(G.emax + 1)) := by
    rw [zpow_neg, one_div]
  have h3 : (2:ℚ) ^ (-(G.emax + 1)) ≤ (2:ℚ) ^ ((6:ℤ) - (G.p:ℤ)) :=
    zpow_le_zpow_right₀ (by norm_num) (by have := hR.hi; omega)
  have h4 : (2:ℚ) ^ ((6:ℤ) - (G.p:ℤ)) = 64 * eta G := by
    unfold eta
    rw [show (6:ℤ) - (G.p:ℤ) = 6 + -(G.p:ℤ) by ring, zpow_add₀ (by norm_num : (2:ℚ) ≠ 0)]
    norm_num
  linarith

end Arp.Ln2

namespace Arp.Ln2
open Arp Arp.SpecRound

variable {G : Sem}

/-- side conditions of `term_spec` for the iterations that are executed (`k ≤ p`) -/
theorem side_conds (hR : Rng G) {k : Nat} (hk : k ≤ G.p) :
    k < 2 ^ 64 ∧ k < 2 ^ G.p ∧ (msb k : Int) - 1 ≤ G.emax := by
  refine ⟨lt_of_le_of_lt hk hR.p64, lt_of_le_of_lt hk Nat.lt_two_pow_self, ?_⟩
  have h9 := hR.emax_ge
  obtain ⟨E, hE⟩ : ∃ E : Nat, G.emax = (E : Int) := ⟨G.emax.toNat, by omega⟩
  have h1 := add_nine_le_two_pow (E + 1) (by omega)
  have hhi := hR.hi
  have hlt : k < 2 ^ (E + 1) := by omega
  have := msb_le_of_lt_cs hlt
  omega

/-- the `(j+1)`-st iteration of the loop body -/
def nextSum (G : Sem) (k : Nat) (sum : Flt) : Flt :=
  addWithRm sum (divWithRm (Flt.one G false)
    (mulWithRm (fromU64 G k) ((fromU64 G 1).scale k .none) .none) .none) .none

theorem ln2Loop_succ (G : Sem) (n k : Nat) (sum prev : Flt) :
    ln2Loop G (Flt.one G false) (n + 1) k sum prev =
      if prev.beq (nextSum G k sum) then nextSum G k sum
      else ln2Loop G (Flt.one G false) n (k + 1) (nextSum G k sum) (nextSum G k sum) := rfl

/-- value of the new sum: one more truncated term when `k·2^k` is finite, unchanged otherwise -/
theorem nextSum_spec (hR : Rng G) {k : Nat} (hk1 : 1 ≤ k) (hk : k ≤ G.p) {sum : Flt} {s : ℚ}
    (hs : NN G sum s) (hlt : s + q k < 1) (hpos : 0 < s + trq G (q k)) :
    (Fits G k → NN G (nextSum G k sum) (trq G (s + trq G (q k)))) ∧
    (¬ Fits G k → 0 < s → NN G (nextSum G k sum) s) := by
  have hG := hR.wf
  obtain ⟨c1, c2, c3⟩ := side_conds hR hk
  have ht := term_spec hG k hk1 c1 c2 c3
  simp only at ht
  have hs0 := hs.nonneg
  constructor
  · intro hf
    have hterm := ht.1 hf
    have hq0 := q_pos hk1
    have hq1 : q k < 1 := by linarith
    have hle := trq_le hG (le_of_lt hq0) (lt_pow_emax_succ hR hq1)
    exact NN.add hG hs hterm hpos (lt_pow_emax_succ hR (by linarith))
  · intro hf hspos
    have hterm := ht.2 hf
    have hs1 : s < 1 := by have := q_nonneg k; linarith
    have := NN.add hG hs hterm (by linarith) (lt_pow_emax_succ hR (by linarith))
    rw [add_zero, trq_of_isRep hG (hs.isRep hG)] at this
    exact this

/-- **the loop**: started after `j ≥ 1` terms with the invariant, with enough fuel to reach
    iteration `p`, it stops after some `j' < p` terms with the invariant and a small next term -/
theorem loop_spec (hR : Rng G) : ∀ (n j : Nat) (sum : Flt) (s : ℚ), 1 ≤ j → j + 1 ≤ G.p →
    G.p ≤ n + j → NN G sum s → LInv G j s →
    ∃ (v : ℚ) (j' : Nat), NN G (ln2Loop G (Flt.one G false) n (j + 1) sum sum) v ∧ LInv G j' v ∧
      1 ≤ j' ∧ j' + 1 ≤ G.p ∧ q (j' + 1) ≤ 64 * eta G := by
  intro n
  induction n with
  | zero => intro j sum s h1 h2 h3; omega
  | succ n ih =>
    intro j sum s hj1 hjP hfuel hs hinv
    have hG := hR.wf
    rw [ln2Loop_succ]
    have hspos : 0 < s := by have := hinv.half; linarith
    have hq0 := q_pos (show 1 ≤ j + 1 by omega)
    have hltS : s + q (j + 1) < 1 := by
      have := hinv.le
      have h2 := S_lt_one (j + 1)
      rw [S_succ] at h2; linarith
    have hq1 : q (j + 1) < 1 := by linarith
    have ht0 := trq_nonneg hG (le_of_lt hq0) (lt_pow_emax_succ hR hq1)
    obtain ⟨hA, hB⟩ := nextSum_spec hR (show 1 ≤ j + 1 by omega) hjP hs hltS (by linarith)
    have heta := eta_pos G
    by_cases hf : Fits G (j + 1)
    · have hs' := hA hf
      have hinv' := inv_step hR hinv
      have hs'pos : 0 < trq G (s + trq G (q (j + 1))) := by have := hinv'.half; linarith
      have hbeq := NN.beq_iff hs hs' hspos hs'pos
      by_cases hb : sum.beq (nextSum G (j + 1) sum) = true
      · rw [if_pos hb]
        have heq := hbeq.mp hb
        refine ⟨s, j, ?_, hinv, hj1, hjP, ?_⟩
        · rw [heq]; exact hs'
        · have := exit_small hR hinv heq.symm; linarith
      · rw [if_neg hb]
        have hne : j + 1 ≠ G.p := by
          intro h
          have hq := q_p_lt_eta hR
          rw [← h] at hq
          exact hb (hbeq.mpr (stay_of_small hR hinv hq).symm)
        exact ih (j + 1) _ _ (by omega) (by omega) (by omega) hs' hinv'
    · have hs' := hB hf hspos
      have hb : sum.beq (nextSum G (j + 1) sum) = true := (NN.beq_iff hs hs' hspos hspos).mpr rfl
      rw [if_pos hb]
      exact ⟨s, j, hs', hinv, hj1, hjP, q_le_of_not_fits hR (by omega) hf⟩

theorem msb_one : msb 1 = 1 := by decide

/-- the first iteration: `0 + 1/2`, exact, and the loop continues -/
theorem loop_first (hR : Rng G) (n : Nat) :
    ln2Loop G (Flt.one G false) (n + 1) 1 (Flt.zero G false) (Flt.inf G true) =
      ln2Loop G (Flt.one G false) n 2 (nextSum G 1 (Flt.zero G false)) (nextSum G 1 (Flt.zero G false))
    ∧ NN G (nextSum G 1 (Flt.zero G false)) (1/2) := by
  have hG := hR.wf
  have hfit : Fits G 1 := by
    unfold Fits; rw [msb_one]; have := hR.emax_ge; push_cast; omega
  have hq : q 1 = 1/2 := by norm_num [q]
  have hrep := half_isRep hR
  have htr : trq G (q 1) = 1/2 := by rw [hq]; exact trq_of_isRep hG hrep
  have h := (nextSum_spec hR (le_refl 1) (by have := hR.p16; omega) (NN.zero G false)
    (by rw [hq]; norm_num) (by rw [htr]; norm_num)).1 hfit
  rw [htr, zero_add, trq_of_isRep hG hrep] at h
  refine ⟨?_, h⟩
  rw [ln2Loop_succ, inf_beq_false h (by norm_num)]
  rfl

end Arp.Ln2
