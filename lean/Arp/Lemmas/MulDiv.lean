import Arp.Lemmas.Defs
import Arp.Lemmas.AddSub
/-!
# Helper lemmas for multiplication and division (C01 / C03)
-/
namespace Arp

/-! ### `msb` under shifts -/

theorem msb_unique {n k : Nat} (h1 : 2 ^ k ≤ n) (h2 : n < 2 ^ (k + 1)) : msb n = k + 1 := by
  have hn : n ≠ 0 := by have := Nat.one_le_two_pow (n := k); omega
  unfold msb; rw [if_neg hn]
  congr 1
  exact (Nat.log2_eq_iff hn).mpr ⟨h1, h2⟩

theorem msb_shiftLeft {m : Nat} (k : Nat) (hm : m ≠ 0) : msb (m <<< k) = msb m + k := by
  have h1 := msb_le hm
  have h2 := lt_msb m
  have h3 := msb_pos hm
  rw [Nat.shiftLeft_eq, show msb m + k = (msb m - 1 + k) + 1 by omega]
  apply msb_unique
  · rw [Nat.pow_add]; exact Nat.mul_le_mul_right _ h1
  · rw [show msb m - 1 + k + 1 = msb m + k by omega, Nat.pow_add]
    exact Nat.mul_lt_mul_of_pos_right h2 (by positivity)

theorem msb_shiftRight {m : Nat} (k : Nat) (hk : k < msb m) : msb (m >>> k) = msb m - k := by
  have hm : m ≠ 0 := by rintro rfl; simp [msb] at hk
  have h1 := msb_le hm
  have h2 := lt_msb m
  rw [Nat.shiftRight_eq_div_pow, show msb m - k = (msb m - k - 1) + 1 by omega]
  apply msb_unique
  · rw [Nat.le_div_iff_mul_le (by positivity), ← Nat.pow_add]
    rwa [show msb m - k - 1 + k = msb m - 1 by omega]
  · rw [Nat.div_lt_iff_lt_mul (by positivity), ← Nat.pow_add]
    rwa [show msb m - k - 1 + 1 + k = msb m by omega]


theorem mulNormals_correct (a b : Flt) (rm : RM) (sg : Bool) (hF : a.sem.WF) (hs : b.sem = a.sem)
    (hma : a.mant ≠ 0) (hmb : b.mant ≠ 0) :
    ((mulNormals a b sg).1.normalize rm (mulNormals a b sg).2).toRes
      = Spec.round a.sem rm sg (a.mag * b.mag) := by
  obtain ⟨s, sa, ea, ma, ca⟩ := a
  obtain ⟨s', sb, eb, mb, cb⟩ := b
  simp only at hF hs hma hmb
  subst hs
  have hp := hF.2
  have hab : ma * mb ≠ 0 := Nat.mul_ne_zero hma hmb
  have hcast : (((s'.p - 1 : Nat)) : Int) = (s'.p : Int) - 1 := by omega
  have h2 : (2:ℚ) ≠ 0 := by norm_num
  rw [Flt.mag_eq, Flt.mag_eq]
  unfold mulNormals
  simp only
  by_cases hgt : msb (ma * mb) > s'.p
  · rw [if_pos hgt]
    simp only
    set bits := msb (ma * mb) - s'.p with hbits
    have hmsb : msb ((ma * mb) >>> bits) = s'.p := by
      rw [msb_shiftRight _ (by omega)]; omega
    have hne : (ma * mb) >>> bits ≠ 0 := by
      intro h; rw [h] at hmsb; simp [msb] at hmsb; omega
    unfold Flt.new
    rw [if_neg hne]
    refine normalize_denotes ⟨s', sg, _, _, .normal⟩ rm _ _ hF rfl hne ?_ ?_
    · refine ⟨(((ma * mb) % 2 ^ bits : Nat) : ℚ) / 2 ^ bits, by positivity, ?_,
        (lossOfBits_cls _ _).symm, ?_⟩
      · rw [div_lt_one (by positivity)]
        have : (ma * mb) % 2 ^ bits < 2 ^ bits := Nat.mod_lt _ (by positivity)
        exact_mod_cast this
      · simp only
        have hfs := fract_shift (ma * mb) bits 0
        rw [add_zero, add_zero] at hfs
        rw [← hfs]
        have e : (2:ℚ) ^ (ea + eb - ((s'.p - 1 : Nat) : Int) + (bits : Int) - ((s'.p : Int) - 1))
            = 2 ^ (ea - ((s'.p : Int) - 1)) * 2 ^ (eb - ((s'.p : Int) - 1)) * 2 ^ bits := by
          rw [← zpow_natCast, ← zpow_add₀ h2, ← zpow_add₀ h2]; congr 1; omega
        rw [e]; push_cast; field_simp; ring
    · intro h; simp only at h; omega
  · rw [if_neg hgt]
    simp only
    unfold Flt.new
    rw [if_neg hab]
    refine normalize_denotes ⟨s', sg, _, _, .normal⟩ rm _ _ hF rfl hab ?_ ?_
    · refine ⟨0, le_refl _, by norm_num, by simp [cls], ?_⟩
      simp only
      have e : (2:ℚ) ^ (ea + eb - ((s'.p - 1 : Nat) : Int) - ((s'.p : Int) - 1))
          = 2 ^ (ea - ((s'.p : Int) - 1)) * 2 ^ (eb - ((s'.p : Int) - 1)) := by
        rw [← zpow_add₀ h2]; congr 1; omega
      rw [e]; push_cast; ring
    · intro _ _; rfl

/-! ### `align_mantissa` -/

theorem align_spec (x : Flt) (hm : x.mant ≠ 0) (hlt : x.mant < 2 ^ x.sem.p) :
    x.alignMantissa.sem = x.sem ∧ x.alignMantissa.sign = x.sign ∧
    2 ^ (x.sem.p - 1) ≤ x.alignMantissa.mant ∧ x.alignMantissa.mant < 2 ^ x.sem.p ∧
    (x.alignMantissa.mant : ℚ) * 2 ^ x.alignMantissa.exp = (x.mant : ℚ) * 2 ^ x.exp := by
  obtain ⟨s, sg, ex, m, c⟩ := x
  simp only at hm hlt
  have hle := msb_le_of_lt hlt
  have hpos := msb_pos hm
  unfold Flt.alignMantissa
  simp only
  by_cases hb : (s.p : Int) - (msb m : Int) > 0
  · rw [if_pos hb]
    simp only
    obtain ⟨k, hk⟩ : ∃ k : Nat, (s.p : Int) - (msb m : Int) = k := ⟨s.p - msb m, by omega⟩
    rw [hk, Int.toNat_natCast]
    have hmsb : msb (m <<< k) = s.p := by rw [msb_shiftLeft k hm]; omega
    have hne : m <<< k ≠ 0 := by
      intro h; rw [h] at hmsb; simp [msb] at hmsb; omega
    refine ⟨trivial, trivial, ?_, ?_, ?_⟩
    · have := msb_le hne; rwa [hmsb] at this
    · have := lt_msb (m <<< k); rwa [hmsb] at this
    · rw [Nat.shiftLeft_eq, zpow_sub₀ (by norm_num : (2:ℚ) ≠ 0), zpow_natCast]
      push_cast; field_simp
  · rw [if_neg hb]
    have hmsb : msb m = s.p := by omega
    refine ⟨rfl, rfl, ?_, hlt, rfl⟩
    have := msb_le hm; rwa [hmsb] at this

/-! ### the long division step -/

theorem div_quot (p N B : Nat) (hB : 0 < B) (h1 : B ≤ N) (h2 : N < 2 * B) (hp : 1 ≤ p) :
    2 ^ (p - 1) ≤ (N <<< (p - 1)) / B ∧ (N <<< (p - 1)) / B < 2 ^ p ∧
    (((N <<< (p - 1)) / B : Nat) : ℚ) + (((N <<< (p - 1)) % B : Nat) : ℚ) / B
      = (N : ℚ) * 2 ^ ((p : Int) - 1) / B := by
  rw [Nat.shiftLeft_eq]
  have hpw : 2 ^ p = 2 * 2 ^ (p - 1) := by
    obtain ⟨k, rfl⟩ : ∃ k, p = k + 1 := ⟨p - 1, by omega⟩
    rw [Nat.pow_succ]; simp; ring
  have hpos : 0 < 2 ^ (p - 1) := by positivity
  refine ⟨?_, ?_, ?_⟩
  · rw [Nat.le_div_iff_mul_le hB, Nat.mul_comm]
    exact Nat.mul_le_mul_right _ h1
  · rw [Nat.div_lt_iff_lt_mul hB, hpw]
    calc N * 2 ^ (p - 1) < (2 * B) * 2 ^ (p - 1) := Nat.mul_lt_mul_of_pos_right h2 hpos
      _ = 2 * 2 ^ (p - 1) * B := by ring
  · have hdm := Nat.div_add_mod (N * 2 ^ (p - 1)) B
    have hq : ((B * (N * 2 ^ (p - 1) / B) + N * 2 ^ (p - 1) % B : Nat) : ℚ)
        = ((N * 2 ^ (p - 1) : Nat) : ℚ) := by rw [hdm]
    have hBq : (B : ℚ) ≠ 0 := by exact_mod_cast (Nat.pos_iff_ne_zero.mp hB)
    have hz : (2:ℚ) ^ ((p : Int) - 1) = ((2 ^ (p - 1) : Nat) : ℚ) := by
      rw [show (p : Int) - 1 = ((p - 1 : Nat) : Int) by omega, zpow_natCast]; push_cast; rfl
    rw [hz]
    push_cast at hq ⊢
    field_simp
    linarith

theorem div_loss_cls (r B : Nat) (hB : 0 < B) :
    (match compare (r <<< 1) B with
      | .lt => if r <<< 1 = 0 then Loss.zero else Loss.lt
      | .eq => Loss.half
      | .gt => Loss.gt) = cls ((r : ℚ) / B) := by
  have hr2 : r <<< 1 = 2 * r := by rw [Nat.shiftLeft_eq]; ring
  have hBq : (0 : ℚ) < B := by exact_mod_cast hB
  rw [hr2]
  rcases Nat.lt_trichotomy (2 * r) B with h | h | h
  · rw [Nat.compare_eq_lt.mpr h]
    simp only
    have hq : (2:ℚ) * r < B := by exact_mod_cast h
    by_cases hr : r = 0
    · subst hr; simp [cls]
    · rw [if_neg (by omega)]
      have hrq : (0:ℚ) < r := by exact_mod_cast Nat.pos_of_ne_zero hr
      exact (cls_lt (div_pos hrq hBq) (by rw [div_lt_div_iff₀ hBq (by norm_num)]; linarith)).symm
  · rw [Nat.compare_eq_eq.mpr h]
    simp only
    have hq : (2:ℚ) * r = B := by exact_mod_cast h
    have : (r : ℚ) / B = 1 / 2 := by
      rw [div_eq_div_iff (ne_of_gt hBq) (by norm_num)]; linarith
    rw [this]; exact cls_half.symm
  · rw [Nat.compare_eq_gt.mpr h]
    simp only
    have hq : (B : ℚ) < 2 * r := by exact_mod_cast h
    exact (cls_gt (by rw [div_lt_div_iff₀ (by norm_num) hBq]; linarith)).symm

theorem div_value (ma mb A B N q r : ℚ) (ea eb ea1 eb1 e1 : Int) (p1 : Int)
    (hB0 : B ≠ 0)
    (hA : A * 2 ^ ea1 = ma * 2 ^ ea) (hB : B * 2 ^ eb1 = mb * 2 ^ eb)
    (hN : N * 2 ^ e1 = A * 2 ^ (ea1 - eb1))
    (hq : q + r / B = N * 2 ^ p1 / B) :
    ma * 2 ^ (ea - p1) / (mb * 2 ^ (eb - p1)) = (q + r / B) * 2 ^ (e1 - p1) := by
  have h2 : (2:ℚ) ≠ 0 := by norm_num
  have hP : (2:ℚ) ^ p1 ≠ 0 := zpow_ne_zero _ h2
  have hE : (2:ℚ) ^ eb1 ≠ 0 := zpow_ne_zero _ h2
  rw [hq]
  calc ma * 2 ^ (ea - p1) / (mb * 2 ^ (eb - p1))
      = (ma * 2 ^ ea) / (mb * 2 ^ eb) := by
        rw [zpow_sub₀ h2, zpow_sub₀ h2, ← mul_div_assoc, ← mul_div_assoc,
          div_div_div_cancel_right₀ hP]
    _ = (A * 2 ^ ea1) / (B * 2 ^ eb1) := by rw [hA, hB]
    _ = A * 2 ^ (ea1 - eb1) / B := by rw [zpow_sub₀ h2]; field_simp
    _ = N * 2 ^ e1 / B := by rw [hN]
    _ = N * 2 ^ p1 / B * 2 ^ (e1 - p1) := by rw [zpow_sub₀ h2]; field_simp

/-! ### division of two normal values -/

theorem divNormals_correct (a b : Flt) (rm : RM) (hF : a.sem.WF) (hs : b.sem = a.sem)
    (hma : a.mant ≠ 0) (hla : a.mant < 2 ^ a.sem.p)
    (hmb : b.mant ≠ 0) (hlb : b.mant < 2 ^ b.sem.p) :
    ((divNormals a b).1.normalize rm (divNormals a b).2).toRes
      = Spec.round a.sem rm (a.sign ^^ b.sign) (a.mag / b.mag) := by
  obtain ⟨-, sga1, hAlo, hAhi, hAv⟩ := align_spec a hma hla
  obtain ⟨-, sgb1, hBlo, hBhi, hBv⟩ := align_spec b hmb hlb
  rw [hs] at hBlo hBhi
  rw [Flt.mag_eq, Flt.mag_eq, hs]
  unfold divNormals
  simp only
  generalize a.alignMantissa = a1 at *
  generalize b.alignMantissa = b1 at *
  rw [sga1, sgb1]
  have hp2 := hF.2
  have h2 : (2:ℚ) ≠ 0 := by norm_num
  generalize hp : a.sem.p = p at *
  generalize hA : a1.mant = A at *
  generalize hB : b1.mant = B at *
  have hpw : 2 ^ p = 2 * 2 ^ (p - 1) := by
    obtain ⟨k, rfl⟩ : ∃ k, p = k + 1 := ⟨p - 1, by omega⟩
    rw [Nat.pow_succ]; simp; ring
  have hpos : 0 < 2 ^ (p - 1) := by positivity
  have hBpos : 0 < B := by omega
  obtain ⟨N, hN⟩ : ∃ N, N = (if A < B then A <<< 1 else A) := ⟨_, rfl⟩
  obtain ⟨e1, he1⟩ : ∃ e1, e1 = (if A < B then a1.exp - b1.exp - 1 else a1.exp - b1.exp) :=
    ⟨_, rfl⟩
  rw [← hN, ← he1]
  have hN1 : B ≤ N ∧ N < 2 * B ∧ (N : ℚ) * 2 ^ e1 = A * 2 ^ (a1.exp - b1.exp) := by
    by_cases h : A < B
    · rw [if_pos h] at hN he1
      subst hN he1
      rw [Nat.shiftLeft_eq]
      refine ⟨by omega, by omega, ?_⟩
      rw [zpow_sub₀ h2 (a1.exp - b1.exp)]; push_cast; field_simp
    · rw [if_neg h] at hN he1
      subst hN he1
      exact ⟨by omega, by omega, rfl⟩
  obtain ⟨hq1, hq2, hq3⟩ := div_quot p N B hBpos hN1.1 hN1.2.1 (by omega)
  have hq0 : N <<< (p - 1) / B ≠ 0 := by omega
  unfold Flt.new
  rw [if_neg hq0]
  refine normalize_denotes ⟨a.sem, _, e1, _, .normal⟩ rm _ _ hF rfl hq0 ?_ ?_
  · refine ⟨(((N <<< (p - 1)) % B : Nat) : ℚ) / B, by positivity, ?_,
      (div_loss_cls _ B hBpos).symm, ?_⟩
    · rw [div_lt_one (by exact_mod_cast hBpos)]
      have : (N <<< (p - 1)) % B < B := Nat.mod_lt _ hBpos
      exact_mod_cast this
    · simp only
      rw [hp]
      exact div_value _ _ A B N _ _ _ _ _ _ _ _ (by exact_mod_cast hBpos.ne') hAv hBv hN1.2.2 hq3
  · intro h
    simp only at h
    rw [hp] at h
    have : msb (N <<< (p - 1) / B) = (p - 1) + 1 :=
      msb_unique hq1 (by rwa [show p - 1 + 1 = p by omega])
    omega

end Arp
