import Mathlib.Analysis.SpecialFunctions.Trigonometric.Series
import Mathlib.Analysis.SpecialFunctions.Trigonometric.Bounds
import Mathlib.Analysis.SpecificLimits.Normed
import Mathlib.Tactic.Linarith
import Mathlib.Tactic.Positivity
import Mathlib.Tactic.Ring
import Mathlib.Tactic.FieldSimp
import Mathlib.Tactic.NormNum
/-!
# Real-analysis facts behind the accuracy of `sin` / `cos` for `|x| < 1` (property C17)

* `tterm`, `tpoly`: the terms `X0·y^j / b j` and alternating partial sums of a Taylor series
  (`sin`: `X0 = x`, `y = x²`, `b j = (2j+1)!`; `cos`: `X0 = 1`, `y = x²`, `b j = (2j)!`);
* `sin_tpoly_bound`, `cos_tpoly_bound`: the alternating-series remainder bound for every order;
* `triple_prop`: relative error propagation through `s ↦ 3s − 4s³` with three rounded operations;
* `sin_arg_pert`: relative effect of a relative perturbation of the argument.
-/
namespace Arp.TrigErr
open Finset

section Series
variable {K : Type*} [Field K]

/-- `j`-th term `X0·y^j / b j` of a Taylor series -/
def tterm (X0 y : K) (b : ℕ → ℕ) (j : ℕ) : K := X0 * y ^ j / (b j : K)

/-- alternating partial sum of the first `n` terms -/
def tpoly (X0 y : K) (b : ℕ → ℕ) (n : ℕ) : K := ∑ i ∈ range n, (-1) ^ i * tterm X0 y b i

theorem tpoly_zero (X0 y : K) (b : ℕ → ℕ) : tpoly X0 y b 0 = 0 := by simp [tpoly]

theorem tpoly_succ (X0 y : K) (b : ℕ → ℕ) (n : ℕ) :
    tpoly X0 y b (n + 1) = tpoly X0 y b n + (-1) ^ n * tterm X0 y b n := by
  unfold tpoly; rw [sum_range_succ]

end Series

theorem tterm_cast (X0 y : ℚ) (b : ℕ → ℕ) (j : ℕ) :
    ((tterm X0 y b j : ℚ) : ℝ) = tterm (X0 : ℝ) (y : ℝ) b j := by
  unfold tterm; push_cast; rfl

theorem tpoly_cast (X0 y : ℚ) (b : ℕ → ℕ) (n : ℕ) :
    ((tpoly X0 y b n : ℚ) : ℝ) = tpoly (X0 : ℝ) (y : ℝ) b n := by
  unfold tpoly; push_cast
  refine sum_congr rfl (fun i _ => ?_)
  rw [tterm_cast]

/-- denominators of the sine series -/
def botS (j : ℕ) : ℕ := (2 * j + 1).factorial
/-- denominators of the cosine series -/
def botC (j : ℕ) : ℕ := (2 * j).factorial

theorem botS_pos (j : ℕ) : 0 < botS j := Nat.factorial_pos _
theorem botC_pos (j : ℕ) : 0 < botC j := Nat.factorial_pos _
theorem botS_zero : botS 0 = 1 := by simp [botS]
theorem botC_zero : botC 0 = 1 := by simp [botC]

theorem botS_succ (j : ℕ) : botS (j + 1) = botS j * (((j + 1) * 2) * ((j + 1) * 2 + 1)) := by
  unfold botS
  rw [show 2 * (j + 1) + 1 = (2 * j + 1) + 1 + 1 by ring, Nat.factorial_succ, Nat.factorial_succ]
  ring

theorem botC_succ (j : ℕ) : botC (j + 1) = botC j * (((j + 1) * 2 - 1) * ((j + 1) * 2)) := by
  unfold botC
  rw [show 2 * (j + 1) = (2 * j) + 1 + 1 by ring, Nat.factorial_succ, Nat.factorial_succ]
  have : ((j + 1) * 2 - 1) = 2 * j + 1 := by omega
  rw [this]; ring

/-- generic alternating-series remainder: `|S − P_n| ≤ t_n` -/
theorem tpoly_bound {X0 y : ℝ} {b : ℕ → ℕ} (hX0 : 0 ≤ X0) (hy0 : 0 ≤ y) (hy1 : y ≤ 1)
    (hb : Monotone b) (hb0 : ∀ j, 0 < b j) {S : ℝ}
    (hS : HasSum (fun n : ℕ => (-1 : ℝ) ^ n * tterm X0 y b n) S) (n : ℕ) :
    |S - tpoly X0 y b n| ≤ tterm X0 y b n := by
  have hnn : ∀ j, 0 ≤ tterm X0 y b j := fun j => by
    unfold tterm
    have : (0:ℝ) < b j := by exact_mod_cast hb0 j
    positivity
  have hanti : Antitone (tterm X0 y b) := by
    refine antitone_nat_of_succ_le (fun j => ?_)
    unfold tterm
    have h1 : (0:ℝ) < b j := by exact_mod_cast hb0 j
    have h2 : (b j : ℝ) ≤ b (j + 1) := by exact_mod_cast hb (Nat.le_succ j)
    have h3 : y ^ (j + 1) ≤ y ^ j := pow_le_pow_of_le_one hy0 hy1 (Nat.le_succ j)
    have h4 : 0 ≤ y ^ (j + 1) := pow_nonneg hy0 _
    calc X0 * y ^ (j + 1) / (b (j + 1) : ℝ) ≤ X0 * y ^ (j + 1) / (b j : ℝ) :=
          div_le_div_of_nonneg_left (by positivity) h1 h2
      _ ≤ X0 * y ^ j / (b j : ℝ) := by
          apply div_le_div_of_nonneg_right _ (le_of_lt h1)
          exact mul_le_mul_of_nonneg_left h3 hX0
  have hsum : Summable (tterm X0 y b) := by
    have := hS.summable.abs
    refine this.congr (fun j => ?_)
    rw [abs_mul, abs_pow, abs_neg, abs_one, one_pow, one_mul, abs_of_nonneg (hnn j)]
  have := alternating_series_error_bound (tterm X0 y b) hanti hsum n
  rw [hS.tsum_eq] at this
  exact this

theorem botS_mono : Monotone botS := fun a b h => Nat.factorial_le (by omega)
theorem botC_mono : Monotone botC := fun a b h => Nat.factorial_le (by omega)

/-- Taylor remainder of `sin` of every order, `0 ≤ x ≤ 1` -/
theorem sin_tpoly_bound {x : ℝ} (hx0 : 0 ≤ x) (hx1 : x ≤ 1) (n : ℕ) :
    |Real.sin x - tpoly x (x ^ 2) botS n| ≤ tterm x (x ^ 2) botS n := by
  refine tpoly_bound hx0 (by positivity) (by nlinarith) botS_mono botS_pos ?_ n
  have h := Real.hasSum_sin x
  convert h using 2 with j
  unfold tterm botS
  rw [← pow_mul, pow_succ]; ring

/-- Taylor remainder of `cos` of every order, `0 ≤ x ≤ 1` -/
theorem cos_tpoly_bound {x : ℝ} (hx0 : 0 ≤ x) (hx1 : x ≤ 1) (n : ℕ) :
    |Real.cos x - tpoly 1 (x ^ 2) botC n| ≤ tterm 1 (x ^ 2) botC n := by
  refine tpoly_bound zero_le_one (by positivity) (by nlinarith) botC_mono botC_pos ?_ n
  have h := Real.hasSum_cos x
  convert h using 2 with j
  unfold tterm botC
  rw [← pow_mul]; ring


/-! ## relative-error algebra -/

/-- two successive relative perturbations -/
theorem rel_trans {x0 x1 x2 e1 e2 : ℝ} (_h0 : 0 ≤ x0) (he2 : 0 ≤ e2)
    (h1 : |x1 - x0| ≤ e1 * x0) (h2 : |x2 - x1| ≤ e2 * x1) :
    |x2 - x0| ≤ (e1 + e2 + e1 * e2) * x0 := by
  have hx1 : x1 ≤ (1 + e1) * x0 := by have := (abs_le.mp h1).2; linarith
  have h3 : e2 * x1 ≤ e2 * ((1 + e1) * x0) := mul_le_mul_of_nonneg_left hx1 he2
  calc |x2 - x0| = |(x2 - x1) + (x1 - x0)| := by ring_nf
    _ ≤ |x2 - x1| + |x1 - x0| := abs_add_le _ _
    _ ≤ e2 * x1 + e1 * x0 := add_le_add h2 h1
    _ ≤ e2 * ((1 + e1) * x0) + e1 * x0 := by linarith
    _ = (e1 + e2 + e1 * e2) * x0 := by ring

/-- the map `s ↦ 3s − 4s³` does not amplify relative errors on `(0, 1/3]` -/
theorem cube_map_rel {S s E : ℝ} (hS0 : 0 < S) (hS : S ≤ 1/3) (hE0 : 0 ≤ E) (hE : E ≤ 1/64)
    (hs : |s - S| ≤ E * S) :
    |(3 * s - 4 * s ^ 3) - (3 * S - 4 * S ^ 3)| ≤ E * (3 * S - 4 * S ^ 3) := by
  obtain ⟨hs1, hs2⟩ := abs_le.mp hs
  have hs0 : 0 < s := by nlinarith
  have hsle : s ≤ 34/100 := by nlinarith
  have e : (3 * s - 4 * s ^ 3) - (3 * S - 4 * S ^ 3) = (s - S) * (3 - 4 * (s ^ 2 + s * S + S ^ 2)) := by
    ring
  have hg : |3 - 4 * (s ^ 2 + s * S + S ^ 2)| ≤ 3 - 4 * S ^ 2 := by
    rw [abs_le]
    constructor
    · nlinarith [mul_pos hs0 hS0, sq_nonneg s, sq_nonneg S]
    · nlinarith [mul_pos hs0 hS0, sq_nonneg s]
  have hpos : 0 ≤ 3 - 4 * S ^ 2 := by nlinarith
  rw [e, abs_mul]
  calc |s - S| * |3 - 4 * (s ^ 2 + s * S + S ^ 2)| ≤ (E * S) * (3 - 4 * S ^ 2) :=
        mul_le_mul hs hg (abs_nonneg _) (by positivity)
    _ = E * (3 * S - 4 * S ^ 3) := by ring

/-- **one triple-angle step with three rounded operations** of relative error `≤ d`:
    `a ≈ 3s`, `b ≈ 4s³`, `r ≈ a − b` -/
theorem triple_prop {S s a b r d E : ℝ} (hS0 : 0 < S) (hS : S ≤ 1/3) (hE0 : 0 ≤ E) (hE : E ≤ 1/64)
    (hd0 : 0 ≤ d) (hd : d ≤ 1/64) (hs : |s - S| ≤ E * S)
    (ha : |a - 3 * s| ≤ d * (3 * s)) (hb : |b - 4 * s ^ 3| ≤ d * (4 * s ^ 3))
    (hr : |r - (a - b)| ≤ d * (a - b)) :
    |r - (3 * S - 4 * S ^ 3)| ≤ (E + 3 * d) * (3 * S - 4 * S ^ 3) := by
  obtain ⟨hs1, hs2⟩ := abs_le.mp hs
  have hs0 : 0 < s := by nlinarith
  have hsle : s ≤ 34/100 := by nlinarith
  have hs2le : s ^ 2 ≤ 1/8 := by nlinarith
  set fS := 3 * S - 4 * S ^ 3 with hfS
  set fs := 3 * s - 4 * s ^ 3 with hfs
  have hfSpos : 0 < fS := by
    have : fS = S * (3 - 4 * S ^ 2) := by rw [hfS]; ring
    rw [this]; apply mul_pos hS0; nlinarith
  have hfspos : 0 < fs := by
    have : fs = s * (3 - 4 * s ^ 2) := by rw [hfs]; ring
    rw [this]; apply mul_pos hs0; nlinarith
  have h1 : |fs - fS| ≤ E * fS := cube_map_rel hS0 hS hE0 hE hs
  -- a − b against fs
  have h2 : |(a - b) - fs| ≤ (14/10 * d) * fs := by
    have e : (a - b) - fs = (a - 3 * s) - (b - 4 * s ^ 3) := by rw [hfs]; ring
    have hcube : 0 ≤ s ^ 3 := by positivity
    have hk : 3 * s + 4 * s ^ 3 ≤ 14/10 * fs := by
      have : 14/10 * fs - (3 * s + 4 * s ^ 3) = s * (12/10 - 96/10 * s ^ 2) := by rw [hfs]; ring
      have : 0 ≤ s * (12/10 - 96/10 * s ^ 2) := mul_nonneg (le_of_lt hs0) (by nlinarith)
      linarith
    calc |(a - b) - fs| = |(a - 3 * s) - (b - 4 * s ^ 3)| := by rw [e]
      _ ≤ |a - 3 * s| + |b - 4 * s ^ 3| := abs_sub _ _
      _ ≤ d * (3 * s) + d * (4 * s ^ 3) := add_le_add ha hb
      _ = d * (3 * s + 4 * s ^ 3) := by ring
      _ ≤ d * (14/10 * fs) := mul_le_mul_of_nonneg_left hk hd0
      _ = (14/10 * d) * fs := by ring
  have h3 := rel_trans (le_of_lt hfspos) hd0 h2 hr
  have h4 : |r - fs| ≤ (25/10 * d) * fs := by
    refine le_trans h3 (mul_le_mul_of_nonneg_right ?_ (le_of_lt hfspos))
    nlinarith
  have h5 := rel_trans (le_of_lt hfSpos) (by positivity : (0:ℝ) ≤ 25/10 * d) h1 h4
  refine le_trans h5 (mul_le_mul_of_nonneg_right ?_ (le_of_lt hfSpos))
  nlinarith

/-- on `(0, 1]`: `(5/6)·x ≤ sin x ≤ x` -/
theorem sin_lower {x : ℝ} (hx0 : 0 ≤ x) (hx1 : x ≤ 1) : 5/6 * x ≤ Real.sin x := by
  have := Real.sin_ge_sub_cube hx0
  have h2 : x ^ 3 ≤ x := by
    have : x ^ 2 ≤ 1 := by nlinarith
    nlinarith
  linarith

theorem sin_mono_unit {a b : ℝ} (ha : 0 ≤ a) (hab : a ≤ b) (hb : b ≤ 1) : Real.sin a ≤ Real.sin b := by
  have := Real.one_le_pi_div_two
  exact Real.sin_le_sin_of_le_of_le_pi_div_two (by linarith [Real.pi_pos]) (by linarith) hab

/-- a relative perturbation `v` of the argument changes `sin` by at most `(6/5)·v` relatively -/
theorem sin_arg_pert {x x' v : ℝ} (h0 : 0 ≤ x') (hle : x' ≤ x) (hx1 : x ≤ 1) (hv0 : 0 ≤ v)
    (hrel : x - x' ≤ v * x) :
    |Real.sin x' - Real.sin x| ≤ 6/5 * v * Real.sin x := by
  have h1 := Real.abs_sin_sub_sin_le x' x
  have h2 : |x' - x| = x - x' := by rw [abs_sub_comm, abs_of_nonneg (by linarith)]
  have h3 := sin_lower (le_trans h0 hle) hx1
  have h4 : v * x ≤ v * (6/5 * Real.sin x) := mul_le_mul_of_nonneg_left (by linarith) hv0
  calc |Real.sin x' - Real.sin x| ≤ x - x' := by rw [← h2]; exact h1
    _ ≤ v * x := hrel
    _ ≤ v * (6/5 * Real.sin x) := h4
    _ = 6/5 * v * Real.sin x := by ring

/-! ## `cos` -/

/-- on `[0, 1]`: `1 − x²/2 ≤ cos x ≤ 1` -/
theorem cos_lower (x : ℝ) : 1 - x ^ 2 / 2 ≤ Real.cos x := Real.one_sub_sq_div_two_le_cos

/-- **one double-angle step with three rounded operations** of relative error `≤ d`:
    `s2 ≈ ĉ²`, `b ≈ 2·s2`, `r ≈ b − 1`; `c ∈ [7/8, 1]`, `|ĉ − c| ≤ e` -/
theorem double_prop {c ch s2 b r d e : ℝ} (hc1 : 7/8 ≤ c) (hc2 : c ≤ 1) (he0 : 0 ≤ e)
    (he : e ≤ 1/64) (hd0 : 0 ≤ d) (hd : d ≤ 1/64) (hch : |ch - c| ≤ e)
    (hs2 : |s2 - ch ^ 2| ≤ d * ch ^ 2) (hb : |b - 2 * s2| ≤ d * (2 * s2))
    (hr : |r - (b - 1)| ≤ d * (b - 1)) :
    |r - (2 * c ^ 2 - 1)| ≤ 4 * e + 2 * e ^ 2 + 6 * d := by
  obtain ⟨a1, a2⟩ := abs_le.mp hch
  have hch0 : 27/32 ≤ ch := by linarith
  have hch1 : ch ≤ 65/64 := by linarith
  have hsq1 : ch ^ 2 ≤ 21/20 := by nlinarith
  have hsq0 : 0 ≤ ch ^ 2 := by positivity
  -- the square of the approximation against the exact square
  have h1 : |2 * ch ^ 2 - 2 * c ^ 2| ≤ 4 * e + 2 * e ^ 2 := by
    have e1 : 2 * ch ^ 2 - 2 * c ^ 2 = 2 * (ch - c) * (ch + c) := by ring
    rw [e1, abs_mul, abs_mul, abs_two]
    have h2 : |ch + c| ≤ 2 + e := by rw [abs_of_nonneg (by linarith)]; linarith
    calc 2 * |ch - c| * |ch + c| ≤ 2 * e * (2 + e) := by
          apply mul_le_mul (by linarith) h2 (abs_nonneg _) (by linarith)
      _ = 4 * e + 2 * e ^ 2 := by ring
  obtain ⟨s1, s2'⟩ := abs_le.mp hs2
  have hds : d * ch ^ 2 ≤ 21/20 * d := by nlinarith
  have hs2le : s2 ≤ 11/10 := by nlinarith
  have hs2ge : 0 ≤ s2 := by nlinarith
  obtain ⟨b1, b2⟩ := abs_le.mp hb
  have hdb : d * (2 * s2) ≤ 22/10 * d := by nlinarith
  have hble : b ≤ 23/10 := by nlinarith
  obtain ⟨r1, r2⟩ := abs_le.mp hr
  have hb1 : 0 ≤ d * (b - 1) := le_trans (abs_nonneg _) hr
  have hdr : d * (b - 1) ≤ 13/10 * d := by nlinarith
  obtain ⟨q1, q2⟩ := abs_le.mp h1
  rw [abs_le]
  constructor <;> linarith

end Arp.TrigErr
