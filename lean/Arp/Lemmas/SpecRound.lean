import Arp.Lemmas.Defs
import Mathlib.Order.WithBot
import Mathlib.Tactic.LinearCombination
/-!
# Helper lemmas for the declarative characterisation of `Spec.round`

`Spec.round` is analysed in two steps:
* `exists_decomp` / `Decomp.round_eq`: every `q > 0` has a (unique) decomposition
  `q = (m + f)·ulp e` with `e ≥ emin`, `m < 2^p` canonical for `e`, `0 ≤ f < 1`, and
  `Spec.round F rm neg q = Spec.finish F rm neg e m (Spec.up rm neg m f)`;
* `finish_of_ovf` / `finish_of_not_ovf`: what `Spec.finish` returns.
The gap lemma `IsRep.gap` says that no representable magnitude lies strictly between
`m·ulp e` and `(m+1)·ulp e`.
-/
namespace Arp

/-! ## Vocabulary -/

/-- q is a non-negative magnitude representable in F (0 included) -/
def IsRep (F : Sem) (q : ℚ) : Prop :=
  ∃ (e : Int) (m : Nat), F.emin ≤ e ∧ e ≤ F.emax ∧ m < 2 ^ F.p ∧ (2 ^ (F.p - 1) ≤ m ∨ e = F.emin)
    ∧ q = (m : ℚ) * (2:ℚ) ^ (e - ((F.p:Int) - 1))

/-- largest finite magnitude -/
def maxFinite (F : Sem) : ℚ := ((2 ^ F.p - 1 : Nat) : ℚ) * (2:ℚ) ^ (F.emax - ((F.p:Int) - 1))

/-- the mode rounds magnitudes away from zero for this sign -/
def RM.awayFor (rm : RM) (neg : Bool) : Prop := (rm = .pos ∧ neg = false) ∨ (rm = .neg ∧ neg = true)

/-- the mode rounds magnitudes toward zero for this sign -/
def RM.truncFor (rm : RM) (neg : Bool) : Prop :=
  rm = .zero ∨ rm = .none ∨ (rm = .pos ∧ neg = true) ∨ (rm = .neg ∧ neg = false)

/-- exchange the two directed modes (mirror image under negation) -/
def RM.swap : RM → RM
  | .pos => .neg
  | .neg => .pos
  | rm => rm

/-- magnitude of a result: `m·2^(e-(p-1))` for finite results, `0` otherwise -/
def Res.mag (F : Sem) : Res → ℚ
  | .fin _ e m => (m : ℚ) * (2:ℚ) ^ (e - ((F.p:Int) - 1))
  | _ => 0

/-- significand of a result (`0` for non-finite results) -/
def Res.mant : Res → Nat
  | .fin _ _ m => m
  | _ => 0

/-- result with the opposite sign -/
def Res.flip : Res → Res
  | .zero s => .zero (!s)
  | .fin s e m => .fin (!s) e m
  | .inf s => .inf (!s)
  | .nan => .nan

/-- order key: magnitude, `⊤` for infinities (and NaN, which `Spec.round` never returns) -/
def Res.key (F : Sem) : Res → WithTop ℚ
  | .zero _ => ((0:ℚ) : WithTop ℚ)
  | .fin _ e m => (((m : ℚ) * (2:ℚ) ^ (e - ((F.p:Int) - 1)) : ℚ) : WithTop ℚ)
  | _ => ⊤

/-- the result is a zero or a finite number -/
def Res.IsFinite : Res → Prop
  | .zero _ => True
  | .fin _ _ _ => True
  | _ => False

/-- unit in the last place at exponent `e` -/
def Sem.ulp (F : Sem) (e : Int) : ℚ := (2:ℚ) ^ (e - ((F.p:Int) - 1))

theorem Sem.ulp_def (F : Sem) (e : Int) : F.ulp e = (2:ℚ) ^ (e - ((F.p:Int) - 1)) := rfl

theorem Res.mag_fin (F : Sem) (s : Bool) (e : Int) (m : Nat) :
    Res.mag F (.fin s e m) = (m:ℚ) * F.ulp e := rfl

theorem Res.key_fin (F : Sem) (s : Bool) (e : Int) (m : Nat) :
    Res.key F (.fin s e m) = (((m:ℚ) * F.ulp e : ℚ) : WithTop ℚ) := rfl

theorem Res.abs_val (F : Sem) (r : Res) : |Res.val F r| = Res.mag F r := by
  cases r with
  | fin s e m =>
    have h : (0:ℚ) ≤ (m:ℚ) * (2:ℚ) ^ (e - ((F.p:Int) - 1)) := by positivity
    cases s
    · simp only [Res.val, Res.mag, pow2_eq, Bool.false_eq_true, if_false, one_mul]
      exact abs_of_nonneg h
    · simp only [Res.val, Res.mag, pow2_eq, if_true, neg_mul, one_mul, abs_neg]
      exact abs_of_nonneg h
  | _ => simp [Res.val, Res.mag]

theorem Res.val_fin (F : Sem) (s : Bool) (e : Int) (m : Nat) :
    Res.val F (.fin s e m) = (if s then -1 else 1) * ((m:ℚ) * F.ulp e) := by
  simp only [Res.val, pow2_eq, Sem.ulp_def, mul_assoc]

/-! ## Powers of two -/

theorem Sem.ulp_pos (F : Sem) (e : Int) : 0 < F.ulp e := by unfold Sem.ulp; positivity

theorem Sem.ulp_succ (F : Sem) (e : Int) : F.ulp (e + 1) = 2 * F.ulp e := by
  unfold Sem.ulp
  rw [show e + 1 - ((F.p:Int) - 1) = (e - ((F.p:Int) - 1)) + 1 by ring,
    zpow_add_one₀ (by norm_num : (2:ℚ) ≠ 0)]
  ring

theorem Sem.ulp_add (F : Sem) (e : Int) (k : Nat) : F.ulp (e + k) = (2:ℚ) ^ k * F.ulp e := by
  unfold Sem.ulp
  rw [← zpow_natCast, ← zpow_add₀ (by norm_num : (2:ℚ) ≠ 0)]; congr 1; ring

theorem Sem.ulp_mono (F : Sem) {e e' : Int} (h : e ≤ e') : F.ulp e ≤ F.ulp e' := by
  unfold Sem.ulp
  exact zpow_le_zpow_right₀ (by norm_num) (by omega)

/-- `2^p` ulps are the next power of two -/
theorem Sem.pow_mul_ulp (F : Sem) (e : Int) : (2:ℚ) ^ F.p * F.ulp e = (2:ℚ) ^ (e + 1) := by
  unfold Sem.ulp
  rw [← zpow_natCast, ← zpow_add₀ (by norm_num : (2:ℚ) ≠ 0)]; congr 1; ring

/-- `2^(p-1)` ulps are `2^e` -/
theorem Sem.half_pow_mul_ulp (F : Sem) (hp : 1 ≤ F.p) (e : Int) :
    (2:ℚ) ^ (F.p - 1) * F.ulp e = (2:ℚ) ^ e := by
  unfold Sem.ulp
  rw [← zpow_natCast, ← zpow_add₀ (by norm_num : (2:ℚ) ≠ 0)]; congr 1
  have : ((F.p - 1 : Nat) : Int) = (F.p:Int) - 1 := by omega
  rw [this]; ring

theorem two_pow_pred_sr {p : Nat} (hp : 1 ≤ p) : 2 ^ p = 2 * 2 ^ (p - 1) := by
  obtain ⟨k, rfl⟩ : ∃ k, p = k + 1 := ⟨p - 1, by omega⟩
  rw [Nat.pow_succ]; simp; ring

theorem maxFinite_eq (F : Sem) : maxFinite F = ((2:ℚ) ^ F.p - 1) * F.ulp F.emax := by
  unfold maxFinite
  have h1 : 1 ≤ 2 ^ F.p := Nat.one_le_two_pow
  rw [Nat.cast_sub h1]; push_cast; rfl

theorem maxFinite_lt_sr (F : Sem) : maxFinite F < (2:ℚ) ^ (F.emax + 1) := by
  rw [maxFinite_eq, ← F.pow_mul_ulp]
  have := F.ulp_pos F.emax
  nlinarith

/-! ## Representable magnitudes -/

theorem IsRep.zero {F : Sem} (hF : F.WF) : IsRep F 0 :=
  ⟨F.emin, 0, le_refl _, Sem.emin_le_emax hF, by positivity, Or.inr rfl, by simp⟩

theorem IsRep.nonneg {F : Sem} {y : ℚ} (h : IsRep F y) : 0 ≤ y := by
  obtain ⟨e, m, _, _, _, _, rfl⟩ := h; positivity

theorem IsRep.le_maxFinite {F : Sem} {y : ℚ} (h : IsRep F y) : y ≤ maxFinite F := by
  obtain ⟨e, m, _, he, hm, _, rfl⟩ := h
  rw [maxFinite_eq]
  have h1 : (m:ℚ) ≤ (2:ℚ) ^ F.p - 1 := by
    have : ((m + 1 : Nat) : ℚ) ≤ ((2 ^ F.p : Nat) : ℚ) := Nat.cast_le.mpr hm
    push_cast at this; linarith
  calc (m:ℚ) * (2:ℚ) ^ (e - ((F.p:Int) - 1)) ≤ ((2:ℚ) ^ F.p - 1) * F.ulp e :=
        mul_le_mul_of_nonneg_right h1 (le_of_lt (F.ulp_pos e))
    _ ≤ ((2:ℚ) ^ F.p - 1) * F.ulp F.emax := by
        apply mul_le_mul_of_nonneg_left (F.ulp_mono he)
        have : (0:ℚ) ≤ m := Nat.cast_nonneg m
        linarith

theorem maxFinite_isRep {F : Sem} (hF : F.WF) : IsRep F (maxFinite F) := by
  refine ⟨F.emax, 2 ^ F.p - 1, Sem.emin_le_emax hF, le_refl _, ?_, Or.inl ?_, rfl⟩
  · have : 1 ≤ 2 ^ F.p := Nat.one_le_two_pow
    omega
  · have := two_pow_pred_sr (show 1 ≤ F.p by have := hF.2; omega)
    have : 1 ≤ 2 ^ (F.p - 1) := Nat.one_le_two_pow
    omega

/-- **Gap lemma**: no representable magnitude lies strictly between `m·ulp e` and
    `(m+1)·ulp e` when `(e, m)` is canonical (normal, or at the minimum exponent). -/
theorem IsRep.gap {F : Sem} (hp : 1 ≤ F.p) {y : ℚ} (hy : IsRep F y) {e : Int} {m : Nat}
    (hn : 2 ^ (F.p - 1) ≤ m ∨ e = F.emin) :
    y ≤ (m:ℚ) * F.ulp e ∨ ((m:ℚ) + 1) * F.ulp e ≤ y := by
  obtain ⟨e', m', he1, _, hm', _, rfl⟩ := hy
  have hu := F.ulp_pos e
  by_cases h : e ≤ e'
  · obtain ⟨k, rfl⟩ : ∃ k : Nat, e' = e + k := ⟨(e' - e).toNat, by omega⟩
    have hy : (m':ℚ) * (2:ℚ) ^ (e + (k:Int) - ((F.p:Int) - 1)) = ((m' * 2 ^ k : Nat) : ℚ) * F.ulp e := by
      rw [← Sem.ulp_def, F.ulp_add]; push_cast; ring
    rw [hy]
    rcases Nat.lt_or_ge m (m' * 2 ^ k) with hlt | hge
    · right
      apply mul_le_mul_of_nonneg_right _ (le_of_lt hu)
      have : ((m + 1 : Nat) : ℚ) ≤ ((m' * 2 ^ k : Nat) : ℚ) := Nat.cast_le.mpr hlt
      push_cast at this ⊢; exact this
    · left
      apply mul_le_mul_of_nonneg_right _ (le_of_lt hu)
      exact Nat.cast_le.mpr hge
  · left
    have hm : 2 ^ (F.p - 1) ≤ m := by
      rcases hn with h1 | h1
      · exact h1
      · omega
    have hmq : (2:ℚ) ^ (F.p - 1) ≤ (m:ℚ) := by exact_mod_cast hm
    have hm'q : (m':ℚ) ≤ (2:ℚ) ^ F.p := by exact_mod_cast le_of_lt hm'
    calc (m':ℚ) * (2:ℚ) ^ (e' - ((F.p:Int) - 1)) ≤ (2:ℚ) ^ F.p * F.ulp e' :=
          mul_le_mul_of_nonneg_right hm'q (le_of_lt (F.ulp_pos e'))
      _ = (2:ℚ) ^ (e' + 1) := F.pow_mul_ulp e'
      _ ≤ (2:ℚ) ^ e := zpow_le_zpow_right₀ (by norm_num) (by omega)
      _ = (2:ℚ) ^ (F.p - 1) * F.ulp e := (F.half_pow_mul_ulp hp e).symm
      _ ≤ (m:ℚ) * F.ulp e := mul_le_mul_of_nonneg_right hmq (le_of_lt hu)

/-! ## The decomposition `q = (m + f)·ulp e` computed by `Spec.round` -/

/-- `(e, m, f)` is the canonical decomposition of the magnitude `q` in the format `F`:
    `q = (m + f)·ulp e`, `0 ≤ f < 1`, `e ≥ emin`, and `m` is a `p`-bit significand that is
    normal unless `e = emin`.  (No upper bound on `e`.) -/
structure Decomp (F : Sem) (q : ℚ) (e : Int) (m : Nat) (f : ℚ) : Prop where
  he : F.emin ≤ e
  hf0 : 0 ≤ f
  hf1 : f < 1
  hq : q = ((m:ℚ) + f) * F.ulp e
  hm : m < 2 ^ F.p
  hn : 2 ^ (F.p - 1) ≤ m ∨ e = F.emin

theorem Decomp.lo {F : Sem} {q : ℚ} {e : Int} {m : Nat} {f : ℚ} (d : Decomp F q e m f) :
    (m:ℚ) * F.ulp e ≤ q := by
  have := F.ulp_pos e; have := d.hf0; rw [d.hq]; nlinarith

theorem Decomp.hi {F : Sem} {q : ℚ} {e : Int} {m : Nat} {f : ℚ} (d : Decomp F q e m f) :
    q < ((m:ℚ) + 1) * F.ulp e := by
  have := F.ulp_pos e; have := d.hf1; rw [d.hq]; nlinarith

theorem Decomp.lt_pow {F : Sem} {q : ℚ} {e : Int} {m : Nat} {f : ℚ} (d : Decomp F q e m f) :
    q < (2:ℚ) ^ (e + 1) := by
  have h1 : (m:ℚ) + 1 ≤ (2:ℚ) ^ F.p := by exact_mod_cast d.hm
  calc q < ((m:ℚ) + 1) * F.ulp e := d.hi
    _ ≤ (2:ℚ) ^ F.p * F.ulp e := mul_le_mul_of_nonneg_right h1 (le_of_lt (F.ulp_pos e))
    _ = _ := F.pow_mul_ulp e

/-- the exponent of a decomposition is the clamped binary logarithm -/
theorem Decomp.exp_eq {F : Sem} {q : ℚ} {e : Int} {m : Nat} {f : ℚ} (d : Decomp F q e m f)
    (hp : 1 ≤ F.p) (hq : 0 < q) : max (ilog2 q) F.emin = e := by
  have two : (1:ℚ) < 2 := by norm_num
  by_cases hm : 2 ^ (F.p - 1) ≤ m
  · have hmq : (2:ℚ) ^ (F.p - 1) ≤ (m:ℚ) := by exact_mod_cast hm
    have : ilog2 q = e := by
      apply ilog2_unique hq _ d.lt_pow
      calc (2:ℚ) ^ e = (2:ℚ) ^ (F.p - 1) * F.ulp e := (F.half_pow_mul_ulp hp e).symm
        _ ≤ (m:ℚ) * F.ulp e := mul_le_mul_of_nonneg_right hmq (le_of_lt (F.ulp_pos e))
        _ ≤ q := d.lo
    have := d.he
    omega
  · have he : e = F.emin := by
      rcases d.hn with h | h
      · exact absurd h hm
      · exact h
    have hm1 : (m:ℚ) + 1 ≤ (2:ℚ) ^ (F.p - 1) := by
      have : m + 1 ≤ 2 ^ (F.p - 1) := by omega
      exact_mod_cast this
    have hlt : q < (2:ℚ) ^ e :=
      calc q < ((m:ℚ) + 1) * F.ulp e := d.hi
        _ ≤ (2:ℚ) ^ (F.p - 1) * F.ulp e := mul_le_mul_of_nonneg_right hm1 (le_of_lt (F.ulp_pos e))
        _ = _ := F.half_pow_mul_ulp hp e
    have h2 : (2:ℚ) ^ (ilog2 q) < (2:ℚ) ^ e := lt_of_le_of_lt (ilog2_spec hq).1 hlt
    have : ilog2 q < e := (zpow_lt_zpow_iff_right₀ two).mp h2
    omega

/-- the significand and the fraction of a decomposition are the ones `Spec.round` computes -/
theorem Decomp.floor_eq {F : Sem} {q : ℚ} {e : Int} {m : Nat} {f : ℚ} (d : Decomp F q e m f) :
    (q / pow2 (e - (F.p - 1))).floor.toNat = m ∧ q / pow2 (e - (F.p - 1)) - (m:ℚ) = f := by
  have hu := F.ulp_pos e
  have ht : q / pow2 (e - (F.p - 1)) = (m:ℚ) + f := by
    rw [pow2_eq, ← Sem.ulp_def, d.hq]; field_simp
  rw [ht]
  constructor
  · have : ⌊(m:ℚ) + f⌋ = (m:Int) := by
      rw [Int.floor_eq_iff]; push_cast; constructor <;> [linarith [d.hf0]; linarith [d.hf1]]
    rw [show ((m:ℚ) + f).floor = ⌊(m:ℚ) + f⌋ from rfl, this]
    exact Int.toNat_natCast _
  · ring

/-- `Spec.round` is `Spec.finish` on the decomposition -/
theorem Decomp.round_eq {F : Sem} {q : ℚ} {e : Int} {m : Nat} {f : ℚ} (d : Decomp F q e m f)
    (hp : 1 ≤ F.p) (hq : 0 < q) (rm : RM) (neg : Bool) :
    Spec.round F rm neg q = Spec.finish F rm neg e m (Spec.up rm neg m f) := by
  unfold Spec.round
  simp only [d.exp_eq hp hq, d.floor_eq.1, d.floor_eq.2]

/-- existence of the decomposition -/
theorem exists_decomp {F : Sem} (hp : 1 ≤ F.p) {q : ℚ} (hq : 0 < q) :
    ∃ (e : Int) (m : Nat) (f : ℚ), Decomp F q e m f := by
  obtain ⟨hl1, hl2⟩ := ilog2_spec hq
  set e := max (ilog2 q) F.emin with he
  have hu := F.ulp_pos e
  set t := q / F.ulp e with ht
  have htpos : 0 < t := div_pos hq hu
  have hfl0 : 0 ≤ ⌊t⌋ := Int.floor_nonneg.mpr (le_of_lt htpos)
  obtain ⟨m, hm⟩ : ∃ m : Nat, ⌊t⌋ = (m:Int) := ⟨⌊t⌋.toNat, by omega⟩
  have hmt : (m:ℚ) ≤ t := by have := Int.floor_le t; rw [hm] at this; exact_mod_cast this
  have htm : t < (m:ℚ) + 1 := by have := Int.lt_floor_add_one t; rw [hm] at this; exact_mod_cast this
  have hqt : q = t * F.ulp e := by rw [ht]; field_simp
  have hlt : t < (2:ℚ) ^ F.p := by
    rw [ht, div_lt_iff₀ hu, F.pow_mul_ulp]
    exact lt_of_lt_of_le hl2 (zpow_le_zpow_right₀ (by norm_num) (by omega))
  refine ⟨e, m, t - m, ⟨le_max_right _ _, by linarith, by linarith, by rw [hqt]; ring, ?_, ?_⟩⟩
  · have : (m:ℚ) < (2:ℚ) ^ F.p := lt_of_le_of_lt hmt hlt
    exact_mod_cast this
  · by_cases h : F.emin ≤ ilog2 q
    · left
      have hee : e = ilog2 q := by omega
      have h2 : (2:ℚ) ^ (F.p - 1) ≤ t := by
        rw [ht, le_div_iff₀ hu, F.half_pow_mul_ulp hp, hee]; exact hl1
      have h3 : ((2 ^ (F.p - 1) : Nat) : Int) ≤ ⌊t⌋ := by
        rw [Int.le_floor]; push_cast; exact h2
      rw [hm] at h3; exact_mod_cast h3
    · right; omega

/-- a representable positive magnitude is its own decomposition -/
theorem IsRep.decomp {F : Sem} {q : ℚ} (h : IsRep F q) :
    ∃ (e : Int) (m : Nat), e ≤ F.emax ∧ Decomp F q e m 0 := by
  obtain ⟨e, m, he1, he2, hm, hn, rfl⟩ := h
  exact ⟨e, m, he2, he1, le_refl _, by norm_num, by rw [add_zero]; rfl, hm, hn⟩

/-! ## `Spec.up` per mode class -/

theorem up_trunc {rm : RM} {neg : Bool} (h : rm.truncFor neg) (m : Nat) (f : ℚ) :
    Spec.up rm neg m f = false := by
  unfold Spec.up
  rcases h with h | h | ⟨h, h'⟩ | ⟨h, h'⟩ <;> subst h <;> try subst h'
  all_goals simp

theorem up_away {rm : RM} {neg : Bool} (h : rm.awayFor neg) (m : Nat) (f : ℚ) :
    Spec.up rm neg m f = true ↔ f ≠ 0 := by
  unfold Spec.up
  rcases h with ⟨h, h'⟩ | ⟨h, h'⟩ <;> subst h <;> subst h'
  all_goals simp

theorem up_nta (neg : Bool) (m : Nat) {f : ℚ} :
    Spec.up .nta neg m f = true ↔ 1/2 ≤ f := by
  show (decide (f ≠ 0) && decide (1/2 ≤ f)) = true ↔ _
  by_cases h : 1/2 ≤ f
  · have hf : f ≠ 0 := by intro h0; rw [h0] at h; norm_num at h
    rw [decide_eq_true h, decide_eq_true hf]
    exact ⟨fun _ => h, fun _ => rfl⟩
  · rw [decide_eq_false h, Bool.and_false]
    exact ⟨fun h' => absurd h' (by decide), fun h' => absurd h' h⟩

theorem up_nte (neg : Bool) (m : Nat) {f : ℚ} :
    Spec.up .nte neg m f = true ↔ (1/2 < f ∨ (f = 1/2 ∧ m % 2 = 1)) := by
  show (decide (f ≠ 0) && (decide (1/2 < f) || (decide (f = 1/2) && m % 2 == 1))) = true ↔ _
  by_cases hf : f = 0
  · subst hf
    rw [decide_eq_false (by simp : ¬ ((0:ℚ) ≠ 0)), Bool.false_and]
    constructor
    · intro h; exact absurd h Bool.false_ne_true
    · rintro (h | ⟨h, _⟩) <;> norm_num at h
  · rw [decide_eq_true hf, Bool.true_and]
    by_cases h1 : 1/2 < f
    · rw [decide_eq_true h1, Bool.true_or]
      exact ⟨fun _ => Or.inl h1, fun _ => rfl⟩
    · rw [decide_eq_false h1, Bool.false_or]
      by_cases h2 : f = 1/2
      · rw [decide_eq_true h2, Bool.true_and]
        constructor
        · intro h; right; exact ⟨h2, by simpa using h⟩
        · rintro (h | ⟨_, h⟩)
          · exact absurd h h1
          · simpa using h
      · rw [decide_eq_false h2, Bool.false_and]
        constructor
        · intro h; exact absurd h Bool.false_ne_true
        · rintro (h | ⟨h, _⟩)
          · exact absurd h h1
          · exact absurd h h2

/-! ## `Spec.finish` -/

/-- the overflow branch of `Spec.finish` is taken -/
def Ovf (F : Sem) (e : Int) (m : Nat) (up : Bool) : Prop :=
  F.emax < e ∨ (e = F.emax ∧ m + 1 = 2 ^ F.p ∧ up = true)

theorem finish_of_ovf {F : Sem} (rm : RM) (neg : Bool) {e : Int} {m : Nat} {up : Bool}
    (h : Ovf F e m up) : Spec.finish F rm neg e m up = Spec.overflow F rm neg := by
  rcases h with h | ⟨h1, h2, h3⟩
  · exact finish_overflow F rm neg e m up h
  · subst h3
    unfold Spec.finish
    simp only [if_true]
    rw [if_pos h2, if_pos (by omega)]

/-- outside the overflow branch the result is the zero or the canonical finite number with
    magnitude `m'·ulp e`, `m'` the incremented-or-not significand -/
theorem finish_of_not_ovf {F : Sem} (hp : 2 ≤ F.p) (rm : RM) (neg : Bool) {e : Int} {m : Nat}
    {up : Bool} (he : F.emin ≤ e) (hm : m < 2 ^ F.p) (hn : 2 ^ (F.p - 1) ≤ m ∨ e = F.emin)
    (h : ¬ Ovf F e m up) (m' : Nat) (hm' : m' = if up then m + 1 else m) :
    (m' = 0 ∧ Spec.finish F rm neg e m up = .zero neg) ∨
    ∃ (e'' : Int) (m'' : Nat), Spec.finish F rm neg e m up = .fin neg e'' m'' ∧
      F.emin ≤ e'' ∧ e'' ≤ F.emax ∧ 0 < m'' ∧ m'' < 2 ^ F.p ∧
      (2 ^ (F.p - 1) ≤ m'' ∨ e'' = F.emin) ∧
      (m'':ℚ) * F.ulp e'' = (m':ℚ) * F.ulp e ∧ e ≤ e'' ∧ m'' % 2 = m' % 2 ∧
      (m' ≠ 2 ^ F.p → e'' = e ∧ m'' = m') := by
  have hle : e ≤ F.emax := by
    by_contra hc; exact h (Or.inl (by omega))
  have h2p := two_pow_pred_sr (show 1 ≤ F.p by omega)
  have hpp : 1 ≤ 2 ^ (F.p - 1) := Nat.one_le_two_pow
  have hml : m ≤ m' := by rw [hm']; split <;> omega
  unfold Spec.finish
  simp only [← hm']
  by_cases hc : m' = 2 ^ F.p
  · right
    have hup : up = true := by
      cases up
      · simp at hm'; omega
      · rfl
    have hm1 : m + 1 = 2 ^ F.p := by rw [hup] at hm'; simp at hm'; omega
    have hlt : e < F.emax := by
      rcases lt_or_eq_of_le hle with h' | h'
      · exact h'
      · exact absurd (Or.inr ⟨h', hm1, hup⟩) h
    rw [if_pos hc, if_neg (by omega)]
    refine ⟨e + 1, 2 ^ (F.p - 1), rfl, by omega, by omega, by omega, by omega, Or.inl (le_refl _), ?_,
      by omega, ?_, fun hne => absurd hc hne⟩
    · rw [F.ulp_succ, hc, h2p]; push_cast; ring
    · rw [hc]
      obtain ⟨k, hk⟩ : ∃ k, F.p = k + 2 := ⟨F.p - 2, by omega⟩
      rw [hk, show k + 2 - 1 = k + 1 by omega, Nat.pow_succ, Nat.pow_succ, Nat.pow_succ]
      omega
  · rw [if_neg hc, if_neg (by omega)]
    by_cases h0 : m' = 0
    · left; rw [if_pos h0]; exact ⟨h0, rfl⟩
    · right
      rw [if_neg h0]
      have hlt : m' < 2 ^ F.p := by
        have : m' ≤ m + 1 := by rw [hm']; split <;> omega
        omega
      refine ⟨e, m', rfl, he, hle, by omega, hlt, ?_, rfl, le_refl _, rfl, fun _ => ⟨rfl, rfl⟩⟩
      rcases hn with h' | h'
      · left; omega
      · right; exact h'

instance (rm : RM) (neg : Bool) : Decidable (rm.awayFor neg) := by
  unfold RM.awayFor; infer_instance

instance (rm : RM) (neg : Bool) : Decidable (rm.truncFor neg) := by
  unfold RM.truncFor; infer_instance

theorem overflow_table (F : Sem) (rm : RM) (neg : Bool) :
    Spec.overflow F rm neg =
      if rm = .none ∨ rm = .nte ∨ rm = .nta ∨ rm.awayFor neg then Res.inf neg
      else Res.fin neg F.emax (2 ^ F.p - 1) := by
  cases rm <;> cases neg <;> simp [Spec.overflow, RM.awayFor]

theorem overflow_inf_iff (F : Sem) (rm : RM) (neg s : Bool) :
    Spec.overflow F rm neg = .inf s ↔
      s = neg ∧ (rm = .none ∨ rm = .nte ∨ rm = .nta ∨ rm.awayFor neg) := by
  cases rm <;> cases neg <;> cases s <;> simp [Spec.overflow, RM.awayFor]

theorem mode_cases (rm : RM) (neg : Bool) :
    rm.truncFor neg ∨ rm.awayFor neg ∨ rm = .nte ∨ rm = .nta := by
  cases rm <;> cases neg <;> simp [RM.truncFor, RM.awayFor]

/-! ## `Spec.round` through the decomposition -/

theorem Decomp.round_ovf {F : Sem} {q : ℚ} {e : Int} {m : Nat} {f : ℚ} (d : Decomp F q e m f)
    (hF : F.WF) (hq : 0 < q) (rm : RM) (neg : Bool) (h : Ovf F e m (Spec.up rm neg m f)) :
    Spec.round F rm neg q = Spec.overflow F rm neg := by
  rw [d.round_eq (by have := hF.2; omega) hq]; exact finish_of_ovf rm neg h

theorem Decomp.round_not_ovf {F : Sem} {q : ℚ} {e : Int} {m : Nat} {f : ℚ} (d : Decomp F q e m f)
    (hF : F.WF) (hq : 0 < q) (rm : RM) (neg : Bool) (h : ¬ Ovf F e m (Spec.up rm neg m f))
    (m' : Nat) (hm' : m' = if Spec.up rm neg m f then m + 1 else m) :
    (m' = 0 ∧ Spec.round F rm neg q = .zero neg) ∨
    ∃ (e'' : Int) (m'' : Nat), Spec.round F rm neg q = .fin neg e'' m'' ∧
      F.emin ≤ e'' ∧ e'' ≤ F.emax ∧ 0 < m'' ∧ m'' < 2 ^ F.p ∧
      (2 ^ (F.p - 1) ≤ m'' ∨ e'' = F.emin) ∧
      (m'':ℚ) * F.ulp e'' = (m':ℚ) * F.ulp e ∧ e ≤ e'' ∧ m'' % 2 = m' % 2 ∧
      (m' ≠ 2 ^ F.p → e'' = e ∧ m'' = m') := by
  rw [d.round_eq (by have := hF.2; omega) hq]
  exact finish_of_not_ovf hF.2 rm neg d.he d.hm d.hn h m' hm'

/-- outside the overflow branch: finite, with magnitude `m'·ulp e` -/
theorem Decomp.round_not_ovf_mag {F : Sem} {q : ℚ} {e : Int} {m : Nat} {f : ℚ}
    (d : Decomp F q e m f) (hF : F.WF) (hq : 0 < q) (rm : RM) (neg : Bool)
    (h : ¬ Ovf F e m (Spec.up rm neg m f))
    (m' : Nat) (hm' : m' = if Spec.up rm neg m f then m + 1 else m) :
    (Spec.round F rm neg q).IsFinite ∧ (Spec.round F rm neg q).mag F = (m':ℚ) * F.ulp e ∧
      (Spec.round F rm neg q).mant % 2 = m' % 2 := by
  rcases d.round_not_ovf hF hq rm neg h m' hm' with ⟨h0, hr⟩ | ⟨e'', m'', hr, _, _, _, _, _, hv, _, hpar, _⟩
  · rw [hr, h0]; simp [Res.IsFinite, Res.mag, Res.mant]
  · rw [hr]; exact ⟨trivial, hv, hpar⟩

/-! ## Overflow thresholds -/

/-- overflow threshold of the nearest modes: half an ulp above the largest finite magnitude -/
def nearThreshold (F : Sem) : ℚ := maxFinite F + (2:ℚ) ^ (F.emax - (F.p:Int))

theorem half_ulp (F : Sem) (e : Int) : (2:ℚ) ^ (e - (F.p:Int)) = F.ulp e / 2 := by
  have := F.ulp_succ (e - 1)
  rw [show e - 1 + 1 = e by ring] at this
  rw [this]; unfold Sem.ulp
  rw [show e - 1 - ((F.p:Int) - 1) = e - (F.p:Int) by ring]; ring

theorem nearThreshold_eq (F : Sem) : nearThreshold F = ((2:ℚ) ^ F.p - 1 + 1/2) * F.ulp F.emax := by
  unfold nearThreshold; rw [half_ulp, maxFinite_eq]; ring

/-- `(2 - 2^(-p))·2^emax` -/
theorem nearThreshold_eq' (F : Sem) :
    nearThreshold F = (2 - (2:ℚ) ^ (-(F.p:Int))) * (2:ℚ) ^ F.emax := by
  rw [nearThreshold_eq]
  have h1 : (2:ℚ) ^ F.emax = (2:ℚ) ^ F.p * F.ulp F.emax / 2 := by
    rw [F.pow_mul_ulp, zpow_add_one₀ (by norm_num : (2:ℚ) ≠ 0)]; ring
  have h2 : (2:ℚ) ^ (-(F.p:Int)) * (2:ℚ) ^ F.p = 1 := by
    rw [← zpow_natCast, ← zpow_add₀ (by norm_num : (2:ℚ) ≠ 0)]; simp
  rw [h1]
  linear_combination (F.ulp F.emax / 2) * h2

theorem pow_emax_le_maxFinite {F : Sem} (hp : 1 ≤ F.p) : (2:ℚ) ^ F.emax ≤ maxFinite F := by
  rw [maxFinite_eq, ← F.half_pow_mul_ulp hp]
  apply mul_le_mul_of_nonneg_right _ (le_of_lt (F.ulp_pos _))
  have h2p := two_pow_pred_sr hp
  have hpp : 1 ≤ 2 ^ (F.p - 1) := Nat.one_le_two_pow
  have : 2 ^ (F.p - 1) + 1 ≤ 2 ^ F.p := by omega
  have : (((2 ^ (F.p - 1) + 1 : Nat)) : ℚ) ≤ ((2 ^ F.p : Nat) : ℚ) := Nat.cast_le.mpr this
  push_cast at this; linarith

theorem maxFinite_lt_nearThreshold (F : Sem) : maxFinite F < nearThreshold F := by
  unfold nearThreshold; have : (0:ℚ) < (2:ℚ) ^ (F.emax - (F.p:Int)) := by positivity
  linarith

theorem nearThreshold_lt (F : Sem) : nearThreshold F < (2:ℚ) ^ (F.emax + 1) := by
  rw [nearThreshold_eq, ← F.pow_mul_ulp]
  have := F.ulp_pos F.emax
  nlinarith

/-- exponent overflow ⇔ `q ≥ 2^(emax+1)` -/
theorem Decomp.emax_lt_iff {F : Sem} {q : ℚ} {e : Int} {m : Nat} {f : ℚ} (d : Decomp F q e m f)
    (hF : F.WF) : F.emax < e ↔ (2:ℚ) ^ (F.emax + 1) ≤ q := by
  have hp : 1 ≤ F.p := by have := hF.2; omega
  constructor
  · intro h
    have hm : 2 ^ (F.p - 1) ≤ m := by
      rcases d.hn with h1 | h1
      · exact h1
      · have := Sem.emin_le_emax hF; omega
    have hmq : (2:ℚ) ^ (F.p - 1) ≤ (m:ℚ) := by exact_mod_cast hm
    calc (2:ℚ) ^ (F.emax + 1) ≤ (2:ℚ) ^ e := zpow_le_zpow_right₀ (by norm_num) (by omega)
      _ = (2:ℚ) ^ (F.p - 1) * F.ulp e := (F.half_pow_mul_ulp hp e).symm
      _ ≤ (m:ℚ) * F.ulp e := mul_le_mul_of_nonneg_right hmq (le_of_lt (F.ulp_pos e))
      _ ≤ q := d.lo
  · intro h
    have : (2:ℚ) ^ (F.emax + 1) < (2:ℚ) ^ (e + 1) := lt_of_le_of_lt h d.lt_pow
    have := (zpow_lt_zpow_iff_right₀ (by norm_num : (1:ℚ) < 2)).mp this
    omega

/-- below `emax` everything is below `2^emax` -/
theorem Decomp.lt_pow_emax {F : Sem} {q : ℚ} {e : Int} {m : Nat} {f : ℚ} (d : Decomp F q e m f)
    (h : e < F.emax) : q < (2:ℚ) ^ F.emax :=
  lt_of_lt_of_le d.lt_pow (zpow_le_zpow_right₀ (by norm_num) (by omega))

/-- at `e = emax`: comparison of `q` with `(2^p - 1 + c)·ulp emax`, `0 ≤ c < 1` -/
theorem Decomp.top_binade {F : Sem} {q : ℚ} {m : Nat} {f : ℚ} (d : Decomp F q F.emax m f)
    {c : ℚ} (hc0 : 0 ≤ c) :
    (((2:ℚ) ^ F.p - 1 + c) * F.ulp F.emax ≤ q ↔ (m + 1 = 2 ^ F.p ∧ c ≤ f)) ∧
    (((2:ℚ) ^ F.p - 1 + c) * F.ulp F.emax < q ↔ (m + 1 = 2 ^ F.p ∧ c < f)) := by
  have hu := F.ulp_pos F.emax
  have hf0 := d.hf0
  have hf1 := d.hf1
  have key : ∀ x : ℚ, (2:ℚ) ^ F.p - 1 + c ≤ x → x < (m:ℚ) + 1 → m + 1 = 2 ^ F.p := by
    intro x h1 h2
    have h3 : (2:ℚ) ^ F.p < (m:ℚ) + 2 := by linarith
    have h4 : 2 ^ F.p < m + 2 := by exact_mod_cast h3
    have := d.hm
    omega
  have cast : m + 1 = 2 ^ F.p → (m:ℚ) = (2:ℚ) ^ F.p - 1 := by
    intro h
    have : ((m + 1 : Nat) : ℚ) = ((2 ^ F.p : Nat) : ℚ) := by rw [h]
    push_cast at this; linarith
  rw [d.hq]
  constructor
  · constructor
    · intro h
      have h' := le_of_mul_le_mul_right h hu
      have hm := key _ h' (by linarith)
      refine ⟨hm, ?_⟩
      rw [cast hm] at h'; linarith
    · rintro ⟨hm, hcf⟩
      apply mul_le_mul_of_nonneg_right _ (le_of_lt hu)
      rw [cast hm]; linarith
  · constructor
    · intro h
      have h' := lt_of_mul_lt_mul_right h (le_of_lt hu)
      have hm := key _ (le_of_lt h') (by linarith)
      refine ⟨hm, ?_⟩
      rw [cast hm] at h'; linarith
    · rintro ⟨hm, hcf⟩
      apply mul_lt_mul_of_pos_right _ hu
      rw [cast hm]; linarith

/-- generic threshold lemma: for a threshold `(2^p - 1 + c)·ulp emax`, `0 ≤ c < 1` -/
theorem Decomp.thr_iff {F : Sem} {q : ℚ} {e : Int} {m : Nat} {f : ℚ} (d : Decomp F q e m f)
    (hF : F.WF) {c : ℚ} (hc0 : 0 ≤ c) (hc1 : c < 1) :
    (((2:ℚ) ^ F.p - 1 + c) * F.ulp F.emax ≤ q ↔
        (F.emax < e ∨ (e = F.emax ∧ m + 1 = 2 ^ F.p ∧ c ≤ f))) ∧
    (((2:ℚ) ^ F.p - 1 + c) * F.ulp F.emax < q ↔
        (F.emax < e ∨ (e = F.emax ∧ m + 1 = 2 ^ F.p ∧ c < f))) := by
  have hp : 1 ≤ F.p := by have := hF.2; omega
  have hu := F.ulp_pos F.emax
  have hthr_lt : ((2:ℚ) ^ F.p - 1 + c) * F.ulp F.emax < (2:ℚ) ^ (F.emax + 1) := by
    rw [← F.pow_mul_ulp]; nlinarith
  have hthr_ge : (2:ℚ) ^ F.emax ≤ ((2:ℚ) ^ F.p - 1 + c) * F.ulp F.emax := by
    have := pow_emax_le_maxFinite hp (F := F)
    rw [maxFinite_eq] at this
    nlinarith
  rcases lt_trichotomy e F.emax with h | h | h
  · have := d.lt_pow_emax h
    constructor
    · constructor
      · intro h'; linarith
      · rintro (h' | ⟨h', _⟩) <;> omega
    · constructor
      · intro h'; linarith
      · rintro (h' | ⟨h', _⟩) <;> omega
  · subst h
    obtain ⟨t1, t2⟩ := d.top_binade hc0
    constructor
    · rw [t1]; constructor
      · intro h'; exact Or.inr ⟨rfl, h'⟩
      · rintro (h' | ⟨_, h'⟩)
        · omega
        · exact h'
    · rw [t2]; constructor
      · intro h'; exact Or.inr ⟨rfl, h'⟩
      · rintro (h' | ⟨_, h'⟩)
        · omega
        · exact h'
  · have := (d.emax_lt_iff hF).mp h
    constructor
    · constructor
      · intro _; exact Or.inl h
      · intro _; linarith
    · constructor
      · intro _; exact Or.inl h
      · intro _; linarith

theorem Decomp.maxFinite_le_iff {F : Sem} {q : ℚ} {e : Int} {m : Nat} {f : ℚ}
    (d : Decomp F q e m f) (hF : F.WF) :
    maxFinite F ≤ q ↔ (F.emax < e ∨ (e = F.emax ∧ m + 1 = 2 ^ F.p)) := by
  have := (d.thr_iff hF (le_refl 0) (by norm_num)).1
  rw [add_zero, ← maxFinite_eq] at this
  rw [this]
  have := d.hf0
  tauto

theorem Decomp.maxFinite_lt_iff {F : Sem} {q : ℚ} {e : Int} {m : Nat} {f : ℚ}
    (d : Decomp F q e m f) (hF : F.WF) :
    maxFinite F < q ↔ (F.emax < e ∨ (e = F.emax ∧ m + 1 = 2 ^ F.p ∧ 0 < f)) := by
  have := (d.thr_iff hF (le_refl 0) (by norm_num)).2
  rw [add_zero, ← maxFinite_eq] at this
  exact this

theorem Decomp.nearThreshold_le_iff {F : Sem} {q : ℚ} {e : Int} {m : Nat} {f : ℚ}
    (d : Decomp F q e m f) (hF : F.WF) :
    nearThreshold F ≤ q ↔ (F.emax < e ∨ (e = F.emax ∧ m + 1 = 2 ^ F.p ∧ 1/2 ≤ f)) := by
  have := (d.thr_iff hF (by norm_num : (0:ℚ) ≤ 1/2) (by norm_num)).1
  rw [← nearThreshold_eq] at this
  exact this

/-! ## `Ovf` per mode class, as a condition on `q` -/

theorem Decomp.ovf_trunc {F : Sem} {q : ℚ} {e : Int} {m : Nat} {f : ℚ} (d : Decomp F q e m f)
    (hF : F.WF) {rm : RM} {neg : Bool} (h : rm.truncFor neg) :
    Ovf F e m (Spec.up rm neg m f) ↔ (2:ℚ) ^ (F.emax + 1) ≤ q := by
  rw [← d.emax_lt_iff hF, up_trunc h]
  unfold Ovf; simp

theorem Decomp.ovf_away {F : Sem} {q : ℚ} {e : Int} {m : Nat} {f : ℚ} (d : Decomp F q e m f)
    (hF : F.WF) {rm : RM} {neg : Bool} (h : rm.awayFor neg) :
    Ovf F e m (Spec.up rm neg m f) ↔ maxFinite F < q := by
  rw [d.maxFinite_lt_iff hF]
  unfold Ovf
  rw [up_away h]
  have := d.hf0
  have : f ≠ 0 ↔ 0 < f := ⟨fun h => lt_of_le_of_ne this (Ne.symm h), fun h => ne_of_gt h⟩
  rw [this]

theorem Decomp.ovf_nta {F : Sem} {q : ℚ} {e : Int} {m : Nat} {f : ℚ} (d : Decomp F q e m f)
    (hF : F.WF) (neg : Bool) :
    Ovf F e m (Spec.up .nta neg m f) ↔ nearThreshold F ≤ q := by
  rw [d.nearThreshold_le_iff hF]
  unfold Ovf
  rw [up_nta]

theorem Decomp.ovf_nte {F : Sem} {q : ℚ} {e : Int} {m : Nat} {f : ℚ} (d : Decomp F q e m f)
    (hF : F.WF) (neg : Bool) :
    Ovf F e m (Spec.up .nte neg m f) ↔ nearThreshold F ≤ q := by
  rw [d.nearThreshold_le_iff hF]
  unfold Ovf
  rw [up_nte]
  have h2p := two_pow_pred_sr (show 1 ≤ F.p by have := hF.2; omega)
  constructor
  · rintro (h | ⟨h1, h2, h3⟩)
    · exact Or.inl h
    · refine Or.inr ⟨h1, h2, ?_⟩
      rcases h3 with h3 | ⟨h3, _⟩
      · exact le_of_lt h3
      · exact le_of_eq h3.symm
  · rintro (h | ⟨h1, h2, h3⟩)
    · exact Or.inl h
    · refine Or.inr ⟨h1, h2, ?_⟩
      rcases lt_or_eq_of_le h3 with h4 | h4
      · exact Or.inl h4
      · exact Or.inr ⟨h4.symm, by omega⟩

theorem RM.truncFor_not_away {rm : RM} {neg : Bool} (h : rm.truncFor neg) : ¬ rm.awayFor neg := by
  cases rm <;> cases neg <;> simp_all [RM.truncFor, RM.awayFor]

theorem RM.truncFor_not_nearest {rm : RM} {neg : Bool} (h : rm.truncFor neg) :
    ¬ (rm = .nte ∨ rm = .nta) := by
  cases rm <;> cases neg <;> simp_all [RM.truncFor]

theorem RM.awayFor_not_nearest {rm : RM} {neg : Bool} (h : rm.awayFor neg) :
    ¬ (rm = .nte ∨ rm = .nta) := by
  cases rm <;> cases neg <;> simp_all [RM.awayFor]

/-- the overflow branch is taken iff `q` is at/above the threshold of the mode class -/
theorem Decomp.ovf_iff {F : Sem} {q : ℚ} {e : Int} {m : Nat} {f : ℚ} (d : Decomp F q e m f)
    (hF : F.WF) (rm : RM) (neg : Bool) :
    Ovf F e m (Spec.up rm neg m f) ↔
      ((rm.truncFor neg ∧ (2:ℚ) ^ (F.emax + 1) ≤ q) ∨ (rm.awayFor neg ∧ maxFinite F < q) ∨
        ((rm = .nte ∨ rm = .nta) ∧ nearThreshold F ≤ q)) := by
  rcases mode_cases rm neg with h | h | h | h
  · rw [d.ovf_trunc hF h]
    have := RM.truncFor_not_away h; have := RM.truncFor_not_nearest h; tauto
  · rw [d.ovf_away hF h]
    have := RM.truncFor_not_away (rm := rm) (neg := neg); have := RM.awayFor_not_nearest h; tauto
  · subst h; rw [d.ovf_nte hF]
    have := RM.truncFor_not_nearest (rm := .nte) (neg := neg)
    have := RM.awayFor_not_nearest (rm := .nte) (neg := neg); tauto
  · subst h; rw [d.ovf_nta hF]
    have := RM.truncFor_not_nearest (rm := .nta) (neg := neg)
    have := RM.awayFor_not_nearest (rm := .nta) (neg := neg); tauto

theorem Res.IsFinite.ne_inf {r : Res} (h : r.IsFinite) (s : Bool) : r ≠ .inf s := by
  intro h'; rw [h'] at h; exact h

/-- `Spec.round` returns an infinity iff the overflow branch is taken and the table says so -/
theorem Decomp.round_eq_inf_iff {F : Sem} {q : ℚ} {e : Int} {m : Nat} {f : ℚ}
    (d : Decomp F q e m f) (hF : F.WF) (hq : 0 < q) (rm : RM) (neg s : Bool) :
    Spec.round F rm neg q = .inf s ↔
      (Ovf F e m (Spec.up rm neg m f) ∧ s = neg ∧
        (rm = .none ∨ rm = .nte ∨ rm = .nta ∨ rm.awayFor neg)) := by
  by_cases h : Ovf F e m (Spec.up rm neg m f)
  · rw [d.round_ovf hF hq rm neg h, overflow_inf_iff]; tauto
  · have := (d.round_not_ovf_mag hF hq rm neg h _ rfl).1.ne_inf s
    tauto

/-! ## The rounding error outside the overflow branch -/

theorem up_true_ne_zero {rm : RM} {neg : Bool} {m : Nat} {f : ℚ} (h : Spec.up rm neg m f = true) :
    f ≠ 0 := by
  unfold Spec.up at h
  rw [Bool.and_eq_true] at h
  exact of_decide_eq_true h.1

theorem up_nearest_true {rm : RM} (hrm : rm = .nte ∨ rm = .nta) {neg : Bool} {m : Nat} {f : ℚ}
    (h : Spec.up rm neg m f = true) : 1/2 ≤ f := by
  rcases hrm with rfl | rfl
  · rcases (up_nte neg m).mp h with h | ⟨h, _⟩
    · exact le_of_lt h
    · exact le_of_eq h.symm
  · exact (up_nta neg m).mp h

theorem up_nearest_false {rm : RM} (hrm : rm = .nte ∨ rm = .nta) {neg : Bool} {m : Nat} {f : ℚ}
    (h : Spec.up rm neg m f = false) : f ≤ 1/2 := by
  by_contra hc
  have hc : 1/2 < f := not_le.mp hc
  have : Spec.up rm neg m f = true := by
    rcases hrm with rfl | rfl
    · exact (up_nte neg m).mpr (Or.inl hc)
    · exact (up_nta neg m).mpr (le_of_lt hc)
  rw [h] at this; exact absurd this (by decide)

/-- signed error of the rounded magnitude `m'·ulp e`: `-f` or `1-f` ulps -/
theorem Decomp.err {F : Sem} {q : ℚ} {e : Int} {m : Nat} {f : ℚ} (d : Decomp F q e m f)
    (up : Bool) (m' : Nat) (hm' : m' = if up then m + 1 else m) :
    (m':ℚ) * F.ulp e - q = (if up then 1 - f else -f) * F.ulp e := by
  rw [hm', d.hq]; cases up <;> simp <;> ring

theorem Res.IsFinite.cases {r : Res} (h : r.IsFinite) :
    (∃ s, r = .zero s) ∨ ∃ s e m, r = .fin s e m := by
  cases r with
  | zero s => exact Or.inl ⟨s, rfl⟩
  | fin s e m => exact Or.inr ⟨s, e, m, rfl⟩
  | inf s => exact absurd h id
  | nan => exact absurd h id

theorem Res.IsFinite.key_eq {F : Sem} {r : Res} (h : r.IsFinite) :
    r.key F = ((r.mag F : ℚ) : WithTop ℚ) := by
  cases r with
  | zero s => rfl
  | fin s e m => rfl
  | inf s => exact absurd h id
  | nan => exact absurd h id

/-- the decomposition is unique -/
theorem Decomp.unique {F : Sem} {q : ℚ} {e1 e2 : Int} {m1 m2 : Nat} {f1 f2 : ℚ}
    (d1 : Decomp F q e1 m1 f1) (d2 : Decomp F q e2 m2 f2) (hp : 1 ≤ F.p) (hq : 0 < q) :
    e1 = e2 ∧ m1 = m2 ∧ f1 = f2 := by
  have he : e1 = e2 := (d1.exp_eq hp hq).symm.trans (d2.exp_eq hp hq)
  subst he
  have hm : m1 = m2 := d1.floor_eq.1.symm.trans d2.floor_eq.1
  subst hm
  exact ⟨rfl, rfl, d1.floor_eq.2.symm.trans d2.floor_eq.2⟩

/-! ## Sign symmetry -/

theorem up_swap (rm : RM) (neg : Bool) (m : Nat) (f : ℚ) :
    Spec.up rm.swap (!neg) m f = Spec.up rm neg m f := by
  cases rm <;> cases neg <;> rfl

theorem overflow_swap (F : Sem) (rm : RM) (neg : Bool) :
    Spec.overflow F rm.swap (!neg) = (Spec.overflow F rm neg).flip := by
  cases rm <;> cases neg <;> rfl

theorem finish_swap (F : Sem) (rm : RM) (neg : Bool) (e : Int) (m : Nat) (up : Bool) :
    Spec.finish F rm.swap (!neg) e m up = (Spec.finish F rm neg e m up).flip := by
  unfold Spec.finish
  simp only [overflow_swap]
  split_ifs <;> rfl

end Arp
