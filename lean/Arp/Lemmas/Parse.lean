import Arp.Lemmas.Defs
import Arp.Lemmas.Canonical
import Arp.Model.Str
import Mathlib.Tactic.Linarith
/-!
# Helpers for C14 (`try_from_str`): byte-list lemmas about the parser model

* `decVal`, `parseBigInt_val`, `parseBigInt_isSome_iff`
* `splitOnce_*` : characterisation of `splitOnce`
* `parseI64_*`  : shape of the strings accepted by `str::parse::<i64>`
* `parseWithExp_*`
* `parseBody`, `tryFromStr_signed/_unsigned` : `try_from_str` = sign stripping + `parseBody`
-/
namespace Arp

/-! ### vocabulary of the grammar (independent of the model) -/

def isSign (b : Nat) : Bool := b == 43 || b == 45          -- '+' '-'
def isExpMark (b : Nat) : Bool := b == 101 || b == 69      -- 'e' 'E'
def allDigits (l : List Nat) : Bool := l.all isDigit

/-- decimal value of a digit string (most significant first); `decVal [] = 0` -/
def decVal (ds : List Nat) : Nat := ds.foldl (fun n b => n * 10 + (b - 48)) 0

theorem decVal_nil : decVal [] = 0 := rfl

theorem decVal_append_single (ds : List Nat) (b : Nat) :
    decVal (ds ++ [b]) = decVal ds * 10 + (b - 48) := by
  simp [decVal, List.foldl_append]

/-! ### `parseBigInt` -/

private def pbStep : Option Nat → Nat → Option Nat := fun acc b => match acc with
    | some n => if isDigit b then some (n * 10 + (b - 48)) else none
    | none => none

theorem parseBigInt_eq_foldl (bs : List Nat) : parseBigInt bs = bs.foldl pbStep (some 0) := rfl

private theorem pb_none (l : List Nat) : l.foldl pbStep none = none := by
  induction l with
  | nil => rfl
  | cons b t ih => simpa [List.foldl_cons, pbStep] using ih

private theorem pb_some (l : List Nat) (n : Nat) :
    l.foldl pbStep (some n) =
      if allDigits l then some (l.foldl (fun n b => n * 10 + (b - 48)) n) else none := by
  induction l generalizing n with
  | nil => simp [allDigits]
  | cons b t ih =>
    rw [List.foldl_cons]
    by_cases hb : isDigit b = true
    · have : pbStep (some n) b = some (n * 10 + (b - 48)) := by simp [pbStep, hb]
      rw [this, ih]; simp [allDigits, hb]
    · have : pbStep (some n) b = none := by simp [pbStep, hb]
      rw [this, pb_none]; simp [allDigits, hb]

theorem parseBigInt_eq (l : List Nat) :
    parseBigInt l = if allDigits l then some (decVal l) else none := by
  rw [parseBigInt_eq_foldl, pb_some]; rfl

/-- on a digit string `parse_big_int` returns its decimal value -/
theorem parseBigInt_val {ds : List Nat} (h : allDigits ds = true) :
    parseBigInt ds = some (decVal ds) := by
  rw [parseBigInt_eq, if_pos h]

theorem parseBigInt_none {l : List Nat} (h : allDigits l = false) : parseBigInt l = none := by
  rw [parseBigInt_eq, h]; rfl

theorem parseBigInt_isSome_iff (l : List Nat) : (parseBigInt l).isSome ↔ allDigits l = true := by
  rw [parseBigInt_eq]; split <;> simp_all

theorem parseBigInt_some {l : List Nat} {n : Nat} (h : parseBigInt l = some n) :
    allDigits l = true ∧ n = decVal l := by
  rw [parseBigInt_eq] at h
  split at h
  · exact ⟨‹_›, by injection h with h; exact h.symm⟩
  · cases h

theorem allDigits_append (a b : List Nat) :
    allDigits (a ++ b) = (allDigits a && allDigits b) := by
  simp [allDigits]

theorem allDigits_cons (a : Nat) (b : List Nat) :
    allDigits (a :: b) = (isDigit a && allDigits b) := by
  simp [allDigits]

theorem allDigits_mem {l : List Nat} (h : allDigits l = true) {b : Nat} (hb : b ∈ l) :
    isDigit b = true := by
  simp only [allDigits, List.all_eq_true] at h; exact h b hb

theorem allDigits_of_forall {l : List Nat} (h : ∀ b ∈ l, isDigit b = true) : allDigits l = true := by
  simp only [allDigits, List.all_eq_true]; exact h

theorem allZeros_allDigits {l : List Nat} (h : l.all (· == 48) = true) : allDigits l = true := by
  apply allDigits_of_forall
  intro b hb
  simp only [List.all_eq_true, beq_iff_eq] at h
  rw [h b hb]; decide

theorem isDigit_iff (b : Nat) : isDigit b = true ↔ 48 ≤ b ∧ b ≤ 57 := by
  simp [isDigit]

theorem isExpMark_iff (b : Nat) : isExpMark b = true ↔ b = 101 ∨ b = 69 := by
  simp [isExpMark]

theorem isSign_iff (b : Nat) : isSign b = true ↔ b = 43 ∨ b = 45 := by
  simp [isSign]

/-! ### `splitOnce` -/

theorem splitOnce_none {p : Nat → Bool} {l : List Nat} (h : ∀ b ∈ l, p b = false) :
    splitOnce p l = none := by
  induction l with
  | nil => rfl
  | cons b t ih =>
    have hb : p b = false := h b (by simp)
    simp [splitOnce, hb, ih (fun c hc => h c (by simp [hc]))]

theorem splitOnce_append {p : Nat → Bool} {a : List Nat} {m : Nat} (r : List Nat)
    (ha : ∀ b ∈ a, p b = false) (hm : p m = true) : splitOnce p (a ++ m :: r) = some (a, r) := by
  induction a with
  | nil => simp [splitOnce, hm]
  | cons b t ih =>
    have hb : p b = false := ha b (by simp)
    simp [splitOnce, hb, ih (fun c hc => ha c (by simp [hc]))]

theorem splitOnce_none_spec {p : Nat → Bool} {l : List Nat} (h : splitOnce p l = none) :
    ∀ b ∈ l, p b = false := by
  induction l with
  | nil => simp
  | cons b t ih =>
    unfold splitOnce at h
    by_cases hb : p b = true
    · simp [hb] at h
    · simp only [hb, Bool.false_eq_true, if_false, Option.map_eq_none_iff] at h
      intro c hc
      rcases List.mem_cons.mp hc with rfl | hc
      · simpa using hb
      · exact ih h c hc

theorem splitOnce_some_spec {p : Nat → Bool} {l a r : List Nat} (h : splitOnce p l = some (a, r)) :
    ∃ m, l = a ++ m :: r ∧ p m = true ∧ ∀ b ∈ a, p b = false := by
  induction l generalizing a with
  | nil => simp [splitOnce] at h
  | cons b t ih =>
    unfold splitOnce at h
    by_cases hb : p b = true
    · simp only [hb, if_true, Option.some.injEq, Prod.mk.injEq] at h
      obtain ⟨rfl, rfl⟩ := h
      exact ⟨b, rfl, hb, by simp⟩
    · simp only [hb, Bool.false_eq_true, if_false, Option.map_eq_some_iff] at h
      obtain ⟨⟨a', r'⟩, h1, h2⟩ := h
      simp only [Prod.mk.injEq] at h2
      obtain ⟨rfl, rfl⟩ := h2
      obtain ⟨m, rfl, hm, ha⟩ := ih h1
      refine ⟨m, rfl, hm, ?_⟩
      intro c hc
      rcases List.mem_cons.mp hc with rfl | hc
      · simpa using hb
      · exact ha c hc

/-! ### `parseI64` (Rust `str::parse::<i64>`) -/

/-- the text of a decimal exponent: optional sign, then at least one digit -/
def stripSign : List Nat → Bool × List Nat
  | 45 :: r => (true, r)
  | 43 :: r => (false, r)
  | r => (false, r)

theorem parseI64_eq (bs : List Nat) :
    parseI64 bs =
      if (stripSign bs).2.isEmpty then none else
      match parseBigInt (stripSign bs).2 with
      | none => none
      | some n =>
        let v : Int := if (stripSign bs).1 then -(n : Int) else (n : Int)
        if v < -(2 ^ 63 : Nat) || v > (2 ^ 63 : Nat) - 1 then none else some v := by
  rfl

theorem stripSign_spec (bs : List Nat) :
    (bs = 45 :: (stripSign bs).2 ∧ (stripSign bs).1 = true) ∨
    (bs = 43 :: (stripSign bs).2 ∧ (stripSign bs).1 = false) ∨
    (bs = (stripSign bs).2 ∧ (stripSign bs).1 = false) := by
  unfold stripSign
  split <;> simp

/-- every accepted exponent text is an optional sign followed by a non-empty digit string whose
    signed value lies in the `i64` range -/
theorem parseI64_some {bs : List Nat} {e : Int} (h : parseI64 bs = some e) :
    ∃ sg ds, bs = sg ++ ds ∧ (sg = [] ∨ sg = [43] ∨ sg = [45]) ∧ ds ≠ [] ∧ allDigits ds = true ∧
      e = (if sg = [45] then -(decVal ds : Int) else (decVal ds : Int)) ∧
      -(2 ^ 63 : Int) ≤ e ∧ e ≤ 2 ^ 63 - 1 := by
  rw [parseI64_eq] at h
  have hspec := stripSign_spec bs
  generalize stripSign bs = sd at h hspec
  obtain ⟨neg, r⟩ := sd
  simp only at h hspec
  by_cases hemp : r.isEmpty = true
  · simp [hemp] at h
  · rw [if_neg hemp] at h
    have hne : r ≠ [] := by
      intro h0; apply hemp; simp [h0]
    cases hp : parseBigInt r with
    | none => simp [hp] at h
    | some n =>
      obtain ⟨hd, rfl⟩ := parseBigInt_some hp
      simp only [hp] at h
      have key : ∀ v : Int, (if (decide (v < -((2 ^ 63 : Nat) : Int)) || decide (v > ((2 ^ 63 : Nat) : Int) - 1)) = true
            then none else some v) = some e → v = e ∧ -(2 ^ 63 : Int) ≤ e ∧ e ≤ 2 ^ 63 - 1 := by
        intro v hv
        split_ifs at hv with hr
        simp only [Bool.or_eq_true, decide_eq_true_eq, not_or, not_lt] at hr
        injection hv with hv
        push_cast at hr
        subst hv
        exact ⟨rfl, hr.1, by linarith [hr.2]⟩
      obtain ⟨h, hlo, hhi⟩ := key _ h
      rcases hspec with ⟨h1, h2⟩ | ⟨h1, h2⟩ | ⟨h1, h2⟩
      · refine ⟨[45], r, by simpa using h1, by simp, hne, hd, ?_, hlo, hhi⟩
        rw [← h, h2]; simp
      · refine ⟨[43], r, by simpa using h1, by simp, hne, hd, ?_, hlo, hhi⟩
        rw [← h, h2]; simp
      · refine ⟨[], r, by simpa using h1, by simp, hne, hd, ?_, hlo, hhi⟩
        rw [← h, h2]; simp

/-- the bytes of an accepted exponent text are signs or digits -/
theorem parseI64_bytes {bs : List Nat} (h : (parseI64 bs).isSome = true) :
    ∀ b ∈ bs, isDigit b = true ∨ b = 43 ∨ b = 45 := by
  obtain ⟨e, he⟩ := Option.isSome_iff_exists.mp h
  obtain ⟨sg, ds, rfl, hsg, -, hd, -⟩ := parseI64_some he
  intro b hb
  rcases List.mem_append.mp hb with hb | hb
  · rcases hsg with rfl | rfl | rfl <;> simp_all
  · exact Or.inl (allDigits_mem hd hb)

theorem stripSign_digits {ds : List Nat} (hd : allDigits ds = true) : stripSign ds = (false, ds) := by
  cases ds with
  | nil => rfl
  | cons d t =>
    have hd' := (isDigit_iff d).mp (allDigits_mem hd (by simp))
    unfold stripSign
    split
    · rename_i h; injection h with h1 _; omega
    · rename_i h; injection h with h1 _; omega
    · rfl

/-- converse of `parseI64_some` -/
theorem parseI64_of_shape {sg ds : List Nat} (hsg : sg = [] ∨ sg = [43] ∨ sg = [45]) (hne : ds ≠ [])
    (hd : allDigits ds = true)
    (hr : -(2 ^ 63 : Int) ≤ (if sg = [45] then -(decVal ds : Int) else (decVal ds : Int)) ∧
      (if sg = [45] then -(decVal ds : Int) else (decVal ds : Int)) ≤ 2 ^ 63 - 1) :
    parseI64 (sg ++ ds) = some (if sg = [45] then -(decVal ds : Int) else (decVal ds : Int)) := by
  have hemp : ds.isEmpty = false := by cases ds <;> simp_all
  have key : ∀ v : Int, -(2 ^ 63 : Int) ≤ v → v ≤ 2 ^ 63 - 1 →
      (if (decide (v < -((2 ^ 63 : Nat) : Int)) || decide (v > ((2 ^ 63 : Nat) : Int) - 1)) = true
            then none else some v) = some v := by
    intro v h1 h2
    rw [if_neg]
    simp only [Bool.or_eq_true, decide_eq_true_eq, not_or, not_lt]
    push_cast
    exact ⟨h1, by linarith⟩
  rw [parseI64_eq]
  rcases hsg with rfl | rfl | rfl
  · simp only [List.nil_append, stripSign_digits hd, hemp, Bool.false_eq_true, if_false,
      parseBigInt_val hd]
    simpa using key _ hr.1 hr.2
  · have : stripSign ([43] ++ ds) = (false, ds) := rfl
    simp only [this, hemp, Bool.false_eq_true, if_false, parseBigInt_val hd]
    simpa using key _ hr.1 hr.2
  · have : stripSign ([45] ++ ds) = (true, ds) := rfl
    simp only [this, hemp, Bool.false_eq_true, if_false, parseBigInt_val hd]
    simpa using key _ hr.1 hr.2

/-! ### `parseWithExp` -/

theorem parseWithExp_eq (w : List Nat) :
    parseWithExp w =
      match splitOnce isExpMark w with
      | none =>
        (match parseBigInt w with
         | none => .error .number
         | some n => .ok ((n, w.length), none))
      | some (l, r) =>
        (match parseBigInt l with
         | none => .error .number
         | some n =>
           match parseI64 r with
           | some e => .ok ((n, l.length), some e)
           | none => .error .exponent) := by
  unfold parseWithExp
  have e : (fun b : Nat => b == 101 || b == 69) = isExpMark := rfl
  rw [e]
  generalize splitOnce isExpMark w = o
  cases o with
  | none => simp only; cases parseBigInt w <;> rfl
  | some lr => obtain ⟨l, r⟩ := lr; simp only; cases parseBigInt l <;> rfl

theorem digit_not_expMark {b : Nat} (h : isDigit b = true) : isExpMark b = false := by
  have := (isDigit_iff b).mp h
  cases hm : isExpMark b
  · rfl
  · have := (isExpMark_iff b).mp hm; omega

theorem digit_not_dot {b : Nat} (h : isDigit b = true) : (b == 46) = false := by
  have := (isDigit_iff b).mp h
  simp; omega

theorem parseWithExp_digits {w : List Nat} (h : allDigits w = true) :
    parseWithExp w = .ok ((decVal w, w.length), none) := by
  rw [parseWithExp_eq, splitOnce_none (fun b hb => digit_not_expMark (allDigits_mem h hb))]
  simp only [parseBigInt_val h]

theorem parseWithExp_exp {ds ex : List Nat} {m : Nat} (hd : allDigits ds = true)
    (hm : isExpMark m = true) :
    parseWithExp (ds ++ m :: ex) =
      match parseI64 ex with
      | some e => .ok ((decVal ds, ds.length), some e)
      | none => .error .exponent := by
  rw [parseWithExp_eq, splitOnce_append ex (fun b hb => digit_not_expMark (allDigits_mem hd hb)) hm]
  simp only [parseBigInt_val hd]

/-- the text before the first exponent marker is not a digit string: number error -/
theorem parseWithExp_baddigits {a ex : List Nat} {m : Nat} (ha : ∀ b ∈ a, isExpMark b = false)
    (hm : isExpMark m = true) (hd : allDigits a = false) :
    parseWithExp (a ++ m :: ex) = .error .number := by
  rw [parseWithExp_eq, splitOnce_append ex ha hm]
  simp only [parseBigInt_none hd]

/-- full inversion of a successful `parse_with_exp` -/
theorem parseWithExp_ok {w : List Nat} {n d : Nat} {oe : Option Int}
    (h : parseWithExp w = .ok ((n, d), oe)) :
    (allDigits w = true ∧ n = decVal w ∧ d = w.length ∧ oe = none) ∨
    ∃ ds m ex e, w = ds ++ m :: ex ∧ allDigits ds = true ∧ isExpMark m = true ∧ parseI64 ex = some e ∧
      n = decVal ds ∧ d = ds.length ∧ oe = some e := by
  rw [parseWithExp_eq] at h
  cases hs : splitOnce isExpMark w with
  | none =>
    rw [hs] at h
    simp only at h
    cases hp : parseBigInt w with
    | none => rw [hp] at h; cases h
    | some k =>
      rw [hp] at h
      obtain ⟨hd, rfl⟩ := parseBigInt_some hp
      injection h with h
      simp only [Prod.mk.injEq] at h
      exact Or.inl ⟨hd, h.1.1.symm, h.1.2.symm, h.2.symm⟩
  | some lr =>
    obtain ⟨l, r⟩ := lr
    rw [hs] at h
    simp only at h
    obtain ⟨m, rfl, hm, -⟩ := splitOnce_some_spec hs
    cases hp : parseBigInt l with
    | none => rw [hp] at h; cases h
    | some k =>
      rw [hp] at h
      obtain ⟨hd, rfl⟩ := parseBigInt_some hp
      cases he : parseI64 r with
      | none => rw [he] at h; cases h
      | some e =>
        rw [he] at h
        injection h with h
        simp only [Prod.mk.injEq] at h
        exact Or.inr ⟨l, m, r, e, rfl, hd, hm, he, h.1.1.symm, h.1.2.symm, h.2.symm⟩

/-! ### `try_from_str` = sign stripping + body -/

/-- the branch without a period -/
def parseNoDot (v : List Nat) (sign : Bool) (sem : Sem) : Except ParseErr Flt :=
  match parseWithExp v with
  | .error e => .error e
  | .ok ((num, _), exp) => .ok ((applyExp sem (fromBigint sem num) exp).setSign sign)

/-- `parse_whole_num` (the fraction consists of zeros only) -/
def parseWhole (left : List Nat) (sign : Bool) (sem : Sem) : Except ParseErr Flt :=
  if left == [48] then .ok (Flt.zero sem sign)
  else match parseBigInt left with
    | none => .error .number
    | some n => .ok ((fromBigint sem n).setSign sign)

/-- the general branch with a period -/
def parseFrac (left right : List Nat) (sign : Bool) (sem : Sem) : Except ParseErr Flt :=
  match parseBigInt left with
  | none => .error .number
  | some leftNum =>
    match parseWithExp right with
    | .error e => .error e
    | .ok ((rightNum, digits), exp) =>
      .ok ((applyExp sem ((fromBigint sem leftNum).add
        ((fromBigint sem rightNum).div (fromBigint sem (10 ^ digits)))) exp).setSign sign)

/-- everything after the optional sign -/
def parseBody (v : List Nat) (sign : Bool) (sem : Sem) : Except ParseErr Flt :=
  if eqIgnoreCase v "nan" then .ok (Flt.nan sem sign)
  else if eqIgnoreCase v "inf" then .ok (Flt.inf sem sign)
  else
    match splitOnce (· == 46) v with
    | none => parseNoDot v sign sem
    | some (left, right) =>
      if right.all (· == 48) then parseWhole left sign sem else parseFrac left right sign sem

theorem tryFromStr_cons (c0 : Nat) (rest0 : List Nat) (F : Sem) :
    tryFromStr (c0 :: rest0) F =
      parseBody (if (c0 == 45 || c0 == 43) = true then rest0 else c0 :: rest0) (c0 == 45) F := by
  unfold tryFromStr parseBody
  simp only
  split
  · rfl
  · split
    · rfl
    · cases splitOnce (· == 46) (if (c0 == 45 || c0 == 43) = true then rest0 else c0 :: rest0) with
      | none => rfl
      | some lr => rfl

end Arp
