import Arp.Model.Basic
import Arp.Spec.Round
import Mathlib.Tactic.Linarith
import Mathlib.Tactic.Positivity
import Mathlib.Tactic.FieldSimp
import Mathlib.Tactic.NormNum
import Mathlib.Tactic.Ring
import Mathlib.Algebra.Order.Field.Basic
import Mathlib.Data.Rat.Defs
import Mathlib.Data.Nat.Cast.Order.Field
import Mathlib.Algebra.Order.Field.Power
import Mathlib.Algebra.Order.Floor.Ring
import Mathlib.Data.Rat.Floor
import Mathlib.Data.Nat.Log
/-!
# Helper lemmas: powers of two, loss fractions, shifts, `ilog2`
(moved from the design-phase spike `notes/spike-normalize`)
-/
namespace Arp
theorem msb_pos {n : Nat} (h : n ≠ 0) : 0 < msb n := by unfold msb; simp [h]

theorem msb_le {n : Nat} (h : n ≠ 0) : 2 ^ (msb n - 1) ≤ n := by
  unfold msb; simp only [h, if_false]; simpa using Nat.log2_self_le h

theorem lt_msb (n : Nat) : n < 2 ^ msb n := by
  unfold msb; split
  · subst_vars; simp
  · exact Nat.lt_log2_self


/-- the guarded definition (which mirrors `bit > self.len()*64`) is the plain residue classification -/
theorem lossOfBits_eq (m b : Nat) :
    lossOfBits m b = (if m % 2 ^ b = 0 then Loss.zero else if 2 * (m % 2 ^ b) < 2 ^ b then Loss.lt
      else if 2 * (m % 2 ^ b) = 2 ^ b then Loss.half else Loss.gt) := by
  unfold lossOfBits
  by_cases hm : m = 0
  · subst hm; simp
  · rw [if_neg hm]
    by_cases hb : b > msb m
    · rw [if_pos hb]
      have h1 : m < 2 ^ msb m := lt_msb m
      have h2 : 2 ^ msb m ≤ 2 ^ (b - 1) := Nat.pow_le_pow_right (by norm_num) (by omega)
      have h3 : 2 * 2 ^ (b - 1) = 2 ^ b := by
        obtain ⟨k, hk⟩ : ∃ k, b = k + 1 := ⟨b - 1, by omega⟩
        subst hk; simp [Nat.pow_succ]; ring
      have hlt : m < 2 ^ b := by omega
      rw [Nat.mod_eq_of_lt hlt, if_neg hm, if_pos (by omega)]
    · rw [if_neg hb]

theorem pow2_eq (e : Int) : pow2 e = (2 : ℚ) ^ e := by
  unfold pow2
  split
  · rename_i h
    obtain ⟨n, rfl⟩ := Int.eq_ofNat_of_zero_le h
    simp
  · rename_i h
    have h' : e < 0 := by omega
    obtain ⟨n, rfl⟩ := Int.exists_eq_neg_ofNat (le_of_lt h')
    simp [zpow_neg]

theorem pow2_pos (e : Int) : 0 < pow2 e := by rw [pow2_eq]; positivity

/-- classification of a fraction in [0,1) -/
def cls (f : ℚ) : Loss :=
  if f = 0 then .zero else if f < 1/2 then .lt else if f = 1/2 then .half else .gt

theorem cls_zero_iff {f : ℚ} : cls f = .zero ↔ f = 0 := by
  unfold cls; split_ifs <;> simp_all

theorem lossOfBits_cls (m b : Nat) :
    lossOfBits m b = cls (((m % 2 ^ b : Nat) : ℚ) / 2 ^ b) := by
  rw [lossOfBits_eq]; unfold cls
  have hpos : (0 : ℚ) < 2 ^ b := by positivity
  generalize hr : m % 2 ^ b = r
  have e1 : ((r : ℚ) / 2 ^ b = 0) ↔ r = 0 := by
    rw [div_eq_zero_iff]; constructor
    · rintro (h | h); exact_mod_cast h; exact absurd h (ne_of_gt hpos)
    · intro h; left; exact_mod_cast h
  have e2 : ((r : ℚ) / 2 ^ b < 1 / 2) ↔ 2 * r < 2 ^ b := by
    rw [div_lt_div_iff₀ hpos (by norm_num)]
    have : ((2 * r : Nat) : ℚ) < ((2 ^ b : Nat) : ℚ) ↔ 2 * r < 2 ^ b := Nat.cast_lt
    rw [← this]; push_cast; constructor <;> intro h <;> linarith
  have e3 : ((r : ℚ) / 2 ^ b = 1 / 2) ↔ 2 * r = 2 ^ b := by
    rw [div_eq_div_iff (ne_of_gt hpos) (by norm_num)]
    have : ((2 * r : Nat) : ℚ) = ((2 ^ b : Nat) : ℚ) ↔ 2 * r = 2 ^ b := Nat.cast_inj
    rw [← this]; push_cast; constructor <;> intro h <;> linarith
  simp only [e1, e2, e3]

theorem invert_cls {f : ℚ} (h0 : 0 < f) (h1 : f < 1) : cls (1 - f) = (cls f).invert := by
  have hf : f ≠ 0 := ne_of_gt h0
  have hg : 1 - f ≠ 0 := by intro h; linarith
  rcases lt_trichotomy f (1/2) with h | h | h
  · have c1 : cls f = .lt := by unfold cls; rw [if_neg hf, if_pos h]
    have c2 : cls (1 - f) = .gt := by
      unfold cls
      rw [if_neg hg, if_neg (by intro h'; linarith), if_neg (by intro h'; linarith)]
    rw [c1, c2]; rfl
  · subst h
    have : (1 : ℚ) - 1/2 = 1/2 := by norm_num
    rw [this]
    have c1 : cls (1/2 : ℚ) = .half := by
      unfold cls; rw [if_neg (by norm_num), if_neg (lt_irrefl _), if_pos rfl]
    rw [c1]; rfl
  · have c1 : cls f = .gt := by
      unfold cls; rw [if_neg hf, if_neg (by intro h'; linarith), if_neg (by intro h'; linarith)]
    have c2 : cls (1 - f) = .lt := by
      unfold cls; rw [if_neg hg, if_pos (by linarith)]
    rw [c1, c2]; rfl

theorem combine_cls (r b : Nat) (hb : 1 ≤ b) (hr : r < 2 ^ b) (f : ℚ) (hf0 : 0 ≤ f) (hf1 : f < 1) :
    cls (((r : ℚ) + f) / 2 ^ b) = combineLoss (cls ((r : ℚ) / 2 ^ b)) (cls f) := by
  have hpos : (0 : ℚ) < 2 ^ b := by positivity
  have hrq : (r : ℚ) + 1 ≤ 2 ^ b := by
    have : ((r + 1 : Nat) : ℚ) ≤ ((2 ^ b : Nat) : ℚ) := Nat.cast_le.mpr hr
    push_cast at this; exact this
  have h2 : (2 : ℚ) ≤ 2 ^ b := by
    calc (2 : ℚ) = 2 ^ 1 := by norm_num
      _ ≤ 2 ^ b := pow_le_pow_right₀ (by norm_num) hb
  by_cases hfz : f = 0
  · subst hfz; simp [combineLoss, cls]
  · have hfpos : 0 < f := lt_of_le_of_ne hf0 (Ne.symm hfz)
    have hl : cls f ≠ .zero := fun h => hfz (cls_zero_iff.mp h)
    unfold combineLoss; rw [if_pos hl]
    -- the three cases for r / 2^b
    have hsum_ne : ((r : ℚ) + f) / 2 ^ b ≠ 0 := by
      apply div_ne_zero _ (ne_of_gt hpos)
      have : (0 : ℚ) ≤ r := Nat.cast_nonneg r
      linarith
    rcases Nat.lt_trichotomy (2 * r) (2 ^ b) with hlt | heq | hgt
    · -- r/2^b < 1/2, so 2r+2 ≤ 2^b, (r+f)/2^b < 1/2
      have h2r : (2 : ℚ) * r + 2 ≤ 2 ^ b := by
        have hev : 2 * r + 2 ≤ 2 ^ b := by
          have : 2 ∣ 2 ^ b := dvd_pow_self 2 (by omega)
          omega
        have : ((2 * r + 2 : Nat) : ℚ) ≤ ((2 ^ b : Nat) : ℚ) := Nat.cast_le.mpr hev
        push_cast at this; exact this
      have hlt' : ((r : ℚ) + f) / 2 ^ b < 1 / 2 := by
        rw [div_lt_div_iff₀ hpos (by norm_num)]; linarith
      have hres : cls (((r : ℚ) + f) / 2 ^ b) = .lt := by
        unfold cls; rw [if_neg hsum_ne, if_pos hlt']
      rw [hres]
      by_cases hr0 : r = 0
      · subst hr0; simp [cls]
      · have hne : ((r : ℚ) / 2 ^ b) ≠ 0 := div_ne_zero (by exact_mod_cast hr0) (ne_of_gt hpos)
        have hl2 : (r : ℚ) / 2 ^ b < 1 / 2 := by
          rw [div_lt_div_iff₀ hpos (by norm_num)]; linarith
        have : cls ((r : ℚ) / 2 ^ b) = .lt := by unfold cls; rw [if_neg hne, if_pos hl2]
        rw [this]; simp
    · have heq' : (2 : ℚ) * r = 2 ^ b := by
        have : ((2 * r : Nat) : ℚ) = ((2 ^ b : Nat) : ℚ) := by rw [heq]
        push_cast at this; exact this
      have hhalf : (r : ℚ) / 2 ^ b = 1 / 2 := by
        rw [div_eq_div_iff (ne_of_gt hpos) (by norm_num)]; linarith
      have hgt' : 1 / 2 < ((r : ℚ) + f) / 2 ^ b := by
        rw [div_lt_div_iff₀ (by norm_num) hpos]; linarith
      have : cls (((r : ℚ) + f) / 2 ^ b) = .gt := by
        unfold cls; rw [if_neg hsum_ne, if_neg (not_lt.mpr (le_of_lt hgt')), if_neg (ne_of_gt hgt')]
      rw [this, hhalf]; simp [cls]
    · have hgt'' : (2 : ℚ) ^ b < 2 * r := by
        have : ((2 ^ b : Nat) : ℚ) < ((2 * r : Nat) : ℚ) := Nat.cast_lt.mpr hgt
        push_cast at this; exact this
      have hg1 : 1 / 2 < (r : ℚ) / 2 ^ b := by
        rw [div_lt_div_iff₀ (by norm_num) hpos]; linarith
      have hg2 : 1 / 2 < ((r : ℚ) + f) / 2 ^ b := by
        rw [div_lt_div_iff₀ (by norm_num) hpos]; linarith
      have hne : ((r : ℚ) / 2 ^ b) ≠ 0 := by linarith
      have c1 : cls ((r : ℚ) / 2 ^ b) = .gt := by
        unfold cls; rw [if_neg hne, if_neg (not_lt.mpr (le_of_lt hg1)), if_neg (ne_of_gt hg1)]
      have c2 : cls (((r : ℚ) + f) / 2 ^ b) = .gt := by
        unfold cls; rw [if_neg hsum_ne, if_neg (not_lt.mpr (le_of_lt hg2)), if_neg (ne_of_gt hg2)]
      rw [c1, c2]; simp

/-- truncating `(m + f)·2^-s` with `0 ≤ f < 1` is the right shift -/
theorem floor_shift (m s : Nat) (f : ℚ) (hf0 : 0 ≤ f) (hf1 : f < 1) :
    ⌊((m : ℚ) + f) / 2 ^ s⌋ = ((m >>> s : Nat) : Int) := by
  have hpos : (0 : ℚ) < 2 ^ s := by positivity
  rw [Int.floor_eq_iff, Nat.shiftRight_eq_div_pow]
  have hdm := Nat.div_add_mod m (2 ^ s)
  have hlt : m % 2 ^ s < 2 ^ s := Nat.mod_lt _ (by positivity)
  set d := m / 2 ^ s
  set r := m % 2 ^ s
  have hm : (m : ℚ) = 2 ^ s * d + r := by
    have : ((2 ^ s * d + r : Nat) : ℚ) = (m : ℚ) := by rw [hdm]
    push_cast at this; linarith
  have hr1 : (r : ℚ) + 1 ≤ 2 ^ s := by
    have : ((r + 1 : Nat) : ℚ) ≤ ((2 ^ s : Nat) : ℚ) := Nat.cast_le.mpr hlt
    push_cast at this; exact this
  have hr0 : (0 : ℚ) ≤ r := Nat.cast_nonneg r
  constructor
  · rw [le_div_iff₀ hpos]; push_cast; rw [hm]; nlinarith
  · rw [div_lt_iff₀ hpos]; push_cast; rw [hm]; nlinarith

/-- and the lost fraction is `(m mod 2^s + f)/2^s` -/
theorem fract_shift (m s : Nat) (f : ℚ) :
    ((m : ℚ) + f) / 2 ^ s - ((m >>> s : Nat) : ℚ) = (((m % 2 ^ s : Nat) : ℚ) + f) / 2 ^ s := by
  have hpos : (0 : ℚ) < 2 ^ s := by positivity
  rw [Nat.shiftRight_eq_div_pow]
  have hdm := Nat.div_add_mod m (2 ^ s)
  have hm : (m : ℚ) = 2 ^ s * ((m / 2 ^ s : Nat) : ℚ) + ((m % 2 ^ s : Nat) : ℚ) := by
    have : ((2 ^ s * (m / 2 ^ s) + m % 2 ^ s : Nat) : ℚ) = (m : ℚ) := by rw [hdm]
    push_cast at this; linarith
  field_simp
  linarith

theorem ilog2_spec {q : ℚ} (hq : 0 < q) : (2 : ℚ) ^ (ilog2 q) ≤ q ∧ q < (2 : ℚ) ^ (ilog2 q + 1) := by
  have hnum : 0 < q.num := Rat.num_pos.mpr hq
  have hn0 : q.num.natAbs ≠ 0 := by omega
  have hd0 : q.den ≠ 0 := q.den_nz
  set a := msb q.num.natAbs with ha
  set b := msb q.den with hb
  have hqeq : q = (q.num.natAbs : ℚ) / (q.den : ℚ) := by
    have : ((q.num.natAbs : Int) : ℚ) = (q.num : ℚ) := by
      rw [Int.natAbs_of_nonneg (le_of_lt hnum)]
    rw [← Int.cast_natCast, this]; exact (Rat.num_div_den q).symm
  have hdpos : (0 : ℚ) < q.den := by exact_mod_cast Nat.pos_of_ne_zero hd0
  -- bounds on numerator and denominator
  have n_lo : (2 : ℚ) ^ (a - 1) ≤ q.num.natAbs := by exact_mod_cast msb_le hn0
  have n_hi : (q.num.natAbs : ℚ) < 2 ^ a := by exact_mod_cast lt_msb q.num.natAbs
  have d_lo : (2 : ℚ) ^ (b - 1) ≤ q.den := by exact_mod_cast msb_le hd0
  have d_hi : (q.den : ℚ) < 2 ^ b := by exact_mod_cast lt_msb q.den
  have ha1 : 1 ≤ a := msb_pos hn0
  have hb1 : 1 ≤ b := msb_pos hd0
  -- q < 2^(a-b+1) and 2^(a-b-1) < q
  have up : q < (2 : ℚ) ^ ((a : Int) - b + 1) := by
    rw [hqeq, div_lt_iff₀ hdpos]
    have e : (2 : ℚ) ^ ((a : Int) - b + 1) * 2 ^ (b - 1) = 2 ^ a := by
      rw [← zpow_natCast, ← zpow_natCast, ← zpow_add₀ (by norm_num)]
      congr 1; omega
    calc (q.num.natAbs : ℚ) < 2 ^ a := n_hi
      _ = (2 : ℚ) ^ ((a : Int) - b + 1) * 2 ^ (b - 1) := e.symm
      _ ≤ (2 : ℚ) ^ ((a : Int) - b + 1) * q.den := by
          apply mul_le_mul_of_nonneg_left d_lo; positivity
  have lo : (2 : ℚ) ^ ((a : Int) - b - 1) < q := by
    rw [hqeq, lt_div_iff₀ hdpos]
    have e : (2 : ℚ) ^ ((a : Int) - b - 1) * 2 ^ b = 2 ^ (a - 1) := by
      rw [← zpow_natCast, ← zpow_natCast, ← zpow_add₀ (by norm_num)]
      congr 1; omega
    calc (2 : ℚ) ^ ((a : Int) - b - 1) * q.den < (2 : ℚ) ^ ((a : Int) - b - 1) * 2 ^ b := by
          apply mul_lt_mul_of_pos_left d_hi; positivity
      _ = 2 ^ (a - 1) := e
      _ ≤ q.num.natAbs := n_lo
  unfold ilog2
  simp only [← ha, ← hb]
  split
  · rename_i h; rw [pow2_eq] at h; exact ⟨h, up⟩
  · rename_i h; rw [pow2_eq] at h
    constructor
    · exact le_of_lt lo
    · have : (a : Int) - b - 1 + 1 = a - b := by ring
      rw [this]; exact not_le.mp h

end Arp
