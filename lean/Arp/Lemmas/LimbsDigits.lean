import Arp.Lemmas.LimbsMul
import Mathlib.Data.Nat.Digits.Defs
/-! # Limb model: `as_decimal`, `as_binary`, `to_digits` -/
namespace Arp.Limbs

/-! ### `as_decimal` -/

theorem headD_of_val_lt {r : List Nat} (h : val r < B) : r.headD 0 = val r := by
  cases r with
  | nil => rfl
  | cons x xs =>
    simp only [val_cons] at h
    have hpos := B_pos
    have : val xs = 0 := by
      by_contra hne
      have : B * 1 ≤ B * val xs := Nat.mul_le_mul_left _ (by omega)
      omega
    simp [this]

theorem decChar_eq : ∀ d, d < 10 → decChar d = Nat.digitChar d := by decide

theorem WF_singleton {x : Nat} (h : x < B) : WF [x] := by simp [h]

theorem asDecimalLoop_spec (fuel : Nat) : ∀ (v : List Nat) (buff : List Char), WF v →
    val v < 2 ^ fuel →
    asDecimalLoop fuel v buff = (if val v = 0 then [] else Nat.toDigits 10 (val v)) ++ buff := by
  induction fuel with
  | zero =>
    intro v buff _ h
    have : val v = 0 := by simpa using h
    simp [asDecimalLoop, this]
  | succ fuel ih =>
    intro v buff hv h
    simp only [asDecimalLoop]
    rw [isZero_eq]
    by_cases h0 : val v = 0
    · simp [h0]
    · simp only [h0, decide_false, Bool.not_false, if_true, if_false]
      have h10 : WF (fromU64 10) := WF_singleton (by rw [B_eq]; omega)
      have hv10 : val (fromU64 10) = 10 := by simp [fromU64]
      obtain ⟨d1, d2, d3, d4⟩ := divRem_val hv h10 (by rw [hv10]; omega)
      rw [hv10] at d1 d2
      have hr : (divRem v (fromU64 10)).2.headD 0 = val v % 10 := by
        rw [headD_of_val_lt (by rw [d2, B_eq]; omega), d2]
      rw [ih _ _ d3 (by rw [d1]; rw [Nat.pow_succ] at h; omega), d1, hr,
        decChar_eq _ (Nat.mod_lt _ (by omega))]
      rw [Nat.toDigits_eq_if (b := 10) (n := val v) (by omega)]
      by_cases hlt : val v < 10
      · rw [if_pos hlt, if_pos (by omega), Nat.mod_eq_of_lt hlt]; simp
      · rw [if_neg hlt, if_neg (by omega)]; simp

/-- `as_decimal` prints the decimal digits of the value -/
theorem asDecimalChars_val {a : List Nat} (ha : WF a) : asDecimalChars a = Nat.toDigits 10 (val a) := by
  unfold asDecimalChars
  rw [isZero_eq]
  by_cases h0 : val a = 0
  · simp [h0]
  · simp only [h0, decide_false, Bool.false_eq_true, if_false]
    rw [asDecimalLoop_spec _ a [] ha, if_neg h0, List.append_nil]
    have := val_lt ha
    rw [B_pow_eq] at this
    exact Nat.lt_of_lt_of_le this (Nat.pow_le_pow_right (by omega) (by omega))

theorem asDecimal_val {a : List Nat} (ha : WF a) : asDecimal a = toString (val a) := by
  unfold asDecimal
  rw [asDecimalChars_val ha, Nat.toString_eq_ofList_toDigits]

/-! ### `as_binary` -/

/-- exactly `n` binary digit characters of `x`, most significant first -/
def bitsN : Nat → Nat → List Char
  | 0, _ => []
  | n + 1, x => bitsN n (x / 2) ++ [bitChar x]

theorem binWord_spec (n : Nat) : ∀ (part : Nat) (sb : List Char),
    binWord n part sb = bitsN n part ++ sb := by
  induction n with
  | zero => intro part sb; rfl
  | succ n ih => intro part sb; simp [binWord, bitsN, ih]

theorem bitChar_eq (x : Nat) : bitChar x = Nat.digitChar (x % 2) := by
  unfold bitChar
  rcases Nat.mod_two_eq_zero_or_one x with h | h <;> simp [h]

theorem binTop_spec (n : Nat) : ∀ (part : Nat) (sb : List Char), part < 2 ^ n →
    binTop n part sb = (if part = 0 then [] else Nat.toDigits 2 part) ++ sb := by
  induction n with
  | zero =>
    intro part sb h
    have : part = 0 := by simpa using h
    simp [binTop, this]
  | succ n ih =>
    intro part sb h
    simp only [binTop]
    by_cases h0 : part = 0
    · simp [h0]
    · rw [if_pos (by omega), if_neg h0, ih _ _ (by rw [Nat.pow_succ] at h; omega), bitChar_eq,
        Nat.toDigits_eq_if (b := 2) (n := part) (by omega)]
      by_cases hlt : part < 2
      · rw [if_pos hlt, if_pos (by omega), Nat.mod_eq_of_lt hlt]; simp
      · rw [if_neg hlt, if_neg (by omega)]; simp

theorem toDigits2_shift (n : Nat) : ∀ (x V : Nat), V ≠ 0 → x < 2 ^ n →
    Nat.toDigits 2 (x + 2 ^ n * V) = Nat.toDigits 2 V ++ bitsN n x := by
  induction n with
  | zero => intro x V _ h; have : x = 0 := by simpa using h
            simp [this, bitsN]
  | succ n ih =>
    intro x V hV h
    have hpos : 0 < 2 ^ n * V := Nat.mul_pos (Nat.two_pow_pos n) (by omega)
    have e : 2 ^ (n + 1) * V = 2 * (2 ^ n * V) := by rw [Nat.pow_succ]; ring
    rw [Nat.toDigits_eq_if (b := 2) (by omega), if_neg (by rw [e]; omega)]
    have hd : (x + 2 ^ (n + 1) * V) / 2 = x / 2 + 2 ^ n * V := by rw [e]; omega
    have hm : (x + 2 ^ (n + 1) * V) % 2 = x % 2 := by rw [e]; omega
    rw [hd, hm, ih (x / 2) V hV (by rw [Nat.pow_succ] at h; omega)]
    simp [bitsN, bitChar_eq]

theorem asBinaryLoop_spec : ∀ (ws : List Nat) (sb : List Char), WF ws → ws ≠ [] →
    (∀ h : ws ≠ [], ws.getLast h ≠ 0) →
    asBinaryLoop ws sb = Nat.toDigits 2 (val ws) ++ sb := by
  intro ws
  induction ws with
  | nil => intro sb _ h; exact absurd rfl h
  | cons w ws ih =>
    intro sb hw _ hlast
    rw [WF_cons] at hw
    cases ws with
    | nil =>
      have hw0 : w ≠ 0 := by simpa using hlast (by simp)
      simp only [asBinaryLoop, val_cons, val_nil, Nat.mul_zero, Nat.add_zero]
      rw [binTop_spec 64 w sb (by rw [← B_pow]; exact hw.1), if_neg hw0]
    | cons w' ws' =>
      have hl' : ∀ h : w' :: ws' ≠ [], (w' :: ws').getLast h ≠ 0 := by
        intro h; have := hlast (by simp); rwa [List.getLast_cons h] at this
      have hne : val (w' :: ws') ≠ 0 := by
        intro h0
        rw [val_eq_zero_iff] at h0
        exact hl' (by simp) (h0 _ (List.getLast_mem _))
      simp only [asBinaryLoop]
      rw [ih _ hw.2 (by simp) hl', binWord_spec]
      conv_rhs => rw [val_cons, B_pow, toDigits2_shift 64 w _ hne (by rw [← B_pow]; exact hw.1)]
      simp

theorem topNonZero_spec (a : List Nat) (h : val a ≠ 0) :
    topNonZeroRev a.reverse < a.length ∧
    ∃ l x, a.take (topNonZeroRev a.reverse + 1) = l ++ [x] ∧ x ≠ 0
      ∧ val (a.take (topNonZeroRev a.reverse + 1)) = val a := by
  induction a using List.reverseRecOn with
  | nil => simp at h
  | append_singleton a' w ih =>
    rw [List.reverse_append, List.reverse_singleton, List.singleton_append]
    simp only [topNonZeroRev]
    by_cases hw : w = 0
    · subst hw
      have hv : val a' ≠ 0 := by rw [val_append] at h; simpa using h
      obtain ⟨hlen, l, x, e1, e2, e3⟩ := ih hv
      simp only [ne_eq, not_true_eq_false, if_false]
      rw [List.take_append_of_le_length (by omega)]
      refine ⟨by simp; omega, l, x, e1, e2, ?_⟩
      rw [e3, val_append]; simp
    · simp only [ne_eq, hw, not_false_eq_true, if_true, List.length_reverse]
      have ht : (a' ++ [w]).take (a'.length + 1) = a' ++ [w] :=
        List.take_of_length_le (by simp)
      rw [ht]
      exact ⟨by simp, a', w, rfl, hw, rfl⟩

/-- `as_binary` prints the binary digits of the value -/
theorem asBinaryChars_val {a : List Nat} (ha : WF a) : asBinaryChars a = Nat.toDigits 2 (val a) := by
  unfold asBinaryChars
  by_cases h0 : val a = 0
  · have : isZero a = true := (isZero_iff a).mpr h0
    simp [this, h0]
  · have hz : isZero a = false := by rw [isZero_eq]; simp [h0]
    have hne : a.isEmpty = false := by
      cases a with
      | nil => simp at h0
      | cons _ _ => rfl
    simp only [hne, hz, Bool.or_self, Bool.false_eq_true, if_false]
    obtain ⟨_, l, x, e1, e2, e3⟩ := topNonZero_spec a h0
    have hspec := asBinaryLoop_spec (a.take (topNonZeroRev a.reverse + 1)) [] (WF_take ha _)
      (by rw [e1]; simp) (by intro h; simp only [e1, List.getLast_append_singleton]; exact e2)
    rw [hspec, e3, List.append_nil]
    have := @Nat.toDigits_ne_nil (val a) 2
    cases hd : Nat.toDigits 2 (val a) with
    | nil => exact absurd hd this
    | cons _ _ => rfl

theorem asBinary_val {a : List Nat} (ha : WF a) :
    asBinary a = String.ofList (Nat.toDigits 2 (val a)) := by
  unfold asBinary; rw [asBinaryChars_val ha]

/-! ### lengths of quotient and remainder -/

theorem length_subSlice_le_max {a b : List Nat} (ha : WF a) (hb : WF b) (z : Nat)
    (hz : val (b.take z) = 0) (hle : val b ≤ val a) {n : Nat} (hn : val a < B ^ n) :
    (subSlice a b z).1.length ≤ max 2 n := by
  obtain ⟨t1, t2, t3, _⟩ := subSlice_val_z ha hb z hz
  have hbw : (subSlice a b z).2 = false := by rw [t2, decide_eq_false_iff_not]; omega
  have hv := t3 hbw
  unfold subSlice at hv ⊢
  apply length_shrink_le_max
  rw [val_shrink] at hv
  rw [hv]; omega

theorem divLoop_length (D : Nat) (L : Nat) (n : Nat) : ∀ {dv ds q : List Nat},
    WF dv → WF ds → WF q → (1 ≤ n → val ds = D * 2 ^ (n - 1)) →
    dv.length ≤ max 2 L → val dv < B ^ L →
    (divLoop n dv ds q).2.length ≤ max 2 L := by
  induction n with
  | zero => intro dv ds q _ _ _ _ h _; simpa [divLoop] using h
  | succ i ih =>
    intro dv ds q hdv hds hq h1 hl hv
    have hds' : val ds = D * 2 ^ i := by simpa using h1 (by omega)
    obtain ⟨s1, s2⟩ := shiftRight_val hds 1
    have hs : 1 ≤ i → val (shiftRight ds 1) = D * 2 ^ (i - 1) := by
      intro hi
      rw [s1, hds']
      obtain ⟨j, rfl⟩ : ∃ j, i = j + 1 := ⟨i - 1, by omega⟩
      rw [Nat.pow_succ, ← Nat.mul_assoc, Nat.pow_one, Nat.mul_div_cancel _ (by omega)]
      simp
    simp only [divLoop]
    split
    · rename_i hc
      rw [cmp_not_lt hdv hds] at hc
      have hz : val (ds.take (i / 64)) = 0 := by
        rw [val_take hds, hds', B_pow_eq]
        have : 2 ^ (64 * (i / 64)) ∣ 2 ^ i := Nat.pow_dvd_pow 2 (by omega)
        exact Nat.mod_eq_zero_of_dvd (Nat.dvd_trans this (Nat.dvd_mul_left _ _))
      obtain ⟨t1, t2, t3, _⟩ := subSlice_val_z hdv hds (i / 64) hz
      have hb : (subSlice dv ds (i / 64)).2 = false := by
        rw [t2, decide_eq_false_iff_not]; omega
      have t3 := t3 hb
      exact ih t1 s2 (flipBit_val hq i).2 hs
        (length_subSlice_le_max hdv hds _ hz hc hv) (by rw [t3]; omega)
    · exact ih hdv s2 hq hs hl hv

theorem length_divRem {a d : List Nat} (ha : WF a) (hd : WF d) (hnz : val d ≠ 0) :
    (divRem a d).1.length ≤ max 2 a.length ∧ (divRem a d).2.length ≤ max 2 a.length := by
  have hq := (divRem_val ha hd hnz).1
  have hlt := val_lt ha
  unfold divRem at hq ⊢
  split
  · simp [fromU64]
  · rename_i h1
    rw [if_neg h1] at hq
    dsimp only at hq ⊢
    split
    · simp [zero]
    · rename_i h2
      rw [if_neg h2] at hq
      refine ⟨?_, ?_⟩
      · apply length_shrink_le_max
        simp only [val_shrink] at hq
        rw [hq]
        exact Nat.lt_of_le_of_lt (Nat.div_le_self _ _) hlt
      · obtain ⟨l1, l2⟩ := shiftLeft_val hd (msbIndex a - msbIndex d)
        exact divLoop_length (val d) a.length _ ha l2 (by simp [zero, B_pos])
          (fun _ => by simpa using l1) (by omega) hlt

/-! ### `to_digits` -/

/-- exactly `n` base-`b` digits of `x` (of `x % b^n`), most significant first -/
def dg (b : Nat) : Nat → Nat → List Nat
  | 0, _ => []
  | n + 1, x => dg b n (x / b) ++ [x % b]

theorem dg_add (b m : Nat) : ∀ (k x : Nat), dg b (m + k) x = dg b m (x / b ^ k) ++ dg b k x := by
  intro k
  induction k with
  | zero => intro x; simp [dg]
  | succ k ih =>
    intro x
    rw [← Nat.add_assoc]
    simp only [dg]
    rw [ih, Nat.div_div_eq_div_mul, ← Nat.pow_succ', List.append_assoc]

theorem dg_mod (b : Nat) : ∀ (k x : Nat), dg b k (x % b ^ k) = dg b k x := by
  intro k
  induction k with
  | zero => intro x; rfl
  | succ k ih =>
    intro x
    simp only [dg]
    rw [Nat.pow_succ', Nat.mod_mul_right_div_self, ih, Nat.mod_mul_right_mod]

theorem dg_zero (b : Nat) : ∀ n, dg b n 0 = List.replicate n 0 := by
  intro n
  induction n with
  | zero => rfl
  | succ n ih => simp only [dg, Nat.zero_div, Nat.zero_mod, ih]; rw [← List.replicate_succ']

theorem dg_digits {b : Nat} (hb : 1 < b) : ∀ (D x : Nat), x ≠ 0 → x < b ^ D →
    ∃ y t, y ≠ 0 ∧ (Nat.digits b x).reverse = y :: t
      ∧ dg b D x = List.replicate (D - (t.length + 1)) 0 ++ y :: t := by
  intro D
  induction D with
  | zero => intro x h0 h; simp at h; omega
  | succ D ih =>
    intro x h0 h
    rw [Nat.digits_def' hb (by omega), List.reverse_cons]
    simp only [dg]
    by_cases hq : x / b = 0
    · have hx : x < b := by
        rcases Nat.div_eq_zero_iff.mp hq with h | h <;> omega
      rw [hq, Nat.digits_zero, dg_zero, Nat.mod_eq_of_lt hx]
      exact ⟨x, [], h0, by simp, by simp⟩
    · have hlt : x / b < b ^ D := by
        rw [Nat.div_lt_iff_lt_mul (by omega), ← Nat.pow_succ]; exact h
      obtain ⟨y, t, hy, e1, e2⟩ := ih (x / b) hq hlt
      refine ⟨y, t ++ [x % b], hy, by rw [e1]; simp, ?_⟩
      rw [e2]; simp

theorem stripLead_replicate (n : Nat) (y : Nat) (t : List Nat) (hy : y ≠ 0) :
    stripLead (List.replicate n 0 ++ y :: t) = y :: t := by
  induction n with
  | zero =>
    cases y with
    | zero => exact absurd rfl hy
    | succ y => simp [stripLead]
  | succ n ih =>
    cases n with
    | zero => simpa [stripLead] using ih
    | succ n => rw [List.replicate_succ, List.cons_append, List.replicate_succ, List.cons_append,
                  stripLead, ← List.cons_append, ← List.replicate_succ]; exact ih

/-- conditions on the const generic `DIGIT: u8` -/
def BaseOk (base : Nat) : Prop := 2 ≤ base ∧ base ≤ 256

theorem pow_dpw_lt {base : Nat} (hb : BaseOk base) : base ^ (64 / bitLen base) < B := by
  unfold bitLen
  rw [if_neg (by unfold BaseOk at hb; omega)]
  have h1 : base < 2 ^ (base.log2 + 1) := Nat.lt_log2_self
  by_cases hd : 64 / (base.log2 + 1) = 0
  · rw [hd, B_eq]; simp
  · have h2 := Nat.pow_lt_pow_left h1 hd
    rw [← Nat.pow_mul] at h2
    have h3 : (base.log2 + 1) * (64 / (base.log2 + 1)) ≤ 64 := Nat.mul_div_le _ _
    have h4 : 2 ^ ((base.log2 + 1) * (64 / (base.log2 + 1))) ≤ 2 ^ 64 :=
      Nat.pow_le_pow_right (by omega) h3
    rw [B_pow]; omega

theorem extractDigits_spec {base : Nat} (hb : BaseOk base) (n : Nat) :
    ∀ (num out : List Nat), WF num →
    (extractDigits base n num out).2 = dg base n (val num) ++ out
    ∧ val (extractDigits base n num out).1 = val num / base ^ n
    ∧ WF (extractDigits base n num out).1
    ∧ (extractDigits base n num out).1.length ≤ max 2 num.length := by
  obtain ⟨hb1, hb2⟩ := hb
  induction n with
  | zero => intro num out h; simp [extractDigits, dg, h]
  | succ n ih =>
    intro num out h
    have hbw : WF (fromU64 base) := WF_singleton (by rw [B_eq]; omega)
    have hbv : val (fromU64 base) = base := by simp [fromU64]
    obtain ⟨d1, d2, d3, d4⟩ := divRem_val h hbw (by rw [hbv]; omega)
    obtain ⟨l1, _⟩ := length_divRem h hbw (by rw [hbv]; omega)
    rw [hbv] at d1 d2
    have hlt : val num % base < base := Nat.mod_lt _ (by omega)
    have hr : (divRem num (fromU64 base)).2.headD 0 % 256 = val num % base := by
      rw [headD_of_val_lt (by rw [d2, B_eq]; omega), d2]; exact Nat.mod_eq_of_lt (by omega)
    obtain ⟨i1, i2, i3, i4⟩ := ih (divRem num (fromU64 base)).1
      (((divRem num (fromU64 base)).2.headD 0 % 256) :: out) d3
    simp only [extractDigits]
    refine ⟨?_, ?_, i3, by omega⟩
    · rw [i1, d1, hr]; simp [dg]
    · rw [i2, d1, Nat.div_div_eq_div_mul, ← Nat.pow_succ']

theorem leafLoop_spec {base : Nat} (hb : BaseOk base) (dpw : Nat) (divisor : List Nat)
    (hdw : WF divisor) (hdv : val divisor = base ^ dpw) (n : Nat) :
    ∀ (num out : List Nat), WF num →
    (leafLoop base dpw divisor n num out).2 = dg base (n * dpw) (val num) ++ out
    ∧ val (leafLoop base dpw divisor n num out).1 = val num / base ^ (n * dpw)
    ∧ WF (leafLoop base dpw divisor n num out).1
    ∧ (leafLoop base dpw divisor n num out).1.length ≤ max 2 num.length := by
  have hnz : val divisor ≠ 0 := by
    rw [hdv]; exact Nat.ne_of_gt (Nat.pow_pos (by unfold BaseOk at hb; omega))
  induction n with
  | zero => intro num out h; simp [leafLoop, dg, h]
  | succ n ih =>
    intro num out h
    obtain ⟨d1, d2, d3, d4⟩ := divRem_val h hdw hnz
    obtain ⟨l1, _⟩ := length_divRem h hdw hnz
    rw [hdv] at d1 d2
    obtain ⟨e1, _⟩ := extractDigits_spec hb dpw (divRem num divisor).2 out d4
    obtain ⟨i1, i2, i3, i4⟩ := ih (divRem num divisor).1
      (extractDigits base dpw (divRem num divisor).2 out).2 d3
    simp only [leafLoop]
    refine ⟨?_, ?_, i3, by omega⟩
    · rw [i1, e1, d1, d2, dg_mod, Nat.succ_mul, dg_add, List.append_assoc]
    · rw [i2, d1, Nat.div_div_eq_div_mul, ← Nat.pow_add, Nat.succ_mul, Nat.add_comm]

theorem toDigitsImpl_spec {base : Nat} (hb : BaseOk base) (L : Nat) (hL2 : 2 ≤ L)
    (hL : L < 2 ^ 50) (fuel : Nat) :
    ∀ (num : List Nat) (n : Nat) (out : List Nat), WF num → num.length ≤ L →
    (toDigitsImpl base fuel num n out).2.2 = true →
    (toDigitsImpl base fuel num n out).2.1 = dg base n (val num) ++ out
    ∧ val (toDigitsImpl base fuel num n out).1 = val num / base ^ n
    ∧ WF (toDigitsImpl base fuel num n out).1
    ∧ (toDigitsImpl base fuel num n out).1.length ≤ L := by
  have hb' := hb
  obtain ⟨hb1, hb2⟩ := hb'
  induction fuel with
  | zero => intro num n out _ _ hok; simp [toDigitsImpl] at hok
  | succ fuel ih =>
    intro num n out hw hlen hok
    simp only [toDigitsImpl] at hok ⊢
    split at hok
    · rename_i hbig
      rw [if_pos hbig]
      simp only [Bool.and_eq_true, decide_eq_true_eq] at hok
      obtain ⟨⟨ok1, ok2⟩, hk⟩ := hok
      -- the mega digit
      have hbw : WF (fromU64 base) := WF_singleton (by rw [B_eq]; omega)
      have hbv : val (fromU64 base) = base := by simp [fromU64]
      have hdpw : 64 / bitLen base ≤ 64 := Nat.div_le_self _ _
      have hkb : 64 / bitLen base * (num.length / 2 - 1) ≤ 64 * L :=
        Nat.mul_le_mul hdpw (by omega)
      obtain ⟨p1, p2⟩ := powi_val hbw (64 / bitLen base * (num.length / 2 - 1))
        (by simp [fromU64]; omega)
      rw [hbv] at p1
      have hmnz : val (powi (fromU64 base) (64 / bitLen base * (num.length / 2 - 1))) ≠ 0 := by
        rw [p1]; exact Nat.ne_of_gt (Nat.pow_pos (by omega))
      obtain ⟨d1, d2, d3, d4⟩ := divRem_val hw p2 hmnz
      obtain ⟨l1, l2⟩ := length_divRem hw p2 hmnz
      rw [p1] at d1 d2
      obtain ⟨t1, _, _, _⟩ := ih _ _ out d4 (by omega) ok1
      obtain ⟨h1, h2, h3, h4⟩ := ih _ _ _ d3 (by omega) ok2
      refine ⟨?_, ?_, h3, h4⟩
      · rw [h1, t1, d1, d2, dg_mod, ← List.append_assoc, ← dg_add, Nat.sub_add_cancel hk]
      · rw [h2, d1, Nat.div_div_eq_div_mul, ← Nat.pow_add, Nat.add_sub_cancel' hk]
    · rename_i hsmall
      rw [if_neg hsmall]
      have hdw : WF (fromU64 (base ^ (64 / bitLen base))) := WF_singleton (pow_dpw_lt hb)
      have hdv : val (fromU64 (base ^ (64 / bitLen base))) = base ^ (64 / bitLen base) := by
        simp [fromU64]
      obtain ⟨f1, f2, f3, f4⟩ := leafLoop_spec hb (64 / bitLen base) _ hdw hdv
        (n / (64 / bitLen base)) num out hw
      obtain ⟨e1, e2, e3, e4⟩ := extractDigits_spec hb (n % (64 / bitLen base)) _
        (leafLoop base (64 / bitLen base) (fromU64 (base ^ (64 / bitLen base)))
          (n / (64 / bitLen base)) num out).2 f3
      dsimp only
      refine ⟨?_, ?_, e3, by omega⟩
      · rw [e1, f1, f2, ← List.append_assoc, ← dg_add, Nat.add_comm, Nat.mul_comm,
          Nat.div_add_mod]
      · rw [e2, f2, Nat.div_div_eq_div_mul, ← Nat.pow_add, Nat.mul_comm, Nat.div_add_mod]

theorem toDigitsLoop_false (base : Nat) (f : Nat) :
    ∀ (nm o : List Nat), (toDigitsLoop base f nm o false).2 = false := by
  induction f with
  | zero => intro nm o; simp [toDigitsLoop]
  | succ f ihf => intro nm o; simp only [toDigitsLoop]; split <;> simp [ihf]

theorem toDigitsLoop_spec {base : Nat} (hb : BaseOk base) (L : Nat) (hL2 : 2 ≤ L)
    (hL : L < 2 ^ 50) (fuel : Nat) :
    ∀ (num out : List Nat) (ok : Bool), WF num → num.length ≤ L →
    (toDigitsLoop base fuel num out ok).2 = true →
    ∃ D, (toDigitsLoop base fuel num out ok).1 = dg base D (val num) ++ out
      ∧ val num < base ^ D := by
  have hb' := hb
  obtain ⟨hb1, hb2⟩ := hb'
  induction fuel with
  | zero =>
    intro num out ok _ _ hok
    simp only [toDigitsLoop, Bool.and_eq_true] at hok ⊢
    have : val num = 0 := (isZero_iff num).mp hok.2
    exact ⟨0, by simp [dg], by rw [this]; simp⟩
  | succ fuel ih =>
    intro num out ok hw hlen hok
    simp only [toDigitsLoop] at hok ⊢
    split at hok
    · rename_i hnz
      rw [if_pos hnz]
      have hokI : (toDigitsImpl base (num.length + 1) num (num.length * 64 * 59 / 196) out).2.2
          = true := by
        by_contra hc
        have hcf : (toDigitsImpl base (num.length + 1) num (num.length * 64 * 59 / 196) out).2.2
            = false := by simpa using hc
        rw [hcf, Bool.and_false, toDigitsLoop_false] at hok
        exact absurd hok (by simp)
      obtain ⟨s1, s2, s3, s4⟩ := toDigitsImpl_spec hb L hL2 hL _ num _ out hw hlen hokI
      obtain ⟨D, e1, e2⟩ := ih _ _ _ s3 s4 hok
      refine ⟨D + num.length * 64 * 59 / 196, ?_, ?_⟩
      · rw [e1, s1, s2, ← List.append_assoc, ← dg_add]
      · rw [s2, Nat.div_lt_iff_lt_mul (Nat.pow_pos (by omega)), ← Nat.pow_add] at e2
        exact e2
    · rename_i hz
      rw [if_neg hz]
      have : val num = 0 := by
        apply (isZero_iff num).mp
        simpa using hz
      exact ⟨0, by simp [dg], by rw [this]; simp⟩

/-- `to_digits::<base>`: whenever it neither panics on `num_digits - k` nor diverges (`toDigitsOk`,
an executable flag), the result is the digit expansion of the value, most significant digit first
(empty for 0, like the Rust code) -/
theorem toDigits_val {base : Nat} (hb : BaseOk base) {a : List Nat} (ha : WF a)
    (hlen : a.length < 2 ^ 50) (hok : toDigitsOk base a = true) :
    toDigits base a = (Nat.digits base (val a)).reverse := by
  unfold toDigitsOk toDigitsAux at hok
  unfold toDigits toDigitsAux
  simp only at hok ⊢
  have hsl := length_shrink_le a
  by_cases h0 : val a = 0
  · have hz : isZero (shrink a) = true := (isZero_iff _).mpr (by rw [val_shrink]; exact h0)
    have : (toDigitsLoop base (64 * (shrink a).length + 1) (shrink a) [] true).1 = [] := by
      simp [toDigitsLoop, hz]
    rw [this, h0, Nat.digits_zero]; rfl
  · obtain ⟨D, e1, e2⟩ := toDigitsLoop_spec hb (max 2 a.length) (by omega) (by omega) _
      (shrink a) [] true (shrink_WF ha) (by omega) hok
    rw [e1, val_shrink, List.append_nil]
    rw [val_shrink] at e2
    obtain ⟨y, t, hy, r1, r2⟩ := dg_digits (by unfold BaseOk at hb; omega) D (val a) h0 e2
    rw [r2, r1, stripLead_replicate _ _ _ hy]

/-! ### `to_digits` never fails on numbers of at most 5 words (320 bits) -/

theorem toDigitsImpl_ok_small (base fuel : Nat) (num : List Nat) (n : Nat) (out : List Nat)
    (h : num.length ≤ 5) : (toDigitsImpl base (fuel + 1) num n out).2.2 = true := by
  simp only [toDigitsImpl]
  rw [if_neg (by omega)]

theorem toDigitsLoop_ok_small {base : Nat} (hb : BaseOk base) (fuel : Nat) :
    ∀ (num out : List Nat), WF num → num.length ≤ 5 → val num < 2 ^ fuel →
    (toDigitsLoop base fuel num out true).2 = true := by
  induction fuel with
  | zero =>
    intro num out _ _ h
    have : val num = 0 := by simpa using h
    simp [toDigitsLoop, (isZero_iff num).mpr this]
  | succ fuel ih =>
    intro num out hw hlen h
    simp only [toDigitsLoop]
    split
    · rename_i hnz
      have hok := toDigitsImpl_ok_small base num.length num (num.length * 64 * 59 / 196) out hlen
      obtain ⟨_, s2, s3, s4⟩ := toDigitsImpl_spec hb 5 (by omega) (by omega) _ num _ out hw hlen hok
      rw [hok]
      apply ih _ _ s3 s4
      rw [s2]
      -- at least one digit is removed per iteration
      have hne : num ≠ [] := by
        rintro rfl; simp [isZero] at hnz
      have hl1 : 1 ≤ num.length := List.length_pos_iff.mpr hne
      have hd : 1 ≤ num.length * 64 * 59 / 196 := by omega
      have hp : 2 ^ 1 ≤ base ^ (num.length * 64 * 59 / 196) :=
        Nat.le_trans (Nat.pow_le_pow_left hb.1 1) (Nat.pow_le_pow_right (by have := hb.1; omega) hd)
      have : val num / base ^ (num.length * 64 * 59 / 196) ≤ val num / 2 ^ 1 :=
        Nat.div_le_div_left hp (by omega)
      rw [Nat.pow_succ] at h
      omega
    · rfl

theorem toDigitsOk_small {base : Nat} (hb : BaseOk base) {a : List Nat} (ha : WF a)
    (hlen : a.length ≤ 5) : toDigitsOk base a = true := by
  unfold toDigitsOk toDigitsAux
  simp only
  have hsl := length_shrink_le a
  apply toDigitsLoop_ok_small hb _ _ _ (shrink_WF ha) (by omega)
  have := val_lt (shrink_WF ha)
  rw [B_pow_eq] at this
  exact Nat.lt_of_lt_of_le this (Nat.pow_le_pow_right (by omega) (by omega))

/-- unconditional correctness of `to_digits` up to 5 words (every `Float` format up to FP256) -/
theorem toDigits_val_small {base : Nat} (hb : BaseOk base) {a : List Nat} (ha : WF a)
    (hlen : a.length ≤ 5) : toDigits base a = (Nat.digits base (val a)).reverse :=
  toDigits_val hb ha (by omega) (toDigitsOk_small hb ha hlen)

/-! ### `to_digits::<10>` never fails up to 5000 words -/

/-- a list is *tight* if it has no more words than its value needs (at least 2 are allowed):
the shape produced by `shrink` -/
def Tight (l : List Nat) : Prop := ∀ n, val l < B ^ n → l.length ≤ max 2 n

theorem tight_shrink (l : List Nat) : Tight (shrink l) := by
  intro n h; rw [val_shrink] at h; exact length_shrink_le_max h

theorem tight_of_length_le {l : List Nat} (h : l.length ≤ 2) : Tight l := by
  intro n _; omega

theorem tight_subSlice (a b : List Nat) (z : Nat) : Tight (subSlice a b z).1 := by
  unfold subSlice; exact tight_shrink _

theorem tight_divRem_fst (a d : List Nat) : Tight (divRem a d).1 := by
  unfold divRem
  split
  · exact tight_of_length_le (by simp)
  · dsimp only
    split
    · exact tight_of_length_le (by simp [zero])
    · exact tight_shrink _

theorem divLoop_tight (a : List Nat) (n : Nat) : ∀ (dv ds q : List Nat),
    (dv = a ∨ Tight dv) → ((divLoop n dv ds q).2 = a ∨ Tight (divLoop n dv ds q).2) := by
  induction n with
  | zero => intro dv ds q h; simpa [divLoop] using h
  | succ i ih =>
    intro dv ds q h
    simp only [divLoop]
    split
    · exact ih _ _ _ (Or.inr (tight_subSlice _ _ _))
    · exact ih _ _ _ h

theorem tight_divRem_snd {a d : List Nat} (ha : WF a) (hd : WF d) (hnz : val d ≠ 0)
    (hle : val d ≤ val a) : Tight (divRem a d).2 := by
  have hr := (divRem_val ha hd hnz).2.1
  have hlt : val a % val d < val d := Nat.mod_lt _ (by omega)
  unfold divRem at hr ⊢
  split
  · exact tight_of_length_le (by simp [fromU64])
  · rename_i h1
    rw [if_neg h1] at hr
    dsimp only at hr ⊢
    split
    · rename_i h2
      rw [if_pos h2] at hr
      simp only at hr
      omega
    · rename_i h2
      rw [if_neg h2] at hr
      simp only at hr
      rcases divLoop_tight a _ a (shiftLeft d (msbIndex a - msbIndex d)) zero (Or.inl rfl) with h | h
      · rw [h] at hr; omega
      · exact h

theorem tight_extractDigits (base : Nat) (n : Nat) : ∀ (num out : List Nat), Tight num →
    Tight (extractDigits base n num out).1 := by
  induction n with
  | zero => intro num out h; simpa [extractDigits] using h
  | succ n ih => intro num out _; simp only [extractDigits]; exact ih _ _ (tight_divRem_fst _ _)

theorem tight_leafLoop (base dpw : Nat) (divisor : List Nat) (n : Nat) : ∀ (num out : List Nat),
    Tight num → Tight (leafLoop base dpw divisor n num out).1 := by
  induction n with
  | zero => intro num out h; simpa [leafLoop] using h
  | succ n ih => intro num out _; simp only [leafLoop]; exact ih _ _ (tight_divRem_fst _ _)

theorem tight_toDigitsImpl (base : Nat) (fuel : Nat) : ∀ (num : List Nat) (n : Nat) (out : List Nat),
    Tight num → Tight (toDigitsImpl base fuel num n out).1 := by
  induction fuel with
  | zero => intro num n out h; simpa [toDigitsImpl] using h
  | succ fuel ih =>
    intro num n out h
    simp only [toDigitsImpl]
    split
    · exact ih _ _ _ (tight_divRem_fst _ _)
    · exact tight_extractDigits _ _ _ _ (tight_leafLoop _ _ _ _ _ _ h)

theorem bitLen_ten : bitLen 10 = 4 := by decide

theorem baseOk_ten : BaseOk 10 := by unfold BaseOk; omega

/-- a tight list of at least 3 words has a non-zero top part -/
theorem tight_lower {l : List Nat} (h : Tight l) (h3 : 3 ≤ l.length) : B ^ (l.length - 1) ≤ val l := by
  by_contra hc
  have := h (l.length - 1) (by omega)
  omega

theorem toDigitsImpl_ok10 (L : Nat) (hL : L < 2 ^ 50) (fuel : Nat) :
    ∀ (num : List Nat) (n : Nat) (out : List Nat), WF num → Tight num → num.length < fuel →
    num.length ≤ L → val num < 10 ^ (n + 48) →
    (toDigitsImpl 10 fuel num n out).2.2 = true := by
  induction fuel with
  | zero => intro num n out _ _ h; omega
  | succ fuel ih =>
    intro num n out hw ht hfuel hlen hv
    simp only [toDigitsImpl]
    split
    · rename_i hbig
      rw [bitLen_ten]
      have hdpw : 64 / 4 = 16 := by norm_num
      rw [hdpw]
      set half := num.length / 2 - 1 with hhalf
      have hh2 : 2 ≤ half := by omega
      have hk8 : 16 * half ≤ 8 * num.length - 16 := by omega
      -- the mega digit
      have hbw : WF (fromU64 10) := WF_singleton (by rw [B_eq]; omega)
      have hbv : val (fromU64 10) = 10 := by simp [fromU64]
      obtain ⟨p1, p2⟩ := powi_val hbw (16 * half) (by simp [fromU64]; omega)
      rw [hbv] at p1
      have hmpos : 0 < 10 ^ (16 * half) := Nat.pow_pos (by omega)
      have hmnz : val (powi (fromU64 10) (16 * half)) ≠ 0 := by rw [p1]; omega
      -- num is normalised, hence at least B^(len-1)
      have hlow := tight_lower ht (by omega)
      have hup := val_lt hw
      -- k ≤ n
      have hkn : 16 * half ≤ n := by
        have h16 : (10 : Nat) ^ (n + 48) ≤ 16 ^ (n + 48) := Nat.pow_le_pow_left (by omega) _
        have e16 : (16 : Nat) ^ (n + 48) = 2 ^ (4 * (n + 48)) := by
          rw [show (16 : Nat) = 2 ^ 4 by norm_num, ← Nat.pow_mul]
        rw [B_pow_eq] at hlow
        have hlt : 2 ^ (64 * (num.length - 1)) < 2 ^ (4 * (n + 48)) := by omega
        have := (Nat.pow_lt_pow_iff_right (by omega)).mp hlt
        omega
      -- mega ≤ num
      have hmega_le_B : 10 ^ (16 * half) ≤ B ^ half := by
        rw [Nat.pow_mul]
        exact Nat.pow_le_pow_left (by rw [B_eq]; norm_num) _
      have hBle : B ^ half ≤ B ^ (num.length - 1) := Nat.pow_le_pow_right B_pos (by omega)
      have hge : val (powi (fromU64 10) (16 * half)) ≤ val num := by rw [p1]; omega
      obtain ⟨d1, d2, d3, d4⟩ := divRem_val hw p2 hmnz
      rw [p1] at d1 d2
      have tq := tight_divRem_fst num (powi (fromU64 10) (16 * half))
      have tr := tight_divRem_snd hw p2 hmnz hge
      -- lengths
      have hrlt : val (divRem num (powi (fromU64 10) (16 * half))).2 < B ^ half := by
        rw [d2]; exact Nat.lt_of_lt_of_le (Nat.mod_lt _ hmpos) hmega_le_B
      have lr := tr half hrlt
      have hBmega : B ≤ 10 ^ (16 * half) := by
        have : (10 : Nat) ^ (16 * 2) ≤ 10 ^ (16 * half) := Nat.pow_le_pow_right (by omega) (by omega)
        rw [B_eq]; norm_num at this ⊢; omega
      have hqlt : val (divRem num (powi (fromU64 10) (16 * half))).1 < B ^ (num.length - 1) := by
        rw [d1]
        have h1 : val num / 10 ^ (16 * half) ≤ val num / B := Nat.div_le_div_left hBmega B_pos
        have h2 : val num / B < B ^ (num.length - 1) := by
          rw [Nat.div_lt_iff_lt_mul B_pos, ← Nat.pow_succ]
          have : (num.length - 1).succ = num.length := by omega
          rw [this]; exact hup
        omega
      have lq := tq (num.length - 1) hqlt
      -- the two recursive calls
      have ok1 := ih _ (16 * half) out d4 tr (by omega) (by omega)
        (by rw [d2]
            exact Nat.lt_of_lt_of_le (Nat.mod_lt _ hmpos) (Nat.pow_le_pow_right (by omega) (by omega)))
      have ok2 := ih _ (n - 16 * half)
        (toDigitsImpl 10 fuel (divRem num (powi (fromU64 10) (16 * half))).2 (16 * half) out).2.1
        d3 tq (by omega) (by omega)
        (by rw [d1, Nat.div_lt_iff_lt_mul hmpos, ← Nat.pow_add]
            have : n - 16 * half + 48 + 16 * half = n + 48 := by omega
            rw [this]; exact hv)
      simp only [ok1, ok2, Bool.true_and, decide_eq_true_eq]
      exact hkn
    · rfl

/-- `2^(64·len) ≤ 10^(⌊len·64·59/196⌋ + 48)` for `len ≤ 5000` (uses `2^93 < 10^28`) -/
theorem budget_bound {len : Nat} (h : len ≤ 5000) :
    B ^ len ≤ 10 ^ (len * 64 * 59 / 196 + 48) := by
  rw [B_pow_eq]
  have h1 : 2 ^ (64 * len) ≤ 2 ^ (93 * (64 * len / 93 + 1)) :=
    Nat.pow_le_pow_right (by omega) (by omega)
  have h2 : (2 : Nat) ^ (93 * (64 * len / 93 + 1)) ≤ 10 ^ (28 * (64 * len / 93 + 1)) := by
    rw [Nat.pow_mul, Nat.pow_mul]
    exact Nat.pow_le_pow_left (by norm_num) _
  have h3 : (10 : Nat) ^ (28 * (64 * len / 93 + 1)) ≤ 10 ^ (len * 64 * 59 / 196 + 48) :=
    Nat.pow_le_pow_right (by omega) (by omega)
  exact Nat.le_trans h1 (Nat.le_trans h2 h3)

/-- `to_digits::<10>` neither panics nor diverges on any number of at most 5000 words
(320 000 bits, 96 000 decimal digits) -/
theorem toDigitsOk_ten {a : List Nat} (ha : WF a) (hlen : a.length ≤ 5000) :
    toDigitsOk 10 a = true := by
  unfold toDigitsOk toDigitsAux
  simp only
  have hsl := length_shrink_le a
  have hw := shrink_WF ha
  have ht := tight_shrink a
  have hvl := val_lt hw
  by_cases hsmall : (shrink a).length ≤ 5
  · apply toDigitsLoop_ok_small baseOk_ten _ _ _ hw hsmall
    rw [B_pow_eq] at hvl
    exact Nat.lt_of_lt_of_le hvl (Nat.pow_le_pow_right (by omega) (by omega))
  · simp only [toDigitsLoop]
    split
    · have hbud := budget_bound (len := (shrink a).length) (by omega)
      have hok := toDigitsImpl_ok10 5000 (by norm_num) ((shrink a).length + 1) (shrink a)
        ((shrink a).length * 64 * 59 / 196) [] hw ht (by omega) (by omega) (by omega)
      obtain ⟨_, s2, s3, s4⟩ := toDigitsImpl_spec baseOk_ten 5000 (by omega) (by norm_num) _
        (shrink a) _ [] hw (by omega) hok
      have t1 := tight_toDigitsImpl 10 ((shrink a).length + 1) (shrink a)
        ((shrink a).length * 64 * 59 / 196) [] ht
      rw [hok]
      have hv48 : val (toDigitsImpl 10 ((shrink a).length + 1) (shrink a)
          ((shrink a).length * 64 * 59 / 196) []).1 < 10 ^ 48 := by
        rw [s2, Nat.div_lt_iff_lt_mul (Nat.pow_pos (by omega)), ← Nat.pow_add, Nat.add_comm]
        omega
      have h48 : (10 : Nat) ^ 48 < B ^ 3 := by rw [B_eq]; norm_num
      have hl3 := t1 3 (by omega)
      apply toDigitsLoop_ok_small baseOk_ten _ _ _ s3 (by omega)
      have h160 : (10 : Nat) ^ 48 < 2 ^ 160 := by norm_num
      have : (2 : Nat) ^ 160 ≤ 2 ^ (64 * (shrink a).length) :=
        Nat.pow_le_pow_right (by omega) (by omega)
      omega
    · rfl

/-- unconditional correctness of `to_digits::<10>` up to 5000 words -/
theorem toDigits_ten_val {a : List Nat} (ha : WF a) (hlen : a.length ≤ 5000) :
    toDigits 10 a = (Nat.digits 10 (val a)).reverse :=
  toDigits_val baseOk_ten ha (by omega) (toDigitsOk_ten ha hlen)

end Arp.Limbs
