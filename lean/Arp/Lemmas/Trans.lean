import Arp.Lemmas.Canonical
import Arp.Lemmas.CastScale
import Arp.Model.Trans
/-!
# Helper lemmas for the structural theorems about constants and transcendental functions
(work package N: C15–C20).  Format tracking (`_sem`), sign symmetry of `normalize`/`cast`.
-/
namespace Arp

/-! ### Sign-symmetric rounding modes -/

/-- the modes whose rounding decision does not look at the sign -/
def RM.Symm (rm : RM) : Prop := rm = .nte ∨ rm = .nta ∨ rm = .zero ∨ rm = .none

instance (rm : RM) : Decidable rm.Symm := by unfold RM.Symm; infer_instance

@[simp] theorem Flt.neg_neg_tr (x : Flt) : x.neg.neg = x := by
  obtain ⟨s, sg, e, m, c⟩ := x
  simp [Flt.neg]

@[simp] theorem Flt.neg_sem_tr (x : Flt) : x.neg.sem = x.sem := rfl
@[simp] theorem Flt.neg_cat_tr (x : Flt) : x.neg.cat = x.cat := rfl
@[simp] theorem Flt.neg_exp_tr (x : Flt) : x.neg.exp = x.exp := rfl
@[simp] theorem Flt.neg_mant_tr (x : Flt) : x.neg.mant = x.mant := rfl
@[simp] theorem Flt.neg_sign_tr (x : Flt) : x.neg.sign = !x.sign := rfl

theorem needRoundAway_symm {rm : RM} (h : rm.Symm) (s : Bool) (m : Nat) (l : Loss) :
    needRoundAway (!s) m rm l = needRoundAway s m rm l := by
  rcases h with h | h | h | h <;> subst h <;> rfl

theorem Flt.neg_mk_tr (s : Sem) (sg : Bool) (e : Int) (m : Nat) (c : Cat) :
    Flt.neg ⟨s, sg, e, m, c⟩ = ⟨s, !sg, e, m, c⟩ := rfl

theorem overflow_neg_tr {rm : RM} (h : rm.Symm) (x : Flt) :
    (x.neg).overflow rm = (x.overflow rm).neg := by
  obtain ⟨s, sg, e, m, c⟩ := x
  rcases h with h | h | h | h <;> subst h <;>
    simp only [Flt.overflow, Flt.inf, Flt.new, Flt.zero, Flt.neg_mk_tr, apply_ite Flt.neg]
  all_goals rfl

theorem stepII_neg_tr {rm : RM} (h : rm.Symm) (y : Flt) (l : Loss) :
    Flt.normalize.stepII rm y.neg l = (Flt.normalize.stepII rm y l).neg := by
  obtain ⟨s, sg, e, m, c⟩ := y
  simp only [Flt.normalize.stepII, needRoundAway_symm h, Flt.zero, Flt.inf, Flt.neg_mk_tr,
    apply_ite Flt.neg]
  rfl

/-- **`normalize` commutes with negation** in the four sign-symmetric modes. -/
theorem normalize_neg {rm : RM} (h : rm.Symm) (x : Flt) (l : Loss) :
    (x.neg).normalize rm l = (x.normalize rm l).neg := by
  obtain ⟨s, sg, e, m, c⟩ := x
  simp only [Flt.normalize, Flt.neg_mk_tr, apply_ite Flt.neg, ← stepII_neg_tr h,
    ← overflow_neg_tr h]
  rfl

/-- **`cast_with_rm` commutes with negation** in the four sign-symmetric modes. -/
theorem cast_neg {rm : RM} (h : rm.Symm) (x : Flt) (G : Sem) :
    (x.neg).castWithRm G rm = (x.castWithRm G rm).neg := by
  obtain ⟨s, sg, e, m, c⟩ := x
  cases c
  · rfl
  · rfl
  · show (if G.e ≠ s.e ∨ G.p - 1 ≠ s.p - 1
          then (⟨G, !sg, e - (((s.p - 1 : Nat) : Int) - ((G.p - 1 : Nat) : Int)), m, .normal⟩ : Flt).normalize rm .zero
          else ⟨G, !sg, e - (((s.p - 1 : Nat) : Int) - ((G.p - 1 : Nat) : Int)), m, .normal⟩)
        = Flt.neg (if G.e ≠ s.e ∨ G.p - 1 ≠ s.p - 1
          then (⟨G, sg, e - (((s.p - 1 : Nat) : Int) - ((G.p - 1 : Nat) : Int)), m, .normal⟩ : Flt).normalize rm .zero
          else ⟨G, sg, e - (((s.p - 1 : Nat) : Int) - ((G.p - 1 : Nat) : Int)), m, .normal⟩)
    by_cases hcond : G.e ≠ s.e ∨ G.p - 1 ≠ s.p - 1
    · rw [if_pos hcond, if_pos hcond]
      exact normalize_neg h ⟨G, sg, _, m, .normal⟩ .zero
    · rw [if_neg hcond, if_neg hcond]; rfl
  · rfl

/-- the final `cast` (mode of the operand's format) commutes with negation -/
theorem cast_neg' (r : Flt) (G : Sem) (h : r.sem.rm.Symm) : (r.neg).cast G = (r.cast G).neg :=
  cast_neg h r G

/-! ### Format tracking (no canonicity hypotheses) -/

theorem addSub_sem_tr (a b : Flt) (sub : Bool) (rm : RM) : (addSub a b sub rm).sem = a.sem := by
  have hns : ((addOrSubNormals a b sub).1.normalize rm (addOrSubNormals a b sub).2).sem = a.sem := by
    obtain ⟨sg, e, m, h⟩ := addOrSubNormals_fst a b sub
    rw [h]; exact new_normalize_sem _ _ _ _ _ _
  cases hca : a.cat <;> cases hcb : b.cat <;> simp only [addSub, hca, hcb]
  all_goals first
    | rfl
    | exact Flt.new_sem _ _ _ _
    | (split <;> first | rfl | exact hns)

theorem addWithRm_sem_tr (a b : Flt) (rm : RM) : (addWithRm a b rm).sem = a.sem := addSub_sem_tr _ _ _ _
theorem subWithRm_sem_tr (a b : Flt) (rm : RM) : (subWithRm a b rm).sem = a.sem := addSub_sem_tr _ _ _ _
theorem add_sem_tr (a b : Flt) : (a.add b).sem = a.sem := addSub_sem_tr _ _ _ _
theorem sub_sem_tr (a b : Flt) : (a.sub b).sem = a.sem := addSub_sem_tr _ _ _ _

theorem mulWithRm_sem_tr (a b : Flt) (rm : RM) : (mulWithRm a b rm).sem = a.sem := by
  have hns : ∀ sg, ((mulNormals a b sg).1.normalize rm (mulNormals a b sg).2).sem = a.sem := by
    intro sg
    obtain ⟨e, m, h⟩ := mulNormals_fst a b sg
    rw [h]; exact new_normalize_sem _ _ _ _ _ _
  cases hca : a.cat <;> cases hcb : b.cat <;> simp only [mulWithRm, hca, hcb]
  all_goals first
    | rfl
    | exact hns _

theorem divWithRm_sem_tr (a b : Flt) (rm : RM) : (divWithRm a b rm).sem = a.sem := by
  have hns : ((divNormals a b).1.normalize rm (divNormals a b).2).sem = a.sem := by
    obtain ⟨sg, e, m, h⟩ := divNormals_fst a b
    rw [h]; exact new_normalize_sem _ _ _ _ _ _
  cases hca : a.cat <;> cases hcb : b.cat <;> simp only [divWithRm, hca, hcb]
  all_goals first
    | rfl
    | exact hns

theorem mul_sem_tr (a b : Flt) : (a.mul b).sem = a.sem := mulWithRm_sem_tr _ _ _
theorem div_sem_tr (a b : Flt) : (a.div b).sem = a.sem := divWithRm_sem_tr _ _ _

theorem scale_sem_tr (x : Flt) (k : Int) (rm : RM) : (x.scale k rm).sem = x.sem := by
  unfold Flt.scale Flt.scaleCore
  split
  · rfl
  · exact new_normalize_sem _ _ _ _ _ _

theorem cast_sem_tr (x : Flt) (G : Sem) : (x.cast G).sem = G := castWithRm_sem _ _ _

theorem Sem.growLog_WF {s : Sem} (h : s.WF) (k : Nat) : (s.growLog k).WF := by
  have := h.2
  exact ⟨h.1, by simp only [Sem.growLog]; omega⟩

@[simp] theorem Sem.growLog_rm (s : Sem) (k : Nat) : (s.growLog k).rm = s.rm := rfl
@[simp] theorem Sem.increaseExponent_rm (s : Sem) (k : Nat) : (s.increaseExponent k).rm = s.rm := rfl
@[simp] theorem Sem.increasePrecision_rm (s : Sem) (k : Nat) : (s.increasePrecision k).rm = s.rm := rfl

theorem powi_sem_tr (x : Flt) (n : Nat) : (x.powi n).sem = x.sem := castWithRm_sem _ _ _
theorem sqr_sem_tr (x : Flt) : x.sqr.sem = x.sem := castWithRm_sem _ _ _

/-! ### sem tracking of the loops -/

theorem remLoop_sem_tr (fuel : Nat) (lhs rhs r : Flt) (h : remLoop fuel lhs rhs = some r) :
    r.sem = lhs.sem := by
  induction fuel generalizing lhs with
  | zero => simp [remLoop] at h
  | succ fuel ih =>
    simp only [remLoop] at h
    split at h
    · exact (ih _ h).trans (sub_sem_tr _ _)
    · cases h; rfl

theorem remFuel_sem_tr (fuel : Nat) (x y r : Flt) (h : x.remFuel fuel y = some r) : r.sem = x.sem := by
  unfold Flt.remFuel at h
  split at h
  · cases h; rfl
  · split at h
    · cases h; rfl
    · simp only [Option.map_eq_some_iff] at h
      obtain ⟨r0, h0, rfl⟩ := h
      exact remLoop_sem_tr _ x.abs _ r0 h0

theorem remM_sem_tr (x y r : Flt) (h : x.remM y = some r) : r.sem = x.sem := remFuel_sem_tr _ _ _ _ h

theorem sinTaylorLoop_sem (sem : Sem) (x2 : Flt) (n i : Nat) (neg : Bool) (top : Flt) (bottom : Nat)
    (sum prev : Flt) : (sinTaylorLoop sem x2 n i neg top bottom sum prev).sem = sum.sem := by
  induction n generalizing i neg top bottom sum prev with
  | zero => rfl
  | succ n ih =>
    simp only [sinTaylorLoop]
    split
    · rfl
    · rw [ih]; split
      · exact sub_sem_tr _ _
      · exact add_sem_tr _ _

theorem sinTaylor_sem (x : Flt) : (sinTaylor x).sem = x.sem := by
  unfold sinTaylor; rw [sinTaylorLoop_sem]; rfl

theorem sinStep4_sem (k : Nat) (x : Flt) : (sinStep4 k x).sem = x.sem := by
  induction k generalizing x with
  | zero => exact sinTaylor_sem x
  | succ k ih =>
    simp only [sinStep4]
    rw [subWithRm_sem_tr, mulWithRm_sem_tr, ih, divWithRm_sem_tr]

theorem fromU64_sem_tr (F : Sem) (n : Nat) : (fromU64 F n).sem = F := castWithRm_sem _ _ _

theorem fromI64_sem_tr (F : Sem) (v : Int) : (fromI64 F v).sem = F := by
  unfold fromI64; split
  · exact fromU64_sem_tr _ _
  · exact fromU64_sem_tr _ _

theorem piLoop_sem (fuel : Nat) (a b t x gap a' t' : Flt)
    (h : piLoop fuel a b t x gap = some (a', t')) :
    a'.sem = a.sem := by
  induction fuel generalizing a b t x gap with
  | zero => simp [piLoop] at h
  | succ fuel ih =>
    simp only [piLoop] at h
    split at h
    · cases h; rfl
    · split at h
      · cases h
      · split at h
        · cases h; rw [scale_sem_tr, add_sem_tr]
        · rw [ih _ _ _ _ _ h, scale_sem_tr, add_sem_tr]

/-- the result of `pi` has the requested format -/
theorem piFuel_sem (fuel : Nat) (F : Sem) (r : Flt) (h : piFuel fuel F = some r) : r.sem = F := by
  unfold piFuel at h
  simp only at h
  split at h
  · cases h
  · split at h
    · cases h
    · cases h; exact cast_sem_tr _ _

/-- the result of `pi` is canonical -/
theorem piFuel_canonical (fuel : Nat) (F : Sem) (hF : F.WF) (r : Flt) (h : piFuel fuel F = some r) :
    r.Canonical ∧ r.sem = F := by
  refine ⟨?_, piFuel_sem fuel F r h⟩
  unfold piFuel at h
  simp only at h
  split at h
  · cases h
  · split at h
    · cases h
    · rename_i s2 _ a t hl
      cases h
      have ha : a.sem = F.growLog 4 := (piLoop_sem _ _ _ _ _ _ _ _ hl).trans (fromI64_sem_tr _ _)
      have hW : (a.sqr).sem.WF := by rw [sqr_sem_tr, ha]; exact Sem.growLog_WF hF 4
      exact (cast_canonical _ F hF (div_canonical a.sqr t hW).1).1

/-! ### `sin`: the part after the special cases, as a function of the widened operand -/

/-- the range reduction of `sin` (proof device: the `red` block of `Flt.sinFuel`) -/
def sinRed (fuel : Nat) (sem : Sem) (small : Bool) (v1 : Flt) (neg0 : Bool) : Option (Flt × Bool) :=
  if !small then
    match piFuel fuel sem with
    | none => none
    | some pi =>
      let pi2 := pi.scale 1 .none
      let piHalf := pi.scale (-1) .none
      match (if v1.gt pi2 then v1.remM pi2 else some v1) with
      | none => none
      | some v2 =>
        let r3 := if v2.gt pi then (subWithRm v2 pi .none, !neg0) else (v2, neg0)
        let v4 := if r3.1.gt piHalf then subWithRm pi r3.1 .none else r3.1
        some (v4, r3.2)
  else some (v1, neg0)

/-- the sign-magnitude split used by `sin`/`cos`/`tan`: `|v0|` -/
def absOf (v0 : Flt) : Flt := if v0.sign then v0.neg else v0

theorem absOf_neg (v0 : Flt) : absOf v0.neg = absOf v0 := by
  obtain ⟨s, sg, e, m, c⟩ := v0
  cases sg <;> rfl

theorem absOf_sem (v0 : Flt) : (absOf v0).sem = v0.sem := by
  unfold absOf; split <;> rfl

/-- common tail of `sin`/`tan`: compute on the reduced argument, negate if needed, cast back -/
def finishWith (orig : Sem) (g : Flt → Option Flt) (o : Option (Flt × Bool)) : Option Flt :=
  match o with
  | none => none
  | some (v, neg) => (g v).map (fun res => (if neg then res.neg else res).cast orig)

theorem finishWith_flip (orig : Sem) (g : Flt → Option Flt) (o : Option (Flt × Bool))
    (h : ∀ v n r, o = some (v, n) → g v = some r → r.sem.rm.Symm) :
    finishWith orig g (o.map (fun p => (p.1, !p.2))) = (finishWith orig g o).map Flt.neg := by
  cases o with
  | none => rfl
  | some p =>
    obtain ⟨v, n⟩ := p
    simp only [finishWith, Option.map_some]
    cases hg : g v with
    | none => rfl
    | some r =>
      have hsym := h v n r rfl hg
      simp only [Option.map_some]
      cases n
      · simp only [Bool.not_false, if_true, Bool.false_eq_true, if_false]
        rw [cast_neg' _ _ hsym]
      · simp only [Bool.not_true, Bool.false_eq_true, if_false, if_true]
        rw [cast_neg' _ _ (by exact hsym), Flt.neg_neg_tr]

/-- `sin` on the widened operand `v0` (proof device) -/
def sinTail (fuel : Nat) (orig : Sem) (small : Bool) (v0 : Flt) : Option Flt :=
  finishWith orig (fun v => some (sinStep4 (orig.logPrecision * 4) v))
    (sinRed fuel ((orig.growLog 12).increaseExponent 4) small (absOf v0) v0.sign)

theorem sinFuel_normal (f : Nat) (x : Flt) (hx : x.cat = .normal) :
    x.sinFuel f = sinTail f x.sem (decide (x.exp < 0))
      (x.castWithRm ((x.sem.growLog 12).increaseExponent 4) .none) := by
  unfold Flt.sinFuel sinTail sinRed finishWith absOf
  simp only [Flt.isZero, Flt.isNan, Flt.isInf, hx, show (Cat.normal == Cat.zero) = false from rfl,
    show (Cat.normal == Cat.nan) = false from rfl, show (Cat.normal == Cat.inf) = false from rfl,
    Bool.or_self, Bool.false_eq_true, if_false]
  rfl

theorem sinRed_flip (fuel : Nat) (sem : Sem) (small : Bool) (v1 : Flt) (neg0 : Bool) :
    sinRed fuel sem small v1 (!neg0) = (sinRed fuel sem small v1 neg0).map (fun p => (p.1, !p.2)) := by
  unfold sinRed
  cases small
  · simp only [Bool.not_false, if_true]
    cases piFuel fuel sem with
    | none => rfl
    | some pi =>
      simp only
      cases (if v1.gt (pi.scale 1 .none) then v1.remM (pi.scale 1 .none) else some v1) with
      | none => rfl
      | some v2 =>
        simp only [Option.map_some]
        by_cases h : v2.gt pi = true
        · simp only [h, if_true]
        · simp only [h, Bool.false_eq_true, if_false]
  · rfl

theorem sinRed_sem (fuel : Nat) (sem : Sem) (small : Bool) (v1 : Flt) (neg0 : Bool) (v : Flt) (n : Bool)
    (hv : v1.sem = sem) (h : sinRed fuel sem small v1 neg0 = some (v, n)) : v.sem = sem := by
  unfold sinRed at h
  cases small
  · simp only [Bool.not_false, if_true] at h
    cases hp : piFuel fuel sem with
    | none => rw [hp] at h; cases h
    | some pi =>
      rw [hp] at h
      simp only at h
      have hps := piFuel_sem _ _ _ hp
      cases h2 : (if v1.gt (pi.scale 1 .none) then v1.remM (pi.scale 1 .none) else some v1) with
      | none => rw [h2] at h; cases h
      | some v2 =>
        rw [h2] at h
        simp only [Option.some.injEq, Prod.mk.injEq] at h
        have hv2 : v2.sem = sem := by
          split at h2
          · exact (remM_sem_tr _ _ _ h2).trans hv
          · cases h2; exact hv
        rw [← h.1]
        have hr3 : (if v2.gt pi = true then (subWithRm v2 pi .none, !neg0) else (v2, neg0)).1.sem = sem := by
          split
          · exact (subWithRm_sem_tr _ _ _).trans hv2
          · exact hv2
        generalize (if v2.gt pi = true then (subWithRm v2 pi .none, !neg0) else (v2, neg0)) = r3 at hr3 ⊢
        split
        · exact (subWithRm_sem_tr _ _ _).trans hps
        · exact hr3
  · simp only [Bool.not_true, Bool.false_eq_true, if_false, Option.some.injEq, Prod.mk.injEq] at h
    rw [← h.1]; exact hv

/-- the tail of `sin` is odd in the widened operand, in the sign-symmetric modes -/
theorem sinTail_neg (fuel : Nat) (orig : Sem) (small : Bool) (v0 : Flt) (hrm : orig.rm.Symm)
    (hv : v0.sem = (orig.growLog 12).increaseExponent 4) :
    sinTail fuel orig small v0.neg = (sinTail fuel orig small v0).map Flt.neg := by
  unfold sinTail
  rw [absOf_neg, Flt.neg_sign_tr, sinRed_flip]
  apply finishWith_flip
  intro v n r hr hg
  cases hg
  rw [sinStep4_sem, sinRed_sem _ _ _ _ _ _ _ ((absOf_sem v0).trans hv) hr]
  exact hrm

theorem sinFuel_sem (f : Nat) (x r : Flt) (h : x.sinFuel f = some r) : r.sem = x.sem := by
  by_cases hx : x.cat = .normal
  · rw [sinFuel_normal f x hx] at h
    unfold sinTail finishWith at h
    split at h
    · cases h
    · simp only [Option.map_some, Option.some.injEq] at h
      rw [← h]; exact cast_sem_tr _ _
  · unfold Flt.sinFuel at h
    cases hc : x.cat <;> simp [Flt.isZero, Flt.isNan, Flt.isInf, hc] at h
    · rw [← h]; rfl
    · rw [← h]
    · exact absurd hc hx
    · rw [← h]

/-! ### `tan` -/

/-- the range reduction of `tan` (proof device: the `red` block of `Flt.tanFuel`) -/
def tanRed (fuel : Nat) (sem : Sem) (small : Bool) (v1 : Flt) (neg0 : Bool) : Option (Flt × Bool) :=
  if !small then
    match piFuel fuel sem with
    | none => none
    | some pi =>
      let halfPi := pi.scale (-1) .none
      match (if v1.gt pi then v1.remM pi else some v1) with
      | none => none
      | some v2 =>
        if v2.gt halfPi then some (pi.sub v2, !neg0) else some (v2, neg0)
  else some (v1, neg0)

/-- `sin/√(1−sin²)` on the reduced argument (proof device) -/
def tanCore (fuel : Nat) (sem : Sem) (v : Flt) : Option Flt :=
  match v.sinFuel fuel with
  | none => none
  | some sinx =>
    match ((Flt.one sem false).sub sinx.sqr).sqrtM with
    | none => none
    | some bottom => some (sinx.div bottom)

def tanTail (fuel : Nat) (orig : Sem) (small : Bool) (v0 : Flt) : Option Flt :=
  finishWith orig (tanCore fuel (((orig.increasePrecision orig.p).growLog 12).increaseExponent 4))
    (tanRed fuel (((orig.increasePrecision orig.p).growLog 12).increaseExponent 4) small (absOf v0) v0.sign)

theorem tanFuel_normal (f : Nat) (x : Flt) (hx : x.cat = .normal) :
    x.tanFuel f = tanTail f x.sem (decide (x.exp < 0))
      (x.castWithRm (((x.sem.increasePrecision x.sem.p).growLog 12).increaseExponent 4) .none) := by
  unfold Flt.tanFuel tanTail finishWith
  simp only [Flt.isZero, Flt.isNan, Flt.isInf, hx, show (Cat.normal == Cat.zero) = false from rfl,
    show (Cat.normal == Cat.nan) = false from rfl, show (Cat.normal == Cat.inf) = false from rfl,
    Bool.or_self, Bool.false_eq_true, if_false]
  show (match tanRed f (((x.sem.increasePrecision x.sem.p).growLog 12).increaseExponent 4) (decide (x.exp < 0))
      (absOf (x.castWithRm (((x.sem.increasePrecision x.sem.p).growLog 12).increaseExponent 4) .none))
      (x.castWithRm (((x.sem.increasePrecision x.sem.p).growLog 12).increaseExponent 4) .none).sign with
    | none => none
    | some (v, neg) => _) = _
  cases tanRed f (((x.sem.increasePrecision x.sem.p).growLog 12).increaseExponent 4) (decide (x.exp < 0))
      (absOf (x.castWithRm (((x.sem.increasePrecision x.sem.p).growLog 12).increaseExponent 4) .none))
      (x.castWithRm (((x.sem.increasePrecision x.sem.p).growLog 12).increaseExponent 4) .none).sign with
  | none => rfl
  | some p =>
    obtain ⟨v, n⟩ := p
    simp only [tanCore]
    cases v.sinFuel f with
    | none => rfl
    | some sinx =>
      simp only
      cases ((Flt.one (((x.sem.increasePrecision x.sem.p).growLog 12).increaseExponent 4) false).sub sinx.sqr).sqrtM with
      | none => rfl
      | some bottom => rfl

theorem tanRed_flip (fuel : Nat) (sem : Sem) (small : Bool) (v1 : Flt) (neg0 : Bool) :
    tanRed fuel sem small v1 (!neg0) = (tanRed fuel sem small v1 neg0).map (fun p => (p.1, !p.2)) := by
  unfold tanRed
  cases small
  · simp only [Bool.not_false, if_true]
    cases piFuel fuel sem with
    | none => rfl
    | some pi =>
      simp only
      cases (if v1.gt pi then v1.remM pi else some v1) with
      | none => rfl
      | some v2 =>
        simp only
        by_cases h : v2.gt (pi.scale (-1) .none) = true
        · simp only [h, if_true, Option.map_some]
        · simp only [h, Bool.false_eq_true, if_false, Option.map_some]
  · rfl

theorem tanRed_sem (fuel : Nat) (sem : Sem) (small : Bool) (v1 : Flt) (neg0 : Bool) (v : Flt) (n : Bool)
    (hv : v1.sem = sem) (h : tanRed fuel sem small v1 neg0 = some (v, n)) : v.sem = sem := by
  unfold tanRed at h
  cases small
  · simp only [Bool.not_false, if_true] at h
    cases hp : piFuel fuel sem with
    | none => rw [hp] at h; cases h
    | some pi =>
      rw [hp] at h
      simp only at h
      have hps := piFuel_sem _ _ _ hp
      cases h2 : (if v1.gt pi then v1.remM pi else some v1) with
      | none => rw [h2] at h; cases h
      | some v2 =>
        rw [h2] at h
        have hv2 : v2.sem = sem := by
          split at h2
          · exact (remM_sem_tr _ _ _ h2).trans hv
          · cases h2; exact hv
        simp only at h
        split at h
        · cases h; exact (sub_sem_tr _ _).trans hps
        · cases h; exact hv2
  · simp only [Bool.not_true, Bool.false_eq_true, if_false, Option.some.injEq, Prod.mk.injEq] at h
    rw [← h.1]; exact hv

theorem tanTail_neg (fuel : Nat) (orig : Sem) (small : Bool) (v0 : Flt) (hrm : orig.rm.Symm)
    (hv : v0.sem = ((orig.increasePrecision orig.p).growLog 12).increaseExponent 4) :
    tanTail fuel orig small v0.neg = (tanTail fuel orig small v0).map Flt.neg := by
  unfold tanTail
  rw [absOf_neg, Flt.neg_sign_tr, tanRed_flip]
  apply finishWith_flip
  intro v n r hr hg
  have hvs := tanRed_sem _ _ _ _ _ _ _ ((absOf_sem v0).trans hv) hr
  unfold tanCore at hg
  split at hg
  · cases hg
  · rename_i sinx hsin
    split at hg
    · cases hg
    · cases hg
      rw [div_sem_tr, sinFuel_sem _ _ _ hsin, hvs]
      exact hrm

/-! ### `cos` -/

def cosRed (fuel : Nat) (sem : Sem) (small : Bool) (v1 : Flt) : Option (Flt × Bool) :=
  if !small then
    match piFuel fuel sem with
    | none => none
    | some pi =>
      let pi2 := pi.scale 1 .none
      let piHalf := pi.scale (-1) .none
      match (if v1.gt pi2 then v1.remM pi2 else some v1) with
      | none => none
      | some v2 =>
        let v3 := if v2.gt pi then subWithRm pi2 v2 .none else v2
        if v3.gt piHalf then some (subWithRm pi v3 .none, true) else some (v3, false)
  else some (v1, false)

def cosTail (fuel : Nat) (orig : Sem) (small : Bool) (v1 : Flt) : Option Flt :=
  let sem := (orig.growLog 14).increaseExponent 4
  match cosRed fuel sem small v1 with
  | none => none
  | some (v, neg) =>
    let res := cosStep4 ((sem.logPrecision * 8) / 10) v
    some ((if neg then res.neg else res).cast orig)

theorem cosFuel_normal (f : Nat) (x : Flt) (hx : x.cat = .normal) :
    x.cosFuel f = cosTail f x.sem (decide (x.exp < 0))
      (absOf (x.castWithRm ((x.sem.growLog 14).increaseExponent 4) .none)) := by
  unfold Flt.cosFuel cosTail cosRed absOf
  simp only [Flt.isZero, Flt.isNan, Flt.isInf, hx, show (Cat.normal == Cat.zero) = false from rfl,
    show (Cat.normal == Cat.nan) = false from rfl, show (Cat.normal == Cat.inf) = false from rfl,
    Bool.false_eq_true, if_false]
  rfl

end Arp
