import Arp.Lemmas.Limbs
/-! # Limb model: addition, subtraction, comparison -/ 
namespace Arp.Limbs

/-! ### addition -/

theorem addCarry_spec {ss : List Nat} (h : WF ss) (c : Bool) :
    val (addCarry ss c) = val ss + c.toNat ∧ WF (addCarry ss c) := by
  induction ss generalizing c with
  | nil => cases c <;> simp [addCarry, B_eq]
  | cons s ss ih =>
    rw [WF_cons] at h
    have hc := bool_toNat_le c
    have hs := h.1
    obtain ⟨h1, h2⟩ := oadd_spec (a := s) (b := c.toNat) (by omega)
    obtain ⟨i1, i2⟩ := ih h.2 (oadd s c.toNat).2
    simp only [addCarry, val_cons, WF_cons, i1]
    refine ⟨?_, h2, i2⟩
    simp only [B_eq] at *; omega

theorem addLoop_spec {ss rs : List Nat} (hs : WF ss) (hr : WF rs) (hl : rs.length ≤ ss.length)
    (c : Bool) :
    val (addLoop ss rs c) = val ss + val rs + c.toNat ∧ WF (addLoop ss rs c) := by
  induction ss generalizing rs c with
  | nil =>
    cases rs with
    | nil => simpa [addLoop] using addCarry_spec WF_nil c
    | cons r rs => simp at hl
  | cons s ss ih =>
    cases rs with
    | nil => simpa [addLoop] using addCarry_spec hs c
    | cons r rs =>
      rw [WF_cons] at hs hr
      have hc := bool_toNat_le c
      have hs1 := hs.1
      have hr1 := hr.1
      obtain ⟨h1, h2⟩ := oadd_spec (a := s) (b := r) (by omega)
      obtain ⟨h3, h4⟩ := oadd_spec (a := (oadd s r).1) (b := c.toNat) (by omega)
      have hor : ((oadd s r).2 || (oadd (oadd s r).1 c.toNat).2).toNat
          = (oadd s r).2.toNat + (oadd (oadd s r).1 c.toNat).2.toNat := by
        apply toNat_or_of_add_le_one
        have := bool_toNat_le (oadd s r).2
        have := bool_toNat_le (oadd (oadd s r).1 c.toNat).2
        simp only [B_eq] at *; omega
      obtain ⟨i1, i2⟩ := ih hs.2 hr.2 (by simpa using hl)
        ((oadd s r).2 || (oadd (oadd s r).1 c.toNat).2)
      simp only [addLoop, val_cons, WF_cons, i1, hor]
      refine ⟨?_, h4, i2⟩
      simp only [B_eq] at *; omega

theorem length_addCarry (ss : List Nat) (c : Bool) :
    (addCarry ss c).length ≤ ss.length + 1 ∧ ss.length ≤ (addCarry ss c).length := by
  induction ss generalizing c with
  | nil => cases c <;> simp [addCarry]
  | cons s ss ih => have := ih (oadd s c.toNat).2; simp only [addCarry, List.length_cons]; omega

theorem length_addLoop (ss rs : List Nat) (c : Bool) (hl : rs.length ≤ ss.length) :
    (addLoop ss rs c).length ≤ ss.length + 1 ∧ ss.length ≤ (addLoop ss rs c).length := by
  induction ss generalizing rs c with
  | nil =>
    cases rs with
    | nil => simpa [addLoop] using length_addCarry [] c
    | cons r rs => simp at hl
  | cons s ss ih =>
    cases rs with
    | nil => simpa [addLoop] using length_addCarry (s :: ss) c
    | cons r rs =>
      have := ih rs ((oadd s r).2 || (oadd (oadd s r).1 c.toNat).2) (by simpa using hl)
      simp only [addLoop, List.length_cons]; omega

/-- `inplace_add_slice` is exact addition -/
theorem addSlice_val {a b : List Nat} (ha : WF a) (hb : WF b) :
    val (addSlice a b) = val a + val b ∧ WF (addSlice a b) := by
  unfold addSlice
  obtain ⟨h1, h2⟩ := addLoop_spec (WF_grow ha b.length) hb (by simp) false
  exact ⟨by simp [h1], shrink_WF h2⟩

theorem length_addSlice_le (a b : List Nat) :
    (addSlice a b).length ≤ max a.length b.length + 1 := by
  unfold addSlice
  have h1 := length_shrink_le (addLoop (grow a b.length) b false)
  have h2 := (length_addLoop (grow a b.length) b false (by simp)).1
  simp at h2; omega

/-! ### subtraction -/

theorem subBorrow_spec {ss : List Nat} (h : WF ss) (c : Bool) :
    val (subBorrow ss c).1 + c.toNat = val ss + (subBorrow ss c).2.toNat * B ^ ss.length
    ∧ WF (subBorrow ss c).1 ∧ (subBorrow ss c).1.length = ss.length := by
  induction ss generalizing c with
  | nil => simp [subBorrow]
  | cons s ss ih =>
    rw [WF_cons] at h
    have hc := bool_toNat_le c
    have hs := h.1
    obtain ⟨h1, h2⟩ := osub_spec (a := s) (b := c.toNat) hs (by simp only [B_eq]; omega)
    obtain ⟨i1, i2, i3⟩ := ih h.2 (osub s c.toNat).2
    simp only [subBorrow, val_cons, WF_cons, List.length_cons, i3]
    refine ⟨?_, ⟨h2, i2⟩, trivial⟩
    have e : (subBorrow ss (osub s c.toNat).2).2.toNat * B ^ (ss.length + 1)
        = B * ((subBorrow ss (osub s c.toNat).2).2.toNat * B ^ ss.length) := by
      rw [Nat.pow_succ]; ring
    rw [e]
    generalize (subBorrow ss (osub s c.toNat).2).2.toNat * B ^ ss.length = X at *
    simp only [B_eq] at *; omega

theorem subLoop_spec {ss rs : List Nat} (hs : WF ss) (hr : WF rs) (hl : rs.length ≤ ss.length)
    (bz : Nat) (hz : val (rs.take bz) = 0) (c : Bool) (hc0 : bz ≠ 0 → c = false) :
    val (subLoop ss rs bz c).1 + val rs + c.toNat
        = val ss + (subLoop ss rs bz c).2.toNat * B ^ ss.length
    ∧ WF (subLoop ss rs bz c).1 ∧ (subLoop ss rs bz c).1.length = ss.length := by
  induction ss generalizing rs bz c with
  | nil =>
    cases rs with
    | nil => simp [subLoop, subBorrow]
    | cons r rs => simp at hl
  | cons s ss ih =>
    cases rs with
    | nil => simpa [subLoop] using subBorrow_spec hs c
    | cons r rs =>
      rw [WF_cons] at hs hr
      have hs1 := hs.1
      have hr1 := hr.1
      cases bz with
      | succ bz =>
        have hcf : c = false := hc0 (by simp)
        subst hcf
        simp only [List.take_succ_cons, val_cons] at hz
        have hpos := B_pos
        have hr0 : r = 0 := by omega
        have hz' : val (rs.take bz) = 0 := by
          have : B * val (rs.take bz) = 0 := by omega
          exact (Nat.mul_eq_zero.mp this).resolve_left (by omega)
        obtain ⟨i1, i2, i3⟩ := ih hs.2 hr.2 (by simpa using hl) bz hz' false (fun _ => rfl)
        simp only [subLoop, val_cons, WF_cons, List.length_cons, i3]
        refine ⟨?_, ⟨hs1, i2⟩, trivial⟩
        have e : (subLoop ss rs bz false).2.toNat * B ^ (ss.length + 1)
            = B * ((subLoop ss rs bz false).2.toNat * B ^ ss.length) := by
          rw [Nat.pow_succ]; ring
        rw [e]
        generalize (subLoop ss rs bz false).2.toNat * B ^ ss.length = X at *
        simp only [B_eq, Bool.toNat_false] at *; omega
      | zero =>
        have hc := bool_toNat_le c
        obtain ⟨h1, h2⟩ := osub_spec (a := s) (b := r) hs1 (by omega)
        obtain ⟨h3, h4⟩ := osub_spec (a := (osub s r).1) (b := c.toNat) h2
          (by simp only [B_eq]; omega)
        have hor : ((osub s r).2 || (osub (osub s r).1 c.toNat).2).toNat
            = (osub s r).2.toNat + (osub (osub s r).1 c.toNat).2.toNat := by
          apply toNat_or_of_add_le_one
          have := bool_toNat_le (osub s r).2
          have := bool_toNat_le (osub (osub s r).1 c.toNat).2
          simp only [B_eq] at *; omega
        obtain ⟨i1, i2, i3⟩ := ih hs.2 hr.2 (by simpa using hl) 0 (by simp)
          ((osub s r).2 || (osub (osub s r).1 c.toNat).2) (by simp)
        simp only [subLoop, val_cons, WF_cons, List.length_cons, i3]
        refine ⟨?_, ⟨h4, i2⟩, trivial⟩
        rw [hor] at i1
        have e : (subLoop ss rs 0 ((osub s r).2 || (osub (osub s r).1 c.toNat).2)).2.toNat
              * B ^ (ss.length + 1)
            = B * ((subLoop ss rs 0 ((osub s r).2 || (osub (osub s r).1 c.toNat).2)).2.toNat
              * B ^ ss.length) := by
          rw [Nat.pow_succ]; ring
        rw [e]
        generalize (subLoop ss rs 0 ((osub s r).2 || (osub (osub s r).1 c.toNat).2)).2.toNat
          * B ^ ss.length = X at *
        simp only [B_eq] at *; omega

/-- master equation of `inplace_sub_slice`, for any number `z` of skipped low words -/
theorem subSlice_eq {a b : List Nat} (ha : WF a) (hb : WF b) (z : Nat)
    (hz : val (b.take z) = 0) :
    val (subSlice a b z).1 + val b
        = val a + (subSlice a b z).2.toNat * B ^ (max a.length b.length)
    ∧ WF (subSlice a b z).1 := by
  unfold subSlice
  obtain ⟨h1, h2, _⟩ := subLoop_spec (WF_grow ha b.length) hb (by simp) z hz false (fun _ => rfl)
  simp only [val_shrink, val_grow, length_grow, Bool.toNat_false, Nat.add_zero] at h1 ⊢
  exact ⟨h1, shrink_WF h2⟩

theorem val_lt_max {a : List Nat} (ha : WF a) (n : Nat) : val a < B ^ (max a.length n) :=
  Nat.lt_of_lt_of_le (val_lt ha) (Nat.pow_le_pow_right B_pos (Nat.le_max_left _ _))

theorem val_lt_max' {b : List Nat} (hb : WF b) (n : Nat) : val b < B ^ (max n b.length) :=
  Nat.lt_of_lt_of_le (val_lt hb) (Nat.pow_le_pow_right B_pos (Nat.le_max_right _ _))

/-- `inplace_sub_slice` with `z` known-zero low words of `b`:
exact difference and exact borrow flag -/
theorem subSlice_val_z {a b : List Nat} (ha : WF a) (hb : WF b) (z : Nat)
    (hz : val (b.take z) = 0) :
    WF (subSlice a b z).1
    ∧ (subSlice a b z).2 = decide (val a < val b)
    ∧ ((subSlice a b z).2 = false → val (subSlice a b z).1 = val a - val b)
    ∧ ((subSlice a b z).2 = true →
        val (subSlice a b z).1 + val b = val a + B ^ (max a.length b.length)) := by
  obtain ⟨h1, h2⟩ := subSlice_eq ha hb z hz
  have hr := val_lt_max (shrink_WF h2) b.length
  have hla := val_lt_max ha b.length
  have hlb := val_lt_max' hb a.length
  have hrl : val (subSlice a b z).1 < B ^ (max a.length b.length) := by
    -- the result before `shrink` has exactly `max` words
    unfold subSlice
    obtain ⟨_, g2, g3⟩ := subLoop_spec (WF_grow ha b.length) hb (by simp) z hz false (fun _ => rfl)
    have := val_lt g2
    rw [g3, length_grow] at this
    simpa using this
  refine ⟨h2, ?_, ?_, ?_⟩
  · cases hbw : (subSlice a b z).2
    · rw [hbw] at h1; simp only [Bool.toNat_false, Nat.zero_mul, Nat.add_zero] at h1
      symm; rw [decide_eq_false_iff_not]; omega
    · rw [hbw] at h1; simp only [Bool.toNat_true, Nat.one_mul] at h1
      symm; rw [decide_eq_true_iff]; omega
  · intro hbw; rw [hbw] at h1; simp only [Bool.toNat_false, Nat.zero_mul, Nat.add_zero] at h1
    omega
  · intro hbw; rw [hbw] at h1; simpa using h1

/-! ### comparison -/

/-- value of a big-endian limb list (the loops that run from the top use it) -/
def valR : List Nat → Nat
  | [] => 0
  | x :: xs => x * B ^ xs.length + valR xs

theorem valR_append_singleton (xs : List Nat) (w : Nat) : valR (xs ++ [w]) = valR xs * B + w := by
  induction xs with
  | nil => simp [valR]
  | cons x xs ih => simp only [List.cons_append, valR, ih, List.length_append, List.length_singleton,
      Nat.pow_succ]; ring

theorem valR_reverse (l : List Nat) : valR l.reverse = val l := by
  induction l with
  | nil => rfl
  | cons w ws ih => rw [List.reverse_cons, valR_append_singleton, ih, val_cons]; ring

theorem val_reverse (l : List Nat) : val l.reverse = valR l := by
  rw [← valR_reverse, List.reverse_reverse]

theorem WF_reverse {l : List Nat} (h : WF l) : WF l.reverse := fun w hw => h w (List.mem_reverse.mp hw)

theorem valR_lt {l : List Nat} (h : WF l) : valR l < B ^ l.length := by
  have := val_lt (WF_reverse h); rwa [val_reverse, List.length_reverse] at this

theorem compare_lt' {a b : Nat} (h : a < b) : compare a b = .lt := Nat.compare_eq_lt.mpr h
theorem compare_gt' {a b : Nat} (h : b < a) : compare a b = .gt := Nat.compare_eq_gt.mpr h

theorem cmpRev_spec {xs ys : List Nat} (hl : xs.length = ys.length) (hx : WF xs) (hy : WF ys) :
    cmpRev xs ys = compare (valR xs) (valR ys) := by
  induction xs generalizing ys with
  | nil => cases ys with
    | nil => simp [cmpRev, valR]
    | cons y ys => simp at hl
  | cons x xs ih =>
    cases ys with
    | nil => simp at hl
    | cons y ys =>
      rw [WF_cons] at hx hy
      simp only [List.length_cons, Nat.add_right_cancel_iff] at hl
      have h1 := valR_lt hx.2
      have h2 := valR_lt hy.2
      rw [hl] at h1
      simp only [cmpRev, valR, hl]
      generalize B ^ ys.length = P at *
      by_cases hlt : x < y
      · rw [if_pos hlt]
        have : (x + 1) * P ≤ y * P := Nat.mul_le_mul_right _ hlt
        rw [Nat.add_mul] at this
        exact (compare_lt' (by omega)).symm
      · rw [if_neg hlt]
        by_cases hgt : x > y
        · rw [if_pos hgt]
          have : (y + 1) * P ≤ x * P := Nat.mul_le_mul_right _ hgt
          rw [Nat.add_mul] at this
          exact (compare_gt' (by omega)).symm
        · rw [if_neg hgt]
          have : x = y := by omega
          subst this
          rw [ih hl hx.2 hy.2]
          simp only [Nat.compare_eq_ite_lt, Nat.add_lt_add_iff_left]

theorem any_ne_zero_iff (l : List Nat) : (l.any (· != 0)) = true ↔ val l ≠ 0 := by
  rw [Ne, val_eq_zero_iff]; simp

/-- `BigInt::cmp` compares values, whatever the lengths and leading zero words -/
theorem cmp_val {a b : List Nat} (ha : WF a) (hb : WF b) : cmp a b = compare (val a) (val b) := by
  unfold cmp
  have hda := val_take_add_drop a b.length
  have hdb := val_take_add_drop b a.length
  have hta := val_lt (WF_take ha b.length)
  have htb := val_lt (WF_take hb a.length)
  rw [List.length_take] at hta htb
  have hva := val_lt ha
  have hvb := val_lt hb
  split
  · rename_i h
    simp only [Bool.and_eq_true, decide_eq_true_eq, any_ne_zero_iff] at h
    obtain ⟨hlen, hnz⟩ := h
    rw [Nat.min_eq_left (by omega)] at hda
    have : B ^ b.length * 1 ≤ B ^ b.length * val (a.drop b.length) :=
      Nat.mul_le_mul_left _ (by omega)
    exact (compare_gt' (by omega)).symm
  · rename_i h1
    split
    · rename_i h
      simp only [Bool.and_eq_true, decide_eq_true_eq, any_ne_zero_iff] at h
      obtain ⟨hlen, hnz⟩ := h
      rw [Nat.min_eq_left (by omega)] at hdb
      have : B ^ a.length * 1 ≤ B ^ a.length * val (b.drop a.length) :=
        Nat.mul_le_mul_left _ (by omega)
      exact (compare_lt' (by omega)).symm
    · rename_i h2
      simp only [Bool.and_eq_true, decide_eq_true_eq, any_ne_zero_iff, not_and, not_not] at h1 h2
      have ea : val (a.take (min b.length a.length)) = val a := by
        by_cases hlen : a.length > b.length
        · rw [Nat.min_eq_left (by omega)]
          rw [h1 hlen] at hda; omega
        · rw [Nat.min_eq_right (by omega), List.take_length]
      have eb : val (b.take (min b.length a.length)) = val b := by
        by_cases hlen : b.length > a.length
        · rw [Nat.min_eq_right (by omega)]
          rw [h2 hlen] at hdb; omega
        · rw [Nat.min_eq_left (by omega), List.take_length]
      rw [cmpRev_spec (by simp [List.length_take]) (WF_reverse (WF_take ha _))
        (WF_reverse (WF_take hb _)), valR_reverse, valR_reverse, ea, eb]

end Arp.Limbs
