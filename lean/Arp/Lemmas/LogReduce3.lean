import Arp.Lemmas.LogReduce2
/-!
# Lemmas for the accuracy of `Float::log` — part 8: `log_range_reduce` on the whole working range
-/
namespace Arp.LogErr
open Arp Arp.SpecRound Arp.Ln2 Finset

variable {G : Sem}

theorem tau_le_tauP (C : TCtx G) : (tau G : ℝ) ≤ tauP G := by
  obtain ⟨hd0, _⟩ := C.consts
  unfold tauP KK; nlinarith

theorem cc_dd_nonneg (C : TCtx G) : 0 ≤ cc G * dd G := by
  obtain ⟨hd0, _⟩ := C.consts
  have := tau_nonneg G
  unfold cc tauP KK; positivity

theorem dep_mono (C : TCtx G) {j j' : ℕ} (h : j ≤ j') {l : ℝ} (hl : l ≤ 2 ^ j * mu G + 2 * dd G) :
    l ≤ 2 ^ j' * mu G + 2 * dd G := by
  obtain ⟨_, _, _, _, hmu⟩ := C.consts
  have : (2:ℝ) ^ j ≤ (2:ℝ) ^ j' := pow_le_pow_right₀ (by norm_num) h
  have : (2:ℝ) ^ j * mu G ≤ (2:ℝ) ^ j' * mu G := mul_le_mul_of_nonneg_right this (by linarith)
  linarith

/-- **`log_range_reduce` in the working format**: for every positive `X ≠ 1` with
    `2^-M < X < 2^M` and `|log X| ≤ 2^j·mu + 2·dd`, with fuel `≥ j + 2`, the result has the sign of
    `log X` and its magnitude is within `tauP·|log X|` of `|log X|` -/
theorem reduce_spec (C : TCtx G) {M : ℕ} (hM : M + G.p + 22 ≤ innerFuel)
    (hMe : 2 * (M:ℚ) ≤ (2:ℚ) ^ G.emax) (hMx : (M:ℤ) ≤ G.emax) {x : Flt} {X : ℚ}
    (hx : SV G false x X) (hne : X ≠ 1) (hXlo : (2:ℚ) ^ (-(M:ℤ)) < X) (hXhi : X < (2:ℚ) ^ M)
    {j : ℕ} (hdep : |Real.log (X:ℝ)| ≤ 2 ^ j * mu G + 2 * dd G) {fuel : ℕ} (hfuel : j + 2 ≤ fuel) :
    ∃ (r : Flt) (R : ℚ), logRangeReduce fuel x = some r ∧ SV G (decide (X < 1)) r R ∧
      (2:ℚ) ^ (-(G.p:ℤ) - 1) ≤ R ∧
      |(R:ℝ) - abs (Real.log (X:ℝ))| ≤ tauP G * abs (Real.log (X:ℝ)) := by
  have hG := C.wf
  obtain ⟨hd0, hd1, htP, hKl, hmu⟩ := C.consts
  have hττ := tau_le_tauP C
  have hcd := cc_dd_nonneg C
  have hu0 := RelErr.u_pos G
  have hu1 := C.u_le
  obtain ⟨U, hU, hU1, hU2⟩ := up_spec C
  obtain ⟨L, hL, hL1, hL2⟩ := low_spec C
  have hX0 : 0 < X := lt_trans (by positivity) hXlo
  have hXr : (0:ℝ) < (X:ℝ) := by exact_mod_cast hX0
  obtain ⟨f, rfl⟩ : ∃ f, fuel = f + 1 := ⟨fuel - 1, by omega⟩
  rcases lt_or_gt_of_ne hne with hlt | hgt
  · -- `X < 1`
    have hlogneg : Real.log (X:ℝ) < 0 := Real.log_neg hXr (by exact_mod_cast hlt)
    rw [decide_eq_true hlt]
    have hgtU : x.gt ((fromF64 f64_1_001).cast G) = false := by
      rw [← Bool.not_eq_true, SV.gt_iff hG hx hU]; intro h; linarith
    have hlt1 : x.lt (fromU64 G 1) = true := (SV.lt_iff hG hx (one_SV hG)).mpr hlt
    rw [logRangeReduce_succ, hx.sem, hgtU, hlt1]
    simp only [Bool.false_eq_true, if_false, if_true]
    by_cases hXL : L < X
    · -- the series directly
      have hgtL : x.gt ((fromF64 f64_0_999).cast G) = true := (SV.gt_iff hG hx hL).mpr hXL
      rw [hgtL]; simp only [if_true]
      obtain ⟨r, h1, h2, _, h4⟩ := logTaylor_accuracy C hx (by linarith) (by linarith) hne
      rw [decide_eq_true hlt] at h1
      refine ⟨_, r, rfl, h1, h2, ?_⟩
      have : (tau G : ℝ) * |Real.log (X:ℝ)| ≤ tauP G * |Real.log (X:ℝ)| :=
        mul_le_mul_of_nonneg_right hττ (abs_nonneg _)
      linarith
    · -- the reciprocal
      have hXL := not_lt.mp hXL
      have hgtL : x.gt ((fromF64 f64_0_999).cast G) = false := by
        rw [← Bool.not_eq_true, SV.gt_iff hG hx hL]; exact not_lt.mpr hXL
      rw [hgtL]; simp only [Bool.false_eq_true, if_false]
      have hinvlt : 1 / X < (2:ℚ) ^ M := by
        rw [div_lt_iff₀ hX0]
        have : (2:ℚ) ^ M * (2:ℚ) ^ (-(M:ℤ)) = 1 := by
          rw [← zpow_natCast, ← zpow_add₀ (by norm_num : (2:ℚ) ≠ 0)]; simp
        have h2M : (0:ℚ) < (2:ℚ) ^ M := by positivity
        nlinarith
      have h2Mle : (2:ℚ) ^ M ≤ (2:ℚ) ^ (G.emax + 1) := by
        rw [← zpow_natCast]; exact zpow_le_zpow_right₀ (by norm_num) (by omega)
      have hre := SV.div hG (one_SV hG) hx hX0 (by linarith)
      set Re := trq G (1 / X) with hRe
      have hinv1 : 1001 / 1000 ≤ 1 / X := by
        rw [le_div_iff₀ hX0]; linarith
      have hinvn : (2:ℚ) ^ G.emin ≤ 1 / X := by
        have : (2:ℚ) ^ G.emin ≤ 1 := by
          calc (2:ℚ) ^ G.emin ≤ (2:ℚ) ^ (0:ℤ) := zpow_le_zpow_right₀ (by norm_num) (Sem.emin_le_zero hG)
            _ = 1 := zpow_zero _
        linarith
      have hRele : Re ≤ 1 / X := trq_le hG (by positivity) (by linarith)
      have hReerr := trq_err_normal hG hinvn (by linarith : 1 / X < (2:ℚ) ^ (G.emax + 1))
      have hRe1 : 1 < Re := by nlinarith
      have hRe0 : 0 < Re := by linarith
      -- logarithms
      have hRer : (0:ℝ) < (Re:ℝ) := by exact_mod_cast hRe0
      have hinvr : (0:ℝ) < ((1 / X : ℚ) : ℝ) := by
        have : (0:ℚ) < 1 / X := by positivity
        exact_mod_cast this
      have hlX : Real.log ((1 / X : ℚ) : ℝ) = |Real.log (X:ℝ)| := by
        rw [abs_of_neg hlogneg]; push_cast
        rw [one_div, Real.log_inv]
      have hlR : Real.log (Re:ℝ) ≤ |Real.log (X:ℝ)| := by
        rw [← hlX]; exact Real.log_le_log hRer (castle hRele)
      have hlX2 : |Real.log (X:ℝ)| ≤ Real.log (Re:ℝ) + dd G / 2 := by
        rw [← hlX]
        have h1u : (0:ℝ) < 1 - (RelErr.u G : ℝ) := by
          have := castle hu1; push_cast at this
          linarith
        have hge : (1 - (RelErr.u G : ℝ)) * ((1 / X : ℚ) : ℝ) ≤ (Re:ℝ) := by
          have : (1 - RelErr.u G) * (1 / X) ≤ Re := by linarith
          have := castle this; push_cast at this ⊢; exact this
        have h3 := Real.log_le_log (mul_pos h1u hinvr) hge
        rw [Real.log_mul (ne_of_gt h1u) (ne_of_gt hinvr)] at h3
        have h4 := Real.one_sub_inv_le_log_of_pos h1u
        have hur : (0:ℝ) < (RelErr.u G : ℝ) := by exact_mod_cast hu0
        have h5 : -(dd G / 2) ≤ 1 - (1 - (RelErr.u G : ℝ))⁻¹ := by
          unfold dd
          have h12 : (0:ℝ) < 1 - 2 * (RelErr.u G : ℝ) := by
            have := castle hu1; push_cast at this; linarith
          rw [show (1:ℝ) - (1 - (RelErr.u G : ℝ))⁻¹ = -((RelErr.u G : ℝ) / (1 - (RelErr.u G : ℝ))) by
            field_simp; ring]
          rw [neg_le_neg_iff, show 2 * (RelErr.u G : ℝ) / (1 - 2 * (RelErr.u G : ℝ)) / 2 =
            (RelErr.u G : ℝ) / (1 - 2 * (RelErr.u G : ℝ)) by ring]
          exact div_le_div_of_nonneg_left (le_of_lt hur) h12 (by linarith)
        linarith
      -- the chain on the reciprocal
      obtain ⟨f', rfl⟩ : ∃ f', f = f' + 1 := ⟨f - 1, by omega⟩
      have hdepR : Real.log (Re:ℝ) ≤ 2 ^ f' * mu G + 2 * dd G :=
        dep_mono C (show j ≤ f' by omega) (le_trans hlR hdep)
      obtain ⟨r', R', e1, e2, e3, e4, e5⟩ := reduce_ge_one C hM hMe hU hU1 hU2 f' _ Re hre hRe1
        (lt_of_le_of_lt hRele hinvlt) hdepR
      rw [e1]
      simp only [Option.map_some]
      have hneg := e2.neg
      simp only [Bool.not_false] at hneg
      refine ⟨_, R', rfl, hneg, e3, ?_⟩
      have hinv : |(R':ℝ) - Real.log (Re:ℝ)| ≤ tauP G * Real.log (Re:ℝ) - cc G * dd G ∨
          |(R':ℝ) - Real.log (Re:ℝ)| ≤ (tau G : ℝ) * Real.log (Re:ℝ) := by
        by_cases hSU : U < Re
        · exact Or.inl (e4 hSU)
        · exact Or.inr (e5 (not_lt.mp hSU))
      -- `K·|log X| ≥ 1`
      have hKX : 1 ≤ KK * |Real.log (X:ℝ)| := by
        rw [← hlX]
        have h1 : ((1001 / 1000 : ℚ) : ℝ) ≤ ((1 / X : ℚ) : ℝ) := castle hinv1
        have h2 := Real.log_le_log (by norm_num) h1
        have h3 := log_eq_At (show (0:ℝ) < ((1001 / 1000 : ℚ) : ℝ) by norm_num)
        have h4 : ((((1001 / 1000 : ℚ) : ℝ)) - 1) / (((1001 / 1000 : ℚ) : ℝ) + 1) = 1 / 2001 := by
          norm_num
        rw [h4] at h3
        have h5 := le_At (show (0:ℝ) ≤ 1 / 2001 by norm_num) (by norm_num)
        unfold KK
        linarith
      exact err_recip (K := KK) (d0 := dd G / 2) (le_of_lt hd0) (by linarith) (tau_nonneg G) rfl rfl
        (by unfold KK; norm_num) hKX hlR hlX2 hinv
  · -- `1 < X`
    have hlogpos : 0 < Real.log (X:ℝ) := Real.log_pos (by exact_mod_cast hgt)
    rw [decide_eq_false (not_lt.mpr (le_of_lt hgt)), abs_of_pos hlogpos] at *
    have hdep' : Real.log (X:ℝ) ≤ 2 ^ f * mu G + 2 * dd G := dep_mono C (show j ≤ f by omega) hdep
    obtain ⟨r, R, e1, e2, e3, e4, e5⟩ := reduce_ge_one C hM hMe hU hU1 hU2 f x X hx hgt hXhi hdep'
    refine ⟨r, R, e1, e2, e3, ?_⟩
    by_cases hXU : U < X
    · have := e4 hXU; linarith
    · have := e5 (not_lt.mp hXU)
      have : (tau G : ℝ) * Real.log (X:ℝ) ≤ tauP G * Real.log (X:ℝ) :=
        mul_le_mul_of_nonneg_right hττ (le_of_lt hlogpos)
      linarith

end Arp.LogErr
