import Arp.Lemmas.TrigLoop
/-!
# `sin` for `|x| < 1`: the Taylor stage and the triple-angle steps (property C17)

* `SCtx W lo`: what the analysis needs of the working format `W` and of the smallest argument `lo`
  that reaches the Taylor stage;
* `sinTaylor_acc`: `sin_taylor` on a tiny positive argument;
* `sinStep4_acc`: `k` triple-angle steps around it.
-/
namespace Arp.TrigErr
open Arp Arp.SpecRound Arp.RelErr Arp.Ln2 Arp.Sqrt

variable {W : Sem}

/-! ## positive values -/

theorem nn_of_posN {x : Flt} (h : PosN W x) : NN W x x.mag :=
  NN.of_canonical h.sem h.cat h.can h.sign rfl

theorem posN_of_nn {x : Flt} {v : ℚ} (h : NN W x v) (hv : 0 < v) : PosN W x ∧ x.mag = v := by
  have hc := h.normal_of_pos hv
  exact ⟨⟨h.sem, h.can, hc, h.sign hc⟩, h.mag hc⟩

/-- what the analysis of `sin` needs of the working format -/
structure SCtx (W : Sem) (lo : ℚ) : Prop where
  wf : W.WF
  rm : W.rm = .nte ∨ W.rm = .nta
  p24 : 24 ≤ W.p
  pemax : (W.p:ℤ) + 2 ≤ W.emax
  lo_pos : 0 < lo
  lo10 : (2:ℚ) ^ (W.emin + 10) ≤ lo ^ 3
  dl : 1024 * delta W ≤ u W * lo

theorem SCtx.lo3 {lo : ℚ} (S : SCtx W lo) : (2:ℚ) ^ (W.emin + 8) ≤ lo ^ 3 := by
  refine le_trans ?_ S.lo10
  exact zpow_le_zpow_right₀ (by norm_num) (by omega)

theorem SCtx.u_le {lo : ℚ} (S : SCtx W lo) : u W ≤ 1 / 2 ^ 23 := by
  have := u_le_of_le_p (F := W) (k := 24) S.p24
  norm_num at this ⊢; linarith

theorem SCtx.six_le_max {lo : ℚ} (S : SCtx W lo) : 6 ≤ maxFinite W := by
  have hp : 1 ≤ W.p := by have := S.wf.2; omega
  have h1 := pow_emax_le_maxFinite (F := W) hp
  have h2 : (2:ℚ) ^ (3:ℤ) ≤ (2:ℚ) ^ W.emax :=
    zpow_le_zpow_right₀ (by norm_num) (by have := S.pemax; have := S.p24; omega)
  norm_num at h2; linarith

/-- a value whose cube is at least `2^(emin+8)` is itself at least `2^emin·256` -/
theorem pow_emin_le_of_cube {lo : ℚ} (S : SCtx W lo) {x : ℚ} (hx0 : 0 < x) (hx1 : x ≤ 1)
    (h : (2:ℚ) ^ (W.emin + 8) ≤ x ^ 3) : (2:ℚ) ^ (W.emin + 8) ≤ x ^ 2 ∧ (2:ℚ) ^ (W.emin + 8) ≤ x := by
  have h2 : x ^ 3 ≤ x ^ 2 := pow_le_pow_of_le_one (le_of_lt hx0) hx1 (by norm_num)
  have h1 : x ^ 2 ≤ x := by
    calc x ^ 2 ≤ x ^ 1 := pow_le_pow_of_le_one (le_of_lt hx0) hx1 (by norm_num)
      _ = x := pow_one x
  exact ⟨le_trans h h2, le_trans h (le_trans h2 h1)⟩

theorem zpow_emin8 (W : Sem) : (2:ℚ) ^ (W.emin + 8) = 256 * (2:ℚ) ^ W.emin := by
  rw [zpow_add₀ (by norm_num : (2:ℚ) ≠ 0)]; norm_num; ring

/-! ## `powi 2`, `powi 3` on positive operands in the normal range -/

theorem powiU_near (hrm : W.rm = .nte ∨ W.rm = .nta) : powiU W.p W.rm = u W / 2 := by
  unfold powiU RelErr.u
  rw [if_pos hrm, show (1:ℤ) - (W.p:ℤ) = -(W.p:ℤ) + 1 by ring,
    zpow_add_one₀ (by norm_num : (2:ℚ) ≠ 0)]
  ring

theorem powiD_eq_u (W : Sem) : powiD W = u W / 8 := by
  unfold powiD RelErr.u
  rw [show (1:ℤ) - (W.p:ℤ) = -((W.p:ℤ) + 2) + 3 by ring, zpow_add₀ (by norm_num : (2:ℚ) ≠ 0)]
  norm_num

/-- `x.powi n`, `n ∈ {2, 3}`, for a positive `x ≤ 1` whose power is in the normal range:
    one relative perturbation `≤ u` -/
theorem powi_posN {lo : ℚ} (S : SCtx W lo) {x : Flt} (hx : PosN W x) {n : ℕ} (hn2 : 2 ≤ n)
    (hn3 : n ≤ 3) (hX1 : x.mag ≤ 1) (hlo : (2:ℚ) ^ (W.emin + 8) ≤ x.mag ^ n) :
    PosN W (x.powi n) ∧ (1 - u W) * x.mag ^ n ≤ (x.powi n).mag ∧
      (x.powi n).mag ≤ (1 + u W) * x.mag ^ n := by
  have hW := S.wf
  have hFx : x.sem.WF := by rw [hx.sem]; exact hW
  have hX0 := hx.mag_pos
  have hu0 := RelErr.u_pos W
  have hu23 := S.u_le
  have hu8 : u W ≤ 1/8 := by norm_num at hu23 ⊢; linarith
  have h6 := S.six_le_max
  have hD : powiD x.sem = u W / 8 := by rw [hx.sem]; exact powiD_eq_u W
  have hU : powiU x.sem.p x.sem.rm = u W / 2 := by rw [hx.sem]; exact powiU_near S.rm
  have hXn0 : 0 < x.mag ^ n := pow_pos hX0 n
  have hXn1 : x.mag ^ n ≤ 1 := pow_le_one₀ (le_of_lt hX0) hX1
  have hXnX : x.mag ^ n ≤ x.mag := by
    calc x.mag ^ n ≤ x.mag ^ 1 := pow_le_pow_of_le_one (le_of_lt hX0) hX1 (by omega)
      _ = x.mag := pow_one _
  -- bounds of the perturbation factors
  have hA : (1/2 : ℚ) ≤ (1 - powiD x.sem) ^ (n - 1) := by
    rw [hD]
    have h1 : (7/8 : ℚ) ≤ 1 - u W / 8 := by linarith
    have h2 : (1 - u W / 8) ^ 2 ≤ (1 - u W / 8) ^ (n - 1) :=
      pow_le_pow_of_le_one (by linarith) (by linarith) (by omega)
    have h3 : (7/8 : ℚ) ^ 2 ≤ (1 - u W / 8) ^ 2 := pow_le_pow_left₀ (by norm_num) h1 2
    norm_num at h3; linarith
  have hB : (1 + powiD x.sem) ^ (n - 1) ≤ 2 := by
    rw [hD]
    have h1 : 1 + u W / 8 ≤ (9/8 : ℚ) := by linarith
    have h2 : (1 + u W / 8) ^ (n - 1) ≤ (1 + u W / 8) ^ 2 :=
      pow_le_pow_right₀ (by linarith) (by omega)
    have h3 : (1 + u W / 8) ^ 2 ≤ (9/8 : ℚ) ^ 2 := pow_le_pow_left₀ (by linarith) h1 2
    norm_num at h3; linarith
  have hemin8 := zpow_emin8 W
  have hpe : (0:ℚ) < (2:ℚ) ^ W.emin := by positivity
  have hemin : x.sem.emin = W.emin := by rw [hx.sem]
  have hmaxF : maxFinite x.sem = maxFinite W := by rw [hx.sem]
  have hOK : C18.PowiOK x.sem x.mag n := by
    apply C18.powiOK_of_endpoints x.sem hX0 (by omega)
    · rw [hemin]
      calc (2:ℚ) ^ W.emin ≤ 1/2 * x.mag := by linarith
        _ ≤ (1 - powiD x.sem) ^ (n - 1) * x.mag := mul_le_mul_of_nonneg_right hA (le_of_lt hX0)
    · rw [hemin]
      calc (2:ℚ) ^ W.emin ≤ 1/2 * x.mag ^ n := by linarith
        _ ≤ (1 - powiD x.sem) ^ (n - 1) * x.mag ^ n :=
            mul_le_mul_of_nonneg_right hA (le_of_lt hXn0)
    · rw [hmaxF]
      calc (1 + powiD x.sem) ^ (n - 1) * x.mag ≤ 2 * 1 :=
            mul_le_mul hB hX1 (le_of_lt hX0) (by norm_num)
        _ ≤ maxFinite W := by linarith
    · rw [hmaxF]
      calc (1 + powiD x.sem) ^ (n - 1) * x.mag ^ n ≤ 2 * 1 :=
            mul_le_mul hB hXn1 (le_of_lt hXn0) (by norm_num)
        _ ≤ maxFinite W := by linarith
  have hn64 : n < 2 ^ 64 := by
    have : (3:ℕ) < 2 ^ 64 := by norm_num
    omega
  obtain ⟨c1, c2, c3, c4, _⟩ := C18.powi_main x n hFx hx.cat hx.can (by omega) hn64 hOK
  obtain ⟨r1, r2⟩ := C18.powi_rel x n hFx hx.cat hx.can (by omega) hn64 hOK
  rw [hU, hD] at r1 r2
  have hsgn : (x.powi n).sign = false := by rw [c4, hx.sign]; rfl
  refine ⟨⟨c3.trans hx.sem, c2, c1, hsgn⟩, ?_, ?_⟩
  · -- lower
    have h1 : (1 - u W / 8) ^ 2 ≤ (1 - u W / 8) ^ (n - 1) :=
      pow_le_pow_of_le_one (by linarith) (by linarith) (by omega)
    have h2 : 1 - u W ≤ (1 - u W / 2) * (1 - u W / 8) ^ 2 := by
      have e : (1 - u W / 2) * (1 - u W / 8) ^ 2 - (1 - u W)
          = u W * (1/4 + 9 * u W / 64 - u W ^ 2 / 128) := by ring
      have hsq : u W ^ 2 ≤ 1 := by nlinarith
      have : 0 ≤ u W * (1/4 + 9 * u W / 64 - u W ^ 2 / 128) :=
        mul_nonneg (le_of_lt hu0) (by linarith)
      linarith
    have h3 : (1 - u W / 2) * (1 - u W / 8) ^ 2 ≤ (1 - u W / 2) * (1 - u W / 8) ^ (n - 1) :=
      mul_le_mul_of_nonneg_left h1 (by linarith)
    calc (1 - u W) * x.mag ^ n ≤ ((1 - u W / 2) * (1 - u W / 8) ^ (n - 1)) * x.mag ^ n :=
          mul_le_mul_of_nonneg_right (by linarith) (le_of_lt hXn0)
      _ = (1 - u W / 2) * ((1 - u W / 8) ^ (n - 1) * x.mag ^ n) := by ring
      _ ≤ _ := r1
  · have h1 : (1 + u W / 8) ^ (n - 1) ≤ (1 + u W / 8) ^ 2 :=
      pow_le_pow_right₀ (by linarith) (by omega)
    have h2 : (1 + u W / 2) * (1 + u W / 8) ^ 2 ≤ 1 + u W := by
      have e : (1 + u W) - (1 + u W / 2) * (1 + u W / 8) ^ 2
          = u W * (1/4 - 9 * u W / 64 - u W ^ 2 / 128) := by ring
      have hsq : u W ^ 2 ≤ 1/64 := by nlinarith
      have : 0 ≤ u W * (1/4 - 9 * u W / 64 - u W ^ 2 / 128) :=
        mul_nonneg (le_of_lt hu0) (by linarith)
      linarith
    have h3 : (1 + u W / 2) * (1 + u W / 8) ^ (n - 1) ≤ (1 + u W / 2) * (1 + u W / 8) ^ 2 :=
      mul_le_mul_of_nonneg_left h1 (by linarith)
    calc (x.powi n).mag ≤ (1 + u W / 2) * ((1 + u W / 8) ^ (n - 1) * x.mag ^ n) := r2
      _ = ((1 + u W / 2) * (1 + u W / 8) ^ (n - 1)) * x.mag ^ n := by ring
      _ ≤ (1 + u W) * x.mag ^ n := mul_le_mul_of_nonneg_right (by linarith) (le_of_lt hXn0)

/-! ## the Taylor stage -/

theorem two_mul_botS_le (j : ℕ) : 2 * botS j ≤ botS (j + 1) := by
  rw [botS_succ]
  have h := botS_pos j
  have : 2 ≤ (j + 1) * 2 * ((j + 1) * 2 + 1) := by nlinarith
  nlinarith

theorem two_mul_botC_le (j : ℕ) : 2 * botC j ≤ botC (j + 1) := by
  rw [botC_succ]
  have h := botC_pos j
  have h1 : 1 ≤ (j + 1) * 2 - 1 := by omega
  have : 2 ≤ ((j + 1) * 2 - 1) * ((j + 1) * 2) := by nlinarith
  nlinarith

/-- `max(50, p)·2^(1-p) ≤ 2^-10` for `p ≥ 24` -/
theorem fuel_small {p : ℕ} (hp : 24 ≤ p) : ((Nat.max 50 p : ℕ) : ℚ) * (2:ℚ) ^ (1 - (p:ℤ)) ≤ 1/1024 := by
  have key : ∀ q : ℕ, 24 ≤ q → (Nat.max 50 q) * 2048 ≤ 2 ^ q := by
    intro q hq
    induction q, hq using Nat.le_induction with
    | base =>
      have : Nat.max 50 24 = 50 := Nat.max_eq_left (by norm_num)
      rw [this]; norm_num
    | succ q hq ih =>
      rw [Nat.pow_succ]
      rcases Nat.lt_or_ge q 50 with h | h
      · have h1 : Nat.max 50 q = 50 := Nat.max_eq_left (by omega)
        have h2 : Nat.max 50 (q + 1) = 50 := Nat.max_eq_left (by omega)
        rw [h1] at ih; rw [h2]
        clear h1 h2
        generalize 2 ^ q = t at *; linarith
      · have h1 : Nat.max 50 q = q := Nat.max_eq_right h
        have h2 : Nat.max 50 (q + 1) = q + 1 := Nat.max_eq_right (by omega)
        rw [h1] at ih; rw [h2]
        clear h1 h2
        generalize 2 ^ q = t at *; linarith
  have h := key p hp
  have hq : ((Nat.max 50 p : ℕ) : ℚ) * 2048 ≤ (2:ℚ) ^ p := by exact_mod_cast h
  have e : (2:ℚ) ^ (1 - (p:ℤ)) = 2 / (2:ℚ) ^ p := by
    rw [zpow_sub₀ (by norm_num : (2:ℚ) ≠ 0), zpow_one, zpow_natCast]
  rw [e, mul_div_assoc', div_le_iff₀ (by positivity)]
  linarith

/-- `(2F+1)·u·X0 ≤ 3·M·u·s` when `2F+1 ≤ 2M` and `(5/6)·X0 ≤ s` -/
theorem final_conv {M F : ℕ} {uW X0 : ℚ} {s : ℝ} (hFM : 2 * F + 1 ≤ 2 * M) (hu0 : 0 < uW)
    (hX0 : 0 ≤ X0) (hs : 5/6 * ((X0 : ℚ) : ℝ) ≤ s) :
    (((2 * (F:ℚ) + 1) * (uW * X0) : ℚ) : ℝ) ≤ (((3 * (M : ℕ) : ℚ) * uW : ℚ) : ℝ) * s := by
  have hFr : (2 * (F:ℝ) + 1) ≤ 2 * (M:ℝ) := by exact_mod_cast hFM
  have hur : (0:ℝ) < ((uW : ℚ) : ℝ) := by exact_mod_cast hu0
  have hXr : (0:ℝ) ≤ ((X0 : ℚ) : ℝ) := by exact_mod_cast hX0
  have hs0 : 0 ≤ s := by linarith
  have hM0 : (0:ℝ) ≤ (M:ℝ) := by positivity
  have h4 : ((uW : ℚ) : ℝ) * ((X0 : ℚ) : ℝ) ≤ ((uW : ℚ) : ℝ) * (6/5 * s) :=
    mul_le_mul_of_nonneg_left (by linarith) (le_of_lt hur)
  push_cast
  calc (2 * (F:ℝ) + 1) * (((uW : ℚ) : ℝ) * ((X0 : ℚ) : ℝ))
      ≤ (2 * (M:ℝ)) * (((uW : ℚ) : ℝ) * (6/5 * s)) :=
        mul_le_mul hFr h4 (by positivity) (by positivity)
    _ = (12/5) * ((M:ℝ) * ((uW : ℚ) : ℝ) * s) := by ring
    _ ≤ 3 * ((M:ℝ) * ((uW : ℚ) : ℝ) * s) := by
        apply mul_le_mul_of_nonneg_right (by norm_num)
        positivity
    _ = _ := by ring

/-- **the Taylor stage of `sin`** on a positive argument `x ≤ 1/16` (not too small for the format):
    the result is a positive number within relative distance `3·max(50,p)·u` of `sin x` -/
theorem sinTaylor_acc {lo : ℚ} (S : SCtx W lo) {x : Flt} (hx : PosN W x) (hlo : lo ≤ x.mag)
    (hhi : x.mag ≤ 1/16) :
    PosN W (sinTaylor x) ∧
      |(((sinTaylor x).mag : ℚ) : ℝ) - Real.sin ((x.mag : ℚ) : ℝ)| ≤
        (((3 * (Nat.max 50 W.p : ℕ) : ℚ) * u W : ℚ) : ℝ) * Real.sin ((x.mag : ℚ) : ℝ) := by
  have hW := S.wf
  have hX0 := hx.mag_pos
  have hu0 := RelErr.u_pos W
  set X0 := x.mag with hX0def
  have hX1 : X0 ≤ 1 := by linarith
  have hlo3 : (2:ℚ) ^ (W.emin + 8) ≤ X0 ^ 3 :=
    le_trans S.lo3 (pow_le_pow_left₀ (le_of_lt S.lo_pos) hlo 3)
  obtain ⟨hlo2, hlo1⟩ := pow_emin_le_of_cube S hX0 hX1 hlo3
  -- the context of the loop
  have C : LCtx W X0 (X0 ^ 2) botS := {
    wf := hW, rm := S.rm, p24 := S.p24, pemax := S.pemax, X0pos := hX0, X0le := hX1,
    X0rep := hx.isRep,
    X0norm := by
      have h1 : (2:ℚ) ^ (W.emin + 1) ≤ (2:ℚ) ^ (W.emin + 8) :=
        zpow_le_zpow_right₀ (by norm_num) (by omega)
      linarith
    y0 := by positivity,
    yle := by
      have : X0 ^ 2 ≤ (1/16 : ℚ) ^ 2 := pow_le_pow_left₀ (le_of_lt hX0) hhi 2
      norm_num at this ⊢; linarith
    b0 := botS_zero, bstep := two_mul_botS_le,
    dsmall := le_trans S.dl (mul_le_mul_of_nonneg_left hlo (le_of_lt hu0)) }
  -- the square
  obtain ⟨hsq, hsq1, hsq2⟩ := powi_posN S hx (le_refl 2) (by norm_num) hX1 hlo2
  have hx2 : NN W x.sqr (x.sqr.mag) := nn_of_posN hsq
  -- the loop
  set F := Nat.max 50 W.p - 1 with hF
  have hmax50 : 50 ≤ Nat.max 50 W.p := Nat.le_max_left _ _
  have hmaxp : W.p ≤ Nat.max 50 W.p := Nat.le_max_right _ _
  have hF1 : 1 ≤ F := by omega
  have hFp : W.p ≤ F + 1 := by omega
  have hFN : ((F:ℚ) + 1) * u W ≤ 1/1024 := by
    have := fuel_small S.p24
    have e : ((F:ℚ) + 1) = ((Nat.max 50 W.p : ℕ) : ℚ) := by
      have : F + 1 = Nat.max 50 W.p := by omega
      exact_mod_cast this
    rw [e]; exact this
  have hstp : ∀ j, botS (j + 1) = botS j * (fun i => (i * 2) * (i * 2 + 1)) (j + 1) := botS_succ
  obtain ⟨vr, hR, hvr, hErr⟩ := tay_total (stp := fun i => (i * 2) * (i * 2 + 1)) C hx2 hsq1 hsq2 hstp (nn_of_posN hx) hF1 hFp hFN
  have hdef : sinTaylor x = tayLoop W x.sqr (fun i => (i * 2) * (i * 2 + 1)) F 1 false x 1
      (Flt.zero W false) (Flt.one W true) := by
    unfold sinTaylor
    rw [sinTaylorLoop_eq, hx.sem]
  rw [hdef]
  have hvrpos : 0 < vr := by linarith
  obtain ⟨hP, hmag⟩ := posN_of_nn hR hvrpos
  refine ⟨hP, ?_⟩
  rw [hmag]
  -- the real series
  have hxr0 : (0:ℝ) ≤ ((X0 : ℚ) : ℝ) := by exact_mod_cast le_of_lt hX0
  have hxr1 : ((X0 : ℚ) : ℝ) ≤ 1 := by exact_mod_cast hX1
  have hS : ∀ n, |Real.sin ((X0 : ℚ) : ℝ) - ((tpoly X0 (X0 ^ 2) botS n : ℚ) : ℝ)|
      ≤ ((tterm X0 (X0 ^ 2) botS n : ℚ) : ℝ) := by
    intro n
    rw [tpoly_cast, tterm_cast]
    push_cast
    exact sin_tpoly_bound hxr0 hxr1 n
  have h1 := (hErr _ hS).1
  have h2 := sin_lower hxr0 hxr1
  have hFM : 2 * F + 1 ≤ 2 * Nat.max 50 W.p := by omega
  have h3 := final_conv hFM hu0 (le_of_lt hX0) h2
  linarith

/-! ## the triple-angle steps -/

/-- a truncation (mode `None`) in the normal range: below the exact value, relative error `≤ u` -/
theorem rq_none_spec (hW : W.WF) {q : ℚ} (hlo : (2:ℚ) ^ W.emin ≤ q) (hle : q ≤ maxFinite W) :
    (1 - u W) * q ≤ rq W .none q ∧ rq W .none q ≤ q := by
  have hq : 0 < q := lt_of_lt_of_le (by positivity) hlo
  have h1 := (abs_le.mp (rq_rel hW hlo hle .none)).1
  have h2 : rq W .none q ≤ q :=
    trq_le hW (le_of_lt hq) (lt_of_le_of_lt hle (maxFinite_lt_sr W))
  exact ⟨by linarith, h2⟩

theorem msb_three : msb 3 = 2 := by decide

theorem three_nn {lo : ℚ} (S : SCtx W lo) : NN W (fromU64 W 3) 3 := by
  have h := nat_NN S.wf 3 (by norm_num) (by norm_num)
    (by
      have : (2:ℕ) ^ 2 ≤ 2 ^ W.p := Nat.pow_le_pow_right (by norm_num) (by have := S.p24; omega)
      omega)
    (by rw [msb_three]; have := S.pemax; have := S.p24; push_cast; omega)
  simpa using h

/-- from a relative error bound to two-sided bounds against the argument -/
theorem sin_bounds_of_err {r X E : ℝ} (hX0 : 0 < X) (hX1 : X ≤ 1) (hE0 : 0 ≤ E) (hE : E ≤ 1/64)
    (h : |r - Real.sin X| ≤ E * Real.sin X) : 3/4 * X ≤ r ∧ r ≤ 65/64 * X := by
  have h1 := sin_lower (le_of_lt hX0) hX1
  have h2 := Real.sin_le (le_of_lt hX0)
  obtain ⟨a1, a2⟩ := abs_le.mp h
  have hs0 : 0 ≤ Real.sin X := by linarith
  have h3 : E * Real.sin X ≤ 1/64 * Real.sin X := mul_le_mul_of_nonneg_right hE hs0
  constructor <;> nlinarith

/-- the argument of the next level: `x/3` truncated -/
theorem sin_arg3 {lo : ℚ} (S : SCtx W lo) {x : Flt} (hx : PosN W x) (hX1 : x.mag ≤ 1)
    (hXlo : (2:ℚ) ^ (W.emin + 8) ≤ x.mag ^ 3) :
    PosN W (divWithRm x (fromU64 W 3) .none) ∧
      (1 - u W) * (x.mag / 3) ≤ (divWithRm x (fromU64 W 3) .none).mag ∧
      (divWithRm x (fromU64 W 3) .none).mag ≤ x.mag / 3 := by
  have hW := S.wf
  have hX0 := hx.mag_pos
  have h6 := S.six_le_max
  have hu23 := S.u_le
  have hu0 := RelErr.u_pos W
  obtain ⟨_, hXe⟩ := pow_emin_le_of_cube S hX0 hX1 hXlo
  rw [zpow_emin8] at hXe
  have hpe : (0:ℚ) < (2:ℚ) ^ W.emin := by positivity
  have hlo : (2:ℚ) ^ W.emin ≤ x.mag / 3 := by linarith
  have hle : x.mag / 3 ≤ maxFinite W := by linarith
  have hnn := nn_div hW .none (nn_of_posN hx) (three_nn S) (by norm_num) hle
  obtain ⟨h1, h2⟩ := rq_none_spec hW hlo hle
  have hpos : 0 < rq W .none (x.mag / 3) := by
    have : 0 < (1 - u W) * (x.mag / 3) := mul_pos (by norm_num at hu23; linarith) (by linarith)
    linarith
  obtain ⟨hP, hm⟩ := posN_of_nn hnn hpos
  exact ⟨hP, by rw [hm]; exact h1, by rw [hm]; exact h2⟩

theorem sinStep4_succ (steps : ℕ) (x : Flt) :
    sinStep4 (steps + 1) x =
      subWithRm (mulWithRm (sinStep4 steps (divWithRm x (fromU64 x.sem 3) .none)) (fromU64 x.sem 3) .none)
        (((sinStep4 steps (divWithRm x (fromU64 x.sem 3) .none)).powi 3).scale 2 .none) .none := rfl

/-- bounds of the approximation `st ≈ sin q₃`, `q₃ ≈ X/3`, in `ℚ` -/
theorem sin_level_st {X q3 st E u : ℚ} (hu0 : 0 < u) (hu : u ≤ 1/1024) (hX0 : 0 < X) (hX1 : X ≤ 1)
    (hE0 : 0 ≤ E) (hE : E ≤ 1/64) (hq1 : (1 - u) * (X / 3) ≤ q3) (hq2 : q3 ≤ X / 3)
    (herr : |((st : ℚ) : ℝ) - Real.sin ((q3 : ℚ) : ℝ)| ≤ ((E : ℚ) : ℝ) * Real.sin ((q3 : ℚ) : ℝ)) :
    3/16 * X ≤ st ∧ st ≤ 34/100 ∧ 0 < q3 ∧ q3 ≤ 1/3 := by
  have huX : u * X ≤ 1/1024 * X := mul_le_mul_of_nonneg_right hu (le_of_lt hX0)
  have hq30 : 0 < q3 := by nlinarith
  have hq3le : q3 ≤ 1/3 := by linarith
  have hq3X : X / 4 ≤ q3 := by nlinarith
  have hq3r0 : (0:ℝ) < ((q3 : ℚ) : ℝ) := by exact_mod_cast hq30
  have hq3r1 : ((q3 : ℚ) : ℝ) ≤ 1 := by
    have : q3 ≤ 1 := by linarith
    exact_mod_cast this
  have hEr0 : (0:ℝ) ≤ ((E : ℚ) : ℝ) := by exact_mod_cast hE0
  have hEr : ((E : ℚ) : ℝ) ≤ 1/64 := by
    have := (Rat.cast_le (K := ℝ)).mpr hE
    push_cast at this; linarith
  obtain ⟨b1, b2⟩ := sin_bounds_of_err hq3r0 hq3r1 hEr0 hEr herr
  have hst1 : 3/4 * q3 ≤ st := by
    have : (((3/4 * q3 : ℚ)) : ℝ) ≤ ((st : ℚ) : ℝ) := by push_cast; linarith
    exact (Rat.cast_le (K := ℝ)).mp this
  have hst2 : st ≤ 65/64 * q3 := by
    have : ((st : ℚ) : ℝ) ≤ (((65/64 * q3 : ℚ)) : ℝ) := by push_cast; linarith
    exact (Rat.cast_le (K := ℝ)).mp this
  exact ⟨by linarith, by linarith, hq30, hq3le⟩

/-- the real-number core of one triple-angle step -/
theorem sin_level_num {X q3 st a c bq r E u : ℚ} (hu0 : 0 < u) (hu : u ≤ 1/1024) (hX0 : 0 < X)
    (hX1 : X ≤ 1) (hE0 : 0 ≤ E) (hE : E + 12 * u ≤ 1/64)
    (hq1 : (1 - u) * (X / 3) ≤ q3) (hq2 : q3 ≤ X / 3)
    (herr : |((st : ℚ) : ℝ) - Real.sin ((q3 : ℚ) : ℝ)| ≤ ((E : ℚ) : ℝ) * Real.sin ((q3 : ℚ) : ℝ))
    (ha1 : (1 - u) * (st * 3) ≤ a) (ha2 : a ≤ st * 3)
    (hc1 : (1 - u) * st ^ 3 ≤ c) (hc2 : c ≤ (1 + u) * st ^ 3)
    (hb1 : (1 - u) * (c * 4) ≤ bq) (hb2 : bq ≤ c * 4)
    (hr1 : (1 - u) * (a - bq) ≤ r) (hr2 : r ≤ a - bq) :
    |((r : ℚ) : ℝ) - Real.sin ((X : ℚ) : ℝ)| ≤ ((E + 12 * u : ℚ) : ℝ) * Real.sin ((X : ℚ) : ℝ) := by
  have hE64 : E ≤ 1/64 := by linarith
  obtain ⟨hstlo, hstle, hq30, hq3le⟩ := sin_level_st hu0 hu hX0 hX1 hE0 hE64 hq1 hq2 herr
  have hst0 : 0 < st := by linarith
  have ht30 : 0 < st ^ 3 := by positivity
  have hut3 : u * st ^ 3 ≤ 1/1024 * st ^ 3 := mul_le_mul_of_nonneg_right hu (le_of_lt ht30)
  have hut30 : 0 ≤ u * st ^ 3 := mul_nonneg (le_of_lt hu0) (le_of_lt ht30)
  have hc0 : 0 ≤ c := by linarith
  have huc : u * c ≤ u * ((1 + u) * st ^ 3) := mul_le_mul_of_nonneg_left hc2 (le_of_lt hu0)
  have huc0 : 0 ≤ u * c := mul_nonneg (le_of_lt hu0) hc0
  have huut3 : u * (u * st ^ 3) ≤ 1/1024 * (u * st ^ 3) := mul_le_mul_of_nonneg_right hu hut30
  have hust : 0 ≤ u * st := mul_nonneg (le_of_lt hu0) (le_of_lt hst0)
  have hust' : u * st ≤ 1/1024 * st := mul_le_mul_of_nonneg_right hu (le_of_lt hst0)
  have hst2le : st ^ 2 ≤ 1/8 := by
    have : st ^ 2 ≤ (34/100 : ℚ) ^ 2 := pow_le_pow_left₀ (le_of_lt hst0) hstle 2
    norm_num at this; linarith
  have hst3le : st ^ 3 ≤ 1/8 * st := by
    have e : st ^ 3 = st * st ^ 2 := by ring
    rw [e]
    calc st * st ^ 2 ≤ st * (1/8) := mul_le_mul_of_nonneg_left hst2le (le_of_lt hst0)
      _ = 1/8 * st := by ring
  have hab0 : 0 ≤ a - bq := by linarith
  have hud : 0 ≤ u * (a - bq) := mul_nonneg (le_of_lt hu0) hab0
  -- the three rounded operations, in `ℝ`
  have hA : |((a : ℚ) : ℝ) - 3 * ((st : ℚ) : ℝ)| ≤ 3 * ((u : ℚ) : ℝ) * (3 * ((st : ℚ) : ℝ)) := by
    have : |a - 3 * st| ≤ 3 * u * (3 * st) := by
      rw [abs_le]; constructor <;> linarith
    exact_mod_cast this
  have hB : |((bq : ℚ) : ℝ) - 4 * ((st : ℚ) : ℝ) ^ 3| ≤
      3 * ((u : ℚ) : ℝ) * (4 * ((st : ℚ) : ℝ) ^ 3) := by
    have : |bq - 4 * st ^ 3| ≤ 3 * u * (4 * st ^ 3) := by
      rw [abs_le]; constructor <;> linarith
    exact_mod_cast this
  have hR : |((r : ℚ) : ℝ) - (((a : ℚ) : ℝ) - ((bq : ℚ) : ℝ))| ≤
      3 * ((u : ℚ) : ℝ) * (((a : ℚ) : ℝ) - ((bq : ℚ) : ℝ)) := by
    have : |r - (a - bq)| ≤ 3 * u * (a - bq) := by
      rw [abs_le]; constructor <;> linarith
    exact_mod_cast this
  have hq3r0 : (0:ℝ) < ((q3 : ℚ) : ℝ) := by exact_mod_cast hq30
  have hq3r1 : ((q3 : ℚ) : ℝ) ≤ 1 := by
    have : q3 ≤ 1 := by linarith
    exact_mod_cast this
  have hEr0 : (0:ℝ) ≤ ((E : ℚ) : ℝ) := by exact_mod_cast hE0
  have hEr : ((E : ℚ) : ℝ) ≤ 1/64 := by
    have := (Rat.cast_le (K := ℝ)).mpr hE64
    push_cast at this; linarith
  have hur0 : (0:ℝ) < ((u : ℚ) : ℝ) := by exact_mod_cast hu0
  have hd0 : (0:ℝ) ≤ 3 * ((u : ℚ) : ℝ) := by linarith
  have hd : 3 * ((u : ℚ) : ℝ) ≤ 1/64 := by
    have h3 : 3 * u ≤ 1/64 := by linarith
    have := (Rat.cast_le (K := ℝ)).mpr h3
    push_cast at this; linarith
  have hS0 : 0 < Real.sin ((q3 : ℚ) : ℝ) := Real.sin_pos_of_pos_of_le_one hq3r0 hq3r1
  have hS13 : Real.sin ((q3 : ℚ) : ℝ) ≤ 1/3 := by
    have h1 := Real.sin_le (le_of_lt hq3r0)
    have h2 : ((q3 : ℚ) : ℝ) ≤ 1/3 := by
      have := (Rat.cast_le (K := ℝ)).mpr hq3le
      push_cast at this; linarith
    linarith
  have hT := triple_prop hS0 hS13 hEr0 hEr hd0 hd herr hA hB hR
  rw [← Real.sin_three_mul] at hT
  -- the argument perturbation
  have hXr0 : (0:ℝ) < ((X : ℚ) : ℝ) := by exact_mod_cast hX0
  have hXr1 : ((X : ℚ) : ℝ) ≤ 1 := by exact_mod_cast hX1
  have h3q0 : (0:ℝ) ≤ 3 * ((q3 : ℚ) : ℝ) := by linarith
  have h3qX : 3 * ((q3 : ℚ) : ℝ) ≤ ((X : ℚ) : ℝ) := by
    have h : 3 * q3 ≤ X := by linarith
    have := (Rat.cast_le (K := ℝ)).mpr h
    push_cast at this; linarith
  have hrel : ((X : ℚ) : ℝ) - 3 * ((q3 : ℚ) : ℝ) ≤ ((u : ℚ) : ℝ) * ((X : ℚ) : ℝ) := by
    have h : X - 3 * q3 ≤ u * X := by linarith
    have := (Rat.cast_le (K := ℝ)).mpr h
    push_cast at this; linarith
  have hPert := sin_arg_pert h3q0 h3qX hXr1 (le_of_lt hur0) hrel
  have hmono := sin_mono_unit h3q0 h3qX hXr1
  have hsX0 : 0 < Real.sin ((X : ℚ) : ℝ) := Real.sin_pos_of_pos_of_le_one hXr0 hXr1
  have hcoef : (0:ℝ) ≤ ((E : ℚ) : ℝ) + 3 * (3 * ((u : ℚ) : ℝ)) := by linarith
  have hT' : |((r : ℚ) : ℝ) - Real.sin (3 * ((q3 : ℚ) : ℝ))| ≤
      (((E : ℚ) : ℝ) + 3 * (3 * ((u : ℚ) : ℝ))) * Real.sin ((X : ℚ) : ℝ) :=
    le_trans hT (mul_le_mul_of_nonneg_left hmono hcoef)
  have hus : 0 ≤ ((u : ℚ) : ℝ) * Real.sin ((X : ℚ) : ℝ) :=
    mul_nonneg (le_of_lt hur0) (le_of_lt hsX0)
  push_cast
  calc |((r : ℚ) : ℝ) - Real.sin ((X : ℚ) : ℝ)|
      = |(((r : ℚ) : ℝ) - Real.sin (3 * ((q3 : ℚ) : ℝ))) +
          (Real.sin (3 * ((q3 : ℚ) : ℝ)) - Real.sin ((X : ℚ) : ℝ))| := by ring_nf
    _ ≤ |((r : ℚ) : ℝ) - Real.sin (3 * ((q3 : ℚ) : ℝ))| +
          |Real.sin (3 * ((q3 : ℚ) : ℝ)) - Real.sin ((X : ℚ) : ℝ)| := abs_add_le _ _
    _ ≤ (((E : ℚ) : ℝ) + 3 * (3 * ((u : ℚ) : ℝ))) * Real.sin ((X : ℚ) : ℝ) +
          6/5 * ((u : ℚ) : ℝ) * Real.sin ((X : ℚ) : ℝ) := add_le_add hT' hPert
    _ ≤ (((E : ℚ) : ℝ) + 12 * ((u : ℚ) : ℝ)) * Real.sin ((X : ℚ) : ℝ) := by linarith

/-- **one triple-angle step**: if `sx` approximates `sin x₃` (`x₃ = trunc(x/3)`) with relative
    error `E`, then `3·sx − 4·sx³` (three truncations and one `powi`) approximates `sin x` with
    relative error `E + 12u` -/
theorem sin_level {lo : ℚ} (S : SCtx W lo) {x sx : Flt} {E : ℚ} (hx : PosN W x) (hX1 : x.mag ≤ 1)
    (hXlo : 256 * (2:ℚ) ^ (W.emin + 8) ≤ x.mag ^ 3) (hE0 : 0 ≤ E) (hE : E + 12 * u W ≤ 1/64)
    (hsx : PosN W sx)
    (herr : |((sx.mag : ℚ) : ℝ) - Real.sin (((divWithRm x (fromU64 W 3) .none).mag : ℚ) : ℝ)| ≤
      ((E : ℚ) : ℝ) * Real.sin (((divWithRm x (fromU64 W 3) .none).mag : ℚ) : ℝ)) :
    PosN W (subWithRm (mulWithRm sx (fromU64 W 3) .none) ((sx.powi 3).scale 2 .none) .none) ∧
      |(((subWithRm (mulWithRm sx (fromU64 W 3) .none) ((sx.powi 3).scale 2 .none) .none).mag : ℚ) : ℝ)
          - Real.sin ((x.mag : ℚ) : ℝ)| ≤
        ((E + 12 * u W : ℚ) : ℝ) * Real.sin ((x.mag : ℚ) : ℝ) := by
  have hW := S.wf
  have hX0 := hx.mag_pos
  have h6 := S.six_le_max
  have hu23 := S.u_le
  have hu0 := RelErr.u_pos W
  have hu8 : u W ≤ 1/1024 := by norm_num at hu23 ⊢; linarith
  have hpe : (0:ℚ) < (2:ℚ) ^ W.emin := by positivity
  have hemin8 := zpow_emin8 W
  have hp8 : (0:ℚ) < (2:ℚ) ^ (W.emin + 8) := by positivity
  have hXlo' : (2:ℚ) ^ (W.emin + 8) ≤ x.mag ^ 3 := by linarith
  have hE64 : E ≤ 1/64 := by linarith
  obtain ⟨hx3, hq1, hq2⟩ := sin_arg3 S hx hX1 hXlo'
  obtain ⟨hstlo, hstle, hq30, hq3le⟩ := sin_level_st hu0 hu8 hX0 hX1 hE0 hE64 hq1 hq2 herr
  have hst0 : 0 < sx.mag := by linarith
  have hst1' : sx.mag ≤ 1 := by linarith
  have ht30 : 0 < sx.mag ^ 3 := by positivity
  have hst3 : (2:ℚ) ^ (W.emin + 8) ≤ sx.mag ^ 3 := by
    have h5 : (3/16 * x.mag) ^ 3 ≤ sx.mag ^ 3 := pow_le_pow_left₀ (by linarith) hstlo 3
    have h6' : (3/16 * x.mag) ^ 3 = 27/4096 * x.mag ^ 3 := by ring
    rw [h6'] at h5
    linarith
  obtain ⟨_, hste⟩ := pow_emin_le_of_cube S hst0 hst1' hst3
  have hst3e := hst3
  rw [hemin8] at hste hst3e
  have hst2le : sx.mag ^ 2 ≤ 1/8 := by
    have : sx.mag ^ 2 ≤ (34/100 : ℚ) ^ 2 := pow_le_pow_left₀ (le_of_lt hst0) hstle 2
    norm_num at this; linarith
  have hst3le : sx.mag ^ 3 ≤ 1/8 * sx.mag := by
    have e : sx.mag ^ 3 = sx.mag * sx.mag ^ 2 := by ring
    rw [e]
    calc sx.mag * sx.mag ^ 2 ≤ sx.mag * (1/8) := mul_le_mul_of_nonneg_left hst2le (le_of_lt hst0)
      _ = 1/8 * sx.mag := by ring
  have hut3 : u W * sx.mag ^ 3 ≤ 1/1024 * sx.mag ^ 3 :=
    mul_le_mul_of_nonneg_right hu8 (le_of_lt ht30)
  have hut30 : 0 ≤ u W * sx.mag ^ 3 := mul_nonneg (le_of_lt hu0) (le_of_lt ht30)
  have hust' : u W * sx.mag ≤ 1/1024 * sx.mag := mul_le_mul_of_nonneg_right hu8 (le_of_lt hst0)
  -- sx3 = trunc(3·sx)
  have h3nn := three_nn S
  have ha_le : sx.mag * 3 ≤ maxFinite W := by linarith
  have ha_lo : (2:ℚ) ^ W.emin ≤ sx.mag * 3 := by linarith
  have hann := nn_mul hW .none (nn_of_posN hsx) h3nn ha_le
  obtain ⟨ha1, ha2⟩ := rq_none_spec hW ha_lo ha_le
  -- cube
  obtain ⟨hcP, hc1, hc2⟩ := powi_posN S hsx (by norm_num : 2 ≤ 3) (le_refl 3) hst1' hst3
  have hc0 : 0 < (sx.powi 3).mag := hcP.mag_pos
  -- c4 = trunc(4·cube)
  have hFc : (sx.powi 3).sem.WF := by rw [hcP.sem]; exact hW
  have hsc_can := scale_canonical (sx.powi 3) 2 .none hFc hcP.can
  have hsc_cor := C10.scale_correct (sx.powi 3) 2 .none hFc hcP.can
  have hsc_spec : Spec.scaleExact .none 2 (sx.powi 3) =
      Spec.round W .none false ((sx.powi 3).mag * 4) := by
    simp only [Spec.scaleExact, hcP.cat, hcP.sign, hcP.sem]
    norm_num
  rw [hsc_spec] at hsc_cor
  have hb_le : (sx.powi 3).mag * 4 ≤ maxFinite W := by linarith
  have hb_lo : (2:ℚ) ^ W.emin ≤ (sx.powi 3).mag * 4 := by linarith
  have hbnn := nn_of_rq hW (hsc_can.2.trans hcP.sem) hsc_can.1 .none (by linarith) hb_le hsc_cor
  obtain ⟨hb1, hb2⟩ := rq_none_spec hW hb_lo hb_le
  have hbq0 : 0 ≤ rq W .none ((sx.powi 3).mag * 4) := rq_nonneg hW (by linarith) .none
  -- the difference
  have hab_lo : 2 * sx.mag ≤ rq W .none (sx.mag * 3) - rq W .none ((sx.powi 3).mag * 4) := by
    linarith
  have hab_le : rq W .none (sx.mag * 3) - rq W .none ((sx.powi 3).mag * 4) ≤ maxFinite W := by
    linarith
  have hab_lo' : (2:ℚ) ^ W.emin ≤
      rq W .none (sx.mag * 3) - rq W .none ((sx.powi 3).mag * 4) := by linarith
  have hrnn := nn_sub hW .none hann hbnn (by linarith) hab_le
  obtain ⟨hr1, hr2⟩ := rq_none_spec hW hab_lo' hab_le
  have hrpos : 0 < rq W .none (rq W .none (sx.mag * 3) - rq W .none ((sx.powi 3).mag * 4)) := by
    have : 0 < (1 - u W) *
        (rq W .none (sx.mag * 3) - rq W .none ((sx.powi 3).mag * 4)) :=
      mul_pos (by linarith) (by linarith)
    linarith
  obtain ⟨hP, hm⟩ := posN_of_nn hrnn hrpos
  refine ⟨hP, ?_⟩
  rw [hm]
  exact sin_level_num hu0 hu8 hX0 hX1 hE0 hE hq1 hq2 herr ha1 ha2 hc1 hc2 hb1 hb2 hr1 hr2

/-- **`k` triple-angle steps around the Taylor stage**: for a positive `x ≤ 1` with
    `x·16 ≤ 3^steps` (so that the innermost argument is at most `1/16`) and `x ≥ lo·4^steps`,
    `sinStep4 steps x` is a positive number within relative distance
    `(3·max(50,p) + 12·steps)·u` of `sin x` -/
theorem sinStep4_acc {lo : ℚ} (S : SCtx W lo) (K : ℕ)
    (hK : ((3 * Nat.max 50 W.p + 12 * K : ℕ) : ℚ) * u W ≤ 1/64) :
    ∀ (steps : ℕ) (x : Flt), steps ≤ K → PosN W x → x.mag ≤ 1 → x.mag * 16 ≤ 3 ^ steps →
      lo * 4 ^ steps ≤ x.mag →
      PosN W (sinStep4 steps x) ∧
        |(((sinStep4 steps x).mag : ℚ) : ℝ) - Real.sin ((x.mag : ℚ) : ℝ)| ≤
          ((((3 * Nat.max 50 W.p + 12 * steps : ℕ) : ℚ) * u W : ℚ) : ℝ) *
            Real.sin ((x.mag : ℚ) : ℝ) := by
  have hu0 := RelErr.u_pos W
  intro steps
  induction steps with
  | zero =>
    intro x _ hx _ h16 hlo
    have h1 : x.mag ≤ 1/16 := by norm_num at h16; linarith
    have h2 : lo ≤ x.mag := by simpa using hlo
    have := sinTaylor_acc S hx h2 h1
    simpa [sinStep4] using this
  | succ s ih =>
    intro x hsK hx hX1 h16 hlo
    have hX0 := hx.mag_pos
    have hlopos := S.lo_pos
    -- `x³ ≥ 256·2^(emin+8)`
    have h4 : (1:ℚ) ≤ 4 ^ s := one_le_pow₀ (by norm_num)
    have hlo4 : 4 * lo ≤ x.mag := by
      rw [pow_succ] at hlo
      nlinarith
    have hXlo : 256 * (2:ℚ) ^ (W.emin + 8) ≤ x.mag ^ 3 := by
      have h1 : (4 * lo) ^ 3 ≤ x.mag ^ 3 := pow_le_pow_left₀ (by linarith) hlo4 3
      have h2 : (4 * lo) ^ 3 = 64 * lo ^ 3 := by ring
      have h3 := S.lo10
      have e : (2:ℚ) ^ (W.emin + 10) = 4 * (2:ℚ) ^ (W.emin + 8) := by
        rw [show W.emin + 10 = (W.emin + 8) + 2 by ring, zpow_add₀ (by norm_num : (2:ℚ) ≠ 0)]
        norm_num; ring
      rw [e] at h3
      rw [h2] at h1
      linarith
    have hp8 : (0:ℚ) < (2:ℚ) ^ (W.emin + 8) := by positivity
    obtain ⟨hx3, hq1, hq2⟩ := sin_arg3 S hx hX1 (by linarith)
    have hu23 := S.u_le
    have hu8 : u W ≤ 1/1024 := by norm_num at hu23 ⊢; linarith
    have huX : u W * x.mag ≤ 1/1024 * x.mag := mul_le_mul_of_nonneg_right hu8 (le_of_lt hX0)
    -- the induction hypothesis at `x/3`
    have hq3_1 : (divWithRm x (fromU64 W 3) .none).mag ≤ 1 := by linarith
    have hq3_16 : (divWithRm x (fromU64 W 3) .none).mag * 16 ≤ 3 ^ s := by
      rw [pow_succ] at h16; linarith
    have hq3_lo : lo * 4 ^ s ≤ (divWithRm x (fromU64 W 3) .none).mag := by
      rw [pow_succ] at hlo
      have : x.mag / 4 ≤ (divWithRm x (fromU64 W 3) .none).mag := by linarith
      linarith
    obtain ⟨hsx, herr⟩ := ih _ (by omega) hx3 hq3_1 hq3_16 hq3_lo
    -- the budget
    have hcast : (((3 * Nat.max 50 W.p + 12 * (s + 1) : ℕ) : ℚ)) * u W =
        (((3 * Nat.max 50 W.p + 12 * s : ℕ) : ℚ)) * u W + 12 * u W := by push_cast; ring
    have hle : (((3 * Nat.max 50 W.p + 12 * (s + 1) : ℕ) : ℚ)) * u W ≤ 1/64 := by
      have h1 : (((3 * Nat.max 50 W.p + 12 * (s + 1) : ℕ) : ℚ)) ≤
          (((3 * Nat.max 50 W.p + 12 * K : ℕ) : ℚ)) := by
        exact_mod_cast (by omega : 3 * Nat.max 50 W.p + 12 * (s + 1) ≤ 3 * Nat.max 50 W.p + 12 * K)
      exact le_trans (mul_le_mul_of_nonneg_right h1 (le_of_lt hu0)) hK
    have hE0 : (0:ℚ) ≤ (((3 * Nat.max 50 W.p + 12 * s : ℕ) : ℚ)) * u W :=
      mul_nonneg (by positivity) (le_of_lt hu0)
    have := sin_level S hx hX1 hXlo hE0 (by rw [← hcast]; exact hle) hsx herr
    rw [sinStep4_succ, hx.sem, hcast]
    exact this

end Arp.TrigErr
