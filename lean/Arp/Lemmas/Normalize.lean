import Arp.Lemmas.Basic
/-!
# The central lemma: `normalize` = `Spec.round` on what the triple (mant, exp, loss) denotes
-/
namespace Arp
theorem ilog2_unique {q : ℚ} (hq : 0 < q) {k : Int} (h1 : (2:ℚ)^k ≤ q) (h2 : q < (2:ℚ)^(k+1)) :
    ilog2 q = k := by
  obtain ⟨a, b⟩ := ilog2_spec hq
  have two : (1:ℚ) ≤ 2 := by norm_num
  by_contra hne
  rcases lt_or_gt_of_ne hne with h | h
  · have : (2:ℚ)^(ilog2 q + 1) ≤ 2^k := zpow_le_zpow_right₀ two (by omega)
    linarith
  · have : (2:ℚ)^(k+1) ≤ 2^(ilog2 q) := zpow_le_zpow_right₀ two (by omega)
    linarith

theorem cls_lt {f : ℚ} (h0 : 0 < f) (h : f < 1/2) : cls f = .lt := by
  unfold cls; rw [if_neg (ne_of_gt h0), if_pos h]
theorem cls_half : cls (1/2 : ℚ) = .half := by
  unfold cls; rw [if_neg (by norm_num), if_neg (lt_irrefl _), if_pos rfl]
theorem cls_gt {f : ℚ} (h : 1/2 < f) : cls f = .gt := by
  unfold cls
  rw [if_neg (by intro h'; rw [h'] at h; norm_num at h), if_neg (by intro h'; linarith), if_neg (ne_of_gt h)]

theorem up_eq (rm : RM) (sg : Bool) (m : Nat) (f : ℚ) (hf0 : 0 < f) :
    Spec.up rm sg m f = needRoundAway sg m rm (cls f) := by
  have hfz : f ≠ 0 := ne_of_gt hf0
  unfold Spec.up
  rw [show (decide (f ≠ 0)) = true from decide_eq_true hfz, Bool.true_and]
  cases rm <;> simp only [needRoundAway]
  · -- nte
    rcases lt_trichotomy f (1/2) with h | h | h
    · rw [cls_lt hf0 h, decide_eq_false (by linarith : ¬ (1/2 < f)),
        decide_eq_false (by linarith : ¬ (f = 1/2))]; rfl
    · subst h; rw [cls_half, decide_eq_false (lt_irrefl _), decide_eq_true rfl]; rfl
    · rw [cls_gt h, decide_eq_true h]; rfl
  · -- nta
    rcases lt_trichotomy f (1/2) with h | h | h
    · rw [cls_lt hf0 h, decide_eq_false (by linarith : ¬ (1/2 ≤ f))]; rfl
    · subst h; rw [cls_half, decide_eq_true (le_refl _)]; rfl
    · rw [cls_gt h, decide_eq_true (le_of_lt h)]; rfl

theorem up_zero (rm : RM) (sg : Bool) (m : Nat) : Spec.up rm sg m 0 = false := by
  unfold Spec.up; simp

/-- Step II of `normalize` agrees with steps 3-6 of the specification. -/
theorem stepII_finish (s : Sem) (hp : 1 ≤ s.p) (rm : RM) (sg : Bool) (e : Int) (m : Nat) (f : ℚ)
    (hf0 : 0 ≤ f) (hf1 : f < 1) (hm : m < 2 ^ s.p) (he : e ≤ s.emax) (hm0 : m = 0 → e = s.emin) :
    (Flt.normalize.stepII rm ⟨s, sg, e, m, .normal⟩ (cls f)).toRes
      = Spec.finish s rm sg e m (Spec.up rm sg m f) := by
  have hmne : m ≠ 2 ^ s.p := ne_of_lt hm
  have hnotgt : ¬ (e > s.emax) := not_lt.mpr he
  have noup : Spec.finish s rm sg e m false = if m = 0 then Res.zero sg else Res.fin sg e m := by
    unfold Spec.finish; simp only [Bool.false_eq_true, if_false, hmne, hnotgt]
  by_cases hfz : f = 0
  · subst hfz
    have hc : cls (0:ℚ) = .zero := by simp [cls]
    rw [up_zero, noup, hc]
    unfold Flt.normalize.stepII
    by_cases h0 : m = 0
    · simp [h0, Flt.zero, Flt.toRes]
    · simp [h0, Flt.toRes]
  · have hfpos : 0 < f := lt_of_le_of_ne hf0 (Ne.symm hfz)
    have hc : cls f ≠ .zero := fun h => hfz (cls_zero_iff.mp h)
    rw [up_eq rm sg m f hfpos]
    unfold Flt.normalize.stepII
    simp only [hc, if_false]
    cases hna : needRoundAway sg m rm (cls f)
    · rw [noup]
      by_cases h0 : m = 0
      · simp [h0, Flt.zero, Flt.toRes]
      · simp [h0, Flt.toRes]
    · simp only [if_true]
      have he1 : (if m = 0 then s.emin else e) = e := by
        by_cases h0 : m = 0
        · simp [h0, hm0 h0]
        · simp [h0]
      rw [he1]
      unfold Spec.finish
      simp only [if_true]
      by_cases hcarry : m + 1 = 2 ^ s.p
      · have hsh : (m + 1) >>> s.p ≠ 0 := by
          rw [hcarry, Nat.shiftRight_eq_div_pow, Nat.div_self (by positivity)]; exact one_ne_zero
        have hhalf : (m + 1) >>> 1 = 2 ^ (s.p - 1) := by
          rw [hcarry, Nat.shiftRight_eq_div_pow]
          obtain ⟨k, hk⟩ : ∃ k, s.p = k + 1 := ⟨s.p - 1, by omega⟩
          rw [hk]; simp [Nat.pow_succ]
        rw [if_pos hsh, if_pos hcarry]
        by_cases hlt : e < s.emax
        · have : ¬ (e + 1 > s.emax) := by omega
          rw [if_pos hlt, if_neg this, hhalf]
          simp [Flt.toRes]
        · have : e + 1 > s.emax := by omega
          rw [if_neg hlt, if_pos this]
          cases rm <;> cases sg <;> simp_all [needRoundAway, Spec.overflow, Flt.inf, Flt.toRes]
      · have hsh : ¬ ((m + 1) >>> s.p ≠ 0) := by
          rw [not_not, Nat.shiftRight_eq_div_pow]; apply Nat.div_eq_of_lt; omega
        rw [if_neg hsh, if_neg hcarry, if_neg hnotgt, if_neg (Nat.succ_ne_zero m)]
        simp [Flt.toRes]

theorem overflow_toRes (x : Flt) (rm : RM) (hp : 1 ≤ x.sem.p) :
    (x.overflow rm).toRes = Spec.overflow x.sem rm x.sign := by
  have h : (2:Nat) ^ x.sem.p - 1 ≠ 0 := by
    have : 2 ^ 1 ≤ 2 ^ x.sem.p := Nat.pow_le_pow_right (by norm_num) hp
    omega
  cases rm <;> cases hs : x.sign <;>
    simp [Flt.overflow, Spec.overflow, Flt.new, Flt.inf, Flt.toRes, h, hs]

theorem finish_overflow (F : Sem) (rm : RM) (neg : Bool) (e : Int) (m : Nat) (up : Bool)
    (he : e > F.emax) : Spec.finish F rm neg e m up = Spec.overflow F rm neg := by
  unfold Spec.finish
  have : e + 1 > F.emax := by omega
  simp only [this, he, if_true]
  split <;> simp

theorem tval (m : Nat) (f : ℚ) (ex e : Int) (p : Nat) :
    (((m:ℚ) + f) * (2:ℚ) ^ (ex - ((p:Int) - 1))) / pow2 (e - ((p:Int) - 1)) = ((m:ℚ) + f) * (2:ℚ) ^ (ex - e) := by
  rw [pow2_eq, mul_div_assoc, ← zpow_sub₀ (by norm_num : (2:ℚ) ≠ 0)]
  congr 2; ring

theorem normalize_correct (x : Flt) (rm : RM) (loss : Loss) (f q : ℚ)
    (hp : 1 ≤ x.sem.p) (hrange : x.sem.emin ≤ x.sem.emax)
    (hx : x.cat = .normal) (hm : x.mant ≠ 0)
    (hf0 : 0 ≤ f) (hf1 : f < 1) (hl : cls f = loss)
    (hq : q = ((x.mant:ℚ) + f) * (2:ℚ) ^ (x.exp - ((x.sem.p:Int) - 1)))
    (hpre : msb x.mant < x.sem.p → x.sem.emin < x.exp → loss = .zero) :
    (x.normalize rm loss).toRes = Spec.round x.sem rm x.sign q := by
  obtain ⟨s, sg, ex, mant, cat⟩ := x
  simp only at hp hrange hx hm hq hpre ⊢
  subst hx
  set n := msb mant with hn
  have hn1 : 1 ≤ n := msb_pos hm
  have hlo : (2:ℚ) ^ (n - 1) ≤ (mant:ℚ) := by exact_mod_cast msb_le hm
  have hhi : (mant:ℚ) + 1 ≤ (2:ℚ) ^ n := by
    have : mant + 1 ≤ 2 ^ n := lt_msb mant
    exact_mod_cast this
  have hloN : 2 ^ (n - 1) ≤ mant := msb_le hm
  have hmpos : (0:ℚ) < mant := by exact_mod_cast Nat.pos_of_ne_zero hm
  have hqpos : 0 < q := by rw [hq]; positivity
  -- the exponent of the leading bit
  have hL : ilog2 q = ex + n - s.p := by
    apply ilog2_unique hqpos
    · rw [hq]
      have e1 : (2:ℚ) ^ (ex + (n:Int) - s.p) = (2:ℚ) ^ (n - 1) * (2:ℚ) ^ (ex - ((s.p:Int) - 1)) := by
        rw [← zpow_natCast, ← zpow_add₀ (by norm_num : (2:ℚ) ≠ 0)]; congr 1
        have : ((n - 1 : Nat) : Int) = (n:Int) - 1 := by omega
        rw [this]; ring
      rw [e1]
      apply mul_le_mul_of_nonneg_right _ (by positivity)
      linarith
    · rw [hq]
      have e1 : (2:ℚ) ^ (ex + (n:Int) - s.p + 1) = (2:ℚ) ^ n * (2:ℚ) ^ (ex - ((s.p:Int) - 1)) := by
        rw [← zpow_natCast, ← zpow_add₀ (by norm_num : (2:ℚ) ≠ 0)]; congr 1; ring
      rw [e1]
      apply mul_lt_mul_of_pos_right _ (by positivity)
      linarith
  unfold Flt.normalize Spec.round
  simp only [ne_eq, not_true_eq_false, if_false, hL]
  have hnpos : ((n:Nat):Int) > 0 := by omega
  rw [if_pos (by exact_mod_cast hnpos)]
  by_cases hov : ex + ((n:Int) - s.p) > s.emax
  · -- exponent overflow before rounding
    rw [if_pos hov, overflow_toRes _ _ hp]
    have : max (ex + (n:Int) - s.p) s.emin > s.emax := by omega
    rw [finish_overflow _ _ _ _ _ _ this]
  · rw [if_neg hov]
    have hov' : ex + (n:Int) - s.p ≤ s.emax := by omega
    -- the shift amount `ec` and the target exponent `e = ex + ec = max L emin`
    generalize hec : (if ex + ((n:Int) - s.p) < s.emin then s.emin - ex else (n:Int) - s.p) = ec
    have he : max (ex + (n:Int) - s.p) s.emin = ex + ec := by
      rw [← hec]; split <;> omega
    have hec0 : (n:Int) - s.p ≤ ec := by rw [← hec]; split <;> omega
    have hee : ex + ec ≤ s.emax := by rw [← he]; omega
    rw [he]
    have ht : q / pow2 (ex + ec - ((s.p:Int) - 1)) = ((mant:ℚ) + f) * (2:ℚ) ^ (-ec) := by
      rw [hq, tval]; congr 2; ring
    rw [ht]
    rcases lt_trichotomy ec 0 with hneg | hzero | hposi
    · -- shift left: nothing may have been lost
      rw [if_pos hneg]
      have hnp : n < s.p := by omega
      have hemin : s.emin < ex := by
        rw [← hec] at hneg; split at hneg <;> omega
      have hlz : loss = .zero := hpre hnp hemin
      have hfz : f = 0 := cls_zero_iff.mp (hl.trans hlz)
      subst hfz
      obtain ⟨k, hk⟩ : ∃ k : Nat, ec = -(k:Int) := ⟨ec.natAbs, by omega⟩
      have hkn : ec.natAbs = k := by omega
      have hkp : n + k ≤ s.p := by omega
      have hval : ((mant:ℚ) + 0) * (2:ℚ) ^ (-ec) = ((mant <<< k : Nat) : ℚ) := by
        rw [hk, neg_neg, zpow_natCast, Nat.shiftLeft_eq]; push_cast; ring
      rw [hval, hkn]
      have hfl : (((mant <<< k : Nat) : ℚ)).floor.toNat = mant <<< k := by
        rw [show (((mant <<< k : Nat) : ℚ)).floor = ⌊((mant <<< k : Nat) : ℚ)⌋ from rfl, Int.floor_natCast]
        exact Int.toNat_natCast _
      rw [hfl, sub_self, up_zero]
      have hlt : mant <<< k < 2 ^ s.p := by
        rw [Nat.shiftLeft_eq]
        calc mant * 2 ^ k < 2 ^ n * 2 ^ k := Nat.mul_lt_mul_of_pos_right (lt_msb mant) (by positivity)
          _ = 2 ^ (n + k) := (Nat.pow_add 2 n k).symm
          _ ≤ 2 ^ s.p := Nat.pow_le_pow_right (by norm_num) hkp
      have hne0 : mant <<< k ≠ 0 := by
        rw [Nat.shiftLeft_eq]; exact Nat.mul_ne_zero hm (by positivity)
      unfold Spec.finish
      simp only [Bool.false_eq_true, if_false, ne_of_lt hlt, not_lt.mpr hee, hne0, Flt.toRes]
    · -- no shift
      subst hzero
      rw [if_neg (lt_irrefl _), if_neg (lt_irrefl _)]
      simp only [add_zero, neg_zero, zpow_zero, mul_one]
      have hnp : n ≤ s.p := by omega
      have hfl : ((mant:ℚ) + f).floor.toNat = mant := by
        have : ⌊(mant:ℚ) + f⌋ = (mant:Int) := by
          rw [Int.floor_eq_iff]; push_cast; constructor <;> linarith
        rw [show ((mant:ℚ) + f).floor = ⌊(mant:ℚ) + f⌋ from rfl, this]; simp
      rw [hfl, add_sub_cancel_left, ← hl]
      have hlt : mant < 2 ^ s.p :=
        lt_of_lt_of_le (lt_msb mant) (Nat.pow_le_pow_right (by norm_num) hnp)
      have := stepII_finish s hp rm sg ex mant f hf0 hf1 hlt (by simpa using hee) (fun h => absurd h hm)
      simpa using this
    · -- shift right by ec > 0 with combined loss
      rw [if_neg (by omega), if_pos hposi]
      obtain ⟨k, hk⟩ : ∃ k : Nat, ec = (k:Int) := ⟨ec.toNat, by omega⟩
      subst hk
      have hk1 : 1 ≤ k := by omega
      simp only [Int.toNat_natCast]
      have hval : ((mant:ℚ) + f) * (2:ℚ) ^ (-(k:Int)) = ((mant:ℚ) + f) / 2 ^ k := by
        rw [zpow_neg, zpow_natCast, div_eq_mul_inv]
      rw [hval]
      have hfl : (((mant:ℚ) + f) / 2 ^ k).floor.toNat = mant >>> k := by
        rw [show (((mant:ℚ) + f) / 2 ^ k).floor = ⌊((mant:ℚ) + f) / 2 ^ k⌋ from rfl,
          floor_shift mant k f hf0 hf1]
        exact Int.toNat_natCast _
      rw [hfl, fract_shift]
      set r := mant % 2 ^ k with hr
      have hrlt : r < 2 ^ k := Nat.mod_lt _ (by positivity)
      have hpos : (0:ℚ) < 2 ^ k := by positivity
      have hrq : (r:ℚ) + 1 ≤ 2 ^ k := by
        have : ((r + 1 : Nat) : ℚ) ≤ ((2 ^ k : Nat) : ℚ) := Nat.cast_le.mpr hrlt
        push_cast at this; exact this
      have hf'0 : 0 ≤ ((r:ℚ) + f) / 2 ^ k := by
        apply div_nonneg _ (le_of_lt hpos); have : (0:ℚ) ≤ r := Nat.cast_nonneg r; linarith
      have hf'1 : ((r:ℚ) + f) / 2 ^ k < 1 := by rw [div_lt_one hpos]; linarith
      have hcl : combineLoss (lossOfBits mant k) loss = cls (((r:ℚ) + f) / 2 ^ k) := by
        rw [lossOfBits_cls, ← hl, combine_cls r k hk1 hrlt f hf0 hf1]
      rw [hcl]
      have hlt : mant >>> k < 2 ^ s.p := by
        rw [Nat.shiftRight_eq_div_pow, Nat.div_lt_iff_lt_mul (by positivity), ← Nat.pow_add]
        exact lt_of_lt_of_le (lt_msb mant) (Nat.pow_le_pow_right (by norm_num) (by omega))
      have hm0 : mant >>> k = 0 → ex + (k:Int) = s.emin := by
        intro h0
        rw [Nat.shiftRight_eq_div_pow, Nat.div_eq_zero_iff] at h0
        have hpk : ¬ (2:Nat) ^ k = 0 := by positivity
        have hmk : mant < 2 ^ k := by tauto
        have hnk : n ≤ k := by
          by_contra hc
          have : 2 ^ k ≤ 2 ^ (n - 1) := Nat.pow_le_pow_right (by norm_num) (by omega)
          omega
        have hnk' : (n:Int) ≤ (k:Int) := by exact_mod_cast hnk
        rw [← hec] at hnk' ⊢
        by_cases hcl : ex + ((n:Int) - s.p) < s.emin
        · rw [if_pos hcl]; omega
        · rw [if_neg hcl] at hnk'; exfalso; omega
      exact stepII_finish s hp rm sg (ex + k) (mant >>> k) _ hf'0 hf'1 hlt hee hm0
end Arp
