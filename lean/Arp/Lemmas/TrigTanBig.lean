import Arp.Lemmas.TrigTan
import Arp.Lemmas.TrigTanReal
import Arp.Props.C17Big
/-!
# `tan` for `1 ≤ |x| ≤ 128`: reduction modulo `π̂`, nested `sin`, `s/√(1 − s²)`

* `rem_stage`: `v1 rem m` for a positive modulus `m ≥ 2` and `1 ≤ v1 ≤ 128` (the generalisation of
  `red_stage1`): `V2 = X − n·m ∈ [0, m]` on the fixed-point grid, `n ≤ 64`;
* `tan_reduce`: the reduced argument `θq ∈ [0, 8/5]` of `tan`, within `200·2^-p_W` of a real `θ`
  with `tan X = ± tan θ`.
-/
namespace Arp.TrigErr
open Arp Arp.SpecRound Arp.RelErr Arp.Ln2 Arp.Sqrt

/-- the `rem` stage with a positive modulus `2 ≤ m`: `V2 = X − n·m ∈ [0, m]`, on the grid -/
theorem rem_stage {W : Sem} (hW : W.WF) (hp24 : 24 ≤ W.p)
    (hfuel : W.p + 10 ≤ innerFuel) {m v1 : Flt} (hm : PosN W m) (hm2 : 2 ≤ m.mag)
    (hv1 : PosN W v1) (hX1 : 1 ≤ v1.mag) (hX128 : v1.mag ≤ 128) :
    ∃ (v2 : Flt) (V2 : ℚ) (n : ℕ),
      (if v1.gt m then v1.remM m else some v1) = some v2 ∧
      NN W v2 V2 ∧ Fix (W.p - 1) V2 ∧ 0 ≤ V2 ∧ V2 ≤ m.mag ∧ n ≤ 64 ∧
      V2 = v1.mag - (n:ℚ) * m.mag := by
  have hemin : (2:ℚ) ^ W.emin ≤ 1 := by
    have : (2:ℚ) ^ W.emin ≤ (2:ℚ) ^ (0:ℤ) :=
      zpow_le_zpow_right₀ (by norm_num) (Sem.emin_le_zero hW)
    simpa using this
  have hmnn : NN W m m.mag := nn_of_posN hm
  have hv1nn := nn_of_posN hv1
  have hXfix : Fix (W.p - 1) v1.mag := fix_of_isRep hW hv1.isRep hX1
  have hMfix : Fix (W.p - 1) m.mag := fix_of_isRep hW hm.isRep (by linarith)
  by_cases hgt : v1.gt m = true
  · rw [if_pos hgt]
    have hXY : m.mag < v1.mag := (nn_gt_iff hW hv1nn hmnn).mp hgt
    have hFv : v1.sem.WF := by rw [hv1.sem]; exact hW
    have hsem : m.sem = v1.sem := by rw [hm.sem, hv1.sem]
    obtain ⟨e1, e2⟩ := posN_exp_bounds hW hv1 (by linarith)
    obtain ⟨f1, f2⟩ := posN_exp_bounds hW hm (by linarith)
    have hve : v1.exp ≤ 7 := by
      have : (2:ℚ) ^ v1.exp < (2:ℚ) ^ (8:ℤ) := by norm_num; linarith
      have := (zpow_lt_zpow_iff_right₀ (by norm_num : (1:ℚ) < 2)).mp this
      omega
    have hpe : 1 ≤ m.exp := by
      have : (2:ℚ) ^ (1:ℤ) < (2:ℚ) ^ (m.exp + 1) := by norm_num; linarith
      have := (zpow_lt_zpow_iff_right₀ (by norm_num : (1:ℚ) < 2)).mp this
      omega
    have hfb : C11.fuelBound v1 m ≤ innerFuel := by
      unfold C11.fuelBound; rw [hv1.sem]; omega
    obtain ⟨r, hr⟩ := C11.rem_fuel_ge v1 m hFv hsem hv1.can hm.can innerFuel hfb
    obtain ⟨hres, hval, hlt, hsign⟩ := C11.rem_spec_normal v1 m innerFuel hFv hsem hv1.can
      hm.can hv1.cat hm.cat r hr
    obtain ⟨hrcan, hrsem⟩ := remFuel_canonical innerFuel v1 m r hFv hsem hv1.can hm.can hr
    have hY0 : 0 < m.mag := hm.mag_pos
    set fl := ⌊v1.mag / m.mag⌋ with hfl
    have hfl1 : (fl:ℚ) ≤ v1.mag / m.mag := Int.floor_le _
    have hfl2 : v1.mag / m.mag < (fl:ℚ) + 1 := Int.lt_floor_add_one _
    have hq1 : 1 < v1.mag / m.mag := by rw [lt_div_iff₀ hY0]; linarith
    have hfl0 : 0 ≤ fl := by
      have : (0:ℚ) < (fl:ℚ) + 1 := by linarith
      have : (0:ℤ) < fl + 1 := by exact_mod_cast this
      omega
    obtain ⟨n, hn⟩ : ∃ n : ℕ, fl = (n:ℤ) := ⟨fl.toNat, by omega⟩
    have hnq : ((n:ℕ):ℚ) = (fl:ℚ) := by rw [hn]; simp
    have h0 : 0 ≤ v1.mag - (n:ℚ) * m.mag := by
      rw [hnq]; rw [le_div_iff₀ hY0] at hfl1; linarith
    have h1 : v1.mag - (n:ℚ) * m.mag < m.mag := by
      rw [hnq]; rw [div_lt_iff₀ hY0] at hfl2; linarith
    have hrv := C11.remVal_normal v1 m hv1.cat hm.cat n hv1.mag_pos hY0 h0 h1
    rw [hv1.sign] at hrv
    simp only [Bool.false_eq_true, if_false, one_mul] at hrv
    have hrval : r.val = v1.mag - (n:ℚ) * m.mag := by rw [hval, hrv]
    have hn64 : n ≤ 64 := by
      have : (n:ℚ) * m.mag ≤ v1.mag := by linarith
      have h3 : (n:ℚ) * 2 ≤ 128 := by nlinarith
      have h4 : (n:ℚ) < 65 := by linarith
      have : n < 65 := by exact_mod_cast h4
      omega
    have hrcat : r.cat = .normal ∨ r.cat = .zero := by
      rw [C11.spec_rem_normal v1 m hv1.cat hm.cat, ← hval, hv1.sem] at hres
      rcases eq_or_lt_of_le (show 0 ≤ r.val by rw [hrval]; exact h0) with hz | hpos
      · rw [← hz] at hres
        simp only [Spec.roundQ, if_true] at hres
        exact Or.inr (toRes_zero hres).1
      · simp only [Spec.roundQ, if_neg (ne_of_gt hpos), if_pos hpos] at hres
        have hle : r.val ≤ maxFinite W := by
          rw [hrval]
          exact le_trans (le_of_lt h1) hm.isRep.le_maxFinite
        rcases (rq_finite hW hpos hle .zero).cases with ⟨s, hz⟩ | ⟨s, e, mm, hf⟩
        · rw [hz] at hres; exact Or.inr (toRes_zero hres).1
        · rw [hf] at hres; exact Or.inl (toRes_fin hres).1
    have hrnn : NN W r r.val :=
      ⟨hrsem.trans hv1.sem, hrcan, hrcat, fun _ => by rw [hsign, hv1.sign], rfl⟩
    refine ⟨r, r.val, n, hr, hrnn, ?_, ?_, ?_, hn64, hrval⟩
    · rw [hrval]; exact hXfix.sub (Fix.nat_mul n hMfix)
    · rw [hrval]; exact h0
    · rw [hrval]; linarith
  · rw [if_neg hgt]
    have hXY : ¬ (m.mag < v1.mag) := fun h => hgt ((nn_gt_iff hW hv1nn hmnn).mpr h)
    refine ⟨v1, v1.mag, 0, rfl, hv1nn, hXfix, by linarith, not_lt.mp hXY, by norm_num, by simp⟩

/-! ## the reduction of `tan` -/

/-- the reduction of `tan` once `π̂` is known -/
def tanRedCore (pi v1 : Flt) (neg0 : Bool) : Option (Flt × Bool) :=
  match (if v1.gt pi then v1.remM pi else some v1) with
  | none => none
  | some v2 =>
    if v2.gt (pi.scale (-1) .none) then some (pi.sub v2, !neg0) else some (v2, neg0)

theorem tanRed_big (fuel : Nat) (W : Sem) (v1 : Flt) (neg0 : Bool) :
    tanRed fuel W false v1 neg0 =
      match piFuel fuel W with
      | none => none
      | some pi => tanRedCore pi v1 neg0 := by
  unfold tanRed tanRedCore
  simp only [Bool.not_false, if_true]
  cases piFuel fuel W <;> rfl

/-- **the reduced argument of `tan`** -/
theorem tan_reduce {W : Sem} (hW : W.WF) (hp24 : 24 ≤ W.p) (hpemax : (W.p:ℤ) + 2 ≤ W.emax)
    (hfuel : W.p + 10 ≤ innerFuel) {pi v1 : Flt} (hpi : PiHat W pi) (hv1 : PosN W v1)
    (hX1 : 1 ≤ v1.mag) (hX128 : v1.mag ≤ 128) (neg0 : Bool) :
    ∃ (v4 : Flt) (neg : Bool) (θq : ℚ), tanRedCore pi v1 neg0 = some (v4, neg) ∧ NN W v4 θq ∧
      Fix (W.p - 1) θq ∧ 0 ≤ θq ∧ θq ≤ 8/5 ∧
      ∃ θ : ℝ, |((θq : ℚ) : ℝ) - θ| ≤ 200 * (2:ℝ) ^ (-(W.p:ℤ)) ∧
        Real.tan ((v1.mag : ℚ) : ℝ) = (if neg = neg0 then 1 else -1) * Real.tan θ ∧
        -(200 * (2:ℝ) ^ (-(W.p:ℤ))) ≤ θ ∧ θ ≤ Real.pi / 2 + 200 * (2:ℝ) ^ (-(W.p:ℤ)) ∧
        |Real.cos ((v1.mag : ℚ) : ℝ)| = |Real.cos θ| := by
  obtain ⟨hP1, hP2⟩ := hpi.bounds hp24
  obtain ⟨v2, V2, n, hv2eq, hv2, hV2fix, hV20, hV2le, hn64, hV2⟩ :=
    rem_stage hW hp24 hfuel hpi.pos (by linarith) hv1 hX1 hX128
  obtain ⟨H, hH, hH1, hH2⟩ := piHalf_spec hW hp24 hpemax hpi
  have hpinn := nn_of_posN hpi.pos
  have hPfix : Fix (W.p - 1) pi.mag := fix_of_isRep hW hpi.pos.isRep (by linarith)
  have hu0 := RelErr.u_pos W
  have hu23 : u W ≤ 1 / 2 ^ 23 := by
    have := u_le_of_le_p (F := W) (k := 24) hp24
    norm_num at this ⊢; linarith
  have hmax : (8:ℚ) ≤ maxFinite W := by
    have hp : 1 ≤ W.p := by omega
    have h1 := pow_emax_le_maxFinite (F := W) hp
    have h2 : (2:ℚ) ^ (3:ℤ) ≤ (2:ℚ) ^ W.emax := zpow_le_zpow_right₀ (by norm_num) (by omega)
    norm_num at h2; linarith
  -- `n ≤ 40`
  have hn40 : (n:ℚ) ≤ 41 := by
    have h1 : (n:ℚ) * pi.mag ≤ 128 := by linarith
    have h0 : (0:ℚ) ≤ (n:ℚ) := Nat.cast_nonneg n
    nlinarith
  set Pr : ℝ := ((pi.mag : ℚ) : ℝ) with hPr
  set Xr : ℝ := ((v1.mag : ℚ) : ℝ) with hXr
  set ε : ℝ := (2:ℝ) ^ (-(W.p:ℤ)) with hε
  have hε0 : 0 < ε := by rw [hε]; positivity
  have herrP : |Pr - Real.pi| ≤ 4 * ε := by
    have := hpi.err
    rw [show (2:ℤ) - (W.p:ℤ) = -(W.p:ℤ) + 2 by ring, zpow_add₀ (by norm_num : (2:ℝ) ≠ 0)] at this
    have e4 : (2:ℝ) ^ (2:ℤ) = 4 := by norm_num
    rw [e4] at this
    rw [hε]; linarith
  have hur : ((u W : ℚ) : ℝ) = 2 * ε := by
    unfold RelErr.u
    push_cast
    rw [hε, show (1:ℤ) - (W.p:ℤ) = -(W.p:ℤ) + 1 by ring, zpow_add_one₀ (by norm_num : (2:ℝ) ≠ 0)]
    ring
  set t : ℝ := Xr - (n:ℝ) * Real.pi with ht
  have htant : Real.tan Xr = Real.tan t := by
    rw [ht, Real.tan_sub_nat_mul_pi]
  have hcost : |Real.cos Xr| = |Real.cos t| := by
    rw [ht, Real.cos_sub_nat_mul_pi, abs_mul, abs_neg_one_pow, one_mul]
  have hV2r : ((V2 : ℚ) : ℝ) = Xr - (n:ℝ) * Pr := by rw [hV2]; push_cast; rfl
  have hnr : (n:ℝ) ≤ 41 := by exact_mod_cast hn40
  have hn0 : (0:ℝ) ≤ (n:ℝ) := Nat.cast_nonneg n
  obtain ⟨pe1, pe2⟩ := abs_le.mp herrP
  have hV2t : |((V2 : ℚ) : ℝ) - t| ≤ 164 * ε := by
    rw [hV2r, ht, abs_le]
    constructor <;> nlinarith
  unfold tanRedCore
  simp only [hv2eq]
  by_cases hgt : v2.gt (pi.scale (-1) .none) = true
  · rw [if_pos hgt]
    have hlt : H < V2 := (nn_gt_iff hW hv2 hH).mp hgt
    have hge : V2 ≤ pi.mag := hV2le
    have hsubeq : pi.sub v2 = subWithRm pi v2 W.rm := by
      unfold Flt.sub; rw [hpi.pos.sem]
    rw [hsubeq]
    have hnn := nn_sub_ge hW W.rm hpinn hv2 hge (by linarith)
    set R4 := rq W W.rm (pi.mag - V2) with hR4
    have hd0 : 0 ≤ pi.mag - V2 := by linarith
    have hd1 : pi.mag - V2 ≤ pi.mag / 2 + u W * (pi.mag / 2) := by linarith
    have huP : u W * (pi.mag / 2) ≤ 1/2^23 * (pi.mag / 2) :=
      mul_le_mul_of_nonneg_right hu23 (by linarith)
    have hd158 : pi.mag - V2 ≤ 159/100 := by
      norm_num at huP; linarith
    have hR4fix : Fix (W.p - 1) R4 := by
      rcases eq_or_lt_of_le hge with h | h
      · rw [hR4, h, sub_self, rq_zero]; exact Fix.zero _
      · exact (rq_fix hW W.rm (by linarith) (by linarith) (hPfix.sub hV2fix)).1
    have hR4rel : |R4 - (pi.mag - V2)| ≤ u W * (pi.mag - V2) := by
      rcases eq_or_lt_of_le hge with h | h
      · rw [hR4, h, sub_self, rq_zero]; simp
      · have hq : 0 < pi.mag - V2 := by linarith
        have hunit := (hPfix.sub hV2fix).pos_ge hq
        exact rq_rel hW (le_trans (unit_ge_emin hW hpemax) hunit) (by linarith) _
    obtain ⟨r1, r2⟩ := abs_le.mp hR4rel
    have hR40 : 0 ≤ R4 := rq_nonneg hW hd0 _
    have hHr1 : (1 - 2 * ε) * (Pr / 2) ≤ ((H : ℚ) : ℝ) := by
      have := (Rat.cast_le (K := ℝ)).mpr hH1; push_cast at this; rw [hur] at this; exact this
    have hV2H : ((H : ℚ) : ℝ) < ((V2 : ℚ) : ℝ) := by exact_mod_cast hlt
    have hV2P : ((V2 : ℚ) : ℝ) ≤ Pr := by rw [hPr]; exact_mod_cast hge
    have hPr1 : Pr ≤ 316/100 := by
      have := (Rat.cast_le (K := ℝ)).mpr hP2; push_cast at this; exact this
    have hPr0 : 313/100 ≤ Pr := by
      have := (Rat.cast_le (K := ℝ)).mpr hP1; push_cast at this; exact this
    refine ⟨_, !neg0, R4, rfl, hnn, hR4fix, hR40, ?_, Real.pi - t, ?_, ?_, ?_, ?_, ?_⟩
    · have : u W * (pi.mag - V2) ≤ 1/2^23 * (159/100) :=
        mul_le_mul hu23 hd158 hd0 (by norm_num)
      norm_num at this
      linarith
    · have h1 : |((R4 : ℚ) : ℝ) - (Pr - ((V2 : ℚ) : ℝ))| ≤ 2 * ε * (Pr - ((V2 : ℚ) : ℝ)) := by
        have := (Rat.cast_le (K := ℝ)).mpr hR4rel
        rw [Rat.cast_abs] at this
        push_cast at this; rw [hur] at this; exact this
      have h3 : Pr - ((V2 : ℚ) : ℝ) ≤ 159/100 := by
        have := (Rat.cast_le (K := ℝ)).mpr hd158; push_cast at this; exact this
      have h4 : 0 ≤ Pr - ((V2 : ℚ) : ℝ) := by
        have := (Rat.cast_le (K := ℝ)).mpr hd0; push_cast at this; exact this
      obtain ⟨a1, a2⟩ := abs_le.mp h1
      obtain ⟨v1', v2'⟩ := abs_le.mp hV2t
      rw [abs_le]
      constructor <;> nlinarith
    · rw [htant]
      have : (!neg0) ≠ neg0 := by cases neg0 <;> simp
      rw [if_neg this, Real.tan_pi_sub]; ring
    · obtain ⟨v1', v2'⟩ := abs_le.mp hV2t
      linarith
    · obtain ⟨v1', v2'⟩ := abs_le.mp hV2t
      nlinarith
    · rw [hcost, Real.cos_pi_sub, abs_neg]
  · rw [if_neg hgt]
    have hle : ¬ H < V2 := fun h => hgt ((nn_gt_iff hW hv2 hH).mpr h)
    have hV2H : ((V2 : ℚ) : ℝ) ≤ ((H : ℚ) : ℝ) := by exact_mod_cast not_lt.mp hle
    have hHP : ((H : ℚ) : ℝ) ≤ Pr / 2 := by
      have := (Rat.cast_le (K := ℝ)).mpr hH2; push_cast at this; exact this
    have hV2r0 : (0:ℝ) ≤ ((V2 : ℚ) : ℝ) := by exact_mod_cast hV20
    obtain ⟨v1', v2'⟩ := abs_le.mp hV2t
    refine ⟨v2, neg0, V2, rfl, hv2, hV2fix, hV20, by linarith [not_lt.mp hle], t, by linarith, ?_,
      by linarith, by linarith, hcost⟩
    rw [htant]; simp

/-! ## the nested `sin` on `[1, 8/5]` -/

/-- the nested `sin` of `tan` on a reduced argument in `[1, 8/5]`: relative error `≤ 2u` -/
theorem sin_rel_tanW_big (F : Sem) (hF : F.WF) (hp : 8 ≤ F.p) (hdom : F.p ≤ 2 ^ (F.e - 1) - 2)
    (hrm : F.rm = .nte ∨ F.rm = .nta) (he17 : F.e ≤ 17) {v : Flt} (hv : PosN (tanW F) v)
    (hv1 : 1 ≤ v.mag) (hv85 : v.mag ≤ 8/5) {fuel0 : ℕ} (hpi : PiOKAt (sinW (tanW F)) fuel0)
    (fuel : ℕ) (hfuel : fuel0 ≤ fuel) :
    ∃ sx, v.sinFuel fuel = some sx ∧ PosN (tanW F) sx ∧
      |((sx.mag : ℚ) : ℝ) - Real.sin ((v.mag : ℚ) : ℝ)| ≤
        2 * ((u (tanW F) : ℚ) : ℝ) * Real.sin ((v.mag : ℚ) : ℝ) := by
  have hW := tanW_WF hF
  have hWemin := tanW_emin hF
  have hemin : F.emin = 2 - ((2 ^ (F.e - 1) : ℕ) : ℤ) := Sem.emin_eq F
  have hB : (F.p : ℤ) + 2 ≤ ((2 ^ (F.e - 1) : ℕ) : ℤ) := by
    have : F.p + 2 ≤ 2 ^ (F.e - 1) := by omega
    exact_mod_cast this
  obtain ⟨hp1, hp2⟩ := tanW_p_bounds hp
  have hpow : 2 ^ (F.e - 1) ≤ 2 ^ 16 := Nat.pow_le_pow_right (by norm_num) (by omega)
  have hbig : 0 ≤ v.exp := by
    by_contra h
    have := mag_lt_one hv.cat hv.can (by omega)
    linarith
  have hval : v.val = v.mag := by
    rw [Flt.val_normal hv.cat, hv.sign]; simp
  have hpi' : PiOKAt ((v.sem.growLog 12).increaseExponent 4) fuel0 := by
    rw [hv.sem]; exact hpi
  obtain ⟨r, h1, h2, h4, h5, h6, h7⟩ := C17.sin_accuracy_of_pi v
    (by rw [hv.sem]; exact hW) (by rw [hv.sem]; omega) (by rw [hv.sem]; omega)
    (by rw [hv.sem]; exact tanW_dom hF hp hdom)
    (by rw [hv.sem, tanW_rm]; exact hrm) hv.can hv.cat hbig
    (by rw [hval, abs_of_pos hv.mag_pos]; linarith) hpi' fuel hfuel
  rw [hv.sem] at h5 h7
  rw [hval] at h7
  have hX0 := hv.mag_pos
  have hXr0 : (0:ℝ) < ((v.mag : ℚ) : ℝ) := by exact_mod_cast hX0
  have hXr1 : (1:ℝ) ≤ ((v.mag : ℚ) : ℝ) := by exact_mod_cast hv1
  have hXr85 : ((v.mag : ℚ) : ℝ) ≤ 8/5 := by
    have := (Rat.cast_le (K := ℝ)).mpr hv85; push_cast at this; exact this
  have hShalf : 1/2 ≤ Real.sin ((v.mag : ℚ) : ℝ) := by
    have := sin_lower_big (le_of_lt hXr0) hXr85; linarith
  have hS1 : Real.sin ((v.mag : ℚ) : ℝ) ≤ 1 := Real.sin_le_one _
  set S := Real.sin ((v.mag : ℚ) : ℝ) with hSdef
  have hS0 : 0 < S := by linarith
  rw [abs_of_pos hS0] at h7
  -- `ulpR ≤ u`
  have hur : ((u (tanW F) : ℚ) : ℝ) = (2:ℝ) ^ (1 - ((tanW F).p:ℤ)) := by
    unfold RelErr.u; push_cast; rfl
  have hlog : Int.log 2 S < 1 := by
    apply (Int.lt_zpow_iff_log_lt (b := 2) (by norm_num) hS0).mp
    norm_num; linarith
  have hulp : C17.ulpR (tanW F) S ≤ ((u (tanW F) : ℚ) : ℝ) := by
    unfold C17.ulpR
    rw [hur]
    apply zpow_le_zpow_right₀ (by norm_num)
    have : max (Int.log 2 S) (tanW F).emin ≤ 0 := max_le (by omega) (by rw [hWemin]; omega)
    omega
  have hfloor : (2:ℝ) ^ (-((tanW F).p:ℤ) - 6) ≤ ((u (tanW F) : ℚ) : ℝ) := by
    rw [hur]; exact zpow_le_zpow_right₀ (by norm_num) (by omega)
  have herr : |((r.val : ℚ) : ℝ) - S| ≤ ((u (tanW F) : ℚ) : ℝ) :=
    le_trans h7 (max_le hulp hfloor)
  have hu0 := RelErr.u_pos (tanW F)
  have hu1 : u (tanW F) ≤ 1/2 ^ 23 := by
    have := u_le_of_le_p (F := tanW F) (k := 24) (by omega)
    norm_num at this ⊢; linarith
  have hur0 : (0:ℝ) < ((u (tanW F) : ℚ) : ℝ) := by exact_mod_cast hu0
  have hur1 : ((u (tanW F) : ℚ) : ℝ) ≤ 1/4 := by
    have := (Rat.cast_le (K := ℝ)).mpr hu1; push_cast at this ⊢; linarith
  have hrpos : (0:ℝ) < ((r.val : ℚ) : ℝ) := by
    have := (abs_le.mp herr).1; linarith
  have hrposq : 0 < r.val := by exact_mod_cast hrpos
  have hrn : r.cat = .normal := by
    rcases h2 with h | h
    · exact h
    · exfalso; rw [Flt.val_zero h] at hrposq; exact lt_irrefl _ hrposq
  have hrsign : r.sign = false := by
    by_contra hsg
    have hsg' : r.sign = true := by simpa using hsg
    have hm := Flt.mag_pos r hrn h4
    rw [Flt.val_normal hrn, hsg'] at hrposq
    simp at hrposq
    linarith
  have hrP : PosN (tanW F) r := ⟨h5, h4, hrn, hrsign⟩
  have hrval : r.val = r.mag := by
    rw [Flt.val_normal hrn, hrsign]; simp
  rw [hrval] at herr
  refine ⟨r, h1, hrP, le_trans herr ?_⟩
  nlinarith

/-! ## `tanCore` with `cos ≥ 1/66` -/

set_option maxHeartbeats 400000 in
/-- **`tanCore`** given the nested sine `sx` (relative error `≤ 2u`) of an angle `X` with
`cos X ≥ 1/66`: relative error `≤ 10^5·u` of the working format -/
theorem tanCore_gen (F : Sem) (hF : F.WF) (hp : 8 ≤ F.p) (hdom : F.p ≤ 2 ^ (F.e - 1) - 2)
    (hrm : F.rm = .nte ∨ F.rm = .nta) (he17 : F.e ≤ 17) {v sx : Flt} {fuel : ℕ} (X : ℝ)
    (hsinfuel : v.sinFuel fuel = some sx) (hsx : PosN (tanW F) sx)
    (hS0 : 0 < Real.sin X) (hC : 1/66 ≤ Real.cos X)
    (hs : |((sx.mag : ℚ) : ℝ) - Real.sin X| ≤ 2 * ((u (tanW F) : ℚ) : ℝ) * Real.sin X)
    (j : ℤ) (hj : 8 * F.emin - 10 ≤ j) (hslo2 : (2:ℚ) ^ j ≤ sx.mag) :
    ∃ res, tanCore fuel (tanW F) v = some res ∧ PosN (tanW F) res ∧ res.mag ≤ 128 ∧
      |((res.mag : ℚ) : ℝ) - Real.tan X| ≤ 100000 * ((u (tanW F) : ℚ) : ℝ) * Real.tan X := by
  have hW := tanW_WF hF
  have S := tanW_ctx F hF hp hdom hrm
  have hWemin := tanW_emin hF
  have hWemax := tanW_emax hF
  have hemin : F.emin = 2 - ((2 ^ (F.e - 1) : ℕ) : ℤ) := Sem.emin_eq F
  have hB : (F.p : ℤ) + 2 ≤ ((2 ^ (F.e - 1) : ℕ) : ℤ) := by
    have : F.p + 2 ≤ 2 ^ (F.e - 1) := by omega
    exact_mod_cast this
  obtain ⟨hp1, hp2⟩ := tanW_p_bounds hp
  have hu0 := RelErr.u_pos (tanW F)
  have hu31 : u (tanW F) ≤ 1 / 2 ^ 31 := by
    have := u_le_of_le_p (F := tanW F) (k := 32) (by omega)
    norm_num at this ⊢; linarith
  have hu : u (tanW F) ≤ 1/1000000 := by norm_num at hu31 ⊢; linarith
  have hur0 : (0:ℝ) < ((u (tanW F) : ℚ) : ℝ) := by exact_mod_cast hu0
  have hur31 : ((u (tanW F) : ℚ) : ℝ) ≤ 1 / 2 ^ 31 := by
    have := (Rat.cast_le (K := ℝ)).mpr hu31; push_cast at this ⊢; linarith
  have hur : ((u (tanW F) : ℚ) : ℝ) ≤ 1/1000000 := by norm_num at hur31 ⊢; linarith
  have h16 := S.max16
  have hmax128 : (128:ℚ) ≤ maxFinite (tanW F) := by
    have hpp : 1 ≤ (tanW F).p := by omega
    have h1 := pow_emax_le_maxFinite (F := tanW F) hpp
    have h2 : (2:ℚ) ^ (7:ℤ) ≤ (2:ℚ) ^ (tanW F).emax :=
      zpow_le_zpow_right₀ (by norm_num) (by rw [hWemax]; omega)
    norm_num at h2; linarith
  have hone : IsRep (tanW F) 1 := by
    have := Ln2.isRep_pow2 hW 0 (by have := Sem.emin_le_zero hW; omega)
      (by have := Sem.emax_pos hW; omega)
    simpa using this
  have heminpos : (0:ℚ) < (2:ℚ) ^ (tanW F).emin := by positivity
  have hpyth : Real.sin X * Real.sin X + Real.cos X * Real.cos X = 1 := by
    have := Real.sin_sq_add_cos_sq X; nlinarith
  have hs0 := hsx.mag_pos
  -- the square
  have hsqlo : (2:ℚ) ^ ((tanW F).emin + 8) ≤ sx.mag ^ 2 := by
    have h1 : ((2:ℚ) ^ j) ^ 2 ≤ sx.mag ^ 2 := pow_le_pow_left₀ (by positivity) hslo2 2
    refine le_trans ?_ h1
    rw [← zpow_natCast, ← zpow_mul]
    apply zpow_le_zpow_right₀ (by norm_num)
    rw [hWemin]; push_cast; omega
  -- a first bound `s ≤ 2`
  have hs2r : ((sx.mag : ℚ) : ℝ) ≤ 2 := by
    have h1 := relR_upper hs
    have h2 := Real.sin_le_one X
    nlinarith
  have hs2q : sx.mag ≤ 2 := by
    have : ((sx.mag : ℚ) : ℝ) ≤ (((2 : ℚ)) : ℝ) := by push_cast; exact hs2r
    exact (Rat.cast_le (K := ℝ)).mp this
  obtain ⟨hsqP, hsq1, hsq2⟩ := sqr_posN S hsx hs2q hsqlo
  set sqm := sx.sqr.mag with hsqm
  have c1 : |((sqm : ℚ) : ℝ) - ((sx.mag : ℚ) : ℝ) * ((sx.mag : ℚ) : ℝ)| ≤
      ((u (tanW F) : ℚ) : ℝ) * (((sx.mag : ℚ) : ℝ) * ((sx.mag : ℚ) : ℝ)) := by
    have : |sqm - sx.mag * sx.mag| ≤ u (tanW F) * (sx.mag * sx.mag) := by
      rw [abs_le]; constructor <;> nlinarith
    have := (Rat.cast_le (K := ℝ)).mpr this
    rw [Rat.cast_abs] at this
    push_cast at this; exact this
  obtain ⟨_, hs1r, hsq5000⟩ := tan_sq_bound_gen hS0 hC hpyth hur0 hur hs c1
  have hs1 : sx.mag ≤ 1 := by
    have : ((sx.mag : ℚ) : ℝ) ≤ (((1 : ℚ)) : ℝ) := by push_cast; exact hs1r
    exact (Rat.cast_le (K := ℝ)).mp this
  have hsqm5000 : sqm ≤ 1 - 1/5000 := by
    have : ((sqm : ℚ) : ℝ) ≤ (((1 - 1/5000 : ℚ)) : ℝ) := by push_cast; exact hsq5000
    exact (Rat.cast_le (K := ℝ)).mp this
  have hsqm0 : 0 < sqm := hsqP.mag_pos
  -- `1 − s²`
  have hd0lo : 1/5000 ≤ 1 - sqm := by linarith
  have hd0hi : 1 - sqm ≤ 1 := by linarith
  have hd_nn := nn_sub hW (tanW F).rm (one_nn hW) (nn_of_posN hsqP) (by linarith)
    (by linarith : 1 - sqm ≤ maxFinite (tanW F))
  have hemin5 : (2:ℚ) ^ (tanW F).emin ≤ 1/2 ^ 16 := by
    calc (2:ℚ) ^ (tanW F).emin ≤ (2:ℚ) ^ (-16:ℤ) :=
          zpow_le_zpow_right₀ (by norm_num) (by rw [hWemin]; omega)
      _ = 1/2 ^ 16 := by norm_num
  have hdrel := rq_rel hW (q := 1 - sqm) (by norm_num at hemin5 ⊢; linarith) (by linarith)
    (tanW F).rm
  set dq := rq (tanW F) (tanW F).rm (1 - sqm) with hdq
  have hdq1 : dq ≤ 1 := rq_le_of_rep hW hone (by linarith) hd0hi _
  have hdq8 : 1/8192 ≤ dq := by
    have := (abs_le.mp hdrel).1
    nlinarith
  obtain ⟨hdP, hdmag⟩ := posN_of_nn hd_nn (by linarith)
  set dF := subWithRm (Flt.one (tanW F) false) sx.sqr (tanW F).rm with hdF
  -- the square root
  have hfuelB : (2 * dF.sem.emax - dF.sem.emin).toNat + 2 * dF.sem.p + 20 ≤ innerFuel := by
    rw [hdP.sem, hWemax, hWemin]
    have hpow : 2 ^ (F.e - 1) ≤ 2 ^ 16 := Nat.pow_le_pow_right (by norm_num) (by omega)
    have hpowz : ((2 ^ (F.e - 1) : ℕ) : ℤ) ≤ 65536 := by exact_mod_cast hpow
    unfold innerFuel
    generalize ((2 ^ (F.e - 1) : ℕ) : ℤ) = B at *
    omega
  obtain ⟨b, hsqrt⟩ := sqrt_fuel_linear (x := dF) (by rw [hdP.sem]; exact hW)
    (by rw [hdP.sem]; exact hdP) hfuelB
  have hrmW : dF.sem.rm = .nte ∨ dF.sem.rm = .nta := by rw [hdP.sem, tanW_rm]; exact hrm
  obtain ⟨hbP, hb1, hb3, _⟩ := sqrt_bounds (x := dF) (by rw [hdP.sem]; exact hW)
    (by rw [hdP.sem]; exact hdP) hsqrt
  rw [hdP.sem] at hbP hb1
  rw [hdmag] at hb1
  have hbreal := (C12.sqrt_error_real dF innerFuel (by rw [hdP.sem]; exact hW) hdP.can hdP.cat
    hdP.sign b hsqrt).2.2 hrmW
  rw [hbP.sem, hdmag] at hbreal
  have hbpos := hbP.mag_pos
  have hulpb : (tanW F).ulp b.exp ≤ u (tanW F) * b.mag := by
    rcases posN_ulp_cases hW hbP with h | ⟨h1, h2⟩
    · exact h
    · exfalso
      rw [h2, RelErr.ulp_eq_u] at hb1
      have : b.mag + u (tanW F) * (2:ℚ) ^ (tanW F).emin ≤ 1/128 := by
        norm_num at hemin5; nlinarith
      have h3 : (b.mag + u (tanW F) * (2:ℚ) ^ (tanW F).emin) *
          (b.mag + u (tanW F) * (2:ℚ) ^ (tanW F).emin) ≤ 1/128 * (1/128) :=
        mul_le_mul this this (by positivity) (by norm_num)
      norm_num at h3
      linarith
  have hb13 : 1/128 ≤ b.mag := by
    by_contra hcon
    have hlt := not_le.mp hcon
    have h1 : b.mag + (tanW F).ulp b.exp ≤ 1/128 + 1/128000000 := by nlinarith
    have h0 : 0 ≤ b.mag + (tanW F).ulp b.exp := by
      have := (tanW F).ulp_pos b.exp; linarith
    have h3 : (b.mag + (tanW F).ulp b.exp) * (b.mag + (tanW F).ulp b.exp) ≤
        (1/128 + 1/128000000) * (1/128 + 1/128000000) := mul_le_mul h1 h1 h0 (by norm_num)
    norm_num at h3
    linarith
  have hb2 : b.mag ≤ 2 := by
    have h := hb3 (by rw [hdP.sem, tanW_rm]; exact hrm)
    rw [hdP.sem, hdmag] at h
    by_contra hcon
    have hlt := not_le.mp hcon
    have hge : 1 < b.mag - (tanW F).ulp b.exp := by nlinarith
    rcases h with h | h
    · linarith
    · have : 1 * 1 < (b.mag - (tanW F).ulp b.exp) * (b.mag - (tanW F).ulp b.exp) :=
        mul_lt_mul'' hge hge (by norm_num) (by norm_num)
      linarith
  -- the quotient
  have hq0le : sx.mag / b.mag ≤ 128 := by
    rw [div_le_iff₀ hbpos]; nlinarith
  have hq0lo : (2:ℚ) ^ (tanW F).emin ≤ sx.mag / b.mag := by
    have h1 : sx.mag / 2 ≤ sx.mag / b.mag := by
      apply div_le_div_of_nonneg_left (le_of_lt hs0) hbpos hb2
    have h2 : (2:ℚ) ^ (tanW F).emin ≤ (2:ℚ) ^ j / 2 := by
      rw [div_eq_mul_inv, ← zpow_sub_one₀ (by norm_num : (2:ℚ) ≠ 0)]
      apply zpow_le_zpow_right₀ (by norm_num)
      rw [hWemin]; omega
    linarith
  have hq_nn := nn_div hW (tanW F).rm (nn_of_posN hsx) (nn_of_posN hbP) hbpos
    (by linarith : sx.mag / b.mag ≤ maxFinite (tanW F))
  have hqrel := rq_rel hW hq0lo (by linarith : sx.mag / b.mag ≤ maxFinite (tanW F)) (tanW F).rm
  set q := rq (tanW F) (tanW F).rm (sx.mag / b.mag) with hq
  have hq3 : q ≤ 128 := by
    have h3 : IsRep (tanW F) 128 := by
      have := Ln2.isRep_pow2 hW 7 (by have := Sem.emin_le_zero hW; omega)
        (by rw [hWemax]; omega)
      norm_num at this; exact this
    exact rq_le_of_rep hW h3 (le_trans (le_of_lt heminpos) hq0lo) hq0le _
  have hqpos : 0 < q := by
    have := (abs_le.mp hqrel).1
    have h0 : 0 < sx.mag / b.mag := lt_of_lt_of_le heminpos hq0lo
    nlinarith
  obtain ⟨hresP, hresmag⟩ := posN_of_nn hq_nn hqpos
  -- the model
  have hcore : tanCore fuel (tanW F) v = some (divWithRm sx b (tanW F).rm) := by
    unfold tanCore
    rw [hsinfuel]
    simp only
    have h1 : ((Flt.one (tanW F) false).sub sx.sqr).sqrtM = some b := hsqrt
    rw [h1]
    simp only
    unfold Flt.div
    rw [hsx.sem]
  refine ⟨_, hcore, hresP, by rw [hresmag]; exact hq3, ?_⟩
  rw [hresmag]
  -- the error propagation
  have c2 : |((dq : ℚ) : ℝ) - (1 - ((sqm : ℚ) : ℝ))| ≤
      ((u (tanW F) : ℚ) : ℝ) * (1 - ((sqm : ℚ) : ℝ)) := by
    have := (Rat.cast_le (K := ℝ)).mpr hdrel
    rw [Rat.cast_abs] at this
    push_cast at this; exact this
  have c3 : |((b.mag : ℚ) : ℝ) - Real.sqrt ((dq : ℚ) : ℝ)| ≤
      ((u (tanW F) : ℚ) : ℝ) * ((b.mag : ℚ) : ℝ) := by
    refine le_trans (le_of_lt hbreal) ?_
    have := (Rat.cast_le (K := ℝ)).mpr hulpb
    push_cast at this; exact this
  have c4 : |((q : ℚ) : ℝ) - ((sx.mag : ℚ) : ℝ) / ((b.mag : ℚ) : ℝ)| ≤
      ((u (tanW F) : ℚ) : ℝ) * (((sx.mag : ℚ) : ℝ) / ((b.mag : ℚ) : ℝ)) := by
    have := (Rat.cast_le (K := ℝ)).mpr hqrel
    rw [Rat.cast_abs] at this
    push_cast at this; exact this
  have hC0 : 0 < Real.cos X := by linarith
  have hK : Real.sin X * Real.sin X ≤ 4355 * (Real.cos X * Real.cos X) := by
    have : 1/4356 ≤ Real.cos X * Real.cos X := by nlinarith
    nlinarith
  have hchain := tan_chain_gen (K := 4355) hS0 hC0 hpyth (by norm_num) hK hur0
    (by norm_num at hur31 ⊢; linarith) hs c1 c2 (by exact_mod_cast hbpos) c3 c4
  rw [Real.tan_eq_sin_div_cos]
  refine le_trans hchain (mul_le_mul_of_nonneg_right ?_ (le_of_lt (div_pos hS0 hC0)))
  nlinarith

end Arp.TrigErr
