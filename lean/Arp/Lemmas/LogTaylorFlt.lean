import Arp.Lemmas.LogTaylor
import Arp.Lemmas.Rem
import Arp.Props.C18Accuracy
import Arp.Props.C10Scale
/-!
# Lemmas for the accuracy of `Float::log` — part 4: `log_taylor` at `Flt` level
-/
namespace Arp.LogErr
open Arp Arp.SpecRound Arp.Ln2 Finset

variable {G : Sem} {sg : Bool}

/-! ### more operations on `SV` -/

/-- in the normal range the truncation error is purely relative -/
theorem trq_err_normal (hG : G.WF) {x : ℚ} (hn : (2:ℚ) ^ G.emin ≤ x)
    (hlt : x < (2:ℚ) ^ (G.emax + 1)) : x - trq G x ≤ RelErr.u G * x := by
  have hp : 1 ≤ G.p := by have := hG.2; omega
  have hx : 0 < x := lt_of_lt_of_le (by positivity) hn
  obtain ⟨e, m, f, d, hm⟩ := trq_decomp hG hx hlt
  have hu := G.ulp_pos e
  have hf1 := d.hf1
  have hxe : x - trq G x = f * G.ulp e := by rw [hm, d.hq]; ring
  have h2e := (RelErr.decomp_pow_le d hp hn).1
  have : G.ulp e ≤ RelErr.u G * x := by
    rw [RelErr.ulp_eq_u]; exact mul_le_mul_of_nonneg_left h2e (le_of_lt (RelErr.u_pos G))
  rw [hxe]; nlinarith

/-- a value whose `toRes` is the rounding (any mode) of a representable magnitude -/
theorem SV.of_round_exact (hG : G.WF) {x : Flt} {v : ℚ} (rm : RM) (hs : x.sem = G)
    (hc : x.Canonical) (hv : 0 < v) (hr : IsRep G v) (h : x.toRes = Spec.round G rm sg v) :
    SV G sg x v := by
  obtain ⟨e, m, hfin, hval⟩ := round_exact hG hv hr rm sg
  rw [hfin] at h
  obtain ⟨h1, h2, h3, h4⟩ := RelErr.toRes_fin h
  exact SV.of_canonical hs h1 hc h2 (by rw [Flt.mag_eq, hs, h3, h4]; exact hval)

/-- exact difference of two positive values -/
theorem SV.sub_exact (hG : G.WF) {a b : Flt} {va vb : ℚ} (ha : SV G false a va)
    (hb : SV G false b vb) (hpa : 0 < va) (hpb : 0 < vb) (hne : va ≠ vb)
    (hr : IsRep G |va - vb|) :
    SV G (decide (va < vb)) (subWithRm a b .none) |va - vb| := by
  have hGa : a.sem.WF := by rw [ha.sem]; exact hG
  have hsab : b.sem = a.sem := by rw [ha.sem, hb.sem]
  have hcan := subWithRm_canonical a b .none hGa hsab ha.can hb.can
  have hcor := C01.sub_correct a b .none hGa hsab ha.can hb.can
  rw [ha.sem] at hcor
  have han := ha.normal_of_pos hpa
  have hbn := hb.normal_of_pos hpb
  have hnb : Flt.val { b with sign := !b.sign } = -vb := by
    rw [C01.val_neg, hb.val]; simp
  rw [hbn] at hnb
  have hadd : Spec.sub G .none a b = Spec.roundQ G .none (va - vb) false := by
    unfold Spec.sub Spec.add Spec.isNan Spec.isInf Spec.isZero
    simp only [han, hbn]
    rw [hnb, ha.val]
    simp [sub_eq_add_neg]
    rfl
  rw [hadd] at hcor
  unfold Spec.roundQ at hcor
  have hne' : va - vb ≠ 0 := sub_ne_zero.mpr hne
  rw [if_neg hne'] at hcor
  by_cases hlt : va < vb
  · rw [decide_eq_true hlt]
    rw [if_neg (by linarith)] at hcor
    have habs : |va - vb| = -(va - vb) := abs_of_neg (by linarith)
    rw [habs] at hr ⊢
    exact SV.of_round_exact hG .none (hcan.2.trans ha.sem) hcan.1 (by linarith) hr hcor
  · rw [decide_eq_false hlt]
    have hgt : 0 < va - vb := by
      rcases lt_or_eq_of_le (not_lt.mp hlt) with h | h
      · linarith
      · exact absurd h.symm hne
    rw [if_pos hgt] at hcor
    have habs : |va - vb| = va - vb := abs_of_pos hgt
    rw [habs] at hr ⊢
    exact SV.of_round_exact hG .none (hcan.2.trans ha.sem) hcan.1 hgt hr hcor

/-- doubling a normal value is exact -/
theorem SV.scale_two (hG : G.WF) {x : Flt} {v : ℚ} (rm : RM) (hx : SV G sg x v)
    (hn : (2:ℚ) ^ G.emin ≤ v) (hhi : v < (2:ℚ) ^ G.emax) : SV G sg (x.scale 1 rm) (2 * v) := by
  have hp : 1 ≤ G.p := by have := hG.2; omega
  have hGx : x.sem.WF := by rw [hx.sem]; exact hG
  have hv : 0 < v := lt_of_lt_of_le (by positivity) hn
  have hxn := hx.normal_of_pos hv
  have hcan := scale_canonical x 1 rm hGx hx.can
  have hcor := C10.scale_correct x 1 rm hGx hx.can
  unfold Spec.scaleExact at hcor
  rw [hxn] at hcor
  simp only at hcor
  rw [hx.sem, hx.sign hxn, hx.mag hxn] at hcor
  have e2 : v * (2:ℚ) ^ (1:ℤ) = 2 * v := by norm_num; ring
  rw [e2] at hcor
  -- `2v` is representable
  obtain ⟨E, m, hE, d⟩ := (hx.isRep hG).decomp
  have hvm : v = (m:ℚ) * G.ulp E := by have := d.hq; rw [add_zero] at this; exact this
  obtain ⟨h2E, hm⟩ := RelErr.decomp_pow_le d hp hn
  have hElt : E < G.emax := by
    have : (2:ℚ) ^ E < (2:ℚ) ^ G.emax := lt_of_le_of_lt h2E hhi
    exact (zpow_lt_zpow_iff_right₀ (by norm_num : (1:ℚ) < 2)).mp this
  have hrep : IsRep G (2 * v) := by
    refine ⟨E + 1, m, by have := d.he; omega, by omega, d.hm, Or.inl hm, ?_⟩
    rw [hvm, ← Sem.ulp_def, G.ulp_succ]; ring
  exact SV.of_round_exact hG rm (hcan.2.trans hx.sem) hcan.1 (by linarith) hrep hcor

end Arp.LogErr

/-! ### the loop data from the computed `z` and `z²` -/

namespace Arp.LogErr
open Arp Arp.SpecRound Arp.Ln2 Finset

variable {G : Sem}

/-- `LData` for `tm = (1-3u)·w`, `tp = w/(1-3u)` when `z` is `w` up to one relative error `u` on
    each side and `c` is `z²` up to a relative error `2u` -/
theorem ldata_of (hG : G.WF) (hu : RelErr.u G ≤ 1 / 1000000) {w z c tp : ℚ} (hw0 : 0 < w)
    (hw : w ≤ 1 / 300) (htp : tp * (1 - 3 * RelErr.u G) = w)
    (hz1 : (1 - RelErr.u G) * w ≤ z) (hz2 : z * (1 - RelErr.u G) ≤ w)
    (hc1 : z ^ 2 * (1 - 2 * RelErr.u G) ≤ c) (hc2 : c ≤ z ^ 2 * (1 + 2 * RelErr.u G))
    (zrep : IsRep G z) (znorm : (2:ℚ) ^ G.emin ≤ z) :
    LData G z c ((1 - 3 * RelErr.u G) * w) tp (tp / (1 - tp ^ 2)) := by
  have hu0 := RelErr.u_pos G
  set u := RelErr.u G with hudef
  have h1u : 0 < 1 - u := by linarith
  have h13u : 0 < 1 - 3 * u := by linarith
  have hz0 : 0 < z := lt_of_lt_of_le (by positivity) znorm
  have htp0 : 0 < tp := by
    by_contra hc
    have : tp * (1 - 3 * u) ≤ 0 := mul_nonpos_of_nonpos_of_nonneg (not_lt.mp hc) (le_of_lt h13u)
    linarith
  have htp1 : tp ≤ 1 / 256 := by nlinarith
  have htp2 : tp ^ 2 ≤ 1 / 65536 := by
    have : tp ^ 2 ≤ (1 / 256) ^ 2 := pow_le_pow_left₀ (le_of_lt htp0) htp1 2
    norm_num at this; exact this
  have hzsq : ((1 - u) * w) ^ 2 ≤ z ^ 2 := pow_le_pow_left₀ (by positivity) hz1 2
  refine ⟨hG, by positivity, ?_, ?_, ?_, ?_, htp1, zrep, znorm, ?_, ?_⟩
  · -- tm ≤ (1-u) z
    have := mul_le_mul_of_nonneg_left hz1 (le_of_lt h1u)
    nlinarith
  · -- tm² ≤ c (1-u)
    have hpoly : (1 - 3 * u) ^ 2 ≤ (1 - u) ^ 3 * (1 - 2 * u) := by nlinarith [pow_pos hu0 2, pow_pos hu0 3]
    have hw2 : 0 ≤ w ^ 2 := by positivity
    have s1 : ((1 - 3 * u) * w) ^ 2 ≤ ((1 - u) ^ 3 * (1 - 2 * u)) * w ^ 2 := by
      rw [mul_pow]; exact mul_le_mul_of_nonneg_right hpoly hw2
    have s2 : ((1 - u) ^ 3 * (1 - 2 * u)) * w ^ 2 = ((1 - u) * w) ^ 2 * ((1 - u) * (1 - 2 * u)) := by ring
    have s3 : ((1 - u) * w) ^ 2 * ((1 - u) * (1 - 2 * u)) ≤ z ^ 2 * ((1 - u) * (1 - 2 * u)) :=
      mul_le_mul_of_nonneg_right hzsq (by apply mul_nonneg <;> linarith)
    have s4 : z ^ 2 * ((1 - u) * (1 - 2 * u)) = (z ^ 2 * (1 - 2 * u)) * (1 - u) := by ring
    have s5 : (z ^ 2 * (1 - 2 * u)) * (1 - u) ≤ c * (1 - u) :=
      mul_le_mul_of_nonneg_right hc1 (le_of_lt h1u)
    linarith
  · -- z ≤ tp
    have : tp * (1 - 3 * u) ≤ tp * (1 - u) := mul_le_mul_of_nonneg_left (by linarith) (le_of_lt htp0)
    exact le_of_mul_le_mul_right (by linarith : z * (1 - u) ≤ tp * (1 - u)) h1u
  · -- c ≤ tp²
    have hpoly : (1 - 3 * u) ^ 2 * (1 + 2 * u) ≤ (1 - u) ^ 2 := by nlinarith [pow_pos hu0 2, pow_pos hu0 3]
    have hsq : (z * (1 - u)) ^ 2 ≤ (tp * (1 - 3 * u)) ^ 2 :=
      pow_le_pow_left₀ (by positivity) (by rw [htp]; exact hz2) 2
    have s1 : c * (1 - u) ^ 2 ≤ (z ^ 2 * (1 + 2 * u)) * (1 - u) ^ 2 :=
      mul_le_mul_of_nonneg_right hc2 (by positivity)
    have s2 : (z ^ 2 * (1 + 2 * u)) * (1 - u) ^ 2 = (z * (1 - u)) ^ 2 * (1 + 2 * u) := by ring
    have s3 : (z * (1 - u)) ^ 2 * (1 + 2 * u) ≤ (tp * (1 - 3 * u)) ^ 2 * (1 + 2 * u) :=
      mul_le_mul_of_nonneg_right hsq (by linarith)
    have s4 : (tp * (1 - 3 * u)) ^ 2 * (1 + 2 * u) = tp ^ 2 * ((1 - 3 * u) ^ 2 * (1 + 2 * u)) := by ring
    have s5 : tp ^ 2 * ((1 - 3 * u) ^ 2 * (1 + 2 * u)) ≤ tp ^ 2 * (1 - u) ^ 2 :=
      mul_le_mul_of_nonneg_left hpoly (by positivity)
    exact le_of_mul_le_mul_right (by linarith : c * (1 - u) ^ 2 ≤ tp ^ 2 * (1 - u) ^ 2) (by positivity)
  · intro n; exact PsQ_le' (le_of_lt htp0) (by linarith) n
  · rw [div_le_one (by linarith)]; linarith

end Arp.LogErr

/-! ### the working format of the Taylor stage -/

namespace Arp.LogErr
open Arp Arp.SpecRound Arp.Ln2 Finset

variable {G : Sem}

/-- what the Taylor stage needs of the working format: at least 22 bits and an exponent range
    that is large compared with the precision -/
structure TCtx (G : Sem) : Prop where
  wf : G.WF
  p22 : 22 ≤ G.p
  p62 : G.p < 2 ^ 62
  lo : 3 * (G.p:ℤ) + 10 ≤ -G.emin
  hi : 3 * (G.p:ℤ) + 10 ≤ G.emax

theorem TCtx.u_le (C : TCtx G) : RelErr.u G ≤ 1 / 1000000 := by
  have := RelErr.u_le_of_le_p (F := G) (k := 22) C.p22
  norm_num at this
  linarith

theorem two_mul_lt_two_pow (n : ℕ) (hn : 3 ≤ n) : 2 * n < 2 ^ n := by
  induction n, hn using Nat.le_induction with
  | base => norm_num
  | succ n hn ih => rw [Nat.pow_succ]; omega

theorem TCtx.N_lt (C : TCtx G) : 4 * Nat.max 50 G.p + 6 < 2 ^ G.p := by
  have h22 := C.p22
  have h1 : 2 ^ 22 ≤ 2 ^ G.p := Nat.pow_le_pow_right (by norm_num) h22
  have h2 : 2 * (G.p - 2) < 2 ^ (G.p - 2) := two_mul_lt_two_pow _ (by omega)
  have h3 : 2 ^ G.p = 4 * 2 ^ (G.p - 2) := by
    rw [show G.p = (G.p - 2) + 2 by omega, Nat.pow_add]; simp; ring
  change 4 * max 50 G.p + 6 < 2 ^ G.p
  rcases Nat.le_total 50 G.p with h | h
  · rw [Nat.max_eq_right h]; omega
  · rw [Nat.max_eq_left h]; omega

theorem TCtx.oddOK (C : TCtx G) : OddOK G (Nat.max 50 G.p) := by
  intro i hi
  have hN := C.N_lt
  have hp := C.p62
  have h1 : i * 2 + 1 < 2 ^ G.p := by omega
  refine ⟨?_, h1, ?_⟩
  · have : Nat.max 50 G.p < 2 ^ 62 := by
      change max 50 G.p < 2 ^ 62
      rcases Nat.le_total 50 G.p with h | h
      · rw [Nat.max_eq_right h]; exact hp
      · rw [Nat.max_eq_left h]; norm_num
    omega
  · have := msb_le_of_lt_cs h1
    have := C.hi
    omega

/-- a power of two between `2^emin` and `2^emax` -/
theorem TCtx.isRep_pow (C : TCtx G) (j : ℤ) (h1 : G.emin ≤ j) (h2 : j ≤ G.emax) :
    IsRep G ((2:ℚ) ^ j) :=
  isRep_pow2 C.wf j (by have := C.p22; omega) h2

/-- `|X - 1|` is representable and at least `2^-p` for a representable `X ∈ [1/2, 2)`, `X ≠ 1` -/
theorem abs_sub_one' (hG : G.WF) (hemin : G.emin ≤ -1) {x : Flt} {X : ℚ}
    (hx : SV G false x X) (hlo : 1 / 2 ≤ X) (hhi : X < 2) (hne : X ≠ 1) :
    IsRep G |X - 1| ∧ (2:ℚ) ^ (-(G.p:ℤ)) ≤ |X - 1| := by
  have hp : 1 ≤ G.p := by have := hG.2; omega
  have hemax := Sem.emax_pos hG
  have hX0 : 0 < X := by linarith
  have hnorm : (2:ℚ) ^ G.emin ≤ X := by
    have : (2:ℚ) ^ G.emin ≤ (2:ℚ) ^ (-1:ℤ) := zpow_le_zpow_right₀ (by norm_num) hemin
    norm_num at this; linarith
  obtain ⟨e, m, hE, d⟩ := (hx.isRep hG).decomp
  have hXm : X = (m:ℚ) * G.ulp e := by have := d.hq; rw [add_zero] at this; exact this
  obtain ⟨h2e, hm⟩ := RelErr.decomp_pow_le d hp hnorm
  have he0 : e ≤ 0 := by
    have : (2:ℚ) ^ e < (2:ℚ) ^ (1:ℤ) := by norm_num; linarith
    have := (zpow_lt_zpow_iff_right₀ (by norm_num : (1:ℚ) < 2)).mp this
    omega
  have he1 : -1 ≤ e := by
    have h := d.lt_pow
    have : (2:ℚ) ^ (-1:ℤ) < (2:ℚ) ^ (e + 1) := by norm_num; linarith
    have := (zpow_lt_zpow_iff_right₀ (by norm_num : (1:ℚ) < 2)).mp this
    omega
  have hmp := d.hm
  have hpp : 2 ^ G.p = 2 * 2 ^ (G.p - 1) := two_pow_pred_sr hp
  rcases (by omega : e = 0 ∨ e = -1) with rfl | rfl
  · -- `X ∈ [1, 2)`
    have hu0 : G.ulp 0 = (2:ℚ) ^ (1 - (G.p:ℤ)) := by unfold Sem.ulp; congr 1; ring
    have hone : (1:ℚ) = ((2 ^ (G.p - 1) : ℕ) : ℚ) * G.ulp 0 := by
      have := G.half_pow_mul_ulp hp 0
      push_cast; rw [this]; norm_num
    have hmne : m ≠ 2 ^ (G.p - 1) := by
      intro h; apply hne; rw [hXm, h]; exact hone.symm
    have hM : X - 1 = ((m - 2 ^ (G.p - 1) : ℕ) : ℚ) * G.ulp 0 := by
      rw [Nat.cast_sub hm, sub_mul, ← hone, ← hXm]
    have hMpos : (1:ℚ) ≤ ((m - 2 ^ (G.p - 1) : ℕ) : ℚ) := by
      have : 1 ≤ m - 2 ^ (G.p - 1) := by omega
      exact_mod_cast this
    have hpos : 0 < X - 1 := by
      rw [hM]; have := G.ulp_pos 0; nlinarith
    rw [abs_of_pos hpos]
    constructor
    · obtain ⟨y, hyn, hy⟩ := exists_NN hG (m - 2 ^ (G.p - 1)) (1 - (G.p:ℤ)) (by omega) (by omega)
        (by omega) (by
          have := msb_le_of_lt_cs (show m - 2 ^ (G.p - 1) < 2 ^ G.p by omega)
          omega)
      rw [hM, hu0]; exact hy.isRep hG
    · rw [hM, hu0]
      have h1 : (2:ℚ) ^ (-(G.p:ℤ)) ≤ (2:ℚ) ^ (1 - (G.p:ℤ)) :=
        zpow_le_zpow_right₀ (by norm_num) (by omega)
      have h2 : (0:ℚ) < (2:ℚ) ^ (1 - (G.p:ℤ)) := by positivity
      nlinarith
  · -- `X ∈ [1/2, 1)`
    have hu1 : G.ulp (-1) = (2:ℚ) ^ (-(G.p:ℤ)) := by unfold Sem.ulp; congr 1; ring
    have hone : (1:ℚ) = ((2 ^ G.p : ℕ) : ℚ) * G.ulp (-1) := by
      have := G.pow_mul_ulp (-1)
      push_cast; rw [this]; norm_num
    have hM : 1 - X = ((2 ^ G.p - m : ℕ) : ℚ) * G.ulp (-1) := by
      rw [Nat.cast_sub (le_of_lt hmp), sub_mul, ← hone, ← hXm]
    have hMpos : (1:ℚ) ≤ ((2 ^ G.p - m : ℕ) : ℚ) := by
      have : 1 ≤ 2 ^ G.p - m := by omega
      exact_mod_cast this
    have hpos : 0 < 1 - X := by
      rw [hM]; have := G.ulp_pos (-1); nlinarith
    rw [abs_of_neg (by linarith), neg_sub]
    constructor
    · obtain ⟨y, hyn, hy⟩ := exists_NN hG (2 ^ G.p - m) (-(G.p:ℤ)) (by omega) (by omega)
        (by omega) (by
          have := msb_le_of_lt_cs (show 2 ^ G.p - m < 2 ^ G.p by omega)
          omega)
      rw [hM, hu1]; exact hy.isRep hG
    · rw [hM, hu1]
      have h2 : (0:ℚ) < (2:ℚ) ^ (-(G.p:ℤ)) := by positivity
      nlinarith

theorem abs_sub_one (C : TCtx G) {x : Flt} {X : ℚ} (hx : SV G false x X) (hlo : 1 / 2 ≤ X)
    (hhi : X < 2) (hne : X ≠ 1) :
    IsRep G |X - 1| ∧ (2:ℚ) ^ (-(G.p:ℤ)) ≤ |X - 1| :=
  abs_sub_one' C.wf (by have := C.lo; have := C.p22; omega) hx hlo hhi hne

end Arp.LogErr

/-! ### the stages of `log_taylor` -/

namespace Arp.LogErr
open Arp Arp.SpecRound Arp.Ln2 Finset

variable {G : Sem} {sg : Bool}

/-- **stage 1**: `z = T(|x-1| / T(x+1))` is `w = |X-1|/(X+1)` up to one relative error on each side -/
theorem z_stage (C : TCtx G) {x : Flt} {X : ℚ} (hx : SV G false x X)
    (hlo : 998 / 1000 ≤ X) (hhi : X ≤ 1002 / 1000) (hne : X ≠ 1) :
    ∃ z : ℚ, SV G (decide (X < 1))
        (divWithRm (subWithRm x (Flt.one G false) .none) (addWithRm x (Flt.one G false) .none) .none) z ∧
      IsRep G z ∧ (2:ℚ) ^ (-(G.p:ℤ) - 2) ≤ z ∧
      (1 - RelErr.u G) * (|X - 1| / (X + 1)) ≤ z ∧ z * (1 - RelErr.u G) ≤ |X - 1| / (X + 1) := by
  have hG := C.wf
  have hu0 := RelErr.u_pos G
  have hu1 := C.u_le
  have hemin : G.emin ≤ -(G.p:ℤ) - 2 := by have := C.lo; have := C.p22; omega
  have hemax : 3 ≤ G.emax := by have := C.hi; have := C.p22; omega
  have h8 : (8:ℚ) ≤ (2:ℚ) ^ (G.emax + 1) := by
    have : (2:ℚ) ^ (3:ℤ) ≤ (2:ℚ) ^ (G.emax + 1) := zpow_le_zpow_right₀ (by norm_num) (by omega)
    norm_num at this; exact this
  have h1 := SV.of_NN (one_NN hG)
  obtain ⟨harep, hage⟩ := abs_sub_one C hx (by linarith) (by linarith) hne
  have hup := SV.sub_exact hG hx h1 (by linarith) one_pos hne harep
  have hdown := SV.add hG hx h1 (by linarith : 0 < X + 1) (by linarith)
  set a := |X - 1| with ha
  set b := trq G (X + 1) with hb
  have ha0 : 0 < a := lt_of_lt_of_le (by positivity) hage
  have ha1 : a ≤ 2 / 1000 := by
    rw [ha, abs_le]; constructor <;> linarith
  have hX1n : (2:ℚ) ^ G.emin ≤ X + 1 := by
    have : (2:ℚ) ^ G.emin ≤ 1 := by
      calc (2:ℚ) ^ G.emin ≤ (2:ℚ) ^ (0:ℤ) := zpow_le_zpow_right₀ (by norm_num) (Sem.emin_le_zero hG)
        _ = 1 := zpow_zero 2
    linarith
  have hble : b ≤ X + 1 := trq_le hG (by linarith) (by linarith)
  have hberr := trq_err_normal hG hX1n (by linarith : X + 1 < (2:ℚ) ^ (G.emax + 1))
  have hone_rep : IsRep G 1 := by
    have := C.isRep_pow 0 (Sem.emin_le_zero hG) (by omega)
    simpa using this
  have hb1 : 1 ≤ b := trq_mono_rep hG hone_rep (by linarith) (by linarith)
  have hb0 : 0 < b := by linarith
  have habn : (2:ℚ) ^ (-(G.p:ℤ) - 2) ≤ a / b := by
    rw [le_div_iff₀ hb0]
    have e : (2:ℚ) ^ (-(G.p:ℤ) - 2) = (2:ℚ) ^ (-(G.p:ℤ)) / 4 := by
      rw [zpow_sub₀ (by norm_num : (2:ℚ) ≠ 0)]; norm_num
    rw [e]
    have : (0:ℚ) < (2:ℚ) ^ (-(G.p:ℤ)) := by positivity
    nlinarith
  have hab1 : a / b ≤ 1 := by rw [div_le_one hb0]; linarith
  have hablt : a / b < (2:ℚ) ^ (G.emax + 1) := by linarith
  have hz := SV.div hG hup hdown hb0 hablt
  have habn' : (2:ℚ) ^ G.emin ≤ a / b :=
    le_trans (zpow_le_zpow_right₀ (by norm_num) hemin) habn
  have hzle : trq G (a / b) ≤ a / b := trq_le hG (by positivity) hablt
  have hzerr := trq_err_normal hG habn' hablt
  have hzrep := trq_isRep hG (le_of_lt (div_pos ha0 hb0)) hablt
  have hzge := trq_mono_rep hG (C.isRep_pow _ hemin (by omega)) habn hablt
  refine ⟨trq G (a / b), hz, hzrep, hzge, ?_, ?_⟩
  · -- (1-u) w ≤ z
    have hw : a / (X + 1) ≤ a / b := div_le_div_of_nonneg_left (le_of_lt ha0) hb0 hble
    have : (1 - RelErr.u G) * (a / (X + 1)) ≤ (1 - RelErr.u G) * (a / b) :=
      mul_le_mul_of_nonneg_left hw (by linarith)
    linarith
  · -- z (1-u) ≤ w
    have hX1 : 0 < X + 1 := by linarith
    rw [le_div_iff₀ hX1]
    have h3 : trq G (a / b) * b ≤ a := by
      calc trq G (a / b) * b ≤ a / b * b := mul_le_mul_of_nonneg_right hzle (le_of_lt hb0)
        _ = a := div_mul_cancel₀ a (ne_of_gt hb0)
    have hz0 : 0 ≤ trq G (a / b) := hzrep.nonneg
    have h4 : (1 - RelErr.u G) * (X + 1) ≤ b := by linarith
    calc trq G (a / b) * (1 - RelErr.u G) * (X + 1)
        = trq G (a / b) * ((1 - RelErr.u G) * (X + 1)) := by ring
      _ ≤ trq G (a / b) * b := mul_le_mul_of_nonneg_left h4 hz0
      _ ≤ a := h3

end Arp.LogErr

namespace Arp.LogErr
open Arp Arp.SpecRound Arp.Ln2 Finset

variable {G : Sem} {sg : Bool}

/-- **stage 2**: `z.sqr` is `z²` up to a relative error `2u` -/
theorem sqr_stage (C : TCtx G) {zf : Flt} {z : ℚ} (hz : SV G sg zf z)
    (hzlo : (2:ℚ) ^ (-(G.p:ℤ) - 2) ≤ z) (hzhi : z ≤ 1 / 100) :
    ∃ c : ℚ, SV G false zf.sqr c ∧ z ^ 2 * (1 - 2 * RelErr.u G) ≤ c ∧
      c ≤ z ^ 2 * (1 + 2 * RelErr.u G) := by
  have hG := C.wf
  have hp : 1 ≤ G.p := by have := C.p22; omega
  have hu0 := RelErr.u_pos G
  have hu1 := C.u_le
  have hz0 : 0 < z := lt_of_lt_of_le (by positivity) hzlo
  have hzn := hz.normal_of_pos hz0
  have hsem := hz.sem
  have hzsq : (2:ℚ) ^ (G.emin + 2) ≤ z ^ 2 := by
    have h1 : ((2:ℚ) ^ (-(G.p:ℤ) - 2)) ^ 2 ≤ z ^ 2 := pow_le_pow_left₀ (by positivity) hzlo 2
    have h2 : ((2:ℚ) ^ (-(G.p:ℤ) - 2)) ^ 2 = (2:ℚ) ^ (2 * (-(G.p:ℤ) - 2)) := by
      rw [← zpow_natCast, ← zpow_mul]; congr 1; ring
    have h3 : (2:ℚ) ^ (G.emin + 2) ≤ (2:ℚ) ^ (2 * (-(G.p:ℤ) - 2)) :=
      zpow_le_zpow_right₀ (by norm_num) (by have := C.lo; omega)
    linarith
  have hlo : (2:ℚ) ^ zf.sem.emin ≤ zf.mag ^ 2 := by
    rw [hsem, hz.mag hzn]
    have : (2:ℚ) ^ G.emin ≤ (2:ℚ) ^ (G.emin + 2) := zpow_le_zpow_right₀ (by norm_num) (by omega)
    linarith
  have hhi : zf.mag ^ 2 ≤ maxFinite zf.sem := by
    rw [hsem, hz.mag hzn]
    have h1 : (1:ℚ) ≤ (2:ℚ) ^ G.emax := one_le_zpow₀ (by norm_num) (by have := C.hi; omega)
    have h2 := pow_emax_le_maxFinite (F := G) hp
    have h3 : z ^ 2 ≤ 1 := by nlinarith
    linarith
  obtain ⟨q1, q2, q3, q4, q5, _⟩ := C18.sqr_error zf (by rw [hsem]; exact hG) hzn hz.can hlo hhi
  rw [hsem] at q3 q5
  have hv2 : zf.val ^ 2 = z ^ 2 := by
    rw [hz.val]; cases sg <;> simp
  have hcv : zf.sqr.val = zf.sqr.mag := by rw [Flt.val_normal q1, q4]; simp
  rw [hv2, hcv] at q5
  set c := zf.sqr.mag with hc
  obtain ⟨k1, k2, k3, k4, k5⟩ := (Flt.canonical_normal q1).mp q2
  rw [q3] at k1 k4 k5
  have hcm : c = (zf.sqr.mant : ℚ) * G.ulp zf.sqr.exp := by
    rw [hc, Flt.mag_eq, q3, Sem.ulp_def]
  have hU := G.ulp_pos zf.sqr.exp
  have hm : 2 ^ (G.p - 1) ≤ zf.sqr.mant := by
    rcases k5 with h | h
    · exact h
    · by_contra hcon
      have hm1 : (zf.sqr.mant : ℚ) + 1 ≤ (2:ℚ) ^ (G.p - 1) := by
        have : zf.sqr.mant + 1 ≤ 2 ^ (G.p - 1) := by omega
        exact_mod_cast this
      have hclt : c < (2:ℚ) ^ G.emin := by
        calc c = (zf.sqr.mant : ℚ) * G.ulp zf.sqr.exp := hcm
          _ < ((zf.sqr.mant : ℚ) + 1) * G.ulp zf.sqr.exp := by nlinarith
          _ ≤ (2:ℚ) ^ (G.p - 1) * G.ulp zf.sqr.exp := mul_le_mul_of_nonneg_right hm1 (le_of_lt hU)
          _ = (2:ℚ) ^ zf.sqr.exp := G.half_pow_mul_ulp hp _
          _ = _ := by rw [h]
      have hule : G.ulp zf.sqr.exp ≤ (2:ℚ) ^ G.emin := by
        rw [h, Sem.ulp_def]; exact zpow_le_zpow_right₀ (by norm_num) (by omega)
      have h4 : (2:ℚ) ^ (G.emin + 2) = 4 * (2:ℚ) ^ G.emin := by
        rw [zpow_add₀ (by norm_num : (2:ℚ) ≠ 0)]; norm_num; ring
      have := (abs_lt.mp q5).1
      have hpos : (0:ℚ) < (2:ℚ) ^ G.emin := by positivity
      linarith
  have hmq : (2:ℚ) ^ (G.p - 1) ≤ (zf.sqr.mant : ℚ) := by exact_mod_cast hm
  have h2e : (2:ℚ) ^ zf.sqr.exp ≤ c := by
    calc (2:ℚ) ^ zf.sqr.exp = (2:ℚ) ^ (G.p - 1) * G.ulp zf.sqr.exp := (G.half_pow_mul_ulp hp _).symm
      _ ≤ (zf.sqr.mant : ℚ) * G.ulp zf.sqr.exp := mul_le_mul_of_nonneg_right hmq (le_of_lt hU)
      _ = c := hcm.symm
  have hule : G.ulp zf.sqr.exp ≤ RelErr.u G * c := by
    rw [RelErr.ulp_eq_u]; exact mul_le_mul_of_nonneg_left h2e (le_of_lt hu0)
  have hc0 : 0 < c := lt_of_lt_of_le (by positivity) h2e
  obtain ⟨e1, e2⟩ := abs_lt.mp q5
  have huc : 0 < RelErr.u G * c := mul_pos hu0 hc0
  have huuc : RelErr.u G * (RelErr.u G * c) ≤ 1 / 1000000 * (RelErr.u G * c) :=
    mul_le_mul_of_nonneg_right hu1 (le_of_lt huc)
  refine ⟨c, SV.of_canonical q3 q1 q2 q4 rfl, ?_, ?_⟩
  · have h1 : z ^ 2 ≤ c * (1 + 9 / 8 * RelErr.u G) := by nlinarith
    have h2 : z ^ 2 * (1 - 2 * RelErr.u G) ≤ c * (1 + 9 / 8 * RelErr.u G) * (1 - 2 * RelErr.u G) :=
      mul_le_mul_of_nonneg_right h1 (by linarith)
    nlinarith
  · have h1 : c * (1 - 9 / 8 * RelErr.u G) ≤ z ^ 2 := by nlinarith
    have h2 : c * (1 - 9 / 8 * RelErr.u G) * (1 + 2 * RelErr.u G) ≤ z ^ 2 * (1 + 2 * RelErr.u G) :=
      mul_le_mul_of_nonneg_right h1 (by linarith)
    nlinarith

end Arp.LogErr

namespace Arp.LogErr
open Arp Arp.SpecRound Arp.Ln2 Finset

variable {G : Sem} {sg : Bool}

/-- **stage 3**: the whole loop of `log_taylor`, started as in the code -/
theorem loop_stage (C : TCtx G) {z c tm tp B : ℚ} (D : LData G z c tm tp B) {zf z2 : Flt}
    (hz : SV G sg zf z) (hz2 : SV G false z2 c) :
    ∃ (J : ℕ) (v : ℚ),
      SV G sg (logTaylorLoop G z2 (Nat.max 50 G.p) 0 zf (Flt.zero G false) (Flt.one G true)) v ∧
      ISum G z tm tp B J v ∧ J ≤ Nat.max 50 G.p ∧
      ((∃ j, J = j + 1 ∧ SmallAt G tm j v) ∨ J = Nat.max 50 G.p) := by
  have hG := C.wf
  obtain ⟨n, hn⟩ : ∃ n, Nat.max 50 G.p = n + 1 :=
    ⟨Nat.max 50 G.p - 1, by have : 50 ≤ Nat.max 50 G.p := Nat.le_max_left 50 G.p; omega⟩
  have hodd := C.oddOK
  rw [hn] at hodd ⊢
  rw [logTaylorLoop_succ]
  have hb : (Flt.one G true).beq (Flt.zero G false) = false := beq_normal_zero rfl rfl
  rw [hb]
  simp only [Bool.false_eq_true, if_false]
  have hone := D.one_lt
  have hz0 := D.z_pos
  have hzle : z ≤ 1 := by have := D.h3; have := D.tp_le; linarith
  -- the first element
  obtain ⟨c1, c2, c3⟩ := hodd 0 (by omega)
  have hk := SV.of_NN (nat_NN hG (0 * 2 + 1) (by omega) c1 c2 c3)
  have hk1 : (((0 * 2 + 1 : ℕ)) : ℚ) = 1 := by norm_num
  rw [hk1] at hk
  have hel := SV.div hG hz hk one_pos (by rw [div_one]; linarith)
  rw [div_one, trq_of_isRep hG D.zrep] at hel
  have hsum := SV.add hG (SV.zero G false sg) hel (by linarith) (by linarith)
  rw [zero_add, trq_of_isRep hG D.zrep] at hsum
  have htop := SV.mul hG hz hz2 D.c_pos (by
    have : z * c ≤ 1 := by nlinarith [D.c_le, D.c_pos]
    linarith)
  have hT := itop_step D (itop_zero D)
  refine loop_spec D hz2 hodd n (0 + 1) _ _ _ _ z 0 (by omega) htop hsum (SV.zero G false sg) hT
    (isum_one D) ?_
  intro h; linarith

end Arp.LogErr
