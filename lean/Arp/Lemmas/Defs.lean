import Arp.Lemmas.Normalize
import Arp.Model.Funcs
import Arp.Spec.Ops
/-!
# Shared vocabulary of the property theorems
-/
namespace Arp

/-- Well-formed formats: at least two exponent bits (so that `emin ≤ 0 < emax`) and two
    significand bits.  Every preset (FP16 … FP256) and every format used in the
    repository satisfies it.  Exponents are unbounded integers in the model: that no
    `i64` overflows needs `e ≤ 61` in addition and is not part of these theorems. -/
def Sem.WF (s : Sem) : Prop := 2 ≤ s.e ∧ 2 ≤ s.p

/-- Canonical form (C04), as a proposition. -/
def Flt.Canonical (x : Flt) : Prop := x.isCanonical = true

theorem Sem.bias_pos {s : Sem} (h : s.WF) : 1 ≤ s.bias := by
  unfold Sem.bias
  have : 2 ^ 1 ≤ 2 ^ (s.e - 1) := Nat.pow_le_pow_right (by norm_num) (by have := h.1; omega)
  omega

theorem Sem.emin_le_zero {s : Sem} (h : s.WF) : s.emin ≤ 0 := by
  have := Sem.bias_pos h; unfold Sem.emin; omega

theorem Sem.emax_pos {s : Sem} (h : s.WF) : 1 ≤ s.emax := by
  unfold Sem.emax Sem.bias
  obtain ⟨k, hk⟩ : ∃ k, s.e = k + 2 := ⟨s.e - 2, by have := h.1; omega⟩
  rw [hk]
  have e1 : 2 ^ (k + 2) = 4 * 2 ^ k := by rw [Nat.pow_add]; ring
  have e2 : 2 ^ (k + 2 - 1) = 2 * 2 ^ k := by
    rw [show k + 2 - 1 = k + 1 by omega, Nat.pow_succ]; ring
  have h1 : 1 ≤ 2 ^ k := Nat.one_le_two_pow
  rw [e1, e2]
  generalize 2 ^ k = t at h1
  push_cast; omega

theorem Sem.emin_le_emax {s : Sem} (h : s.WF) : s.emin ≤ s.emax := by
  have := Sem.emin_le_zero h; have := Sem.emax_pos h; omega

/-- unfolding of `Canonical` for a normal value -/
theorem Flt.canonical_normal {x : Flt} (hx : x.cat = .normal) :
    x.Canonical ↔ (x.sem.emin ≤ x.exp ∧ x.exp ≤ x.sem.emax ∧ 0 < x.mant ∧ x.mant < 2 ^ x.sem.p
      ∧ (2 ^ (x.sem.p - 1) ≤ x.mant ∨ x.exp = x.sem.emin)) := by
  unfold Flt.Canonical Flt.isCanonical
  rw [hx]
  simp only [Bool.and_eq_true, Bool.or_eq_true, decide_eq_true_eq]
  tauto

/-- unfolding of `Canonical` for a special value -/
theorem Flt.canonical_special {x : Flt} (hx : x.cat ≠ .normal) :
    x.Canonical ↔ (x.exp = 0 ∧ x.mant = 0) := by
  unfold Flt.Canonical Flt.isCanonical
  cases h : x.cat <;> simp_all

/-- `(mant, exp, loss)` jointly denote the exact positive magnitude `q` in precision `p`. -/
def Denotes (p : Nat) (mant : Nat) (exp : Int) (loss : Loss) (q : ℚ) : Prop :=
  ∃ f : ℚ, 0 ≤ f ∧ f < 1 ∧ cls f = loss ∧ q = ((mant : ℚ) + f) * (2 : ℚ) ^ (exp - ((p : Int) - 1))

/-- magnitude in Mathlib vocabulary -/
theorem Flt.mag_eq (x : Flt) : x.mag = (x.mant : ℚ) * (2 : ℚ) ^ (x.exp - ((x.sem.p : Int) - 1)) := by
  unfold Flt.mag; rw [pow2_eq]

/-- `normalize_correct` restated with `Denotes` and `Sem.WF`. -/
theorem normalize_denotes (x : Flt) (rm : RM) (loss : Loss) (q : ℚ)
    (hF : x.sem.WF) (hx : x.cat = .normal) (hm : x.mant ≠ 0)
    (hd : Denotes x.sem.p x.mant x.exp loss q)
    (hpre : msb x.mant < x.sem.p → x.sem.emin < x.exp → loss = .zero) :
    (x.normalize rm loss).toRes = Spec.round x.sem rm x.sign q := by
  obtain ⟨f, hf0, hf1, hl, hq⟩ := hd
  exact normalize_correct x rm loss f q (by have := hF.2; omega) (Sem.emin_le_emax hF) hx hm hf0 hf1 hl hq hpre

end Arp
