import Arp.Lemmas.Defs
import Arp.Model.Cast
import Mathlib.Tactic.Ring
import Mathlib.Tactic.Linarith
/-!
# Bit-field algebra of the IEEE-754 interchange encoding (helpers of C07)

`Nat` bit operations are translated once and for all into `/`, `%`, `*`, `+`:

* `and_maskBits`, `shr_and_maskBits`, `shr_and_one`  (field extraction);
* `shl_or_of_lt`, `encode_eq`                         (field packing);
* `field_frac`, `field_biased`, `field_sign`          (extraction ∘ packing = id);
* `bits_decompose`                                    (packing ∘ extraction = id).
-/
namespace Arp

theorem maskBits_eq (k : Nat) : maskBits k = 2 ^ k - 1 := rfl

theorem maskBits_lt (k : Nat) : maskBits k < 2 ^ k := by
  have : 1 ≤ 2 ^ k := Nat.one_le_two_pow
  unfold maskBits; omega

theorem pred_two_pow_lt (k : Nat) : 2 ^ k - 1 < 2 ^ k := maskBits_lt k

theorem maskBits_succ (k : Nat) : maskBits k + 1 = 2 ^ k := by
  have : 1 ≤ 2 ^ k := Nat.one_le_two_pow
  unfold maskBits; omega

/-- `n & mask(k) = n mod 2^k` -/
theorem and_maskBits (n k : Nat) : n &&& maskBits k = n % 2 ^ k := by
  unfold maskBits; exact Nat.and_two_pow_sub_one_eq_mod n k

/-- `(n >> j) & mask(k) = (n / 2^j) mod 2^k` -/
theorem shr_and_maskBits (n j k : Nat) : (n >>> j) &&& maskBits k = n / 2 ^ j % 2 ^ k := by
  rw [and_maskBits, Nat.shiftRight_eq_div_pow]

/-- `(n >> j) & 1 = (n / 2^j) mod 2` -/
theorem shr_and_one (n j : Nat) : (n >>> j) &&& 1 = n / 2 ^ j % 2 := by
  have h := shr_and_maskBits n j 1
  simpa [maskBits] using h

/-- `(a << k) | b = a·2^k + b` when `b` fits into the low `k` bits. -/
theorem shl_or_of_lt {b k : Nat} (h : b < 2 ^ k) (a : Nat) : a <<< k ||| b = a * 2 ^ k + b := by
  rw [← Nat.shiftLeft_add_eq_or_of_lt h a, Nat.shiftLeft_eq]

/-- Packing of the three fields (the last four statements of `as_native_float`). -/
theorem encode_eq (E M s bi fr : Nat) (hbi : bi < 2 ^ E) (hfr : fr < 2 ^ M) :
    ((s <<< E ||| bi) <<< M) ||| fr = s * 2 ^ (E + M) + bi * 2 ^ M + fr := by
  rw [shl_or_of_lt hfr, shl_or_of_lt hbi, Nat.pow_add]; ring

/-- the packed word is below `2^(E+M+1)` when the sign is a bit -/
theorem encode_lt (E M s bi fr : Nat) (hs : s < 2) (hbi : bi < 2 ^ E) (hfr : fr < 2 ^ M) :
    s * 2 ^ (E + M) + bi * 2 ^ M + fr < 2 ^ (E + M + 1) := by
  have h1 : bi * 2 ^ M + fr < 2 ^ E * 2 ^ M := by
    have : (bi + 1) * 2 ^ M ≤ 2 ^ E * 2 ^ M := Nat.mul_le_mul_right _ hbi
    have e : (bi + 1) * 2 ^ M = bi * 2 ^ M + 2 ^ M := by ring
    omega
  have h2 : s * 2 ^ (E + M) ≤ 1 * 2 ^ (E + M) := Nat.mul_le_mul_right _ (by omega)
  rw [Nat.pow_succ, Nat.pow_add] at *
  omega

/-- fraction field of a packed word -/
theorem field_frac (E M s bi fr : Nat) (hfr : fr < 2 ^ M) :
    (s * 2 ^ (E + M) + bi * 2 ^ M + fr) % 2 ^ M = fr := by
  have e : s * 2 ^ (E + M) + bi * 2 ^ M + fr = fr + 2 ^ M * (s * 2 ^ E + bi) := by
    rw [Nat.pow_add]; ring
  rw [e, Nat.add_mul_mod_self_left, Nat.mod_eq_of_lt hfr]

theorem div_frac (E M s bi fr : Nat) (hfr : fr < 2 ^ M) :
    (s * 2 ^ (E + M) + bi * 2 ^ M + fr) / 2 ^ M = s * 2 ^ E + bi := by
  have e : s * 2 ^ (E + M) + bi * 2 ^ M + fr = fr + 2 ^ M * (s * 2 ^ E + bi) := by
    rw [Nat.pow_add]; ring
  have hpos : 0 < 2 ^ M := Nat.two_pow_pos M
  rw [e, Nat.add_mul_div_left _ _ hpos, Nat.div_eq_of_lt hfr, Nat.zero_add]

/-- biased-exponent field of a packed word -/
theorem field_biased (E M s bi fr : Nat) (hbi : bi < 2 ^ E) (hfr : fr < 2 ^ M) :
    (s * 2 ^ (E + M) + bi * 2 ^ M + fr) / 2 ^ M % 2 ^ E = bi := by
  rw [div_frac E M s bi fr hfr, Nat.add_comm, Nat.mul_comm, Nat.add_mul_mod_self_left,
    Nat.mod_eq_of_lt hbi]

/-- sign field of a packed word -/
theorem field_sign (E M s bi fr : Nat) (hs : s < 2) (hbi : bi < 2 ^ E) (hfr : fr < 2 ^ M) :
    (s * 2 ^ (E + M) + bi * 2 ^ M + fr) / 2 ^ (E + M) % 2 = s := by
  have hpos : 0 < 2 ^ (E + M) := Nat.two_pow_pos _
  have h1 : bi * 2 ^ M + fr < 2 ^ (E + M) := by
    have : (bi + 1) * 2 ^ M ≤ 2 ^ E * 2 ^ M := Nat.mul_le_mul_right _ hbi
    have e : (bi + 1) * 2 ^ M = bi * 2 ^ M + 2 ^ M := by ring
    rw [Nat.pow_add]; omega
  have e : s * 2 ^ (E + M) + bi * 2 ^ M + fr = (bi * 2 ^ M + fr) + 2 ^ (E + M) * s := by ring
  rw [e, Nat.add_mul_div_left _ _ hpos, Nat.div_eq_of_lt h1, Nat.zero_add, Nat.mod_eq_of_lt hs]

/-- Every word is the packing of its three fields plus the part above the sign bit. -/
theorem bits_decompose (E M b : Nat) :
    b = (b / 2 ^ (E + M)) * 2 ^ (E + M) + (b / 2 ^ M % 2 ^ E) * 2 ^ M + b % 2 ^ M := by
  have h1 := Nat.div_add_mod b (2 ^ M)
  have h2 := Nat.div_add_mod (b / 2 ^ M) (2 ^ E)
  have h3 : b / 2 ^ M / 2 ^ E = b / 2 ^ (E + M) := by
    rw [Nat.div_div_eq_div_mul, ← Nat.pow_add, Nat.add_comm]
  rw [h3] at h2
  calc b = 2 ^ M * (b / 2 ^ M) + b % 2 ^ M := h1.symm
    _ = 2 ^ M * (2 ^ E * (b / 2 ^ (E + M)) + b / 2 ^ M % 2 ^ E) + b % 2 ^ M := by rw [h2]
    _ = _ := by rw [Nat.pow_add]; ring

/-- For a word of `E+M+1` bits the top part is the sign bit. -/
theorem bits_decompose_lt (E M b : Nat) (hb : b < 2 ^ (E + M + 1)) :
    b = (b / 2 ^ (E + M) % 2) * 2 ^ (E + M) + (b / 2 ^ M % 2 ^ E) * 2 ^ M + b % 2 ^ M
    ∧ b / 2 ^ (E + M) % 2 < 2 ∧ b / 2 ^ M % 2 ^ E < 2 ^ E ∧ b % 2 ^ M < 2 ^ M := by
  have hs : b / 2 ^ (E + M) < 2 := by
    rw [Nat.div_lt_iff_lt_mul (Nat.two_pow_pos _)]
    rw [Nat.pow_succ] at hb; omega
  refine ⟨?_, Nat.mod_lt _ (by norm_num), Nat.mod_lt _ (Nat.two_pow_pos _),
    Nat.mod_lt _ (Nat.two_pow_pos _)⟩
  rw [Nat.mod_eq_of_lt hs]
  exact bits_decompose E M b

/-! ### The three fields of a word in the format `F`, and `from_bits` in terms of them -/

/-- sign bit: bit `E + (P-1)` -/
def bSign (F : Sem) (b : Nat) : Bool := decide (b / 2 ^ (F.e + (F.p - 1)) % 2 = 1)
/-- biased exponent: bits `P-1 … E+P-2` -/
def bBiased (F : Sem) (b : Nat) : Nat := b / 2 ^ (F.p - 1) % 2 ^ F.e
/-- trailing significand (fraction): bits `0 … P-2` -/
def bFrac (F : Sem) (b : Nat) : Nat := b % 2 ^ (F.p - 1)

theorem bBiased_lt (F : Sem) (b : Nat) : bBiased F b < 2 ^ F.e := Nat.mod_lt _ (Nat.two_pow_pos _)
theorem bFrac_lt (F : Sem) (b : Nat) : bFrac F b < 2 ^ (F.p - 1) := Nat.mod_lt _ (Nat.two_pow_pos _)

theorem bSign_toNat (F : Sem) (b : Nat) :
    (if bSign F b then 1 else 0) = b / 2 ^ (F.e + (F.p - 1)) % 2 := by
  unfold bSign
  have : b / 2 ^ (F.e + (F.p - 1)) % 2 < 2 := Nat.mod_lt _ (by norm_num)
  generalize b / 2 ^ (F.e + (F.p - 1)) % 2 = s at *
  by_cases h : s = 1
  · simp [h]
  · have : s = 0 := by omega
    simp [this]

theorem Bits.new_of_ne {s : Sem} {sg : Bool} {e : Int} {m : Nat} (h : m ≠ 0) :
    Flt.new s sg e m = ⟨s, sg, e, m, .normal⟩ := by
  unfold Flt.new; rw [if_neg h]

theorem Bits.new_zero (s : Sem) (sg : Bool) (e : Int) : Flt.new s sg e 0 = Flt.zero s sg := by
  unfold Flt.new; rw [if_pos rfl]

/-- `from_bits` with the bit operations replaced by the arithmetic field functions. -/
theorem fromBits_eq (F : Sem) (b : Nat) :
    fromBits F b =
      if bBiased F b = 2 ^ F.e - 1 then
        (if bFrac F b = 0 then Flt.inf F (bSign F b) else Flt.nan F (bSign F b))
      else if bBiased F b ≠ 0 then
        Flt.new F (bSign F b) ((bBiased F b : Int) - F.bias) (bFrac F b + 2 ^ (F.p - 1))
      else Flt.new F (bSign F b) F.emin (bFrac F b) := by
  have hs : (((b / 2 ^ (F.e + (F.p - 1))) &&& 1) == 1) = bSign F b := by
    rw [← Nat.shiftRight_eq_div_pow, shr_and_one]; unfold bSign
    by_cases h : b / 2 ^ (F.e + (F.p - 1)) % 2 = 1 <;> simp [h]
  unfold fromBits
  simp only [and_maskBits, Nat.shiftRight_eq_div_pow, hs]
  simp only [maskBits_eq, Nat.shiftLeft_eq, Nat.one_mul]
  unfold bBiased bFrac
  split_ifs with h1 h2 h3
  · rfl
  · rfl
  · rfl
  · have : b / 2 ^ (F.p - 1) % 2 ^ F.e = 0 := by omega
    unfold Sem.emin
    rw [this]; congr 1; omega

/-! ### `as_native_float` per category, in arithmetic form -/

/-- the word packed from a sign, a biased exponent and a fraction -/
def packBits (F : Sem) (sg : Bool) (bi fr : Nat) : Nat :=
  (if sg then 1 else 0) * 2 ^ (F.e + (F.p - 1)) + bi * 2 ^ (F.p - 1) + fr

theorem asNative_zero (F : Sem) (sg : Bool) :
    (Flt.zero F sg).asNativeFloat = packBits F sg 0 0 := by
  unfold Flt.asNativeFloat Flt.zero packBits
  exact encode_eq _ _ _ _ _ (Nat.two_pow_pos _) (Nat.two_pow_pos _)

theorem asNative_inf (F : Sem) (sg : Bool) :
    (Flt.inf F sg).asNativeFloat = packBits F sg (2 ^ F.e - 1) 0 := by
  unfold Flt.asNativeFloat Flt.inf packBits
  exact encode_eq _ _ _ _ _ (maskBits_lt _) (Nat.two_pow_pos _)

theorem asNative_nan (F : Sem) (sg : Bool) (hp : 2 ≤ F.p) :
    (Flt.nan F sg).asNativeFloat = packBits F sg (2 ^ F.e - 1) (2 ^ (F.p - 2)) := by
  unfold Flt.asNativeFloat Flt.nan packBits
  have h : (1 : Nat) <<< (F.p - 1 - 1) = 2 ^ (F.p - 2) := by
    rw [Nat.shiftLeft_eq, Nat.one_mul, show F.p - 1 - 1 = F.p - 2 by omega]
  have hlt : 2 ^ (F.p - 2) < 2 ^ (F.p - 1) := Nat.pow_lt_pow_right (by norm_num) (by omega)
  simp only [h]
  exact encode_eq _ _ _ _ _ (maskBits_lt _) hlt

theorem asNative_normal (x : Flt) (hx : x.cat = .normal) (hp : x.sem.p ≤ 64)
    (hm : x.mant < 2 ^ x.sem.p) (he : (x.exp + x.sem.bias).toNat < 2 ^ x.sem.e) :
    x.asNativeFloat = packBits x.sem x.sign
      (if (x.exp + x.sem.bias).toNat = 1 ∧ x.mant / 2 ^ (x.sem.p - 1) = 0 then 0
       else (x.exp + x.sem.bias).toNat) (x.mant % 2 ^ (x.sem.p - 1)) := by
  have h64 : x.mant % 2 ^ 64 = x.mant :=
    Nat.mod_eq_of_lt (lt_of_lt_of_le hm (Nat.pow_le_pow_right (by norm_num) hp))
  unfold Flt.asNativeFloat packBits
  simp only [hx, h64, and_maskBits, Nat.shiftRight_eq_div_pow]
  refine encode_eq _ _ _ _ _ ?_ (Nat.mod_lt _ (Nat.two_pow_pos _))
  split_ifs
  · exact Nat.two_pow_pos _
  · exact he

/-! ### fields of a packed word, and packing of the fields -/

theorem bFrac_pack (F : Sem) (sg : Bool) (bi fr : Nat) (hfr : fr < 2 ^ (F.p - 1)) :
    bFrac F (packBits F sg bi fr) = fr := field_frac _ _ _ _ _ hfr

theorem bBiased_pack (F : Sem) (sg : Bool) (bi fr : Nat) (hbi : bi < 2 ^ F.e)
    (hfr : fr < 2 ^ (F.p - 1)) : bBiased F (packBits F sg bi fr) = bi :=
  field_biased _ _ _ _ _ hbi hfr

theorem bSign_pack (F : Sem) (sg : Bool) (bi fr : Nat) (hbi : bi < 2 ^ F.e)
    (hfr : fr < 2 ^ (F.p - 1)) : bSign F (packBits F sg bi fr) = sg := by
  unfold bSign packBits
  rw [field_sign _ _ _ _ _ (by split_ifs <;> omega) hbi hfr]
  cases sg <;> simp

theorem packBits_lt (F : Sem) (sg : Bool) (bi fr : Nat) (hp : 1 ≤ F.p) (hbi : bi < 2 ^ F.e)
    (hfr : fr < 2 ^ (F.p - 1)) : packBits F sg bi fr < 2 ^ (F.e + F.p) := by
  have := encode_lt F.e (F.p - 1) (if sg then 1 else 0) bi fr (by split_ifs <;> omega) hbi hfr
  rwa [show F.e + (F.p - 1) + 1 = F.e + F.p by omega] at this

/-- a word of `E+P` bits is the packing of its fields -/
theorem pack_fields (F : Sem) (b : Nat) (hp : 1 ≤ F.p) (hb : b < 2 ^ (F.e + F.p)) :
    packBits F (bSign F b) (bBiased F b) (bFrac F b) = b := by
  have h := (bits_decompose_lt F.e (F.p - 1) b
    (by rwa [show F.e + (F.p - 1) + 1 = F.e + F.p by omega])).1
  unfold packBits
  rw [bSign_toNat]
  exact h.symm

end Arp
