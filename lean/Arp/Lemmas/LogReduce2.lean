import Arp.Lemmas.LogReduce
/-!
# Lemmas for the accuracy of `Float::log` — part 7: the recursion of `log_range_reduce`
-/
namespace Arp.LogErr
open Arp Arp.SpecRound Arp.Ln2 Finset

variable {G : Sem}

/-! ### error propagation through one doubling (pure real arithmetic) -/

/-- `R' ≈ log S`, `log S = ½ log Y ± d`: then `2R' ≈ log Y` with the invariant of the chain -/
theorem err_step {lY lS R' d τ τ' c K l : ℝ} (hd : 0 ≤ d) (hτ : 0 ≤ τ) (hτ' : τ' = τ + K * d)
    (hc : c = 2 + 2 * τ') (hK : 4 + 2 * τ + 2 * τ' ≤ K * l) (hK0 : 0 ≤ K)
    (hS : |lS - lY / 2| ≤ d) (hlY : l ≤ lY)
    (hinv : |R' - lS| ≤ τ' * lS - c * d ∨ |R' - lS| ≤ τ * lS) :
    |2 * R' - lY| ≤ τ' * lY - c * d := by
  obtain ⟨s1, s2⟩ := abs_le.mp hS
  have hτ'0 : 0 ≤ τ' := by rw [hτ']; positivity
  have P7 : τ' * lY = τ * lY + K * d * lY := by rw [hτ']; ring
  have P8 : c * d = 2 * d + 2 * τ' * d := by rw [hc]; ring
  have P5 : d * (4 + 2 * τ + 2 * τ') ≤ d * (K * l) := mul_le_mul_of_nonneg_left hK hd
  have P6 : d * (K * l) ≤ d * (K * lY) :=
    mul_le_mul_of_nonneg_left (mul_le_mul_of_nonneg_left hlY hK0) hd
  have hτd : 0 ≤ τ * d := mul_nonneg hτ hd
  have hτ'd : 0 ≤ τ' * d := mul_nonneg hτ'0 hd
  rcases hinv with h | h
  · obtain ⟨h1, h2⟩ := abs_le.mp h
    have P1 : τ' * lS ≤ τ' * (lY / 2 + d) := mul_le_mul_of_nonneg_left (by linarith) hτ'0
    have P2 : τ' * (lY / 2 - d) ≤ τ' * lS := mul_le_mul_of_nonneg_left (by linarith) hτ'0
    rw [abs_le]
    constructor <;> nlinarith
  · obtain ⟨h1, h2⟩ := abs_le.mp h
    have P1 : τ * lS ≤ τ * (lY / 2 + d) := mul_le_mul_of_nonneg_left (by linarith) hτ
    have P2 : τ * (lY / 2 - d) ≤ τ * lS := mul_le_mul_of_nonneg_left (by linarith) hτ
    rw [abs_le]
    constructor <;> nlinarith

/-- the reciprocal step: `R' ≈ log re`, `log re ≤ log(1/X) ≤ log re + d0` -/
theorem err_recip {lX lR R' d0 d τ τ' c K : ℝ} (hd : 0 ≤ d) (hd0 : d0 ≤ d) (hτ : 0 ≤ τ)
    (hτ' : τ' = τ + K * d) (hc : c = 2 + 2 * τ') (hK0 : 0 ≤ K) (hK : 1 ≤ K * lX) (hlR : lR ≤ lX)
    (hlX : lX ≤ lR + d0) (hinv : |R' - lR| ≤ τ' * lR - c * d ∨ |R' - lR| ≤ τ * lR) :
    |R' - lX| ≤ τ' * lX := by
  have hτ'0 : 0 ≤ τ' := by rw [hτ']; positivity
  have P7 : τ' * lX = τ * lX + K * d * lX := by rw [hτ']; ring
  have P8 : c * d = 2 * d + 2 * τ' * d := by rw [hc]; ring
  have hτ'd : 0 ≤ τ' * d := mul_nonneg hτ'0 hd
  have P9 : d * 1 ≤ d * (K * lX) := mul_le_mul_of_nonneg_left hK hd
  rcases hinv with h | h
  · obtain ⟨h1, h2⟩ := abs_le.mp h
    have P1 : τ' * lR ≤ τ' * lX := mul_le_mul_of_nonneg_left hlR hτ'0
    rw [abs_le]
    constructor <;> nlinarith
  · obtain ⟨h1, h2⟩ := abs_le.mp h
    have P1 : τ * lR ≤ τ * lX := mul_le_mul_of_nonneg_left hlR hτ
    rw [abs_le]
    constructor <;> nlinarith

end Arp.LogErr

/-! ### the recursion for arguments above one -/

namespace Arp.LogErr
open Arp Arp.SpecRound Arp.Ln2 Finset

variable {G : Sem}

theorem logRangeReduce_succ (fuel : ℕ) (x : Flt) : logRangeReduce (fuel + 1) x =
    if x.gt ((fromF64 f64_1_001).cast x.sem) then
      (match x.sqrtM with
       | none => none
       | some sx => (logRangeReduce fuel sx).map (·.scale 1 .nte))
    else if x.lt (fromU64 x.sem 1) then
      (if x.gt ((fromF64 f64_0_999).cast x.sem) then some (logTaylor x)
       else (logRangeReduce fuel (divWithRm (fromU64 x.sem 1) x .none)).map (·.neg))
    else some (logTaylor x) := rfl

theorem one_SV (hG : G.WF) : SV G false (fromU64 G 1) 1 := by
  rw [ln2_fromU64_one hG]; exact SV.of_NN (one_NN hG)

/-- `log(up) ≥ lam` -/
theorem lam_le_log {U : ℚ} (hU : 131203 / 131072 ≤ U) : lam ≤ Real.log (U:ℝ) := by
  have h1 : ((131203 / 131072 : ℚ) : ℝ) ≤ (U:ℝ) := castle hU
  push_cast at h1
  have h2 : Real.log (131203 / 131072 : ℝ) ≤ Real.log (U:ℝ) := Real.log_le_log (by norm_num) h1
  have h3 := log_eq_At (show (0:ℝ) < 131203 / 131072 by norm_num)
  have h4 : ((131203 / 131072 : ℝ) - 1) / (131203 / 131072 + 1) = 131 / 262275 := by norm_num
  rw [h4] at h3
  have h5 := le_At (show (0:ℝ) ≤ 131 / 262275 by norm_num) (by norm_num)
  unfold lam
  linarith

/-- the Taylor branch for `1 < Y ≤ up` -/
theorem taylor_branch (C : TCtx G) {U : ℚ} (hU : SV G false ((fromF64 f64_1_001).cast G) U)
    (hU2 : U ≤ 131204 / 131072) {y : Flt} {Y : ℚ} (hy : SV G false y Y) (hY1 : 1 < Y)
    (hYU : Y ≤ U) (fuel : ℕ) :
    ∃ (r : Flt) (R : ℚ), logRangeReduce (fuel + 1) y = some r ∧ SV G false r R ∧
      (2:ℚ) ^ (-(G.p:ℤ) - 1) ≤ R ∧
      |(R:ℝ) - Real.log (Y:ℝ)| ≤ (tau G : ℝ) * Real.log (Y:ℝ) := by
  have hG := C.wf
  have hgt : y.gt ((fromF64 f64_1_001).cast G) = false := by
    rw [← Bool.not_eq_true, SV.gt_iff hG hy hU]; exact not_lt.mpr hYU
  have hlt : y.lt (fromU64 G 1) = false := by
    rw [← Bool.not_eq_true, SV.lt_iff hG hy (one_SV hG)]; exact not_lt.mpr (le_of_lt hY1)
  rw [logRangeReduce_succ, hy.sem, hgt, hlt]
  simp only [Bool.false_eq_true, if_false]
  obtain ⟨r, h1, h2, _, h4⟩ := logTaylor_accuracy C hy (by linarith) (by linarith) (ne_of_gt hY1)
  rw [decide_eq_false (not_lt.mpr (le_of_lt hY1))] at h1
  have hYr : (1:ℝ) < (Y:ℝ) := by exact_mod_cast hY1
  have hpos : 0 < Real.log (Y:ℝ) := Real.log_pos hYr
  rw [abs_of_pos hpos] at h4
  exact ⟨_, r, rfl, h1, h2, h4⟩

/-- **the recursion above one**: with `log Y ≤ 2^j·mu + 2·dd` the reduction returns after at most
    `j` square roots, and the result `R` satisfies the error invariant of the chain -/
theorem reduce_ge_one (C : TCtx G) {M : ℕ} (hM : M + G.p + 22 ≤ innerFuel)
    (hMe : 2 * (M:ℚ) ≤ (2:ℚ) ^ G.emax) {U : ℚ}
    (hU : SV G false ((fromF64 f64_1_001).cast G) U) (hU1 : 131203 / 131072 ≤ U)
    (hU2 : U ≤ 131204 / 131072) :
    ∀ (j : ℕ) (y : Flt) (Y : ℚ), SV G false y Y → 1 < Y → Y < (2:ℚ) ^ M →
      Real.log (Y:ℝ) ≤ 2 ^ j * mu G + 2 * dd G →
      ∃ (r : Flt) (R : ℚ), logRangeReduce (j + 1) y = some r ∧ SV G false r R ∧
        (2:ℚ) ^ (-(G.p:ℤ) - 1) ≤ R ∧
        (U < Y → |(R:ℝ) - Real.log (Y:ℝ)| ≤ tauP G * Real.log (Y:ℝ) - cc G * dd G) ∧
        (Y ≤ U → |(R:ℝ) - Real.log (Y:ℝ)| ≤ (tau G : ℝ) * Real.log (Y:ℝ)) := by
  have hG := C.wf
  obtain ⟨hd0, hd1, htP, hKl, hmu⟩ := C.consts
  have hlamU := lam_le_log hU1
  have hu0 := RelErr.u_pos G
  have hu1 := C.u_le
  have hτ0 := tau_nonneg G
  intro j
  induction j with
  | zero =>
    intro y Y hy hY1 hYM hdep
    by_cases hYU : U < Y
    · exfalso
      have hUr : (0:ℝ) < (U:ℝ) := by
        have : (0:ℚ) < U := by linarith
        exact_mod_cast this
      have : Real.log (U:ℝ) < Real.log (Y:ℝ) := Real.log_lt_log hUr (by exact_mod_cast hYU)
      unfold mu at hdep
      simp only [pow_zero, one_mul] at hdep
      linarith
    · obtain ⟨r, R, e1, e2, e3, e4⟩ := taylor_branch C hU hU2 hy hY1 (not_lt.mp hYU) 0
      exact ⟨r, R, e1, e2, e3, fun h => absurd h hYU, fun _ => e4⟩
  | succ j ih =>
    intro y Y hy hY1 hYM hdep
    by_cases hYU : U < Y
    · -- one square root
      have hgt : y.gt ((fromF64 f64_1_001).cast G) = true := (SV.gt_iff hG hy hU).mpr hYU
      obtain ⟨sx, S, hsq, hsx, hS0, b1, b2⟩ := sqrt_step C hy (le_of_lt hY1) hYM hM
      rw [logRangeReduce_succ, hy.sem, hgt]
      simp only [if_true]
      rw [hsq]
      simp only []
      -- the root is above one and not above the argument
      have hY0 : 0 < Y := by linarith
      have hS1 : 1 < S := by
        by_contra hc
        have hc := not_lt.mp hc
        have h1 : S * (1 + RelErr.u G) ≤ 1 * (1 + RelErr.u G) :=
          mul_le_mul_of_nonneg_right hc (by linarith)
        have h2 : (S * (1 + RelErr.u G)) ^ 2 ≤ (1 * (1 + RelErr.u G)) ^ 2 :=
          pow_le_pow_left₀ (by positivity) h1 2
        nlinarith
      have hSY : S ≤ Y := by
        by_contra hc
        have hc := not_le.mp hc
        have h12 : 0 < 1 - 2 * RelErr.u G := by linarith
        have h1 : Y * (1 - 2 * RelErr.u G) < S * (1 - 2 * RelErr.u G) :=
          mul_lt_mul_of_pos_right hc h12
        have h2 : (Y * (1 - 2 * RelErr.u G)) ^ 2 < (S * (1 - 2 * RelErr.u G)) ^ 2 :=
          pow_lt_pow_left₀ h1 (by positivity) (by norm_num)
        have h3 : Y ≤ (Y * (1 - 2 * RelErr.u G)) ^ 2 := by
          have : 1 ≤ Y * (1 - 2 * RelErr.u G) ^ 2 := by nlinarith
          nlinarith
        linarith
      -- logarithms
      have hYr : (0:ℝ) < (Y:ℝ) := by exact_mod_cast hY0
      have hSr : (0:ℝ) < (S:ℝ) := by exact_mod_cast hS0
      have hlog := sqrt_log_err (u := (RelErr.u G : ℝ)) hYr hSr (by exact_mod_cast hu0)
        (by have := castle hu1; push_cast at this; exact this)
        (by have := (Rat.cast_lt (K := ℝ)).mpr b1; push_cast at this; exact this)
        (by have := castle b2; push_cast at this; exact this)
      have hdd : 2 * (RelErr.u G : ℝ) / (1 - 2 * (RelErr.u G : ℝ)) = dd G := rfl
      rw [hdd] at hlog
      obtain ⟨l1, l2⟩ := abs_le.mp hlog
      have hdepS : Real.log (S:ℝ) ≤ 2 ^ j * mu G + 2 * dd G := by
        rw [pow_succ] at hdep; linarith
      obtain ⟨r', R', e1, e2, e3, e4, e5⟩ := ih sx S hsx hS1 (lt_of_le_of_lt hSY hYM) hdepS
      rw [e1]
      simp only [Option.map_some]
      -- the doubling is exact
      have hlS0 : 0 < Real.log (S:ℝ) := Real.log_pos (by exact_mod_cast hS1)
      have hRle : |(R':ℝ) - Real.log (S:ℝ)| ≤ tauP G * Real.log (S:ℝ) := by
        have hcd : 0 ≤ cc G * dd G := by
          unfold cc; have : 0 ≤ tauP G := by unfold tauP KK; positivity
          positivity
        by_cases hSU : U < S
        · have := e4 hSU; linarith
        · have := e5 (not_lt.mp hSU)
          have : (tau G : ℝ) * Real.log (S:ℝ) ≤ tauP G * Real.log (S:ℝ) :=
            mul_le_mul_of_nonneg_right (by unfold tauP KK; nlinarith) (le_of_lt hlS0)
          linarith
      have hlSM : Real.log (S:ℝ) ≤ (M:ℝ) := by
        have hlt : (S:ℝ) ≤ (2:ℝ) ^ M := by
          have := castle (le_of_lt (lt_of_le_of_lt hSY hYM)); push_cast at this; exact this
        have h1 := Real.log_le_log hSr hlt
        rw [Real.log_pow] at h1
        have h2 : Real.log 2 ≤ 1 := by
          have := Real.log_le_sub_one_of_pos (show (0:ℝ) < 2 by norm_num); linarith
        have hM0 : (0:ℝ) ≤ (M:ℝ) := Nat.cast_nonneg M
        nlinarith
      have hR'M : (R':ℝ) < 2 * (M:ℝ) := by
        obtain ⟨_, q2⟩ := abs_le.mp hRle
        nlinarith
      have hR'hi : R' < (2:ℚ) ^ G.emax := by
        have : (R':ℝ) < ((2 * (M:ℚ) : ℚ) : ℝ) := by push_cast; exact hR'M
        have := (Rat.cast_lt (K := ℝ)).mp this
        linarith
      have hemin : G.emin ≤ -(G.p:ℤ) - 1 := by have := C.lo; have := C.p22; omega
      have hR'n : (2:ℚ) ^ G.emin ≤ R' := le_trans (zpow_le_zpow_right₀ (by norm_num) hemin) e3
      have hres := SV.scale_two hG .nte e2 hR'n hR'hi
      have h2R : (2:ℚ) ^ (-(G.p:ℤ) - 1) ≤ 2 * R' := by
        have : (0:ℚ) < (2:ℚ) ^ (-(G.p:ℤ) - 1) := by positivity
        linarith
      refine ⟨_, 2 * R', rfl, hres, h2R, ?_, fun h => absurd hYU (not_lt.mpr h)⟩
      intro _
      have hUr : (0:ℝ) < (U:ℝ) := by
        have : (0:ℚ) < U := by linarith
        exact_mod_cast this
      have hlY : lam ≤ Real.log (Y:ℝ) := by
        have : Real.log (U:ℝ) < Real.log (Y:ℝ) := Real.log_lt_log hUr (by exact_mod_cast hYU)
        linarith
      have hinv : |(R':ℝ) - Real.log (S:ℝ)| ≤ tauP G * Real.log (S:ℝ) - cc G * dd G ∨
          |(R':ℝ) - Real.log (S:ℝ)| ≤ (tau G : ℝ) * Real.log (S:ℝ) := by
        by_cases hSU : U < S
        · exact Or.inl (e4 hSU)
        · exact Or.inr (e5 (not_lt.mp hSU))
      have key := err_step (K := KK) (l := lam) (le_of_lt hd0) hτ0 rfl rfl hKl (by unfold KK; norm_num)
        hlog hlY hinv
      have e : ((2 * R' : ℚ) : ℝ) = 2 * (R':ℝ) := by push_cast; ring
      rw [e]; exact key
    · obtain ⟨r, R, e1, e2, e3, e4⟩ := taylor_branch C hU hU2 hy hY1 (not_lt.mp hYU) (j + 1)
      exact ⟨r, R, e1, e2, e3, fun h => absurd h hYU, fun _ => e4⟩

end Arp.LogErr
