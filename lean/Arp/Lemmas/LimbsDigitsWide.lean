import Arp.Lemmas.LimbsDigits
import Mathlib.Tactic.NormNum
import Mathlib.Tactic.IntervalCases
/-! # Limb model: `to_digits::<10>` never fails up to 104 335 words

`Arp/Lemmas/LimbsDigits.lean` proves the statement up to 5000 words with the invariant
`val num < 10^(num_digits + 48)` and crude constants.  Here the slack is `65` — the largest
uniform slack for which the first split of a 6-word number (`k = 32`, `2^320 > 10^96`) cannot
underflow — and the digit budget `⌊len·64·59/196⌋` is compared with the true digit count through
the upper convergent `4004/13301` of `log10 2` (`2^13301 < 10^4004`). -/
namespace Arp.Limbs

/-! ### a sharp power-of-two versus power-of-ten estimate -/

/-- if `2^q ≤ 10^p` then `2^m ≤ 10^(⌊m·p/q⌋ + 1)` for every `m` -/
theorem two_pow_le_ten_pow_of_ratio {p q : Nat} (hq : 0 < q) (hpq : 2 ^ q ≤ 10 ^ p) (m : Nat) :
    2 ^ m ≤ 10 ^ (m * p / q + 1) := by
  have h1 : m * p < q * (m * p / q + 1) := Nat.lt_mul_div_succ _ hq
  have h2 : (2 ^ m) ^ p ≤ (10 ^ (m * p / q + 1)) ^ p := by
    calc (2 ^ m) ^ p = 2 ^ (m * p) := by rw [← Nat.pow_mul]
      _ ≤ 2 ^ (q * (m * p / q + 1)) := Nat.pow_le_pow_right (by omega) (by omega)
      _ = (2 ^ q) ^ (m * p / q + 1) := by rw [Nat.pow_mul]
      _ ≤ (10 ^ p) ^ (m * p / q + 1) := Nat.pow_le_pow_left hpq _
      _ = (10 ^ (m * p / q + 1)) ^ p := by rw [← Nat.pow_mul, ← Nat.pow_mul, Nat.mul_comm]
  by_cases hp : p = 0
  · subst hp
    have : 2 ^ q ≤ 1 := by simpa using hpq
    have : 2 ^ 1 ≤ 2 ^ q := Nat.pow_le_pow_right (by omega) (by omega)
    omega
  · exact (Nat.pow_le_pow_iff_left hp).mp h2

/-- `4004/13301` is an upper convergent of `log10 2` (`4004/13301 − log10 2 ≈ 2·10⁻⁹`) -/
theorem two_pow_13301 : (2 : Nat) ^ 13301 ≤ 10 ^ 4004 := by decide +kernel

theorem two_pow_le_ten_pow (m : Nat) : 2 ^ m ≤ 10 ^ (m * 4004 / 13301 + 1) :=
  two_pow_le_ten_pow_of_ratio (by omega) two_pow_13301 m

/-- `2^(64·len) ≤ 10^(⌊len·64·59/196⌋ + 65)` for `len ≤ 104335`: the budget of `to_digits` falls
behind the true digit count by at most 65 digits.  (False for `len = 104336`, where the number of
digits of `2^(64·len)` is `⌊len·64·59/196⌋ + 66`.) -/
theorem budget_bound_wide {len : Nat} (h : len ≤ 104335) :
    B ^ len ≤ 10 ^ (len * 64 * 59 / 196 + 65) := by
  rw [B_pow_eq]
  refine Nat.le_trans (two_pow_le_ten_pow (64 * len)) (Nat.pow_le_pow_right (by omega) ?_)
  by_cases hl : len ≤ 104313
  · omega
  · have h1 : 104314 ≤ len := by omega
    interval_cases len <;> norm_num

/-! ### the recursion with slack 65 -/

theorem toDigitsImpl_ok10_wide (L : Nat) (hL : L < 2 ^ 50) (fuel : Nat) :
    ∀ (num : List Nat) (n : Nat) (out : List Nat), WF num → Tight num → num.length < fuel →
    num.length ≤ L → val num < 10 ^ (n + 65) →
    (toDigitsImpl 10 fuel num n out).2.2 = true := by
  induction fuel with
  | zero => intro num n out _ _ h; omega
  | succ fuel ih =>
    intro num n out hw ht hfuel hlen hv
    simp only [toDigitsImpl]
    split
    · rename_i hbig
      rw [bitLen_ten]
      have hdpw : 64 / 4 = 16 := by norm_num
      rw [hdpw]
      set half := num.length / 2 - 1 with hhalf
      have hh2 : 2 ≤ half := by omega
      have hk8 : 16 * half ≤ 8 * num.length - 16 := by omega
      -- the mega digit
      have hbw : WF (fromU64 10) := WF_singleton (by rw [B_eq]; omega)
      have hbv : val (fromU64 10) = 10 := by simp [fromU64]
      obtain ⟨p1, p2⟩ := powi_val hbw (16 * half) (by simp [fromU64]; omega)
      rw [hbv] at p1
      have hmpos : 0 < 10 ^ (16 * half) := Nat.pow_pos (by omega)
      have hmnz : val (powi (fromU64 10) (16 * half)) ≠ 0 := by rw [p1]; omega
      -- num is normalised, hence at least B^(len-1)
      have hlow := tight_lower ht (by omega)
      have hup := val_lt hw
      -- k ≤ n, from `10^3 < 2^10`
      have hkn : 16 * half ≤ n := by
        have h10 : ((10 : Nat) ^ (n + 65)) ^ 3 ≤ 2 ^ (10 * (n + 65)) := by
          rw [← Nat.pow_mul, Nat.mul_comm (n + 65) 3, Nat.pow_mul, Nat.pow_mul]
          exact Nat.pow_le_pow_left (by norm_num) _
        rw [B_pow_eq] at hlow
        have hlt1 : 2 ^ (64 * (num.length - 1)) < 10 ^ (n + 65) := by omega
        have hlt3 : (2 ^ (64 * (num.length - 1))) ^ 3 < (10 ^ (n + 65)) ^ 3 :=
          Nat.pow_lt_pow_left hlt1 (by omega)
        rw [← Nat.pow_mul] at hlt3
        have hlt : 2 ^ (64 * (num.length - 1) * 3) < 2 ^ (10 * (n + 65)) := by omega
        have := (Nat.pow_lt_pow_iff_right (by omega)).mp hlt
        omega
      -- mega ≤ num
      have hmega_le_B : 10 ^ (16 * half) ≤ B ^ half := by
        rw [Nat.pow_mul]
        exact Nat.pow_le_pow_left (by rw [B_eq]; norm_num) _
      have hBle : B ^ half ≤ B ^ (num.length - 1) := Nat.pow_le_pow_right B_pos (by omega)
      have hge : val (powi (fromU64 10) (16 * half)) ≤ val num := by rw [p1]; omega
      obtain ⟨d1, d2, d3, d4⟩ := divRem_val hw p2 hmnz
      rw [p1] at d1 d2
      have tq := tight_divRem_fst num (powi (fromU64 10) (16 * half))
      have tr := tight_divRem_snd hw p2 hmnz hge
      -- lengths
      have hrlt : val (divRem num (powi (fromU64 10) (16 * half))).2 < B ^ half := by
        rw [d2]; exact Nat.lt_of_lt_of_le (Nat.mod_lt _ hmpos) hmega_le_B
      have lr := tr half hrlt
      have hBmega : B ≤ 10 ^ (16 * half) := by
        have : (10 : Nat) ^ (16 * 2) ≤ 10 ^ (16 * half) := Nat.pow_le_pow_right (by omega) (by omega)
        rw [B_eq]; norm_num at this ⊢; omega
      have hqlt : val (divRem num (powi (fromU64 10) (16 * half))).1 < B ^ (num.length - 1) := by
        rw [d1]
        have h1 : val num / 10 ^ (16 * half) ≤ val num / B := Nat.div_le_div_left hBmega B_pos
        have h2 : val num / B < B ^ (num.length - 1) := by
          rw [Nat.div_lt_iff_lt_mul B_pos, ← Nat.pow_succ]
          have : (num.length - 1).succ = num.length := by omega
          rw [this]; exact hup
        omega
      have lq := tq (num.length - 1) hqlt
      -- the two recursive calls
      have ok1 := ih _ (16 * half) out d4 tr (by omega) (by omega)
        (by rw [d2]
            exact Nat.lt_of_lt_of_le (Nat.mod_lt _ hmpos) (Nat.pow_le_pow_right (by omega) (by omega)))
      have ok2 := ih _ (n - 16 * half)
        (toDigitsImpl 10 fuel (divRem num (powi (fromU64 10) (16 * half))).2 (16 * half) out).2.1
        d3 tq (by omega) (by omega)
        (by rw [d1, Nat.div_lt_iff_lt_mul hmpos, ← Nat.pow_add]
            have : n - 16 * half + 65 + 16 * half = n + 65 := by omega
            rw [this]; exact hv)
      simp only [ok1, ok2, Bool.true_and, decide_eq_true_eq]
      exact hkn
    · rfl

/-- `to_digits::<10>` neither panics nor diverges on any number of at most 104 335 words
(6.68 Mbit, 2.01 million decimal digits): this covers every integer that a format with 21 (or 22,
or 23) exponent bits can hold (`2^(2^20)` needs 16 385 words, `2^(2^22)` needs 65 537). -/
theorem toDigitsOk_ten_wide {a : List Nat} (ha : WF a) (hlen : a.length ≤ 104335) :
    toDigitsOk 10 a = true := by
  unfold toDigitsOk toDigitsAux
  simp only
  have hsl := length_shrink_le a
  have hw := shrink_WF ha
  have ht := tight_shrink a
  have hvl := val_lt hw
  by_cases hsmall : (shrink a).length ≤ 5
  · apply toDigitsLoop_ok_small baseOk_ten _ _ _ hw hsmall
    rw [B_pow_eq] at hvl
    exact Nat.lt_of_lt_of_le hvl (Nat.pow_le_pow_right (by omega) (by omega))
  · simp only [toDigitsLoop]
    split
    · have hbud := budget_bound_wide (len := (shrink a).length) (by omega)
      have hok := toDigitsImpl_ok10_wide 104335 (by norm_num) ((shrink a).length + 1) (shrink a)
        ((shrink a).length * 64 * 59 / 196) [] hw ht (by omega) (by omega) (by omega)
      obtain ⟨_, s2, s3, s4⟩ := toDigitsImpl_spec baseOk_ten 104335 (by omega) (by norm_num) _
        (shrink a) _ [] hw (by omega) hok
      have t1 := tight_toDigitsImpl 10 ((shrink a).length + 1) (shrink a)
        ((shrink a).length * 64 * 59 / 196) [] ht
      rw [hok]
      have hv65 : val (toDigitsImpl 10 ((shrink a).length + 1) (shrink a)
          ((shrink a).length * 64 * 59 / 196) []).1 < 10 ^ 65 := by
        rw [s2, Nat.div_lt_iff_lt_mul (Nat.pow_pos (by omega)), ← Nat.pow_add, Nat.add_comm]
        omega
      have h65 : (10 : Nat) ^ 65 < B ^ 4 := by rw [B_eq]; norm_num
      have hl4 := t1 4 (by omega)
      apply toDigitsLoop_ok_small baseOk_ten _ _ _ s3 (by omega)
      have h256 : (10 : Nat) ^ 65 < 2 ^ 256 := by norm_num
      have : (2 : Nat) ^ 256 ≤ 2 ^ (64 * (shrink a).length) :=
        Nat.pow_le_pow_right (by omega) (by omega)
      omega
    · rfl

/-- unconditional correctness of `to_digits::<10>` up to 104 335 words -/
theorem toDigits_ten_val_wide {a : List Nat} (ha : WF a) (hlen : a.length ≤ 104335) :
    toDigits 10 a = (Nat.digits 10 (val a)).reverse :=
  toDigits_val baseOk_ten ha (by omega) (toDigitsOk_ten_wide ha hlen)

/-- the bound of `budget_bound_wide` is sharp: `2^(64·104336)` has `⌊104336·64·59/196⌋ + 66`
digits, so slack 65 (the largest that protects a 6-word quotient) stops here -/
theorem budget_bound_wide_sharp :
    ¬ (B ^ 104336 ≤ 10 ^ (104336 * 64 * 59 / 196 + 65)) := by decide +kernel

/-! ### the predicted failure beyond the bound, as a theorem

`underflowCert v₀ K n lens` follows the chain of *high* halves of `to_digits_impl::<10>` on plain
numbers.  The current number is `v₀ / 10^K` (the digits peeled off so far are `K`), `n` is what is
left of the digit budget, and `lens` lists the word counts along the chain (a certificate, checked
by `B^(len-1) ≤ v < B^len`; `Nat.log2` is avoided because the kernel does not accelerate it).  The split of a `len`-word number peels `k = 16·(len/2-1)` digits
off; the run panics (`num_digits - k` underflows) as soon as `k` exceeds the budget left. -/

/-- value-level trace of the high-half chain: `true` only if `num_digits - k` underflows on it -/
def underflowCert (v0 : Nat) : Nat → Nat → List Nat → Bool
  | _, _, [] => false
  | K, n, len :: ls =>
    decide (B ^ (len - 1) ≤ v0 / 10 ^ K) && decide (v0 / 10 ^ K < B ^ len) && decide (5 < len) &&
      (decide (n < 16 * (len / 2 - 1)) ||
        underflowCert v0 (K + 16 * (len / 2 - 1)) (n - 16 * (len / 2 - 1)) ls)

/-- a well-formed tight list with `B^(len-1) ≤ val < B^len` has exactly `len` words -/
theorem length_of_tight {l : List Nat} (hw : WF l) (ht : Tight l) {len : Nat} (h5 : 5 < len)
    (hlo : B ^ (len - 1) ≤ val l) (hhi : val l < B ^ len) : l.length = len := by
  have h1 := ht len hhi
  have hup := val_lt hw
  by_contra hne
  have : B ^ l.length ≤ B ^ (len - 1) := Nat.pow_le_pow_right B_pos (by omega)
  omega

theorem toDigitsImpl_underflow (v0 : Nat) (L : Nat) (hL2 : 2 ≤ L) (hL : L < 2 ^ 50)
    (ls : List Nat) :
    ∀ (fuel : Nat) (num : List Nat) (K n : Nat) (out : List Nat), WF num → Tight num →
    num.length ≤ L → val num = v0 / 10 ^ K → underflowCert v0 K n ls = true →
    (toDigitsImpl 10 fuel num n out).2.2 = false := by
  induction ls with
  | nil => intro fuel num K n out _ _ _ _ h; simp [underflowCert] at h
  | cons len ls ih =>
    intro fuel num K n out hw ht hlen hval h
    cases fuel with
    | zero => simp [toDigitsImpl]
    | succ fuel =>
      simp only [underflowCert, Bool.and_eq_true, Bool.or_eq_true, decide_eq_true_eq] at h
      obtain ⟨⟨⟨e1, e2⟩, h5⟩, h⟩ := h
      rw [← hval] at e1 e2
      have hl := length_of_tight hw ht h5 e1 e2
      simp only [toDigitsImpl]
      rw [if_pos (by omega), bitLen_ten]
      have hdpw : 64 / 4 = 16 := by norm_num
      rw [hdpw, hl]
      rcases h with hlt | h
      · rw [decide_eq_false (by omega)]
        simp
      · have hbw : WF (fromU64 10) := WF_singleton (by rw [B_eq]; omega)
        have hbv : val (fromU64 10) = 10 := by simp [fromU64]
        obtain ⟨p1, p2⟩ := powi_val hbw (16 * (len / 2 - 1)) (by simp [fromU64]; omega)
        rw [hbv] at p1
        have hmnz : val (powi (fromU64 10) (16 * (len / 2 - 1))) ≠ 0 := by
          rw [p1]; exact Nat.ne_of_gt (Nat.pow_pos (by omega))
        obtain ⟨d1, _, d3, _⟩ := divRem_val hw p2 hmnz
        obtain ⟨l1, _⟩ := length_divRem hw p2 hmnz
        rw [p1, hval, Nat.div_div_eq_div_mul, ← Nat.pow_add] at d1
        have := ih fuel _ _ _
          (toDigitsImpl 10 fuel (divRem num (powi (fromU64 10) (16 * (len / 2 - 1)))).2
            (16 * (len / 2 - 1)) out).2.1 d3 (tight_divRem_fst _ _) (by omega) d1 h
        rw [this]
        simp

/-- if the value-level trace underflows, `to_digits::<10>` panics (the flag is `false`) -/
theorem toDigitsOk_ten_false {a : List Nat} (ha : WF a) (hlen : a.length < 2 ^ 50)
    (len : Nat) (ls : List Nat)
    (h : underflowCert (val a) 0 (len * 64 * 59 / 196) (len :: ls) = true) :
    toDigitsOk 10 a = false := by
  unfold toDigitsOk toDigitsAux
  simp only
  have hsl := length_shrink_le a
  have hw := shrink_WF ha
  have ht := tight_shrink a
  have h' := h
  simp only [underflowCert, Bool.and_eq_true, decide_eq_true_eq, Nat.pow_zero, Nat.div_one] at h'
  obtain ⟨⟨⟨e1, e2⟩, h5⟩, _⟩ := h'
  have hl : (shrink a).length = len :=
    length_of_tight hw ht h5 (by rw [val_shrink]; exact e1) (by rw [val_shrink]; exact e2)
  have hv0 : val a ≠ 0 := Nat.ne_of_gt (Nat.lt_of_lt_of_le (Nat.pow_pos B_pos) e1)
  simp only [toDigitsLoop]
  split
  · rw [hl]
    have := toDigitsImpl_underflow (val a) (max 2 a.length) (by omega) (by omega) (len :: ls)
      (len + 1) (shrink a) 0 (len * 64 * 59 / 196) [] hw ht (by omega)
      (by rw [val_shrink]; simp) h
    rw [this]
    simp only [Bool.and_false]
    exact toDigitsLoop_false _ _ _ _
  · rename_i hz
    have : val (shrink a) = 0 := by
      apply (isZero_iff _).mp
      simpa using hz
    rw [val_shrink] at this
    exact absurd this hv0

theorem WF_replicate_ones (n : Nat) : WF (List.replicate n (B - 1)) := by
  intro w hw; rw [List.eq_of_mem_replicate hw]; have := B_pos; omega

theorem val_replicate_ones (n : Nat) : val (List.replicate n (B - 1)) = B ^ n - 1 := by
  induction n with
  | zero => simp
  | succ n ih =>
    rw [List.replicate_succ, val_cons, ih, Nat.pow_succ]
    have hp : 0 < B ^ n := Nat.pow_pos B_pos
    have hB := B_pos
    have : B * (B ^ n - 1) = B ^ n * B - B := by
      rw [Nat.mul_sub, Nat.mul_one, Nat.mul_comm]
    have : B * 1 ≤ B ^ n * B := by rw [Nat.mul_comm (B ^ n)]; exact Nat.mul_le_mul_left _ hp
    omega

theorem underflowCert_160000 :
    underflowCert (B ^ 160000 - 1) 0 (160000 * 64 * 59 / 196)
      [160000, 93563, 54713, 31995, 18711, 10942, 6400, 3743, 2190, 1281, 751, 440, 258, 152, 90,
        53, 32, 20, 12, 8, 6] = true := by decide +kernel

/-- **the predicted failure is real (in the model):** on the all-ones number of 160 000 words
(`2^10240000 − 1`, 3.08 million digits) `to_digits::<10>` underflows `num_digits - k`
(in the 6-word quotient at depth 20 of the chain of high halves). -/
theorem toDigitsOk_ten_allOnes_160000 :
    toDigitsOk 10 (List.replicate 160000 (B - 1)) = false := by
  apply toDigitsOk_ten_false (WF_replicate_ones _) (by rw [List.length_replicate]; norm_num) 160000 _
  rw [val_replicate_ones]; exact underflowCert_160000

theorem underflowCert_117676 :
    underflowCert (B ^ 117676 - 1) 0 (117676 * 64 * 59 / 196)
      [117676, 68813, 40241, 23532, 13762, 8048, 4707, 2754, 1611, 943, 553, 324, 191, 113, 67,
        40, 25, 15, 10, 7, 6] = true := by decide +kernel

/-- … and already on the all-ones number of 117 676 words: the unconditional statement
`toDigitsOk_ten_wide` cannot be extended to 117 676 words. -/
theorem toDigitsOk_ten_allOnes_117676 :
    toDigitsOk 10 (List.replicate 117676 (B - 1)) = false := by
  apply toDigitsOk_ten_false (WF_replicate_ones _) (by rw [List.length_replicate]; norm_num) 117676 _
  rw [val_replicate_ones]; exact underflowCert_117676

end Arp.Limbs
