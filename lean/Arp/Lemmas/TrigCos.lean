import Arp.Lemmas.TrigSin
/-!
# `cos` for `|x| < 1`: the Taylor stage and the double-angle steps (property C17)

* `cosTaylor_acc`: `cos_taylor` on an argument `≤ 1/16`: absolute error `(2F+1)·u` in general and
  `(Js+3)·u` when the `Js`-th term of the series is already below `u/64` (the loop has stopped);
* `cos_level`: one step `c ↦ 2c² − 1` (one `powi 2`, one exact scaling, one truncated
  subtraction): absolute error `e ↦ 4e + 2e² + 7u`;
* `cosStep4_acc`: `k` steps: `e_k + 3u ≤ (4 + 1/256)^k·(e_0 + 3u)`.
-/
namespace Arp.TrigErr
open Arp Arp.SpecRound Arp.RelErr Arp.Ln2 Arp.Sqrt

variable {W : Sem}

theorem SCtx.max16 {lo : ℚ} (S : SCtx W lo) : 16 ≤ maxFinite W := by
  have hp : 1 ≤ W.p := by have := S.wf.2; omega
  have h1 := pow_emax_le_maxFinite (F := W) hp
  have h2 : (2:ℚ) ^ (4:ℤ) ≤ (2:ℚ) ^ W.emax :=
    zpow_le_zpow_right₀ (by norm_num) (by have := S.pemax; have := S.p24; omega)
  norm_num at h2; linarith

theorem SCtx.emin_le {lo : ℚ} (S : SCtx W lo) : (2:ℚ) ^ W.emin ≤ 1/4 := by
  have hW := S.wf
  have h1 : W.emin + W.emax = 1 := Sqrt.emin_add_emax hW
  have h2 : (2:ℚ) ^ W.emin ≤ (2:ℚ) ^ (-2:ℤ) :=
    zpow_le_zpow_right₀ (by norm_num) (by have := S.pemax; have := S.p24; omega)
  norm_num at h2; linarith

/-- `x.sqr` for a positive `x ≤ 2` whose square is in the normal range -/
theorem sqr_posN {lo : ℚ} (S : SCtx W lo) {x : Flt} (hx : PosN W x) (hX2 : x.mag ≤ 2)
    (hlo : (2:ℚ) ^ (W.emin + 8) ≤ x.mag ^ 2) :
    PosN W x.sqr ∧ (1 - u W) * x.mag ^ 2 ≤ x.sqr.mag ∧ x.sqr.mag ≤ (1 + u W) * x.mag ^ 2 := by
  have hW := S.wf
  have hFx : x.sem.WF := by rw [hx.sem]; exact hW
  have hX0 := hx.mag_pos
  have hu0 := RelErr.u_pos W
  have hu23 := S.u_le
  have hu8 : u W ≤ 1/8 := by norm_num at hu23 ⊢; linarith
  have h16 := S.max16
  have hD : powiD x.sem = u W / 8 := by rw [hx.sem]; exact powiD_eq_u W
  have hU : powiU x.sem.p x.sem.rm = u W / 2 := by rw [hx.sem]; exact powiU_near S.rm
  have hXn0 : 0 < x.mag ^ 2 := pow_pos hX0 2
  have hXn4 : x.mag ^ 2 ≤ 4 := by nlinarith
  have hXnX : x.mag ^ 2 ≤ 2 * x.mag := by nlinarith
  have hemin8 := zpow_emin8 W
  have hpe : (0:ℚ) < (2:ℚ) ^ W.emin := by positivity
  have hemin : x.sem.emin = W.emin := by rw [hx.sem]
  have hmaxF : maxFinite x.sem = maxFinite W := by rw [hx.sem]
  have hOK : C18.PowiOK x.sem x.mag 2 := by
    apply C18.powiOK_of_endpoints x.sem hX0 (by norm_num)
    · rw [hemin, hD]
      norm_num
      nlinarith
    · rw [hemin, hD]
      norm_num
      nlinarith
    · rw [hmaxF, hD]
      norm_num
      nlinarith
    · rw [hmaxF, hD]
      norm_num
      nlinarith
  obtain ⟨c1, c2, c3, c4, _⟩ := C18.powi_main x 2 hFx hx.cat hx.can (by norm_num) (by norm_num) hOK
  obtain ⟨r1, r2⟩ := C18.powi_rel x 2 hFx hx.cat hx.can (by norm_num) (by norm_num) hOK
  rw [hU, hD] at r1 r2
  norm_num at r1 r2
  have hsgn : (x.powi 2).sign = false := by rw [c4, hx.sign]; rfl
  refine ⟨⟨c3.trans hx.sem, c2, c1, hsgn⟩, ?_, ?_⟩
  · have e : (1 - u W / 2) * ((1 - u W / 8) * x.mag ^ 2) - (1 - u W) * x.mag ^ 2
        = (u W * (3/8 + u W / 16)) * x.mag ^ 2 := by ring
    have : 0 ≤ (u W * (3/8 + u W / 16)) * x.mag ^ 2 :=
      mul_nonneg (mul_nonneg (le_of_lt hu0) (by linarith)) (le_of_lt hXn0)
    show (1 - u W) * x.mag ^ 2 ≤ (x.powi 2).mag
    linarith
  · have e : (1 + u W) * x.mag ^ 2 - (1 + u W / 2) * ((1 + u W / 8) * x.mag ^ 2)
        = (u W * (3/8 - u W / 16)) * x.mag ^ 2 := by ring
    have : 0 ≤ (u W * (3/8 - u W / 16)) * x.mag ^ 2 :=
      mul_nonneg (mul_nonneg (le_of_lt hu0) (by linarith)) (le_of_lt hXn0)
    show (x.powi 2).mag ≤ (1 + u W) * x.mag ^ 2
    linarith

/-- a truncating scaling by a power of two, in the normal range -/
theorem scale_nn (hW : W.WF) {x : Flt} (hx : PosN W x) (k : ℤ)
    (hlo : (2:ℚ) ^ W.emin ≤ x.mag * (2:ℚ) ^ k) (hle : x.mag * (2:ℚ) ^ k ≤ maxFinite W) :
    NN W (x.scale k .none) (rq W .none (x.mag * (2:ℚ) ^ k)) := by
  have hFx : x.sem.WF := by rw [hx.sem]; exact hW
  have hcan := scale_canonical x k .none hFx hx.can
  have hcor := C10.scale_correct x k .none hFx hx.can
  have hspec : Spec.scaleExact .none k x = Spec.round W .none false (x.mag * (2:ℚ) ^ k) := by
    simp only [Spec.scaleExact, hx.cat, hx.sign, hx.sem]
  rw [hspec] at hcor
  have hq : 0 < x.mag * (2:ℚ) ^ k := lt_of_lt_of_le (by positivity) hlo
  exact nn_of_rq hW (hcan.2.trans hx.sem) hcan.1 .none hq hle hcor

/-! ## the Taylor stage -/

theorem one_posN (hW : W.WF) : PosN W (Flt.one W false) ∧ (Flt.one W false).mag = 1 :=
  ⟨⟨rfl, Flt.one_canonical W false hW, rfl, rfl⟩, ln2_one_mag hW⟩

/-- **the Taylor stage of `cos`** on a positive argument `x ≤ 1/16` (not too small for the format):
    a positive number `≤ ` within `(2F+1)·u` of `cos x` (`F` the fuel), and within `(Js+3)·u` when
    the `Js`-th term of the series is below `u/64` -/
theorem cosTaylor_acc {lo : ℚ} (S : SCtx W lo) {x : Flt} (hx : PosN W x) (hlo : lo ≤ x.mag)
    (hhi : x.mag ≤ 1/16) :
    PosN W (cosTaylor x) ∧
      |(((cosTaylor x).mag : ℚ) : ℝ) - Real.cos ((x.mag : ℚ) : ℝ)| ≤
        (((2 * (Nat.max 50 W.p : ℕ) : ℚ) * u W : ℚ) : ℝ) ∧
      ∀ Js : ℕ, 1 ≤ Js → (x.mag ^ 2) ^ Js < u W / 64 →
        |(((cosTaylor x).mag : ℚ) : ℝ) - Real.cos ((x.mag : ℚ) : ℝ)| ≤
          ((((Js:ℚ) + 3) * u W : ℚ) : ℝ) := by
  have hW := S.wf
  have hX0 := hx.mag_pos
  have hu0 := RelErr.u_pos W
  have hX1 : x.mag ≤ 1 := by linarith
  have hlo3 : (2:ℚ) ^ (W.emin + 8) ≤ x.mag ^ 3 :=
    le_trans S.lo3 (pow_le_pow_left₀ (le_of_lt S.lo_pos) hlo 3)
  obtain ⟨hlo2, _⟩ := pow_emin_le_of_cube S hX0 hX1 hlo3
  have hlo1 : lo ≤ 1 := by linarith
  obtain ⟨hone, hone_mag⟩ := one_posN hW
  -- the context of the loop
  have C : LCtx W 1 (x.mag ^ 2) botC := {
    wf := hW, rm := S.rm, p24 := S.p24, pemax := S.pemax, X0pos := by norm_num,
    X0le := le_refl _, X0rep := by rw [← hone_mag]; exact hone.isRep,
    X0norm := by
      have h := S.emin_le
      rw [zpow_add_one₀ (by norm_num : (2:ℚ) ≠ 0)]; linarith
    y0 := by positivity,
    yle := by
      have : x.mag ^ 2 ≤ (1/16 : ℚ) ^ 2 := pow_le_pow_left₀ (le_of_lt hX0) hhi 2
      norm_num at this ⊢; linarith
    b0 := botC_zero, bstep := two_mul_botC_le,
    dsmall := by
      have := S.dl
      have h2 : u W * lo ≤ u W * 1 := mul_le_mul_of_nonneg_left hlo1 (le_of_lt hu0)
      linarith }
  -- the square
  obtain ⟨hsq, hsq1, hsq2⟩ := sqr_posN S hx (by linarith) hlo2
  have hx2 : NN W x.sqr (x.sqr.mag) := nn_of_posN hsq
  -- the loop
  set F := Nat.max 50 W.p - 1 with hF
  have hmax50 : 50 ≤ Nat.max 50 W.p := Nat.le_max_left _ _
  have hmaxp : W.p ≤ Nat.max 50 W.p := Nat.le_max_right _ _
  have hF1 : 1 ≤ F := by omega
  have hFp : W.p ≤ F + 1 := by omega
  have hFN : ((F:ℚ) + 1) * u W ≤ 1/1024 := by
    have := fuel_small S.p24
    have e : ((F:ℚ) + 1) = ((Nat.max 50 W.p : ℕ) : ℚ) := by
      have : F + 1 = Nat.max 50 W.p := by omega
      exact_mod_cast this
    rw [e]; exact this
  have hstp : ∀ j, botC (j + 1) = botC j * (fun i => (i * 2 - 1) * (i * 2)) (j + 1) := botC_succ
  have hone_nn : NN W (Flt.one W false) 1 := by rw [← hone_mag]; exact nn_of_posN hone
  obtain ⟨vr, hR, hvr, hErr⟩ := tay_total (stp := fun i => (i * 2 - 1) * (i * 2)) C hx2 hsq1 hsq2
    hstp hone_nn hF1 hFp hFN
  have hdef : cosTaylor x = tayLoop W x.sqr (fun i => (i * 2 - 1) * (i * 2)) F 1 false
      (Flt.one W false) 1 (Flt.zero W false) (Flt.one W true) := by
    unfold cosTaylor
    rw [cosTaylorLoop_eq, hx.sem]
  rw [hdef]
  have hvrpos : 0 < vr := by linarith
  obtain ⟨hP, hmag⟩ := posN_of_nn hR hvrpos
  refine ⟨hP, ?_⟩
  rw [hmag]
  -- the real series
  have hxr0 : (0:ℝ) ≤ ((x.mag : ℚ) : ℝ) := by exact_mod_cast le_of_lt hX0
  have hxr1 : ((x.mag : ℚ) : ℝ) ≤ 1 := by exact_mod_cast hX1
  have hS : ∀ n, |Real.cos ((x.mag : ℚ) : ℝ) - ((tpoly 1 (x.mag ^ 2) botC n : ℚ) : ℝ)|
      ≤ ((tterm 1 (x.mag ^ 2) botC n : ℚ) : ℝ) := by
    intro n
    rw [tpoly_cast, tterm_cast]
    push_cast
    exact cos_tpoly_bound hxr0 hxr1 n
  obtain ⟨h1, h2⟩ := hErr _ hS
  constructor
  · have hFq : 2 * (F:ℚ) + 1 ≤ 2 * ((Nat.max 50 W.p : ℕ) : ℚ) := by
      have : 2 * F + 1 ≤ 2 * Nat.max 50 W.p := by omega
      exact_mod_cast this
    have h3 : (2 * (F:ℚ) + 1) * (u W * 1) ≤ (2 * ((Nat.max 50 W.p : ℕ) : ℚ)) * u W := by
      rw [mul_one]; exact mul_le_mul_of_nonneg_right hFq (le_of_lt hu0)
    have h3' : (((2 * (F:ℚ) + 1) * (u W * 1) : ℚ) : ℝ) ≤
        (((2 * ((Nat.max 50 W.p : ℕ) : ℚ)) * u W : ℚ) : ℝ) := by exact_mod_cast h3
    linarith
  · intro Js hJs1 hsm
    have ht : tterm 1 (x.mag ^ 2) botC Js < u W * 1 / 64 := by
      unfold tterm
      rw [one_mul, mul_one]
      have hb : (1:ℚ) ≤ (botC Js : ℚ) := by exact_mod_cast botC_pos Js
      have hy0 : 0 ≤ (x.mag ^ 2) ^ Js := by positivity
      calc (x.mag ^ 2) ^ Js / (botC Js : ℚ) ≤ (x.mag ^ 2) ^ Js := div_le_self hy0 hb
        _ < u W / 64 := hsm
    have := h2 Js hJs1 ht
    rw [mul_one] at this
    exact this

/-! ## the double-angle steps -/

/-- bounds of the approximation `st ≈ cos xh`, `xh ≈ X/2 ≤ 1/2`, in `ℚ` -/
theorem cos_level_st {X xh st e u : ℚ} (hu0 : 0 < u) (hX0 : 0 < X) (hX1 : X ≤ 1)
    (he0 : 0 ≤ e) (he : e ≤ 1/512) (hq1 : (1 - u) * (X / 2) ≤ xh) (hq2 : xh ≤ X / 2)
    (hu : u ≤ 1/1024)
    (herr : |((st : ℚ) : ℝ) - Real.cos ((xh : ℚ) : ℝ)| ≤ ((e : ℚ) : ℝ)) :
    27/32 ≤ st ∧ st ≤ 65/64 ∧ 0 < xh ∧ 7/8 ≤ Real.cos ((xh : ℚ) : ℝ) ∧
      Real.cos ((xh : ℚ) : ℝ) ≤ 1 := by
  have huX : u * X ≤ 1/1024 * X := mul_le_mul_of_nonneg_right hu (le_of_lt hX0)
  have hxh0 : 0 < xh := by nlinarith
  have hxh_le : xh ≤ 1/2 := by linarith
  have hxr0 : (0:ℝ) ≤ ((xh : ℚ) : ℝ) := by exact_mod_cast le_of_lt hxh0
  have hxr1 : ((xh : ℚ) : ℝ) ≤ 1/2 := by
    have := (Rat.cast_le (K := ℝ)).mpr hxh_le
    push_cast at this; linarith
  have hc1 : 7/8 ≤ Real.cos ((xh : ℚ) : ℝ) := by
    have h := cos_lower ((xh : ℚ) : ℝ)
    have : ((xh : ℚ) : ℝ) ^ 2 ≤ 1/4 := by nlinarith
    linarith
  have hc2 := Real.cos_le_one ((xh : ℚ) : ℝ)
  have her : ((e : ℚ) : ℝ) ≤ 1/512 := by
    have := (Rat.cast_le (K := ℝ)).mpr he
    push_cast at this; linarith
  obtain ⟨a1, a2⟩ := abs_le.mp herr
  have h1 : (((27/32 : ℚ)) : ℝ) ≤ ((st : ℚ) : ℝ) := by push_cast; linarith
  have h2 : ((st : ℚ) : ℝ) ≤ (((65/64 : ℚ)) : ℝ) := by push_cast; linarith
  exact ⟨(Rat.cast_le (K := ℝ)).mp h1, (Rat.cast_le (K := ℝ)).mp h2, hxh0, hc1, hc2⟩

/-- the real-number core of one double-angle step -/
theorem cos_level_num {X xh st s2 b r e u : ℚ} (hu0 : 0 < u) (hu : u ≤ 1/1024) (hX0 : 0 < X)
    (hX1 : X ≤ 1) (he0 : 0 ≤ e) (he : e ≤ 1/512)
    (hq1 : (1 - u) * (X / 2) ≤ xh) (hq2 : xh ≤ X / 2)
    (herr : |((st : ℚ) : ℝ) - Real.cos ((xh : ℚ) : ℝ)| ≤ ((e : ℚ) : ℝ))
    (hs1 : (1 - u) * st ^ 2 ≤ s2) (hs2 : s2 ≤ (1 + u) * st ^ 2)
    (hb1 : (1 - u) * (s2 * 2) ≤ b) (hb2 : b ≤ s2 * 2)
    (hr1 : (1 - u) * (b - 1) ≤ r) (hr2 : r ≤ b - 1) :
    |((r : ℚ) : ℝ) - Real.cos ((X : ℚ) : ℝ)| ≤ ((4 * e + 2 * e ^ 2 + 7 * u : ℚ) : ℝ) := by
  obtain ⟨hst1, hst2, hxh0, hc1, hc2⟩ := cos_level_st hu0 hX0 hX1 he0 he hq1 hq2 hu herr
  have hst20 : 0 < st ^ 2 := by positivity
  have hst2lo : 45/64 ≤ st ^ 2 := by nlinarith
  have hust : 0 ≤ u * st ^ 2 := mul_nonneg (le_of_lt hu0) (le_of_lt hst20)
  have hust' : u * st ^ 2 ≤ 1/1024 * st ^ 2 := mul_le_mul_of_nonneg_right hu (le_of_lt hst20)
  have hs20 : 0 ≤ s2 := by linarith
  have hus2 : 0 ≤ u * s2 := mul_nonneg (le_of_lt hu0) hs20
  have hus2' : u * s2 ≤ 1/1024 * s2 := mul_le_mul_of_nonneg_right hu hs20
  have hb1' : 1 ≤ b - 1/4 := by linarith
  have hbm : 0 ≤ b - 1 := by linarith
  have hubm : 0 ≤ u * (b - 1) := mul_nonneg (le_of_lt hu0) hbm
  -- the three rounded operations in `ℝ`
  have hS2 : |((s2 : ℚ) : ℝ) - ((st : ℚ) : ℝ) ^ 2| ≤ ((u : ℚ) : ℝ) * ((st : ℚ) : ℝ) ^ 2 := by
    have : |s2 - st ^ 2| ≤ u * st ^ 2 := by rw [abs_le]; constructor <;> linarith
    exact_mod_cast this
  have hB : |((b : ℚ) : ℝ) - 2 * ((s2 : ℚ) : ℝ)| ≤ ((u : ℚ) : ℝ) * (2 * ((s2 : ℚ) : ℝ)) := by
    have : |b - 2 * s2| ≤ u * (2 * s2) := by rw [abs_le]; constructor <;> linarith
    exact_mod_cast this
  have hR : |((r : ℚ) : ℝ) - (((b : ℚ) : ℝ) - 1)| ≤ ((u : ℚ) : ℝ) * (((b : ℚ) : ℝ) - 1) := by
    have : |r - (b - 1)| ≤ u * (b - 1) := by rw [abs_le]; constructor <;> linarith
    exact_mod_cast this
  have her0 : (0:ℝ) ≤ ((e : ℚ) : ℝ) := by exact_mod_cast he0
  have her : ((e : ℚ) : ℝ) ≤ 1/64 := by
    have h : e ≤ 1/64 := by linarith
    have := (Rat.cast_le (K := ℝ)).mpr h
    push_cast at this; linarith
  have hur0 : (0:ℝ) < ((u : ℚ) : ℝ) := by exact_mod_cast hu0
  have hur : ((u : ℚ) : ℝ) ≤ 1/64 := by
    have h : u ≤ 1/64 := by linarith
    have := (Rat.cast_le (K := ℝ)).mpr h
    push_cast at this; linarith
  have hD := double_prop hc1 hc2 her0 her (le_of_lt hur0) hur herr hS2 hB hR
  rw [← Real.cos_two_mul] at hD
  -- the argument perturbation
  have hP := Real.abs_cos_sub_cos_le (2 * ((xh : ℚ) : ℝ)) ((X : ℚ) : ℝ)
  have hXr0 : (0:ℝ) < ((X : ℚ) : ℝ) := by exact_mod_cast hX0
  have hXr1 : ((X : ℚ) : ℝ) ≤ 1 := by exact_mod_cast hX1
  have h2x : |2 * ((xh : ℚ) : ℝ) - ((X : ℚ) : ℝ)| ≤ ((u : ℚ) : ℝ) := by
    have huX : u * X ≤ u * 1 := mul_le_mul_of_nonneg_left hX1 (le_of_lt hu0)
    have : |2 * xh - X| ≤ u := by rw [abs_le]; constructor <;> linarith
    exact_mod_cast this
  push_cast
  calc |((r : ℚ) : ℝ) - Real.cos ((X : ℚ) : ℝ)|
      = |(((r : ℚ) : ℝ) - Real.cos (2 * ((xh : ℚ) : ℝ))) +
          (Real.cos (2 * ((xh : ℚ) : ℝ)) - Real.cos ((X : ℚ) : ℝ))| := by ring_nf
    _ ≤ |((r : ℚ) : ℝ) - Real.cos (2 * ((xh : ℚ) : ℝ))| +
          |Real.cos (2 * ((xh : ℚ) : ℝ)) - Real.cos ((X : ℚ) : ℝ)| := abs_add_le _ _
    _ ≤ (4 * ((e : ℚ) : ℝ) + 2 * ((e : ℚ) : ℝ) ^ 2 + 6 * ((u : ℚ) : ℝ)) + ((u : ℚ) : ℝ) :=
        add_le_add hD (le_trans hP h2x)
    _ = 4 * ((e : ℚ) : ℝ) + 2 * ((e : ℚ) : ℝ) ^ 2 + 7 * ((u : ℚ) : ℝ) := by ring

/-- the halved argument of the next level -/
theorem cos_half {lo : ℚ} (S : SCtx W lo) {x : Flt} (hx : PosN W x) (hX1 : x.mag ≤ 1)
    (hXlo : (2:ℚ) ^ (W.emin + 8) ≤ x.mag ^ 3) :
    PosN W (x.scale (-1) .none) ∧ (1 - u W) * (x.mag / 2) ≤ (x.scale (-1) .none).mag ∧
      (x.scale (-1) .none).mag ≤ x.mag / 2 := by
  have hW := S.wf
  have hX0 := hx.mag_pos
  have h6 := S.six_le_max
  have hu23 := S.u_le
  obtain ⟨_, hXe⟩ := pow_emin_le_of_cube S hX0 hX1 hXlo
  rw [zpow_emin8] at hXe
  have hpe : (0:ℚ) < (2:ℚ) ^ W.emin := by positivity
  have e : x.mag * (2:ℚ) ^ (-1:ℤ) = x.mag / 2 := by rw [zpow_neg_one]; ring
  have hlo : (2:ℚ) ^ W.emin ≤ x.mag * (2:ℚ) ^ (-1:ℤ) := by rw [e]; linarith
  have hle : x.mag * (2:ℚ) ^ (-1:ℤ) ≤ maxFinite W := by rw [e]; linarith
  have hnn := scale_nn hW hx (-1) hlo hle
  obtain ⟨h1, h2⟩ := rq_none_spec hW hlo hle
  rw [e] at hnn h1 h2
  have hpos : 0 < rq W .none (x.mag / 2) := by
    have : 0 < (1 - u W) * (x.mag / 2) := mul_pos (by norm_num at hu23; linarith) (by linarith)
    linarith
  obtain ⟨hP, hm⟩ := posN_of_nn hnn hpos
  exact ⟨hP, by rw [hm]; exact h1, by rw [hm]; exact h2⟩

theorem cosStep4_succ (steps : ℕ) (x : Flt) :
    cosStep4 (steps + 1) x =
      subWithRm (((cosStep4 steps (x.scale (-1) .none)).sqr).scale 1 .none)
        (Flt.one x.sem false) .none := rfl

/-- **one double-angle step**: if `sx` approximates `cos x₂` (`x₂ = trunc(x/2)`) with absolute
    error `e ≤ 1/512`, then `2·sx² − 1` approximates `cos x` with absolute error
    `4e + 2e² + 7u` -/
theorem cos_level {lo : ℚ} (S : SCtx W lo) {x sx : Flt} {e : ℚ} (hx : PosN W x) (hX1 : x.mag ≤ 1)
    (hXlo : (2:ℚ) ^ (W.emin + 8) ≤ x.mag ^ 3) (he0 : 0 ≤ e) (he : e ≤ 1/512) (hsx : PosN W sx)
    (herr : |((sx.mag : ℚ) : ℝ) - Real.cos (((x.scale (-1) .none).mag : ℚ) : ℝ)| ≤ ((e : ℚ) : ℝ)) :
    PosN W (subWithRm ((sx.sqr).scale 1 .none) (Flt.one W false) .none) ∧
      |(((subWithRm ((sx.sqr).scale 1 .none) (Flt.one W false) .none).mag : ℚ) : ℝ)
          - Real.cos ((x.mag : ℚ) : ℝ)| ≤ ((4 * e + 2 * e ^ 2 + 7 * u W : ℚ) : ℝ) := by
  have hW := S.wf
  have hX0 := hx.mag_pos
  have h6 := S.six_le_max
  have hu23 := S.u_le
  have hu0 := RelErr.u_pos W
  have hu8 : u W ≤ 1/1024 := by norm_num at hu23 ⊢; linarith
  have hem := S.emin_le
  obtain ⟨hxh, hq1, hq2⟩ := cos_half S hx hX1 hXlo
  obtain ⟨hst1, hst2, hxh0, _, _⟩ := cos_level_st hu0 hX0 hX1 he0 he hq1 hq2 hu8 herr
  have hst0 : 0 < sx.mag := by linarith
  have hst20 : 0 < sx.mag ^ 2 := by positivity
  have hst2lo : 45/64 ≤ sx.mag ^ 2 := by nlinarith
  have hst2hi : sx.mag ^ 2 ≤ 17/16 := by nlinarith
  have hust' : u W * sx.mag ^ 2 ≤ 1/1024 * sx.mag ^ 2 :=
    mul_le_mul_of_nonneg_right hu8 (le_of_lt hst20)
  have hust0 : 0 ≤ u W * sx.mag ^ 2 := mul_nonneg (le_of_lt hu0) (le_of_lt hst20)
  -- the square
  have hlo2 : (2:ℚ) ^ (W.emin + 8) ≤ sx.mag ^ 2 := by
    have h1 : (2:ℚ) ^ (W.emin + 8) ≤ 1 := by
      have := pow_emin_le_of_cube S hX0 hX1 hXlo
      linarith [this.2]
    have h2 : (2:ℚ) ^ (W.emin + 8) ≤ x.mag ^ 3 := hXlo
    have h3 : x.mag ^ 3 ≤ 1 := pow_le_one₀ (le_of_lt hX0) hX1
    -- `2^(emin+8) ≤ 1/4·256 ...`: use `emin ≤ -26`
    have h4 : (2:ℚ) ^ (W.emin + 8) ≤ (2:ℚ) ^ (-1:ℤ) :=
      zpow_le_zpow_right₀ (by norm_num) (by
        have h1 : W.emin + W.emax = 1 := Sqrt.emin_add_emax hW
        have := S.pemax; have := S.p24; omega)
    norm_num at h4; linarith
  obtain ⟨hsq, hs1, hs2⟩ := sqr_posN S hsx (by linarith) hlo2
  have hs20 : 0 < sx.sqr.mag := hsq.mag_pos
  -- the doubling
  have e1 : sx.sqr.mag * (2:ℚ) ^ (1:ℤ) = sx.sqr.mag * 2 := by rw [zpow_one]
  have hb_lo : (2:ℚ) ^ W.emin ≤ sx.sqr.mag * (2:ℚ) ^ (1:ℤ) := by rw [e1]; linarith
  have hb_le : sx.sqr.mag * (2:ℚ) ^ (1:ℤ) ≤ maxFinite W := by rw [e1]; linarith
  have hbnn := scale_nn hW hsq 1 hb_lo hb_le
  obtain ⟨hb1, hb2⟩ := rq_none_spec hW hb_lo hb_le
  rw [e1] at hbnn hb1 hb2
  have hus2' : u W * sx.sqr.mag ≤ 1/1024 * sx.sqr.mag :=
    mul_le_mul_of_nonneg_right hu8 (le_of_lt hs20)
  -- the subtraction of one
  obtain ⟨hone, hone_mag⟩ := one_posN hW
  have hone_nn : NN W (Flt.one W false) 1 := by rw [← hone_mag]; exact nn_of_posN hone
  have hbm : 1/4 ≤ rq W .none (sx.sqr.mag * 2) - 1 := by linarith
  have hbm_le : rq W .none (sx.sqr.mag * 2) - 1 ≤ maxFinite W := by linarith
  have hbm_lo : (2:ℚ) ^ W.emin ≤ rq W .none (sx.sqr.mag * 2) - 1 := by linarith
  have hrnn := nn_sub hW .none hbnn hone_nn (by linarith) hbm_le
  obtain ⟨hr1, hr2⟩ := rq_none_spec hW hbm_lo hbm_le
  have hrpos : 0 < rq W .none (rq W .none (sx.sqr.mag * 2) - 1) := by
    have : 0 < (1 - u W) * (rq W .none (sx.sqr.mag * 2) - 1) :=
      mul_pos (by linarith) (by linarith)
    linarith
  obtain ⟨hP, hm⟩ := posN_of_nn hrnn hrpos
  refine ⟨hP, ?_⟩
  rw [hm]
  exact cos_level_num hu0 hu8 hX0 hX1 he0 he hq1 hq2 herr hs1 hs2 hb1 hb2 hr1 hr2

/-- growth factor of the absolute error per double-angle step (`4` plus the second-order term) -/
def Gc : ℚ := 4 + 1/256

/-- **`k` double-angle steps around the Taylor stage**, for any bound `E0` of the Taylor stage on
    arguments `≤ τ ≤ 1/16`: the error `e` of `cosStep4 steps x` satisfies
    `e + 3u ≤ (4 + 1/256)^steps·(E0 + 3u)` -/
theorem cosStep4_acc {lo : ℚ} (S : SCtx W lo) (K : ℕ) (E0 τ : ℚ) (hE0 : 0 ≤ E0)
    (hT : ∀ x : Flt, PosN W x → lo ≤ x.mag → x.mag ≤ τ →
      PosN W (cosTaylor x) ∧
        |(((cosTaylor x).mag : ℚ) : ℝ) - Real.cos ((x.mag : ℚ) : ℝ)| ≤ ((E0 : ℚ) : ℝ))
    (hK : Gc ^ K * (E0 + 3 * u W) ≤ 1/512) :
    ∀ (steps : ℕ) (x : Flt), steps ≤ K → PosN W x → x.mag ≤ 1 → x.mag ≤ 2 ^ steps * τ →
      lo * 4 ^ steps ≤ x.mag →
      PosN W (cosStep4 steps x) ∧
        |(((cosStep4 steps x).mag : ℚ) : ℝ) - Real.cos ((x.mag : ℚ) : ℝ)| + ((3 * u W : ℚ) : ℝ) ≤
          ((Gc ^ steps * (E0 + 3 * u W) : ℚ) : ℝ) := by
  have hu0 := RelErr.u_pos W
  have hG1 : (1:ℚ) ≤ Gc := by unfold Gc; norm_num
  have hG0 : (0:ℚ) ≤ Gc := by linarith
  have hf0 : 0 ≤ E0 + 3 * u W := by linarith
  intro steps
  induction steps with
  | zero =>
    intro x _ hx _ hτ hlo
    have h1 : x.mag ≤ τ := by simpa using hτ
    have h2 : lo ≤ x.mag := by simpa using hlo
    obtain ⟨hP, herr⟩ := hT x hx h2 h1
    refine ⟨by simpa [cosStep4] using hP, ?_⟩
    show |(((cosTaylor x).mag : ℚ) : ℝ) - _| + _ ≤ _
    push_cast at herr ⊢
    simp only [pow_zero, one_mul]
    linarith
  | succ s ih =>
    intro x hsK hx hX1 hτ hlo
    have hX0 := hx.mag_pos
    have hlopos := S.lo_pos
    have h4 : (1:ℚ) ≤ 4 ^ (s + 1) := one_le_pow₀ (by norm_num)
    have hlox : lo ≤ x.mag := by nlinarith
    have hXlo : (2:ℚ) ^ (W.emin + 8) ≤ x.mag ^ 3 :=
      le_trans S.lo3 (pow_le_pow_left₀ (le_of_lt hlopos) hlox 3)
    obtain ⟨hxh, hq1, hq2⟩ := cos_half S hx hX1 hXlo
    have hu23 := S.u_le
    have hu8 : u W ≤ 1/1024 := by norm_num at hu23 ⊢; linarith
    have huX : u W * x.mag ≤ 1/1024 * x.mag := mul_le_mul_of_nonneg_right hu8 (le_of_lt hX0)
    -- the induction hypothesis at `x/2`
    have hxh1 : (x.scale (-1) .none).mag ≤ 1 := by linarith
    have hxhτ : (x.scale (-1) .none).mag ≤ 2 ^ s * τ := by
      rw [pow_succ] at hτ; linarith
    have hxhlo : lo * 4 ^ s ≤ (x.scale (-1) .none).mag := by
      rw [pow_succ] at hlo
      have : x.mag / 4 ≤ (x.scale (-1) .none).mag := by linarith
      linarith
    obtain ⟨hsx, herr⟩ := ih _ (by omega) hxh hxh1 hxhτ hxhlo
    -- the error bound `e := Gc^s·(E0+3u) − 3u`
    set f := Gc ^ s * (E0 + 3 * u W) with hf
    have hfK : f ≤ 1/512 := by
      have h1 : Gc ^ s ≤ Gc ^ K := pow_le_pow_right₀ hG1 (by omega)
      exact le_trans (mul_le_mul_of_nonneg_right h1 hf0) hK
    have hfr : |(((cosStep4 s (x.scale (-1) .none)).mag : ℚ) : ℝ) -
        Real.cos (((x.scale (-1) .none).mag : ℚ) : ℝ)| ≤ ((f - 3 * u W : ℚ) : ℝ) := by
      push_cast at herr ⊢; linarith
    have he0 : 0 ≤ f - 3 * u W := by
      have h0 := abs_nonneg ((((cosStep4 s (x.scale (-1) .none)).mag : ℚ) : ℝ) -
        Real.cos (((x.scale (-1) .none).mag : ℚ) : ℝ))
      have : (0:ℝ) ≤ ((f - 3 * u W : ℚ) : ℝ) := le_trans h0 hfr
      exact_mod_cast this
    have he : f - 3 * u W ≤ 1/512 := by linarith
    obtain ⟨hP, hres⟩ := cos_level S hx hX1 hXlo he0 he hsx hfr
    rw [cosStep4_succ, hx.sem]
    refine ⟨hP, ?_⟩
    -- `4e + 2e² + 10u ≤ Gc·f`
    have hkey : 4 * (f - 3 * u W) + 2 * (f - 3 * u W) ^ 2 + 7 * u W + 3 * u W ≤ Gc ^ (s + 1) * (E0 + 3 * u W) := by
      have e1 : Gc ^ (s + 1) * (E0 + 3 * u W) = Gc * f := by rw [hf, pow_succ]; ring
      rw [e1]
      have h1 : (f - 3 * u W) ^ 2 ≤ (1/512) * f := by
        have : (f - 3 * u W) ^ 2 = (f - 3 * u W) * (f - 3 * u W) := by ring
        rw [this]
        exact mul_le_mul he (by linarith) he0 (by norm_num)
      unfold Gc
      linarith
    have hkey' : (((4 * (f - 3 * u W) + 2 * (f - 3 * u W) ^ 2 + 7 * u W : ℚ)) : ℝ) +
        ((3 * u W : ℚ) : ℝ) ≤ ((Gc ^ (s + 1) * (E0 + 3 * u W) : ℚ) : ℝ) := by
      exact_mod_cast hkey
    linarith

end Arp.TrigErr
