import Arp.Lemmas.LimbsDiv
/-! # Limb model: schoolbook and Karatsuba multiplication, powers -/
namespace Arp.Limbs

/-! ### schoolbook multiplication -/

/-- value of the zipped `parts`/`carries` vectors: `Σ parts[k]·B^k + Σ carries[k]·B^(k+1)` -/
def val2 : List (Nat × Nat) → Nat
  | [] => 0
  | pc :: r => pc.1 + B * pc.2 + B * val2 r

/-- all `parts` entries are `u64` -/
def PWF (pcs : List (Nat × Nat)) : Prop := ∀ pc ∈ pcs, pc.1 < B
/-- all `carries` entries are at most `K` -/
def CLe (K : Nat) (pcs : List (Nat × Nat)) : Prop := ∀ pc ∈ pcs, pc.2 ≤ K

@[simp] theorem PWF_nil : PWF [] := by intro pc h; cases h
@[simp] theorem PWF_cons {pc : Nat × Nat} {r : List (Nat × Nat)} :
    PWF (pc :: r) ↔ pc.1 < B ∧ PWF r := by unfold PWF; simp
@[simp] theorem CLe_nil {K : Nat} : CLe K [] := by intro pc h; cases h
@[simp] theorem CLe_cons {K : Nat} {pc : Nat × Nat} {r : List (Nat × Nat)} :
    CLe K (pc :: r) ↔ pc.2 ≤ K ∧ CLe K r := by unfold CLe; simp
theorem CLe_mono {K K' : Nat} (h : K ≤ K') {pcs : List (Nat × Nat)} (hc : CLe K pcs) : CLe K' pcs :=
  fun pc hpc => Nat.le_trans (hc pc hpc) h

theorem mul_lo_hi {x y : Nat} (hx : x < B) (hy : y < B) :
    (x * y) % B + B * ((x * y) / B) = x * y ∧ (x * y) % B < B ∧ (x * y) / B < B := by
  refine ⟨Nat.mod_add_div _ _, Nat.mod_lt _ B_pos, ?_⟩
  rw [Nat.div_lt_iff_lt_mul B_pos]
  exact Nat.mul_lt_mul'' hx hy

theorem mulRow_spec {pi : Nat} (hpi : pi < B) {rs : List Nat} (hrs : WF rs) (K : Nat)
    (p0 c0 : Nat) (rest : List (Nat × Nat)) (hp0 : p0 < B) (hc0 : c0 ≤ K + 1)
    (hP : PWF rest) (hC : CLe K rest) (hl : rs.length ≤ rest.length) :
    val2 (mulRow pi rs ((p0, c0) :: rest)) = val2 ((p0, c0) :: rest) + pi * val rs
    ∧ PWF (mulRow pi rs ((p0, c0) :: rest)) ∧ CLe (K + 2) (mulRow pi rs ((p0, c0) :: rest))
    ∧ (mulRow pi rs ((p0, c0) :: rest)).length = rest.length + 1 := by
  induction rs generalizing p0 c0 rest with
  | nil =>
    simp only [mulRow, val_nil, Nat.mul_zero, Nat.add_zero, PWF_cons, CLe_cons, List.length_cons,
      and_true, true_and]
    exact ⟨⟨hp0, hP⟩, by omega, CLe_mono (by omega) hC⟩
  | cons r rs ih =>
    rw [WF_cons] at hrs
    match rest, hl, hP, hC with
    | (p1, c1) :: rest, hl, hP, hC =>
      rw [PWF_cons] at hP
      rw [CLe_cons] at hC
      simp only at hP hC
      obtain ⟨m1, m2, m3⟩ := mul_lo_hi hpi hrs.1
      obtain ⟨a1, a2⟩ := oadd_spec (a := p0) (b := (pi * r) % B) (by omega)
      obtain ⟨b1, b2⟩ := oadd_spec (a := p1) (b := (pi * r) / B) (by omega)
      have ho0 := bool_toNat_le (oadd p0 ((pi * r) % B)).2
      have ho1 := bool_toNat_le (oadd p1 ((pi * r) / B)).2
      obtain ⟨i1, i2, i3, i4⟩ := ih hrs.2 (oadd p1 ((pi * r) / B)).1
        (c1 + (oadd p1 ((pi * r) / B)).2.toNat) rest b2 (by omega) hP.2 hC.2
        (by simpa using hl)
      simp only [mulRow, val2, PWF_cons, CLe_cons, List.length_cons, i1, i4, val_cons]
      refine ⟨?_, ⟨a2, i2⟩, ⟨by omega, i3⟩, trivial⟩
      have e : pi * (r + B * val rs) = pi * r + B * (pi * val rs) := by ring
      rw [e]
      generalize pi * r = X at *
      generalize pi * val rs = Y at *
      generalize val2 rest = R at *
      simp only [B_eq] at *
      omega

theorem mulRows_spec {as rhs : List Nat} (has : WF as) (hrs : WF rhs) (K : Nat)
    {pcs : List (Nat × Nat)} (hP : PWF pcs) (hC : CLe K pcs)
    (hl : as.length + rhs.length + 1 ≤ pcs.length) :
    val2 (mulRows as rhs pcs) = val2 pcs + val as * val rhs
    ∧ PWF (mulRows as rhs pcs) ∧ CLe (K + 2 * as.length) (mulRows as rhs pcs)
    ∧ (mulRows as rhs pcs).length = pcs.length := by
  induction as generalizing pcs K with
  | nil => simp [mulRows, hP, hC]
  | cons a as ih =>
    rw [WF_cons] at has
    match pcs, hl, hP, hC with
    | (p0, c0) :: rest, hl, hP, hC =>
      rw [PWF_cons] at hP
      rw [CLe_cons] at hC
      simp only [List.length_cons] at hl
      obtain ⟨r1, r2, r3, r4⟩ := mulRow_spec has.1 hrs K p0 c0 rest hP.1 (by have := hC.1; omega)
        hP.2 hC.2 (by omega)
      simp only [mulRows]
      match hrow : mulRow a rhs ((p0, c0) :: rest), r1, r2, r3, r4 with
      | pc :: rest', r1, r2, r3, r4 =>
        rw [PWF_cons] at r2
        rw [CLe_cons] at r3
        simp only [List.length_cons, Nat.add_right_cancel_iff] at r4
        obtain ⟨i1, i2, i3, i4⟩ := ih has.2 (K + 2) r2.2 r3.2 (by omega)
        simp only [val2, PWF_cons, CLe_cons, List.length_cons, i1, i4, r4, val_cons]
        refine ⟨?_, ⟨r2.1, i2⟩, ⟨by have := r3.1; omega, CLe_mono (by omega) i3⟩, trivial⟩
        simp only [val2] at r1
        have e : (a + B * val as) * val rhs = a * val rhs + B * (val as * val rhs) := by ring
        rw [e]
        generalize a * val rhs = X at *
        generalize val as * val rhs = Y at *
        generalize val2 rest = R at *
        generalize val2 rest' = R' at *
        simp only [B_eq] at *
        omega

theorem mulFinal_spec {pcs : List (Nat × Nat)} (hP : PWF pcs) (hC : ∀ pc ∈ pcs, pc.2 + 1 < B)
    (carry : Nat) (hcarry : carry < B) :
    val (mulFinal pcs carry).1 + B ^ pcs.length * (mulFinal pcs carry).2 = val2 pcs + carry
    ∧ WF (mulFinal pcs carry).1 ∧ (mulFinal pcs carry).1.length = pcs.length := by
  induction pcs generalizing carry with
  | nil => simp [mulFinal, val2]
  | cons pc rest ih =>
    obtain ⟨p, c⟩ := pc
    rw [PWF_cons] at hP
    have hc : c + 1 < B := hC (p, c) (by simp)
    have hp : p < B := hP.1
    obtain ⟨a1, a2⟩ := oadd_spec (a := p) (b := carry) (by omega)
    have ho := bool_toNat_le (oadd p carry).2
    obtain ⟨i1, i2, i3⟩ := ih hP.2 (fun pc h => hC pc (List.mem_cons_of_mem _ h))
      ((oadd p carry).2.toNat + c) (by omega)
    simp only [mulFinal, val_cons, WF_cons, List.length_cons, i3, val2]
    refine ⟨?_, ⟨a2, i2⟩, trivial⟩
    have e : B ^ (rest.length + 1) * (mulFinal rest ((oadd p carry).2.toNat + c)).2
        = B * (B ^ rest.length * (mulFinal rest ((oadd p carry).2.toNat + c)).2) := by
      rw [Nat.pow_succ]; ring
    rw [e]
    generalize B ^ rest.length * (mulFinal rest ((oadd p carry).2.toNat + c)).2 = Z at *
    generalize val2 rest = R at *
    simp only [B_eq] at *
    omega

theorem val2_replicate (n : Nat) : val2 (List.replicate n (0, 0)) = 0 := by
  induction n with
  | zero => rfl
  | succ n ih => simp [List.replicate_succ, val2, ih]

theorem mulAcc_spec {a b : List Nat} (ha : WF a) (hb : WF b) :
    val2 (mulAcc a b) = val a * val b ∧ PWF (mulAcc a b) ∧ CLe (2 * a.length) (mulAcc a b)
    ∧ (mulAcc a b).length = a.length + b.length + 1 := by
  unfold mulAcc
  have hP : PWF (List.replicate (a.length + b.length + 1) ((0 : Nat), (0 : Nat))) := by
    intro pc h; rw [List.eq_of_mem_replicate h]; exact B_pos
  have hC : CLe 0 (List.replicate (a.length + b.length + 1) ((0 : Nat), (0 : Nat))) := by
    intro pc h; rw [List.eq_of_mem_replicate h]
  obtain ⟨h1, h2, h3, h4⟩ := mulRows_spec ha hb 0 hP hC (by simp)
  rw [val2_replicate, Nat.zero_add] at h1
  rw [Nat.zero_add] at h3
  simp only [List.length_replicate] at h4
  exact ⟨h1, h2, h3, h4⟩

/-- `inplace_mul_slice` is exact multiplication; its final `assert!(carry == 0)` holds and the
`u64` carry counters do not overflow.  The length bound (`carries[k] ≤ 2·self.len()` must fit a
`u64`) is vacuous on any real machine. -/
theorem mulSlice_val {a b : List Nat} (ha : WF a) (hb : WF b) (hlen : a.length < 2 ^ 62) :
    val (mulSlice a b) = val a * val b ∧ WF (mulSlice a b) ∧ mulSliceOk a b = true := by
  obtain ⟨h1, h2, h3, h4⟩ := mulAcc_spec ha hb
  have hC : ∀ pc ∈ mulAcc a b, pc.2 + 1 < B := by
    intro pc hpc
    have := h3 pc hpc
    rw [B_eq]; omega
  obtain ⟨f1, f2, f3⟩ := mulFinal_spec h2 hC 0 B_pos
  rw [h1, h4, Nat.add_zero] at f1
  have hlt : val a * val b < B ^ (a.length + b.length + 1) := by
    have h5 := Nat.mul_lt_mul'' (val_lt ha) (val_lt hb)
    rw [← Nat.pow_add] at h5
    exact Nat.lt_of_lt_of_le h5 (Nat.pow_le_pow_right B_pos (by omega))
  have hfc : (mulFinal (mulAcc a b) 0).2 = 0 := by
    by_contra hne
    have : B ^ (a.length + b.length + 1) * 1 ≤
        B ^ (a.length + b.length + 1) * (mulFinal (mulAcc a b) 0).2 :=
      Nat.mul_le_mul_left _ (by omega)
    omega
  rw [hfc, Nat.mul_zero, Nat.add_zero] at f1
  refine ⟨by unfold mulSlice; rw [val_shrink]; exact f1, by unfold mulSlice; exact shrink_WF f2, ?_⟩
  unfold mulSliceOk
  rw [hfc]
  simp only [beq_self_eq_true, Bool.true_and, List.all_eq_true, decide_eq_true_eq]
  exact hC

theorem length_mulSlice_le (a b : List Nat) (ha : WF a) (hb : WF b) (hlen : a.length < 2 ^ 62) :
    (mulSlice a b).length ≤ a.length + b.length + 1 := by
  obtain ⟨_, h2, h3, h4⟩ := mulAcc_spec ha hb
  have hC : ∀ pc ∈ mulAcc a b, pc.2 + 1 < B := by
    intro pc hpc
    have := h3 pc hpc
    rw [B_eq]; omega
  obtain ⟨_, _, f3⟩ := mulFinal_spec h2 hC 0 B_pos
  unfold mulSlice
  have := length_shrink_le (mulFinal (mulAcc a b) 0).1
  omega

/-! ### lengths of shrunk results -/

theorem dropTop0_normal (l : List Nat) (h : dropTop0 l ≠ []) :
    B ^ ((dropTop0 l).length - 1) ≤ val (dropTop0 l) := by
  induction l with
  | nil => simp [dropTop0] at h
  | cons w ws ih =>
    simp only [dropTop0] at h ⊢
    split
    · rename_i hc; simp [hc] at h
    · rename_i hc
      by_cases hr : dropTop0 ws = []
      · simp only [hr, List.isEmpty_nil, Bool.true_and, beq_iff_eq] at hc
        simp [hr]; omega
      · have i1 := ih hr
        have hpos : 0 < (dropTop0 ws).length := List.length_pos_iff.mpr hr
        simp only [List.length_cons, Nat.add_sub_cancel, val_cons]
        have : B ^ (dropTop0 ws).length = B * B ^ ((dropTop0 ws).length - 1) := by
          rw [← Nat.pow_succ']; congr 1; omega
        rw [this]
        have := Nat.mul_le_mul_left B i1
        omega

theorem length_shrink_le_max {l : List Nat} {n : Nat} (h : val l < B ^ n) :
    (shrink l).length ≤ max 2 n := by
  unfold shrink
  split
  · rename_i a b rest
    by_cases hr : dropTop0 rest = []
    · simp [hr]
    · have h1 := dropTop0_normal rest hr
      simp only [val_cons, Nat.mul_add] at h
      rw [val_dropTop0] at h1
      have hpos : 0 < (dropTop0 rest).length := List.length_pos_iff.mpr hr
      -- B^(k+1) ≤ B·B·val rest ≤ val l < B^n
      have h2 : B ^ ((dropTop0 rest).length - 1 + 2) ≤ B * (B * val rest) := by
        rw [Nat.pow_add, Nat.mul_comm (B ^ _), show B ^ 2 = B * B from by ring, Nat.mul_assoc]
        exact Nat.mul_le_mul_left _ (Nat.mul_le_mul_left _ h1)
      have h3 : B ^ ((dropTop0 rest).length - 1 + 2) < B ^ n := by omega
      have := (Nat.pow_lt_pow_iff_right (by rw [B_eq]; omega)).mp h3
      simp only [List.length_cons]; omega
  · rename_i hne
    match l, hne with
    | [], _ => simp
    | [_], _ => simp
    | [_, _], _ => simp
    | a :: b :: c :: r, hne => exact absurd rfl (hne a b (c :: r))

theorem length_addSlice_le_max {x y : List Nat} {n : Nat}
    (hx : WF x) (hy : WF y) (h : val x + val y < B ^ n) : (addSlice x y).length ≤ max 2 n := by
  unfold addSlice
  apply length_shrink_le_max
  rw [(addLoop_spec (WF_grow hx y.length) hy (by simp) false).1]
  simpa using h

theorem length_mulSlice_le_max {a b : List Nat} (ha : WF a) (hb : WF b) (hlen : a.length < 2 ^ 62) :
    (mulSlice a b).length ≤ max 2 (a.length + b.length) := by
  have h1 := (mulSlice_val ha hb hlen).1
  unfold mulSlice at h1 ⊢
  apply length_shrink_le_max
  rw [val_shrink] at h1
  rw [h1, Nat.pow_add]
  exact Nat.mul_lt_mul'' (val_lt ha) (val_lt hb)

/-! ### Karatsuba -/

theorem val_split (l : List Nat) (mid : Nat) :
    val l = val (l.take (min mid l.length)) + B ^ mid * val (l.drop (min mid l.length)) := by
  by_cases h : mid ≤ l.length
  · rw [Nat.min_eq_left h]
    have := val_take_add_drop l mid
    rwa [Nat.min_eq_left h] at this
  · rw [Nat.min_eq_right (by omega), List.take_length, List.drop_length]; simp

theorem kara_algebra (A Bv C Dv P : Nat) :
    Bv * Dv * (P * P) + (A * Dv + Bv * C) * P + A * C = (A + P * Bv) * (C + P * Dv) := by ring


theorem mulKaratsubaF_spec (fuel : Nat) : ∀ (lhs rhs : List Nat), WF lhs → WF rhs →
    max lhs.length rhs.length < fuel → lhs.length + fuel ≤ 2 ^ 62 →
    val (mulKaratsubaF fuel lhs rhs) = val lhs * val rhs ∧ WF (mulKaratsubaF fuel lhs rhs)
    ∧ (mulKaratsubaF fuel lhs rhs).length ≤ max 2 (lhs.length + rhs.length) := by
  induction fuel with
  | zero => intro lhs rhs _ _ h; omega
  | succ fuel ih =>
    intro lhs rhs hl hr hfuel hlen
    simp only [mulKaratsubaF]
    split
    · split
      · rename_i _ he
        simp only [Bool.or_eq_true, List.isEmpty_iff] at he
        refine ⟨?_, by simp [zero, B_pos], by simp [zero]⟩
        rcases he with rfl | rfl <;> simp [zero]
      · obtain ⟨m1, m2, _⟩ := mulSlice_val hl hr (by omega)
        exact ⟨m1, m2, length_mulSlice_le_max hl hr (by omega)⟩
    · rename_i hbig
      have hll : 64 ≤ lhs.length := by omega
      have hrl : 64 ≤ rhs.length := by omega
      set mid := max lhs.length rhs.length / 2 with hmid
      set a := lhs.take (min mid lhs.length) with ha
      set b := lhs.drop (min mid lhs.length) with hb
      set c := rhs.take (min mid rhs.length) with hc
      set d := rhs.drop (min mid rhs.length) with hd
      have la : a.length = min mid lhs.length := by rw [ha, List.length_take]; omega
      have lb : b.length = lhs.length - min mid lhs.length := by rw [hb, List.length_drop]
      have lc : c.length = min mid rhs.length := by rw [hc, List.length_take]; omega
      have ld : d.length = rhs.length - min mid rhs.length := by rw [hd, List.length_drop]
      have wa : WF a := WF_take hl _
      have wb : WF b := WF_drop hl _
      have wc : WF c := WF_take hr _
      have wd : WF d := WF_drop hr _
      have hL := val_split lhs mid
      have hR := val_split rhs mid
      rw [← ha, ← hb] at hL
      rw [← hc, ← hd] at hR
      obtain ⟨ac1, ac2, _⟩ := ih a c wa wc (by omega) (by omega)
      obtain ⟨bd1, bd2, _⟩ := ih b d wb wd (by omega) (by omega)
      obtain ⟨ab1, ab2⟩ := addSlice_val wa wb
      obtain ⟨cd1, cd2⟩ := addSlice_val wc wd
      have lab := length_addSlice_le a b
      have lcd := length_addSlice_le c d
      obtain ⟨k1, k2, _⟩ := ih (addSlice a b) (addSlice c d) ab2 cd2 (by omega) (by omega)
      rw [ab1, cd1] at k1
      have hexp : (val a + val b) * (val c + val d)
          = val a * val c + val b * val d + (val a * val d + val b * val c) := by ring
      obtain ⟨s1, s2, s3, _⟩ := subSlice_val_z k2 ac2 0 (by simp)
      have hb1 : (subSlice (mulKaratsubaF fuel (addSlice a b) (addSlice c d))
          (mulKaratsubaF fuel a c) 0).2 = false := by
        rw [s2, decide_eq_false_iff_not, k1, ac1, hexp]; omega
      have s3 := s3 hb1
      rw [k1, ac1] at s3
      obtain ⟨t1, t2, t3, _⟩ := subSlice_val_z s1 bd2 0 (by simp)
      have hb2 : (subSlice (subSlice (mulKaratsubaF fuel (addSlice a b) (addSlice c d))
          (mulKaratsubaF fuel a c) 0).1 (mulKaratsubaF fuel b d) 0).2 = false := by
        rw [t2, decide_eq_false_iff_not, s3, bd1, hexp]; omega
      have t3 := t3 hb2
      rw [s3, bd1] at t3
      have t3' : val (subSlice (subSlice (mulKaratsubaF fuel (addSlice a b) (addSlice c d))
          (mulKaratsubaF fuel a c) 0).1 (mulKaratsubaF fuel b d) 0).1
          = val a * val d + val b * val c := by rw [t3, hexp]; omega
      obtain ⟨u1, u2⟩ := shiftLeft_val bd2 (64 * mid * 2)
      obtain ⟨v1, v2⟩ := shiftLeft_val t1 (64 * mid)
      obtain ⟨w1, w2⟩ := addSlice_val u2 v2
      obtain ⟨x1, x2⟩ := addSlice_val w2 ac2
      have e1 : 2 ^ (64 * mid) = B ^ mid := (B_pow_eq mid).symm
      have e2 : 2 ^ (64 * mid * 2) = B ^ mid * B ^ mid := by
        rw [← Nat.pow_add, B_pow_eq]; congr 1; omega
      have hval : val (shiftLeft (mulKaratsubaF fuel b d) (64 * mid * 2)) +
          val (shiftLeft (subSlice (subSlice (mulKaratsubaF fuel (addSlice a b) (addSlice c d))
            (mulKaratsubaF fuel a c) 0).1 (mulKaratsubaF fuel b d) 0).1 (64 * mid)) +
          val (mulKaratsubaF fuel a c) = val lhs * val rhs := by
        rw [u1, v1, t3', bd1, ac1, hL, hR, e1, e2]
        exact kara_algebra _ _ _ _ _
      refine ⟨by rw [x1, w1]; exact hval, x2, ?_⟩
      apply length_addSlice_le_max w2 ac2
      rw [w1, hval, Nat.pow_add]
      exact Nat.mul_lt_mul'' (val_lt hl) (val_lt hr)

/-- `mul_karatsuba` is exact multiplication (the recursion fuel `max len + 1` is never exhausted) -/
theorem mulKaratsuba_val {a b : List Nat} (ha : WF a) (hb : WF b)
    (hlen : a.length + b.length < 2 ^ 61) :
    val (mulKaratsuba a b) = val a * val b ∧ WF (mulKaratsuba a b)
    ∧ (mulKaratsuba a b).length ≤ max 2 (a.length + b.length) := by
  unfold mulKaratsuba
  exact mulKaratsubaF_spec _ a b ha hb (by omega) (by omega)

/-- `inplace_mul` (either path) is exact multiplication -/
theorem mul_val {a b : List Nat} (ha : WF a) (hb : WF b) (hlen : a.length + b.length < 2 ^ 61) :
    val (mul a b) = val a * val b ∧ WF (mul a b)
    ∧ (mul a b).length ≤ max 2 (a.length + b.length) := by
  unfold mul
  split
  · exact mulKaratsuba_val ha hb hlen
  · obtain ⟨m1, m2, _⟩ := mulSlice_val ha hb (by omega)
    exact ⟨m1, m2, length_mulSlice_le_max ha hb (by omega)⟩

/-! ### `powi` -/

theorem powiLoop_spec (fuel : Nat) : ∀ (v base : List Nat) (exp : Nat), WF v → WF base →
    exp < 2 ^ fuel → v.length + (base.length + 2) * (2 * exp) < 2 ^ 61 →
    val (powiLoop fuel v base exp) = val v * val base ^ exp ∧ WF (powiLoop fuel v base exp) := by
  induction fuel with
  | zero =>
    intro v base exp hv _ he _
    have : exp = 0 := by simpa using he
    subst this; simp [powiLoop, hv]
  | succ fuel ih =>
    intro v base exp hv hb he hlen
    simp only [powiLoop]
    have hexp : exp = 2 * (exp / 2) + exp % 2 := by omega
    have hmul : (base.length + 2) * (2 * exp) = 2 * ((base.length + 2) * exp) := by ring
    rw [hmul] at hlen
    have hge : exp ≠ 0 → base.length + 2 ≤ (base.length + 2) * exp := by
      intro h; exact Nat.le_mul_of_pos_right _ (by omega)
    -- the conditional multiplication `v *= base`
    have hv' : val (if exp % 2 = 1 then mul v base else v) = val v * val base ^ (exp % 2)
        ∧ WF (if exp % 2 = 1 then mul v base else v)
        ∧ (if exp % 2 = 1 then mul v base else v).length ≤ v.length + (base.length + 2) * (exp % 2) := by
      split
      · rename_i hodd
        have := hge (by omega)
        obtain ⟨m1, m2, m3⟩ := mul_val hv hb (by omega)
        rw [hodd]; simp only [Nat.pow_one, Nat.mul_one]
        exact ⟨m1, m2, by omega⟩
      · rename_i hev
        have : exp % 2 = 0 := by omega
        rw [this]; simp [hv]
    obtain ⟨w1, w2, w3⟩ := hv'
    split
    · rename_i h0
      have : exp = exp % 2 := by omega
      refine ⟨?_, w2⟩
      rw [w1]; congr 2; omega
    · rename_i h0
      have hlt : exp / 2 < 2 ^ fuel := by rw [Nat.pow_succ] at he; omega
      have h2 := hge (by omega)
      obtain ⟨b1, b2, b3⟩ := mul_val hb hb (by omega)
      have hq : (base.length + 2) * exp
          = 2 * ((base.length + 2) * (exp / 2)) + (base.length + 2) * (exp % 2) := by
        conv_lhs => rw [hexp]
        ring
      have hlen' : (if exp % 2 = 1 then mul v base else v).length
          + ((mul base base).length + 2) * (2 * (exp / 2)) < 2 ^ 61 := by
        have h3 : ((mul base base).length + 2) * (2 * (exp / 2))
            ≤ (2 * (base.length + 2)) * (2 * (exp / 2)) := Nat.mul_le_mul_right _ (by omega)
        have h4 : (2 * (base.length + 2)) * (2 * (exp / 2)) = 4 * ((base.length + 2) * (exp / 2)) := by
          ring
        omega
      obtain ⟨i1, i2⟩ := ih _ _ (exp / 2) w2 b2 hlt hlen'
      refine ⟨?_, i2⟩
      rw [i1, w1, b1, Nat.mul_assoc]
      congr 1
      conv_rhs => rw [hexp]
      rw [Nat.pow_add, Nat.pow_mul, Nat.mul_comm, Nat.pow_two]

/-- `powi` is exponentiation, as long as the result fits the (astronomic) length bound of `mul` -/
theorem powi_val {a : List Nat} (ha : WF a) (exp : Nat) (hlen : (a.length + 2) * exp < 2 ^ 59) :
    val (powi a exp) = val a ^ exp ∧ WF (powi a exp) := by
  unfold powi
  have he : exp < 2 ^ 64 := by
    have : 1 * exp ≤ (a.length + 2) * exp := Nat.mul_le_mul_right _ (by omega)
    omega
  have hmul : (a.length + 2) * (2 * exp) = 2 * ((a.length + 2) * exp) := by ring
  obtain ⟨h1, h2⟩ := powiLoop_spec 64 one a exp (by simp [one, B_eq]) ha he
    (by rw [hmul]; simp [one]; omega)
  refine ⟨?_, h2⟩
  rw [h1]; simp [one]

end Arp.Limbs
