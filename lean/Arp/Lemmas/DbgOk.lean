import Arp.Lemmas.AddSub
import Arp.Lemmas.MulDiv
import Arp.Lemmas.CastScale
import Arp.Lemmas.ToInt
import Arp.Lemmas.Bits
import Arp.Lemmas.Canonical
/-!
# Helper lemmas for C19 (debug build): no `debug_assert!` is reachable on canonical inputs

`Flt.normalizeDbgOk x loss` is the Boolean of the assertion `loss.is_exactly_zero()`
("losing information", float.rs:524) for the call `x.normalize(rm, loss)`.
-/
namespace Arp

/-! ### The "losing information" assertion of `normalize` -/

/-- Exact characterisation: the assertion is evaluated only for a normal value with a non-zero
    significand that does not overflow, whose leading bit is below the precision and whose
    exponent is above `emin` (so that `exp_change < 0`); then it demands a zero loss. -/
theorem normalizeDbgOk_iff (x : Flt) (loss : Loss) :
    x.normalizeDbgOk loss = true ↔
      (x.cat = .normal → x.mant ≠ 0 →
        x.exp + ((msb x.mant : Int) - x.sem.p) ≤ x.sem.emax →
        msb x.mant < x.sem.p → x.sem.emin < x.exp → loss = .zero) := by
  unfold Flt.normalizeDbgOk
  simp only
  by_cases hc : x.cat = .normal
  · rw [if_neg (not_not.mpr hc)]
    by_cases hm : x.mant = 0
    · have : ¬ ((msb x.mant : Int) > 0) := by rw [hm]; simp [msb]
      rw [if_neg this]
      simp [hm]
    · have hpos := msb_pos hm
      rw [if_pos (by exact_mod_cast hpos)]
      by_cases ho : x.exp + ((msb x.mant : Int) - x.sem.p) > x.sem.emax
      · rw [if_pos ho]
        constructor
        · intro _ _ _ h; omega
        · intro _; rfl
      · rw [if_neg ho]
        by_cases hu : x.exp + ((msb x.mant : Int) - x.sem.p) < x.sem.emin
        · rw [if_pos hu]
          by_cases he : x.sem.emin - x.exp < 0
          · rw [if_pos he]
            constructor
            · intro h _ _ _ _ _; simpa using h
            · intro h; simpa using h hc hm (by omega) (by omega) (by omega)
          · rw [if_neg he]
            constructor
            · intro _ _ _ _ _ h; omega
            · intro _; rfl
        · rw [if_neg hu]
          by_cases he : (msb x.mant : Int) - x.sem.p < 0
          · rw [if_pos he]
            constructor
            · intro h _ _ _ _ _; simpa using h
            · intro h; simpa using h hc hm (by omega) (by omega) (by omega)
          · rw [if_neg he]
            constructor
            · intro _ _ _ _ h; omega
            · intro _; rfl
  · rw [if_pos hc]
    constructor
    · intro _ h; exact absurd h hc
    · intro _; rfl

/-- The precondition `hpre` of `normalize_correct`/`normalize_denotes` implies the assertion. -/
theorem normalizeDbgOk_of_hpre (x : Flt) (loss : Loss)
    (h : msb x.mant < x.sem.p → x.sem.emin < x.exp → loss = .zero) :
    x.normalizeDbgOk loss = true :=
  (normalizeDbgOk_iff x loss).mpr (fun _ _ _ h1 h2 => h h1 h2)

/-- Converse, for the calls that are not diverted to `overflow()` or the early return. -/
theorem hpre_of_normalizeDbgOk (x : Flt) (loss : Loss) (hc : x.cat = .normal) (hm : x.mant ≠ 0)
    (ho : x.exp + ((msb x.mant : Int) - x.sem.p) ≤ x.sem.emax)
    (h : x.normalizeDbgOk loss = true) :
    msb x.mant < x.sem.p → x.sem.emin < x.exp → loss = .zero :=
  (normalizeDbgOk_iff x loss).mp h hc hm ho

/-- with a zero loss there is nothing to assert -/
theorem normalizeDbgOk_zero (x : Flt) : x.normalizeDbgOk .zero = true :=
  normalizeDbgOk_of_hpre x .zero (fun _ _ => rfl)

/-- a non-normal value returns before the assertion -/
theorem normalizeDbgOk_of_not_normal (x : Flt) (loss : Loss) (h : x.cat ≠ .normal) :
    x.normalizeDbgOk loss = true :=
  (normalizeDbgOk_iff x loss).mpr (fun hc => absurd hc h)

/-- the form in which every arithmetic kernel hands its result to `normalize` -/
theorem dbgOk_new (F : Sem) (sg : Bool) (e : Int) (m : Nat) (loss : Loss)
    (hpre : msb m < F.p → F.emin < e → loss = .zero) :
    (Flt.new F sg e m).normalizeDbgOk loss = true := by
  unfold Flt.new
  by_cases hm : m = 0
  · rw [if_pos hm]; exact normalizeDbgOk_of_not_normal _ _ (by simp [Flt.zero])
  · rw [if_neg hm]; exact normalizeDbgOk_of_hpre _ _ hpre

/-! ### `add_or_sub_normals` -/

/-- effective addition / subtraction of canonical normal operands, in the shape used by
    `addNormals_good`: the pair handed to `normalize` satisfies the assertion -/
theorem addNormals_dbgOk (F : Sem) (sa sb : Bool) (ea eb : Int) (A B : Nat) (hF : F.WF)
    (ha : Flt.Canonical ⟨F, sa, ea, A, .normal⟩) (hb : Flt.Canonical ⟨F, sb, eb, B, .normal⟩) :
    (addOrSubNormals ⟨F, sa, ea, A, .normal⟩ ⟨F, sb, eb, B, .normal⟩ false).1.normalizeDbgOk
      (addOrSubNormals ⟨F, sa, ea, A, .normal⟩ ⟨F, sb, eb, B, .normal⟩ false).2 = true := by
  obtain ⟨a1, a2, a3, a4, a5⟩ := (Flt.canonical_normal rfl).mp ha
  obtain ⟨b1, b2, b3, b4, b5⟩ := (Flt.canonical_normal rfl).mp hb
  simp only at a1 a2 a3 a4 a5 b1 b2 b3 b4 b5
  have hp : 1 ≤ F.p := by have := hF.2; omega
  by_cases hsg : sb = sa
  · subst hsg
    rcases lt_or_ge eb ea with h | h
    · obtain ⟨g, hg⟩ : ∃ g : Nat, ea = eb + g := ⟨(ea - eb).toNat, by omega⟩
      have hA : 2 ^ (F.p - 1) ≤ A := by omega
      rw [aos_add_gt F sb ea eb A B g hg (by omega)]
      refine dbgOk_new F sb ea _ _ ?_
      intro hm
      have := lt_msb_of_le (le_trans hA (Nat.le_add_right A (B >>> g)))
      omega
    · obtain ⟨g, hg⟩ : ∃ g : Nat, eb = ea + g := ⟨(eb - ea).toNat, by omega⟩
      rw [aos_add_le F sb ea eb A B g hg, Nat.add_comm]
      refine dbgOk_new F sb eb _ _ ?_
      intro hm hlt
      have hB : 2 ^ (F.p - 1) ≤ B := by omega
      have := lt_msb_of_le (le_trans hB (Nat.le_add_right B (A >>> g)))
      omega
  · have hsb : sb = !sa := by cases sa <;> cases sb <;> simp_all
    subst hsb
    rcases lt_trichotomy ea eb with h | h | h
    · obtain ⟨g, hg⟩ : ∃ g : Nat, eb = ea + g := ⟨(eb - ea).toNat, by omega⟩
      have hB : 2 ^ (F.p - 1) ≤ B := by omega
      obtain ⟨s1, s2, s3, s4⟩ := sub_bounds F.p B A g hp hB a4
      rw [aos_sub_lt F sa ea eb A B g hg (by omega) s1]
      refine dbgOk_new F (!sa) (eb - 1) _ _ ?_
      intro hm _
      rw [invert_eq_zero]
      by_contra hl
      have := lt_msb_of_le (s4 hl)
      omega
    · subst h
      rw [aos_sub_eq]
      split_ifs <;> exact normalizeDbgOk_zero _
    · obtain ⟨g, hg⟩ : ∃ g : Nat, ea = eb + g := ⟨(ea - eb).toNat, by omega⟩
      have hA : 2 ^ (F.p - 1) ≤ A := by omega
      obtain ⟨s1, s2, s3, s4⟩ := sub_bounds F.p A B g hp hA b4
      rw [aos_sub_gt F sa ea eb A B g hg (by omega) (by omega)]
      refine dbgOk_new F sa (ea - 1) _ _ ?_
      intro hm _
      rw [invert_eq_zero]
      by_contra hl
      have := lt_msb_of_le (s4 hl)
      omega

/-- `add_or_sub_normals` looks at the sign of `b` only through `subtract ^ (sa ^ sb)` -/
theorem aos_sub_eq_add_neg_dbg (a b : Flt) :
    addOrSubNormals a b true = addOrSubNormals a { b with sign := !b.sign } false := by
  obtain ⟨F, sa, ea, A, ca⟩ := a
  obtain ⟨Fb, sb, eb, B, cb⟩ := b
  have hx : (true ^^ (sa ^^ sb)) = (false ^^ (sa ^^ !sb)) := by cases sa <;> cases sb <;> rfl
  simp only [addOrSubNormals, hx, Flt.shiftSigRight, Flt.shiftSigLeft]
  split_ifs <;> rfl

/-- the `debug_assert!(a.get_exp() == b.get_exp())` of the addition branch (arithmetic.rs:86):
    after the alignment shift both exponents agree -/
theorem add_branch_exp_eq (a b : Flt) :
    (a.exp - b.exp > 0 → (b.shiftSigRight (a.exp - b.exp).toNat).1.exp = a.exp) ∧
    (¬ (a.exp - b.exp > 0) → (a.shiftSigRight (-(a.exp - b.exp)).toNat).1.exp = b.exp) := by
  unfold Flt.shiftSigRight
  simp only
  constructor <;> intro h <;> omega

/-! ### `mul_normals` -/

/-- no hypothesis at all is needed for products -/
theorem mulNormals_dbgOk (a b : Flt) (sg : Bool) :
    (mulNormals a b sg).1.normalizeDbgOk (mulNormals a b sg).2 = true := by
  unfold mulNormals
  simp only
  by_cases hgt : msb (a.mant * b.mant) > a.sem.p
  · rw [if_pos hgt]
    simp only
    refine dbgOk_new a.sem sg _ _ _ ?_
    intro h
    by_cases hp : a.sem.p = 0
    · omega
    · have := msb_shiftRight (m := a.mant * b.mant) (msb (a.mant * b.mant) - a.sem.p) (by omega)
      omega
  · rw [if_neg hgt]
    exact normalizeDbgOk_zero _

/-! ### `div_normals` -/

theorem divNormals_dbgOk (a b : Flt) (hp1 : 1 ≤ a.sem.p) (hs : b.sem = a.sem)
    (hma : a.mant ≠ 0) (hla : a.mant < 2 ^ a.sem.p)
    (hmb : b.mant ≠ 0) (hlb : b.mant < 2 ^ b.sem.p) :
    (divNormals a b).1.normalizeDbgOk (divNormals a b).2 = true := by
  obtain ⟨-, -, hAlo, hAhi, -⟩ := align_spec a hma hla
  obtain ⟨-, -, hBlo, hBhi, -⟩ := align_spec b hmb hlb
  rw [hs] at hBlo hBhi
  unfold divNormals
  simp only
  generalize a.alignMantissa = a1 at *
  generalize b.alignMantissa = b1 at *
  generalize hp : a.sem.p = p at *
  generalize hA : a1.mant = A at *
  generalize hB : b1.mant = B at *
  have hpw : 2 ^ p = 2 * 2 ^ (p - 1) := by
    obtain ⟨k, rfl⟩ : ∃ k, p = k + 1 := ⟨p - 1, by omega⟩
    rw [Nat.pow_succ]; simp; ring
  have hpos : 0 < 2 ^ (p - 1) := by positivity
  have hBpos : 0 < B := by omega
  obtain ⟨N, hN⟩ : ∃ N, N = (if A < B then A <<< 1 else A) := ⟨_, rfl⟩
  rw [← hN]
  have hN1 : B ≤ N ∧ N < 2 * B := by
    by_cases h : A < B
    · rw [if_pos h] at hN
      subst hN
      rw [Nat.shiftLeft_eq]
      exact ⟨by omega, by omega⟩
    · rw [if_neg h] at hN
      subst hN
      exact ⟨by omega, by omega⟩
  obtain ⟨hq1, hq2, -⟩ := div_quot p N B hBpos hN1.1 hN1.2 hp1
  refine dbgOk_new a.sem _ _ _ _ ?_
  intro h
  rw [hp] at h
  have : msb (N <<< (p - 1) / B) = (p - 1) + 1 :=
    msb_unique hq1 (by rwa [show p - 1 + 1 = p by omega])
  omega

/-! ### `check_bounds` after `overflow()` (float.rs:449-455) -/

/-- all three assertions of `check_bounds`, whatever `overflow()` produced (the largest finite
    value or an infinity, which has exponent 0 and a zero significand) -/
theorem overflow_check_bounds_all (x : Flt) (rm : RM) (hF : x.sem.WF) :
    (x.overflow rm).sem.emin ≤ (x.overflow rm).exp ∧
    (x.overflow rm).exp ≤ (x.overflow rm).sem.emax ∧
    (x.overflow rm).mant < 2 ^ (x.overflow rm).sem.p := by
  have hc := overflow_canonical x rm hF
  have hs := overflow_sem_cs x rm
  have h0 := Sem.emin_le_zero hF
  have h1 := Sem.emax_pos hF
  rw [hs]
  by_cases hn : (x.overflow rm).cat = .normal
  · obtain ⟨c1, c2, -, c4, -⟩ := (Flt.canonical_normal hn).mp hc
    rw [hs] at c1 c2 c4
    exact ⟨c1, c2, c4⟩
  · obtain ⟨c1, c2⟩ := (Flt.canonical_special hn).mp hc
    rw [c1, c2]
    exact ⟨h0, by omega, Nat.two_pow_pos _⟩

/-- `overflow()` yields the largest finite value or an infinity -/
theorem overflow_cat (x : Flt) (rm : RM) (hp : 1 ≤ x.sem.p) :
    (x.overflow rm).cat = .normal ∨ (x.overflow rm).cat = .inf := by
  have h2 : 2 ^ x.sem.p - 1 ≠ 0 := by
    have : 2 ^ 1 ≤ 2 ^ x.sem.p := Nat.pow_le_pow_right (by norm_num) hp
    omega
  unfold Flt.overflow Flt.new
  rw [if_neg h2]
  cases rm <;> cases x.sign <;> simp [Flt.inf]

/-- `BigInt::all1s(bits)` ends with `debug_assert_eq!(x.msb_index(), bits)` (bigint.rs:104);
    `overflow()` calls it with the precision -/
theorem all1s_msb_dbg (p : Nat) (hp : 1 ≤ p) : msb (2 ^ p - 1) = p := by
  obtain ⟨k, rfl⟩ : ∃ k, p = k + 1 := ⟨p - 1, by omega⟩
  have h1 : 1 ≤ 2 ^ k := Nat.one_le_two_pow
  have h2 : 2 ^ (k + 1) = 2 * 2 ^ k := by rw [Nat.pow_succ]; ring
  exact msb_unique (by omega) (by omega)

/-! ### `need_round_away_from_zero` asserts `is_normal() || is_zero()` (float.rs:475) -/

/-- Case analysis of `normalize`: early return, `overflow()`, the left shift, or Step II —
    and Step II (the only caller of `need_round_away_from_zero`) is entered on a value whose
    category is still `Normal`. -/
theorem normalize_stepII_normal (x : Flt) (rm : RM) (l : Loss) :
    (x.cat ≠ .normal ∧ x.normalize rm l = x) ∨
    (x.cat = .normal ∧
      (x.normalize rm l = x.overflow rm ∨
       (∃ k : Nat, x.normalize rm l = { x with exp := x.exp - k, mant := x.mant <<< k }) ∨
       (∃ (y : Flt) (l' : Loss), y.cat = .normal ∧ y.sem = x.sem ∧ y.sign = x.sign ∧
          x.normalize rm l = Flt.normalize.stepII rm y l'))) := by
  by_cases hc : x.cat = .normal
  · right
    refine ⟨hc, ?_⟩
    unfold Flt.normalize
    simp only
    rw [if_neg (not_not.mpr hc)]
    by_cases h1 : (msb x.mant : Int) > 0
    · rw [if_pos h1]
      by_cases h2 : x.exp + ((msb x.mant : Int) - x.sem.p) > x.sem.emax
      · rw [if_pos h2]; left; rfl
      · rw [if_neg h2]
        generalize (if x.exp + ((msb x.mant : Int) - x.sem.p) < x.sem.emin then x.sem.emin - x.exp
          else (msb x.mant : Int) - x.sem.p) = ec
        by_cases h3 : ec < 0
        · rw [if_pos h3]
          right; left
          refine ⟨ec.natAbs, ?_⟩
          congr 1
          omega
        · rw [if_neg h3]
          by_cases h4 : ec > 0
          · rw [if_pos h4]; right; right
            exact ⟨{ x with exp := x.exp + ec, mant := x.mant >>> ec.toNat }, _, hc, rfl, rfl, rfl⟩
          · rw [if_neg h4]; right; right; exact ⟨_, _, hc, rfl, rfl, rfl⟩
    · rw [if_neg h1]; right; right; exact ⟨_, _, hc, rfl, rfl, rfl⟩
  · left
    refine ⟨hc, ?_⟩
    unfold Flt.normalize
    rw [if_pos hc]

/-- the temporary `Float::new(sem, sign, 0, m)` of `convert_normal_to_integer` (and every other
    `Float::new`) is normal or zero -/
theorem new_normal_or_zero (s : Sem) (sg : Bool) (e : Int) (m : Nat) :
    (Flt.new s sg e m).cat = .normal ∨ (Flt.new s sg e m).cat = .zero := by
  unfold Flt.new
  split_ifs
  · right; rfl
  · left; rfl

/-! ### `as_native_float` (cast.rs:254-271) -/

/-- `debug_assert!(exp > 0)` on the biased exponent of a normal value -/
theorem biased_exp_pos (x : Flt) (hx : x.cat = .normal) (hc : x.Canonical) :
    0 < x.exp + x.sem.bias := by
  obtain ⟨c1, -, -, -, -⟩ := (Flt.canonical_normal hx).mp hc
  unfold Sem.emin at c1
  omega

/-- `get_mantissa().as_u64()`: the significand fits into one word -/
theorem mant_lt_two_pow_64 (x : Flt) (hx : x.cat = .normal) (hc : x.Canonical) (hp : x.sem.p ≤ 64) :
    x.mant < 2 ^ 64 := by
  obtain ⟨-, -, -, c4, -⟩ := (Flt.canonical_normal hx).mp hc
  exact lt_of_lt_of_le c4 (Nat.pow_le_pow_right (by norm_num) hp)

/-- `debug_assert!(mantissa <= 1 << mantissa_len)`, normal arm (any value, in fact) -/
theorem native_mantissa_le (m p : Nat) : (m % 2 ^ 64) &&& maskBits (p - 1) ≤ 2 ^ (p - 1) := by
  rw [and_maskBits]
  exact le_of_lt (Nat.mod_lt _ (Nat.two_pow_pos _))

/-- the same assertion for the NaN arm (`1 << (mantissa_len - 1)`) -/
theorem native_nan_mantissa_le (p : Nat) : 1 <<< (p - 1 - 1) ≤ 2 ^ (p - 1) := by
  rw [Nat.shiftLeft_eq, Nat.one_mul]
  exact Nat.pow_le_pow_right (by norm_num) (by omega)

/-! ### `to_i64`: the word conversion `as_u64` (bigint.rs:140-145) -/

/-- a value with exponent below 64 converts to an integer of at most 65 bits -/
theorem convertNormalToInteger_le (x : Flt) (rm : RM) (hF : x.sem.WF)
    (hm : x.mant < 2 ^ x.sem.p) (he : x.exp < 64) :
    x.convertNormalToInteger rm ≤ 2 ^ 64 := by
  rw [convertNormalToInteger_eq x rm hF]
  have hmag : x.mag < (2:ℚ) ^ (64 : Nat) := by
    have h1 : x.mag < (2:ℚ) ^ (x.exp + 1) := by
      rw [Flt.mag_eq]
      have hm2 : (x.mant : ℚ) < 2 ^ x.sem.p := by exact_mod_cast hm
      calc (x.mant : ℚ) * (2 : ℚ) ^ (x.exp - ((x.sem.p : Int) - 1))
          < 2 ^ x.sem.p * (2 : ℚ) ^ (x.exp - ((x.sem.p : Int) - 1)) :=
            mul_lt_mul_of_pos_right hm2 (by positivity)
        _ = (2 : ℚ) ^ (x.exp + 1) := by
            rw [← zpow_natCast, ← zpow_add₀ (by norm_num : (2 : ℚ) ≠ 0)]; congr 1; ring
    have h2 : (2:ℚ) ^ (x.exp + 1) ≤ (2:ℚ) ^ ((64 : Nat) : Int) :=
      zpow_le_zpow_right₀ (by norm_num) (by omega)
    rw [zpow_natCast] at h2
    exact lt_of_lt_of_le h1 h2
  have hfl : x.mag.floor.toNat < 2 ^ 64 := by
    have h0 : x.mag.floor < ((2 ^ 64 : Nat) : Int) := by
      rw [show x.mag.floor = ⌊x.mag⌋ from rfl, Int.floor_lt]; push_cast; exact hmag
    omega
  split_ifs <;> omega

/-! ### One call of `normalize`, all its assertions together -/

/-- The debug assertions whose truth depends on the arguments of one call
    `x.normalize(rm, loss)`: float.rs:524 ("losing information") and the three of
    `check_bounds()` (float.rs:451-454) on what `overflow()` returns.  (The fourth,
    float.rs:475, is structural: `normalize_stepII_normal`.) -/
def NormalizeAssertsOk (x : Flt) (rm : RM) (loss : Loss) : Prop :=
  x.normalizeDbgOk loss = true ∧
  ((x.overflow rm).sem.emin ≤ (x.overflow rm).exp ∧
   (x.overflow rm).exp ≤ (x.overflow rm).sem.emax ∧
   (x.overflow rm).mant < 2 ^ (x.overflow rm).sem.p)

theorem normalizeAssertsOk_of (x : Flt) (rm : RM) (loss : Loss) (hF : x.sem.WF)
    (h : x.normalizeDbgOk loss = true) : NormalizeAssertsOk x rm loss :=
  ⟨h, overflow_check_bounds_all x rm hF⟩

theorem new_sem_dbg (s : Sem) (sg : Bool) (e : Int) (m : Nat) : (Flt.new s sg e m).sem = s := by
  unfold Flt.new; split_ifs <;> rfl

theorem addOrSubNormals_sem_dbg (a b : Flt) (sub : Bool) : (addOrSubNormals a b sub).1.sem = a.sem := by
  unfold addOrSubNormals
  simp only
  split_ifs <;> exact new_sem_dbg _ _ _ _

theorem mulNormals_sem_dbg (a b : Flt) (sg : Bool) : (mulNormals a b sg).1.sem = a.sem := by
  unfold mulNormals
  simp only
  split_ifs <;> exact new_sem_dbg _ _ _ _

theorem divNormals_sem_dbg (a b : Flt) : (divNormals a b).1.sem = a.sem := by
  unfold divNormals
  exact new_sem_dbg _ _ _ _

end Arp
