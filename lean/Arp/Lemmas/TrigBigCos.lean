import Arp.Lemmas.TrigBigSin
import Arp.Lemmas.TrigLoop2
/-!
# `cosFuel` for `1 ≤ |x| ≤ 128`, given the accuracy of the computed `π`

* `cosTaylor_acc2`: the Taylor stage for arguments up to `1/8`;
* `cos_reduce`: the reduced argument of `cos`;
* `cos_level_big`: the outermost double-angle step for `x ≤ 8/5`, whose result may be negative
  or zero (near the zeros of `cos`);
* `cos_big_core`: the assembled result.
-/
namespace Arp.TrigErr
open Arp Arp.SpecRound Arp.RelErr Arp.Ln2 Arp.Sqrt

variable {W : Sem}

/-- **the Taylor stage of `cos`** on a positive argument `x ≤ 1/8` (not too small for the format):
    a positive number `≤ ` within `(2F+1)·u` of `cos x` (`F` the fuel), and within `(Js+3)·u` when
    the `Js`-th term of the series is below `u/64` -/
theorem cosTaylor_acc2 {lo : ℚ} (S : SCtx W lo) {x : Flt} (hx : PosN W x) (hlo : lo ≤ x.mag)
    (hhi : x.mag ≤ 1/8) :
    PosN W (cosTaylor x) ∧
      |(((cosTaylor x).mag : ℚ) : ℝ) - Real.cos ((x.mag : ℚ) : ℝ)| ≤
        (((2 * (Nat.max 50 W.p : ℕ) : ℚ) * u W : ℚ) : ℝ) ∧
      ∀ Js : ℕ, 1 ≤ Js → (x.mag ^ 2) ^ Js < u W / 64 →
        |(((cosTaylor x).mag : ℚ) : ℝ) - Real.cos ((x.mag : ℚ) : ℝ)| ≤
          ((((Js:ℚ) + 3) * u W : ℚ) : ℝ) := by
  have hW := S.wf
  have hX0 := hx.mag_pos
  have hu0 := RelErr.u_pos W
  have hX1 : x.mag ≤ 1 := by linarith
  have hlo3 : (2:ℚ) ^ (W.emin + 8) ≤ x.mag ^ 3 :=
    le_trans S.lo3 (pow_le_pow_left₀ (le_of_lt S.lo_pos) hlo 3)
  obtain ⟨hlo2, _⟩ := pow_emin_le_of_cube S hX0 hX1 hlo3
  have hlo1 : lo ≤ 1 := by linarith
  obtain ⟨hone, hone_mag⟩ := one_posN hW
  -- the context of the loop
  have C : LCtx2 W 1 (x.mag ^ 2) botC := {
    wf := hW, rm := S.rm, p24 := S.p24, pemax := S.pemax, X0pos := by norm_num,
    X0le := le_refl _, X0rep := by rw [← hone_mag]; exact hone.isRep,
    X0norm := by
      have h := S.emin_le
      rw [zpow_add_one₀ (by norm_num : (2:ℚ) ≠ 0)]; linarith
    y0 := by positivity,
    yle := by
      have : x.mag ^ 2 ≤ (1/8 : ℚ) ^ 2 := pow_le_pow_left₀ (le_of_lt hX0) hhi 2
      norm_num at this ⊢; linarith
    b0 := botC_zero, bstep := two_mul_botC_le,
    dsmall := by
      have := S.dl
      have h2 : u W * lo ≤ u W * 1 := mul_le_mul_of_nonneg_left hlo1 (le_of_lt hu0)
      linarith }
  -- the square
  obtain ⟨hsq, hsq1, hsq2⟩ := sqr_posN S hx (by linarith) hlo2
  have hx2 : NN W x.sqr (x.sqr.mag) := nn_of_posN hsq
  -- the loop
  set F := Nat.max 50 W.p - 1 with hF
  have hmax50 : 50 ≤ Nat.max 50 W.p := Nat.le_max_left _ _
  have hmaxp : W.p ≤ Nat.max 50 W.p := Nat.le_max_right _ _
  have hF1 : 1 ≤ F := by omega
  have hFp : W.p ≤ F + 1 := by omega
  have hFN : ((F:ℚ) + 1) * u W ≤ 1/1024 := by
    have := fuel_small S.p24
    have e : ((F:ℚ) + 1) = ((Nat.max 50 W.p : ℕ) : ℚ) := by
      have : F + 1 = Nat.max 50 W.p := by omega
      exact_mod_cast this
    rw [e]; exact this
  have hstp : ∀ j, botC (j + 1) = botC j * (fun i => (i * 2 - 1) * (i * 2)) (j + 1) := botC_succ
  have hone_nn : NN W (Flt.one W false) 1 := by rw [← hone_mag]; exact nn_of_posN hone
  obtain ⟨vr, hR, hvr, hErr⟩ := tay_total2 (stp := fun i => (i * 2 - 1) * (i * 2)) C hx2 hsq1 hsq2
    hstp hone_nn hF1 hFp hFN
  have hdef : cosTaylor x = tayLoop W x.sqr (fun i => (i * 2 - 1) * (i * 2)) F 1 false
      (Flt.one W false) 1 (Flt.zero W false) (Flt.one W true) := by
    unfold cosTaylor
    rw [cosTaylorLoop_eq, hx.sem]
  rw [hdef]
  have hvrpos : 0 < vr := by linarith
  obtain ⟨hP, hmag⟩ := posN_of_nn hR hvrpos
  refine ⟨hP, ?_⟩
  rw [hmag]
  -- the real series
  have hxr0 : (0:ℝ) ≤ ((x.mag : ℚ) : ℝ) := by exact_mod_cast le_of_lt hX0
  have hxr1 : ((x.mag : ℚ) : ℝ) ≤ 1 := by exact_mod_cast hX1
  have hS : ∀ n, |Real.cos ((x.mag : ℚ) : ℝ) - ((tpoly 1 (x.mag ^ 2) botC n : ℚ) : ℝ)|
      ≤ ((tterm 1 (x.mag ^ 2) botC n : ℚ) : ℝ) := by
    intro n
    rw [tpoly_cast, tterm_cast]
    push_cast
    exact cos_tpoly_bound hxr0 hxr1 n
  obtain ⟨h1, h2⟩ := hErr _ hS
  constructor
  · have hFq : 2 * (F:ℚ) + 1 ≤ 2 * ((Nat.max 50 W.p : ℕ) : ℚ) := by
      have : 2 * F + 1 ≤ 2 * Nat.max 50 W.p := by omega
      exact_mod_cast this
    have h3 : (2 * (F:ℚ) + 1) * (u W * 1) ≤ (2 * ((Nat.max 50 W.p : ℕ) : ℚ)) * u W := by
      rw [mul_one]; exact mul_le_mul_of_nonneg_right hFq (le_of_lt hu0)
    have h3' : (((2 * (F:ℚ) + 1) * (u W * 1) : ℚ) : ℝ) ≤
        (((2 * ((Nat.max 50 W.p : ℕ) : ℚ)) * u W : ℚ) : ℝ) := by exact_mod_cast h3
    linarith
  · intro Js hJs1 hsm
    have ht : tterm 1 (x.mag ^ 2) botC Js < u W * 1 / 64 := by
      unfold tterm
      rw [one_mul, mul_one]
      have hb : (1:ℚ) ≤ (botC Js : ℚ) := by exact_mod_cast botC_pos Js
      have hy0 : 0 ≤ (x.mag ^ 2) ^ Js := by positivity
      calc (x.mag ^ 2) ^ Js / (botC Js : ℚ) ≤ (x.mag ^ 2) ^ Js := div_le_self hy0 hb
        _ < u W / 64 := hsm
    have := h2 Js hJs1 ht
    rw [mul_one] at this
    exact this


/-! ## the reduction of `cos` -/

/-- the reduction of `cos` once `π̂` is known -/
def cosRedCore (pi v1 : Flt) : Option (Flt × Bool) :=
  let pi2 := pi.scale 1 .none
  let piHalf := pi.scale (-1) .none
  match (if v1.gt pi2 then v1.remM pi2 else some v1) with
  | none => none
  | some v2 =>
    let v3 := if v2.gt pi then subWithRm pi2 v2 .none else v2
    if v3.gt piHalf then some (subWithRm pi v3 .none, true) else some (v3, false)

theorem cosRed_big (fuel : Nat) (W : Sem) (v1 : Flt) :
    cosRed fuel W false v1 =
      match piFuel fuel W with
      | none => none
      | some pi => cosRedCore pi v1 := by
  unfold cosRed cosRedCore
  simp only [Bool.not_false, if_true]
  cases piFuel fuel W <;> rfl

set_option maxHeartbeats 400000 in
/-- **the reduced argument of `cos`**: a non-negative grid value `θq ≤ 8/5` within `184·2^-p_W` of
    a real angle `θ` with `cos X = ± cos θ` (minus iff the flag is set) -/
theorem cos_reduce (hW : W.WF) (hp24 : 24 ≤ W.p) (hpemax : (W.p:ℤ) + 2 ≤ W.emax)
    (hfuel : W.p + 10 ≤ innerFuel) {pi v1 : Flt} (hpi : PiHat W pi) (hv1 : PosN W v1)
    (hX1 : 1 ≤ v1.mag) (hX128 : v1.mag ≤ 128) :
    ∃ (v4 : Flt) (flag : Bool) (θq : ℚ), cosRedCore pi v1 = some (v4, flag) ∧ NN W v4 θq ∧
      Fix (W.p - 1) θq ∧ 0 ≤ θq ∧ θq ≤ 8/5 ∧
      ∃ θ : ℝ, |((θq : ℚ) : ℝ) - θ| ≤ 184 * (2:ℝ) ^ (-(W.p:ℤ)) ∧
        Real.cos ((v1.mag : ℚ) : ℝ) = (if flag then -1 else 1) * Real.cos θ := by
  obtain ⟨hP1, hP2⟩ := hpi.bounds hp24
  obtain ⟨hpi2R, hpi2mag, v2, V2, n, hv2eq, hv2, hV2fix, hV20, hV2le, hn20, hV2⟩ :=
    red_stage1 hW hp24 hpemax hfuel hpi hv1 hX1 hX128
  obtain ⟨H, hH, hH1, hH2⟩ := piHalf_spec hW hp24 hpemax hpi
  have hpinn := nn_of_posN hpi.pos
  have hpi2P : PosN W (pi.scale 1 .none) := ⟨hpi2R.sem, hpi2R.can, hpi2R.cat, hpi2R.sign⟩
  have hpi2nn : NN W (pi.scale 1 .none) (2 * pi.mag) := by
    rw [← hpi2mag]; exact nn_of_posN hpi2P
  have hPfix : Fix (W.p - 1) pi.mag := fix_of_isRep hW hpi.pos.isRep (by linarith)
  have h2Pfix : Fix (W.p - 1) (2 * pi.mag) := by
    rw [← hpi2mag]; exact fix_of_isRep hW hpi2P.isRep (by rw [hpi2mag]; linarith)
  have hu0 := RelErr.u_pos W
  have hu23 : u W ≤ 1 / 2 ^ 23 := by
    have := u_le_of_le_p (F := W) (k := 24) hp24
    norm_num at this ⊢; linarith
  have hmax : (8:ℚ) ≤ maxFinite W := by
    have hp : 1 ≤ W.p := by omega
    have h1 := pow_emax_le_maxFinite (F := W) hp
    have h2 : (2:ℚ) ^ (3:ℤ) ≤ (2:ℚ) ^ W.emax := zpow_le_zpow_right₀ (by norm_num) (by omega)
    norm_num at h2; linarith
  set Pr : ℝ := ((pi.mag : ℚ) : ℝ) with hPr
  set Xr : ℝ := ((v1.mag : ℚ) : ℝ) with hXr
  set ε : ℝ := (2:ℝ) ^ (-(W.p:ℤ)) with hε
  have hε0 : 0 < ε := by rw [hε]; positivity
  have herrP : |Pr - Real.pi| ≤ 4 * ε := by
    have := hpi.err
    rw [show (2:ℤ) - (W.p:ℤ) = -(W.p:ℤ) + 2 by ring, zpow_add₀ (by norm_num : (2:ℝ) ≠ 0)] at this
    have e4 : (2:ℝ) ^ (2:ℤ) = 4 := by norm_num
    rw [e4] at this
    rw [hε]; linarith
  have hur : ((u W : ℚ) : ℝ) = 2 * ε := by
    unfold RelErr.u
    push_cast
    rw [hε, show (1:ℤ) - (W.p:ℤ) = -(W.p:ℤ) + 1 by ring, zpow_add_one₀ (by norm_num : (2:ℝ) ≠ 0)]
    ring
  set t : ℝ := Xr - (n:ℝ) * (2 * Real.pi) with ht
  have hcost : Real.cos Xr = Real.cos t := by
    rw [ht, Real.cos_sub_nat_mul_two_pi]
  have hV2r : ((V2 : ℚ) : ℝ) = Xr - (n:ℝ) * (2 * Pr) := by rw [hV2]; push_cast; rfl
  have hnr : (n:ℝ) ≤ 20 := by exact_mod_cast hn20
  have hn0 : (0:ℝ) ≤ (n:ℝ) := Nat.cast_nonneg n
  obtain ⟨pe1, pe2⟩ := abs_le.mp herrP
  have hV2t : |((V2 : ℚ) : ℝ) - t| ≤ 160 * ε := by
    rw [hV2r, ht, abs_le]
    constructor <;> nlinarith
  unfold cosRedCore
  simp only [hv2eq]
  -- stage 2
  have hstage2 : ∃ (v3 : Flt) (R3 : ℚ) (θ3 : ℝ),
      (if v2.gt pi then subWithRm (pi.scale 1 .none) v2 .none else v2) = v3 ∧
      NN W v3 R3 ∧ Fix (W.p - 1) R3 ∧ 0 ≤ R3 ∧ R3 ≤ pi.mag ∧
      |((R3 : ℚ) : ℝ) - θ3| ≤ 176 * ε ∧ Real.cos Xr = Real.cos θ3 := by
    by_cases hgt : v2.gt pi = true
    · rw [if_pos hgt]
      have hlt : pi.mag < V2 := (nn_gt_iff hW hv2 hpinn).mp hgt
      obtain ⟨R3, hR3, hR3fix, hR31, hR32⟩ := nn_sub_fix hW hpemax hpi2nn hv2 h2Pfix hV2fix
        hV2le (by linarith)
      refine ⟨_, R3, 2 * Real.pi - t, rfl, hR3, hR3fix, ?_, by linarith, ?_, ?_⟩
      · have : 0 ≤ (1 - u W) * (2 * pi.mag - V2) := mul_nonneg (by linarith) (by linarith)
        linarith
      · have h1 : ((R3 : ℚ) : ℝ) ≤ 2 * Pr - ((V2 : ℚ) : ℝ) := by
          have := (Rat.cast_le (K := ℝ)).mpr hR32; push_cast at this; exact this
        have h2 : (1 - 2 * ε) * (2 * Pr - ((V2 : ℚ) : ℝ)) ≤ ((R3 : ℚ) : ℝ) := by
          have := (Rat.cast_le (K := ℝ)).mpr hR31; push_cast at this; rw [hur] at this; exact this
        have h3 : 2 * Pr - ((V2 : ℚ) : ℝ) ≤ 32/10 := by
          have : 2 * pi.mag - V2 ≤ 32/10 := by linarith
          have := (Rat.cast_le (K := ℝ)).mpr this; push_cast at this; exact this
        have h4 : 0 ≤ 2 * Pr - ((V2 : ℚ) : ℝ) := by
          have : 0 ≤ 2 * pi.mag - V2 := by linarith
          have := (Rat.cast_le (K := ℝ)).mpr this; push_cast at this; exact this
        obtain ⟨v1', v2'⟩ := abs_le.mp hV2t
        rw [abs_le]
        constructor <;> nlinarith
      · rw [hcost, Real.cos_two_pi_sub]
    · rw [if_neg hgt]
      have hle : ¬ pi.mag < V2 := fun h => hgt ((nn_gt_iff hW hv2 hpinn).mpr h)
      exact ⟨v2, V2, t, rfl, hv2, hV2fix, hV20, not_lt.mp hle, by linarith, hcost⟩
  obtain ⟨v3, R3, θ3, hv3eq, hv3, hR3fix, hR30, hR3le, hR3err, hcos3⟩ := hstage2
  rw [hv3eq]
  -- stage 3
  by_cases hgt : v3.gt (pi.scale (-1) .none) = true
  · rw [if_pos hgt]
    have hlt : H < R3 := (nn_gt_iff hW hv3 hH).mp hgt
    obtain ⟨R4, hR4, hR4fix, hR41, hR42⟩ := nn_sub_fix hW hpemax hpinn hv3 hPfix hR3fix hR3le
      (by linarith)
    have hR40 : 0 ≤ R4 := by
      have : 0 ≤ (1 - u W) * (pi.mag - R3) := mul_nonneg (by linarith) (by linarith)
      linarith
    have huP : u W * (pi.mag / 2) ≤ 1/2^23 * (pi.mag / 2) :=
      mul_le_mul_of_nonneg_right hu23 (by linarith)
    norm_num at huP
    refine ⟨_, true, R4, rfl, hR4, hR4fix, hR40, by linarith, Real.pi - θ3, ?_, ?_⟩
    · have h1 : ((R4 : ℚ) : ℝ) ≤ Pr - ((R3 : ℚ) : ℝ) := by
        have := (Rat.cast_le (K := ℝ)).mpr hR42; push_cast at this; exact this
      have h2 : (1 - 2 * ε) * (Pr - ((R3 : ℚ) : ℝ)) ≤ ((R4 : ℚ) : ℝ) := by
        have := (Rat.cast_le (K := ℝ)).mpr hR41; push_cast at this; rw [hur] at this; exact this
      have h3 : Pr - ((R3 : ℚ) : ℝ) ≤ 16/10 := by
        have : pi.mag - R3 ≤ 16/10 := by linarith
        have := (Rat.cast_le (K := ℝ)).mpr this; push_cast at this; exact this
      have h4 : 0 ≤ Pr - ((R3 : ℚ) : ℝ) := by
        have : 0 ≤ pi.mag - R3 := by linarith
        have := (Rat.cast_le (K := ℝ)).mpr this; push_cast at this; exact this
      obtain ⟨v1', v2'⟩ := abs_le.mp hR3err
      rw [abs_le]
      constructor <;> nlinarith
    · rw [hcos3, Real.cos_pi_sub]; simp
  · rw [if_neg hgt]
    have hle : ¬ H < R3 := fun h => hgt ((nn_gt_iff hW hv3 hH).mpr h)
    refine ⟨v3, false, R3, rfl, hv3, hR3fix, hR30, by linarith [not_lt.mp hle], θ3, by linarith, ?_⟩
    rw [hcos3]; simp

/-! ## the outermost double-angle step, `x ≤ 8/5`: the result may be negative -/

/-- one double-angle step with three rounded operations, `c = cos(x/2) ∈ [2/3, 1]`; the last
    rounding is relative to `|b − 1|` (the difference may be negative) -/
theorem double_prop_big {c ch s2 b r d e : ℝ} (hc1 : 2/3 ≤ c) (hc2 : c ≤ 1) (he0 : 0 ≤ e)
    (he : e ≤ 1/64) (hd0 : 0 ≤ d) (hd : d ≤ 1/64) (hch : |ch - c| ≤ e)
    (hs2 : |s2 - ch ^ 2| ≤ d * ch ^ 2) (hb : |b - 2 * s2| ≤ d * (2 * s2))
    (hr : |r - (b - 1)| ≤ d * |b - 1|) :
    |r - (2 * c ^ 2 - 1)| ≤ 4 * e + 2 * e ^ 2 + 6 * d := by
  obtain ⟨a1, a2⟩ := abs_le.mp hch
  have hch0 : 5/8 ≤ ch := by linarith
  have hch1 : ch ≤ 65/64 := by linarith
  have hsq1 : ch ^ 2 ≤ 21/20 := by nlinarith
  have hsq0 : 0 ≤ ch ^ 2 := by positivity
  have h1 : |2 * ch ^ 2 - 2 * c ^ 2| ≤ 4 * e + 2 * e ^ 2 := by
    have e1 : 2 * ch ^ 2 - 2 * c ^ 2 = 2 * (ch - c) * (ch + c) := by ring
    rw [e1, abs_mul, abs_mul, abs_two]
    have h2 : |ch + c| ≤ 2 + e := by rw [abs_of_nonneg (by linarith)]; linarith
    calc 2 * |ch - c| * |ch + c| ≤ 2 * e * (2 + e) := by
          apply mul_le_mul (by linarith) h2 (abs_nonneg _) (by linarith)
      _ = 4 * e + 2 * e ^ 2 := by ring
  obtain ⟨s1, s2'⟩ := abs_le.mp hs2
  have hds : d * ch ^ 2 ≤ 21/20 * d := by nlinarith
  have hs2le : s2 ≤ 11/10 := by nlinarith
  have hs2ge : 0 ≤ s2 := by nlinarith
  obtain ⟨b1, b2⟩ := abs_le.mp hb
  have hdb : d * (2 * s2) ≤ 22/10 * d := by nlinarith
  have hble : b ≤ 23/10 := by nlinarith
  have hbge : 0 ≤ b := by nlinarith
  have habs : |b - 1| ≤ 13/10 := by rw [abs_le]; constructor <;> linarith
  have hdr : d * |b - 1| ≤ 13/10 * d := by nlinarith [abs_nonneg (b - 1)]
  obtain ⟨r1, r2⟩ := abs_le.mp hr
  obtain ⟨q1, q2⟩ := abs_le.mp h1
  rw [abs_le]
  constructor <;> linarith

/-- bounds of `st ≈ cos xh`, `xh ≈ X/2 ≤ 4/5` -/
theorem cos_level_st_big {X xh st e u : ℚ} (hu0 : 0 < u) (hX0 : 0 < X) (hX1 : X ≤ 8/5)
    (he0 : 0 ≤ e) (he : e ≤ 1/512) (hq1 : (1 - u) * (X / 2) ≤ xh) (hq2 : xh ≤ X / 2)
    (hu : u ≤ 1/1024)
    (herr : |((st : ℚ) : ℝ) - Real.cos ((xh : ℚ) : ℝ)| ≤ ((e : ℚ) : ℝ)) :
    5/8 ≤ st ∧ st ≤ 65/64 ∧ 0 < xh ∧ 2/3 ≤ Real.cos ((xh : ℚ) : ℝ) ∧
      Real.cos ((xh : ℚ) : ℝ) ≤ 1 := by
  have huX : u * X ≤ 1/1024 * X := mul_le_mul_of_nonneg_right hu (le_of_lt hX0)
  have hxh0 : 0 < xh := by nlinarith
  have hxh_le : xh ≤ 4/5 := by linarith
  have hxr0 : (0:ℝ) ≤ ((xh : ℚ) : ℝ) := by exact_mod_cast le_of_lt hxh0
  have hxr1 : ((xh : ℚ) : ℝ) ≤ 4/5 := by
    have := (Rat.cast_le (K := ℝ)).mpr hxh_le
    push_cast at this; linarith
  have hc1 : 2/3 ≤ Real.cos ((xh : ℚ) : ℝ) := by
    have h := cos_lower ((xh : ℚ) : ℝ)
    have : ((xh : ℚ) : ℝ) ^ 2 ≤ 16/25 := by nlinarith
    linarith
  have hc2 := Real.cos_le_one ((xh : ℚ) : ℝ)
  have her : ((e : ℚ) : ℝ) ≤ 1/512 := by
    have := (Rat.cast_le (K := ℝ)).mpr he
    push_cast at this; linarith
  obtain ⟨a1, a2⟩ := abs_le.mp herr
  have h1 : (((5/8 : ℚ)) : ℝ) ≤ ((st : ℚ) : ℝ) := by push_cast; linarith
  have h2 : ((st : ℚ) : ℝ) ≤ (((65/64 : ℚ)) : ℝ) := by push_cast; linarith
  exact ⟨(Rat.cast_le (K := ℝ)).mp h1, (Rat.cast_le (K := ℝ)).mp h2, hxh0, hc1, hc2⟩

/-- the real-number core of the outermost double-angle step; `ρ` is the signed result -/
theorem cos_level_num_big {X xh st s2 b ρ e u : ℚ} (hu0 : 0 < u) (hu : u ≤ 1/1024) (hX0 : 0 < X)
    (hX1 : X ≤ 8/5) (he0 : 0 ≤ e) (he : e ≤ 1/512)
    (hq1 : (1 - u) * (X / 2) ≤ xh) (hq2 : xh ≤ X / 2)
    (herr : |((st : ℚ) : ℝ) - Real.cos ((xh : ℚ) : ℝ)| ≤ ((e : ℚ) : ℝ))
    (hs1 : (1 - u) * st ^ 2 ≤ s2) (hs2 : s2 ≤ (1 + u) * st ^ 2)
    (hb1 : (1 - u) * (s2 * 2) ≤ b) (hb2 : b ≤ s2 * 2)
    (hρ : |ρ - (b - 1)| ≤ u * |b - 1|) :
    |((ρ : ℚ) : ℝ) - Real.cos ((X : ℚ) : ℝ)| ≤ ((4 * e + 2 * e ^ 2 + 8 * u : ℚ) : ℝ) := by
  obtain ⟨hst1, hst2, hxh0, hc1, hc2⟩ := cos_level_st_big hu0 hX0 hX1 he0 he hq1 hq2 hu herr
  have hst20 : 0 < st ^ 2 := by positivity
  have hust : 0 ≤ u * st ^ 2 := mul_nonneg (le_of_lt hu0) (le_of_lt hst20)
  have hs20 : 0 ≤ s2 := by nlinarith
  have hus2 : 0 ≤ u * s2 := mul_nonneg (le_of_lt hu0) hs20
  have hS2 : |((s2 : ℚ) : ℝ) - ((st : ℚ) : ℝ) ^ 2| ≤ ((u : ℚ) : ℝ) * ((st : ℚ) : ℝ) ^ 2 := by
    have : |s2 - st ^ 2| ≤ u * st ^ 2 := by rw [abs_le]; constructor <;> linarith
    exact_mod_cast this
  have hB : |((b : ℚ) : ℝ) - 2 * ((s2 : ℚ) : ℝ)| ≤ ((u : ℚ) : ℝ) * (2 * ((s2 : ℚ) : ℝ)) := by
    have : |b - 2 * s2| ≤ u * (2 * s2) := by rw [abs_le]; constructor <;> linarith
    exact_mod_cast this
  have hR : |((ρ : ℚ) : ℝ) - (((b : ℚ) : ℝ) - 1)| ≤ ((u : ℚ) : ℝ) * |((b : ℚ) : ℝ) - 1| := by
    exact_mod_cast hρ
  have her0 : (0:ℝ) ≤ ((e : ℚ) : ℝ) := by exact_mod_cast he0
  have her : ((e : ℚ) : ℝ) ≤ 1/64 := by
    have h : e ≤ 1/64 := by linarith
    have := (Rat.cast_le (K := ℝ)).mpr h
    push_cast at this; linarith
  have hur0 : (0:ℝ) < ((u : ℚ) : ℝ) := by exact_mod_cast hu0
  have hur : ((u : ℚ) : ℝ) ≤ 1/64 := by
    have h : u ≤ 1/64 := by linarith
    have := (Rat.cast_le (K := ℝ)).mpr h
    push_cast at this; linarith
  have hD := double_prop_big hc1 hc2 her0 her (le_of_lt hur0) hur herr hS2 hB hR
  rw [← Real.cos_two_mul] at hD
  have hP := Real.abs_cos_sub_cos_le (2 * ((xh : ℚ) : ℝ)) ((X : ℚ) : ℝ)
  have h2x : |2 * ((xh : ℚ) : ℝ) - ((X : ℚ) : ℝ)| ≤ 8/5 * ((u : ℚ) : ℝ) := by
    have huX : u * X ≤ u * (8/5) := mul_le_mul_of_nonneg_left hX1 (le_of_lt hu0)
    have h3 : |2 * xh - X| ≤ 8/5 * u := by rw [abs_le]; constructor <;> linarith
    have h4 := (Rat.cast_le (K := ℝ)).mpr h3
    push_cast at h4
    exact h4
  push_cast
  calc |((ρ : ℚ) : ℝ) - Real.cos ((X : ℚ) : ℝ)|
      = |(((ρ : ℚ) : ℝ) - Real.cos (2 * ((xh : ℚ) : ℝ))) +
          (Real.cos (2 * ((xh : ℚ) : ℝ)) - Real.cos ((X : ℚ) : ℝ))| := by ring_nf
    _ ≤ |((ρ : ℚ) : ℝ) - Real.cos (2 * ((xh : ℚ) : ℝ))| +
          |Real.cos (2 * ((xh : ℚ) : ℝ)) - Real.cos ((X : ℚ) : ℝ)| := abs_add_le _ _
    _ ≤ (4 * ((e : ℚ) : ℝ) + 2 * ((e : ℚ) : ℝ) ^ 2 + 6 * ((u : ℚ) : ℝ)) + 8/5 * ((u : ℚ) : ℝ) :=
        add_le_add hD (le_trans hP h2x)
    _ ≤ 4 * ((e : ℚ) : ℝ) + 2 * ((e : ℚ) : ℝ) ^ 2 + 8 * ((u : ℚ) : ℝ) := by linarith

/-! ## signed subtraction of one -/

theorem fix_of_isRep_half (hW : W.WF) {c : ℚ} (hc : IsRep W c) (h1 : 1/2 ≤ c)
    (hemin : W.emin ≤ -1) : Fix W.p c := by
  obtain ⟨N, hN⟩ := isRep_grid hW hc (j := -1) (by norm_num; linarith) hemin
  refine ⟨N, ?_⟩
  rw [hN, show (-1:ℤ) - ((W.p:ℤ) - 1) = -(W.p:ℤ) by ring, zpow_neg, zpow_natCast]
  push_cast
  rw [div_eq_mul_inv]

theorem one_nn (hW : W.WF) : NN W (Flt.one W false) 1 := by
  obtain ⟨h1, h2⟩ := one_posN hW
  rw [← h2]; exact nn_of_posN h1

/-- `b − 1` truncated, for a grid value `b ∈ [1/2, 3]`: a zero, or a normal number of either sign
    with relative error at most `u` -/
theorem sub_one_signed {lo : ℚ} (S : SCtx W lo) {bF : Flt} {B : ℚ} (hb : NN W bF B)
    (hB1 : 1/2 ≤ B) (hB3 : B ≤ 3) :
    ∃ ρ : ℚ, (subWithRm bF (Flt.one W false) .none).val = ρ ∧ |ρ - (B - 1)| ≤ u W * |B - 1| ∧
      (subWithRm bF (Flt.one W false) .none).Canonical ∧
      (subWithRm bF (Flt.one W false) .none).sem = W ∧
      (((subWithRm bF (Flt.one W false) .none).cat = .zero ∧ ρ = 0) ∨
        ((subWithRm bF (Flt.one W false) .none).cat = .normal ∧
          (subWithRm bF (Flt.one W false) .none).mag = |ρ| ∧
          (subWithRm bF (Flt.one W false) .none).sign = decide (ρ < 0))) := by
  have hW := S.wf
  have hu0 := RelErr.u_pos W
  have hu23 := S.u_le
  have hu1 : u W ≤ 1 := by norm_num at hu23 ⊢; linarith
  have h6 := S.six_le_max
  have hone := one_nn hW
  have hGb : bF.sem.WF := by rw [hb.sem]; exact hW
  have hsab : (Flt.one W false).sem = bF.sem := by rw [hb.sem]; rfl
  have hcan := subWithRm_canonical bF (Flt.one W false) .none hGb hsab hb.can hone.can
  have hemin1 : W.emin ≤ -1 := by
    have h1 : W.emin + W.emax = 1 := Sqrt.emin_add_emax hW
    have := S.pemax; have := S.p24; omega
  have hBfix : Fix W.p B := fix_of_isRep_half hW (hb.isRep hW) hB1 hemin1
  have h1fix : Fix W.p 1 := ⟨2 ^ W.p, by push_cast; field_simp⟩
  have hunit : (2:ℚ) ^ W.emin ≤ 1 / 2 ^ W.p := by
    have h1 : W.emin + W.emax = 1 := Sqrt.emin_add_emax hW
    have : (2:ℚ) ^ W.emin ≤ (2:ℚ) ^ (-(W.p:ℤ)) :=
      zpow_le_zpow_right₀ (by norm_num) (by have := S.pemax; omega)
    rwa [zpow_neg, zpow_natCast, ← one_div] at this
  rcases lt_trichotomy B 1 with hlt | heq | hgt
  · -- negative difference
    have hq : 0 < 1 - B := by linarith
    have hqfix : Fix W.p (1 - B) := h1fix.sub hBfix
    have hqlo : (2:ℚ) ^ W.emin ≤ 1 - B := le_trans hunit (hqfix.pos_ge hq)
    have hqle : 1 - B ≤ maxFinite W := by linarith
    obtain ⟨r1, r2⟩ := rq_none_spec hW hqlo hqle
    have hcor := C01.sub_correct bF (Flt.one W false) .none hGb hsab hb.can hone.can
    rw [hb.sem] at hcor
    have hBpos : 0 < B := by linarith
    have hbn := hb.normal_of_pos hBpos
    set o' : Flt := { Flt.one W false with sign := !(Flt.one W false).sign } with ho'
    have ho'val : o'.val = -1 := by rw [ho', C01.val_neg, hone.val]
    have hfo' : o'.cat = .normal ∨ o'.cat = .zero := Or.inl rfl
    have hzz : ¬ (bF.cat = .zero ∧ o'.cat = .zero) := by
      rintro ⟨h1, _⟩; rw [hbn] at h1; exact absurd h1 (by decide)
    have hspec : Spec.sub W .none bF (Flt.one W false) = Spec.round W .none true (1 - B) := by
      show Spec.add W .none bF o' = _
      rw [spec_add_fin W .none bF o' hb.fin hfo' hzz, hb.val, ho'val]
      unfold Spec.roundQ
      have hne : B + -1 ≠ 0 := by linarith
      have hnp : ¬ (0 < B + -1) := by linarith
      rw [if_neg hne, if_neg hnp]
      congr 1; ring
    rw [hspec, round_sign_symm (Or.inr (Or.inr (Or.inr rfl)))] at hcor
    obtain ⟨e, m, hfin⟩ := round_fin_of_range hW .none false hqlo hqle
    rw [hfin] at hcor
    have hcor' : (subWithRm bF (Flt.one W false) .none).toRes = .fin true e m := by
      rw [hcor]; rfl
    obtain ⟨c1, c2, c3, c4⟩ := toRes_fin hcor'
    have hmag : (subWithRm bF (Flt.one W false) .none).mag = rq W .none (1 - B) := by
      rw [rq_pos_eq .none hq, hfin, Res.mag_fin, Flt.mag_eq, hcan.2, hb.sem, c3, c4, Sem.ulp_def]
    have hrqpos : 0 < rq W .none (1 - B) := by
      have : 0 < (1 - u W) * (1 - B) := mul_pos (by norm_num at hu23; linarith) hq
      linarith
    refine ⟨-(rq W .none (1 - B)), ?_, ?_, hcan.1, hcan.2.trans hb.sem, Or.inr ⟨c1, ?_, ?_⟩⟩
    · rw [Flt.val_normal c1, c2, hmag]; simp
    · rw [abs_of_neg (by linarith : B - 1 < 0), abs_le]
      constructor <;> linarith
    · rw [hmag, abs_neg, abs_of_pos hrqpos]
    · rw [c2]; simp [hrqpos]
  · -- exact cancellation
    have hnn := nn_sub_ge hW .none hb hone (by linarith) (by linarith)
    rw [heq, sub_self, rq_zero] at hnn
    have hcat : (subWithRm bF (Flt.one W false) .none).cat = .zero := by
      rcases hnn.fin with h | h
      · have := nn_val_pos_normal hnn h; linarith
      · exact h
    refine ⟨0, hnn.val, ?_, hcan.1, hcan.2.trans hb.sem, Or.inl ⟨hcat, rfl⟩⟩
    rw [heq]; simp
  · -- positive difference
    have hq : 0 < B - 1 := by linarith
    have hqfix : Fix W.p (B - 1) := hBfix.sub h1fix
    have hqlo : (2:ℚ) ^ W.emin ≤ B - 1 := le_trans hunit (hqfix.pos_ge hq)
    have hqle : B - 1 ≤ maxFinite W := by linarith
    obtain ⟨r1, r2⟩ := rq_none_spec hW hqlo hqle
    have hnn := nn_sub hW .none hb hone hq hqle
    have hrqpos : 0 < rq W .none (B - 1) := by
      have : 0 < (1 - u W) * (B - 1) := mul_pos (by norm_num at hu23; linarith) hq
      linarith
    obtain ⟨hP, hm⟩ := posN_of_nn hnn hrqpos
    refine ⟨rq W .none (B - 1), hnn.val, ?_, hcan.1, hcan.2.trans hb.sem,
      Or.inr ⟨hP.cat, ?_, ?_⟩⟩
    · rw [abs_of_pos hq, abs_le]
      constructor <;> linarith
    · rw [hm, abs_of_pos hrqpos]
    · rw [hP.sign]; simp [le_of_lt hrqpos]

/-! ## the double-angle step at `Flt` level -/

/-- the halved argument for `x ≤ 8/5` -/
theorem cos_half_big {lo : ℚ} (S : SCtx W lo) {x : Flt} (hx : PosN W x) (hX1 : x.mag ≤ 8/5)
    (hXlo : 256 * (2:ℚ) ^ W.emin ≤ x.mag) :
    PosN W (x.scale (-1) .none) ∧ (1 - u W) * (x.mag / 2) ≤ (x.scale (-1) .none).mag ∧
      (x.scale (-1) .none).mag ≤ x.mag / 2 := by
  have hW := S.wf
  have hX0 := hx.mag_pos
  have h6 := S.six_le_max
  have hu23 := S.u_le
  have hpe : (0:ℚ) < (2:ℚ) ^ W.emin := by positivity
  have e : x.mag * (2:ℚ) ^ (-1:ℤ) = x.mag / 2 := by rw [zpow_neg_one]; ring
  have hlo : (2:ℚ) ^ W.emin ≤ x.mag * (2:ℚ) ^ (-1:ℤ) := by rw [e]; linarith
  have hle : x.mag * (2:ℚ) ^ (-1:ℤ) ≤ maxFinite W := by rw [e]; linarith
  have hnn := scale_nn hW hx (-1) hlo hle
  obtain ⟨h1, h2⟩ := rq_none_spec hW hlo hle
  rw [e] at hnn h1 h2
  have hpos : 0 < rq W .none (x.mag / 2) := by
    have : 0 < (1 - u W) * (x.mag / 2) := mul_pos (by norm_num at hu23; linarith) (by linarith)
    linarith
  obtain ⟨hP, hm⟩ := posN_of_nn hnn hpos
  exact ⟨hP, by rw [hm]; exact h1, by rw [hm]; exact h2⟩

/-- `2·sx² − 1` for `sx ∈ [5/8, 65/64]`: the three roundings and the signed result -/
theorem cos_double {lo : ℚ} (S : SCtx W lo) {sx : Flt} (hsx : PosN W sx) (h1 : 5/8 ≤ sx.mag)
    (h2 : sx.mag ≤ 65/64) :
    ∃ s2 b ρ : ℚ, (1 - u W) * sx.mag ^ 2 ≤ s2 ∧ s2 ≤ (1 + u W) * sx.mag ^ 2 ∧
      (1 - u W) * (s2 * 2) ≤ b ∧ b ≤ s2 * 2 ∧ |ρ - (b - 1)| ≤ u W * |b - 1| ∧
      (subWithRm ((sx.sqr).scale 1 .none) (Flt.one W false) .none).val = ρ ∧
      (subWithRm ((sx.sqr).scale 1 .none) (Flt.one W false) .none).Canonical ∧
      (subWithRm ((sx.sqr).scale 1 .none) (Flt.one W false) .none).sem = W ∧
      (((subWithRm ((sx.sqr).scale 1 .none) (Flt.one W false) .none).cat = .zero ∧ ρ = 0) ∨
        ((subWithRm ((sx.sqr).scale 1 .none) (Flt.one W false) .none).cat = .normal ∧
          (subWithRm ((sx.sqr).scale 1 .none) (Flt.one W false) .none).mag = |ρ| ∧
          (subWithRm ((sx.sqr).scale 1 .none) (Flt.one W false) .none).sign = decide (ρ < 0))) := by
  have hW := S.wf
  have h6 := S.six_le_max
  have hu23 := S.u_le
  have hu0 := RelErr.u_pos W
  have hu8 : u W ≤ 1/1024 := by norm_num at hu23 ⊢; linarith
  have hem := S.emin_le
  have hst0 : 0 < sx.mag := by linarith
  have hst20 : 0 < sx.mag ^ 2 := by positivity
  have hst2lo : 25/64 ≤ sx.mag ^ 2 := by nlinarith
  have hst2hi : sx.mag ^ 2 ≤ 17/16 := by nlinarith
  have hust' : u W * sx.mag ^ 2 ≤ 1/1024 * sx.mag ^ 2 :=
    mul_le_mul_of_nonneg_right hu8 (le_of_lt hst20)
  have hust0 : 0 ≤ u W * sx.mag ^ 2 := mul_nonneg (le_of_lt hu0) (le_of_lt hst20)
  have hlo2 : (2:ℚ) ^ (W.emin + 8) ≤ sx.mag ^ 2 := by
    have h4 : (2:ℚ) ^ (W.emin + 8) ≤ (2:ℚ) ^ (-2:ℤ) :=
      zpow_le_zpow_right₀ (by norm_num) (by
        have h1 : W.emin + W.emax = 1 := Sqrt.emin_add_emax hW
        have := S.pemax; have := S.p24; omega)
    norm_num at h4; linarith
  obtain ⟨hsq, hs1, hs2⟩ := sqr_posN S hsx (by linarith) hlo2
  have hs20 : 0 < sx.sqr.mag := hsq.mag_pos
  have e1 : sx.sqr.mag * (2:ℚ) ^ (1:ℤ) = sx.sqr.mag * 2 := by rw [zpow_one]
  have hb_lo : (2:ℚ) ^ W.emin ≤ sx.sqr.mag * (2:ℚ) ^ (1:ℤ) := by rw [e1]; linarith
  have hb_le : sx.sqr.mag * (2:ℚ) ^ (1:ℤ) ≤ maxFinite W := by rw [e1]; linarith
  have hbnn := scale_nn hW hsq 1 hb_lo hb_le
  obtain ⟨hb1, hb2⟩ := rq_none_spec hW hb_lo hb_le
  rw [e1] at hbnn hb1 hb2
  have hus2' : u W * sx.sqr.mag ≤ 1/1024 * sx.sqr.mag :=
    mul_le_mul_of_nonneg_right hu8 (le_of_lt hs20)
  obtain ⟨ρ, hρv, hρ, hcan, hsem, hcases⟩ := sub_one_signed S hbnn (by linarith) (by linarith)
  exact ⟨sx.sqr.mag, rq W .none (sx.sqr.mag * 2), ρ, hs1, hs2, hb1, hb2, hρ, hρv, hcan, hsem, hcases⟩

/-- **the outermost double-angle step** for `x ≤ 8/5`: the signed result `ρ` is within
    `4e + 2e² + 8u` of `cos x` -/
theorem cos_level_big {lo : ℚ} (S : SCtx W lo) {x sx : Flt} {e : ℚ} (hx : PosN W x)
    (hX1 : x.mag ≤ 8/5) (hXlo : 256 * (2:ℚ) ^ W.emin ≤ x.mag) (he0 : 0 ≤ e) (he : e ≤ 1/512)
    (hsx : PosN W sx)
    (herr : |((sx.mag : ℚ) : ℝ) - Real.cos (((x.scale (-1) .none).mag : ℚ) : ℝ)| ≤ ((e : ℚ) : ℝ)) :
    ∃ ρ : ℚ, (subWithRm ((sx.sqr).scale 1 .none) (Flt.one W false) .none).val = ρ ∧
      (subWithRm ((sx.sqr).scale 1 .none) (Flt.one W false) .none).Canonical ∧
      (subWithRm ((sx.sqr).scale 1 .none) (Flt.one W false) .none).sem = W ∧
      (((subWithRm ((sx.sqr).scale 1 .none) (Flt.one W false) .none).cat = .zero ∧ ρ = 0) ∨
        ((subWithRm ((sx.sqr).scale 1 .none) (Flt.one W false) .none).cat = .normal ∧
          (subWithRm ((sx.sqr).scale 1 .none) (Flt.one W false) .none).mag = |ρ| ∧
          (subWithRm ((sx.sqr).scale 1 .none) (Flt.one W false) .none).sign = decide (ρ < 0))) ∧
      |((ρ : ℚ) : ℝ) - Real.cos ((x.mag : ℚ) : ℝ)| ≤ ((4 * e + 2 * e ^ 2 + 8 * u W : ℚ) : ℝ) := by
  have hX0 := hx.mag_pos
  have hu23 := S.u_le
  have hu0 := RelErr.u_pos W
  have hu8 : u W ≤ 1/1024 := by norm_num at hu23 ⊢; linarith
  obtain ⟨hxh, hq1, hq2⟩ := cos_half_big S hx hX1 hXlo
  obtain ⟨hst1, hst2, _, _, _⟩ := cos_level_st_big hu0 hX0 hX1 he0 he hq1 hq2 hu8 herr
  obtain ⟨s2, b, ρ, hs1, hs2, hb1, hb2, hρ, hρv, hcan, hsem, hcases⟩ := cos_double S hsx hst1 hst2
  exact ⟨ρ, hρv, hcan, hsem, hcases,
    cos_level_num_big hu0 hu8 hX0 hX1 he0 he hq1 hq2 herr hs1 hs2 hb1 hb2 hρ⟩

/-! ## a zero reduced argument -/

/-- `cos_taylor(±0)` is exactly one -/
theorem cosTaylor_zero {lo : ℚ} (S : SCtx W lo) {z : Flt} (hs : z.sem = W) (hzc : z.Canonical)
    (hz : z.cat = .zero) : PosN W (cosTaylor z) ∧ (cosTaylor z).mag = 1 := by
  have hW := S.wf
  have h6 := S.six_le_max
  have hu1 := u_le_half hW
  have h1rep : IsRep W 1 := by
    have := isRep_pow2 hW 0 (by have := Sem.emin_le_zero hW; have := S.p24; omega)
      (by have := S.pemax; have := S.p24; omega)
    simpa using this
  obtain ⟨n, hn⟩ : ∃ n, Nat.max 50 W.p - 1 = n + 3 := by
    have : 50 ≤ Nat.max 50 W.p := Nat.le_max_left _ _
    exact ⟨Nat.max 50 W.p - 4, by omega⟩
  have hdef : cosTaylor z = tayLoop W z.sqr (fun i => (i * 2 - 1) * (i * 2)) (n + 3) 1 false
      (Flt.one W false) 1 (Flt.zero W false) (Flt.one W true) := by
    unfold cosTaylor
    rw [cosTaylorLoop_eq, hs, hn]
  rw [hdef]
  -- the operands
  have hone := one_nn hW
  have hFz : z.sem.WF := by rw [hs]; exact hW
  have hsqc := sqr_canonical z hFz hzc
  have hx2 : NN W z.sqr 0 :=
    ⟨hsqc.2.trans hs, hsqc.1, Or.inr (powi2_zero_cat hz),
      fun h => by rw [show z.sqr.cat = .zero from powi2_zero_cat hz] at h; exact absurd h (by decide),
      Flt.val_zero (powi2_zero_cat hz)⟩
  have hb1 : NN W (fromBigint W 1) 1 := by
    have hcan := fromBigint_canonical W 1 hW
    have hcor := C08.fromBigint_correct W 1 hW
    rw [C08.fromNat_pos W W.rm 1 (by omega)] at hcor
    have := nn_of_rq hW hcan.2 hcan.1 W.rm (by norm_num : (0:ℚ) < ((1:ℕ):ℚ))
      (by push_cast; linarith) hcor
    rw [show ((1:ℕ):ℚ) = 1 by norm_num, rq_rep hW h1rep] at this
    exact this
  -- first iteration
  rw [tayLoop_succ, one_true_beq_zero]
  simp only [Bool.false_eq_true, if_false, Bool.not_false]
  have helem1 : NN W ((Flt.one W false).div (fromBigint W 1)) 1 := by
    have : (Flt.one W false).div (fromBigint W 1) =
        divWithRm (Flt.one W false) (fromBigint W 1) W.rm := rfl
    rw [this]
    have h := nn_div hW W.rm hone hb1 (by norm_num) (by rw [div_one]; linarith)
    rwa [div_one, rq_rep hW h1rep] at h
  have hsum1 : NN W ((Flt.zero W false).add ((Flt.one W false).div (fromBigint W 1))) 1 := by
    have : (Flt.zero W false).add ((Flt.one W false).div (fromBigint W 1)) =
        addWithRm (Flt.zero W false) ((Flt.one W false).div (fromBigint W 1)) W.rm := rfl
    rw [this]
    have h := nn_add hW W.rm (NN.zero W false) helem1 (by norm_num) (by linarith)
    rwa [zero_add, rq_rep hW h1rep] at h
  have htop1 : NN W ((Flt.one W false).mul z.sqr) 0 := by
    have : (Flt.one W false).mul z.sqr = mulWithRm (Flt.one W false) z.sqr W.rm := rfl
    rw [this]
    have h := nn_mul hW W.rm hone hx2 (by rw [mul_zero]; linarith)
    rwa [mul_zero, rq_zero] at h
  set sum1 := (Flt.zero W false).add ((Flt.one W false).div (fromBigint W 1)) with hsum1def
  set top1 := (Flt.one W false).mul z.sqr with htop1def
  -- second iteration
  rw [tayLoop_succ]
  have hbeq2 : ¬ (Flt.zero W false).beq sum1 = true := by
    rw [nn_beq_iff hW (NN.zero W false) hsum1 (by norm_num)]; norm_num
  rw [if_neg hbeq2]
  simp only [Bool.not_true, if_true]
  have helem2 : NN W (top1.div (fromBigint W (1 * ((1 * 2 - 1) * (1 * 2))))) 0 := by
    have hd : top1.div (fromBigint W (1 * ((1 * 2 - 1) * (1 * 2)))) =
        divWithRm top1 (fromBigint W (1 * ((1 * 2 - 1) * (1 * 2)))) W.rm := by
      unfold Flt.div; rw [htop1.sem]
    rw [hd]
    rcases bot_spec hW S.rm (show 1 ≤ 1 * ((1 * 2 - 1) * (1 * 2)) by norm_num) with
      ⟨hinf, _⟩ | ⟨vB, hB, hB1, _⟩
    · have hcan := fromBigint_canonical W (1 * ((1 * 2 - 1) * (1 * 2))) hW
      exact nn_div_inf hW W.rm htop1 hcan.2 hcan.1 hinf
    · have hvB : 0 < vB := by push_cast at hB1; nlinarith
      have h := nn_div hW W.rm htop1 hB hvB (by rw [zero_div]; linarith)
      rwa [zero_div, rq_zero] at h
  have hsum2 : NN W (sum1.sub (top1.div (fromBigint W (1 * ((1 * 2 - 1) * (1 * 2)))))) 1 := by
    have hd : sum1.sub (top1.div (fromBigint W (1 * ((1 * 2 - 1) * (1 * 2))))) =
        subWithRm sum1 (top1.div (fromBigint W (1 * ((1 * 2 - 1) * (1 * 2))))) W.rm := by
      unfold Flt.sub; rw [hsum1.sem]
    rw [hd]
    have h := nn_sub_ge hW W.rm hsum1 helem2 (by norm_num) (by linarith)
    rwa [sub_zero, rq_rep hW h1rep] at h
  -- third iteration: the sum did not change
  rw [tayLoop_succ]
  have hbeq3 : sum1.beq (sum1.sub (top1.div (fromBigint W (1 * ((1 * 2 - 1) * (1 * 2)))))) = true := by
    rw [nn_beq_iff hW hsum1 hsum2 (by norm_num)]
  rw [if_pos hbeq3]
  exact posN_of_nn hsum2 (by norm_num)

/-- one double-angle step at the argument zero: `sx ≈ 1` with error `e` gives `≈ 1` with error
    `4e + 2e² + 6u` -/
theorem cos_level_zero {lo : ℚ} (S : SCtx W lo) {sx : Flt} {e : ℚ} (hsx : PosN W sx) (he0 : 0 ≤ e)
    (he : e ≤ 1/512) (herr : |sx.mag - 1| ≤ e) :
    PosN W (subWithRm ((sx.sqr).scale 1 .none) (Flt.one W false) .none) ∧
      |(subWithRm ((sx.sqr).scale 1 .none) (Flt.one W false) .none).mag - 1| ≤
        4 * e + 2 * e ^ 2 + 6 * u W := by
  have hu23 := S.u_le
  have hu0 := RelErr.u_pos W
  have hu8 : u W ≤ 1/1024 := by norm_num at hu23 ⊢; linarith
  obtain ⟨a1, a2⟩ := abs_le.mp herr
  obtain ⟨s2, b, ρ, hs1, hs2, hb1, hb2, hρ, hρv, hcan, hsem, hcases⟩ :=
    cos_double S hsx (by linarith) (by linarith)
  have hst20 : 0 < sx.mag ^ 2 := by have : 0 < sx.mag := by linarith
                                    positivity
  have hust : 0 ≤ u W * sx.mag ^ 2 := mul_nonneg (le_of_lt hu0) (le_of_lt hst20)
  have hs20 : 0 ≤ s2 := by nlinarith
  have hus2 : 0 ≤ u W * s2 := mul_nonneg (le_of_lt hu0) hs20
  -- the real inequality, over `ℚ` cast to `ℝ`
  have hD : |((ρ : ℚ) : ℝ) - (2 * (1:ℝ) ^ 2 - 1)| ≤
      4 * ((e : ℚ) : ℝ) + 2 * ((e : ℚ) : ℝ) ^ 2 + 6 * ((u W : ℚ) : ℝ) := by
    have hS2 : |((s2 : ℚ) : ℝ) - ((sx.mag : ℚ) : ℝ) ^ 2| ≤ ((u W : ℚ) : ℝ) * ((sx.mag : ℚ) : ℝ) ^ 2 := by
      have : |s2 - sx.mag ^ 2| ≤ u W * sx.mag ^ 2 := by rw [abs_le]; constructor <;> linarith
      exact_mod_cast this
    have hB : |((b : ℚ) : ℝ) - 2 * ((s2 : ℚ) : ℝ)| ≤ ((u W : ℚ) : ℝ) * (2 * ((s2 : ℚ) : ℝ)) := by
      have : |b - 2 * s2| ≤ u W * (2 * s2) := by rw [abs_le]; constructor <;> linarith
      exact_mod_cast this
    have hR : |((ρ : ℚ) : ℝ) - (((b : ℚ) : ℝ) - 1)| ≤ ((u W : ℚ) : ℝ) * |((b : ℚ) : ℝ) - 1| := by
      exact_mod_cast hρ
    have hch : |((sx.mag : ℚ) : ℝ) - 1| ≤ ((e : ℚ) : ℝ) := by exact_mod_cast herr
    have her0 : (0:ℝ) ≤ ((e : ℚ) : ℝ) := by exact_mod_cast he0
    have her : ((e : ℚ) : ℝ) ≤ 1/64 := by
      have h : e ≤ 1/64 := by linarith
      have := (Rat.cast_le (K := ℝ)).mpr h
      push_cast at this; linarith
    have hur0 : (0:ℝ) < ((u W : ℚ) : ℝ) := by exact_mod_cast hu0
    have hur : ((u W : ℚ) : ℝ) ≤ 1/64 := by
      have h : u W ≤ 1/64 := by linarith
      have := (Rat.cast_le (K := ℝ)).mpr h
      push_cast at this; linarith
    exact double_prop_big (by norm_num) (le_refl _) her0 her (le_of_lt hur0) hur hch hS2 hB hR
  have hDq : |ρ - 1| ≤ 4 * e + 2 * e ^ 2 + 6 * u W := by
    have e1 : (2 * (1:ℝ) ^ 2 - 1) = 1 := by norm_num
    rw [e1] at hD
    have : |((ρ - 1 : ℚ) : ℝ)| ≤ ((4 * e + 2 * e ^ 2 + 6 * u W : ℚ) : ℝ) := by
      push_cast; exact hD
    exact_mod_cast this
  obtain ⟨d1, d2⟩ := abs_le.mp hDq
  have hesq : e ^ 2 ≤ 1/512 * e := by
    have : e ^ 2 = e * e := by ring
    rw [this]; exact mul_le_mul_of_nonneg_right he he0
  have hρpos : 0 < ρ := by linarith
  rcases hcases with ⟨_, h0⟩ | ⟨hn, hmag, hsign⟩
  · exfalso; linarith
  · have hsg : (subWithRm ((sx.sqr).scale 1 .none) (Flt.one W false) .none).sign = false := by
      rw [hsign]; simp [le_of_lt hρpos]
    rw [hmag, abs_of_pos hρpos]
    exact ⟨⟨hsem, hcan, hn, hsg⟩, hDq⟩

/-- **`cosStep4` of a zero**: a positive number within `(4+1/256)^k·3u − 3u` of one -/
theorem cosStep4_zero {lo : ℚ} (S : SCtx W lo) (K : ℕ) (hK : Gc ^ K * (3 * u W) ≤ 1/512) :
    ∀ (k : ℕ) (z : Flt), k ≤ K → z.sem = W → z.Canonical → z.cat = .zero →
      PosN W (cosStep4 k z) ∧ |(cosStep4 k z).mag - 1| + 3 * u W ≤ Gc ^ k * (3 * u W) := by
  have hu0 := RelErr.u_pos W
  have hG1 : (1:ℚ) ≤ Gc := by unfold Gc; norm_num
  intro k
  induction k with
  | zero =>
    intro z _ hs hzc hz
    obtain ⟨hP, hm⟩ := cosTaylor_zero S hs hzc hz
    refine ⟨by simpa [cosStep4] using hP, ?_⟩
    show |(cosTaylor z).mag - 1| + _ ≤ _
    rw [hm]; simp
  | succ s ih =>
    intro z hsK hs hzc hz
    have hsc : z.scale (-1) .none = z := C10.scale_special z (-1) .none (by rw [hz]; decide)
    obtain ⟨hsx, herr⟩ := ih z (by omega) hs hzc hz
    rw [cosStep4_succ, hsc, hs]
    set f := Gc ^ s * (3 * u W) with hf
    have hfK : f ≤ 1/512 := by
      have h1 : Gc ^ s ≤ Gc ^ K := pow_le_pow_right₀ hG1 (by omega)
      exact le_trans (mul_le_mul_of_nonneg_right h1 (by linarith)) hK
    have he0 : 0 ≤ f - 3 * u W := by
      have := abs_nonneg ((cosStep4 s z).mag - 1); linarith
    obtain ⟨hP, hres⟩ := cos_level_zero S hsx he0 (by linarith) (by linarith)
    refine ⟨hP, ?_⟩
    have e1 : Gc ^ (s + 1) * (3 * u W) = Gc * f := by rw [hf, pow_succ]; ring
    rw [e1]
    have h1 : (f - 3 * u W) ^ 2 ≤ (1/512) * f := by
      have : (f - 3 * u W) ^ 2 = (f - 3 * u W) * (f - 3 * u W) := by ring
      rw [this]
      exact mul_le_mul (by linarith) (by linarith) he0 (by norm_num)
    unfold Gc
    linarith

end Arp.TrigErr
