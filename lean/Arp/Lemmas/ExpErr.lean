import Arp.Lemmas.Ln2
import Arp.Lemmas.Sqrt
import Arp.Lemmas.ECf
import Arp.Lemmas.PowiErr
import Arp.Props.C18Accuracy
import Arp.Props.C19Trans
import Mathlib.Analysis.Complex.ExponentialBounds
/-!
# Lemmas for the accuracy of `Float::exp` (property C16)

`exp x` is evaluated in a working format `W = (F.growLog (10 + h)).increaseExponent 10`
(`h = halvings`): the argument is divided by `8` until it is `≤ 1` (`s` exact steps), the Taylor sum
`Σ y^k/k!` is accumulated with every `*`, `/`, `+` rounded in `W`'s (nearest) mode until the sum stops
changing, the result is squared `3s` times and cast to `F`; negative arguments take the
reciprocal of `exp(-x)` computed in a second, wider format.

1. **Series** (`tq`, `Sq`, `Sq_le_exp`, `exp_sub_Sq_le`, `Sq_le_three`): the rational partial sums
   against `Real.exp` (`Real.exp_bound'`: the tail after `n ≥ 1` terms is at most `2·y^n/n!`).
2. **`Near` → relative error** (`near_rel`: `k` perturbations of size `v`, `k·v ≤ 1/2`, give a
   relative error `≤ 2kv`), `near_mono_v`, `near_sq`.
3. **Float operations in the calculus** (`posN_of_inRange`, `mul_op`, `div_op`, `add_op`, `zero_add_op`,
   `load_op`, structure `Ap W k a x`: `x` is a positive canonical value of `W` whose magnitude is `a`
   after `k` relative perturbations of size `unit W W.rm`; `Ap.mul/div/add/load`).
4. **The Taylor loop** (`TCtx`, `TInv`, `stay_nearest`, `tinv_step`, `taylor_loop`, `taylor_first`,
   `expTaylor_spec`, **`expTaylor_accuracy`**): after `j` terms the sum is `Sq y j` up to `j + 2`
   perturbations; while the loop continues the last term is `≥ 2^(-p-1)` (this keeps every
   intermediate far above the underflow threshold and every factorial finite); when it stops
   (sum unchanged, or `max 50 p - 1` iterations) the next term is `≤ 2·2^(1-p)`.
5. **Casts and squarings** (`cast_op`, `widen_op`, `sqr_op`, `sqr_ap`, `sqrN`, `sqr_iter`,
   **`sqr3_accuracy`**): one squaring turns `c` perturbations into `2c + 2`.
6. **Range reduction** (`isRep_div8`, `div8_op`, `reduce_loop`, `RCtx`, `rr_spec`,
   **`rr_accuracy`**): `|exp_range_reduce z - e^z| ≤ 2^(3⌊H/3⌋)·(max 50 p + 7)·2^(1-p)·e^z`.
7. **The working format** (`wfmt`, `guard_bound`, `rctx_wfmt`): with `h ≤ 13` guard bits the bound of
   6. is `≤ 2^(g-p_F-7)` when at most `g` squarings are not covered by a guard bit.
8. **The final rounding** (`round_fin_nearest`, `final_round`, `nearThreshold_eq`,
   `final_round_gen`): a value with relative error `c·2^-p`, `c ≤ 1/8`, is rounded to within
   `1/2 + c` ulp; overflow, underflow and subnormal results are characterised.
-/

namespace Arp.ExpErr
open Finset

/-! ## 1. the Taylor series over `ℚ` and its relation to `Real.exp` -/

/-- the `k`-th term `y^k / k!` -/
def tq (y : ℚ) (k : ℕ) : ℚ := y ^ k / (k.factorial : ℚ)

/-- partial sums `Sq y n = Σ_{k<n} y^k/k!` -/
def Sq (y : ℚ) (n : ℕ) : ℚ := ∑ k ∈ range n, tq y k

theorem tq_zero (y : ℚ) : tq y 0 = 1 := by simp [tq]

theorem tq_one (y : ℚ) : tq y 1 = y := by simp [tq]

theorem tq_nonneg {y : ℚ} (hy : 0 ≤ y) (k : ℕ) : 0 ≤ tq y k := by unfold tq; positivity

theorem tq_pos {y : ℚ} (hy : 0 < y) (k : ℕ) : 0 < tq y k := by unfold tq; positivity

theorem tq_succ (y : ℚ) (k : ℕ) : tq y (k + 1) = tq y k * y / ((k:ℚ) + 1) := by
  unfold tq
  rw [Nat.factorial_succ, pow_succ]
  push_cast
  have : (k.factorial : ℚ) ≠ 0 := by positivity
  have : ((k:ℚ) + 1) ≠ 0 := by positivity
  field_simp

theorem tq_succ_le {y : ℚ} (hy : 0 ≤ y) (hy1 : y ≤ 1) (k : ℕ) : tq y (k + 1) ≤ tq y k := by
  rw [tq_succ]
  have h0 := tq_nonneg hy k
  have hk : (0:ℚ) ≤ (k:ℚ) := Nat.cast_nonneg k
  rw [div_le_iff₀ (by positivity)]
  nlinarith

theorem tq_le_inv_fact {y : ℚ} (hy : 0 ≤ y) (hy1 : y ≤ 1) (k : ℕ) :
    tq y k ≤ 1 / (k.factorial : ℚ) := by
  unfold tq
  apply div_le_div_of_nonneg_right _ (by positivity)
  exact pow_le_one₀ hy hy1

theorem Sq_zero (y : ℚ) : Sq y 0 = 0 := by simp [Sq]

theorem Sq_succ (y : ℚ) (n : ℕ) : Sq y (n + 1) = Sq y n + tq y n := by
  unfold Sq; rw [sum_range_succ]

theorem Sq_one (y : ℚ) : Sq y 1 = 1 := by rw [Sq_succ, Sq_zero, tq_zero]; ring

theorem Sq_mono {y : ℚ} (hy : 0 ≤ y) (n : ℕ) : Sq y n ≤ Sq y (n + 1) := by
  rw [Sq_succ]; have := tq_nonneg hy n; linarith

theorem one_le_Sq {y : ℚ} (hy : 0 ≤ y) {n : ℕ} (hn : 1 ≤ n) : 1 ≤ Sq y n := by
  induction n, hn using Nat.le_induction with
  | base => rw [Sq_one]
  | succ n _ ih => exact le_trans ih (Sq_mono hy n)

theorem cast_tq (y : ℚ) (k : ℕ) : ((tq y k : ℚ) : ℝ) = (y:ℝ) ^ k / (k.factorial : ℝ) := by
  unfold tq; push_cast; rfl

theorem cast_Sq (y : ℚ) (n : ℕ) :
    ((Sq y n : ℚ) : ℝ) = ∑ k ∈ range n, (y:ℝ) ^ k / (k.factorial : ℝ) := by
  unfold Sq; push_cast; apply sum_congr rfl; intro k _; exact cast_tq y k

theorem Sq_le_exp {y : ℚ} (hy : 0 ≤ y) (n : ℕ) : ((Sq y n : ℚ) : ℝ) ≤ Real.exp y := by
  rw [cast_Sq]
  exact Real.sum_le_exp_of_nonneg (by exact_mod_cast hy) n

/-- tail of the series: `exp y - S_n ≤ 2·y^n/n!` for `0 ≤ y ≤ 1`, `n ≥ 1` -/
theorem exp_sub_Sq_le {y : ℚ} (hy : 0 ≤ y) (hy1 : y ≤ 1) {n : ℕ} (hn : 1 ≤ n) :
    Real.exp y - ((Sq y n : ℚ) : ℝ) ≤ 2 * ((tq y n : ℚ) : ℝ) := by
  have hyR : (0:ℝ) ≤ (y:ℝ) := by exact_mod_cast hy
  have hy1R : (y:ℝ) ≤ 1 := by exact_mod_cast hy1
  have h := Real.exp_bound' hyR hy1R (n := n) hn
  rw [cast_Sq, cast_tq]
  have hf : (0:ℝ) < (n.factorial : ℝ) := by exact_mod_cast n.factorial_pos
  have hnR : (1:ℝ) ≤ (n:ℝ) := by exact_mod_cast hn
  have hp : (0:ℝ) ≤ (y:ℝ) ^ n := pow_nonneg hyR n
  have : (y:ℝ) ^ n * ((n:ℝ) + 1) / ((n.factorial:ℝ) * (n:ℝ)) ≤ 2 * ((y:ℝ) ^ n / (n.factorial:ℝ)) := by
    rw [div_le_iff₀ (by positivity)]
    have e : 2 * ((y:ℝ) ^ n / (n.factorial:ℝ)) * ((n.factorial:ℝ) * (n:ℝ)) = 2 * (y:ℝ) ^ n * (n:ℝ) := by
      field_simp
    rw [e]
    nlinarith
  linarith

theorem Sq_le_three {y : ℚ} (hy : 0 ≤ y) (hy1 : y ≤ 1) (n : ℕ) : Sq y n ≤ 3 := by
  have h1 := Sq_le_exp hy n
  have h2 : Real.exp y ≤ Real.exp 1 := Real.exp_le_exp.mpr (by exact_mod_cast hy1)
  have h3 := Real.exp_one_lt_d9
  have : ((Sq y n : ℚ) : ℝ) ≤ ((3:ℚ):ℝ) := by push_cast; linarith
  exact_mod_cast this

/-- `(m+1)! ≥ 2^m`  -/
theorem two_pow_le_fact (m : ℕ) : 2 ^ m ≤ (m + 1).factorial := by
  induction m with
  | zero => simp
  | succ m ih =>
    rw [Nat.factorial_succ, pow_succ]
    nlinarith

/-- `m! ≥ 2^(m+2)` for `m ≥ 6` -/
theorem two_pow_add_two_le_fact (m : ℕ) (hm : 6 ≤ m) : 2 ^ (m + 2) ≤ m.factorial := by
  induction m, hm using Nat.le_induction with
  | base => decide
  | succ m hm ih =>
    rw [Nat.factorial_succ, pow_succ]
    nlinarith

end Arp.ExpErr

namespace Arp.ExpErr
open Arp Arp.RelErr

/-! ## 2. from `Near` to a relative error bound -/

/-- `k` perturbations of size `v` with `k·v ≤ 1/2`: relative error at most `2·k·v` -/
theorem near_rel {v a a' : ℚ} {k : ℕ} (hv : 0 ≤ v) (hkv : (k:ℚ) * v ≤ 1/2) (ha : 0 ≤ a)
    (h : Near v k a a') : |a' - a| ≤ 2 * (k:ℚ) * v * a := by
  rcases Nat.eq_zero_or_pos k with hk | hk
  · subst hk
    obtain ⟨h1, h2⟩ := h
    simp only [pow_zero, one_mul] at h1 h2
    have : a' = a := le_antisymm h2 h1
    rw [this]; simp
  have hk1 : (1:ℚ) ≤ (k:ℚ) := by exact_mod_cast hk
  have hv1 : v < 1 := by nlinarith
  have hb := h.abs_le hv hv1
  have hbern := powi_bern_lo (le_of_lt hv1) k
  have ht1 := Near.tle hv hv1 k
  have habs := abs_nonneg (a' - a)
  have hkv0 : 0 ≤ (k:ℚ) * v := by positivity
  -- (1 - kv)|a'-a| ≤ (1-v)^k |a'-a| ≤ (1 - (1-v)^k) a ≤ kv a
  have h1 : (1 - (k:ℚ) * v) * |a' - a| ≤ (k:ℚ) * v * a := by
    calc (1 - (k:ℚ) * v) * |a' - a| ≤ (1 - v) ^ k * |a' - a| :=
          mul_le_mul_of_nonneg_right hbern habs
      _ ≤ (1 - (1 - v) ^ k) * a := hb
      _ ≤ (k:ℚ) * v * a := mul_le_mul_of_nonneg_right (by linarith) ha
  nlinarith

/-- a smaller perturbation size is a stronger statement -/
theorem near_mono_v {v w a a' : ℚ} {k : ℕ} (hvw : v ≤ w) (hw1 : w ≤ 1) (ha : 0 ≤ a)
    (ha' : 0 ≤ a') (h : Near v k a a') : Near w k a a' := by
  have hle : (1 - w) ^ k ≤ (1 - v) ^ k := pow_le_pow_left₀ (by linarith) (by linarith) k
  exact ⟨le_trans (mul_le_mul_of_nonneg_right hle ha) h.1,
    le_trans (mul_le_mul_of_nonneg_right hle ha') h.2⟩

/-- powers -/
theorem near_sq {v a a' : ℚ} {k : ℕ} (hv1 : v < 1) (ha : 0 ≤ a) (ha' : 0 ≤ a')
    (h : Near v k a a') : Near v (2 * k) (a ^ 2) (a' ^ 2) := by
  have := Near.mul hv1 ha ha ha' ha' h h
  rw [show k + k = 2 * k by ring, ← pow_two, ← pow_two] at this
  exact this

end Arp.ExpErr

/-! ## `exp`: the float operations of the Taylor loop in the calculus `Near` -/

namespace Arp.ExpErr
open Arp Arp.SpecRound Arp.Sqrt Arp.RelErr

variable {W : Sem}

/-- a float whose `toRes` is the rounding of an in-range magnitude -/
theorem posN_of_inRange (hW : W.WF) {y : Flt} (hs : y.sem = W) {q : ℚ} (hr : InRange W q)
    (hy : y.toRes = Spec.round W W.rm false q) :
    PosN W y ∧ y.mag = rnd W W.rm q ∧ Near (unit W W.rm) 1 q y.mag := by
  have hq := inRange_pos hr
  obtain ⟨e, m, hfin⟩ := round_fin_of_range hW W.rm false hr.1 hr.2
  obtain ⟨h1, h2⟩ := posN_of_round hW hs hq hfin hy
  obtain ⟨_, _, _, h3⟩ := flt_of_round hW W.rm hs hr hy
  exact ⟨h1, h2, h3⟩

theorem mul_op (hW : W.WF) {a b : Flt} (ha : PosN W a) (hb : PosN W b)
    (hr : InRange W (a.mag * b.mag)) :
    PosN W (a.mul b) ∧ (a.mul b).mag = rnd W W.rm (a.mag * b.mag) ∧
      Near (unit W W.rm) 1 (a.mag * b.mag) (a.mul b).mag := by
  have hFa : a.sem.WF := by rw [ha.sem]; exact hW
  have hc := C01.mul_correct a b a.sem.rm hFa (hb.sem.trans ha.sem.symm) ha.can hb.can
  have hsem := (mul_canonical a b hFa).2
  apply posN_of_inRange hW (hsem.trans ha.sem) hr
  show (mulWithRm a b a.sem.rm).toRes = _
  rw [hc, ha.sem]
  simp [Spec.mul, Spec.isNan, Spec.isInf, Spec.isZero, ha.cat, hb.cat, ha.sign, hb.sign]

theorem div_op (hW : W.WF) {a b : Flt} (ha : PosN W a) (hb : PosN W b)
    (hr : InRange W (a.mag / b.mag)) :
    PosN W (a.div b) ∧ (a.div b).mag = rnd W W.rm (a.mag / b.mag) ∧
      Near (unit W W.rm) 1 (a.mag / b.mag) (a.div b).mag := by
  have hFa : a.sem.WF := by rw [ha.sem]; exact hW
  have hc := C01.div_correct a b a.sem.rm hFa (hb.sem.trans ha.sem.symm) ha.can hb.can
  have hsem := (div_canonical a b hFa).2
  apply posN_of_inRange hW (hsem.trans ha.sem) hr
  show (divWithRm a b a.sem.rm).toRes = _
  rw [hc, ha.sem]
  simp [Spec.div, Spec.isNan, Spec.isInf, Spec.isZero, ha.cat, hb.cat, ha.sign, hb.sign]

theorem add_op (hW : W.WF) {a b : Flt} (ha : PosN W a) (hb : PosN W b)
    (hr : InRange W (a.mag + b.mag)) :
    PosN W (a.add b) ∧ (a.add b).mag = rnd W W.rm (a.mag + b.mag) ∧
      Near (unit W W.rm) 1 (a.mag + b.mag) (a.add b).mag := by
  have hFa : a.sem.WF := by rw [ha.sem]; exact hW
  have hs : b.sem = a.sem := hb.sem.trans ha.sem.symm
  have hc := C01.add_correct a b a.sem.rm hFa hs ha.can hb.can
  have hsem := (add_canonical a b hFa hs ha.can hb.can).2
  have hq := inRange_pos hr
  apply posN_of_inRange hW (hsem.trans ha.sem) hr
  show (addWithRm a b a.sem.rm).toRes = _
  rw [hc, ha.sem]
  have hva : a.val = a.mag := by rw [Flt.val_normal ha.cat, ha.sign]; rfl
  have hvb : b.val = b.mag := by rw [Flt.val_normal hb.cat, hb.sign]; rfl
  simp only [Spec.add, Spec.isNan, Spec.isInf, Spec.isZero, ha.cat, hb.cat, hva, hvb]
  simp only [Spec.roundQ, if_neg (ne_of_gt hq), if_pos hq]
  simp

/-- `+0 + b = b` -/
theorem zero_add_op (hW : W.WF) {b : Flt} (hb : PosN W b) :
    PosN W ((Flt.zero W false).add b) ∧ ((Flt.zero W false).add b).mag = b.mag := by
  have hz : (Flt.zero W false).Canonical := Flt.zero_canonical _ _
  have hs : b.sem = (Flt.zero W false).sem := hb.sem
  have hc := C01.add_correct (Flt.zero W false) b W.rm hW hs hz hb.can
  have hsem := (add_canonical (Flt.zero W false) b hW hs hz hb.can).2
  have hq := hb.mag_pos
  obtain ⟨e, m, hfin, hval⟩ := round_exact hW hq hb.isRep W.rm false
  have hvb : b.val = b.mag := by rw [Flt.val_normal hb.cat, hb.sign]; rfl
  have hres : ((Flt.zero W false).add b).toRes = Spec.round W W.rm false b.mag := by
    show (addWithRm (Flt.zero W false) b W.rm).toRes = _
    rw [hc]
    have hzv : (Flt.zero W false).val = 0 := Flt.val_zero rfl
    have hzc : (Flt.zero W false).cat = .zero := rfl
    have hzs : (Flt.zero W false).sem = W := rfl
    simp only [Spec.add, Spec.isNan, Spec.isInf, Spec.isZero, hb.cat, hvb, hzv, hzc, hzs]
    simp only [Spec.roundQ, zero_add, if_neg (ne_of_gt hq), if_pos hq]
    simp
  obtain ⟨h1, h2⟩ := posN_of_round hW hsem hq hfin hres
  refine ⟨h1, ?_⟩
  rw [h2, rnd_rep hW W.rm hb.isRep hq]

/-- loading a positive integer -/
theorem load_op (hW : W.WF) {n : ℕ} (hn : 0 < n) (hle : (n:ℚ) ≤ maxFinite W) :
    PosN W (fromBigint W n) ∧ (fromBigint W n).mag = rnd W W.rm (n:ℚ) ∧
      Near (unit W W.rm) 1 (n:ℚ) (fromBigint W n).mag := by
  have hnq : (0:ℚ) < (n:ℚ) := by exact_mod_cast hn
  have h1 : (1:ℚ) ≤ (n:ℚ) := by exact_mod_cast hn
  have hr : InRange W (n:ℚ) := by
    refine ⟨le_trans ?_ h1, hle⟩
    have := zpow_le_zpow_right₀ (by norm_num : (1:ℚ) ≤ 2) (Sem.emin_le_zero hW)
    simpa using this
  apply posN_of_inRange hW (fromBigint_canonical W n hW).2 hr
  rw [C08.fromBigint_correct W n hW]
  unfold Spec.fromNat Spec.roundQ
  rw [if_neg (ne_of_gt hnq), if_pos hnq]

/-! ### the calculus at `Flt` level -/

/-- `x` is a positive canonical value of `W` whose magnitude is `a` after `k` relative
    perturbations of size `unit W W.rm` -/
structure Ap (W : Sem) (k : ℕ) (a : ℚ) (x : Flt) : Prop where
  pos : PosN W x
  near : Near (unit W W.rm) k a x.mag

namespace Ap
variable {j k : ℕ} {a b : ℚ} {x y : Flt}

theorem exact {x : Flt} (h : PosN W x) : Ap W 0 x.mag x := ⟨h, Near.refl _ _⟩

theorem mono (hW : W.WF) (ha : 0 < a) (hjk : j ≤ k) (h : Ap W j a x) : Ap W k a x :=
  ⟨h.pos, h.near.mono (le_of_lt (unit_pos W W.rm)) (unit_lt_one hW W.rm) (le_of_lt ha)
    (le_of_lt h.pos.mag_pos) hjk⟩

theorem mul (hW : W.WF) (ha : 0 < a) (hb : 0 < b) (hx : Ap W j a x) (hy : Ap W k b y)
    (hr : InRange W (x.mag * y.mag)) : Ap W (j + k + 1) (a * b) (x.mul y) := by
  have hv1 := unit_lt_one hW W.rm
  obtain ⟨h1, _, h3⟩ := mul_op hW hx.pos hy.pos hr
  exact ⟨h1, (Near.mul hv1 (le_of_lt ha) (le_of_lt hb) (le_of_lt hx.pos.mag_pos)
    (le_of_lt hy.pos.mag_pos) hx.near hy.near).trans hv1 h3⟩

theorem div (hW : W.WF) (ha : 0 < a) (hb : 0 < b) (hx : Ap W j a x) (hy : Ap W k b y)
    (hr : InRange W (x.mag / y.mag)) : Ap W (j + k + 1) (a / b) (x.div y) := by
  have hv1 := unit_lt_one hW W.rm
  obtain ⟨h1, _, h3⟩ := div_op hW hx.pos hy.pos hr
  exact ⟨h1, (Near.div hv1 (le_of_lt ha) hb (le_of_lt hx.pos.mag_pos)
    hy.pos.mag_pos hx.near hy.near).trans hv1 h3⟩

theorem add (hW : W.WF) (ha : 0 < a) (hb : 0 < b) (hx : Ap W j a x) (hy : Ap W k b y)
    (hr : InRange W (x.mag + y.mag)) : Ap W (max j k + 1) (a + b) (x.add y) := by
  have hv0 := le_of_lt (unit_pos W W.rm)
  have hv1 := unit_lt_one hW W.rm
  obtain ⟨h1, _, h3⟩ := add_op hW hx.pos hy.pos hr
  exact ⟨h1, (Near.add_max hv0 hv1 (le_of_lt ha) (le_of_lt hb) (le_of_lt hx.pos.mag_pos)
    (le_of_lt hy.pos.mag_pos) hx.near hy.near).trans hv1 h3⟩

theorem load (hW : W.WF) {n : ℕ} (hn : 0 < n) (hle : (n:ℚ) ≤ maxFinite W) :
    Ap W 1 (n:ℚ) (fromBigint W n) := by
  obtain ⟨h1, _, h3⟩ := load_op hW hn hle
  exact ⟨h1, h3⟩

end Ap

end Arp.ExpErr

/-! ## `exp`: the Taylor loop `exp_taylor` -/

namespace Arp.ExpErr
open Arp Arp.SpecRound Arp.Sqrt Arp.RelErr

/-- number of terms of `exp_taylor` -/
def tN (W : Sem) : ℕ := max 50 W.p

/-- what the analysis of `exp_taylor y` needs: a nearest mode, `p ≥ 16`, `2^-L ≤ y ≤ 1`, and an
    exponent range that is wide compared with `L` and `p` -/
structure TCtx (W : Sem) (y : Flt) (L : ℕ) : Prop where
  wf : W.WF
  rm : W.rm = .nte ∨ W.rm = .nta
  p16 : 16 ≤ W.p
  ypos : PosN W y
  yle : y.mag ≤ 1
  ylo : (2:ℚ) ^ (-(L:ℤ)) ≤ y.mag
  emin : 2 * (L:ℤ) + 2 * (W.p:ℤ) + 8 ≤ -W.emin
  emax : 2 * (W.p:ℤ) + 8 ≤ W.emax

variable {W : Sem} {y : Flt} {L : ℕ}

/-- the unit of a nearest mode is `2^-p` -/
theorem unit_eq (C : TCtx W y L) : unit W W.rm = (2:ℚ) ^ (-(W.p:ℤ)) := by
  rw [unit_nearest C.rm]; unfold u
  rw [show (1:ℤ) - (W.p:ℤ) = -(W.p:ℤ) + 1 by ring, zpow_add_one₀ (by norm_num)]; ring

theorem u_eq (C : TCtx W y L) : u W = 2 * unit W W.rm := by
  rw [unit_nearest C.rm]; ring

theorem tN_ge (W : Sem) : 50 ≤ tN W := le_max_left _ _
theorem tN_ge_p (W : Sem) : W.p ≤ tN W := le_max_right _ _

theorem mul512_le_two_pow (p : ℕ) (hp : 16 ≤ p) : (p + 2) * 512 ≤ 2 ^ p := by
  obtain ⟨d, rfl⟩ : ∃ d, p = 16 + d := ⟨p - 16, by omega⟩
  have h1 : d + 1 ≤ 2 ^ d := Nat.lt_two_pow_self
  have h2 : (2:ℕ) ^ 16 = 65536 := by norm_num
  rw [pow_add, h2]
  nlinarith

theorem two_pow_ge_65536 (p : ℕ) (hp : 16 ≤ p) : 65536 ≤ 2 ^ p := by
  have h2 : (2:ℕ) ^ 16 = 65536 := by norm_num
  rw [← h2]; exact Nat.pow_le_pow_right (by norm_num) hp

theorem tN_small (C : TCtx W y L) : (tN W + 2) * 512 ≤ 2 ^ W.p := by
  have h1 := mul512_le_two_pow W.p C.p16
  have h2 := two_pow_ge_65536 W.p C.p16
  unfold tN
  rcases Nat.le_total 50 W.p with h | h
  · rw [max_eq_right h]; exact h1
  · rw [max_eq_left h]; exact le_trans (by norm_num) h2

/-- `(k)·unit ≤ 2^-9` for every perturbation count of the loop -/
theorem kv_small (C : TCtx W y L) {k : ℕ} (hk : k ≤ tN W + 2) :
    (k:ℚ) * unit W W.rm ≤ 1 / 512 := by
  rw [unit_eq C, zpow_neg, zpow_natCast]
  have h := tN_small C
  have h2 : ((k * 512 : ℕ) : ℚ) ≤ ((2 ^ W.p : ℕ) : ℚ) := Nat.cast_le.mpr (by nlinarith)
  push_cast at h2
  have hpos : (0:ℚ) < 2 ^ W.p := by positivity
  rw [← div_eq_mul_inv, div_le_div_iff₀ hpos (by norm_num)]
  linarith

theorem pw_ge (C : TCtx W y L) {k : ℕ} (hk : k ≤ tN W + 2) :
    511 / 512 ≤ (1 - unit W W.rm) ^ k := by
  have h1 := powi_bern_lo (le_of_lt (unit_lt_one C.wf W.rm)) k
  have h2 := kv_small C hk
  linarith

/-- crude two-sided bounds from `Near` for the counts of the loop -/
theorem near_bounds (C : TCtx W y L) {k : ℕ} (hk : k ≤ tN W + 2) {a a' : ℚ} (ha : 0 ≤ a)
    (ha' : 0 ≤ a') (h : Near (unit W W.rm) k a a') : 511 / 512 * a ≤ a' ∧ 511 / 512 * a' ≤ a := by
  have hp := pw_ge C hk
  exact ⟨le_trans (mul_le_mul_of_nonneg_right hp ha) h.1,
    le_trans (mul_le_mul_of_nonneg_right hp ha') h.2⟩

theorem isRep_one (C : TCtx W y L) : IsRep W 1 := by
  have := isRep_pow C.wf 0 (by have := C.emin; have := C.p16; omega) (by have := C.emax; omega)
  simpa using this

theorem isRep_four (C : TCtx W y L) : IsRep W 4 := by
  have := isRep_pow C.wf 2 (by have := C.emin; have := C.p16; omega) (by have := C.emax; omega)
  norm_num at this; exact this

theorem four_le_max (C : TCtx W y L) : (4:ℚ) ≤ maxFinite W := (isRep_four C).le_maxFinite

/-- everything between `2^(-2p-2L-2)` and `4` is in range -/
theorem inRange_of (C : TCtx W y L) {q : ℚ} (h1 : (2:ℚ) ^ (-(2 * (W.p:ℤ) + 2 * (L:ℤ) + 3)) ≤ q)
    (h2 : q ≤ 4) : InRange W q := by
  refine ⟨le_trans ?_ h1, le_trans h2 (four_le_max C)⟩
  exact zpow_le_zpow_right₀ (by norm_num) (by have := C.emin; omega)

theorem tN_le_pow (C : TCtx W y L) : (tN W : ℚ) ≤ (2:ℚ) ^ W.p := by
  have := tN_small C
  have h : tN W ≤ 2 ^ W.p := by omega
  exact_mod_cast h

/-- the loop invariant after `j ≥ 1` terms -/
structure TInv (W : Sem) (y : Flt) (j : ℕ) (top sum prev : Flt) : Prop where
  htop : Ap W j (y.mag ^ j) top
  hsum : Ap W (j + 2) (Sq y.mag j) sum
  one_le : 1 ≤ sum.mag
  ex : prev.beq sum = true → tq y.mag (j - 1) ≤ 2 * u W
  cont : prev.beq sum = false → (2:ℚ) ^ (-(W.p:ℤ) - 1) ≤ tq y.mag (j - 1)

theorem expTaylorLoop_succ (sem : Sem) (x : Flt) (n k : ℕ) (top : Flt) (bottom : ℕ) (sum prev : Flt) :
    expTaylorLoop sem x (n + 1) k top bottom sum prev =
      if prev.beq sum then sum else
        expTaylorLoop sem x n (k + 1) (top.mul x) (bottom * k)
          (sum.add (top.div (fromBigint sem bottom))) sum := rfl

/-- a sum `≥ 1` absorbs an addend below half an ulp of `1` (nearest modes) -/
theorem stay_nearest (hW : W.WF) (hrm : W.rm = .nte ∨ W.rm = .nta) {x : Flt} (hx : PosN W x)
    (h1 : 1 ≤ x.mag) {e : ℚ} (he0 : 0 ≤ e) (he : e < (2:ℚ) ^ (-(W.p:ℤ)))
    (hr : InRange W (x.mag + e)) : rnd W W.rm (x.mag + e) = x.mag := by
  have hp : 1 ≤ W.p := by have := hW.2; omega
  obtain ⟨c1, c2, _, c4, c5⟩ := (Flt.canonical_normal hx.cat).mp hx.can
  rw [hx.sem] at c1 c2 c4 c5
  have hmag := hx.mag_ulp
  have hlt : x.mag < (2:ℚ) ^ (x.exp + 1) := C19.mag_lt_pow x (by rw [hx.sem]; exact c4)
  have hexp : 0 ≤ x.exp := by
    have h2 : (2:ℚ) ^ (0:ℤ) < (2:ℚ) ^ (x.exp + 1) := by rw [zpow_zero]; linarith
    have := (zpow_lt_zpow_iff_right₀ (by norm_num : (1:ℚ) < 2)).mp h2
    omega
  have hulp : (2:ℚ) ^ (-(W.p:ℤ)) ≤ W.ulp x.exp / 2 := by
    have h2 := W.ulp_mono hexp
    have h3 : W.ulp 0 = 2 * (2:ℚ) ^ (-(W.p:ℤ)) := by
      unfold Sem.ulp
      rw [show (0:ℤ) - ((W.p:ℤ) - 1) = -(W.p:ℤ) + 1 by ring, zpow_add_one₀ (by norm_num)]; ring
    linarith
  have hq : 0 < x.mag + e := by linarith
  have hle : rnd W W.rm (x.mag + e) ≤ (x.mant:ℚ) * W.ulp x.exp :=
    rnd_near_le hW hrm hq c1 c2 c4 c5 (by rw [hmag]; linarith)
  have hrx : InRange W x.mag := by
    refine ⟨?_, by linarith [hr.2]⟩
    have := zpow_le_zpow_right₀ (by norm_num : (1:ℚ) ≤ 2) (Sem.emin_le_zero hW)
    rw [zpow_zero] at this; linarith
  have hge := ECf.rnd_mono hW W.rm hrx hr (by linarith)
  rw [rnd_rep hW W.rm hx.isRep hx.mag_pos] at hge
  rw [← hmag] at hle
  exact le_antisymm hle hge

theorem inRange_one_four (C : TCtx W y L) {q : ℚ} (h1 : 1 ≤ q) (h2 : q ≤ 4) : InRange W q := by
  refine ⟨?_, le_trans h2 (four_le_max C)⟩
  have := zpow_le_zpow_right₀ (by norm_num : (1:ℚ) ≤ 2) (Sem.emin_le_zero C.wf)
  rw [zpow_zero] at this; linarith

/-- one iteration of the loop preserves the invariant -/
theorem tinv_step (C : TCtx W y L) {i : ℕ} (hjN : i + 3 ≤ tN W) {top sum prev : Flt}
    (h : TInv W y (i + 1) top sum prev) (hb : prev.beq sum = false) :
    TInv W y (i + 2) (top.mul y) (sum.add (top.div (fromBigint W (i + 1).factorial))) sum := by
  have hW := C.wf
  have hp1 : 1 ≤ W.p := by have := C.p16; omega
  have hv0 : 0 < unit W W.rm := unit_pos W W.rm
  have hv1 : unit W W.rm < 1 := unit_lt_one hW W.rm
  have hy0 : 0 < y.mag := C.ypos.mag_pos
  have hy1 := C.yle
  have hcont := h.cont hb
  rw [Nat.add_sub_cancel] at hcont
  -- abbreviations for the powers of two
  have hcdef : (2:ℚ) ^ (-(W.p:ℤ) - 1) = 1 / (2:ℚ) ^ (W.p + 1) := by
    rw [show -(W.p:ℤ) - 1 = -((W.p + 1 : ℕ) : ℤ) by push_cast; ring, zpow_neg, zpow_natCast, one_div]
  have hcpos : (0:ℚ) < (2:ℚ) ^ (W.p + 1) := by positivity
  have hfi : (0:ℚ) < (i.factorial : ℚ) := by exact_mod_cast i.factorial_pos
  have hfi1 : (1:ℚ) ≤ (i.factorial : ℚ) := by exact_mod_cast i.factorial_pos
  have hyi : y.mag ^ i ≤ 1 := pow_le_one₀ (le_of_lt hy0) hy1
  have hyipos : 0 < y.mag ^ i := pow_pos hy0 i
  -- `i!/2^(p+1) ≤ y^i`
  have hyi_lo : (i.factorial : ℚ) / (2:ℚ) ^ (W.p + 1) ≤ y.mag ^ i := by
    rw [hcdef] at hcont
    unfold tq at hcont
    rw [div_le_div_iff₀ hcpos hfi] at hcont
    rw [div_le_iff₀ hcpos]; linarith
  have hfact_i : (i.factorial : ℚ) ≤ (2:ℚ) ^ (W.p + 1) := by
    rw [div_le_iff₀ hcpos] at hyi_lo; nlinarith
  have hNp := tN_le_pow C
  have hi1N : ((i:ℚ) + 1) ≤ (2:ℚ) ^ W.p := by
    have : ((i + 1 : ℕ) : ℚ) ≤ (tN W : ℚ) := Nat.cast_le.mpr (by omega)
    push_cast at this; linarith
  -- (R1) the factorial is finite
  have hfj : ((i + 1).factorial : ℚ) = ((i:ℚ) + 1) * (i.factorial : ℚ) := by
    rw [Nat.factorial_succ]; push_cast; ring
  have hfjpos : (0:ℚ) < ((i + 1).factorial : ℚ) := by exact_mod_cast (i + 1).factorial_pos
  have hR1 : (((i + 1).factorial : ℕ) : ℚ) ≤ maxFinite W := by
    have h1 : ((i + 1).factorial : ℚ) ≤ (2:ℚ) ^ W.p * (2:ℚ) ^ (W.p + 1) := by
      rw [hfj]; exact mul_le_mul hi1N hfact_i (le_of_lt hfi) (by positivity)
    have h2 : (2:ℚ) ^ W.p * (2:ℚ) ^ (W.p + 1) = (2:ℚ) ^ (((W.p + (W.p + 1) : ℕ)) : ℤ) := by
      rw [zpow_natCast, ← pow_add]
    have h3 : (2:ℚ) ^ (((W.p + (W.p + 1) : ℕ)) : ℤ) ≤ (2:ℚ) ^ W.emax :=
      zpow_le_zpow_right₀ (by norm_num) (by have := C.emax; push_cast; omega)
    have h4 := pow_emax_le_maxFinite (F := W) hp1
    linarith
  have hbot := Ap.load hW (Nat.factorial_pos (i + 1)) hR1
  -- lower bound of the next term
  have hd0 : (0:ℚ) < (2:ℚ) ^ (-(L:ℤ)) := by positivity
  have hpinv : (2:ℚ) ^ (-(W.p:ℤ)) = 1 / (2:ℚ) ^ W.p := by rw [zpow_neg, zpow_natCast, one_div]
  have htq_lo : (2:ℚ) ^ (-(W.p:ℤ) - 1) * (2:ℚ) ^ (-(L:ℤ)) * (2:ℚ) ^ (-(W.p:ℤ)) ≤ tq y.mag (i + 1) := by
    rw [tq_succ, hpinv, mul_one_div]
    have hnum : (2:ℚ) ^ (-(W.p:ℤ) - 1) * (2:ℚ) ^ (-(L:ℤ)) ≤ tq y.mag i * y.mag :=
      mul_le_mul hcont C.ylo (le_of_lt hd0) (le_of_lt (tq_pos hy0 i))
    have hpos2 : (0:ℚ) < tq y.mag i * y.mag := mul_pos (tq_pos hy0 i) hy0
    calc (2:ℚ) ^ (-(W.p:ℤ) - 1) * (2:ℚ) ^ (-(L:ℤ)) / (2:ℚ) ^ W.p
        ≤ tq y.mag i * y.mag / (2:ℚ) ^ W.p :=
          div_le_div_of_nonneg_right hnum (by positivity)
      _ ≤ tq y.mag i * y.mag / ((i:ℚ) + 1) :=
          div_le_div_of_nonneg_left (le_of_lt hpos2) (by positivity) hi1N
  have htq_le1 : tq y.mag (i + 1) ≤ 1 := by
    have := tq_le_inv_fact (le_of_lt hy0) hy1 (i + 1)
    have h2 : 1 / ((i + 1).factorial : ℚ) ≤ 1 := by
      rw [div_le_one hfjpos]; exact_mod_cast (i + 1).factorial_pos
    linarith
  have hlow : (2:ℚ) ^ (-(2 * (W.p:ℤ) + 2 * (L:ℤ) + 3)) ≤
      511 / 512 * ((2:ℚ) ^ (-(W.p:ℤ) - 1) * (2:ℚ) ^ (-(L:ℤ)) * (2:ℚ) ^ (-(W.p:ℤ))) := by
    have e1 : (2:ℚ) ^ (-(W.p:ℤ) - 1) * (2:ℚ) ^ (-(L:ℤ)) * (2:ℚ) ^ (-(W.p:ℤ)) =
        (2:ℚ) ^ (-(2 * (W.p:ℤ) + (L:ℤ) + 1)) := by
      rw [← zpow_add₀ (by norm_num : (2:ℚ) ≠ 0), ← zpow_add₀ (by norm_num : (2:ℚ) ≠ 0)]
      congr 1; ring
    have e2 : (2:ℚ) ^ (-(2 * (W.p:ℤ) + 2 * (L:ℤ) + 3)) ≤
        (2:ℚ) ^ (-1:ℤ) * (2:ℚ) ^ (-(2 * (W.p:ℤ) + (L:ℤ) + 1)) := by
      rw [← zpow_add₀ (by norm_num : (2:ℚ) ≠ 0)]
      exact zpow_le_zpow_right₀ (by norm_num) (by omega)
    rw [e1]
    have h3 : (0:ℚ) < (2:ℚ) ^ (-(2 * (W.p:ℤ) + (L:ℤ) + 1)) := by positivity
    have h4 : (2:ℚ) ^ (-1:ℤ) = 1 / 2 := by norm_num
    rw [h4] at e2
    nlinarith
  -- (R2) the quotient
  have hnq := Near.div hv1 (le_of_lt (pow_pos hy0 (i + 1))) hfjpos (le_of_lt h.htop.pos.mag_pos)
    hbot.pos.mag_pos h.htop.near hbot.near
  have hqpos : 0 < top.mag / (fromBigint W (i + 1).factorial).mag :=
    div_pos h.htop.pos.mag_pos hbot.pos.mag_pos
  have htqdef : y.mag ^ (i + 1) / ((i + 1).factorial : ℚ) = tq y.mag (i + 1) := rfl
  rw [htqdef] at hnq
  obtain ⟨hq1, hq2⟩ := near_bounds C (show i + 1 + 1 ≤ tN W + 2 by omega)
    (le_of_lt (tq_pos hy0 (i + 1))) (le_of_lt hqpos) hnq
  have hR2 : InRange W (top.mag / (fromBigint W (i + 1).factorial).mag) := by
    apply inRange_of C
    · calc (2:ℚ) ^ (-(2 * (W.p:ℤ) + 2 * (L:ℤ) + 3)) ≤ _ := hlow
        _ ≤ 511 / 512 * tq y.mag (i + 1) := mul_le_mul_of_nonneg_left htq_lo (by norm_num)
        _ ≤ _ := hq1
    · linarith
  have helem : Ap W (i + 1 + 2) (tq y.mag (i + 1)) (top.div (fromBigint W (i + 1).factorial)) := by
    have := Ap.div hW (pow_pos hy0 (i + 1)) hfjpos h.htop hbot hR2
    rw [htqdef] at this
    exact this
  set elem := top.div (fromBigint W (i + 1).factorial) with helemdef
  -- (R3) the sum
  have hSpos : 0 < Sq y.mag (i + 1) := lt_of_lt_of_le one_pos (one_le_Sq (le_of_lt hy0) (by omega))
  have hns := Near.add h.hsum.near helem.near
  rw [← Sq_succ] at hns
  have hsepos : 0 < sum.mag + elem.mag := by have := h.one_le; have := helem.pos.mag_pos; linarith
  obtain ⟨hs1, hs2⟩ := near_bounds C (show i + 1 + 2 ≤ tN W + 2 by omega)
    (le_of_lt (lt_of_lt_of_le one_pos (one_le_Sq (le_of_lt hy0) (show 1 ≤ i + 1 + 1 by omega))))
    (le_of_lt hsepos) hns
  have hS3 := Sq_le_three (le_of_lt hy0) hy1 (i + 1 + 1)
  have hse4 : sum.mag + elem.mag ≤ 4 := by linarith
  have hse1 : 1 ≤ sum.mag + elem.mag := by have := h.one_le; have := helem.pos.mag_pos; linarith
  have hR3 : InRange W (sum.mag + elem.mag) := inRange_one_four C hse1 hse4
  have hsum' := Ap.add hW hSpos (tq_pos hy0 (i + 1)) h.hsum helem hR3
  rw [← Sq_succ, show max (i + 1 + 2) (i + 1 + 2) + 1 = i + 2 + 2 by omega] at hsum'
  obtain ⟨_, hsmag, _⟩ := add_op hW h.hsum.pos helem.pos hR3
  -- (R4) the next power
  have hnt := Near.mul hv1 (le_of_lt (pow_pos hy0 (i + 1))) (le_of_lt hy0)
    (le_of_lt h.htop.pos.mag_pos) (le_of_lt hy0) h.htop.near (Near.refl _ y.mag)
  rw [← pow_succ] at hnt
  have htypos : 0 < top.mag * y.mag := mul_pos h.htop.pos.mag_pos hy0
  obtain ⟨ht1, ht2⟩ := near_bounds C (show i + 1 + 0 ≤ tN W + 2 by omega)
    (le_of_lt (pow_pos hy0 (i + 1 + 1))) (le_of_lt htypos) hnt
  have hR4 : InRange W (top.mag * y.mag) := by
    apply inRange_of C
    · have hy2 : (2:ℚ) ^ (-(L:ℤ)) * (2:ℚ) ^ (-(L:ℤ)) ≤ y.mag * y.mag :=
        mul_le_mul C.ylo C.ylo (le_of_lt hd0) (le_of_lt hy0)
      have hyi2 : 1 / (2:ℚ) ^ (W.p + 1) ≤ y.mag ^ i := by
        refine le_trans ?_ hyi_lo
        exact div_le_div_of_nonneg_right hfi1 (le_of_lt hcpos)
      have hpw : (2:ℚ) ^ (-(W.p:ℤ) - 1) * ((2:ℚ) ^ (-(L:ℤ)) * (2:ℚ) ^ (-(L:ℤ))) ≤ y.mag ^ (i + 1 + 1) := by
        rw [pow_succ, pow_succ, mul_assoc, hcdef]
        exact mul_le_mul hyi2 hy2 (by positivity) (le_of_lt hyipos)
      have e1 : (2:ℚ) ^ (-(W.p:ℤ) - 1) * ((2:ℚ) ^ (-(L:ℤ)) * (2:ℚ) ^ (-(L:ℤ))) =
          (2:ℚ) ^ (-((W.p:ℤ) + 2 * (L:ℤ) + 1)) := by
        rw [← zpow_add₀ (by norm_num : (2:ℚ) ≠ 0), ← zpow_add₀ (by norm_num : (2:ℚ) ≠ 0)]
        congr 1; ring
      have e2 : (2:ℚ) ^ (-(2 * (W.p:ℤ) + 2 * (L:ℤ) + 3)) ≤
          (2:ℚ) ^ (-1:ℤ) * (2:ℚ) ^ (-((W.p:ℤ) + 2 * (L:ℤ) + 1)) := by
        rw [← zpow_add₀ (by norm_num : (2:ℚ) ≠ 0)]
        exact zpow_le_zpow_right₀ (by norm_num) (by omega)
      have h4 : (2:ℚ) ^ (-1:ℤ) = 1 / 2 := by norm_num
      rw [h4] at e2
      rw [e1] at hpw
      have h3 : (0:ℚ) < (2:ℚ) ^ (-((W.p:ℤ) + 2 * (L:ℤ) + 1)) := by positivity
      nlinarith
    · have : y.mag ^ (i + 1 + 1) ≤ 1 := pow_le_one₀ (le_of_lt hy0) hy1
      linarith
  have htop' := Ap.mul hW (pow_pos hy0 (i + 1)) hy0 h.htop (Ap.exact C.ypos) hR4
  rw [← pow_succ] at htop'
  -- the two halves of the exit analysis
  have he1 : 511 / 512 * tq y.mag (i + 1) ≤ elem.mag ∧ 511 / 512 * elem.mag ≤ tq y.mag (i + 1) :=
    near_bounds C (show i + 1 + 2 ≤ tN W + 2 by omega) (le_of_lt (tq_pos hy0 (i + 1)))
      (le_of_lt helem.pos.mag_pos) helem.near
  refine ⟨htop', hsum', ?_, ?_, ?_⟩
  · rw [hsmag]
    exact rnd_ge hW _ (by norm_num) (isRep_one C) hse1 (isRep_four C) hse4
  · intro hbeq
    show tq y.mag (i + 1) ≤ _
    have heq := (beq_posN hW h.hsum.pos hsum'.pos).mp hbeq
    rw [hsmag] at heq
    have herr := ECf.rnd_abs_err hW W.rm hR3 (E := 1) (by norm_num; linarith)
    rw [← heq] at herr
    have h2 : elem.mag ≤ unit W W.rm * (2:ℚ) ^ (1:ℤ) := by
      have := neg_abs_le (sum.mag - (sum.mag + elem.mag)); linarith
    rw [u_eq C]
    norm_num at h2
    linarith [he1.1]
  · intro hbeq
    show _ ≤ tq y.mag (i + 1)
    have hne : sum.mag ≠ (sum.add elem).mag := by
      intro heq
      have := (beq_posN hW h.hsum.pos hsum'.pos).mpr heq
      rw [this] at hbeq; exact absurd hbeq (by simp)
    have hge : (2:ℚ) ^ (-(W.p:ℤ)) ≤ elem.mag := by
      by_contra hlt
      exact hne (by rw [hsmag]; exact (stay_nearest hW C.rm h.hsum.pos h.one_le
        (le_of_lt helem.pos.mag_pos) (not_le.mp hlt) hR3).symm)
    have e1 : (2:ℚ) ^ (-(W.p:ℤ) - 1) = (2:ℚ) ^ (-(W.p:ℤ)) / 2 := by
      rw [zpow_sub_one₀ (by norm_num)]; ring
    rw [e1]
    have := he1.2
    linarith

end Arp.ExpErr

/-! ## `exp`: the Taylor loop, assembled -/

namespace Arp.ExpErr
open Arp Arp.SpecRound Arp.Sqrt Arp.RelErr

variable {W : Sem} {y : Flt} {L : ℕ}

/-- a term `y^j/j!` with `j + 1 ≥ max 50 p` is far below the unit -/
theorem tq_last_small (C : TCtx W y L) {j : ℕ} (hj : j + 1 = tN W) : tq y.mag j ≤ 2 * u W := by
  have hy0 := C.ypos.mag_pos
  have h1 := tq_le_inv_fact (le_of_lt hy0) C.yle j
  have h50 := tN_ge W
  have hp := tN_ge_p W
  have h2 := two_pow_add_two_le_fact j (by omega)
  have h3 : ((2 ^ (j + 2) : ℕ) : ℚ) ≤ (j.factorial : ℚ) := Nat.cast_le.mpr h2
  push_cast at h3
  have h4 : 1 / (j.factorial : ℚ) ≤ 1 / (2:ℚ) ^ (j + 2) :=
    div_le_div_of_nonneg_left (by norm_num) (by positivity) h3
  have h5 : 1 / (2:ℚ) ^ (j + 2) = (2:ℚ) ^ (-((j + 2 : ℕ) : ℤ)) := by
    rw [zpow_neg, zpow_natCast, one_div]
  have h6 : (2:ℚ) ^ (-((j + 2 : ℕ) : ℤ)) ≤ (2:ℚ) ^ (1 - (W.p:ℤ)) :=
    zpow_le_zpow_right₀ (by norm_num) (by push_cast; omega)
  have hu : u W = (2:ℚ) ^ (1 - (W.p:ℤ)) := rfl
  have hupos := u_pos W
  rw [hu] at hupos ⊢
  linarith

/-- **the loop**: from the invariant after `i + 1` terms with `n` iterations left -/
theorem taylor_loop (C : TCtx W y L) : ∀ (n i : ℕ) (top sum prev : Flt), i + 1 + n + 1 = tN W →
    TInv W y (i + 1) top sum prev →
    ∃ j, 1 ≤ j ∧ j + 1 ≤ tN W ∧
      Ap W (j + 2) (Sq y.mag j)
        (expTaylorLoop W y n (i + 2) top (i + 1).factorial sum prev) ∧
      1 ≤ (expTaylorLoop W y n (i + 2) top (i + 1).factorial sum prev).mag ∧
      tq y.mag j ≤ 2 * u W := by
  intro n
  induction n with
  | zero =>
    intro i top sum prev hn h
    refine ⟨i + 1, by omega, by omega, h.hsum, h.one_le, tq_last_small C (by omega)⟩
  | succ n ih =>
    intro i top sum prev hn h
    rw [expTaylorLoop_succ]
    by_cases hb : prev.beq sum = true
    · rw [if_pos hb]
      refine ⟨i + 1, by omega, by omega, h.hsum, h.one_le, ?_⟩
      have := h.ex hb
      rw [Nat.add_sub_cancel] at this
      exact le_trans (tq_succ_le (le_of_lt C.ypos.mag_pos) C.yle i) this
    · rw [if_neg hb]
      have hb' : prev.beq sum = false := by simpa using hb
      have hstep := tinv_step C (by omega) h hb'
      have hf : (i + 1).factorial * (i + 2) = (i + 1 + 1).factorial := by
        rw [Nat.factorial_succ (i + 1)]; ring
      rw [hf]
      exact ih (i + 1) _ _ _ (by omega) hstep

theorem one_beq_zero (W : Sem) : (Flt.one W true).beq (Flt.zero W false) = false := by
  simp [Flt.beq, Flt.one, Flt.zero]

theorem zero_beq_posN {s : Flt} (hs : PosN W s) : (Flt.zero W false).beq s = false := by
  simp [Flt.beq, Flt.zero, hs.cat]

/-- the state after the first iteration -/
theorem taylor_first (C : TCtx W y L) :
    TInv W y 1 ((Flt.one W false).mul y)
      ((Flt.zero W false).add ((Flt.one W false).div (fromBigint W 1))) (Flt.zero W false) := by
  have hW := C.wf
  have hy0 := C.ypos.mag_pos
  obtain ⟨h1, h1m⟩ := ECf.one_posN hW
  have hrep1 := isRep_one C
  have hr1 : InRange W 1 := inRange_one_four C (le_refl _) (by norm_num)
  -- the divisor `1`
  obtain ⟨hb, hbm, _⟩ := load_op hW (n := 1) (by norm_num) (by
    have := four_le_max C; push_cast; linarith)
  rw [Nat.cast_one, rnd_rep hW _ hrep1 one_pos] at hbm
  -- `1/1`
  have hq : (Flt.one W false).mag / (fromBigint W 1).mag = 1 := by rw [h1m, hbm]; norm_num
  obtain ⟨he, hem, _⟩ := div_op hW h1 hb (by rw [hq]; exact hr1)
  rw [hq, rnd_rep hW _ hrep1 one_pos] at hem
  -- `0 + 1`
  obtain ⟨hs, hsm⟩ := zero_add_op hW he
  rw [hem] at hsm
  -- `1·y`
  have hty : (Flt.one W false).mag * y.mag = y.mag := by rw [h1m, one_mul]
  have hry : InRange W y.mag := by
    apply inRange_of C
    · refine le_trans ?_ C.ylo
      exact zpow_le_zpow_right₀ (by norm_num) (by have := C.p16; omega)
    · have := C.yle; linarith
  obtain ⟨ht, htm, _⟩ := mul_op hW h1 C.ypos (by rw [hty]; exact hry)
  rw [hty, rnd_rep hW _ C.ypos.isRep hy0] at htm
  refine ⟨⟨ht, ?_⟩, ⟨hs, ?_⟩, by rw [hsm], ?_, ?_⟩
  · rw [htm, pow_one]
    exact (Near.refl _ _).mono (le_of_lt (unit_pos W W.rm)) (unit_lt_one hW W.rm) (le_of_lt hy0)
      (le_of_lt hy0) (Nat.zero_le 1)
  · rw [hsm, Sq_one]
    exact (Near.refl _ _).mono (le_of_lt (unit_pos W W.rm)) (unit_lt_one hW W.rm) (by norm_num)
      (by norm_num) (Nat.zero_le _)
  · intro hbeq; rw [zero_beq_posN hs] at hbeq; exact absurd hbeq (by simp)
  · intro _
    show _ ≤ tq y.mag 0
    rw [tq_zero]
    exact zpow_le_one_of_nonpos₀ (by norm_num) (by omega)

theorem expTaylor_unfold (C : TCtx W y L) :
    expTaylor y = expTaylorLoop W y (tN W - 2) 2 ((Flt.one W false).mul y) (Nat.factorial 1)
      ((Flt.zero W false).add ((Flt.one W false).div (fromBigint W 1))) (Flt.zero W false) := by
  have h50 := tN_ge W
  unfold expTaylor
  simp only [C.ypos.sem]
  have hn : Nat.max 50 W.p - 1 = (tN W - 2) + 1 := by
    show max 50 W.p - 1 = _
    unfold tN at h50 ⊢; omega
  rw [hn, expTaylorLoop_succ, one_beq_zero]
  rfl

/-- **Stage 1 (rational form).**  `exp_taylor y` is a positive normal value `≥ 1`; it is the exact
    partial sum `Σ_{k<j} y^k/k!` (`1 ≤ j < max 50 p`) after `j + 2` relative perturbations of size
    `2^-p`, and the first omitted term is at most `2u = 2^(2-p)`. -/
theorem expTaylor_spec (C : TCtx W y L) :
    ∃ j, 1 ≤ j ∧ j + 1 ≤ tN W ∧ Ap W (j + 2) (Sq y.mag j) (expTaylor y) ∧
      1 ≤ (expTaylor y).mag ∧ tq y.mag j ≤ 2 * u W := by
  rw [expTaylor_unfold C]
  have h50 := tN_ge W
  exact taylor_loop C (tN W - 2) 0 _ _ _ (by omega) (taylor_first C)

/-- **Stage 1.**  `|exp_taylor y - e^y| ≤ (max 50 p + 5)·2^(1-p)·e^y` for `2^-L ≤ y ≤ 1`. -/
theorem expTaylor_accuracy (C : TCtx W y L) :
    PosN W (expTaylor y) ∧
    |(((expTaylor y).mag : ℚ) : ℝ) - Real.exp (y.mag : ℝ)| ≤
      (((tN W : ℚ) + 5) * u W : ℚ) * Real.exp (y.mag : ℝ) := by
  obtain ⟨j, hj1, hjN, hap, _, htail⟩ := expTaylor_spec C
  refine ⟨hap.pos, ?_⟩
  have hy0 := C.ypos.mag_pos
  have hSpos : 0 < Sq y.mag j := lt_of_lt_of_le one_pos (one_le_Sq (le_of_lt hy0) hj1)
  have hkv := kv_small C (show j + 2 ≤ tN W + 2 by omega)
  have hrel := near_rel (le_of_lt (unit_pos W W.rm)) (by linarith) (le_of_lt hSpos) hap.near
  rw [show 2 * ((j + 2 : ℕ) : ℚ) * unit W W.rm = ((j:ℚ) + 2) * u W by rw [u_eq C]; push_cast; ring]
    at hrel
  have hrelR : |(((expTaylor y).mag : ℚ) : ℝ) - ((Sq y.mag j : ℚ) : ℝ)| ≤
      ((((j:ℚ) + 2) * u W * Sq y.mag j : ℚ) : ℝ) := by exact_mod_cast hrel
  have hle := Sq_le_exp (le_of_lt hy0) j
  have htl := exp_sub_Sq_le (le_of_lt hy0) C.yle hj1
  have htailR : ((tq y.mag j : ℚ) : ℝ) ≤ ((2 * u W : ℚ) : ℝ) := by exact_mod_cast htail
  have hupos : (0:ℝ) < ((u W : ℚ) : ℝ) := by exact_mod_cast u_pos W
  have hexp1 : (1:ℝ) ≤ Real.exp (y.mag : ℝ) := by
    have := Real.add_one_le_exp (y.mag : ℝ)
    have h0 : (0:ℝ) ≤ (y.mag : ℝ) := by exact_mod_cast le_of_lt hy0
    linarith
  have hjR : ((j:ℚ) : ℝ) + 1 ≤ ((tN W : ℚ) : ℝ) := by
    have : ((j + 1 : ℕ) : ℝ) ≤ ((tN W : ℕ) : ℝ) := Nat.cast_le.mpr hjN
    push_cast at this ⊢; exact this
  have hSR0 : (0:ℝ) ≤ ((Sq y.mag j : ℚ) : ℝ) := by exact_mod_cast le_of_lt hSpos
  push_cast at hrelR htailR ⊢
  rw [abs_le] at hrelR ⊢
  have hj0 : (0:ℝ) ≤ (j:ℝ) := Nat.cast_nonneg j
  have hb1 : ((j:ℝ) + 2) * ((u W : ℚ) : ℝ) * ((Sq y.mag j : ℚ) : ℝ) ≤
      ((j:ℝ) + 2) * ((u W : ℚ) : ℝ) * Real.exp (y.mag : ℝ) :=
    mul_le_mul_of_nonneg_left hle (by positivity)
  have hb2 : ((j:ℝ) + 2) * ((u W : ℚ) : ℝ) * Real.exp (y.mag : ℝ) ≤
      ((tN W : ℝ) + 1) * ((u W : ℚ) : ℝ) * Real.exp (y.mag : ℝ) := by
    apply mul_le_mul_of_nonneg_right _ (by positivity)
    apply mul_le_mul_of_nonneg_right _ (le_of_lt hupos)
    push_cast at hjR; linarith
  have hb3 : 4 * ((u W : ℚ) : ℝ) ≤ 4 * ((u W : ℚ) : ℝ) * Real.exp (y.mag : ℝ) := by
    nlinarith
  constructor <;> nlinarith [hrelR.1, hrelR.2]

end Arp.ExpErr

/-! ## `exp`: casts, squarings and the range-reduction loop -/

namespace Arp.ExpErr
open Arp Arp.SpecRound Arp.Sqrt Arp.RelErr

variable {W : Sem}

/-! ### casts -/

/-- a (rounding) cast of a positive value whose magnitude is in the range of the target -/
theorem cast_op {G : Sem} (hG : G.WF) (hW : W.WF) {w : Flt} (hw : PosN G w)
    (hr : InRange W w.mag) :
    PosN W (w.castWithRm W W.rm) ∧ (w.castWithRm W W.rm).mag = rnd W W.rm w.mag ∧
      Near (unit W W.rm) 1 w.mag (w.castWithRm W W.rm).mag := by
  have hcor := C06.cast_correct w W W.rm (by rw [hw.sem]; exact hG) hW hw.can
  have hsem := (castWithRm_canonical w W W.rm hW hw.can).2
  apply posN_of_inRange hW hsem hr
  rw [hcor]
  simp only [Spec.cast, hw.cat, hw.sign]

/-- a widening cast is exact -/
theorem widen_op {G : Sem} (hG : G.WF) (hW : W.WF) {w : Flt} (hw : PosN G w) (rm : RM)
    (he : G.e ≤ W.e) (hp : G.p ≤ W.p) :
    PosN W (w.castWithRm W rm) ∧ (w.castWithRm W rm).mag = w.mag := by
  obtain ⟨a, b, c, d, e⟩ := C06.widen_lossless_normal w W rm (by rw [hw.sem]; exact he)
    (by rw [hw.sem]; exact hp) (by rw [hw.sem]; exact hG) hW hw.cat hw.can
  exact ⟨⟨a, c, b, by rw [d, hw.sign]⟩, e⟩

/-! ### one squaring -/

theorem powiSem_unit_le (hrm : W.rm = .nte ∨ W.rm = .nta) :
    unit (C18.powiSem W) (C18.powiSem W).rm ≤ unit W W.rm := by
  have h1 : (C18.powiSem W).rm = powiInnerRm W.rm := rfl
  have h2 := C18.powiInnerRm_nearest W.rm
  rw [unit_nearest (by rw [h1]; exact h2), unit_nearest hrm]
  have : u (C18.powiSem W) ≤ u W := by
    unfold u
    apply zpow_le_zpow_right₀ (by norm_num)
    show 1 - ((W.p + 2 : ℕ) : ℤ) ≤ 1 - (W.p : ℤ)
    push_cast; omega
  linarith

/-- `x.sqr` for a positive `x` whose square lies in `[2^emin, 2^emax]`: two roundings -/
theorem sqr_op (hW : W.WF) (hrm : W.rm = .nte ∨ W.rm = .nta) {x : Flt} (hx : PosN W x)
    (hlo : (2:ℚ) ^ W.emin ≤ x.mag ^ 2) (hhi : x.mag ^ 2 ≤ (2:ℚ) ^ W.emax) :
    PosN W x.sqr ∧ Near (unit W W.rm) 2 (x.mag ^ 2) x.sqr.mag := by
  have hp1 : 1 ≤ W.p := by have := hW.2; omega
  set G := C18.powiSem W with hGdef
  have hG : G.WF := C18.powiSem_WF hW
  have hGemin : G.emin = W.emin := rfl
  have hGemax : G.emax = W.emax := rfl
  have hGp1 : 1 ≤ G.p := by have := hG.2; omega
  -- the widened operand
  obtain ⟨hv, hvm⟩ := widen_op hW hG hx W.rm (le_refl _) (by show W.p ≤ W.p + 2; omega)
  set v := x.castWithRm G W.rm with hvdef
  have hq : v.mag * v.mag = x.mag ^ 2 := by rw [hvm]; ring
  -- representable bounds
  have hrlo : IsRep G ((2:ℚ) ^ W.emin) := by
    rw [← hGemin]; exact isRep_pow hG _ (by omega) (Sem.emin_le_emax hG)
  have hrhi : IsRep G ((2:ℚ) ^ W.emax) := by
    rw [← hGemax]; exact isRep_pow hG _ (by have := Sem.emin_le_emax hG; omega) (le_refl _)
  have hrG : InRange G (v.mag * v.mag) := by
    rw [hq]; exact ⟨by rw [hGemin]; exact hlo, le_trans hhi hrhi.le_maxFinite⟩
  obtain ⟨hw, hwm, hwn⟩ := mul_op hG hv hv hrG
  set w := v.mul v with hwdef
  rw [hq] at hwm hwn
  have hqpos : 0 < x.mag ^ 2 := lt_of_lt_of_le (by positivity) hlo
  have hwlo : (2:ℚ) ^ W.emin ≤ w.mag := by
    rw [hwm]; exact rnd_ge hG _ (by positivity) hrlo hlo hrhi hhi
  have hwhi : w.mag ≤ (2:ℚ) ^ W.emax := by
    rw [hwm]; exact rnd_le hG _ hqpos hrhi hhi
  have hrW : InRange W w.mag := ⟨hwlo, le_trans hwhi (pow_emax_le_maxFinite hp1)⟩
  obtain ⟨hs, _, hsn⟩ := cast_op hG hW hw hrW
  have hone : (Flt.one G false).mul w = w := by
    unfold Flt.mul; exact C18.one_mul G w _ hG hw.sem hw.can
  have hsqr : x.sqr = w.castWithRm W W.rm := by
    show x.powi 2 = _
    rw [C18.powi_def, C18.powiLoop_two, hx.sem]
    have hc : x.cast G = v := by unfold Flt.cast; rw [hx.sem]
    rw [hc, hone]
  rw [hsqr]
  refine ⟨hs, ?_⟩
  have hv1 := unit_lt_one hW W.rm
  have hwn' : Near (unit W W.rm) 1 (x.mag ^ 2) w.mag :=
    near_mono_v (powiSem_unit_le hrm) (le_of_lt hv1)
      (le_of_lt hqpos) (le_of_lt hw.mag_pos) hwn
  exact hwn'.trans hv1 hsn

/-- the squaring in the calculus: `c` perturbations become `2c + 2`; the exact value `A ∈ [1, 2^K]`
    keeps the square far inside the exponent range -/
theorem sqr_ap (hW : W.WF) (hrm : W.rm = .nte ∨ W.rm = .nta) {r : Flt} {c K : ℕ} {A : ℚ}
    (h : Ap W c A r) (hA1 : 1 ≤ A) (hAK : A ≤ (2:ℚ) ^ K) (hcv : (c:ℚ) * unit W W.rm ≤ 1/2)
    (hemin : W.emin ≤ -2) (hemax : 2 * (K:ℤ) + 2 ≤ W.emax) :
    Ap W (2 * c + 2) (A ^ 2) r.sqr := by
  have hv0 := le_of_lt (unit_pos W W.rm)
  have hv1 := unit_lt_one hW W.rm
  have hA0 : 0 < A := by linarith
  have hr0 := h.pos.mag_pos
  have hbern := powi_bern_lo (le_of_lt hv1) c
  have hhalf : 1/2 ≤ (1 - unit W W.rm) ^ c := by linarith
  obtain ⟨n1, n2⟩ := h.near
  have hlo1 : 1/2 ≤ r.mag := by nlinarith
  have hhi1 : r.mag ≤ 2 * A := by nlinarith
  have hlo : (2:ℚ) ^ W.emin ≤ r.mag ^ 2 := by
    have h1 : (2:ℚ) ^ W.emin ≤ (2:ℚ) ^ (-2:ℤ) := zpow_le_zpow_right₀ (by norm_num) hemin
    have h2 : (2:ℚ) ^ (-2:ℤ) = 1/4 := by norm_num
    have h3 : ((1:ℚ)/2) ^ 2 ≤ r.mag ^ 2 := pow_le_pow_left₀ (by norm_num) hlo1 2
    norm_num at h3
    exact le_trans h1 (by rw [h2]; exact h3)
  have hhi : r.mag ^ 2 ≤ (2:ℚ) ^ W.emax := by
    have h1 : (2:ℚ) ^ (2 * (K:ℤ) + 2) ≤ (2:ℚ) ^ W.emax := zpow_le_zpow_right₀ (by norm_num) hemax
    have h2 : (2:ℚ) ^ (2 * (K:ℤ) + 2) = 4 * ((2:ℚ) ^ K) ^ 2 := by
      rw [zpow_add₀ (by norm_num), mul_comm 2 (K:ℤ), zpow_mul, zpow_natCast]; norm_num; ring
    have h3 : r.mag ^ 2 ≤ (2 * A) ^ 2 := pow_le_pow_left₀ (le_of_lt hr0) hhi1 2
    have h4 : (2 * A) ^ 2 ≤ 4 * ((2:ℚ) ^ K) ^ 2 := by
      have := pow_le_pow_left₀ (le_of_lt hA0) hAK 2
      nlinarith
    linarith
  obtain ⟨hs, hn⟩ := sqr_op hW hrm h.pos hlo hhi
  refine ⟨hs, ?_⟩
  have := (near_sq hv1 (le_of_lt hA0) (le_of_lt hr0) h.near).trans hv1 hn
  exact this

/-! ### repeated squaring -/

/-- `m` squarings -/
def sqrN : ℕ → Flt → Flt
  | 0, r => r
  | m + 1, r => sqrN m r.sqr

theorem sqr3_eq_sqrN (n : ℕ) (r : Flt) : sqr3 n r = sqrN (3 * n) r := by
  induction n generalizing r with
  | zero => rfl
  | succ n ih =>
    rw [show 3 * (n + 1) = 3 * n + 1 + 1 + 1 by ring]
    simp only [sqr3, sqrN]
    exact ih _

/-- `m` squarings of `A ∈ [1, 2^K]` known up to `c` perturbations: `2^m·(c+2) - 2` perturbations -/
theorem sqr_iter (hW : W.WF) (hrm : W.rm = .nte ∨ W.rm = .nta) (hemin : W.emin ≤ -2) :
    ∀ (m : ℕ) (r : Flt) (c K : ℕ) (A : ℚ), Ap W c A r → 1 ≤ A → A ≤ (2:ℚ) ^ K →
      ((2 ^ m * (c + 2) : ℕ) : ℚ) * unit W W.rm ≤ 1/2 → ((2 ^ m * K + 2 : ℕ) : ℤ) ≤ W.emax →
      Ap W (2 ^ m * (c + 2) - 2) (A ^ (2 ^ m)) (sqrN m r) := by
  intro m
  induction m with
  | zero =>
    intro r c K A h _ _ _ _
    simpa [sqrN] using h
  | succ m ih =>
    intro r c K A h hA1 hAK hcv hemax
    have hv0 := le_of_lt (unit_pos W W.rm)
    have hpm : 1 ≤ 2 ^ m := Nat.one_le_two_pow
    have hcv' : (c:ℚ) * unit W W.rm ≤ 1/2 := by
      refine le_trans (mul_le_mul_of_nonneg_right ?_ hv0) hcv
      have : c ≤ 2 ^ (m + 1) * (c + 2) := by rw [pow_succ]; nlinarith
      exact_mod_cast this
    have hemax' : 2 * (K:ℤ) + 2 ≤ W.emax := by
      refine le_trans ?_ hemax
      have : 2 * K + 2 ≤ 2 ^ (m + 1) * K + 2 := by rw [pow_succ]; nlinarith
      exact_mod_cast this
    have hs := sqr_ap hW hrm h hA1 hAK hcv' hemin hemax'
    have hA1' : 1 ≤ A ^ 2 := one_le_pow₀ hA1
    have hAK' : A ^ 2 ≤ (2:ℚ) ^ (2 * K) := by
      rw [mul_comm, pow_mul]; exact pow_le_pow_left₀ (by linarith) hAK 2
    have e1 : 2 ^ m * (2 * c + 2 + 2) = 2 ^ (m + 1) * (c + 2) := by rw [pow_succ]; ring
    have e2 : 2 ^ m * (2 * K) + 2 = 2 ^ (m + 1) * K + 2 := by rw [pow_succ]; ring
    have := ih r.sqr (2 * c + 2) (2 * K) (A ^ 2) hs hA1' hAK' (by rw [e1]; exact hcv)
      (by rw [e2]; exact hemax)
    rw [e1, ← pow_mul, ← pow_succ'] at this
    exact this


/-- **Stage 2: the squarings of `exp_range_reduce`.**  If `r` is `A ∈ [1, 2^K]` up to `c` relative
    perturbations of size `2^-p` (nearest mode), then `sqr3 steps r` (`3·steps` squarings, each one
    computed in `p + 2` bits and rounded back) is `A^(8^steps)` up to `8^steps·(c + 2) - 2`
    perturbations; in particular its relative error is at most `8^steps·(c + 2)·2^(1-p)`:
    one guard bit per squaring keeps the error of `r` at its size. -/
theorem sqr3_accuracy (hW : W.WF) (hrm : W.rm = .nte ∨ W.rm = .nta) (hemin : W.emin ≤ -2)
    {r : Flt} {c K steps : ℕ} {A : ℚ} (h : Ap W c A r) (hA1 : 1 ≤ A) (hAK : A ≤ (2:ℚ) ^ K)
    (hguard : ((8 ^ steps * (c + 2) : ℕ) : ℚ) * unit W W.rm ≤ 1 / 2)
    (hemax : ((8 ^ steps * K + 2 : ℕ) : ℤ) ≤ W.emax) :
    Ap W (8 ^ steps * (c + 2) - 2) (A ^ (8 ^ steps)) (sqr3 steps r) ∧
      |(sqr3 steps r).mag - A ^ (8 ^ steps)| ≤
        ((8 ^ steps * (c + 2) : ℕ) : ℚ) * u W * A ^ (8 ^ steps) := by
  have h8 : 2 ^ (3 * steps) = 8 ^ steps := by rw [pow_mul]; norm_num
  have hit := sqr_iter hW hrm hemin (3 * steps) r c K A h hA1 hAK (by rw [h8]; exact hguard)
    (by rw [h8]; exact hemax)
  rw [h8, ← sqr3_eq_sqrN] at hit
  refine ⟨hit, ?_⟩
  have hv0 := le_of_lt (unit_pos W W.rm)
  have hApos : 0 < A ^ (8 ^ steps) := by positivity
  have hD : ((8 ^ steps * (c + 2) - 2 : ℕ) : ℚ) ≤ ((8 ^ steps * (c + 2) : ℕ) : ℚ) :=
    Nat.cast_le.mpr (Nat.sub_le _ _)
  have hkv : ((8 ^ steps * (c + 2) - 2 : ℕ) : ℚ) * unit W W.rm ≤ 1 / 2 :=
    le_trans (mul_le_mul_of_nonneg_right hD hv0) hguard
  have hrel := near_rel hv0 hkv (le_of_lt hApos) hit.near
  refine le_trans hrel ?_
  rw [unit_nearest hrm]
  have : 2 * ((8 ^ steps * (c + 2) - 2 : ℕ) : ℚ) * (u W / 2) * A ^ (8 ^ steps) ≤
      2 * ((8 ^ steps * (c + 2) : ℕ) : ℚ) * (u W / 2) * A ^ (8 ^ steps) := by
    apply mul_le_mul_of_nonneg_right _ (le_of_lt hApos)
    apply mul_le_mul_of_nonneg_right _ (by have := u_pos W; linarith)
    linarith
  linarith

end Arp.ExpErr

/-! ## `exp`: the range reduction `exp_range_reduce` -/

namespace Arp.ExpErr
open Arp Arp.SpecRound Arp.Sqrt Arp.RelErr

variable {W : Sem}

/-- the magnitude of a canonical value is below `2^(exp+1)` -/
theorem posN_mag_lt {z : Flt} (hz : PosN W z) : z.mag < (2:ℚ) ^ (z.exp + 1) := by
  obtain ⟨_, _, _, c4, _⟩ := (Flt.canonical_normal hz.cat).mp hz.can
  exact C19.mag_lt_pow z c4

/-- a representable value above one can be divided by eight exactly -/
theorem isRep_div8 (hemin : W.emin ≤ -3) {q : ℚ} (hq : IsRep W q) (h1 : 1 < q) :
    IsRep W (q / 8) := by
  obtain ⟨e, m, e1, e2, m2, hn, hv⟩ := hq
  have hlt : q < (2:ℚ) ^ (e + 1) := by
    rw [hv]
    have hm2 : (m : ℚ) < 2 ^ W.p := by exact_mod_cast m2
    calc (m : ℚ) * (2 : ℚ) ^ (e - ((W.p : Int) - 1))
        < 2 ^ W.p * (2 : ℚ) ^ (e - ((W.p : Int) - 1)) :=
          mul_lt_mul_of_pos_right hm2 (by positivity)
      _ = (2 : ℚ) ^ (e + 1) := by
          rw [← zpow_natCast, ← zpow_add₀ (by norm_num : (2 : ℚ) ≠ 0)]; congr 1; ring
  have he0 : 0 ≤ e := by
    have h2 : (2:ℚ) ^ (0:ℤ) < (2:ℚ) ^ (e + 1) := by rw [zpow_zero]; linarith
    have := (zpow_lt_zpow_iff_right₀ (by norm_num : (1:ℚ) < 2)).mp h2
    omega
  have hn' : 2 ^ (W.p - 1) ≤ m := by
    rcases hn with h | h
    · exact h
    · omega
  refine ⟨e - 3, m, by omega, by omega, m2, Or.inl hn', ?_⟩
  rw [hv, show e - 3 - ((W.p:ℤ) - 1) = (e - ((W.p:ℤ) - 1)) + (-3) by ring,
    zpow_add₀ (by norm_num : (2:ℚ) ≠ 0)]
  norm_num; ring

/-- `scale(-3, Zero)` of a value above one is the exact division by eight -/
theorem div8_op (hW : W.WF) (hemin : W.emin ≤ -3) {z : Flt} (hz : PosN W z) (h1 : 1 < z.mag) :
    PosN W (z.scale (-3) .zero) ∧ (z.scale (-3) .zero).mag = z.mag / 8 := by
  have hFz : z.sem.WF := by rw [hz.sem]; exact hW
  have hc := C10.scale_correct z (-3) .zero hFz hz.can
  have hsem := (scale_canonical z (-3) .zero hFz hz.can).2
  have hrep := isRep_div8 hemin hz.isRep h1
  have hq : 0 < z.mag / 8 := by linarith
  obtain ⟨e, m, hfin, _⟩ := round_exact hW hq hrep .zero false
  have hres : (z.scale (-3) .zero).toRes = Spec.round W .zero false (z.mag / 8) := by
    rw [hc]
    simp only [Spec.scaleExact, hz.cat, hz.sign, hz.sem]
    congr 1
  obtain ⟨h2, h3⟩ := posN_of_round hW (hsem.trans hz.sem) hq hfin hres
  exact ⟨h2, by rw [h3, rnd_rep hW .zero hrep hq]⟩

theorem gt_one_iff_mag (hW : W.WF) {z : Flt} (hz : PosN W z) :
    z.gt (Flt.one W false) = true ↔ 1 < z.mag := by
  obtain ⟨h1, h1m⟩ := ECf.one_posN hW
  have := C05.lt_iff_gt (Flt.one W false) z hW hz.sem h1.can hz.can
  rw [← this, lt_posN hW h1 hz, h1m]

/-- **the `while x > one` loop**: with `z ≤ 8^fuel` the loop ends after `s` exact divisions by
    eight with a value `y = z/8^s ≤ 1`, and `y > 1/8` unless `s = 0` -/
theorem reduce_loop (hW : W.WF) (hemin : W.emin ≤ -3) : ∀ (fuel : ℕ) (z : Flt) (s0 : ℕ),
    PosN W z → z.mag ≤ (8:ℚ) ^ fuel →
    ∃ (yv : Flt) (s : ℕ), expReduceLoop (fuel + 1) z (Flt.one W false) s0 = some (yv, s0 + s) ∧
      PosN W yv ∧ yv.mag * (8:ℚ) ^ s = z.mag ∧ yv.mag ≤ 1 ∧ (s = 0 ∨ 1 / 8 < yv.mag) := by
  intro fuel
  induction fuel with
  | zero =>
    intro z s0 hz hle
    rw [pow_zero] at hle
    have hng : z.gt (Flt.one W false) = false := by
      rw [← Bool.not_eq_true, gt_one_iff_mag hW hz]; linarith
    refine ⟨z, 0, ?_, hz, by simp, hle, Or.inl rfl⟩
    simp [expReduceLoop, hng]
  | succ f ih =>
    intro z s0 hz hle
    rw [expReduceLoop]
    by_cases hg : z.gt (Flt.one W false) = true
    · rw [if_pos hg]
      have h1 := (gt_one_iff_mag hW hz).mp hg
      obtain ⟨hz', hzm'⟩ := div8_op hW hemin hz h1
      have hle' : (z.scale (-3) .zero).mag ≤ (8:ℚ) ^ f := by
        rw [hzm', div_le_iff₀ (by norm_num)]; rw [pow_succ] at hle; linarith
      obtain ⟨yv, s, h2, h3, h4, h5, h6⟩ := ih (z.scale (-3) .zero) (s0 + 1) hz' hle'
      refine ⟨yv, s + 1, ?_, h3, ?_, h5, Or.inr ?_⟩
      · rw [h2]; congr 2; ring
      · rw [pow_succ, ← mul_assoc, h4, hzm']; ring
      · rcases h6 with h6 | h6
        · rw [h6, pow_zero, mul_one] at h4; rw [h4, hzm']; linarith
        · exact h6
    · rw [if_neg hg]
      have hle1 : z.mag ≤ 1 := by
        by_contra hc
        exact hg ((gt_one_iff_mag hW hz).mpr (not_le.mp hc))
      exact ⟨z, 0, rfl, hz, by simp, hle1, Or.inl rfl⟩

/-- more fuel does not change the result -/
theorem reduce_loop_fuel (hW : W.WF) (hemin : W.emin ≤ -3) (F : ℕ) (z : Flt) (s0 : ℕ)
    (hz : PosN W z) {e : ℤ} (hze : z.mag < (2:ℚ) ^ (e + 1)) (hF : C19.redBound e + 1 ≤ F) :
    ∃ (yv : Flt) (s : ℕ), expReduceLoop F z (Flt.one W false) s0 = some (yv, s0 + s) ∧
      PosN W yv ∧ yv.mag * (8:ℚ) ^ s = z.mag ∧ yv.mag ≤ 1 ∧ (s = 0 ∨ 1 / 8 < yv.mag) := by
  obtain ⟨f, rfl⟩ : ∃ f, F = f + 1 := ⟨F - 1, by omega⟩
  apply reduce_loop hW hemin f z s0 hz
  have h8 : (8:ℚ) ^ f = (2:ℚ) ^ ((3 * f : ℕ) : ℤ) := by
    rw [zpow_natCast, pow_mul]; norm_num
  rw [h8]
  refine le_trans (le_of_lt hze) (zpow_le_zpow_right₀ (by norm_num) ?_)
  unfold C19.redBound at hF
  push_cast
  omega


/-- what the analysis of `exp_range_reduce z` needs: a nearest mode, `p ≥ 16`,
    `2^-Lz ≤ z ≤ 1 ∨ z < 2^(H-2)` (so that at most `H/3` divisions by eight happen), an exponent
    range that is wide compared with `Lz`, `p` and `2^(3⌊H/3⌋)`, and `3⌊H/3⌋` guard bits -/
structure RCtx (W : Sem) (z : Flt) (H Lz : ℕ) : Prop where
  wf : W.WF
  rm : W.rm = .nte ∨ W.rm = .nta
  p16 : 16 ≤ W.p
  zpos : PosN W z
  zlo : (2:ℚ) ^ (-(Lz:ℤ)) ≤ z.mag
  L3 : 3 ≤ Lz
  zH : z.mag ≤ 1 ∨ z.mag < (2:ℚ) ^ ((H:ℤ) - 2)
  emin : 2 * (Lz:ℤ) + 2 * (W.p:ℤ) + 8 ≤ -W.emin
  emax : 2 * (W.p:ℤ) + 8 ≤ W.emax
  emaxH : ((2 ^ (3 * (H / 3)) * 2 + 2 : ℕ) : ℤ) ≤ W.emax
  guard : ((2 ^ (3 * (H / 3)) * (tN W + 7) : ℕ) : ℚ) * u W ≤ 1 / 4

variable {z : Flt} {H Lz : ℕ}

/-- **Stage 2 (rational form).**  `exp_range_reduce z = (exp_taylor (z/8^s))^(8^s)` up to
    `2^(3s)·(j+4) - 2` relative perturbations of size `2^-p`, `3s ≤ H`. -/
theorem rr_spec (C : RCtx W z H Lz) (fuel : ℕ) (hfuel : C19.redBound z.exp + 1 ≤ fuel) :
    ∃ (r : Flt) (yq : ℚ) (s j : ℕ), expRangeReduce fuel z = some r ∧ PosN W r ∧
      0 < yq ∧ yq ≤ 1 ∧ yq * (8:ℚ) ^ s = z.mag ∧ 3 * s ≤ 3 * (H / 3) ∧ 1 ≤ j ∧ j + 1 ≤ tN W ∧
      Near (unit W W.rm) (2 ^ (3 * s) * (j + 4) - 2) ((Sq yq j) ^ (2 ^ (3 * s))) r.mag ∧
      tq yq j ≤ 2 * u W := by
  have hW := C.wf
  have hemin3 : W.emin ≤ -3 := by have := C.emin; have := C.p16; omega
  obtain ⟨yv, s, hloop, hyv, hys, hy1, hs8⟩ := reduce_loop_fuel hW hemin3 fuel z 0 C.zpos
    (posN_mag_lt C.zpos) hfuel
  rw [Nat.zero_add] at hloop
  have hy0 := hyv.mag_pos
  have h8pos : (0:ℚ) < (8:ℚ) ^ s := by positivity
  -- the number of steps
  have hsH0 : 3 * s ≤ H := by
    rcases Nat.eq_zero_or_pos s with h0 | hpos
    · omega
    · have hy8 : 1 / 8 < yv.mag := by
        rcases hs8 with h | h
        · omega
        · exact h
      obtain ⟨t, rfl⟩ : ∃ t, s = t + 1 := ⟨s - 1, by omega⟩
      have hzgt : (8:ℚ) ^ t < z.mag := by
        rw [← hys, pow_succ]
        have : (0:ℚ) < (8:ℚ) ^ t := by positivity
        nlinarith
      rcases C.zH with h | h
      · have : (1:ℚ) ≤ (8:ℚ) ^ t := one_le_pow₀ (by norm_num)
        linarith
      · have h8 : (8:ℚ) ^ t = (2:ℚ) ^ ((3 * t : ℕ) : ℤ) := by
          rw [zpow_natCast, pow_mul]; norm_num
        have hlt : (2:ℚ) ^ ((3 * t : ℕ) : ℤ) < (2:ℚ) ^ ((H:ℤ) - 2) := by rw [← h8]; linarith
        have := (zpow_lt_zpow_iff_right₀ (by norm_num : (1:ℚ) < 2)).mp hlt
        push_cast at this
        omega
  have hsH : 3 * s ≤ 3 * (H / 3) := by omega
  -- the Taylor sum
  have hylo : (2:ℚ) ^ (-(Lz:ℤ)) ≤ yv.mag := by
    rcases hs8 with h | h
    · rw [h, pow_zero, mul_one] at hys; rw [hys]; exact C.zlo
    · have h1 : (2:ℚ) ^ (-(Lz:ℤ)) ≤ (2:ℚ) ^ (-3:ℤ) :=
        zpow_le_zpow_right₀ (by norm_num) (by have := C.L3; omega)
      have h2 : (2:ℚ) ^ (-3:ℤ) = 1 / 8 := by norm_num
      rw [h2] at h1; linarith
  have CT : TCtx W yv Lz := ⟨hW, C.rm, C.p16, hyv, hy1, hylo, C.emin, C.emax⟩
  obtain ⟨j, hj1, hjN, hap, _, htail⟩ := expTaylor_spec CT
  -- the squarings
  have hA1 : 1 ≤ Sq yv.mag j := one_le_Sq (le_of_lt hy0) hj1
  have hA4 : Sq yv.mag j ≤ (2:ℚ) ^ 2 := by
    have := Sq_le_three (le_of_lt hy0) hy1 j; norm_num; linarith
  have hpow : 2 ^ (3 * s) ≤ 2 ^ (3 * (H / 3)) := Nat.pow_le_pow_right (by norm_num) hsH
  have hupos := u_pos W
  have hguard : ((2 ^ (3 * s) * (j + 2 + 2) : ℕ) : ℚ) * unit W W.rm ≤ 1 / 2 := by
    have h1 : 2 ^ (3 * s) * (j + 2 + 2) ≤ 2 ^ (3 * (H / 3)) * (tN W + 7) :=
      Nat.mul_le_mul hpow (by omega)
    have h2 : ((2 ^ (3 * s) * (j + 2 + 2) : ℕ) : ℚ) ≤
        ((2 ^ (3 * (H / 3)) * (tN W + 7) : ℕ) : ℚ) := Nat.cast_le.mpr h1
    have h3 := C.guard
    have h4 : unit W W.rm ≤ u W := unit_le_u W W.rm
    have h5 : ((2 ^ (3 * s) * (j + 2 + 2) : ℕ) : ℚ) * unit W W.rm ≤
        ((2 ^ (3 * (H / 3)) * (tN W + 7) : ℕ) : ℚ) * u W :=
      mul_le_mul h2 h4 (le_of_lt (unit_pos W W.rm)) (by positivity)
    linarith
  have hemaxK : ((2 ^ (3 * s) * 2 + 2 : ℕ) : ℤ) ≤ W.emax := by
    refine le_trans ?_ C.emaxH
    have : 2 ^ (3 * s) * 2 + 2 ≤ 2 ^ (3 * (H / 3)) * 2 + 2 := by nlinarith
    exact_mod_cast this
  have hit := sqr_iter hW C.rm (by omega) (3 * s) (expTaylor yv) (j + 2) 2 (Sq yv.mag j) hap hA1 hA4
    hguard hemaxK
  refine ⟨sqr3 s (expTaylor yv), yv.mag, s, j, ?_, ?_, hy0, hy1, hys, hsH, hj1, hjN, ?_, htail⟩
  · unfold expRangeReduce
    simp only [C.zpos.sem, C16.fromU64_one W hW, hloop]
  · rw [sqr3_eq_sqrN]; exact hit.pos
  · rw [sqr3_eq_sqrN]; exact hit.near

/-- **Stage 2.**  `|exp_range_reduce z - e^z| ≤ 2^(3⌊H/3⌋)·(max 50 p + 7)·2^(1-p)·e^z`: the relative
    error of the Taylor sum, amplified by the `3s ≤ 3⌊H/3⌋` squarings. -/
theorem rr_accuracy (C : RCtx W z H Lz) (fuel : ℕ) (hfuel : C19.redBound z.exp + 1 ≤ fuel) :
    ∃ r : Flt, expRangeReduce fuel z = some r ∧ PosN W r ∧
      |((r.mag : ℚ) : ℝ) - Real.exp (z.mag : ℝ)| ≤
        ((((2 ^ (3 * (H / 3)) * (tN W + 7) : ℕ) : ℚ) * u W : ℚ) : ℝ) * Real.exp (z.mag : ℝ) := by
  obtain ⟨r, yq, s, j, hr, hpos, hy0, hy1, hys, hsH, hj1, hjN, hnear, htail⟩ := rr_spec C fuel hfuel
  refine ⟨r, hr, hpos, ?_⟩
  have hv0 := le_of_lt (unit_pos W W.rm)
  have hupos := u_pos W
  set P : ℕ := 2 ^ (3 * s) with hP
  have hP1 : 1 ≤ P := Nat.one_le_two_pow
  have hPH : P ≤ 2 ^ (3 * (H / 3)) := Nat.pow_le_pow_right (by norm_num) hsH
  set S : ℚ := Sq yq j with hS
  have hS1 : 1 ≤ S := one_le_Sq (le_of_lt hy0) hj1
  have hQpos : 0 < S ^ P := by positivity
  -- (i) the computed value against the rational reference
  have hD : ((P * (j + 4) - 2 : ℕ) : ℚ) ≤ ((P * (j + 4) : ℕ) : ℚ) := Nat.cast_le.mpr (Nat.sub_le _ _)
  have hguard : ((P * (j + 4) : ℕ) : ℚ) * u W ≤ 1 / 4 := by
    have h1 : P * (j + 4) ≤ 2 ^ (3 * (H / 3)) * (tN W + 7) := Nat.mul_le_mul hPH (by omega)
    have h2 : ((P * (j + 4) : ℕ) : ℚ) ≤ ((2 ^ (3 * (H / 3)) * (tN W + 7) : ℕ) : ℚ) :=
      Nat.cast_le.mpr h1
    have := C.guard
    nlinarith
  have huv : u W = 2 * unit W W.rm := by rw [unit_nearest C.rm]; ring
  have hkv : ((P * (j + 4) - 2 : ℕ) : ℚ) * unit W W.rm ≤ 1 / 2 := by
    have : ((P * (j + 4) - 2 : ℕ) : ℚ) * unit W W.rm ≤ ((P * (j + 4) : ℕ) : ℚ) * unit W W.rm :=
      mul_le_mul_of_nonneg_right hD hv0
    rw [huv] at hguard; linarith
  have hrel := near_rel hv0 hkv (le_of_lt hQpos) hnear
  have hrel' : |r.mag - S ^ P| ≤ ((P * (j + 4) : ℕ) : ℚ) * u W * S ^ P := by
    refine le_trans hrel ?_
    rw [huv]
    have : 2 * ((P * (j + 4) - 2 : ℕ) : ℚ) * unit W W.rm * S ^ P ≤
        2 * ((P * (j + 4) : ℕ) : ℚ) * unit W W.rm * S ^ P := by
      apply mul_le_mul_of_nonneg_right _ (le_of_lt hQpos)
      apply mul_le_mul_of_nonneg_right _ hv0
      linarith
    linarith
  have hrelR : |((r.mag : ℚ) : ℝ) - ((S:ℚ):ℝ) ^ P| ≤
      ((((P * (j + 4) : ℕ) : ℚ) * u W : ℚ) : ℝ) * ((S:ℚ):ℝ) ^ P := by
    have : ((|r.mag - S ^ P| : ℚ) : ℝ) ≤ ((((P * (j + 4) : ℕ) : ℚ) * u W * S ^ P : ℚ) : ℝ) := by
      exact_mod_cast hrel'
    push_cast at this ⊢
    exact this
  -- (ii) the exponential of the argument
  have h8 : (8:ℚ) ^ s = ((P : ℕ) : ℚ) := by rw [hP, pow_mul]; push_cast; norm_num
  have hX : ((z.mag : ℚ) : ℝ) = (P : ℝ) * ((yq : ℚ) : ℝ) := by
    rw [← hys, h8]; push_cast; ring
  have hexpX : Real.exp ((z.mag : ℚ) : ℝ) = Real.exp ((yq : ℚ) : ℝ) ^ P := by
    rw [hX, Real.exp_nat_mul]
  set ey : ℝ := Real.exp ((yq : ℚ) : ℝ) with hey
  have hey1 : 1 ≤ ey := by
    have := Real.add_one_le_exp ((yq : ℚ) : ℝ)
    have h0 : (0:ℝ) ≤ ((yq : ℚ) : ℝ) := by exact_mod_cast le_of_lt hy0
    linarith
  -- (iii) upper bound of the reference
  have hSle : ((S:ℚ):ℝ) ≤ ey := Sq_le_exp (le_of_lt hy0) j
  have hSR0 : (0:ℝ) ≤ ((S:ℚ):ℝ) := by exact_mod_cast le_of_lt (lt_of_lt_of_le one_pos hS1)
  have hQle : ((S:ℚ):ℝ) ^ P ≤ ey ^ P := pow_le_pow_left₀ hSR0 hSle P
  -- (iv) lower bound of the reference
  set uR : ℝ := ((u W : ℚ) : ℝ) with huR
  have huR0 : 0 < uR := by rw [huR]; exact_mod_cast hupos
  have htl := exp_sub_Sq_le (le_of_lt hy0) hy1 hj1
  have htailR : ((tq yq j : ℚ) : ℝ) ≤ 2 * uR := by
    have : ((tq yq j : ℚ) : ℝ) ≤ ((2 * u W : ℚ) : ℝ) := by exact_mod_cast htail
    push_cast at this; exact this
  have hu4 : 4 * uR ≤ 1 / 4 := by
    have h1 : (1:ℚ) ≤ ((P * (j + 4) : ℕ) : ℚ) := by
      have : 1 ≤ P * (j + 4) := by nlinarith
      exact_mod_cast this
    have h2 : u W ≤ 1 / 4 := by nlinarith
    have h3 : (4:ℚ) ≤ ((P * (j + 4) : ℕ) : ℚ) := by
      have : 4 ≤ P * (j + 4) := by nlinarith
      exact_mod_cast this
    have h4 : 4 * u W ≤ 1 / 4 := by nlinarith
    have : ((4 * u W : ℚ) : ℝ) ≤ ((1 / 4 : ℚ) : ℝ) := by exact_mod_cast h4
    push_cast at this; exact this
  have hSge : ey * (1 - 4 * uR) ≤ ((S:ℚ):ℝ) := by nlinarith
  have h14 : (0:ℝ) ≤ 1 - 4 * uR := by linarith
  have hbern : 1 - (P:ℝ) * (4 * uR) ≤ (1 - 4 * uR) ^ P := by
    have := one_add_mul_le_pow (show (-2:ℝ) ≤ -(4 * uR) by linarith) P
    calc 1 - (P:ℝ) * (4 * uR) = 1 + (P:ℝ) * -(4 * uR) := by ring
      _ ≤ (1 + -(4 * uR)) ^ P := this
      _ = (1 - 4 * uR) ^ P := by ring_nf
  have heyP0 : 0 < ey ^ P := by positivity
  have hQge : ey ^ P * (1 - (P:ℝ) * (4 * uR)) ≤ ((S:ℚ):ℝ) ^ P := by
    calc ey ^ P * (1 - (P:ℝ) * (4 * uR)) ≤ ey ^ P * (1 - 4 * uR) ^ P :=
          mul_le_mul_of_nonneg_left hbern (le_of_lt heyP0)
      _ = (ey * (1 - 4 * uR)) ^ P := by rw [mul_pow]
      _ ≤ ((S:ℚ):ℝ) ^ P := pow_le_pow_left₀ (mul_nonneg (by linarith) h14) hSge P
  -- (v) assembly
  rw [hexpX]
  have hcoef : ((((P * (j + 4) : ℕ) : ℚ) * u W : ℚ) : ℝ) = (P:ℝ) * ((j:ℝ) + 4) * uR := by
    push_cast; ring
  rw [hcoef] at hrelR
  have hcoef2 : ((((2 ^ (3 * (H / 3)) * (tN W + 7) : ℕ) : ℚ) * u W : ℚ) : ℝ) =
      ((2 ^ (3 * (H / 3)) : ℕ) : ℝ) * ((tN W : ℝ) + 7) * uR := by push_cast; ring
  rw [hcoef2]
  have hPR : (P:ℝ) ≤ ((2 ^ (3 * (H / 3)) : ℕ) : ℝ) := Nat.cast_le.mpr hPH
  have hjR : (j:ℝ) + 1 ≤ (tN W : ℝ) := by
    have : ((j + 1 : ℕ) : ℝ) ≤ ((tN W : ℕ) : ℝ) := Nat.cast_le.mpr hjN
    push_cast at this; exact this
  have hP0 : (0:ℝ) < (P:ℝ) := by exact_mod_cast hP1
  have hj0 : (0:ℝ) ≤ (j:ℝ) := Nat.cast_nonneg j
  have hbig : (P:ℝ) * ((j:ℝ) + 8) * uR * ey ^ P ≤
      ((2 ^ (3 * (H / 3)) : ℕ) : ℝ) * ((tN W : ℝ) + 7) * uR * ey ^ P := by
    apply mul_le_mul_of_nonneg_right _ (le_of_lt heyP0)
    apply mul_le_mul_of_nonneg_right _ (le_of_lt huR0)
    exact mul_le_mul hPR (by linarith) (by linarith) (by positivity)
  have hstep1 : (P:ℝ) * ((j:ℝ) + 4) * uR * ((S:ℚ):ℝ) ^ P ≤ (P:ℝ) * ((j:ℝ) + 4) * uR * ey ^ P :=
    mul_le_mul_of_nonneg_left hQle (by positivity)
  rw [abs_le] at hrelR ⊢
  constructor
  · nlinarith [hrelR.1, hrelR.2]
  · nlinarith [hrelR.1, hrelR.2]

end Arp.ExpErr

/-! ## `exp`: the working format `(F.growLog (10 + h)).increaseExponent 10` -/

namespace Arp.ExpErr
open Arp Arp.SpecRound Arp.Sqrt Arp.RelErr

/-- the working format of `exp` with `h` guard bits -/
abbrev wfmt (F : Sem) (h : ℕ) : Sem := (F.growLog (10 + h)).increaseExponent 10

theorem wfmt_p (F : Sem) (h : ℕ) : (wfmt F h).p = F.p + (10 + h) + F.logPrecision := rfl
theorem wfmt_e (F : Sem) (h : ℕ) : (wfmt F h).e = F.e + 10 := rfl
theorem wfmt_rm (F : Sem) (h : ℕ) : (wfmt F h).rm = F.rm := rfl

theorem wfmt_WF {F : Sem} (hF : F.WF) (h : ℕ) : (wfmt F h).WF :=
  Sem.increaseExponent_WF (Sem.growLog_WF hF _) _

/-- facts about `logPrecision` for `p ≥ 8` -/
theorem logPrecision_facts {F : Sem} (hp : 8 ≤ F.p) :
    F.p + 1 ≤ 2 ^ F.logPrecision ∧ 16 ≤ 2 ^ F.logPrecision ∧ 4 ≤ F.logPrecision ∧
      F.logPrecision ≤ F.p := by
  have hp0 : F.p ≠ 0 := by omega
  have hL : F.logPrecision = F.p.log2 + 1 := by unfold Sem.logPrecision; rw [if_neg hp0]
  have h1 : F.p < 2 ^ (F.p.log2 + 1) := Nat.lt_log2_self
  have h3 : 3 ≤ F.p.log2 := (Nat.le_log2 hp0).mpr (by norm_num; omega)
  have h4 : F.p.log2 < F.p := (Nat.log2_lt hp0).mpr Nat.lt_two_pow_self
  rw [hL]
  refine ⟨h1, ?_, by omega, by omega⟩
  calc 16 = 2 ^ 4 := by norm_num
    _ ≤ 2 ^ (F.p.log2 + 1) := Nat.pow_le_pow_right (by norm_num) (by omega)

theorem tN_wfmt_le {F : Sem} (hp : 8 ≤ F.p) {h : ℕ} (hh : h ≤ 13) :
    tN (wfmt F h) + 7 ≤ 4 * 2 ^ F.logPrecision := by
  obtain ⟨h1, h2, h3, _⟩ := logPrecision_facts hp
  have h4 : F.logPrecision < 2 ^ F.logPrecision := Nat.lt_two_pow_self
  unfold tN
  rw [wfmt_p]
  rcases Nat.le_total 50 (F.p + (10 + h) + F.logPrecision) with hc | hc
  · rw [max_eq_right hc]; omega
  · rw [max_eq_left hc]; omega

/-- **the guard bits are sufficient**: with `3⌊H/3⌋ ≤ h + g` squarings
    `2^(3⌊H/3⌋)·(max 50 p_W + 7)·u_W ≤ 2^(g-p-7)` -/
theorem guard_bound {F : Sem} (hp : 8 ≤ F.p) {h H g : ℕ} (hh : h ≤ 13)
    (hH : 3 * (H / 3) ≤ h + g) :
    ((2 ^ (3 * (H / 3)) * (tN (wfmt F h) + 7) : ℕ) : ℚ) * u (wfmt F h) ≤
      (2:ℚ) ^ ((g:ℤ) - (F.p:ℤ) - 7) := by
  have hN := tN_wfmt_le hp hh
  have hpow : 2 ^ (3 * (H / 3)) ≤ 2 ^ (h + g) := Nat.pow_le_pow_right (by norm_num) hH
  have h1 : 2 ^ (3 * (H / 3)) * (tN (wfmt F h) + 7) ≤ 2 ^ (h + g) * (4 * 2 ^ F.logPrecision) :=
    Nat.mul_le_mul hpow hN
  have h2 : ((2 ^ (3 * (H / 3)) * (tN (wfmt F h) + 7) : ℕ) : ℚ) ≤
      ((2 ^ (h + g) * (4 * 2 ^ F.logPrecision) : ℕ) : ℚ) := Nat.cast_le.mpr h1
  have hu : u (wfmt F h) = (2:ℚ) ^ (1 - ((F.p + (10 + h) + F.logPrecision : ℕ) : ℤ)) := rfl
  have hupos := u_pos (wfmt F h)
  calc ((2 ^ (3 * (H / 3)) * (tN (wfmt F h) + 7) : ℕ) : ℚ) * u (wfmt F h)
      ≤ ((2 ^ (h + g) * (4 * 2 ^ F.logPrecision) : ℕ) : ℚ) * u (wfmt F h) :=
        mul_le_mul_of_nonneg_right h2 (le_of_lt hupos)
    _ = (2:ℚ) ^ ((g:ℤ) - (F.p:ℤ) - 7) := by
        rw [hu]
        push_cast
        rw [show (4:ℚ) = (2:ℚ) ^ (2:ℤ) by norm_num, ← zpow_natCast (2:ℚ) (h + g),
          ← zpow_natCast (2:ℚ) F.logPrecision, ← zpow_add₀ (by norm_num : (2:ℚ) ≠ 0),
          ← zpow_add₀ (by norm_num : (2:ℚ) ≠ 0), ← zpow_add₀ (by norm_num : (2:ℚ) ≠ 0)]
        congr 1
        push_cast
        ring

/-- the working format satisfies the side conditions of the range reduction -/
theorem rctx_wfmt {F : Sem} (hF : F.WF) (hp : 8 ≤ F.p) (hdom : F.p ≤ 2 ^ (F.e - 1) - 2)
    (hrm : F.rm = .nte ∨ F.rm = .nta) {h H : ℕ} (hh : h ≤ 13) (hH13 : H ≤ 13)
    (hHg : 3 * (H / 3) ≤ h + 4)
    {z : Flt} (hz : PosN (wfmt F h) z)
    (hzlo : (2:ℚ) ^ (-((2 ^ (F.e - 1) + F.p : ℕ) : ℤ)) ≤ z.mag)
    (hzH : z.mag ≤ 1 ∨ z.mag < (2:ℚ) ^ ((H:ℤ) - 2)) :
    RCtx (wfmt F h) z H (2 ^ (F.e - 1) + F.p) := by
  obtain ⟨l1, l2, l3, l4⟩ := logPrecision_facts hp
  have he : 2 ≤ F.e := hF.1
  set t := 2 ^ (F.e - 1) with ht
  have ht10 : 10 ≤ t := by omega
  have hWe : (wfmt F h).e - 1 = (F.e - 1) + 10 := by rw [wfmt_e]; omega
  have hpw : 2 ^ ((wfmt F h).e - 1) = t * 1024 := by rw [hWe, pow_add, ← ht]; norm_num
  have hemax : (wfmt F h).emax = ((t * 1024 : ℕ) : ℤ) - 1 := by
    rw [Sem.emax_eq (by rw [wfmt_e]; omega), hpw]
  have hemin : (wfmt F h).emin = 2 - ((t * 1024 : ℕ) : ℤ) := by
    rw [Sem.emin_eq, hpw]
  have hpowH : 2 ^ (3 * (H / 3)) * 2 + 2 ≤ t * 1024 - 1 := by
    have h1 : 2 ^ (3 * (H / 3)) ≤ 2 ^ 12 := Nat.pow_le_pow_right (by norm_num) (by omega)
    have h2 : (2:ℕ) ^ 12 = 4096 := by norm_num
    omega
  refine ⟨wfmt_WF hF h, hrm, by rw [wfmt_p]; omega, hz, hzlo, by omega, hzH, ?_, ?_, ?_, ?_⟩
  · rw [hemin, wfmt_p]; push_cast; omega
  · rw [hemax, wfmt_p]; push_cast; omega
  · rw [hemax]; omega
  · refine le_trans (guard_bound hp hh hHg) ?_
    calc (2:ℚ) ^ (((4:ℕ):ℤ) - (F.p:ℤ) - 7) ≤ (2:ℚ) ^ (-2:ℤ) :=
          zpow_le_zpow_right₀ (by norm_num) (by push_cast; omega)
      _ = 1 / 4 := by norm_num

end Arp.ExpErr

/-! ## `exp`: the final rounding into the caller's format -/

namespace Arp.ExpErr
open Arp Arp.SpecRound Arp.Sqrt Arp.RelErr

/-- in the nearest modes every magnitude above half the smallest subnormal and not above the
    largest finite number is rounded to a finite non-zero number -/
theorem round_fin_nearest {F : Sem} (hF : F.WF) {rm : RM} (hrm : rm = .nte ∨ rm = .nta) {q : ℚ}
    (hq : 0 < q) (hlo : F.ulp F.emin / 2 < q) (hhi : q ≤ maxFinite F) :
    ∃ e m, Spec.round F rm false q = .fin false e m := by
  rcases round_cases hF hq rm false with h | h | h
  · exfalso
    have hrep : IsRep F (F.ulp F.emin) := by
      rw [Sem.ulp_def]
      exact isRep_pow hF _ (le_refl _) (by have := Sem.emin_le_emax hF; have := hF.2; omega)
    have hsp := round_nearest_spec hF hq hrm false (by rw [h]; trivial) _ hrep
    rw [h] at hsp
    simp only [Res.mag, zero_sub, abs_neg, abs_of_pos hq] at hsp
    have hupos := F.ulp_pos F.emin
    rcases abs_cases (F.ulp F.emin - q) with ⟨e, _⟩ | ⟨e, _⟩ <;> rw [e] at hsp <;> linarith
  · exfalso
    obtain ⟨_, h'⟩ := (round_eq_inf_iff hF hq rm false false).mp h
    have h1 := maxFinite_lt_sr F
    have h2 := maxFinite_lt_nearThreshold F
    rcases h' with ⟨_, h'⟩ | ⟨_, h'⟩ | ⟨_, h'⟩ <;> linarith
  · exact h

/-- **The final rounding.**  `R` approximates the real number `t` (between the smallest subnormal
    and the largest finite number of `F`, with the margin `2^-p` at the top) with relative error
    `2^(-p-6)`; the nearest rounding of `R` to `F` is a finite positive number within `33/64` ulp of
    `t`, the ulp being that of any binade `[2^k, 2^(k+1))`, `k ≥ emin`, which bounds both `t` and
    the result; if `t` is in the normal range, so is the result. -/
theorem final_round {F : Sem} (hF : F.WF) (hrm : F.rm = .nte ∨ F.rm = .nta) {res : Flt}
    (hsem : res.sem = F) {R : ℚ} (hres : res.toRes = Spec.round F F.rm false R) {t : ℝ}
    (htlo : (2:ℝ) ^ (F.emin - ((F.p:ℤ) - 1)) ≤ t)
    (hthi : t ≤ ((maxFinite F : ℚ) : ℝ) * (1 - (2:ℝ) ^ (-(F.p:ℤ))))
    (herr : |((R:ℚ):ℝ) - t| ≤ (2:ℝ) ^ (-(F.p:ℤ) - 6) * t) :
    PosN F res ∧
    (∀ k : ℤ, F.emin ≤ k → t < (2:ℝ) ^ (k + 1) → ((res.mag : ℚ) : ℝ) < (2:ℝ) ^ (k + 1) →
      |((res.mag : ℚ) : ℝ) - t| ≤ 33 / 64 * (2:ℝ) ^ (k - ((F.p:ℤ) - 1))) ∧
    ((2:ℝ) ^ F.emin ≤ t → 2 ^ (F.p - 1) ≤ res.mant) := by
  have hp1 : 1 ≤ F.p := by have := hF.2; omega
  have htpos : 0 < t := lt_of_lt_of_le (by positivity) htlo
  set a : ℝ := (2:ℝ) ^ (-(F.p:ℤ)) with ha
  have ha0 : 0 < a := by positivity
  have ha1 : a ≤ 1 / 4 := by
    calc a ≤ (2:ℝ) ^ (-2:ℤ) := zpow_le_zpow_right₀ (by norm_num) (by have := hF.2; omega)
      _ = 1 / 4 := by norm_num
  have heps : (2:ℝ) ^ (-(F.p:ℤ) - 6) = a / 64 := by
    rw [ha, zpow_sub₀ (by norm_num : (2:ℝ) ≠ 0)]; norm_num
  rw [heps] at herr
  obtain ⟨herr1, herr2⟩ := abs_le.mp herr
  -- the rational bounds of `R`
  have hRpos : (0:ℝ) < ((R:ℚ):ℝ) := by nlinarith
  have hq : 0 < R := by exact_mod_cast hRpos
  have hlo : F.ulp F.emin / 2 < R := by
    have h1 : (2:ℝ) ^ (F.emin - ((F.p:ℤ) - 1)) / 2 < ((R:ℚ):ℝ) := by nlinarith
    have : ((F.ulp F.emin / 2 : ℚ) : ℝ) < ((R:ℚ):ℝ) := by
      rw [Sem.ulp_def]; push_cast; exact h1
    exact_mod_cast this
  have hMF0 : (0:ℝ) ≤ ((maxFinite F : ℚ) : ℝ) := by
    have : (0:ℚ) ≤ maxFinite F := (maxFinite_isRep hF).nonneg
    exact_mod_cast this
  have hhi : R ≤ maxFinite F := by
    have h1 : ((R:ℚ):ℝ) ≤ ((maxFinite F : ℚ) : ℝ) := by
      have h2 : (1 - a) * (1 + a / 64) ≤ 1 := by nlinarith
      have h3 : ((R:ℚ):ℝ) ≤ t * (1 + a / 64) := by linarith
      have h4 : t * (1 + a / 64) ≤ ((maxFinite F : ℚ) : ℝ) * (1 - a) * (1 + a / 64) :=
        mul_le_mul_of_nonneg_right hthi (by positivity)
      have h5 : ((maxFinite F : ℚ) : ℝ) * (1 - a) * (1 + a / 64) ≤ ((maxFinite F : ℚ) : ℝ) := by
        rw [mul_assoc]; exact mul_le_of_le_one_right hMF0 h2
      linarith
    exact_mod_cast h1
  obtain ⟨e, m, hfin⟩ := round_fin_nearest hF hrm hq hlo hhi
  obtain ⟨hpos, hmag⟩ := posN_of_round hF hsem hq hfin hres
  have hv : rnd F F.rm R = (m:ℚ) * F.ulp e := by unfold rnd; rw [hfin, Res.mag_fin]
  obtain ⟨_, e1, _, _, _, hn⟩ := round_mem hF hq F.rm false hfin
  have hhalf := within_half_ulp hF hq hrm false hfin
  rw [← Sem.ulp_def] at hhalf
  rw [← hv, ← hmag] at hhalf
  have hexp : res.exp = e ∧ res.mant = m := by
    rw [hfin] at hres
    obtain ⟨_, _, h3, h4⟩ := toRes_fin hres
    exact ⟨h3, h4⟩
  have hhalfR : |((res.mag : ℚ) : ℝ) - ((R:ℚ):ℝ)| ≤ (2:ℝ) ^ (e - ((F.p:ℤ) - 1)) / 2 := by
    have : ((|res.mag - R| : ℚ) : ℝ) ≤ ((F.ulp e / 2 : ℚ) : ℝ) := by exact_mod_cast hhalf
    rw [Sem.ulp_def] at this
    push_cast at this; exact this
  obtain ⟨g1, g2⟩ := abs_le.mp hhalfR
  refine ⟨hpos, fun k hkmin hkt hkr => ?_, fun hnorm => ?_⟩
  · -- the result's exponent is at most `k`
    have hek : e ≤ k := by
      rcases hn with hn | hn
      · have h1 : (2:ℚ) ^ e ≤ res.mag := by
          rw [hmag, hv, ← F.half_pow_mul_ulp hp1 e]
          exact mul_le_mul_of_nonneg_right (by exact_mod_cast hn) (le_of_lt (F.ulp_pos e))
        have h2 : (2:ℝ) ^ e ≤ ((res.mag : ℚ) : ℝ) := by
          have : (((2:ℚ) ^ e : ℚ) : ℝ) ≤ ((res.mag : ℚ) : ℝ) := by exact_mod_cast h1
          push_cast at this; exact this
        have h3 : (2:ℝ) ^ e < (2:ℝ) ^ (k + 1) := lt_of_le_of_lt h2 hkr
        have := (zpow_lt_zpow_iff_right₀ (by norm_num : (1:ℝ) < 2)).mp h3
        omega
      · omega
    have hulp : (2:ℝ) ^ (e - ((F.p:ℤ) - 1)) ≤ (2:ℝ) ^ (k - ((F.p:ℤ) - 1)) :=
      zpow_le_zpow_right₀ (by norm_num) (by omega)
    have h64 : a / 64 * (2:ℝ) ^ (k + 1) = (2:ℝ) ^ (k - ((F.p:ℤ) - 1)) / 64 := by
      rw [ha, show k - ((F.p:ℤ) - 1) = -(F.p:ℤ) + (k + 1) by ring,
        zpow_add₀ (by norm_num : (2:ℝ) ≠ 0) (-(F.p:ℤ)) (k + 1)]; ring
    have hUk : (0:ℝ) < (2:ℝ) ^ (k - ((F.p:ℤ) - 1)) := by positivity
    have htk : a / 64 * t ≤ (2:ℝ) ^ (k - ((F.p:ℤ) - 1)) / 64 := by
      rw [← h64]; exact mul_le_mul_of_nonneg_left (le_of_lt hkt) (by positivity)
    rw [abs_le]
    constructor <;> linarith
  · -- a value in the normal range is not rounded to a subnormal number
    rw [hexp.2]
    by_contra hcon
    have hm1 : m + 1 ≤ 2 ^ (F.p - 1) := by omega
    have he : e = F.emin := by
      rcases hn with h | h
      · exact absurd h hcon
      · exact h
    have h1 : res.mag + F.ulp e ≤ (2:ℚ) ^ e := by
      rw [hmag, hv, ← F.half_pow_mul_ulp hp1 e]
      have : ((m + 1 : ℕ) : ℚ) ≤ ((2 ^ (F.p - 1) : ℕ) : ℚ) := Nat.cast_le.mpr hm1
      push_cast at this
      nlinarith [F.ulp_pos e]
    have h2 : ((res.mag : ℚ) : ℝ) + (2:ℝ) ^ (e - ((F.p:ℤ) - 1)) ≤ (2:ℝ) ^ e := by
      have : ((res.mag + F.ulp e : ℚ) : ℝ) ≤ (((2:ℚ) ^ e : ℚ) : ℝ) := by exact_mod_cast h1
      rw [Sem.ulp_def] at this
      push_cast at this; exact this
    have h3 : (2:ℝ) ^ (e - ((F.p:ℤ) - 1)) = 2 * a * (2:ℝ) ^ e := by
      rw [ha, show e - ((F.p:ℤ) - 1) = -(F.p:ℤ) + e + 1 by ring, zpow_add_one₀ (by norm_num),
        zpow_add₀ (by norm_num : (2:ℝ) ≠ 0)]; ring
    rw [he] at h2 h3 g1
    have hpe : (0:ℝ) < (2:ℝ) ^ F.emin := by positivity
    have haP : 0 < a * (2:ℝ) ^ F.emin := by positivity
    have h4 : (2:ℝ) ^ F.emin * (1 - a / 64) ≤ ((R:ℚ):ℝ) := by nlinarith
    nlinarith


theorem toRes_inf_sign {x : Flt} {s : Bool} (h : x.toRes = .inf s) : x.cat = .inf ∧ x.sign = s := by
  cases hc : x.cat <;> simp only [Flt.toRes, hc] at h
  all_goals first
    | (injection h with h1; exact ⟨rfl, h1⟩)
    | exact Res.noConfusion h

/-- `nearThreshold F = 2^(emax+1)·(1 - 2^-p/2)` -/
theorem nearThreshold_eq (F : Sem) :
    nearThreshold F = (2:ℚ) ^ (F.emax + 1) * (1 - (2:ℚ) ^ (-(F.p:ℤ)) / 2) := by
  unfold nearThreshold
  rw [maxFinite_eq, ← F.pow_mul_ulp F.emax]
  have h1 : (2:ℚ) ^ (F.emax - (F.p:ℤ)) = F.ulp F.emax / 2 := half_ulp F F.emax
  have h2 : (2:ℚ) ^ F.p * (2:ℚ) ^ (-(F.p:ℤ)) = 1 := by
    rw [← zpow_natCast, ← zpow_add₀ (by norm_num : (2:ℚ) ≠ 0)]; simp
  rw [h1]
  have : (2:ℚ) ^ F.p * F.ulp F.emax * (1 - (2:ℚ) ^ (-(F.p:ℤ)) / 2) =
      (2:ℚ) ^ F.p * F.ulp F.emax - ((2:ℚ) ^ F.p * (2:ℚ) ^ (-(F.p:ℤ))) * F.ulp F.emax / 2 := by ring
  rw [this, h2]; ring

/-- **The final rounding, every case.**  `R` approximates the positive real `t` with relative error
    `c·2^-p`, `c ≤ 1/8`.  The nearest rounding of `R` to `F` is
    * `+∞` only if `t > maxFinite·(1 - 2^-p)` (and certainly if `t ≥ 2^(emax+1)`),
    * `+0` only if `t` is below the smallest subnormal,
    * otherwise a positive finite number within `1/2 + c` ulp of `t` (ulp of any binade
      `[2^k, 2^(k+1))`, `k ≥ emin`, bounding both), normal if `t ≥ 2^emin`. -/
theorem final_round_gen {F : Sem} (hF : F.WF) (hrm : F.rm = .nte ∨ F.rm = .nta) {res : Flt}
    (hsem : res.sem = F) {R : ℚ} (hres : res.toRes = Spec.round F F.rm false R) {t c : ℝ}
    (ht0 : 0 < t) (hc0 : 0 ≤ c) (hc8 : c ≤ 1 / 8)
    (herr : |((R:ℚ):ℝ) - t| ≤ c * (2:ℝ) ^ (-(F.p:ℤ)) * t) :
    ((res.cat = .inf ∧ res.sign = false ∧
        ((maxFinite F : ℚ) : ℝ) * (1 - (2:ℝ) ^ (-(F.p:ℤ))) < t) ∨
      (res.cat = .zero ∧ res.sign = false ∧ t < (2:ℝ) ^ (F.emin - ((F.p:ℤ) - 1))) ∨
      (PosN F res ∧
        (∀ k : ℤ, F.emin ≤ k → t < (2:ℝ) ^ (k + 1) → ((res.mag : ℚ) : ℝ) < (2:ℝ) ^ (k + 1) →
          |((res.mag : ℚ) : ℝ) - t| ≤ (1 / 2 + c) * (2:ℝ) ^ (k - ((F.p:ℤ) - 1))) ∧
        ((2:ℝ) ^ F.emin ≤ t → 2 ^ (F.p - 1) ≤ res.mant))) ∧
    ((2:ℝ) ^ (F.emax + 1) ≤ t → res.cat = .inf) := by
  have hp1 : 1 ≤ F.p := by have := hF.2; omega
  set a : ℝ := (2:ℝ) ^ (-(F.p:ℤ)) with ha
  have ha0 : 0 < a := by positivity
  have ha1 : a ≤ 1 / 4 := by
    calc a ≤ (2:ℝ) ^ (-2:ℤ) := zpow_le_zpow_right₀ (by norm_num) (by have := hF.2; omega)
      _ = 1 / 4 := by norm_num
  have hca : c * a ≤ 1 / 32 := by nlinarith
  have hca0 : 0 ≤ c * a := by positivity
  obtain ⟨herr1, herr2⟩ := abs_le.mp herr
  have hRpos : (0:ℝ) < ((R:ℚ):ℝ) := by nlinarith
  have hq : 0 < R := by exact_mod_cast hRpos
  have hMF0 : (0:ℝ) ≤ ((maxFinite F : ℚ) : ℝ) := by
    have : (0:ℚ) ≤ maxFinite F := (maxFinite_isRep hF).nonneg
    exact_mod_cast this
  have hnt : ((nearThreshold F : ℚ) : ℝ) = (2:ℝ) ^ (F.emax + 1) * (1 - a / 2) := by
    rw [nearThreshold_eq]; push_cast; rfl
  -- `t ≥ 2^(emax+1)` overflows
  have hbig : (2:ℝ) ^ (F.emax + 1) ≤ t → Spec.round F F.rm false R = .inf false := by
    intro hge
    refine (round_eq_inf_iff hF hq F.rm false false).mpr ⟨rfl, Or.inr (Or.inr ⟨hrm, ?_⟩)⟩
    have hpe : (0:ℝ) < (2:ℝ) ^ (F.emax + 1) := by positivity
    have : ((nearThreshold F : ℚ) : ℝ) ≤ ((R:ℚ):ℝ) := by rw [hnt]; nlinarith
    exact_mod_cast this
  refine ⟨?_, fun hge => ?_⟩
  swap
  · have := hbig hge
    rw [this] at hres
    exact (toRes_inf_sign hres).1
  rcases round_cases hF hq F.rm false with h | h | ⟨e, m, hfin⟩
  · -- zero
    right; left
    rw [h] at hres
    obtain ⟨hcat, hsg⟩ := toRes_zero hres
    refine ⟨hcat, hsg, ?_⟩
    have hrep : IsRep F (F.ulp F.emin) := by
      rw [Sem.ulp_def]
      exact isRep_pow hF _ (le_refl _) (by have := Sem.emin_le_emax hF; have := hF.2; omega)
    have hsp := round_nearest_spec hF hq hrm false (by rw [h]; trivial) _ hrep
    rw [h] at hsp
    simp only [Res.mag, zero_sub, abs_neg, abs_of_pos hq] at hsp
    have hupos := F.ulp_pos F.emin
    have hR2 : R ≤ F.ulp F.emin / 2 := by
      rcases abs_cases (F.ulp F.emin - R) with ⟨e, _⟩ | ⟨e, _⟩ <;> rw [e] at hsp <;> linarith
    have hR2R : ((R:ℚ):ℝ) ≤ (2:ℝ) ^ (F.emin - ((F.p:ℤ) - 1)) / 2 := by
      have : ((R:ℚ):ℝ) ≤ ((F.ulp F.emin / 2 : ℚ) : ℝ) := by exact_mod_cast hR2
      rw [Sem.ulp_def] at this; push_cast at this; exact this
    have hσ : (0:ℝ) < (2:ℝ) ^ (F.emin - ((F.p:ℤ) - 1)) := by positivity
    nlinarith
  · -- infinity
    left
    rw [h] at hres
    obtain ⟨hcat, hsg⟩ := toRes_inf_sign hres
    refine ⟨hcat, hsg, ?_⟩
    obtain ⟨_, h'⟩ := (round_eq_inf_iff hF hq F.rm false false).mp h
    have hth : nearThreshold F ≤ R := by
      rcases h' with ⟨h1, _⟩ | ⟨h1, _⟩ | ⟨_, h1⟩
      · rcases hrm with h2 | h2 <;> rw [h2] at h1 <;> exact absurd h1 (by decide)
      · rcases h1 with ⟨h1, _⟩ | ⟨_, h1⟩
        · rcases hrm with h2 | h2 <;> rw [h2] at h1 <;> exact absurd h1 (by decide)
        · exact absurd h1 (by decide)
      · exact h1
    have hthR : ((maxFinite F : ℚ) : ℝ) ≤ ((R:ℚ):ℝ) := by
      have h1 := maxFinite_lt_nearThreshold F
      have : ((maxFinite F : ℚ) : ℝ) ≤ ((R:ℚ):ℝ) := by exact_mod_cast le_trans (le_of_lt h1) hth
      exact this
    -- MF ≤ R ≤ t(1 + ca) and (1 - a)(1 + ca) < 1
    have h2 : (1 - a) * (1 + c * a) < 1 := by nlinarith
    have h3 : ((maxFinite F : ℚ) : ℝ) ≤ t * (1 + c * a) := by nlinarith
    by_contra hcon
    rw [not_lt] at hcon
    have h4 : t * (1 + c * a) ≤ ((maxFinite F : ℚ) : ℝ) * (1 - a) * (1 + c * a) :=
      mul_le_mul_of_nonneg_right hcon (by positivity)
    have hMFpos : (0:ℝ) < ((maxFinite F : ℚ) : ℝ) := by nlinarith
    nlinarith
  · -- finite
    right; right
    obtain ⟨hpos, hmag⟩ := posN_of_round hF hsem hq hfin hres
    have hv : rnd F F.rm R = (m:ℚ) * F.ulp e := by unfold rnd; rw [hfin, Res.mag_fin]
    obtain ⟨_, e1, _, _, _, hn⟩ := round_mem hF hq F.rm false hfin
    have hhalf := within_half_ulp hF hq hrm false hfin
    rw [← Sem.ulp_def] at hhalf
    rw [← hv, ← hmag] at hhalf
    have hexp : res.exp = e ∧ res.mant = m := by
      rw [hfin] at hres
      obtain ⟨_, _, h3, h4⟩ := toRes_fin hres
      exact ⟨h3, h4⟩
    have hhalfR : |((res.mag : ℚ) : ℝ) - ((R:ℚ):ℝ)| ≤ (2:ℝ) ^ (e - ((F.p:ℤ) - 1)) / 2 := by
      have : ((|res.mag - R| : ℚ) : ℝ) ≤ ((F.ulp e / 2 : ℚ) : ℝ) := by exact_mod_cast hhalf
      rw [Sem.ulp_def] at this
      push_cast at this; exact this
    obtain ⟨g1, g2⟩ := abs_le.mp hhalfR
    refine ⟨hpos, fun k hkmin hkt hkr => ?_, fun hnorm => ?_⟩
    · have hek : e ≤ k := by
        rcases hn with hn | hn
        · have h1 : (2:ℚ) ^ e ≤ res.mag := by
            rw [hmag, hv, ← F.half_pow_mul_ulp hp1 e]
            exact mul_le_mul_of_nonneg_right (by exact_mod_cast hn) (le_of_lt (F.ulp_pos e))
          have h2 : (2:ℝ) ^ e ≤ ((res.mag : ℚ) : ℝ) := by
            have : (((2:ℚ) ^ e : ℚ) : ℝ) ≤ ((res.mag : ℚ) : ℝ) := by exact_mod_cast h1
            push_cast at this; exact this
          have h3 : (2:ℝ) ^ e < (2:ℝ) ^ (k + 1) := lt_of_le_of_lt h2 hkr
          have := (zpow_lt_zpow_iff_right₀ (by norm_num : (1:ℝ) < 2)).mp h3
          omega
        · omega
      have hulp : (2:ℝ) ^ (e - ((F.p:ℤ) - 1)) ≤ (2:ℝ) ^ (k - ((F.p:ℤ) - 1)) :=
        zpow_le_zpow_right₀ (by norm_num) (by omega)
      have h64 : a * (2:ℝ) ^ (k + 1) = (2:ℝ) ^ (k - ((F.p:ℤ) - 1)) := by
        rw [ha, show k - ((F.p:ℤ) - 1) = -(F.p:ℤ) + (k + 1) by ring,
          zpow_add₀ (by norm_num : (2:ℝ) ≠ 0) (-(F.p:ℤ)) (k + 1)]
      have hUk : (0:ℝ) < (2:ℝ) ^ (k - ((F.p:ℤ) - 1)) := by positivity
      have htk : c * a * t ≤ c * (2:ℝ) ^ (k - ((F.p:ℤ) - 1)) := by
        rw [← h64, mul_assoc]
        exact mul_le_mul_of_nonneg_left (mul_le_mul_of_nonneg_left (le_of_lt hkt) (le_of_lt ha0)) hc0
      rw [abs_le]
      constructor <;> linarith
    · rw [hexp.2]
      by_contra hcon
      have hm1 : m + 1 ≤ 2 ^ (F.p - 1) := by omega
      have he : e = F.emin := by
        rcases hn with h | h
        · exact absurd h hcon
        · exact h
      have h1 : res.mag + F.ulp e ≤ (2:ℚ) ^ e := by
        rw [hmag, hv, ← F.half_pow_mul_ulp hp1 e]
        have : ((m + 1 : ℕ) : ℚ) ≤ ((2 ^ (F.p - 1) : ℕ) : ℚ) := Nat.cast_le.mpr hm1
        push_cast at this
        nlinarith [F.ulp_pos e]
      have h2 : ((res.mag : ℚ) : ℝ) + (2:ℝ) ^ (e - ((F.p:ℤ) - 1)) ≤ (2:ℝ) ^ e := by
        have : ((res.mag + F.ulp e : ℚ) : ℝ) ≤ (((2:ℚ) ^ e : ℚ) : ℝ) := by exact_mod_cast h1
        rw [Sem.ulp_def] at this
        push_cast at this; exact this
      have h3 : (2:ℝ) ^ (e - ((F.p:ℤ) - 1)) = 2 * a * (2:ℝ) ^ e := by
        rw [ha, show e - ((F.p:ℤ) - 1) = -(F.p:ℤ) + e + 1 by ring, zpow_add_one₀ (by norm_num),
          zpow_add₀ (by norm_num : (2:ℝ) ≠ 0)]; ring
      rw [he] at h2 h3 g1
      have hpe : (0:ℝ) < (2:ℝ) ^ F.emin := by positivity
      have haP : 0 < a * (2:ℝ) ^ F.emin := by positivity
      have h4 : (2:ℝ) ^ F.emin * (1 - c * a) ≤ ((R:ℚ):ℝ) := by nlinarith
      have h5 : c * (a * (2:ℝ) ^ F.emin) ≤ 1 / 8 * (a * (2:ℝ) ^ F.emin) :=
        mul_le_mul_of_nonneg_right hc8 (le_of_lt haP)
      nlinarith

end Arp.ExpErr
