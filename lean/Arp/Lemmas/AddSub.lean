import Arp.Lemmas.Defs
import Arp.Model.Arith
/-!
# Helper lemmas for C01/C03: addition and subtraction are correctly rounded
-/
namespace Arp

/-! ### `msb`, losses -/

theorem msb_le_of_lt {n k : Nat} (h : n < 2 ^ k) : msb n ≤ k := by
  by_cases hn : n = 0
  · subst hn; simp [msb]
  · by_contra hc
    have h1 : 2 ^ k ≤ 2 ^ (msb n - 1) := Nat.pow_le_pow_right (by norm_num) (by omega)
    have h2 := msb_le hn
    omega

theorem lt_msb_of_le {n k : Nat} (h : 2 ^ k ≤ n) : k < msb n := by
  by_contra hc
  have h1 : 2 ^ msb n ≤ 2 ^ k := Nat.pow_le_pow_right (by norm_num) (by omega)
  have h2 := lt_msb n
  omega

theorem lossOfBits_zero_bits (m : Nat) : lossOfBits m 0 = .zero := by
  rw [lossOfBits_eq]; simp [Nat.mod_one]

theorem invert_eq_zero {l : Loss} : l.invert = .zero ↔ l = .zero := by
  cases l <;> simp [Loss.invert]

theorem two_pow_pred {p : Nat} (hp : 1 ≤ p) : 2 ^ p = 2 * 2 ^ (p - 1) := by
  obtain ⟨k, rfl⟩ : ∃ k, p = k + 1 := ⟨p - 1, by omega⟩
  simp [Nat.pow_succ]; ring

/-! ### `Denotes` for the three shapes produced by `addOrSubNormals` -/

theorem denotes_exact (p m : Nat) (e : Int) :
    Denotes p m e .zero ((m:ℚ) * 2 ^ (e - ((p:Int) - 1))) := by
  refine ⟨0, le_refl _, by norm_num, by simp [cls], ?_⟩
  rw [add_zero]

theorem denotes_pos {p m : Nat} {e : Int} {l : Loss} {q : ℚ} (hd : Denotes p m e l q)
    (hm : m ≠ 0) : 0 < q := by
  obtain ⟨f, hf0, _, _, hq⟩ := hd
  have : (0:ℚ) < m := by exact_mod_cast Nat.pos_of_ne_zero hm
  rw [hq]; positivity

theorem denotes_ge_quantum {p m : Nat} {e emin : Int} {l : Loss} {q : ℚ}
    (hd : Denotes p m e l q) (hm : m ≠ 0) (he : emin ≤ e) :
    (2:ℚ) ^ (emin - ((p:Int) - 1)) ≤ q := by
  obtain ⟨f, hf0, _, _, hq⟩ := hd
  have h1 : (1:ℚ) ≤ m := by exact_mod_cast Nat.pos_of_ne_zero hm
  have h2 : (2:ℚ) ^ (emin - ((p:Int) - 1)) ≤ 2 ^ (e - ((p:Int) - 1)) :=
    zpow_le_zpow_right₀ (by norm_num) (by omega)
  have h3 : (0:ℚ) < 2 ^ (e - ((p:Int) - 1)) := by positivity
  rw [hq]
  calc (2:ℚ) ^ (emin - ((p:Int) - 1)) ≤ 1 * 2 ^ (e - ((p:Int) - 1)) := by rw [one_mul]; exact h2
    _ ≤ ((m:ℚ) + f) * 2 ^ (e - ((p:Int) - 1)) := by
        apply mul_le_mul_of_nonneg_right _ (le_of_lt h3); linarith

/-- the exact quotient `L / 2^g` splits into the shifted integer and the lost fraction -/
theorem shift_split (L g : Nat) :
    (L:ℚ) / 2 ^ g = ((L >>> g : Nat) : ℚ) + ((L % 2 ^ g : Nat) : ℚ) / 2 ^ g := by
  have h := fract_shift L g 0
  simp only [add_zero] at h
  linarith

theorem lost_lt_one (L g : Nat) : ((L % 2 ^ g : Nat) : ℚ) / 2 ^ g < 1 := by
  rw [div_lt_one (by positivity)]
  exact_mod_cast Nat.mod_lt L (by positivity : 0 < 2 ^ g)

/-- pure addition: the low operand is shifted right by the exponent gap -/
theorem denotes_add (p H L : Nat) (eh el : Int) (g : Nat) (hg : eh = el + g) :
    Denotes p (H + L >>> g) eh (lossOfBits L g)
      ((H:ℚ) * 2 ^ (eh - ((p:Int) - 1)) + (L:ℚ) * 2 ^ (el - ((p:Int) - 1))) := by
  refine ⟨((L % 2 ^ g : Nat) : ℚ) / 2 ^ g, by positivity, lost_lt_one L g,
    (lossOfBits_cls L g).symm, ?_⟩
  have e1 : (2:ℚ) ^ (eh - ((p:Int) - 1)) = 2 ^ (el - ((p:Int) - 1)) * 2 ^ g := by
    rw [← zpow_natCast, ← zpow_add₀ (by norm_num : (2:ℚ) ≠ 0)]; congr 1; omega
  have hs := shift_split L g
  have hpos : (0:ℚ) < 2 ^ g := by positivity
  have hL : (L:ℚ) = (((L >>> g : Nat) : ℚ) + ((L % 2 ^ g : Nat) : ℚ) / 2 ^ g) * 2 ^ g := by
    rw [← hs]; field_simp
  rw [Nat.cast_add, e1]
  generalize ((L >>> g : Nat) : ℚ) = Y at *
  generalize ((L % 2 ^ g : Nat) : ℚ) / 2 ^ g = f at *
  rw [hL]; ring

/-- true subtraction with exponent gap `g ≥ 1`: the high operand is shifted left by one,
    the low one right by `g-1`, a borrow is taken iff something was lost -/
theorem denotes_sub (p H L : Nat) (eh el : Int) (g : Nat) (hg : eh = el + g) (hg1 : 1 ≤ g)
    (hle : L >>> (g - 1) + (if lossOfBits L (g - 1) = .zero then 0 else 1) ≤ 2 * H) :
    Denotes p (2 * H - L >>> (g - 1) - (if lossOfBits L (g - 1) = .zero then 0 else 1)) (eh - 1)
      (lossOfBits L (g - 1)).invert
      ((H:ℚ) * 2 ^ (eh - ((p:Int) - 1)) - (L:ℚ) * 2 ^ (el - ((p:Int) - 1))) := by
  set k := g - 1 with hk
  have e1 : (2:ℚ) ^ (eh - ((p:Int) - 1)) = 2 ^ (eh - 1 - ((p:Int) - 1)) * 2 := by
    rw [← zpow_add_one₀ (by norm_num : (2:ℚ) ≠ 0)]; congr 1; ring
  have e2 : (2:ℚ) ^ (eh - 1 - ((p:Int) - 1)) = 2 ^ (el - ((p:Int) - 1)) * 2 ^ k := by
    rw [← zpow_natCast, ← zpow_add₀ (by norm_num : (2:ℚ) ≠ 0)]; congr 1; omega
  have hs := shift_split L k
  have hpos : (0:ℚ) < 2 ^ k := by positivity
  have hlt := lost_lt_one L k
  have hcl := lossOfBits_cls L k
  have hL : (L:ℚ) = (((L >>> k : Nat) : ℚ) + ((L % 2 ^ k : Nat) : ℚ) / 2 ^ k) * 2 ^ k := by
    rw [← hs]; field_simp
  have hf0 : (0:ℚ) ≤ ((L % 2 ^ k : Nat) : ℚ) / 2 ^ k := by positivity
  generalize ((L % 2 ^ k : Nat) : ℚ) / 2 ^ k = f0 at *
  by_cases hz : f0 = 0
  · have hl0 : lossOfBits L k = .zero := by rw [hcl]; exact cls_zero_iff.mpr hz
    rw [hl0] at hle ⊢
    simp only [if_true, Nat.sub_zero, Nat.add_zero] at hle ⊢
    refine ⟨0, le_refl _, by norm_num, by simp [cls, Loss.invert], ?_⟩
    rw [Nat.cast_sub hle, e1, e2]
    push_cast
    generalize ((L >>> k : Nat) : ℚ) = Y at *
    rw [hL, hz]; ring
  · have hl0 : lossOfBits L k ≠ .zero := by rw [hcl]; exact fun h => hz (cls_zero_iff.mp h)
    rw [if_neg hl0] at hle ⊢
    have hfpos : 0 < f0 := lt_of_le_of_ne hf0 (Ne.symm hz)
    refine ⟨1 - f0, by linarith, by linarith, ?_, ?_⟩
    · rw [invert_cls hfpos hlt, hcl]
    · have : 2 * H - L >>> k - 1 = 2 * H - (L >>> k + 1) := by omega
      rw [this, Nat.cast_sub hle, e1, e2]
      push_cast
      generalize ((L >>> k : Nat) : ℚ) = Y at *
      rw [hL]; ring

/-! ### Rounding: never zero above the quantum; exact on representable values -/

theorem overflow_ne_zero (F : Sem) (rm : RM) (s s' : Bool) : Spec.overflow F rm s ≠ .zero s' := by
  cases rm <;> cases s <;> simp [Spec.overflow]

/-- a magnitude of at least one quantum `2^(emin-(p-1))` never rounds to a zero -/
theorem round_ne_zero (F : Sem) (rm : RM) (s s' : Bool) (q : ℚ) (hp : 1 ≤ F.p)
    (hq : (2:ℚ) ^ (F.emin - ((F.p:Int) - 1)) ≤ q) : Spec.round F rm s q ≠ .zero s' := by
  have hqpos : 0 < q := lt_of_lt_of_le (by positivity) hq
  obtain ⟨hlo, _⟩ := ilog2_spec hqpos
  unfold Spec.round
  simp only
  set e := max (ilog2 q) F.emin with he
  have hle : (2:ℚ) ^ (e - ((F.p:Int) - 1)) ≤ q := by
    rcases le_total (ilog2 q) F.emin with h | h
    · rw [he, max_eq_right h]; exact hq
    · rw [he, max_eq_left h]
      have : (2:ℚ) ^ (ilog2 q - ((F.p:Int) - 1)) ≤ 2 ^ ilog2 q :=
        zpow_le_zpow_right₀ (by norm_num) (by omega)
      linarith
  have hpos : (0:ℚ) < 2 ^ (e - ((F.p:Int) - 1)) := by positivity
  have ht : (1:ℚ) ≤ q / pow2 (e - ((F.p:Int) - 1)) := by
    rw [pow2_eq, le_div_iff₀ hpos, one_mul]; exact hle
  generalize q / pow2 (e - ((F.p:Int) - 1)) = t at ht
  have hfl : 1 ≤ t.floor.toNat := by
    have : (1:Int) ≤ ⌊t⌋ := Int.le_floor.mpr (by exact_mod_cast ht)
    have h2 : t.floor = ⌊t⌋ := rfl
    rw [h2]; omega
  generalize t.floor.toNat = m at hfl
  generalize Spec.up rm s m (t - (m:ℚ)) = u
  unfold Spec.finish
  simp only
  have hm' : (if u = true then m + 1 else m) ≠ 0 := by split <;> omega
  split_ifs <;> first | exact overflow_ne_zero _ _ _ _ | (exfalso; omega) | simp

/-- `normalize` without loss leaves a canonical finite non-zero value unchanged -/
theorem normalize_id_of_canonical (x : Flt) (rm : RM) (hx : x.cat = .normal)
    (hc : x.Canonical) : x.normalize rm .zero = x := by
  obtain ⟨h1, h2, h3, h4, h5⟩ := (Flt.canonical_normal hx).mp hc
  have hm : x.mant ≠ 0 := by omega
  have hn1 : 1 ≤ msb x.mant := msb_pos hm
  have hn2 : msb x.mant ≤ x.sem.p := msb_le_of_lt h4
  have hn3 : x.sem.emin < x.exp → msb x.mant = x.sem.p := by
    intro h
    have : 2 ^ (x.sem.p - 1) ≤ x.mant := by omega
    have := lt_msb_of_le this
    omega
  unfold Flt.normalize
  simp only [hx, ne_eq, not_true_eq_false, if_false]
  set n := msb x.mant with hn
  rw [if_pos (by omega)]
  rw [if_neg (by omega)]
  have hec : (if x.exp + ((n:Int) - x.sem.p) < x.sem.emin then x.sem.emin - x.exp
      else (n:Int) - x.sem.p) = 0 := by
    split
    · by_contra hne
      have := hn3 (by omega)
      omega
    · by_contra hne
      have := hn3 (by omega)
      omega
  rw [hec]
  simp [Flt.normalize.stepII, hm]

/-- rounding a representable value is exact -/
theorem round_canonical_exact (x : Flt) (rm : RM) (hF : x.sem.WF) (hx : x.cat = .normal)
    (hc : x.Canonical) : Spec.round x.sem rm x.sign x.mag = .fin x.sign x.exp x.mant := by
  obtain ⟨_, _, h3, _, _⟩ := (Flt.canonical_normal hx).mp hc
  have hm : x.mant ≠ 0 := by omega
  have h := normalize_denotes x rm .zero x.mag hF hx hm
    (by rw [Flt.mag_eq]; exact denotes_exact _ _ _) (fun _ _ => rfl)
  rw [normalize_id_of_canonical x rm hx hc] at h
  rw [← h]; simp [Flt.toRes, hx]

/-! ### The common tail of the (normal, normal) arm of `addSub` -/

/-- what the (normal, normal) arm of `addSub` does with the pair returned by `addOrSubNormals`,
    against the exact value `v` -/
def Good (F : Sem) (rm : RM) (r : Flt × Loss) (v : ℚ) : Prop :=
  (if (r.1.normalize rm r.2).isZero then (r.1.normalize rm r.2).setSign (rm == .neg)
    else r.1.normalize rm r.2).toRes = Spec.roundQ F rm v (rm == .neg)

theorem good_zero (F : Sem) (rm : RM) (sg : Bool) : Good F rm (Flt.new F sg e 0, .zero) 0 := by
  simp [Good, Flt.new, Flt.zero, Flt.normalize, Flt.isZero, Flt.setSign, Flt.toRes, Spec.roundQ]

theorem good_of_denotes (F : Sem) (rm : RM) (sg : Bool) (e : Int) (m : Nat) (loss : Loss)
    (q v : ℚ) (hF : F.WF) (hm : m ≠ 0) (he : F.emin ≤ e) (hd : Denotes F.p m e loss q)
    (hpre : msb m < F.p → F.emin < e → loss = .zero) (hv : v = if sg then -q else q) :
    Good F rm (Flt.new F sg e m, loss) v := by
  have hnew : Flt.new F sg e m = ⟨F, sg, e, m, .normal⟩ := by simp [Flt.new, hm]
  have hn := normalize_denotes ⟨F, sg, e, m, .normal⟩ rm loss q hF rfl hm hd hpre
  have hne := round_ne_zero F rm sg
  have hq := denotes_ge_quantum (emin := F.emin) hd hm he
  have hqpos := denotes_pos hd hm
  simp only at hn
  unfold Good
  rw [hnew]
  simp only
  generalize (Flt.normalize ⟨F, sg, e, m, .normal⟩ rm loss) = res at hn
  have hz : res.isZero = false := by
    cases hc : res.cat <;> simp [Flt.isZero, hc]
    rw [Flt.toRes, hc] at hn
    exact round_ne_zero F rm sg res.sign q (by have := hF.2; omega) hq hn.symm
  rw [hz]
  simp only [Bool.false_eq_true, if_false]
  rw [hn, hv]
  unfold Spec.roundQ
  cases sg
  · simp only [Bool.false_eq_true, if_false]
    rw [if_neg (ne_of_gt hqpos), if_pos hqpos]
  · simp only [if_true]
    rw [if_neg (by linarith), if_neg (by linarith), neg_neg]

/-! ### `addOrSubNormals`, branch by branch -/

theorem xor_self_not (sa : Bool) : (false ^^ (sa ^^ !sa)) = true := by cases sa <;> rfl

theorem aos_add_gt (F : Sem) (sa : Bool) (ea eb : Int) (A B g : Nat) (hg : ea = eb + g)
    (hgpos : 0 < g) :
    addOrSubNormals ⟨F, sa, ea, A, .normal⟩ ⟨F, sa, eb, B, .normal⟩ false
      = (Flt.new F sa ea (A + B >>> g), lossOfBits B g) := by
  have h1 : ea - eb > 0 := by omega
  have h2 : (ea - eb).toNat = g := by omega
  simp only [addOrSubNormals, Bool.xor_self, Bool.false_eq_true, if_false, h1, if_true, h2,
    Flt.shiftSigRight]

theorem aos_add_le (F : Sem) (sa : Bool) (ea eb : Int) (A B g : Nat) (hg : eb = ea + g) :
    addOrSubNormals ⟨F, sa, ea, A, .normal⟩ ⟨F, sa, eb, B, .normal⟩ false
      = (Flt.new F sa eb (A >>> g + B), lossOfBits A g) := by
  have h1 : ¬ (ea - eb > 0) := by omega
  have h2 : (-(ea - eb)).toNat = g := by omega
  have h3 : ea + (g:Int) = eb := by omega
  simp only [addOrSubNormals, Bool.xor_self, Bool.false_eq_true, if_false, h1, h2,
    Flt.shiftSigRight, h3]

theorem aos_sub_eq (F : Sem) (sa : Bool) (ea : Int) (A B : Nat) :
    addOrSubNormals ⟨F, sa, ea, A, .normal⟩ ⟨F, !sa, ea, B, .normal⟩ false
      = if A < B then (Flt.new F (!sa) ea (B - A), .zero) else (Flt.new F sa ea (A - B), .zero) := by
  simp only [addOrSubNormals, xor_self_not, if_true, sub_self, Loss.invert, Nat.sub_zero]

theorem aos_sub_gt (F : Sem) (sa : Bool) (ea eb : Int) (A B g : Nat) (hg : ea = eb + g)
    (hgpos : 0 < g) (hlt : ¬ (2 * A < B >>> (g - 1))) :
    addOrSubNormals ⟨F, sa, ea, A, .normal⟩ ⟨F, !sa, eb, B, .normal⟩ false
      = (Flt.new F sa (ea - 1)
          (2 * A - B >>> (g - 1) - (if lossOfBits B (g - 1) = .zero then 0 else 1)),
         (lossOfBits B (g - 1)).invert) := by
  have h0 : ¬ (ea - eb = 0) := by omega
  have h1 : ea - eb > 0 := by omega
  have h2 : (ea - eb - 1).toNat = g - 1 := by omega
  have h4 : A <<< 1 = 2 * A := by rw [Nat.shiftLeft_eq]; ring
  simp only [addOrSubNormals, xor_self_not, if_true, h0, if_false, h1, h2, Flt.shiftSigRight,
    Flt.shiftSigLeft, h4, hlt, Nat.cast_one]

theorem aos_sub_lt (F : Sem) (sa : Bool) (ea eb : Int) (A B g : Nat) (hg : eb = ea + g)
    (hgpos : 0 < g) (hlt : A >>> (g - 1) < 2 * B) :
    addOrSubNormals ⟨F, sa, ea, A, .normal⟩ ⟨F, !sa, eb, B, .normal⟩ false
      = (Flt.new F (!sa) (eb - 1)
          (2 * B - A >>> (g - 1) - (if lossOfBits A (g - 1) = .zero then 0 else 1)),
         (lossOfBits A (g - 1)).invert) := by
  have h0 : ¬ (ea - eb = 0) := by omega
  have h1 : ¬ (ea - eb > 0) := by omega
  have h2 : (-(ea - eb) - 1).toNat = g - 1 := by omega
  have h3 : ea + ((g - 1 : Nat) : Int) = eb - 1 := by omega
  have h4 : B <<< 1 = 2 * B := by rw [Nat.shiftLeft_eq]; ring
  simp only [addOrSubNormals, xor_self_not, if_true, h0, if_false, h1, h2, Flt.shiftSigRight,
    Flt.shiftSigLeft, h4, hlt, h3]

theorem val_normal (F : Sem) (sg : Bool) (e : Int) (m : Nat) :
    Flt.val ⟨F, sg, e, m, .normal⟩ = if sg then -((m:ℚ) * 2 ^ (e - ((F.p:Int) - 1)))
      else (m:ℚ) * 2 ^ (e - ((F.p:Int) - 1)) := by
  simp only [Flt.val, Flt.mag_eq]

/-! ### Arithmetic facts about the borrow-subtraction -/

/-- bounds for `2H - (L >>> (g-1)) - c` when the high operand is normal -/
theorem sub_bounds (p H L g : Nat) (hp : 1 ≤ p) (hH : 2 ^ (p - 1) ≤ H)
    (hL : L < 2 ^ p) :
    L >>> (g - 1) < 2 * H ∧
    L >>> (g - 1) + (if lossOfBits L (g - 1) = .zero then 0 else 1) ≤ 2 * H ∧
    2 * H - L >>> (g - 1) - (if lossOfBits L (g - 1) = .zero then 0 else 1) ≠ 0 ∧
    (lossOfBits L (g - 1) ≠ .zero →
      2 ^ (p - 1) ≤ 2 * H - L >>> (g - 1) - (if lossOfBits L (g - 1) = .zero then 0 else 1)) := by
  have h2p := two_pow_pred hp
  have hY : L >>> (g - 1) ≤ L := by
    rw [Nat.shiftRight_eq_div_pow]; exact Nat.div_le_self _ _
  by_cases hl : lossOfBits L (g - 1) = .zero
  · rw [if_pos hl]
    refine ⟨by omega, by omega, by omega, fun h => absurd hl h⟩
  · rw [if_neg hl]
    have hk : 1 ≤ g - 1 := by
      by_contra hc
      have : g - 1 = 0 := by omega
      rw [this] at hl; exact hl (lossOfBits_zero_bits L)
    have hY2 : L >>> (g - 1) < 2 ^ (p - 1) := by
      rw [Nat.shiftRight_eq_div_pow, Nat.div_lt_iff_lt_mul (by positivity)]
      have : 2 ^ 1 ≤ 2 ^ (g - 1) := Nat.pow_le_pow_right (by norm_num) hk
      calc L < 2 ^ p := hL
        _ = 2 ^ (p - 1) * 2 ^ 1 := by rw [h2p]; ring
        _ ≤ 2 ^ (p - 1) * 2 ^ (g - 1) := Nat.mul_le_mul_left _ this
    have h1 : 1 ≤ 2 ^ (p - 1) := Nat.one_le_two_pow
    refine ⟨by omega, by omega, by omega, fun _ => by omega⟩

/-! ### The (normal, normal) arm -/

theorem addNormals_good (F : Sem) (rm : RM) (sa sb : Bool) (ea eb : Int) (A B : Nat) (hF : F.WF)
    (ha : Flt.Canonical ⟨F, sa, ea, A, .normal⟩) (hb : Flt.Canonical ⟨F, sb, eb, B, .normal⟩) :
    Good F rm (addOrSubNormals ⟨F, sa, ea, A, .normal⟩ ⟨F, sb, eb, B, .normal⟩ false)
      (Flt.val ⟨F, sa, ea, A, .normal⟩ + Flt.val ⟨F, sb, eb, B, .normal⟩) := by
  obtain ⟨a1, a2, a3, a4, a5⟩ := (Flt.canonical_normal rfl).mp ha
  obtain ⟨b1, b2, b3, b4, b5⟩ := (Flt.canonical_normal rfl).mp hb
  simp only at a1 a2 a3 a4 a5 b1 b2 b3 b4 b5
  have hp : 1 ≤ F.p := by have := hF.2; omega
  rw [val_normal, val_normal]
  by_cases hsg : sb = sa
  · -- like signs: pure addition
    subst hsg
    rcases lt_or_ge eb ea with h | h
    · obtain ⟨g, hg⟩ : ∃ g : Nat, ea = eb + g := ⟨(ea - eb).toNat, by omega⟩
      have hA : 2 ^ (F.p - 1) ≤ A := by omega
      rw [aos_add_gt F sb ea eb A B g hg (by omega)]
      refine good_of_denotes F rm sb ea _ _ _ _ hF (Nat.ne_of_gt (Nat.add_pos_left a3 _)) a1
        (denotes_add F.p A B ea eb g hg) ?_ ?_
      · intro hm
        have := lt_msb_of_le (le_trans hA (Nat.le_add_right A (B >>> g)))
        omega
      · cases sb <;> simp only [Bool.false_eq_true, if_false, if_true]
        ring
    · obtain ⟨g, hg⟩ : ∃ g : Nat, eb = ea + g := ⟨(eb - ea).toNat, by omega⟩
      rw [aos_add_le F sb ea eb A B g hg, Nat.add_comm]
      refine good_of_denotes F rm sb eb _ _ _ _ hF (Nat.ne_of_gt (Nat.add_pos_left b3 _)) b1
        (denotes_add F.p B A eb ea g hg) ?_ ?_
      · intro hm hlt
        have hB : 2 ^ (F.p - 1) ≤ B := by omega
        have := lt_msb_of_le (le_trans hB (Nat.le_add_right B (A >>> g)))
        omega
      · cases sb <;> simp only [Bool.false_eq_true, if_false, if_true] <;> ring
  · -- unlike signs: true subtraction
    have hsb : sb = !sa := by cases sa <;> cases sb <;> simp_all
    subst hsb
    rcases lt_trichotomy ea eb with h | h | h
    · -- b has the larger exponent (and is normal)
      obtain ⟨g, hg⟩ : ∃ g : Nat, eb = ea + g := ⟨(eb - ea).toNat, by omega⟩
      have hB : 2 ^ (F.p - 1) ≤ B := by omega
      obtain ⟨s1, s2, s3, s4⟩ := sub_bounds F.p B A g hp hB a4
      rw [aos_sub_lt F sa ea eb A B g hg (by omega) s1]
      refine good_of_denotes F rm (!sa) (eb - 1) _ _ _ _ hF s3 (by omega)
        (denotes_sub F.p B A eb ea g hg (by omega) s2) ?_ ?_
      · intro hm _
        rw [invert_eq_zero]
        by_contra hl
        have := lt_msb_of_le (s4 hl)
        omega
      · cases sa <;> simp only [Bool.not_false, Bool.not_true, Bool.false_eq_true, if_false,
          if_true] <;> ring
    · -- equal exponents: exact
      subst h
      rw [aos_sub_eq]
      rcases Nat.lt_trichotomy A B with hlt | heq | hgt
      · rw [if_pos hlt]
        refine good_of_denotes F rm (!sa) ea _ _ _ _ hF (by omega) a1
          (denotes_exact F.p (B - A) ea) (fun _ _ => rfl) ?_
        rw [Nat.cast_sub (le_of_lt hlt)]
        cases sa <;> simp only [Bool.not_false, Bool.not_true, Bool.false_eq_true, if_false,
          if_true] <;> ring
      · subst heq
        rw [if_neg (lt_irrefl _), Nat.sub_self]
        have : (if sa = true then -((A:ℚ) * 2 ^ (ea - ((F.p:Int) - 1)))
            else (A:ℚ) * 2 ^ (ea - ((F.p:Int) - 1))) +
          (if (!sa) = true then -((A:ℚ) * 2 ^ (ea - ((F.p:Int) - 1)))
            else (A:ℚ) * 2 ^ (ea - ((F.p:Int) - 1))) = 0 := by
          cases sa <;> simp
        rw [this]
        exact good_zero F rm sa
      · rw [if_neg (by omega)]
        refine good_of_denotes F rm sa ea _ _ _ _ hF (by omega) a1
          (denotes_exact F.p (A - B) ea) (fun _ _ => rfl) ?_
        rw [Nat.cast_sub (le_of_lt hgt)]
        cases sa <;> simp only [Bool.not_false, Bool.not_true, Bool.false_eq_true, if_false,
          if_true] <;> ring
    · -- a has the larger exponent (and is normal)
      obtain ⟨g, hg⟩ : ∃ g : Nat, ea = eb + g := ⟨(ea - eb).toNat, by omega⟩
      have hA : 2 ^ (F.p - 1) ≤ A := by omega
      obtain ⟨s1, s2, s3, s4⟩ := sub_bounds F.p A B g hp hA b4
      rw [aos_sub_gt F sa ea eb A B g hg (by omega) (by omega)]
      refine good_of_denotes F rm sa (ea - 1) _ _ _ _ hF s3 (by omega)
        (denotes_sub F.p A B ea eb g hg (by omega) s2) ?_ ?_
      · intro hm _
        rw [invert_eq_zero]
        by_contra hl
        have := lt_msb_of_le (s4 hl)
        omega
      · cases sa <;> simp only [Bool.not_false, Bool.not_true, Bool.false_eq_true, if_false,
          if_true] <;> ring

end Arp
